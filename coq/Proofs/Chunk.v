(* Proofs/Chunk.v -- C11: lemmas about the model of data.Chunk (Model/Chunk.v).
   Everything is about Model.Chunk.step / run, the definitions the correspondence run evaluates. *)
From XMT Require Import Base.Prelude Base.BitLemmas Model.Codec Model.Chunk.
From Coq Require Import ZifyBool.
Ltac Zify.zify_post_hook ::= Z.div_mod_to_equations.

(* ================================================================================================ *)
(* 1. lists with Z indices                                                                          *)
(* ================================================================================================ *)

Lemma tk_len {A} k (l : list A) : 0 <= k <= len l -> len (take k l) = k.
Proof. unfold len, take. intros. rewrite firstn_length. lia. Qed.
Lemma tk_len_le {A} k (l : list A) : len (take k l) <= len l.
Proof. unfold len, take. rewrite firstn_length. lia. Qed.
Lemma dr_len {A} k (l : list A) : 0 <= k <= len l -> len (drop k l) = len l - k.
Proof. unfold len, drop. intros. rewrite skipn_length. lia. Qed.
Lemma tk_all {A} k (l : list A) : len l <= k -> take k l = l.
Proof. unfold len, take. intros. apply firstn_all2. lia. Qed.
Lemma tk_0 {A} k (l : list A) : k <= 0 -> take k l = [].
Proof. unfold take. intros. replace (Z.to_nat k) with 0%nat by lia. reflexivity. Qed.
Lemma dr_0 {A} k (l : list A) : k <= 0 -> drop k l = l.
Proof. unfold drop. intros. replace (Z.to_nat k) with 0%nat by lia. reflexivity. Qed.
Lemma dr_all {A} k (l : list A) : len l <= k -> drop k l = [].
Proof. unfold len, drop. intros. apply skipn_all2. lia. Qed.
Lemma tk_dr_id {A} k (l : list A) : take k l ++ drop k l = l.
Proof. unfold take, drop. apply firstn_skipn. Qed.

Lemma tk_app_l {A} k (a b : list A) : k <= len a -> take k (a ++ b) = take k a.
Proof.
  unfold len, take. intros. rewrite firstn_app.
  replace (Z.to_nat k - length a)%nat with 0%nat by lia. cbn [firstn]. apply app_nil_r.
Qed.
Lemma tk_app_r {A} k (a b : list A) : len a <= k -> take k (a ++ b) = a ++ take (k - len a) b.
Proof.
  unfold len, take. intros. rewrite firstn_app. rewrite firstn_all2 by lia.
  f_equal. f_equal. lia.
Qed.
Lemma tk_app_exact {A} k (a b : list A) : k = len a -> take k (a ++ b) = a.
Proof. intros. rewrite tk_app_l by lia. apply tk_all. lia. Qed.
Lemma dr_app_l {A} k (a b : list A) : k <= len a -> drop k (a ++ b) = drop k a ++ b.
Proof.
  unfold len, drop. intros. rewrite skipn_app.
  replace (Z.to_nat k - length a)%nat with 0%nat by lia. reflexivity.
Qed.
Lemma dr_app_r {A} k (a b : list A) : len a <= k -> drop k (a ++ b) = drop (k - len a) b.
Proof.
  unfold len, drop. intros. rewrite skipn_app. rewrite skipn_all2 by lia.
  cbn [app]. f_equal. lia.
Qed.
Lemma dr_app_exact {A} k (a b : list A) : k = len a -> drop k (a ++ b) = b.
Proof. intros. rewrite dr_app_r by lia. apply dr_0. lia. Qed.

Lemma tk_tk {A} a b (l : list A) : a <= b -> take a (take b l) = take a l.
Proof.
  unfold take. intros. rewrite firstn_firstn. f_equal. lia.
Qed.
Lemma skipn_skipn_nat {A} (x y : nat) : forall l : list A, skipn x (skipn y l) = skipn (y + x) l.
Proof.
  induction y as [|y IH]; intros l; [reflexivity|].
  destruct l as [|h t]; [rewrite !skipn_nil; reflexivity|]. cbn [skipn Nat.add]. apply IH.
Qed.
Lemma dr_dr {A} a b (l : list A) : 0 <= a -> 0 <= b -> drop a (drop b l) = drop (a + b) l.
Proof.
  unfold drop. intros. rewrite skipn_skipn_nat. f_equal. lia.
Qed.
Lemma dr_tk {A} a b (l : list A) : 0 <= a <= b -> drop a (take b l) = take (b - a) (drop a l).
Proof.
  unfold take, drop. intros. rewrite skipn_firstn_comm. f_equal. lia.
Qed.
(* take b = take a, then the next b - a *)
Lemma tk_split {A} a b (l : list A) : 0 <= a <= b -> take b l = take a l ++ take (b - a) (drop a l).
Proof.
  intros. rewrite <- (tk_dr_id a (take b l)). rewrite tk_tk by lia. rewrite dr_tk by lia. reflexivity.
Qed.
Lemma len_repeat {A} (x : A) n : len (repeat x n) = Z.of_nat n.
Proof. unfold len. rewrite repeat_length. reflexivity. Qed.

Lemma suffix_refl a : suffix_of a a.
Proof. exists []. reflexivity. Qed.
Lemma suffix_nil a : suffix_of [] a.
Proof. exists a. symmetry. apply app_nil_r. Qed.
Lemma suffix_trans a b c : suffix_of a b -> suffix_of b c -> suffix_of a c.
Proof. intros [x Hx] [y Hy]. exists (y ++ x). subst. apply app_assoc. Qed.
Lemma suffix_drop k l : suffix_of (drop k l) l.
Proof. exists (take k l). symmetry. apply tk_dr_id. Qed.
Lemma suffix_app a b : suffix_of b (a ++ b).
Proof. exists a. reflexivity. Qed.

(* byte lists *)
Lemma bl_app a b : byte_list a -> byte_list b -> byte_list (a ++ b).
Proof. unfold byte_list. intros. apply Forall_app. split; assumption. Qed.
Lemma Forall_firstn_nat {A} (P : A -> Prop) n : forall l, Forall P l -> Forall P (firstn n l).
Proof.
  induction n as [|n IH]; intros l H; [constructor|].
  destruct H; cbn [firstn]; constructor; auto.
Qed.
Lemma Forall_skipn_nat {A} (P : A -> Prop) n : forall l, Forall P l -> Forall P (skipn n l).
Proof.
  induction n as [|n IH]; intros l H; [exact H|].
  destruct H; cbn [skipn]; [constructor | auto].
Qed.
Lemma bl_take k l : byte_list l -> byte_list (take k l).
Proof. apply Forall_firstn_nat. Qed.
Lemma bl_drop k l : byte_list l -> byte_list (drop k l).
Proof. apply Forall_skipn_nat. Qed.
Lemma bl_zeros n : byte_list (repeat 0 n).
Proof. unfold byte_list. rewrite Forall_forall. intros x Hx. apply repeat_spec in Hx. lia. Qed.
Lemma bl_nil : byte_list [].
Proof. constructor. Qed.
Lemma bl_u8 x : 0 <= u8 x < 256.
Proof. unfold u8. lia. Qed.

Lemma of_be_nonneg l : forall acc, byte_list l -> 0 <= acc -> 0 <= of_be l acc.
Proof.
  induction l as [|b r IH]; intros acc H Ha; cbn [of_be]; [exact Ha|].
  inversion H; subst. apply IH; [assumption | lia].
Qed.

(* ---- overwrite ---------------------------------------------------------------------------------- *)
Lemma ow_len m i d : 0 <= i -> i + len d <= len m -> len (overwrite m i d) = len m.
Proof.
  intros. pose proof (len_nonneg d). unfold overwrite. rewrite !len_app, tk_len, dr_len by lia. lia.
Qed.
Lemma ow_take_lo m i d j : j <= i -> 0 <= i <= len m -> take j (overwrite m i d) = take j m.
Proof.
  intros. unfold overwrite. rewrite tk_app_l by (rewrite tk_len by lia; lia). apply tk_tk. lia.
Qed.
Lemma ow_take_hi m i d : 0 <= i <= len m -> take (i + len d) (overwrite m i d) = take i m ++ d.
Proof.
  intros. pose proof (len_nonneg d). unfold overwrite. rewrite tk_app_r by (rewrite tk_len by lia; lia).
  rewrite tk_len by lia. f_equal. apply tk_app_exact. lia.
Qed.
Lemma ow_end m i d : 0 <= i -> i + len d = len m -> overwrite m i d = take i m ++ d.
Proof.
  intros. unfold overwrite. rewrite dr_all by lia. rewrite app_nil_r. reflexivity.
Qed.
(* storing below the length commutes with cutting at the length *)
Lemma ow_take_comm m i d k : 0 <= i -> i + len d <= k -> k <= len m ->
  take k (overwrite m i d) = overwrite (take k m) i d.
Proof.
  intros. pose proof (len_nonneg d). unfold overwrite.
  rewrite tk_app_r by (rewrite tk_len by lia; lia). rewrite tk_len by lia.
  rewrite tk_app_r by lia. rewrite tk_tk by lia. rewrite dr_tk by lia.
  do 3 f_equal. lia.
Qed.
Lemma bl_overwrite m i d : byte_list m -> byte_list d -> byte_list (overwrite m i d).
Proof. intros. unfold overwrite. apply bl_app; [apply bl_take; assumption|]. apply bl_app; [assumption | apply bl_drop; assumption]. Qed.

(* ================================================================================================ *)
(* 2. primitives                                                                                    *)
(* ================================================================================================ *)
Ltac splits := repeat match goal with |- _ /\ _ => split end.
Ltac sim := cbn [mem blen rpos limit isnil with_len with_rpos with_mem bind fst snd] in *.

Lemma set_len_ok s k : 0 <= k <= cap s -> set_len s k = Ok (with_len s k).
Proof. unfold set_len. intros. replace ((k <? 0) || (cap s <? k)) with false by lia. reflexivity. Qed.

Lemma slice_ok {A} (l : list A) a b : 0 <= a <= b -> b <= len l -> slice l a b = Ok (take (b - a) (drop a l)).
Proof. unfold slice. intros. replace ((a <? 0) || (b <? a) || (len l <? b)) with false by lia. reflexivity. Qed.

Lemma idx_ok {A} (l : list A) i : 0 <= i < len l -> exists x, idx l i = Ok x.
Proof.
  unfold idx, len. intros. replace (i <? 0) with false by lia.
  destruct (nth_error l (Z.to_nat i)) eqn:E; [eauto|].
  apply nth_error_None in E. lia.
Qed.

Lemma buf_len s : inv s -> len (buf s) = blen s.
Proof. unfold inv, buf. intros. apply tk_len. lia. Qed.
Lemma abs_len s : inv s -> len (abs s) = blen s - rpos s.
Proof. intros H. unfold abs. rewrite dr_len; rewrite buf_len by assumption; unfold inv in H; lia. Qed.
Lemma past_len s : inv s -> len (past s) = rpos s.
Proof. intros H. unfold past. rewrite tk_len; [reflexivity|]. rewrite buf_len by assumption. unfold inv in H; lia. Qed.
Lemma buf_split s : buf s = past s ++ abs s.
Proof. unfold past, abs. symmetry. apply tk_dr_id. Qed.
Lemma slice_abs s : inv s -> slice (buf s) (rpos s) (blen s) = Ok (abs s).
Proof.
  intros H. pose proof (buf_len s H). pose proof (abs_len s H). unfold inv in H.
  rewrite slice_ok by lia. f_equal. apply tk_all. fold (abs s). lia.
Qed.
Lemma bl_buf s : inv s -> byte_list (buf s).
Proof. unfold inv, buf. intros. apply bl_take. tauto. Qed.
Lemma bl_abs s : inv s -> byte_list (abs s).
Proof. intros. unfold abs. apply bl_drop. apply bl_buf. assumption. Qed.

(* ================================================================================================ *)
(* 3. reslice / grow / quickSlice: reserving room at the end                                        *)
(* ================================================================================================ *)
(* the outcome of a successful reservation of n bytes on a chunk whose queue was q (retained
   history p, Limit lim, length bl): the new state s' and the index i where the caller stores *)
Definition reserved (q p : list Z) (lim bl n : Z) (s' : state) (i : Z) : Prop :=
  inv s' /\ limit s' = lim /\ rpos s' <= i /\ i <= blen s' /\ i <= bl /\ blen s' - i <= n /\
  drop (rpos s') (take i (buf s')) = q /\ suffix_of (past s') p /\
  (0 < lim -> blen s' <= lim) /\ (blen s' - i < n -> 0 < lim /\ blen s' = lim).
(* a refusal: the queue is as before *)
Definition same_q (q p : list Z) (lim bl : Z) (s' : state) : Prop :=
  inv s' /\ limit s' = lim /\ abs s' = q /\ suffix_of (past s') p /\ blen s' <= bl.

Lemma same_q_refl s : inv s -> same_q (abs s) (past s) (limit s) (blen s) s.
Proof. intros. unfold same_q. split; [assumption|]. split; [reflexivity|]. split; [reflexivity|]. split; [apply suffix_refl | lia]. Qed.

Lemma reslice_spec s n : inv s -> 0 <= n ->
  reslice s n = Ok None \/
  exists s', reslice s n = Ok (Some (s', blen s)) /\ reserved (abs s) (past s) (limit s) (blen s) n s' (blen s).
Proof.
  intros H Hn. destruct s as [m l r lim nl]. unfold inv in H. sim.
  destruct H as (H1 & H2 & H3 & H4 & H5).
  unfold reslice, cap. sim.
  destruct (n <=? len m - l) eqn:E1; [|left; reflexivity].
  destruct ((0 <? lim) && (lim <=? l)) eqn:E2; [left; reflexivity|]. right.
  set (n' := if (0 <? lim) && (lim <=? l + n) then lim - l else n).
  assert (Hn' : 0 <= n' <= n /\ (0 < lim -> l + n' <= lim) /\ (n' < n -> 0 < lim /\ l + n' = lim))
    by (subst n'; destruct ((0 <? lim) && (lim <=? l + n)) eqn:E3; lia).
  rewrite set_len_ok by (unfold cap; sim; lia). unfold with_len; sim.
  eexists. split; [reflexivity|].
  unfold reserved, inv, abs, past, buf; sim.
  repeat split; try lia; try assumption.
  - rewrite !tk_tk by lia. reflexivity.
  - rewrite !tk_tk by lia. apply suffix_refl.
Qed.

Lemma len0_nil {A} (l : list A) : len l = 0 -> l = [].
Proof. destruct l; [reflexivity|]. rewrite len_cons. pose proof (len_nonneg l). lia. Qed.

Definition grow_post (q p : list Z) (lim bl cp n : Z) (s' : state) (i e : Z) : Prop :=
  (e = 0 /\ reserved q p lim bl n s' i) \/
  (i = 0 /\ ((e = ErrLimit /\ 0 < lim) \/ (e = ErrTooLarge /\ MaxSlice < cp + n)) /\ same_q q p lim bl s').

Lemma reserved_weaken q p lim bl n' n s' i :
  reserved q p lim bl n' s' i -> n' <= n -> (n' < n -> 0 < lim /\ n' = lim) -> reserved q p lim bl n s' i.
Proof.
  unfold reserved. intros (Hi & H1 & H2 & H3 & H4 & H5 & H6 & H7 & H8 & H9) Hle Hc.
  unfold inv in Hi. repeat split; try tauto; try lia.
Qed.

Lemma grow_body_spec s1 n o : inv s1 -> 0 <= n ->
  exists s' i e, grow_body s1 (blen s1 - rpos s1) n o = Ok (s', (i, e)) /\
     grow_post (abs s1) (past s1) (limit s1) (blen s1) (cap s1) n s' i e.
Proof.
  intros H Hn. pose proof (slice_abs s1 H) as Hsl. pose proof (abs_len s1 H) as Hal.
  pose proof (bl_abs s1 H) as Hbq. pose proof (same_q_refl s1 H) as Hsame.
  pose proof H as Hinv. unfold inv in H. destruct H as (H1 & H2 & H3 & H4 & H5).
  unfold grow_body. remember (blen s1 - rpos s1) as x eqn:Hx. set (lim := limit s1) in *.
  destruct ((0 <? lim) && (lim <=? x)) eqn:E0.
  { exists s1, 0, ErrLimit. split; [reflexivity|]. right. split; [reflexivity|]. split; [left; split; [reflexivity|lia]|assumption]. }
  set (n' := if (0 <? lim) && (lim <? n) then lim else n).
  assert (Hn' : 0 <= n' <= n /\ (n' < n -> 0 < lim /\ n' = lim) /\ (0 < lim -> n' <= lim))
    by (subst n'; destruct ((0 <? lim) && (lim <? n)) eqn:E; lia).
  destruct (reslice_spec s1 n' Hinv (proj1 (proj1 Hn'))) as [R | (s' & R & HR)]; rewrite R; cbn [bind].
  2:{ exists s', (blen s1), 0. split; [reflexivity|]. left. split; [reflexivity|].
      eapply reserved_weaken; [exact HR | lia | tauto]. }
  destruct (isnil s1 && (n' <=? 64)) eqn:E1.
  { (* make([]byte, n, 64) *)
    replace (n' <? 0) with false by lia.
    assert (Hnil : isnil s1 = true) by (destruct (isnil s1); [reflexivity | discriminate]).
    specialize (H4 Hnil). rewrite H4 in H3. rewrite len_nil in H3.
    assert (Hq : abs s1 = []) by (apply len0_nil; lia).
    eexists _, 0, 0. split; [reflexivity|]. left. split; [reflexivity|].
    eapply reserved_weaken with (n' := n'); [|lia|tauto].
    unfold reserved, inv, past, buf; sim. rewrite len_repeat.
    replace (rpos s1) with 0 by lia. rewrite Hq.
    repeat split; try lia; try discriminate.
    - apply bl_zeros.
    - rewrite tk_0 by lia. apply suffix_nil. }
  set (m := cap s1).
  destruct (n' <=? m / 2 - x) eqn:E2.
  { (* slide *)
    rewrite Hsl. cbn [bind].
    set (n'' := if (0 <? lim) && (lim <? x + n') then lim - x else n').
    assert (Hn'' : 0 <= n'' <= n' /\ (0 < lim -> x + n'' <= lim) /\ (n'' < n' -> 0 < lim /\ x + n'' = lim))
      by (subst n''; destruct ((0 <? lim) && (lim <? x + n')) eqn:E; lia).
    assert (Hm : m = len (mem s1)) by reflexivity.
    assert (Hol : len (overwrite (mem s1) 0 (abs s1)) = len (mem s1)) by (apply ow_len; lia).
    rewrite set_len_ok by (unfold cap; sim; lia). unfold with_len, with_rpos, with_mem; sim.
    eexists _, x, 0. split; [reflexivity|]. left. split; [reflexivity|].
    eapply reserved_weaken with (n' := n'); [|lia|tauto].
    unfold reserved, inv, past, buf; sim.
    repeat split; try lia.
    - intros Hnil. exfalso. specialize (H4 Hnil). rewrite Hnil in E1. rewrite H4 in Hm, H3. rewrite len_nil in Hm, H3. lia.
    - apply bl_overwrite; assumption.
    - rewrite tk_tk by lia. rewrite dr_0 by lia.
      replace x with (0 + len (abs s1)) at 1 by lia. rewrite ow_take_hi by lia.
      rewrite tk_0 by lia. reflexivity.
    - rewrite tk_0 by lia. apply suffix_nil. }
  destruct ((0 <? lim) && ((lim + n' <? m) || (lim <? x + n'))) eqn:E3.
  { exists s1, 0, ErrLimit. split; [reflexivity|]. right. split; [reflexivity|]. split; [left; split; [reflexivity|lia]|assumption]. }
  destruct (max_int - m - n' <? m) eqn:E4.
  { exists s1, 0, ErrTooLarge. split; [reflexivity|]. right. split; [reflexivity|].
    split; [right; split; [reflexivity|unfold max_int, MaxSlice in *; lia]|assumption]. }
  rewrite Hsl. cbn [bind].
  destruct (MaxSlice <? rpos s1 + n') eqn:E5.
  { exists s1, 0, ErrTooLarge. split; [reflexivity|]. right. split; [reflexivity|].
    split; [right; split; [reflexivity|subst m; unfold cap in *; lia]|assumption]. }
  (* reallocation *)
  set (c := if len (abs s1) + (rpos s1 + n') <? 2 * (m - rpos s1) then 2 * (m - rpos s1) else len (abs s1) + (rpos s1 + n')).
  set (nc := Z.max c o).
  assert (Hc : x + rpos s1 + n' <= c) by (subst c; destruct (len (abs s1) + (rpos s1 + n') <? 2 * (m - rpos s1)) eqn:E; lia).
  assert (Hnc : x + rpos s1 + n' <= nc) by (subst nc; lia).
  assert (Hcl : len (abs s1 ++ repeat 0 (Z.to_nat (nc - len (abs s1)))) = nc)
    by (rewrite len_app, len_repeat; lia).
  rewrite set_len_ok by (unfold cap; sim; lia). unfold with_len; sim.
  eexists _, x, 0. split; [reflexivity|]. left. split; [reflexivity|].
  eapply reserved_weaken with (n' := n'); [|lia|tauto].
  unfold reserved, inv, past, buf; sim.
  repeat split; try lia; try discriminate.
  - apply bl_app; [assumption | apply bl_zeros].
  - rewrite tk_tk by lia. rewrite dr_0 by lia. apply tk_app_exact. lia.
  - rewrite tk_0 by lia. apply suffix_nil.
Qed.

Lemma grow_post_mono q p1 p lim bl1 bl cp n s' i e :
  grow_post q p1 lim bl1 cp n s' i e -> suffix_of p1 p -> bl1 <= bl -> grow_post q p lim bl cp n s' i e.
Proof.
  unfold grow_post, reserved, same_q. intros [(He & Hr) | (Hi & He & Hs)] Hp Hb.
  - left. split; [assumption|]. destruct Hr as (R1 & R2 & R3 & R4 & R5 & R6 & R7 & R8 & R9 & R10).
    splits; try assumption; try lia; try tauto. eapply suffix_trans; eassumption.
  - right. split; [assumption|]. split; [assumption|]. destruct Hs as (S1 & S2 & S3 & S4 & S5).
    splits; try assumption; try lia. eapply suffix_trans; eassumption.
Qed.

Lemma grow_spec s n o : inv s -> 0 <= n ->
  exists s' i e, grow s n o = Ok (s', (i, e)) /\
     grow_post (abs s) (past s) (limit s) (blen s) (cap s) n s' i e.
Proof.
  intros H Hn. unfold grow.
  destruct ((blen s - rpos s =? 0) && negb (rpos s =? 0)) eqn:E; cbn [bind].
  2:{ apply grow_body_spec; assumption. }
  pose proof (abs_len s H) as Hal. pose proof H as Hinv. unfold inv in H. destruct H as (H1 & H2 & H3 & H4 & H5).
  rewrite set_len_ok by (unfold cap; sim; pose proof (len_nonneg (mem s)); lia). cbn [bind].
  set (s1 := with_len (with_rpos s 0) 0).
  assert (I1 : inv s1) by (unfold inv, s1; sim; splits; try lia; assumption).
  assert (A1 : abs s1 = abs s).
  { rewrite (len0_nil (abs s)) by lia. apply len0_nil. rewrite abs_len by assumption. unfold s1; sim. lia. }
  assert (P1 : past s1 = []) by (unfold past, s1; sim; apply tk_0; lia).
  replace (blen s - rpos s) with (blen s1 - rpos s1) by (unfold s1; sim; lia).
  destruct (grow_body_spec s1 n o I1 Hn) as (s' & i & e & Hg & Hp).
  exists s', i, e. split; [exact Hg|].
  rewrite A1, P1 in Hp. change (limit s1) with (limit s) in Hp. change (cap s1) with (cap s) in Hp.
  eapply grow_post_mono; [exact Hp | apply suffix_nil | unfold s1; sim; lia].
Qed.

Lemma quick_slice_spec s n o : inv s -> 0 <= n ->
  exists s' i e, quick_slice s n o = Ok (s', (i, e)) /\
     grow_post (abs s) (past s) (limit s) (blen s) (cap s) n s' i e.
Proof.
  intros H Hn. unfold quick_slice.
  destruct (reslice_spec s n H Hn) as [R | (s' & R & HR)]; rewrite R; cbn [bind].
  - apply grow_spec; assumption.
  - exists s', (blen s), 0. split; [reflexivity|]. left. split; [reflexivity | assumption].
Qed.

(* ---- stores --------------------------------------------------------------------------------- *)
Lemma ow_nil (m : list Z) i : 0 <= i -> overwrite m i [] = m.
Proof. intros. unfold overwrite. rewrite len_nil. cbn [app]. replace (i + 0) with i by lia. apply tk_dr_id. Qed.

(* s2 is s with d stored at index i of the buffer *)
Definition stored (s : state) (i : Z) (d : list Z) (s2 : state) : Prop :=
  inv s2 /\ buf s2 = overwrite (buf s) i d /\ rpos s2 = rpos s /\ blen s2 = blen s /\ limit s2 = limit s.

Lemma with_mem_stored s i d : inv s -> 0 <= i -> i + len d <= blen s -> byte_list d ->
  stored s i d (with_mem s (overwrite (mem s) i d)).
Proof.
  intros H Hi Hl Hb. pose proof (len_nonneg d). unfold inv in H. destruct H as (H1 & H2 & H3 & H4 & H5).
  unfold stored, inv, buf; sim. rewrite ow_len by lia.
  splits; try lia.
  - intros Hn. specialize (H4 Hn). rewrite H4 in H3 |- *. rewrite len_nil in H3.
    rewrite (len0_nil d) by lia. apply ow_nil. lia.
  - apply bl_overwrite; assumption.
  - apply ow_take_comm; lia.
Qed.

Lemma put_spec s i bs : inv s -> 0 <= i -> i + len bs <= blen s -> byte_list bs ->
  exists s2, put s i bs = Ok s2 /\ stored s i bs s2.
Proof.
  intros H Hi Hl Hb. unfold put. destruct bs as [|b0 bs'].
  - cbn [is_nil]. exists s. split; [reflexivity|]. unfold stored. rewrite ow_nil by lia. tauto.
  - cbn [is_nil]. replace ((i <? 0) || (blen s <? i + len (b0 :: bs'))) with false by lia.
    eexists. split; [reflexivity|]. apply with_mem_stored; assumption.
Qed.

Lemma copy_at_spec s i b : inv s -> 0 <= i <= blen s -> byte_list b ->
  exists s2, copy_at s i b = Ok (s2, Z.min (blen s - i) (len b)) /\
    stored s i (take (Z.min (blen s - i) (len b)) b) s2.
Proof.
  intros H Hi Hb. pose proof (buf_len s H) as Hbl. pose proof (len_nonneg b).
  unfold copy_at. rewrite slice_ok by lia. cbn [bind].
  rewrite tk_len by (rewrite dr_len by lia; lia).
  eexists. split; [reflexivity|]. apply with_mem_stored; try assumption; try lia.
  - rewrite tk_len by lia. lia.
  - apply bl_take. assumption.
Qed.

(* storing d right at the end of a reservation appends d to the queue *)
Lemma stored_append q p lim bl n s1 i d s2 :
  reserved q p lim bl n s1 i -> stored s1 i d s2 -> i + len d = blen s1 ->
  abs s2 = q ++ d /\ past s2 = past s1.
Proof.
  unfold reserved, stored. intros (R1 & R2 & R3 & R4 & R5 & R6 & R7 & R8 & R9 & R10) (S1 & S2 & S3 & S4 & S5) Hl.
  pose proof (buf_len s1 R1) as Hbl. unfold inv in R1.
  unfold abs, past. rewrite S2, S3. rewrite ow_end by lia.
  split.
  - rewrite dr_app_l by (rewrite tk_len by lia; lia). rewrite R7. reflexivity.
  - rewrite tk_app_l by (rewrite tk_len by lia; lia). rewrite tk_tk by lia. reflexivity.
Qed.

Lemma reserved_inv q p lim bl n s1 i : reserved q p lim bl n s1 i -> inv s1 /\ 0 <= i.
Proof. unfold reserved, inv. intros. split; [tauto | lia]. Qed.

(* ================================================================================================ *)
(* 4. Write                                                                                         *)
(* ================================================================================================ *)
Definition okstep (s s' : state) : Prop := inv s' /\ limit s' = limit s /\ (lim_ok s -> lim_ok s').

Lemma same_q_okstep s s' : same_q (abs s) (past s) (limit s) (blen s) s' -> okstep s s'.
Proof. unfold same_q, okstep, lim_ok. intros (S1 & S2 & S3 & S4 & S5). splits; try assumption. rewrite S2. lia. Qed.

Lemma write_spec s b o : inv s -> byte_list b ->
  exists s' n e, write s b o = Ok (s', (n, e)) /\ okstep s s' /\
    qstep (limit s) (past s) (abs s) (OWrite b) (RNE n e) (past s') (abs s') /\
    (e = ErrTooLarge -> MaxSlice < cap s + len b).
Proof.
  intros H Hb. pose proof (len_nonneg b) as Hlb. unfold write.
  destruct (quick_slice_spec s (len b) o H Hlb) as (s1 & i & e & Hq & Hp). rewrite Hq. cbn [bind].
  destruct Hp as [(He & Hr) | (Hi & He & Hs)].
  - subst e. cbn [Z.eqb negb].
    destruct (reserved_inv _ _ _ _ _ _ _ Hr) as (I1 & Hi0).
    pose proof Hr as Hr'. unfold reserved in Hr'. destruct Hr' as (_ & R2 & R3 & R4 & R5 & R6 & R7 & R8 & R9 & R10).
    destruct (copy_at_spec s1 i b I1 ltac:(lia) Hb) as (s2 & Hc & Hst). rewrite Hc. cbn [bind].
    replace (Z.min (blen s1 - i) (len b)) with (blen s1 - i) in * by lia.
    set (k := blen s1 - i) in *.
    destruct (stored_append _ _ _ _ _ _ _ _ _ Hr Hst) as (A2 & P2); [rewrite tk_len by lia; lia|].
    pose proof Hst as (S1 & S2 & S3 & S4 & S5).
    assert (OK : okstep s s2) by (unfold okstep, lim_ok; splits; try assumption; lia).
    destruct ((k <? len b) && (0 <? limit s2) && (limit s2 <=? blen s2)) eqn:E.
    + exists s2, k, ErrLimit. split; [reflexivity|]. split; [exact OK|]. split.
      * cbn [qstep]. rewrite A2, P2. unfold wr_err, ErrLimit, ErrTooLarge.
        splits; try lia; try assumption; reflexivity.
      * unfold ErrLimit, ErrTooLarge. discriminate.
    + exists s2, k, 0. split; [reflexivity|]. split; [exact OK|]. split.
      * cbn [qstep]. rewrite A2, P2. unfold wr_err.
        splits; try lia; try assumption; reflexivity.
      * unfold ErrTooLarge. discriminate.
  - assert (Ene : negb (e =? 0) = true) by (unfold ErrLimit, ErrTooLarge in He; lia).
    rewrite Ene. exists s1, 0, e. split; [reflexivity|]. split; [apply same_q_okstep; assumption|].
    destruct Hs as (S1 & S2 & S3 & S4 & S5). split.
    + cbn [qstep]. rewrite S3. rewrite tk_0 by lia. rewrite app_nil_r. unfold wr_err.
      splits; try lia; try assumption; try reflexivity.
      intros _. destruct b as [|b0 b']; [right; reflexivity|left]. rewrite len_cons. pose proof (len_nonneg b'). lia.
    + intros Ht. destruct He as [(He & _) | (_ & He)]; [unfold ErrLimit, ErrTooLarge in *; lia | exact He].
Qed.

(* ================================================================================================ *)
(* 5. typed writes                                                                                  *)
(* ================================================================================================ *)
Lemma check_write_size_spec s n o : inv s -> 0 <= n ->
  exists s1 i e, check_write_size s n o = Ok (s1, (i, e)) /\
    ((i = -1 /\ ((e = ErrLimit /\ 0 < limit s) \/ (e = ErrTooLarge /\ MaxSlice < cap s + n)) /\
      same_q (abs s) (past s) (limit s) (blen s) s1) \/
     (0 <= i /\ e = 0 /\ reserved (abs s) (past s) (limit s) (blen s) n s1 i /\ blen s1 = i + n)).
Proof.
  intros H Hn. unfold check_write_size, available.
  destruct ((0 <? limit s) && negb ((limit s <=? 0) || (n <? limit s - blen s))) eqn:E.
  { exists s, (-1), ErrLimit. split; [reflexivity|]. left. split; [reflexivity|].
    split; [left; split; [reflexivity|lia] | apply same_q_refl; assumption]. }
  destruct (quick_slice_spec s n o H Hn) as (s1 & i & e & Hq & Hp). rewrite Hq. cbn [bind].
  destruct Hp as [(He & Hr) | (Hi & He & Hs)].
  - subst e. destruct (reserved_inv _ _ _ _ _ _ _ Hr) as (I1 & Hi0).
    pose proof Hr as Hr'. unfold reserved in Hr'. destruct Hr' as (_ & R2 & R3 & R4 & R5 & R6 & R7 & R8 & R9 & R10).
    assert (Hb : blen s1 = i + n) by lia.
    replace ((i =? 0) && negb (0 =? 0)) with false by lia.
    replace ((limit s1 <=? 0) && (blen s1 <? i + n)) with false by lia.
    exists s1, i, 0. split; [reflexivity|]. right. tauto.
  - subst i. assert (Ene : negb (e =? 0) = true) by (unfold ErrLimit, ErrTooLarge in He; lia).
    cbn [Z.eqb andb]. rewrite Ene. exists s1, (-1), e. split; [reflexivity|]. left. tauto.
Qed.

Lemma bl_be_bytes w v : byte_list (be_bytes w v).
Proof.
  unfold be_bytes, enc_u8, enc_u16, enc_u32, enc_u64, be16, be32, be64.
  destruct (w =? 1); [|destruct (w =? 2); [|destruct (w =? 4)]]; repeat constructor; apply bl_u8.
Qed.
Lemma len_be_bytes w v : width_ok w -> len (be_bytes w v) = w.
Proof. unfold width_ok. intros [H|[H|[H|H]]]; subst w; reflexivity. Qed.
Lemma bl_enc_prefix l : byte_list (enc_prefix l).
Proof.
  unfold enc_prefix, be16, be32, be64.
  destruct (l =? 0); [|destruct (l <? LimitSmall); [|destruct (l <? LimitMedium); [|destruct (l <? LimitLarge)]]];
    repeat constructor; try apply bl_u8; lia.
Qed.
Lemma len_enc_prefix_pos l : 1 <= len (enc_prefix l).
Proof.
  unfold enc_prefix.
  destruct (l =? 0); [|destruct (l <? LimitSmall); [|destruct (l <? LimitMedium); [|destruct (l <? LimitLarge)]]];
    rewrite len_cons; match goal with |- 1 <= 1 + len ?x => pose proof (len_nonneg x) end; lia.
Qed.

(* a typed store of the encoding d: all of it or nothing *)
Definition typed_post (s : state) (d : list Z) (s' : state) (e : Z) : Prop :=
  okstep s s' /\ suffix_of (past s') (past s) /\
  ((e = 0 /\ abs s' = abs s ++ d) \/
   (((e = ErrLimit /\ 0 < limit s) \/ (e = ErrTooLarge /\ MaxSlice < cap s + len d)) /\ abs s' = abs s)).

Lemma reserved_okstep s n s1 i : reserved (abs s) (past s) (limit s) (blen s) n s1 i -> okstep s s1.
Proof. unfold reserved, okstep, lim_ok. intros (R1 & R2 & R3 & R4 & R5 & R6 & R7 & R8 & R9 & R10). splits; try assumption; try (intros _; rewrite R2; assumption). Qed.

Lemma okstep_stored s s1 i d s2 : okstep s s1 -> stored s1 i d s2 -> okstep s s2.
Proof. unfold okstep, stored, lim_ok. intros (O1 & O2 & O3) (S1 & S2 & S3 & S4 & S5). splits; try assumption; try lia. Qed.

Lemma write_fixed_spec s bs o : inv s -> byte_list bs ->
  exists s' e, write_fixed s bs o = Ok (s', e) /\ typed_post s bs s' e.
Proof.
  intros H Hb. pose proof (len_nonneg bs) as Hl. unfold write_fixed.
  destruct (check_write_size_spec s (len bs) o H Hl) as (s1 & i & e & Hc & Hp). rewrite Hc. cbn [bind].
  destruct Hp as [(Hi & He & Hs) | (Hi & He & Hr & Hbl)].
  - subst i. cbn [Z.eqb]. exists s1, e. split; [reflexivity|].
    unfold typed_post. split; [apply same_q_okstep; assumption|].
    destruct Hs as (S1 & S2 & S3 & S4 & S5). split; [assumption|]. right. tauto.
  - replace (i =? -1) with false by lia. subst e.
    destruct (reserved_inv _ _ _ _ _ _ _ Hr) as (I1 & _).
    destruct (put_spec s1 i bs I1 Hi ltac:(lia) Hb) as (s2 & Hput & Hst). rewrite Hput. cbn [bind].
    exists s2, 0. split; [reflexivity|].
    destruct (stored_append _ _ _ _ _ _ _ _ _ Hr Hst ltac:(lia)) as (A2 & P2).
    unfold typed_post. split; [eapply okstep_stored; [eapply reserved_okstep; eassumption | eassumption]|].
    rewrite P2. split; [unfold reserved in Hr; tauto|]. left. tauto.
Qed.

Lemma write_bytes_spec s b o : inv s -> byte_list b ->
  exists s' e, write_bytes s b o = Ok (s', e) /\ typed_post s (enc_bytes b) s' e.
Proof.
  intros H Hb. pose proof (len_nonneg b) as Hl. unfold write_bytes.
  destruct (len b =? 0) eqn:E0.
  { assert (b = []) by (apply len0_nil; lia). subst b.
    change (enc_bytes []) with [0]. apply write_fixed_spec; [assumption|]. repeat constructor; lia. }
  set (hdr := enc_prefix (len b)).
  pose proof (bl_enc_prefix (len b)) as Hbh. pose proof (len_enc_prefix_pos (len b)) as Hlh. fold hdr in Hbh, Hlh.
  assert (Hel : len (enc_bytes b) = len hdr + len b) by (unfold enc_bytes; rewrite len_app; reflexivity).
  destruct (check_write_size_spec s (len hdr + len b) o H ltac:(lia)) as (s1 & i & e & Hc & Hp). rewrite Hc. cbn [bind].
  destruct Hp as [(Hi & He & Hs) | (Hi & He & Hr & Hbl)].
  - subst i. cbn [Z.eqb]. exists s1, e. split; [reflexivity|].
    unfold typed_post. split; [apply same_q_okstep; assumption|].
    destruct Hs as (S1 & S2 & S3 & S4 & S5). split; [assumption|]. right. rewrite Hel. tauto.
  - replace (i =? -1) with false by lia. subst e.
    destruct (reserved_inv _ _ _ _ _ _ _ Hr) as (I1 & _).
    pose proof (buf_len s1 I1) as Hbl1.
    destruct (idx_ok (buf s1) (i + len hdr + len b - 1) ltac:(lia)) as (x & Hx). rewrite Hx. cbn [bind].
    destruct (put_spec s1 i hdr I1 Hi ltac:(lia) Hbh) as (s2 & Hput & Hst). rewrite Hput. cbn [bind].
    destruct Hst as (I2 & B2 & Rp2 & Bl2 & L2).
    destruct (copy_at_spec s2 (i + len hdr) b I2 ltac:(lia) Hb) as (s3 & Hcp & Hst3). rewrite Hcp. cbn [bind].
    replace (Z.min (blen s2 - (i + len hdr)) (len b)) with (len b) in * by lia.
    replace (negb (len b =? len b)) with false by lia.
    exists s3, 0. split; [reflexivity|].
    rewrite tk_all in Hst3 by lia.
    (* the two stores are one store of the whole encoding *)
    assert (Hst' : stored s1 i (enc_bytes b) s3).
    { destruct Hst3 as (I3 & B3 & Rp3 & Bl3 & L3). unfold stored. splits; try assumption; try lia.
      rewrite B3, B2. unfold enc_bytes. fold hdr.
      assert (len (overwrite (buf s1) i hdr) = len (buf s1)) by (apply ow_len; lia).
      rewrite (ow_end (overwrite (buf s1) i hdr)) by lia.
      rewrite ow_take_hi by lia.
      rewrite (ow_end (buf s1) i (hdr ++ b)) by (try rewrite len_app; lia).
      rewrite app_assoc. reflexivity. }
    destruct (stored_append _ _ _ _ _ _ _ _ _ Hr Hst' ltac:(lia)) as (A3 & P3).
    unfold typed_post. split; [eapply okstep_stored; [eapply reserved_okstep; eassumption | eassumption]|].
    rewrite P3. split; [unfold reserved in Hr; tauto|]. left. tauto.
Qed.

(* positional writes: a store inside the buffer *)
Lemma write_pos_spec s w p v : inv s -> width_ok w -> 0 <= p ->
  exists s' e, write_pos s w p v = Ok (s', e) /\ okstep s s' /\
    qstep (limit s) (past s) (abs s) (OWritePos w p v) (RErr e) (past s') (abs s').
Proof.
  intros H Hw Hp. pose proof (len_be_bytes w v Hw) as Hlw. pose proof (bl_be_bytes w v) as Hbw.
  assert (1 <= w) by (unfold width_ok in Hw; lia).
  assert (Hok : okstep s s) by (unfold okstep; tauto).
  unfold write_pos.
  destruct ((blen s <=? p) || (blen s <=? p + (w - 1))) eqn:E1.
  { exists s, EOF. split; [reflexivity|]. split; [assumption|]. cbn [qstep]. unfold EOF. cbn [Z.eqb]. tauto. }
  destruct ((0 <? limit s) && ((limit s <=? p) || (limit s <=? p + (w - 1)))) eqn:E2.
  { exists s, ErrLimit. split; [reflexivity|]. split; [assumption|]. cbn [qstep]. unfold ErrLimit. cbn [Z.eqb]. tauto. }
  destruct (put_spec s p (be_bytes w v) H Hp ltac:(lia) Hbw) as (s2 & Hput & Hst). rewrite Hput. cbn [bind].
  exists s2, 0. split; [reflexivity|]. split; [eapply okstep_stored; eassumption|].
  destruct Hst as (I2 & B2 & Rp2 & Bl2 & L2).
  cbn [qstep Z.eqb]. rewrite <- !buf_split. rewrite !past_len by assumption. rewrite buf_len by assumption.
  splits; try lia. exact B2.
Qed.

(* ================================================================================================ *)
(* 6. reads                                                                                         *)
(* ================================================================================================ *)
Lemma okstep_refl s : inv s -> okstep s s.
Proof. unfold okstep. tauto. Qed.
Lemma okstep_trans a b c : okstep a b -> okstep b c -> okstep a c.
Proof. unfold okstep. intros (A1 & A2 & A3) (B1 & B2 & B3). splits; [assumption | congruence | tauto]. Qed.

Lemma tk_min {A} n (l : list A) : take (Z.min n (len l)) l = take n l.
Proof. destruct (Z.le_gt_cases n (len l)); [rewrite Z.min_l by lia; reflexivity | rewrite Z.min_r by lia; rewrite !tk_all by lia; reflexivity]. Qed.
Lemma dr_min {A} n (l : list A) : drop (Z.min n (len l)) l = drop n l.
Proof. destruct (Z.le_gt_cases n (len l)); [rewrite Z.min_l by lia; reflexivity | rewrite Z.min_r by lia; rewrite !dr_all by lia; reflexivity]. Qed.

(* moving the read cursor forward by k *)
Lemma adv_spec s k : inv s -> 0 <= k <= len (abs s) ->
  let s' := with_rpos s (rpos s + k) in
  inv s' /\ abs s' = drop k (abs s) /\ past s' = past s ++ take k (abs s) /\ okstep s s' /\ buf s' = buf s.
Proof.
  intros H Hk. pose proof (abs_len s H) as Hal. pose proof (buf_len s H) as Hbl.
  assert (I' : inv (with_rpos s (rpos s + k))) by (unfold inv in *; sim; splits; try lia; tauto).
  cbv zeta. splits.
  - exact I'.
  - unfold abs, buf; sim. fold (buf s). rewrite dr_dr by (unfold inv in H; lia). f_equal. lia.
  - unfold past, abs, buf; sim. fold (buf s). unfold inv in H.
    rewrite (tk_split (rpos s) (rpos s + k)) by lia. do 2 f_equal. lia.
  - unfold okstep, lim_ok; sim. tauto.
  - reflexivity.
Qed.

Lemma read_spec s n : inv s -> 0 <= n ->
  exists s' d e, read s n = Ok (s', (d, e)) /\ okstep s s' /\
    qstep (limit s) (past s) (abs s) (ORead n) (RData d e) (past s') (abs s').
Proof.
  intros H Hn. pose proof (abs_len s H) as Hal. pose proof H as Hinv. unfold inv in H. destruct H as (H1 & H2 & H3 & H4 & H5).
  unfold read, empty.
  destruct (blen s <=? rpos s) eqn:E.
  - assert (Hq : abs s = []) by (apply len0_nil; lia).
    assert (Q : forall s1 e, abs s1 = [] -> suffix_of (past s1) (past s) ->
      ((e = EOF /\ n <> 0) \/ (e = 0 /\ n = 0)) ->
      qstep (limit s) (past s) (abs s) (ORead n) (RData [] e) (past s1) (abs s1)).
    { intros s1 e A1 P1 He. cbn [qstep]. rewrite Hq, A1. rewrite tk_all, dr_all by (rewrite len_nil; lia).
      rewrite app_nil_r. splits; try reflexivity; try assumption.
      destruct He as [(He1 & He2) | (He1 & He2)]; [left | right]; splits; auto. }
    assert (R : exists s1, (if isnil s then Ok s else set_len (with_rpos s 0) 0) = Ok s1 /\ okstep s s1 /\
                  abs s1 = [] /\ suffix_of (past s1) (past s)).
    { destruct (isnil s) eqn:Enil.
      - exists s. split; [reflexivity|]. split; [apply okstep_refl; assumption|]. split; [exact Hq | apply suffix_refl].
      - rewrite set_len_ok by (unfold cap; sim; pose proof (len_nonneg (mem s)); lia).
        set (s1 := with_len (with_rpos s 0) 0). exists s1. split; [reflexivity|].
        assert (I1 : inv s1) by (unfold inv, s1; sim; splits; try lia; try assumption; intros X; congruence).
        split; [unfold okstep, lim_ok, s1; sim; splits; try assumption; try reflexivity; lia|].
        split; [apply len0_nil; rewrite abs_len by assumption; unfold s1; sim; lia|].
        replace (past s1) with (@nil Z) by (symmetry; unfold past, s1; sim; apply tk_0; lia). apply suffix_nil. }
    destruct R as (s1 & R & OK & A1 & P1). rewrite R. cbn [bind].
    destruct (n =? 0) eqn:En.
    + exists s1, [], 0. split; [reflexivity|]. split; [exact OK | apply Q; auto; right; split; [reflexivity|lia]].
    + exists s1, [], EOF. split; [reflexivity|]. split; [exact OK | apply Q; auto; left; split; [reflexivity|lia]].
  - rewrite slice_abs by assumption. cbn [bind].
    set (k := Z.min n (len (abs s))).
    destruct (adv_spec s k Hinv ltac:(subst k; pose proof (len_nonneg (abs s)); lia)) as (I' & A' & P' & OK & _).
    eexists _, _, 0. split; [reflexivity|]. split; [exact OK|].
    cbn [qstep]. rewrite A', P'. subst k. rewrite tk_min, dr_min.
    splits; try reflexivity; [apply suffix_refl|].
    right. split; [reflexivity|]. left. intros Hq0. rewrite Hq0, len_nil in Hal. lia.
Qed.

Lemma read_fixed_eq s w : inv s -> 1 <= w ->
  read_fixed s w = if len (abs s) <? w then Ok (s, (0, EOF))
                   else Ok (with_rpos s (rpos s + w), (of_be (take w (abs s)) 0, 0)).
Proof.
  intros H Hw. pose proof (abs_len s H) as Hal. pose proof (buf_len s H) as Hbl. unfold inv in H.
  unfold read_fixed. replace (blen s <? rpos s + w) with (len (abs s) <? w) by lia.
  destruct (len (abs s) <? w) eqn:E; [reflexivity|].
  destruct (idx_ok (buf s) (rpos s + w - 1) ltac:(lia)) as (x & Hx). rewrite Hx. cbn [bind].
  rewrite slice_ok by lia. cbn [bind]. replace (rpos s + w - rpos s) with w by lia. reflexivity.
Qed.

Lemma rd_uN_eq w q : rd_uN w q = if len q <? w then Err EOF else Ok (of_be (take w q) 0, drop w q).
Proof. unfold rd_uN, rd_fixed. destruct (len q <? w); reflexivity. Qed.

Lemma read_fixed_spec s w : inv s -> width_ok w ->
  exists s' v e, read_fixed s w = Ok (s', (v, e)) /\ okstep s s' /\
    qstep (limit s) (past s) (abs s) (OReadFixed w) (RVal v e) (past s') (abs s').
Proof.
  intros H Hw. assert (1 <= w) by (unfold width_ok in Hw; lia).
  rewrite read_fixed_eq by assumption. cbn [qstep]. rewrite rd_uN_eq.
  destruct (len (abs s) <? w) eqn:E.
  - exists s, 0, EOF. split; [reflexivity|]. split; [apply okstep_refl; assumption|]. right. tauto.
  - destruct (adv_spec s w H ltac:(lia)) as (I' & A' & P' & OK & _).
    eexists _, _, 0. split; [reflexivity|]. split; [exact OK|]. left. rewrite A', P'. tauto.
Qed.

(* ---- Bytes: the codec's flat reader on the queue ------------------------------------------------ *)
Lemma rd_u8_uN q : rd_u8 q = rd_uN 1 q.
Proof.
  rewrite rd_uN_eq. destruct q as [|b r]; [reflexivity|].
  rewrite len_cons. pose proof (len_nonneg r). replace (1 + len r <? 1) with false by lia.
  unfold take, drop. change (Z.to_nat 1) with 1%nat. cbn [firstn skipn of_be]. reflexivity.
Qed.

Lemma rd_prefix_alt q :
  rd_prefix q = do '(t, r) <- rd_uN 1 q;
                if t =? 0 then Ok (None, r)
                else if tag_width t =? 0 then Err ErrInvalidType
                else do '(n, r') <- rd_uN (tag_width t) r; Ok (Some n, r').
Proof.
  unfold rd_prefix. rewrite rd_u8_uN. destruct (rd_uN 1 q) as [[t r]| |]; cbn [bind]; try reflexivity.
  unfold tag_width, rd_u16, rd_u32, rd_u64. rewrite rd_u8_uN.
  destruct (t =? 0); [reflexivity|].
  destruct ((t =? 1) || (t =? 2)); [reflexivity|].
  destruct ((t =? 3) || (t =? 4)); [reflexivity|].
  destruct ((t =? 5) || (t =? 6)); [reflexivity|].
  destruct ((t =? 7) || (t =? 8)); reflexivity.
Qed.

Lemma tag_width_cases t : tag_width t = 0 \/ width_ok (tag_width t).
Proof.
  unfold tag_width, width_ok.
  destruct ((t =? 1) || (t =? 2)); [tauto|]. destruct ((t =? 3) || (t =? 4)); [tauto|].
  destruct ((t =? 5) || (t =? 6)); [tauto|]. destruct ((t =? 7) || (t =? 8)); tauto.
Qed.

Lemma read_bytes_spec s : inv s ->
  exists s' d e, read_bytes s = Ok (s', (d, e)) /\ okstep s s' /\
    qstep (limit s) (past s) (abs s) OBytes (RData d e) (past s') (abs s').
Proof.
  intros H. unfold read_bytes. cbn [qstep]. unfold rd_bytes. rewrite rd_prefix_alt, rd_uN_eq.
  rewrite read_fixed_eq by (assumption || lia).
  assert (Hsame : suffix_of (abs s) (abs s) /\ past s ++ abs s = past s ++ abs s) by (split; [apply suffix_refl | reflexivity]).
  destruct (len (abs s) <? 1) eqn:E1; cbn [bind].
  { cbn [Z.eqb negb]. exists s, [], EOF. split; [reflexivity|]. split; [apply okstep_refl; assumption|].
    split; [right; split; [unfold EOF; lia | reflexivity] | exact Hsame]. }
  cbn [Z.eqb negb].
  destruct (adv_spec s 1 H ltac:(lia)) as (I1 & A1 & P1 & OK1 & B1).
  set (s1 := with_rpos s (rpos s + 1)) in *. set (t := of_be (take 1 (abs s)) 0).
  assert (S1 : suffix_of (abs s1) (abs s) /\ past s1 ++ abs s1 = past s ++ abs s).
  { split; [rewrite A1; apply suffix_drop | rewrite <- !buf_split; exact B1]. }
  destruct (t =? 0) eqn:Et.
  { exists s1, [], 0. split; [reflexivity|]. split; [exact OK1|].
    split; [left; split; [reflexivity | rewrite A1; reflexivity] | exact S1]. }
  destruct (tag_width t =? 0) eqn:Ew.
  { exists s1, [], ErrInvalidType. split; [reflexivity|]. split; [exact OK1|].
    split; [right; split; [unfold ErrInvalidType; lia | reflexivity] | exact S1]. }
  assert (Hw : 1 <= tag_width t) by (destruct (tag_width_cases t) as [?|W]; [lia | unfold width_ok in W; lia]).
  set (w := tag_width t) in *.
  rewrite read_fixed_eq by assumption. rewrite rd_uN_eq. rewrite <- A1.
  destruct (len (abs s1) <? w) eqn:E2; cbn [bind].
  { cbn [Z.eqb negb]. exists s1, [], EOF. split; [reflexivity|]. split; [exact OK1|].
    split; [right; split; [unfold EOF; lia | reflexivity] | exact S1]. }
  cbn [Z.eqb negb].
  destruct (adv_spec s1 w I1 ltac:(lia)) as (I2 & A2 & P2 & OK2 & B2).
  set (s2 := with_rpos s1 (rpos s1 + w)) in *. set (l := of_be (take w (abs s1)) 0).
  assert (OK12 : okstep s s2) by (eapply okstep_trans; eassumption).
  assert (S2 : suffix_of (abs s2) (abs s) /\ past s2 ++ abs s2 = past s ++ abs s).
  { split; [eapply suffix_trans; [|apply S1]; rewrite A2; apply suffix_drop | rewrite <- !buf_split; rewrite B2; exact B1]. }
  rewrite <- A2.
  destruct (l =? 0) eqn:El.
  { exists s2, [], ErrUnexpectedEOF. split; [reflexivity|]. split; [exact OK12|].
    split; [right; split; [unfold ErrUnexpectedEOF; lia | reflexivity] | exact S2]. }
  destruct (MaxSlice <? l) eqn:Em.
  { exists s2, [], ErrTooLarge. split; [reflexivity|]. split; [exact OK12|].
    split; [right; split; [unfold ErrTooLarge; lia | reflexivity] | exact S2]. }
  assert (Hl : 0 <= l) by (apply of_be_nonneg; [apply bl_take; apply bl_abs; assumption | lia]).
  pose proof (abs_len s2 I2) as Hal2. pose proof (buf_len s2 I2) as Hbl2. pose proof I2 as I2'. unfold inv in I2'.
  replace (blen s2 <? rpos s2 + l) with (len (abs s2) <? l) by lia.
  destruct (len (abs s2) <? l) eqn:E3.
  - rewrite slice_abs by assumption. cbn [bind].
    replace (blen s2) with (rpos s2 + len (abs s2)) by lia.
    destruct (adv_spec s2 (len (abs s2)) I2 ltac:(lia)) as (I3 & A3 & P3 & OK3 & B3).
    eexists _, _, EOF. split; [reflexivity|]. split; [eapply okstep_trans; eassumption|].
    split; [right; split; [unfold EOF; lia | reflexivity]|].
    split; [eapply suffix_trans; [|apply S2]; rewrite A3; apply suffix_drop | rewrite <- !buf_split; rewrite B3, B2; exact B1].
  - rewrite slice_ok by lia. cbn [bind]. replace (rpos s2 + l - rpos s2) with l by lia. fold (abs s2).
    destruct (adv_spec s2 l I2 ltac:(lia)) as (I3 & A3 & P3 & OK3 & B3).
    eexists _, _, 0. split; [reflexivity|]. split; [eapply okstep_trans; eassumption|].
    split; [left; split; [reflexivity | rewrite A3; reflexivity]|].
    split; [eapply suffix_trans; [|apply S2]; rewrite A3; apply suffix_drop | rewrite <- !buf_split; rewrite B3, B2; exact B1].
Qed.

(* ================================================================================================ *)
(* 7. Seek / Truncate / Grow / Reset / Clear                                                        *)
(* ================================================================================================ *)
Ltac fin := cbv iota;
  repeat (match goal with |- context [if ?c then _ else _] =>
            first [replace c with true by lia | replace c with false by lia] end; cbv iota);
  splits; auto.

Lemma seek_spec s o w s' n e : inv s -> seek s o w = (s', (n, e)) ->
  okstep s s' /\ qstep (limit s) (past s) (abs s) (OSeek o w) (RNE n e) (past s') (abs s').
Proof.
  intros H E. pose proof (past_len s H) as Hpl. pose proof (buf_len s H) as Hbl. pose proof H as Hinv. unfold inv in H.
  assert (Hgo : forall t, 0 <= t <= blen s ->
     okstep s (with_rpos s t) /\ past (with_rpos s t) = take t (buf s) /\ abs (with_rpos s t) = drop t (buf s)).
  { intros t Ht. split; [|split; reflexivity].
    unfold okstep, inv, lim_ok; sim. splits; try lia; tauto. }
  pose proof (okstep_refl s Hinv) as Hrefl.
  unfold seek in E. cbv zeta in E. cbn [qstep]. unfold seek_pos. rewrite <- buf_split, Hpl, Hbl.
  destruct (w =? 0) eqn:E0.
  { destruct (o <? 0) eqn:Eo; cbn [orb] in E; [injection E as <- <- <-; fin|].
    destruct (blen s <? o) eqn:Eb; injection E as <- <- <-; [fin|].
    destruct (Hgo o ltac:(lia)) as (G1 & G2 & G3). fin. }
  destruct (w =? 1) eqn:E1.
  { destruct ((i64 (o + rpos s) <? 0) || (blen s <? i64 (o + rpos s))) eqn:Eb; injection E as <- <- <-; [fin|].
    destruct (Hgo (i64 (o + rpos s)) ltac:(lia)) as (G1 & G2 & G3). fin. }
  destruct (w =? 2) eqn:E2.
  { destruct ((i64 (o + blen s) <? 0) || (blen s <? i64 (o + blen s))) eqn:Eb; injection E as <- <- <-; [fin|].
    destruct (Hgo (i64 (o + blen s)) ltac:(lia)) as (G1 & G2 & G3). fin. }
  injection E as <- <- <-. fin.
Qed.

Lemma reset_spec s : inv s ->
  exists s', reset s = Ok s' /\ okstep s s' /\ abs s' = [] /\ past s' = [].
Proof.
  intros H. pose proof H as Hinv. unfold inv in H. destruct H as (H1 & H2 & H3 & H4 & H5).
  unfold reset. rewrite set_len_ok by (unfold cap; sim; pose proof (len_nonneg (mem s)); lia).
  eexists. split; [reflexivity|].
  set (s1 := with_len (with_rpos s 0) 0).
  assert (I1 : inv s1) by (unfold inv, s1; sim; splits; try lia; assumption).
  splits.
  - unfold okstep, lim_ok, s1; sim. splits; try assumption; try reflexivity; lia.
  - apply len0_nil. rewrite abs_len by assumption. unfold s1; sim; lia.
  - unfold past, s1; sim. apply tk_0; lia.
Qed.

Lemma clear_spec s : okstep s (clear s) /\ abs (clear s) = [] /\ past (clear s) = [].
Proof.
  unfold okstep, inv, lim_ok, clear; sim. change (len (@nil Z)) with 0.
  splits; try lia; try reflexivity. apply bl_nil.
Qed.

Lemma truncate_spec s n : inv s ->
  exists s' e, truncate s n = Ok (s', e) /\ okstep s s' /\
    qstep (limit s) (past s) (abs s) (OTruncate n) (RErr e) (past s') (abs s').
Proof.
  intros H. pose proof (abs_len s H) as Hal. unfold truncate. cbn [qstep].
  destruct (n =? 0) eqn:E0.
  { destruct (reset_spec s H) as (s1 & R & OK & A & P). rewrite R. cbn [bind].
    exists s1, 0. split; [reflexivity|]. tauto. }
  rewrite Hal.
  destruct ((n <? 0) || (blen s - rpos s <? n)) eqn:E1.
  { exists s, ErrInvalidIndex. split; [reflexivity|]. split; [apply okstep_refl; assumption | tauto]. }
  pose proof H as Hinv. unfold inv in H. destruct H as (H1 & H2 & H3 & H4 & H5).
  rewrite set_len_ok by (unfold cap; lia). cbn [bind].
  eexists _, 0. split; [reflexivity|]. splits; try reflexivity.
  - unfold okstep, inv, lim_ok; sim. splits; try lia; assumption.
  - unfold abs, buf; sim. rewrite !dr_tk by lia. rewrite tk_tk by lia. f_equal. lia.
  - unfold past, buf; sim. rewrite !tk_tk by lia. reflexivity.
Qed.

Lemma grow_op_spec s n o : inv s ->
  exists s' e, grow_op s n o = Ok (s', e) /\ okstep s s' /\
    qstep (limit s) (past s) (abs s) (OGrow n) (RErr e) (past s') (abs s').
Proof.
  intros H. unfold grow_op. cbn [qstep].
  destruct (n <=? 0) eqn:E0.
  { exists s, ErrInvalidIndex. split; [reflexivity|]. split; [apply okstep_refl; assumption|].
    splits; [reflexivity | apply suffix_refl | reflexivity]. }
  destruct (grow_spec s n o H ltac:(lia)) as (s1 & i & e & Hg & Hp). rewrite Hg. cbn [bind].
  destruct Hp as [(He & Hr) | (Hi & He & Hs)].
  - subst e. cbn [Z.eqb negb].
    pose proof Hr as (R1 & R2 & R3 & R4 & R5 & R6 & R7 & R8 & R9 & R10).
    pose proof (buf_len s1 R1) as Hbl. pose proof R1 as R1'. unfold inv in R1'. destruct R1' as (I1 & I2 & I3 & I4 & I5).
    rewrite set_len_ok by (unfold cap; lia). cbn [bind].
    eexists _, 0. split; [reflexivity|]. splits.
    + unfold okstep, inv, lim_ok; sim. splits; try lia; assumption.
    + unfold abs, buf in *; sim. rewrite (tk_tk i (blen s1)) in R7 by lia. exact R7.
    + unfold past, buf in *; sim. rewrite (tk_tk (rpos s1) (blen s1)) in R8 by lia. rewrite (tk_tk (rpos s1) i) by lia. exact R8.
    + unfold wr_err. tauto.
  - assert (Ene : negb (e =? 0) = true) by (unfold ErrLimit, ErrTooLarge in He; lia).
    rewrite Ene. exists s1, e. split; [reflexivity|]. split; [apply same_q_okstep; assumption|].
    destruct Hs as (S1 & S2 & S3 & S4 & S5). splits; try assumption. unfold wr_err. tauto.
Qed.

(* ================================================================================================ *)
(* 8. WriteTo: the loop hands out exactly the unread bytes, in order                                *)
(* ================================================================================================ *)
Lemma write_to_loop_spec s : inv s -> forall fuel n sI eI budget lens got,
  rpos s <= sI <= blen s -> sI < eI -> n = sI - rpos s -> got = take n (abs s) ->
  blen s - sI < Z.of_nat fuel ->
  exists n' e lens' got', write_to_loop fuel s n sI eI budget lens got = Ok (n', e, lens', got') /\
    n <= n' <= blen s - rpos s /\ got' = take n' (abs s) /\ (e = 0 \/ e = ErrSink) /\ (e = 0 -> n' = blen s - rpos s).
Proof.
  intros H. pose proof (buf_len s H) as Hbl. pose proof (abs_len s H) as Hal. pose proof H as Hinv. unfold inv in H.
  induction fuel as [|f IH]; intros n sI eI budget lens got HsI HeI Hn Hgot Hf; [lia|].
  cbn [write_to_loop].
  destruct (negb (n <? blen s)) eqn:E1.
  { exists n, 0, lens, got. split; [reflexivity|]. splits; try lia; try assumption; tauto. }
  set (eI' := if blen s <? eI then blen s else eI).
  assert (HeI' : sI <= eI' <= blen s /\ (sI = eI' -> sI = blen s)) by (subst eI'; destruct (blen s <? eI) eqn:Ee; lia).
  destruct (sI =? eI') eqn:E2.
  { exists n, 0, lens, got. split; [reflexivity|]. splits; try lia; try assumption; tauto. }
  rewrite slice_ok by lia. cbn [bind].
  set (p := take (eI' - sI) (drop sI (buf s))).
  assert (Hp : len p = eI' - sI) by (subst p; rewrite tk_len; [lia | rewrite dr_len by lia; lia]).
  (* the bytes handed out so far, extended by the first v bytes of this slice *)
  assert (Hext : forall v, 0 <= v <= eI' - sI -> got ++ take v p = take (n + v) (abs s)).
  { intros v Hv. subst got p. rewrite tk_tk by lia.
    rewrite (tk_split n (n + v)) by lia. f_equal. replace (n + v - n) with v by lia.
    unfold abs. rewrite dr_dr by lia. do 2 f_equal. lia. }
  destruct (len p <=? budget) eqn:E3.
  - cbn [Z.eqb negb].
    assert (G : got ++ take (len p) p = take (n + len p) (abs s)) by (apply Hext; lia).
    destruct (IH (n + len p) eI' (eI' + len p) (budget - len p) (lens ++ [len p]) (got ++ take (len p) p)
                ltac:(lia) ltac:(lia) ltac:(lia) G ltac:(lia))
      as (n' & e & lens' & got' & Hr & Hn' & Hg' & He1 & He2).
    exists n', e, lens', got'. split; [exact Hr|]. splits; try lia; assumption.
  - assert (Hv : 0 <= Z.max budget 0 < len p) by lia.
    replace (negb (ErrSink =? 0)) with true by reflexivity.
    eexists _, ErrSink, _, _. split; [reflexivity|]. unfold ErrSink. splits; try lia.
    apply Hext. lia.
Qed.

Lemma write_to_spec s budget : inv s ->
  exists s' n e lens got, write_to s budget = Ok (s', (n, e, lens, got)) /\ okstep s s' /\
    qstep (limit s) (past s) (abs s) (OWriteTo budget) (RWriteTo n e lens got) (past s') (abs s').
Proof.
  intros H. pose proof (abs_len s H) as Hal. pose proof H as Hinv. unfold inv in H.
  unfold write_to, empty. cbn [qstep].
  destruct (blen s <=? rpos s) eqn:E.
  { exists s, 0, 0, [], []. split; [reflexivity|]. split; [apply okstep_refl; assumption|].
    rewrite tk_0, dr_0, app_nil_r by lia. splits; try lia; try reflexivity; tauto. }
  assert (G0 : [] = take 0 (abs s)) by (rewrite tk_0 by lia; reflexivity).
  destruct (write_to_loop_spec s Hinv (S (Z.to_nat (blen s - rpos s))) 0 (rpos s) (rpos s + bufSize) budget [] []
              ltac:(lia) ltac:(unfold bufSize; lia) ltac:(lia) G0 ltac:(lia))
    as (n & e & lens & got & Hr & Hn & Hg & He1 & He2).
  rewrite Hr. cbn [bind].
  destruct (adv_spec s n Hinv ltac:(lia)) as (I' & A' & P' & OK & _).
  eexists _, n, e, lens, got. split; [reflexivity|]. split; [exact OK|].
  rewrite A', P', Hg. splits; try lia; try reflexivity; assumption.
Qed.

(* ================================================================================================ *)
(* 9. ReadFrom: a prefix of what the readers hand out is appended                                   *)
(* ================================================================================================ *)
Lemma read_from_loop_spec rs : forall s t reqs, inv s ->
  Forall (fun r => len (fst (fst r)) <= bufSize /\ byte_list (fst (fst r))) rs ->
  exists s' t' e reqs', read_from_loop rs s t reqs = Ok (s', (t', e, reqs')) /\ okstep s s' /\
    t <= t' <= t + len (all_data rs) /\ abs s' = abs s ++ take (t' - t) (all_data rs) /\
    suffix_of (past s') (past s).
Proof.
  induction rs as [|[[d e] o] rest IH]; intros s t reqs H Hrs.
  - (* the reader is exhausted *)
    assert (Hend : forall rq : list Z, exists s' t' (e : Z) (reqs' : list Z), Ok (s, (t, 0, rq)) = Ok (s', (t', e, reqs')) /\ okstep s s' /\
      t <= t' <= t + len (all_data []) /\ abs s' = abs s ++ take (t' - t) (all_data []) /\ suffix_of (past s') (past s)).
    { intros rq. exists s, t, 0, rq. split; [reflexivity|]. split; [apply okstep_refl; assumption|].
      unfold all_data. cbn [map concat]. rewrite len_nil. rewrite tk_0 by lia. rewrite app_nil_r.
      splits; try lia; [reflexivity | apply suffix_refl]. }
    cbn [read_from_loop]. destruct ((0 <? limit s) && (space s <=? 0)); apply Hend.
  - inversion Hrs as [|x l0 [Hd1 Hd2] Hrest]; subst. cbn [fst] in Hd1, Hd2.
    pose proof (len_nonneg d) as Hld. pose proof (len_nonneg (all_data rest)) as Hlr.
    assert (Hall : all_data ((d, e, o) :: rest) = d ++ all_data rest) by reflexivity.
    rewrite Hall. rewrite len_app.
    cbn [read_from_loop].
    destruct ((0 <? limit s) && (space s <=? 0)) eqn:E0.
    { exists s, t, 0, reqs. split; [reflexivity|]. split; [apply okstep_refl; assumption|].
      replace (t - t) with 0 by lia. rewrite tk_0 by lia. rewrite app_nil_r.
      splits; try lia; [reflexivity | apply suffix_refl]. }
    set (reqs1 := reqs ++ [if 0 <? limit s then Z.min (space s) bufSize else bufSize]).
    replace (bufSize <? len d) with false by lia.
    destruct (0 <? len d) eqn:En.
    + destruct (write_spec s d o H Hd2) as (s1 & w & e2 & Hw & OK1 & Hq & _). rewrite Hw. cbn [bind].
      cbn [qstep] in Hq. destruct Hq as (Hw1 & A1 & P1 & _ & Hw2 & _).
      destruct OK1 as (I1 & L1 & LO1).
      replace (if w <? len d then w else len d) with w by (destruct (w <? len d) eqn:Ew; lia).
      assert (OK1 : okstep s s1) by (unfold okstep; tauto).
      destruct (negb (e2 =? 0)) eqn:Ee2.
      { exists s1, (t + w), e, reqs1. split; [reflexivity|]. split; [exact OK1|].
        replace (t + w - t) with w by lia. rewrite tk_app_l by lia.
        splits; try lia; assumption. }
      assert (w = len d) by (apply Hw2; lia). subst w.
      destruct ((len d =? 0) || negb (e =? 0) || ((0 <? limit s) && (limit s <=? len d))) eqn:Estop.
      { eexists s1, (t + len d), _, reqs1. split; [reflexivity|]. split; [exact OK1|].
        replace (t + len d - t) with (len d) by lia. rewrite tk_app_l by lia.
        splits; try lia; assumption. }
      destruct (IH s1 (t + len d) reqs1 I1 Hrest) as (s' & t' & e' & reqs' & Hr & OK' & Ht' & A' & P').
      exists s', t', e', reqs'. split; [exact Hr|]. split; [eapply okstep_trans; eassumption|].
      splits; try lia.
      * rewrite A', A1. rewrite (tk_all (len d) d) by lia. rewrite tk_app_r by lia.
        rewrite <- app_assoc. do 3 f_equal. lia.
      * eapply suffix_trans; eassumption.
    + (* an empty read ends the loop *)
      cbn [bind Z.eqb negb].
      replace ((len d =? 0) || negb (e =? 0) || ((0 <? limit s) && (limit s <=? len d))) with true by lia.
      eexists s, t, _, reqs1. split; [reflexivity|]. split; [apply okstep_refl; assumption|].
      replace (t - t) with 0 by lia. rewrite tk_0 by lia. rewrite app_nil_r.
      splits; try lia; [reflexivity | apply suffix_refl].
Qed.

(* ================================================================================================ *)
(* 10. one step of the implementation refines one step of the byte queue                            *)
(* ================================================================================================ *)
Lemma typed_post_qstep s d s' e : typed_post s d s' e ->
  wr_err (limit s) e /\ abs s' = (if e =? 0 then abs s ++ d else abs s) /\ suffix_of (past s') (past s).
Proof.
  unfold typed_post, wr_err. intros (_ & P & [(He & A) | (He & A)]).
  - subst e. cbn [Z.eqb]. tauto.
  - replace (e =? 0) with false by (unfold ErrLimit, ErrTooLarge in He; lia). tauto.
Qed.

(* what every step preserves; UnmarshalStream does not look at the Limit *)
Definition okstep_op (o : op) (s s' : state) : Prop :=
  inv s' /\ limit s' = limit s /\ (lim_ok s -> is_unmarshal o = false -> lim_ok s').
Lemma okstep_okstep_op o s s' : okstep s s' -> okstep_op o s s'.
Proof. unfold okstep, okstep_op. tauto. Qed.

Lemma unmarshal_spec s r e orc : op_ok (OUnmarshal r e) ->
  inv (unmarshal s r orc) /\ limit (unmarshal s r orc) = limit s /\
  past (unmarshal s r orc) = [] /\ abs (unmarshal s r orc) = match r with Some b => b | None => [] end.
Proof.
  intros Hop. destruct (clear_spec s) as ((Ic & _) & Ac & Pc). unfold clear in *.
  destruct r as [b|]; cbn [unmarshal]; [|tauto].
  destruct b as [|x b']; cbn [is_nil]; [tauto|]. cbn [op_ok] in Hop.
  set (b := x :: b') in *. pose proof (len_nonneg b) as Hl.
  assert (Hm : len (b ++ repeat 0 (Z.to_nat (Z.max (len b) orc - len b))) = Z.max (len b) orc)
    by (rewrite len_app, len_repeat; lia).
  unfold inv, past, abs, buf; sim. rewrite Hm.
  splits; try lia; try discriminate; try reflexivity.
  - apply bl_app; [assumption | apply bl_zeros].
  - rewrite dr_0 by lia. apply tk_app_exact. reflexivity.
Qed.

Lemma step_refines_core s o orc : inv s -> op_ok o -> is_unmarshal o = false ->
  exists s' r, step s o orc = Ok (s', r) /\ okstep s s' /\
    qstep (limit s) (past s) (abs s) o r (past s') (abs s').
Proof.
  intros H Hop Hnu. destruct o; cbn [step op_ok is_unmarshal] in *.
  - destruct (write_spec s b orc H Hop) as (s' & n & e & Hw & OK & Q & _). rewrite Hw. cbn [bind].
    exists s', (RNE n e). tauto.
  - destruct (write_fixed_spec s (be_bytes w v) orc H (bl_be_bytes w v)) as (s' & e & Hw & TP). rewrite Hw. cbn [bind].
    exists s', (RErr e). split; [reflexivity|]. split; [unfold typed_post in TP; tauto|].
    cbn [qstep]. apply typed_post_qstep. assumption.
  - destruct (write_bytes_spec s b orc H Hop) as (s' & e & Hw & TP). rewrite Hw. cbn [bind].
    exists s', (RErr e). split; [reflexivity|]. split; [unfold typed_post in TP; tauto|].
    cbn [qstep]. apply typed_post_qstep. assumption.
  - destruct Hop as (Hw & Hp).
    destruct (write_pos_spec s w p v H Hw Hp) as (s' & e & Hw' & OK & Q). rewrite Hw'. cbn [bind].
    exists s', (RErr e). tauto.
  - destruct (read_spec s n H Hop) as (s' & d & e & Hr & OK & Q). rewrite Hr. cbn [bind].
    exists s', (RData d e). tauto.
  - destruct (read_fixed_spec s w H Hop) as (s' & v & e & Hr & OK & Q). rewrite Hr. cbn [bind].
    exists s', (RVal v e). tauto.
  - destruct (read_bytes_spec s H) as (s' & d & e & Hr & OK & Q). rewrite Hr. cbn [bind].
    exists s', (RData d e). tauto.
  - destruct (seek s o w) as [s' [n e]] eqn:E. exists s', (RNE n e). split; [reflexivity|].
    apply seek_spec; assumption.
  - destruct (truncate_spec s n H) as (s' & e & Hr & OK & Q). rewrite Hr. cbn [bind].
    exists s', (RErr e). tauto.
  - destruct (grow_op_spec s n orc H) as (s' & e & Hr & OK & Q). rewrite Hr. cbn [bind].
    exists s', (RErr e). tauto.
  - destruct (reset_spec s H) as (s' & Hr & OK & A & P). rewrite Hr. cbn [bind].
    exists s', RNone. cbn [qstep]. tauto.
  - destruct (clear_spec s) as (OK & A & P). exists (clear s), RNone. cbn [qstep]. tauto.
  - destruct (write_to_spec s budget H) as (s' & n & e & lens & got & Hr & OK & Q). rewrite Hr. cbn [bind].
    exists s', (RWriteTo n e lens got). tauto.
  - destruct (read_from_loop_spec reads s 0 [] H Hop) as (s' & t' & e & reqs' & Hr & OK & Ht & A & P). rewrite Hr. cbn [bind].
    exists s', (RReadFrom t' e reqs'). split; [reflexivity|]. split; [exact OK|].
    cbn [qstep]. replace (t' - 0) with t' in A by lia. splits; try lia; assumption.
  - discriminate.
  - rewrite slice_abs by assumption. cbn [bind]. exists s, (RData (enc_bytes (abs s)) 0).
    split; [reflexivity|]. split; [apply okstep_refl; assumption|]. cbn [qstep]. auto.
Qed.

Theorem step_refines s o orc : inv s -> op_ok o ->
  exists s' r, step s o orc = Ok (s', r) /\ okstep_op o s s' /\
    qstep (limit s) (past s) (abs s) o r (past s') (abs s').
Proof.
  intros H Hop. destruct (is_unmarshal o) eqn:Eu.
  - destruct o; try discriminate. cbn [step].
    destruct (unmarshal_spec s r e orc Hop) as (I & L & P & A).
    eexists _, _. split; [reflexivity|].
    split; [unfold okstep_op; cbn [is_unmarshal]; splits; [exact I | exact L | discriminate]|].
    cbn [qstep]. rewrite P, A. destruct r; auto.
  - destruct (step_refines_core s o orc H Hop Eu) as (s' & r & E & OK & Q).
    exists s', r. split; [exact E|]. split; [apply okstep_okstep_op; exact OK | exact Q].
Qed.

(* what a step that returned is known to satisfy *)
Lemma step_ok s o orc s' r : inv s -> op_ok o -> step s o orc = Ok (s', r) ->
  okstep_op o s s' /\ qstep (limit s) (past s) (abs s) o r (past s') (abs s').
Proof.
  intros H Hop E. destruct (step_refines s o orc H Hop) as (s2 & r2 & E2 & OK & Q).
  rewrite E in E2. injection E2 as <- <-. tauto.
Qed.

Theorem inv_preserved s o orc s' r : inv s -> op_ok o -> step s o orc = Ok (s', r) -> inv s' /\ limit s' = limit s.
Proof. intros H Hop E. destruct (step_ok s o orc s' r H Hop E) as ((I & L & _) & _). tauto. Qed.

Theorem no_panic s o orc : inv s -> op_ok o -> exists s' r, step s o orc = Ok (s', r).
Proof. intros H Hop. destruct (step_refines s o orc H Hop) as (s' & r & E & _). eauto. Qed.

(* ================================================================================================ *)
(* 11. histories                                                                                    *)
(* ================================================================================================ *)
Definition ops_ok (l : list (op * Z)) : Prop := Forall (fun x => op_ok (fst x)) l.
Definition no_unmarshal (l : list (op * Z)) : Prop := Forall (fun x => is_unmarshal (fst x) = false) l.

Theorem run_refines : forall l s, inv s -> ops_ok l ->
  exists s' rs, run s l = Ok (s', rs) /\
    (inv s' /\ limit s' = limit s /\ (lim_ok s -> no_unmarshal l -> lim_ok s')) /\ length rs = length l /\
    qsteps (limit s) (past s) (abs s) (history l rs) (past s') (abs s').
Proof.
  induction l as [|[o orc] l IH]; intros s H Hl.
  - exists s, []. cbn [run]. split; [reflexivity|]. split; [tauto|].
    split; [reflexivity|]. cbn. tauto.
  - inversion Hl as [|x l0 Ho Hl']; subst. cbn [fst] in Ho.
    destruct (step_refines s o orc H Ho) as (s1 & r & E & OK1 & Q).
    pose proof OK1 as (I1 & L1 & LO1).
    destruct (IH s1 I1 Hl') as (s' & rs & Er & (I' & L' & LO') & Hlen & Qs).
    exists s', (r :: rs). cbn [run]. rewrite E. cbn [bind]. rewrite Er. cbn [bind].
    split; [reflexivity|].
    split; [splits; [exact I' | congruence | intros Hlim Hnu; inversion Hnu as [|x l0 Hn1 Hn']; subst; cbn [fst] in Hn1; auto]|].
    split; [cbn [length]; lia|].
    unfold history. cbn [map fst combine qsteps]. exists (past s1), (abs s1).
    split; [exact Q|]. rewrite L1 in Qs. exact Qs.
Qed.

Theorem no_panic_run l s : inv s -> ops_ok l -> exists s' rs, run s l = Ok (s', rs) /\ inv s'.
Proof.
  intros H Hl. destruct (run_refines l s H Hl) as (s' & rs & E & (I & _) & _). eauto.
Qed.

Lemma run_app : forall l1 l2 s,
  run s (l1 ++ l2) = do '(s1, r1) <- run s l1; do '(s2, r2) <- run s1 l2; Ok (s2, r1 ++ r2).
Proof.
  induction l1 as [|[o orc] l1 IH]; intros l2 s.
  - cbn [app run bind]. destruct (run s l2) as [[s2 r2]| |]; reflexivity.
  - cbn [app run]. destruct (step s o orc) as [[s1 x]| |]; cbn [bind]; try reflexivity.
    rewrite IH. destruct (run s1 l1) as [[s2 r1]| |]; cbn [bind]; try reflexivity.
    destruct (run s2 l2) as [[s3 r2]| |]; reflexivity.
Qed.

(* the Limit: a buffer within its Limit stays within it, after every step of every history *)
Theorem limit_invariant l1 l2 s s' rs : inv s -> lim_ok s -> ops_ok (l1 ++ l2) -> no_unmarshal l1 ->
  run s (l1 ++ l2) = Ok (s', rs) ->
  exists s1 r1, run s l1 = Ok (s1, r1) /\ limit s1 = limit s /\ (0 < limit s -> blen s1 <= limit s).
Proof.
  intros H Hlim Hl Hnu E. unfold ops_ok in Hl. apply Forall_app in Hl. destruct Hl as (Hl1 & Hl2).
  destruct (run_refines l1 s H Hl1) as (s1 & r1 & E1 & (I1 & L1 & LO1) & _).
  exists s1, r1. split; [exact E1|]. split; [exact L1|].
  intros Hpos. specialize (LO1 Hlim Hnu). unfold lim_ok in LO1. rewrite L1 in LO1. auto.
Qed.

(* ---- FIFO: the queue only loses bytes at the front and only gains bytes at the back ------------- *)
Lemma qstep_rw lim p q o r p' q' : is_write o || is_read o = true -> qstep lim p q o r p' q' ->
  exists t, q ++ accepted o r = t ++ q' /\ (is_write o || is_raw_read o = true -> t = delivered o r).
Proof.
  intros Hrw Q.
  destruct o; cbn [is_write is_read orb] in Hrw; try discriminate;
    destruct r; cbn [qstep] in Q; try contradiction; cbn [accepted delivered is_write is_raw_read orb].
  - (* Write *) destruct Q as (_ & Q & _). exists []. subst q'. split; [reflexivity | auto].
  - (* typed *) destruct Q as (_ & Q & _). exists []. subst q'. destruct (e =? 0); rewrite ?app_nil_r; split; auto.
  - destruct Q as (_ & Q & _). exists []. subst q'. destruct (e =? 0); rewrite ?app_nil_r; split; auto.
  - (* Read *) destruct Q as (Qd & Q & _). exists d. subst d q'. rewrite app_nil_r, tk_dr_id. split; auto.
  - (* typed read *) rewrite rd_uN_eq in Q. rewrite app_nil_r.
    destruct Q as [(_ & Q & _) | (_ & _ & _ & Q & _)].
    + destruct (len q <? w); [discriminate|]. injection Q as _ Q. exists (take w q). subst q'.
      rewrite tk_dr_id. split; [reflexivity | discriminate].
    + exists []. subst q'. split; [reflexivity | discriminate].
  - (* Bytes *) destruct Q as (_ & (c & Q) & _). exists c. rewrite app_nil_r. split; [exact Q | discriminate].
  - (* WriteTo *) destruct Q as (_ & Qg & Q & _). exists got. subst got q'. rewrite app_nil_r, tk_dr_id. split; auto.
  - (* ReadFrom *) destruct Q as (_ & Q & _). exists []. subst q'. split; [reflexivity | auto].
Qed.

Definition rw_ops (l : list (op * Z)) : Prop := Forall (fun x => is_write (fst x) || is_read (fst x) = true) l.
Definition raw_ops (l : list (op * Z)) : Prop := Forall (fun x => is_write (fst x) || is_raw_read (fst x) = true) l.

Theorem fifo_history : forall l s s' rs, inv s -> ops_ok l -> rw_ops l -> run s l = Ok (s', rs) ->
  exists t, abs s ++ accepted_all (history l rs) = t ++ abs s' /\
            (raw_ops l -> t = delivered_all (history l rs)).
Proof.
  induction l as [|[o orc] l IH]; intros s s' rs H Hl Hrw E.
  - cbn [run] in E. injection E as <- <-. exists []. cbn. rewrite app_nil_r. auto.
  - inversion Hl as [|x l0 Ho Hl']; subst. inversion Hrw as [|x l0 Hrw1 Hrw']; subst. cbn [fst] in Ho, Hrw1.
    cbn [run] in E.
    destruct (step s o orc) as [[s1 r]| |] eqn:E1; cbn [bind] in E; try discriminate.
    destruct (run s1 l) as [[s2 rs2]| |] eqn:E2; cbn [bind] in E; try discriminate.
    injection E as <- <-.
    destruct (step_ok s o orc s1 r H Ho E1) as ((I1 & L1 & _) & Q).
    destruct (qstep_rw _ _ _ _ _ _ _ Hrw1 Q) as (t1 & Ht1 & Hd1).
    destruct (IH s1 s2 rs2 I1 Hl' Hrw' E2) as (t2 & Ht2 & Hd2).
    exists (t1 ++ t2). unfold history in *. cbn [map fst combine accepted_all delivered_all].
    split.
    + rewrite app_assoc, Ht1, <- app_assoc, Ht2, app_assoc. reflexivity.
    + intros Hraw. inversion Hraw as [|x l0 Hr1 Hr']; subst. cbn [fst] in Hr1.
      rewrite (Hd1 Hr1), (Hd2 Hr'). reflexivity.
Qed.

(* on a chunk that starts empty: everything handed to readers, followed by what is still unread,
   is exactly everything that was accepted -- so what was read is a prefix of what was accepted *)
Corollary fifo_fresh l s s' rs : inv s -> abs s = [] -> ops_ok l -> rw_ops l -> raw_ops l ->
  run s l = Ok (s', rs) ->
  accepted_all (history l rs) = delivered_all (history l rs) ++ abs s'.
Proof.
  intros H Hq Hl Hrw Hraw E. destruct (fifo_history l s s' rs H Hl Hrw E) as (t & Ht & Hd).
  rewrite Hq in Ht. cbn [app] in Ht. rewrite <- (Hd Hraw). exact Ht.
Qed.

(* ================================================================================================ *)
(* 12. Write reports exactly what it accepted; typed writes are all-or-nothing                      *)
(* ================================================================================================ *)
Theorem write_reports_exact s b orc : inv s -> byte_list b ->
  exists s' n e, step s (OWrite b) orc = Ok (s', RNE n e) /\
    0 <= n <= len b /\ abs s' = abs s ++ take n b /\
    (e = 0 \/ (e = ErrLimit /\ 0 < limit s) \/ (e = ErrTooLarge /\ MaxSlice < cap s + len b)) /\
    (e = 0 -> n = len b) /\ (n < len b -> e <> 0) /\ (e <> 0 -> b <> [] -> n < len b) /\
    (lim_ok s -> 0 < limit s -> blen s' <= limit s).
Proof.
  intros H Hb. cbn [step].
  destruct (write_spec s b orc H Hb) as (s' & n & e & Hw & (I & L & LO) & Q & TL). rewrite Hw. cbn [bind].
  exists s', n, e. split; [reflexivity|]. cbn [qstep] in Q. destruct Q as (Q1 & Q2 & Q3 & Q4 & Q5 & Q6).
  unfold wr_err in Q4. unfold lim_ok in LO. rewrite L in LO.
  splits; try assumption; try lia.
  intros He Hne. destruct (Q6 He) as [?|?]; [assumption | contradiction].
Qed.

Theorem typed_write_atomic s o orc s' e : inv s -> op_ok o ->
  (exists w v, o = OWriteFixed w v) \/ (exists b, o = OWriteBytes b) ->
  step s o orc = Ok (s', RErr e) ->
  (e <> 0 -> abs s' = abs s) /\ (e = 0 -> abs s' = abs s ++ accepted o (RErr 0)).
Proof.
  intros H Hop Ho E. destruct (step_ok s o orc s' (RErr e) H Hop E) as (_ & Q).
  destruct Ho as [(w & v & ->) | (b & ->)]; cbn [qstep accepted] in *; destruct Q as (_ & Q & _); rewrite Q; cbn [Z.eqb];
    (split; [intros He; replace (e =? 0) with false by lia; reflexivity | intros ->; reflexivity]).
Qed.

(* ================================================================================================ *)
(* 13. regression: the definitions before the two repairs, and the witnesses against them           *)
(* ================================================================================================ *)
(* WriteBytes as it was before commit 4f382ba: the class byte is reserved first, the rest after *)
Definition write_bytes_old (s : state) (b : list Z) (o : Z) : res (state * Z) :=
  let l := len b in
  do '(s1, (i, e)) <- check_write_size s 1 o;
  if i =? -1 then Ok (s1, e) else
  if l =? 0 then do s2 <- put s1 i [0]; Ok (s2, e) else
  let hdr := enc_prefix l in
  do '(s2, (x, e2)) <- check_write_size s1 (len hdr - 1 + l) o;
  if x =? -1 then Ok (s2, e2) else
  do _ <- idx (buf s2) (i + (len hdr - 1) + l);
  do s3 <- put s2 i hdr;
  do '(s4, n) <- copy_at s3 (x + (len hdr - 1)) b;
  if negb (n =? l) then Ok (s4, ErrShortWrite) else Ok (s4, e2).

(* Limit 10, WriteBytes of 8 bytes on a fresh chunk: refused with the limit error, one byte stays *)
Lemma writebytes_stray_refuted :
  exists s b o s' e, inv s /\ byte_list b /\ write_bytes_old s b o = Ok (s', e) /\ e = ErrLimit /\ abs s' = [0] /\ abs s = [].
Proof.
  exists (init_state 10 None), (gen 7 8), 0. eexists _, _.
  split; [unfold inv, init_state; sim; change (len (@nil Z)) with 0; splits; try lia; auto using bl_nil|].
  split; [change (gen 7 8) with [7;8;9;10;11;12;13;14]; repeat constructor; lia|].
  split; [vm_compute; reflexivity|]. split; [reflexivity|]. split; vm_compute; reflexivity.
Qed.
(* the repaired WriteBytes on the same input leaves the queue untouched *)
Lemma writebytes_stray_fixed :
  exists s' , write_bytes (init_state 10 None) (gen 7 8) 0 = Ok (s', ErrLimit) /\ abs s' = [].
Proof. eexists. split; vm_compute; reflexivity. Qed.

(* grow as it was before commit fe80422: the slide branch does not look at the Limit *)
Definition grow_body_old (s1 : state) (x n o : Z) : res (state * (Z * Z)) :=
  let lim := limit s1 in
  if (0 <? lim) && (lim <=? x) then Ok (s1, (0, ErrLimit)) else
  let n := if (0 <? lim) && (lim <? n) then lim else n in
  do r <- reslice s1 n;
  match r with
  | Some (s2, i) => Ok (s2, (i, 0))
  | None =>
    if isnil s1 && (n <=? 64) then
      if n <? 0 then Panic else Ok (St (repeat 0 64%nat) n (rpos s1) lim false, (0, 0))
    else
      let m := cap s1 in
      if n <=? m / 2 - x then
        do src <- slice (buf s1) (rpos s1) (blen s1);
        let s2 := with_mem s1 (overwrite (mem s1) 0 src) in
        do s3 <- set_len (with_rpos s2 0) (x + n); Ok (s3, (x, 0))
      else grow_body s1 x n o
  end.
Definition write_old (s : state) (b : list Z) (o : Z) : res (state * (Z * Z)) :=
  do '(s1, (m, e)) <-
     (do r <- reslice s (len b);
      match r with
      | Some (s', m) => Ok (s', (m, 0))
      | None => let x := blen s - rpos s in
                do s1 <- (if (x =? 0) && negb (rpos s =? 0) then set_len (with_rpos s 0) 0 else Ok s);
                grow_body_old s1 x (len b) o
      end);
  if negb (e =? 0) then Ok (s1, (0, e)) else
  do '(s2, n) <- copy_at s1 m b;
  if (n <? len b) && (0 <? limit s2) && (limit s2 <=? blen s2) then Ok (s2, (n, ErrLimit))
  else Ok (s2, (n, 0)).

(* Limit 8: Write 8 bytes, Read 1, Write 2: the old slide made the buffer 9 bytes long *)
Lemma slide_limit_refuted :
  exists s1 s2 s3 d, write (init_state 8 None) (gen 1 8) 0 = Ok (s1, (8, 0)) /\
    read s1 1 = Ok (s2, (d, 0)) /\ inv s2 /\ lim_ok s2 /\
    write_old s2 (gen 1 2) 0 = Ok (s3, (2, 0)) /\ limit s3 = 8 /\ blen s3 = 9.
Proof.
  eexists _, _, _, _. split; [vm_compute; reflexivity|]. split; [vm_compute; reflexivity|].
  split; [unfold inv; sim; splits; try (vm_compute; congruence); try discriminate|].
  { repeat constructor; lia. }
  split; [unfold lim_ok; sim; lia|].
  split; [vm_compute; reflexivity|]. split; reflexivity.
Qed.
Lemma slide_limit_fixed :
  exists s1 s2 s3 d, write (init_state 8 None) (gen 1 8) 0 = Ok (s1, (8, 0)) /\
    read s1 1 = Ok (s2, (d, 0)) /\ write s2 (gen 1 2) 0 = Ok (s3, (1, ErrLimit)) /\ blen s3 = 8.
Proof.
  eexists _, _, _, _. split; [vm_compute; reflexivity|]. split; [vm_compute; reflexivity|].
  split; [vm_compute; reflexivity | reflexivity].
Qed.

(* ================================================================================================ *)
(* 14. a concrete history (non-vacuity)                                                             *)
(* ================================================================================================ *)
Definition demo_ops : list (op * Z) :=
  [ (OWrite [1;2;3;4;5;6], 0); (ORead 4, 0); (OWrite [7;8;9;10;11;12], 0); (OReadFixed 2, 0); (ORead 10, 0); (ORead 1, 0);
    (OWriteFixed 2 513, 0); (OWriteBytes [42;43], 0); (OReadFixed 2, 0); (OBytes, 0);
    (OWrite [9;9;9;9;9;9;9;9;9], 0) ].

Lemma demo_ok : inv (init_state 8 None) /\ lim_ok (init_state 8 None) /\ ops_ok demo_ops.
Proof.
  split; [unfold inv, init_state; sim; change (len (@nil Z)) with 0; splits; try lia; auto using bl_nil|].
  split; [unfold lim_ok, init_state; sim; lia|].
  unfold ops_ok, demo_ops. repeat constructor; cbn; unfold width_ok; lia.
Qed.

Lemma demo_run :
  exists s', run (init_state 8 None) demo_ops =
      Ok (s', [RNE 6 0; RData [1;2;3;4] 0; RNE 2 ErrLimit; RVal 1286 0; RData [7;8] 0; RData [] EOF;
               RErr 0; RErr 0; RVal 513 0; RData [42;43] 0; RNE 2 ErrLimit]) /\
    abs s' = [9;9] /\ blen s' = 8 /\ limit s' = 8.
Proof. eexists. split; [vm_compute; reflexivity|]. split; [|split]; vm_compute; reflexivity. Qed.
