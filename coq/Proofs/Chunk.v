(* Proofs/Chunk.v -- C11: lemmas about the model of data.Chunk (Model/Chunk.v). *)
From XMT Require Import Base.Prelude Base.BitLemmas Model.Codec Model.Chunk.

Lemma clear_inv s : inv (clear s).
Proof. unfold inv, clear; cbn. repeat split; auto; lia. Qed.
