(* Proofs/Job.v -- lemmas about the job-table model (Model/Job.v). *)
From XMT Require Import Base.Prelude Model.JobSched Model.Job.

(* ---- newJobID ------------------------------------------------------------------------ *)
Lemma pick_id_fresh : forall fuel draws t i,
  pick_id fuel draws t = i -> i = 0 \/ (1 < i < 65536 /\ mem i t = false).
Proof.
  induction fuel as [|f IH]; intros draws t i H; cbn [pick_id] in H.
  - left; destruct draws; congruence.
  - destruct draws as [|d r]; [left; congruence|].
    destruct (negb (mem (u16 d) t) && (1 <? u16 d)) eqn:E.
    + right. apply andb_prop in E as [E1 E2]. subst i.
      apply negb_true_iff in E1. apply Z.ltb_lt in E2.
      unfold u16 in *. pose proof (Z.mod_pos_bound d 65536 eq_refl). repeat split; try lia; assumption.
    + eauto.
Qed.

Lemma new_job_id_fresh : forall draws t i,
  new_job_id draws t = i -> i = 0 \/ (1 < i < 65536 /\ mem i t = false).
Proof. intros; eapply pick_id_fresh; eauto. Qed.
