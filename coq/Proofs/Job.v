(* Proofs/Job.v -- lemmas about the job-table model (Model/Job.v). *)
From XMT Require Import Base.Prelude Model.JobSched Model.Job.

(* ---- newJobID ------------------------------------------------------------------------ *)
Lemma pick_id_fresh : forall fuel draws t i,
  pick_id fuel draws t = i -> i = 0 \/ (1 < i < 65536 /\ mem i t = false).
Proof.
  induction fuel as [|f IH]; intros draws t i H; cbn [pick_id] in H.
  - left; destruct draws; congruence.
  - destruct draws as [|d r]; [left; congruence|].
    destruct (negb (mem (u16 d) t) && (1 <? u16 d)) eqn:E.
    + right. apply andb_prop in E as [E1 E2]. subst i.
      apply negb_true_iff in E1. apply Z.ltb_lt in E2.
      unfold u16 in *. pose proof (Z.mod_pos_bound d 65536 eq_refl). repeat split; try lia; assumption.
    + eauto.
Qed.

Lemma new_job_id_fresh : forall draws t i,
  new_job_id draws t = i -> i = 0 \/ (1 < i < 65536 /\ mem i t = false).
Proof. intros; eapply pick_id_fresh; eauto. Qed.

(* ---- lists, table, heap -------------------------------------------------------------- *)
Lemma nth_upd : forall {A} (l : list A) n m x,
  nth_error (upd l n x) m =
  if Nat.eqb n m then match nth_error l n with Some _ => Some x | None => None end
  else nth_error l m.
Proof.
  induction l as [|a l IH]; intros n m x.
  - cbn. destruct (Nat.eqb n m); destruct n, m; reflexivity.
  - destruct n, m; cbn; try reflexivity. apply IH.
Qed.

Lemma nth_upd_same : forall {A} (l : list A) n x y,
  nth_error l n = Some y -> nth_error (upd l n x) n = Some x.
Proof. intros. rewrite nth_upd, Nat.eqb_refl, H. reflexivity. Qed.

Lemma nth_upd_other : forall {A} (l : list A) n m x,
  n <> m -> nth_error (upd l n x) m = nth_error l m.
Proof. intros. rewrite nth_upd. apply Nat.eqb_neq in H. rewrite H. reflexivity. Qed.

Lemma length_upd : forall {A} (l : list A) n x, length (upd l n x) = length l.
Proof. induction l; intros [|n] x; cbn; auto. Qed.

Lemma upd_upd : forall {A} (l : list A) n x y, upd (upd l n x) n y = upd l n y.
Proof. induction l; intros [|n] x y; cbn; auto. f_equal; auto. Qed.

Lemma upd_same : forall {A} (l : list A) n x, nth_error l n = Some x -> upd l n x = l.
Proof.
  induction l; intros [|n] x H; cbn in *; auto; try congruence.
  f_equal; auto.
Qed.

Lemma lookup_remove : forall i k t,
  lookup k (remove i t) = if k =? i then None else lookup k t.
Proof.
  induction t as [|[k' h] t IH]; cbn.
  - destruct (k =? i); reflexivity.
  - destruct (k' =? i) eqn:E1.
    + rewrite IH. destruct (k =? i) eqn:E2; [reflexivity|].
      destruct (k' =? k) eqn:E3; [|reflexivity].
      apply Z.eqb_eq in E1, E3. apply Z.eqb_neq in E2. congruence.
    + cbn. destruct (k' =? k) eqn:E3.
      * apply Z.eqb_eq in E3. subst k'. rewrite E1. reflexivity.
      * apply IH.
Qed.

Lemma getj_setj : forall s h j h2,
  getj (setj s h j) h2 =
  if Nat.eqb h h2 then match getj s h with Some _ => Some j | None => None end else getj s h2.
Proof. intros. unfold getj, setj. cbn. apply nth_upd. Qed.

Lemma getj_setj_same : forall s h j j0, getj s h = Some j0 -> getj (setj s h j) h = Some j.
Proof. intros. rewrite getj_setj, Nat.eqb_refl, H. reflexivity. Qed.

Lemma getj_setj_other : forall s h j h2, h <> h2 -> getj (setj s h j) h2 = getj s h2.
Proof. intros. rewrite getj_setj. apply Nat.eqb_neq in H. rewrite H. reflexivity. Qed.

Lemma getj_lt : forall s h j, getj s h = Some j -> (h < length (jobs s))%nat.
Proof. intros. apply nth_error_Some. unfold getj in H. congruence. Qed.

(* ---- the effect of one atomic step on the shared state -------------------------------- *)
Inductive effect (s : sess) : pc -> sess -> Prop :=
| EffNone : forall p, effect s p s
| EffInsert : forall id, effect s (PTask3 id) (insert_job s id)
| EffStatus : forall p h j j', c14_pc p = false -> getj s h = Some j ->
    jid j' = jid j -> jdone j' = jdone j -> jorph j' = jorph j -> jres j' = jres j -> jerr j' = jerr j ->
    effect s p (setj s h j')
| EffResult : forall h err tag j, getj s h = Some j -> lookup (jid j) (table s) = Some h ->
    effect s (PH2 h err tag)
      (set_table (setj s h (fin_job j (if err then StError else StCompleted) tag err)) (remove (jid j) (table s)))
| EffCancelT : forall h j, getj s h = Some j -> jdone j <> Nil -> lookup (jid j) (table s) = Some h ->
    effect s (PC1 h)
      (set_table (setj s h (fin_job j StCanceled (jres j) (jerr j))) (remove (jid j) (table s)))
| EffCancelO : forall h j, getj s h = Some j -> jdone j <> Nil -> lookup (jid j) (table s) <> Some h ->
    effect s (PC1 h) (setj s h (fin_job j StCanceled (jres j) (jerr j))).

Definition no_closed (s : sess) : Prop := forall h j, getj s h = Some j -> jdone j <> Closed.

Ltac break_in H :=
  repeat match type of H with
  | context [match ?x with _ => _ end] => destruct x eqn:?
  end.

Lemma step_effect : forall p s p' s',
  no_closed s -> step p s = Ok (p', s') -> effect s p s'.
Proof.
  intros p s p' s' NC H.
  destruct p; cbn [step step_common] in H;
    try (break_in H; try discriminate; inversion H; subst; clear H; apply EffNone).
  - (* PTask3 *) inversion H; subst. apply EffInsert.
  - (* PH2 *)
    destruct (getj s h) as [j|] eqn:G; [|inversion H; subst; apply EffNone].
    destruct (lookup (jid j) (table s)) as [h'|] eqn:L; [|inversion H; subst; apply EffNone].
    destruct (Nat.eqb h' h) eqn:E; [|inversion H; subst; apply EffNone].
    apply Nat.eqb_eq in E. subst h'. pose proof (NC _ _ G) as NCj.
    destruct j as [i st d r e f o]. cbn in *.
    destruct d; cbn in H; try congruence; inversion H; subst; clear H;
      exact (EffResult s h err tag _ G L).
  - (* PC1 *)
    destruct (getj s h) as [j|] eqn:G; [|inversion H; subst; apply EffNone].
    pose proof (NC _ _ G) as NCj.
    destruct j as [i st d r e f o]. cbn in *.
    destruct d; cbn in H; try congruence; [|inversion H; subst; apply EffNone].
    destruct (lookup i (table s)) as [h'|] eqn:L.
    + destruct (Nat.eqb h' h) eqn:E; inversion H; subst; clear H.
      * apply Nat.eqb_eq in E. subst h'.
        refine (EffCancelT s h _ G _ L). cbn. congruence.
      * apply Nat.eqb_neq in E.
        refine (EffCancelO s h _ G _ _); cbn; congruence.
    + inversion H; subst; clear H. refine (EffCancelO s h _ G _ _); cbn; congruence.
  - (* PA2 *)
    destruct (getj s h) as [j|] eqn:G; inversion H; subst; [|apply EffNone].
    eapply EffStatus; eauto.
  - (* PF2 *)
    destruct (getj s h) as [j|] eqn:G; inversion H; subst; [|apply EffNone].
    eapply EffStatus; eauto; destruct (jfrags j =? 0); reflexivity.
Qed.

Lemma step_total : forall p s, no_closed s -> exists p' s', step p s = Ok (p', s').
Proof.
  intros p s NC.
  destruct p; cbn [step step_common];
    try (repeat match goal with |- context [match ?x with _ => _ end] => destruct x eqn:? end; eauto; fail).
  - (* PH2 *)
    destruct (getj s h) as [j|] eqn:G; eauto.
    destruct (lookup (jid j) (table s)) as [h'|]; eauto.
    destruct (Nat.eqb h' h); eauto.
    pose proof (NC _ _ G). destruct j as [i st d r e f o]; cbn in *.
    destruct d; cbn; eauto; congruence.
  - (* PC1 *)
    destruct (getj s h) as [j|] eqn:G; eauto.
    pose proof (NC _ _ G). destruct j as [i st d r e f o]; cbn in *.
    destruct d; cbn; eauto; try congruence.
    destruct (lookup i (table s)) as [h'|]; eauto. destruct (Nat.eqb h' h); eauto.
Qed.

(* ---- insert_job ---------------------------------------------------------------------- *)
Definition ins_jobs (s : sess) (id : Z) : list job :=
  match lookup id (table s) with
  | Some h' => match nth_error (jobs s) h' with
               | Some j' => upd (jobs s) h' (with_orph j')
               | None => jobs s
               end
  | None => jobs s
  end.

Lemma insert_job_eq : forall s id,
  insert_job s id = mkSess (ins_jobs s id ++ [new_job id]) ((id, length (jobs s)) :: remove id (table s)).
Proof. reflexivity. Qed.

Lemma ins_jobs_length : forall s id, length (ins_jobs s id) = length (jobs s).
Proof.
  intros. unfold ins_jobs. destruct (lookup id (table s)); auto.
  destruct (nth_error (jobs s) n); auto. apply length_upd.
Qed.

Lemma ins_jobs_nth : forall s id h,
  nth_error (ins_jobs s id) h =
  match nth_error (jobs s) h with
  | Some j => if option_eqb Nat.eqb (lookup id (table s)) (Some h) then Some (with_orph j) else Some j
  | None => None
  end.
Proof.
  intros. unfold ins_jobs. destruct (lookup id (table s)) as [h'|] eqn:L; cbn.
  - destruct (nth_error (jobs s) h') as [j'|] eqn:G.
    + rewrite nth_upd. destruct (Nat.eqb h' h) eqn:E.
      * apply Nat.eqb_eq in E. subst. rewrite G. reflexivity.
      * destruct (nth_error (jobs s) h); reflexivity.
    + destruct (Nat.eqb h' h) eqn:E.
      * apply Nat.eqb_eq in E. subst. rewrite G. reflexivity.
      * destruct (nth_error (jobs s) h); reflexivity.
  - destruct (nth_error (jobs s) h); reflexivity.
Qed.

Lemma getj_insert_inv : forall s id h j',
  getj (insert_job s id) h = Some j' ->
  (h = length (jobs s) /\ j' = new_job id) \/
  (exists j, getj s h = Some j /\
     ((j' = j /\ lookup id (table s) <> Some h) \/ (j' = with_orph j /\ lookup id (table s) = Some h))).
Proof.
  intros s id h j' H. rewrite insert_job_eq in H. unfold getj in *. cbn [jobs] in H.
  destruct (Nat.lt_ge_cases h (length (jobs s))) as [Lt|Ge].
  - right. rewrite nth_error_app1 in H by (rewrite ins_jobs_length; exact Lt).
    rewrite ins_jobs_nth in H. destruct (nth_error (jobs s) h) as [j|]; [|discriminate].
    exists j. split; [reflexivity|].
    destruct (lookup id (table s)) as [h'|]; cbn in H.
    + destruct (Nat.eqb h' h) eqn:E; inversion H; subst.
      * apply Nat.eqb_eq in E. subst. right. auto.
      * apply Nat.eqb_neq in E. left. split; congruence.
    + inversion H. left. split; congruence.
  - left. rewrite nth_error_app2 in H by (rewrite ins_jobs_length; exact Ge).
    rewrite ins_jobs_length in H.
    destruct (h - length (jobs s))%nat as [|k] eqn:E; cbn in H.
    + inversion H. split; [lia|reflexivity].
    + destruct k; discriminate.
Qed.

Lemma getj_insert_old : forall s id h j,
  getj s h = Some j ->
  getj (insert_job s id) h =
  Some (if option_eqb Nat.eqb (lookup id (table s)) (Some h) then with_orph j else j).
Proof.
  intros s id h j G. rewrite insert_job_eq. unfold getj in *. cbn [jobs].
  rewrite nth_error_app1 by (rewrite ins_jobs_length; apply nth_error_Some; congruence).
  rewrite ins_jobs_nth, G. destruct (option_eqb Nat.eqb (lookup id (table s)) (Some h)); reflexivity.
Qed.

Lemma getj_insert_new : forall s id, getj (insert_job s id) (length (jobs s)) = Some (new_job id).
Proof.
  intros. rewrite insert_job_eq. unfold getj. cbn [jobs].
  rewrite nth_error_app2 by (rewrite ins_jobs_length; lia).
  rewrite ins_jobs_length, Nat.sub_diag. reflexivity.
Qed.

Lemma lookup_insert : forall s id k,
  lookup k (table (insert_job s id)) = if id =? k then Some (length (jobs s)) else lookup k (table s).
Proof.
  intros. rewrite insert_job_eq. cbn [table lookup]. destruct (id =? k) eqn:E; [reflexivity|].
  rewrite lookup_remove. rewrite Z.eqb_sym, E. reflexivity.
Qed.

(* ---- the invariant of the shared state ------------------------------------------------ *)
Record Inv (s : sess) : Prop := {
  inv_noclosed : no_closed s;
  (* what the table holds is a pending, not overwritten job with that number *)
  inv_table : forall k h, lookup k (table s) = Some h ->
     exists j, getj s h = Some j /\ jid j = k /\ jdone j = Open /\ jorph j = false;
  (* a pending job that was not overwritten is in the table under its number *)
  inv_open : forall h j, getj s h = Some j -> jdone j = Open -> jorph j = false ->
     lookup (jid j) (table s) = Some h
}.

Lemma getj_set_table : forall s t h, getj (set_table s t) h = getj s h.
Proof. reflexivity. Qed.

Lemma Inv_s0 : Inv s0.
Proof.
  split.
  - intros h j H. destruct h; discriminate.
  - intros k h H. discriminate.
  - intros h j H. destruct h; discriminate.
Qed.

Lemma opt_eqb_true : forall a h, option_eqb Nat.eqb a (Some h) = true <-> a = Some h.
Proof.
  intros [x|] h; cbn; split; intro H; try discriminate.
  - apply Nat.eqb_eq in H. congruence.
  - inversion H. apply Nat.eqb_refl.
Qed.

Lemma effect_inv : forall s p s', Inv s -> effect s p s' -> Inv s'.
Proof.
  intros s p s' [NC T O] E. destruct E.
  - split; assumption.
  - (* insert *)
    split.
    + intros h j G. apply getj_insert_inv in G as [[_ ->]|[j0 [G [[-> _]|[-> _]]]]]; cbn; try congruence;
        try (eapply NC; eauto).
    + intros k h L. rewrite lookup_insert in L. destruct (id =? k) eqn:E.
      * apply Z.eqb_eq in E. inversion L; subst. exists (new_job k). rewrite getj_insert_new. cbn. auto.
      * destruct (T _ _ L) as [j [G [I [D Or]]]]. exists j. split; [|auto].
        rewrite (getj_insert_old _ _ _ _ G).
        destruct (option_eqb Nat.eqb (lookup id (table s)) (Some h)) eqn:Q; [|reflexivity].
        apply opt_eqb_true in Q. destruct (T _ _ Q) as [j2 [G2 [I2 _]]].
        apply Z.eqb_neq in E. congruence.
    + intros h j G D Or. rewrite lookup_insert.
      apply getj_insert_inv in G as [[-> ->]|[j0 [G [[-> NL]|[-> _]]]]].
      * cbn. rewrite Z.eqb_refl. reflexivity.
      * pose proof (O _ _ G D Or) as L. destruct (id =? jid j0) eqn:E; [|exact L].
        apply Z.eqb_eq in E. congruence.
      * cbn in Or. discriminate.
  - (* status / frags write *)
    split.
    + intros h2 j2 G. rewrite getj_setj in G. destruct (Nat.eqb h h2) eqn:E.
      * rewrite H0 in G. inversion G; subst. rewrite H2. eapply NC; eauto.
      * eapply NC; eauto.
    + intros k h2 L. cbn [table setj] in L. destruct (T _ _ L) as [j2 [G2 R]].
      rewrite getj_setj. destruct (Nat.eqb h h2) eqn:E.
      * apply Nat.eqb_eq in E. subst. rewrite H0. exists j'. split; [reflexivity|].
        rewrite H0 in G2. inversion G2; subst. rewrite H1, H2, H3. exact R.
      * exists j2. auto.
    + intros h2 j2 G D Or. cbn [table setj]. rewrite getj_setj in G. destruct (Nat.eqb h h2) eqn:E.
      * apply Nat.eqb_eq in E. subst. rewrite H0 in G. inversion G; subst.
        rewrite H1. apply O; congruence.
      * apply O; auto.
  - (* result *)
    destruct (T _ _ H0) as [j0 [G0 [_ [D0 Or0]]]]. rewrite H in G0. inversion G0; subst j0. clear G0.
    split.
    + intros h2 j2 G. rewrite getj_set_table in G.
      rewrite getj_setj in G. destruct (Nat.eqb h h2).
      * rewrite H in G. inversion G. cbn. congruence.
      * eapply NC; eauto.
    + intros k h2 L. cbn [table set_table] in L. rewrite lookup_remove in L.
      destruct (k =? jid j) eqn:E; [discriminate|]. destruct (T _ _ L) as [j2 [G2 [I2 R]]].
      exists j2. split; [|auto]. 
      rewrite getj_set_table.
      rewrite getj_setj_other; auto. intro; subst h2. apply Z.eqb_neq in E. congruence.
    + intros h2 j2 G D Or. cbn [table set_table].
      rewrite getj_set_table in G.
      rewrite getj_setj in G. destruct (Nat.eqb h h2) eqn:E.
      * rewrite H in G. inversion G; subst. discriminate.
      * apply Nat.eqb_neq in E. pose proof (O _ _ G D Or) as L. rewrite lookup_remove.
        destruct (jid j2 =? jid j) eqn:E2; [|exact L]. apply Z.eqb_eq in E2. congruence.
  - (* cancel, tracked *)
    split.
    + intros h2 j2 G. rewrite getj_set_table in G.
      rewrite getj_setj in G. destruct (Nat.eqb h h2).
      * rewrite H in G. inversion G. cbn. congruence.
      * eapply NC; eauto.
    + intros k h2 L. cbn [table set_table] in L. rewrite lookup_remove in L.
      destruct (k =? jid j) eqn:E; [discriminate|]. destruct (T _ _ L) as [j2 [G2 [I2 R]]].
      exists j2. split; [|auto].
      rewrite getj_set_table.
      rewrite getj_setj_other; auto. intro; subst h2. apply Z.eqb_neq in E. congruence.
    + intros h2 j2 G D Or. cbn [table set_table].
      rewrite getj_set_table in G.
      rewrite getj_setj in G. destruct (Nat.eqb h h2) eqn:E.
      * rewrite H in G. inversion G; subst. discriminate.
      * apply Nat.eqb_neq in E. pose proof (O _ _ G D Or) as L. rewrite lookup_remove.
        destruct (jid j2 =? jid j) eqn:E2; [|exact L]. apply Z.eqb_eq in E2. congruence.
  - (* cancel, not tracked (overwritten job) *)
    split.
    + intros h2 j2 G. rewrite getj_setj in G. destruct (Nat.eqb h h2).
      * rewrite H in G. inversion G. cbn. congruence.
      * eapply NC; eauto.
    + intros k h2 L. cbn [table setj] in L. destruct (T _ _ L) as [j2 [G2 [I2 R]]].
      exists j2. split; [|auto]. rewrite getj_setj_other; auto. intro; subst h2. congruence.
    + intros h2 j2 G D Or. cbn [table setj]. rewrite getj_setj in G. destruct (Nat.eqb h h2) eqn:E.
      * rewrite H in G. inversion G; subst. discriminate.
      * apply O; auto.
Qed.

(* ---- histories ------------------------------------------------------------------------ *)
Lemma exec_run_cases : forall t (c c' : cfg),
  exec step init_pc (Run t) c = Ok c' ->
  (nth_error (fst c) t = None /\ c' = c) \/
  exists p p' s', nth_error (fst c) t = Some p /\ step p (snd c) = Ok (p', s') /\
                  c' = (upd (fst c) t p', s').
Proof.
  intros t c c' H. unfold exec in H. destruct (nth_error (fst c) t) as [p|] eqn:N.
  - right. unfold bind in H. destruct (step p (snd c)) as [[p' s']| |] eqn:S; try discriminate.
    inversion H. exists p, p', s'. auto.
  - left. inversion H. auto.
Qed.

Lemma exec_spawn : forall o (c : cfg),
  exec step init_pc (Spawn o) c = Ok (fst c ++ [init_pc o], snd c).
Proof. reflexivity. Qed.

Lemma exec_effect : forall e (c c' : cfg),
  Inv (snd c) -> exec step init_pc e c = Ok c' ->
  snd c' = snd c \/ exists t p, e = Run t /\ nth_error (fst c) t = Some p /\ effect (snd c) p (snd c').
Proof.
  intros e c c' I H. destruct e as [o|t].
  - inversion H. left. reflexivity.
  - apply exec_run_cases in H as [[_ ->]|[p [p' [s' [N [S ->]]]]]]; [left; reflexivity|].
    right. exists t, p. repeat split; auto. eapply step_effect; eauto. apply I.
Qed.

Lemma exec_inv : forall e (c c' : cfg),
  Inv (snd c) -> exec step init_pc e c = Ok c' -> Inv (snd c').
Proof.
  intros e c c' I H. destruct (exec_effect _ _ _ I H) as [->|[t [p [_ [_ E]]]]]; [exact I|].
  eapply effect_inv; eauto.
Qed.

Lemma exec_total : forall e (c : cfg), Inv (snd c) -> exists c', exec step init_pc e c = Ok c'.
Proof.
  intros e c I. destruct e as [o|t]; [eexists; reflexivity|].
  unfold exec. destruct (nth_error (fst c) t) as [p|]; [|eexists; reflexivity].
  destruct (step_total p (snd c) (inv_noclosed _ I)) as [p' [s' ->]]. cbn. eexists; reflexivity.
Qed.

Lemma run_from_cons : forall e es (c : cfg),
  run_from c (e :: es) = do c' <- exec step init_pc e c; run_from c' es.
Proof. reflexivity. Qed.

Lemma run_from_app : forall es1 es2 (c : cfg),
  run_from c (es1 ++ es2) = do c' <- run_from c es1; run_from c' es2.
Proof.
  induction es1 as [|e es1 IH]; intros es2 c; [reflexivity|].
  cbn [app]. rewrite !run_from_cons. destruct (exec step init_pc e c); cbn; auto.
Qed.

Lemma run_from_inv : forall es (c c' : cfg), Inv (snd c) -> run_from c es = Ok c' -> Inv (snd c').
Proof.
  induction es as [|e es IH]; intros c c' I H.
  - inversion H; subst; exact I.
  - rewrite run_from_cons in H. destruct (exec step init_pc e c) as [c1| |] eqn:X; try discriminate.
    eapply IH; [|exact H]. eapply exec_inv; eauto.
Qed.

Lemma run_from_total : forall es (c : cfg), Inv (snd c) -> exists c', run_from c es = Ok c'.
Proof.
  induction es as [|e es IH]; intros c I; [eexists; reflexivity|].
  rewrite run_from_cons. destruct (exec_total e c I) as [c1 X]. rewrite X. cbn.
  apply IH. eapply exec_inv; eauto.
Qed.

Lemma run_inv : forall es c, run es = Ok c -> Inv (snd c).
Proof. intros es c. apply run_from_inv. exact Inv_s0. Qed.

(* done_closed_once: every history runs to the end, no step panics *)
Lemma run_total : forall es, exists c, run es = Ok c.
Proof. intro es. apply run_from_total. exact Inv_s0. Qed.

Lemma run_no_panic : forall es, run es <> Panic.
Proof. intro es. destruct (run_total es) as [c H]. congruence. Qed.

(* a general induction principle over histories *)
Lemma run_from_ind (P : cfg -> Prop) :
  (forall e c c', Inv (snd c) -> P c -> exec step init_pc e c = Ok c' -> P c') ->
  forall es c c', Inv (snd c) -> P c -> run_from c es = Ok c' -> P c'.
Proof.
  intros Hs. induction es as [|e es IH]; intros c c' I Pc H.
  - inversion H; subst; exact Pc.
  - rewrite run_from_cons in H. destruct (exec step init_pc e c) as [c1| |] eqn:X; try discriminate.
    eapply IH; [| |exact H]; [eapply exec_inv|eapply Hs]; eauto.
Qed.

(* ---- what happens to one job --------------------------------------------------------- *)
Lemma effect_mono : forall s p s' h j,
  effect s p s' -> getj s h = Some j ->
  exists j', getj s' h = Some j' /\ jid j' = jid j /\ (jdone j = Nil -> jdone j' = Nil) /\
             (jdone j' = Open -> jdone j = Open).
Proof.
  intros s p s' h j E G. destruct E.
  - exists j. auto.
  - rewrite (getj_insert_old _ _ _ _ G).
    destruct (option_eqb Nat.eqb (lookup id (table s)) (Some h)); eexists; split; eauto.
  - rewrite getj_setj. destruct (Nat.eqb h0 h) eqn:E.
    + apply Nat.eqb_eq in E. subst. rewrite H0. rewrite H0 in G. inversion G; subst.
      exists j'. rewrite H2. auto.
    + exists j. auto.
  - rewrite getj_set_table, getj_setj. destruct (Nat.eqb h0 h) eqn:E.
    + apply Nat.eqb_eq in E. subst. rewrite H. rewrite H in G. inversion G; subst.
      eexists. split; [reflexivity|]. cbn. repeat split; auto; discriminate.
    + exists j. auto.
  - rewrite getj_set_table, getj_setj. destruct (Nat.eqb h0 h) eqn:E.
    + apply Nat.eqb_eq in E. subst. rewrite H. rewrite H in G. inversion G; subst.
      eexists. split; [reflexivity|]. cbn. repeat split; auto; discriminate.
    + exists j. auto.
  - rewrite getj_setj. destruct (Nat.eqb h0 h) eqn:E.
    + apply Nat.eqb_eq in E. subst. rewrite H. rewrite H in G. inversion G; subst.
      eexists. split; [reflexivity|]. cbn. repeat split; auto; discriminate.
    + exists j. auto.
Qed.

Lemma exec_mono : forall e (c c' : cfg) h j,
  Inv (snd c) -> exec step init_pc e c = Ok c' -> getj (snd c) h = Some j ->
  exists j', getj (snd c') h = Some j' /\ jid j' = jid j /\ (jdone j = Nil -> jdone j' = Nil) /\
             (jdone j' = Open -> jdone j = Open).
Proof.
  intros e c c' h j I H G. destruct (exec_effect _ _ _ I H) as [->|[t [p [_ [_ E]]]]].
  - exists j. auto.
  - eapply effect_mono; eauto.
Qed.

(* a finished job stays finished (any operations, accept / frag included) *)
Lemma finished_stable : forall es (c c' : cfg) h,
  Inv (snd c) -> finished (snd c) h -> run_from c es = Ok c' -> finished (snd c') h.
Proof.
  intros es c c' h I F H. revert es c c' I F H.
  refine (run_from_ind (fun c => finished (snd c) h) _).
  intros e c c' I [j [G D]] X. destruct (exec_mono _ _ _ _ _ I X G) as [j' [G' [_ [N _]]]].
  exists j'. auto.
Qed.

Lemma pending_not_finished : forall s h, pending s h -> finished s h -> False.
Proof. intros s h [j [G D]] [j' [G' D']]. congruence. Qed.

(* the job exists: it is pending or finished, never in between (done is never "closed") *)
Lemma pending_or_finished : forall s h j, Inv s -> getj s h = Some j -> pending s h \/ finished s h.
Proof.
  intros s h j I G. pose proof (inv_noclosed _ I _ _ G). destruct (jdone j) eqn:D; try congruence.
  - left. exists j. auto.
  - right. exists j. auto.
Qed.

(* ---- leaves_table / waiters_released (state part) --------------------------------------- *)
Lemma tracked_pending : forall s h, Inv s -> tracked s h -> pending s h.
Proof. intros s h I [k L]. destruct (inv_table _ I _ _ L) as [j [G [_ [D _]]]]. exists j. auto. Qed.

Lemma finished_not_tracked : forall s h, Inv s -> finished s h -> ~ tracked s h.
Proof. intros s h I F T. eapply pending_not_finished; eauto. apply tracked_pending; auto. Qed.

Lemma untracked_finished : forall s h j,
  Inv s -> getj s h = Some j -> jorph j = false -> ~ tracked s h -> finished s h.
Proof.
  intros s h j I G Or NT. destruct (pending_or_finished _ _ _ I G) as [[j' [G' D]]|F]; [|exact F].
  exfalso. apply NT. exists (jid j). rewrite G in G'. inversion G'; subst. apply (inv_open _ I); auto.
Qed.

(* a waiter of a finished job returns at its next step; IsDone answers true *)
Lemma wait_step_finished : forall s h p,
  finished s h -> p = PW0 h \/ p = PW1 h -> step p s = Ok (PDone RUnit, s).
Proof. intros s h p [j [G D]] [->| ->]; cbn; rewrite G, D; reflexivity. Qed.

Lemma isdone_step_finished : forall s h p,
  finished s h -> p = PI0 h \/ p = PI1 h -> step p s = Ok (PDone (RBool true), s).
Proof. intros s h p [j [G D]] [->| ->]; cbn; rewrite G, D; reflexivity. Qed.

(* a waiter of a pending job does not return; IsDone answers false *)
Lemma wait_step_pending : forall s h p p' s',
  pending s h -> p = PW0 h \/ p = PW1 h -> step p s = Ok (p', s') -> p' = PW1 h /\ s' = s.
Proof. intros s h p p' s' [j [G D]] [->| ->] H; cbn in H; rewrite G, D in H; inversion H; auto. Qed.

Lemma isdone_step_pending : forall s h p p' s',
  pending s h -> p = PI0 h \/ p = PI1 h -> step p s = Ok (p', s') ->
  (p' = PI1 h \/ p' = PDone (RBool false)) /\ s' = s.
Proof. intros s h p p' s' [j [G D]] [->| ->] H; cbn in H; rewrite G, D in H; inversion H; auto. Qed.

(* ---- one thread through a history ------------------------------------------------------- *)
Lemma thread_inv (R : pc -> sess -> Prop) :
  (forall p s p' s', Inv s -> R p s -> step p s = Ok (p', s') -> R p' s') ->
  (forall p s q s', Inv s -> R p s -> effect s q s' -> R p s') ->
  forall es (c c' : cfg) t, Inv (snd c) ->
    (exists p, nth_error (fst c) t = Some p /\ R p (snd c)) -> run_from c es = Ok c' ->
    exists p', nth_error (fst c') t = Some p' /\ R p' (snd c').
Proof.
  intros Own Oth es c c' t I HR H. revert es c c' I HR H.
  refine (run_from_ind (fun c => exists p, nth_error (fst c) t = Some p /\ R p (snd c)) _).
  intros e c c' I [p [N Rp]] X. destruct e as [o|t'].
  - inversion X; subst. cbn. exists p. split; [|exact Rp].
    rewrite nth_error_app1; [exact N|]. apply nth_error_Some. congruence.
  - apply exec_run_cases in X as [[_ ->]|[q [q' [s' [N' [S ->]]]]]]; [exists p; auto|].
    cbn [fst snd]. destruct (Nat.eq_dec t' t) as [->|NE].
    + rewrite N in N'. inversion N'; subst q. exists q'. split; [eapply nth_upd_same; eauto|].
      eapply Own; eauto.
    + exists p. rewrite nth_upd_other by exact NE. split; [exact N|].
      eapply Oth; eauto. eapply step_effect; eauto. apply I.
Qed.

Lemma nth_spawned : forall (ps : list pc) p, nth_error (ps ++ [p]) (length ps) = Some p.
Proof. intros. rewrite nth_error_app2 by lia. rewrite Nat.sub_diag. reflexivity. Qed.

(* Wait never returns while the job is pending: a thread started as Wait(h) on an existing job
   that has returned implies the job is finished *)
Definition wait_R (h : nat) (p : pc) (s : sess) : Prop :=
  (h < length (jobs s))%nat /\ (p = PW0 h \/ p = PW1 h \/ ((exists r, p = PDone r) /\ finished s h)).

Lemma lt_getj : forall s h, (h < length (jobs s))%nat -> exists j, getj s h = Some j.
Proof. intros s h L. unfold getj. destruct (nth_error (jobs s) h) eqn:E; eauto. apply nth_error_None in E. lia. Qed.

Lemma valid_effect : forall s q s' h, effect s q s' -> (h < length (jobs s))%nat -> (h < length (jobs s'))%nat.
Proof.
  intros s q s' h E L. destruct (lt_getj _ _ L) as [j G].
  destruct (effect_mono _ _ _ _ _ E G) as [j' [G' _]]. eapply getj_lt; eauto.
Qed.

Lemma finished_effect : forall s q s' h, effect s q s' -> finished s h -> finished s' h.
Proof.
  intros s q s' h E [j [G D]]. destruct (effect_mono _ _ _ _ _ E G) as [j' [G' [_ [N _]]]]. exists j'. auto.
Qed.

Lemma wait_not_early : forall es (c c' : cfg) h r,
  Inv (snd c) -> (h < length (jobs (snd c)))%nat ->
  run_from c (Spawn (OWait h) :: es) = Ok c' ->
  nth_error (fst c') (length (fst c)) = Some (PDone r) -> finished (snd c') h.
Proof.
  intros es c c' h r I V H N. rewrite run_from_cons, exec_spawn in H. cbn [bind] in H.
  destruct (thread_inv (wait_R h)) with (es := es) (c := (fst c ++ [init_pc (OWait h)], snd c)) (c' := c') (t := length (fst c))
    as [p' [N' [_ R]]]; auto.
  - intros p s p' s' Is [L R] S. pose proof (inv_noclosed _ Is) as NC. destruct (lt_getj _ _ L) as [j G].
    destruct R as [->|[->|[[r0 ->] F]]]; cbn in S; try rewrite G in S.
    + destruct (jdone j) eqn:D; inversion S; subst; (split; [auto|]); auto;
        try (exfalso; eapply NC; eauto; fail); right; right; split; eauto; exists j; auto.
    + destruct (jdone j) eqn:D; inversion S; subst; (split; [auto|]); auto;
        try (exfalso; eapply NC; eauto; fail); right; right; split; eauto; exists j; auto.
    + inversion S; subst. split; eauto.
  - intros p s q s' Is [L R] E. split; [eapply valid_effect; eauto|].
    destruct R as [->|[->|[X F]]]; auto. right. right. split; auto. eapply finished_effect; eauto.
  - exists (PW0 h). cbn. split; [apply nth_spawned|]. split; auto.
  - rewrite N in N'. inversion N'; subst. destruct R as [X|[X|[_ F]]]; try discriminate. exact F.
Qed.

(* Cancel finishes the job: a thread started as Cancel(h) on an existing job that has returned
   implies the job is finished (by it or by someone else) *)
Definition cancel_R (h : nat) (p : pc) (s : sess) : Prop :=
  (h < length (jobs s))%nat /\ (p = PC0 h \/ p = PC1 h \/ ((exists r, p = PDone r) /\ finished s h)).

Lemma cancel_completes : forall es (c c' : cfg) h r,
  Inv (snd c) -> (h < length (jobs (snd c)))%nat ->
  run_from c (Spawn (OCancel h) :: es) = Ok c' ->
  nth_error (fst c') (length (fst c)) = Some (PDone r) -> finished (snd c') h /\ ~ tracked (snd c') h.
Proof.
  intros es c c' h r I V H N.
  assert (Ic' : Inv (snd c')) by (eapply run_from_inv; eauto).
  rewrite run_from_cons, exec_spawn in H. cbn [bind] in H.
  destruct (thread_inv (cancel_R h)) with (es := es) (c := (fst c ++ [init_pc (OCancel h)], snd c)) (c' := c') (t := length (fst c))
    as [p' [N' [_ R]]]; auto.
  - intros p s p' s' Is [L R] S. pose proof (inv_noclosed _ Is) as NC. destruct (lt_getj _ _ L) as [j G].
    pose proof (step_effect _ _ _ _ NC S) as E.
    split; [eapply valid_effect; eauto|].
    destruct R as [->|[->|[[r0 ->] F]]].
    + cbn in S. rewrite G in S. destruct (jdone j) eqn:D; inversion S; subst; auto.
      right. right. split; eauto. exists j. auto.
    + right. right. cbn in S. rewrite G in S. pose proof (NC _ _ G) as NCj.
      destruct j as [i st d rr e f o]; cbn in *.
      destruct d; try congruence; cbn in S.
      * destruct (lookup i (table s)) as [h'|]; [destruct (Nat.eqb h' h)|]; inversion S; subst;
          (split; [eauto|]); eexists; (split; [try rewrite getj_set_table; eapply getj_setj_same; eauto|reflexivity]).
      * inversion S; subst. split; eauto. eexists; split; eauto.
    + inversion S; subst. right. right. split; eauto.
  - intros p s q s' Is [L R] E. split; [eapply valid_effect; eauto|].
    destruct R as [->|[->|[X F]]]; auto. right. right. split; auto. eapply finished_effect; eauto.
  - exists (PC0 h). cbn. split; [apply nth_spawned|]. split; auto.
  - rewrite N in N'. inversion N'; subst. destruct R as [X|[X|[_ F]]]; try discriminate.
    split; [exact F|]. apply finished_not_tracked; auto.
Qed.

(* ---- status: histories of the operations of the property (no accept / frag) ------------- *)
Definition InvSt (s : sess) : Prop :=
  forall h j, getj s h = Some j ->
    (jdone j = Open -> jstatus j = StWaiting /\ jres j = 0 /\ jerr j = false) /\
    (jdone j = Nil -> final (jstatus j)).

Definition clean (ps : list pc) : Prop := forall t p, nth_error ps t = Some p -> c14_pc p = true.

Lemma step_c14 : forall p s p' s', step p s = Ok (p', s') -> c14_pc p = true -> c14_pc p' = true.
Proof.
  intros p s p' s' H C.
  destruct p; try discriminate; cbn [step step_common] in H; unfold close_nil, close_chan, bind in H;
    break_in H; try discriminate; inversion H; subst; reflexivity.
Qed.

Lemma init_c14 : forall o, c14_pc (init_pc o) = c14_op o.
Proof. destruct o; reflexivity. Qed.

Lemma final_cases : forall err : bool, final (if err then StError else StCompleted).
Proof. intros [|]; unfold final; auto. Qed.

Lemma effect_invst : forall s p s', Inv s -> InvSt s -> effect s p s' -> c14_pc p = true -> InvSt s'.
Proof.
  intros s p s' I St E C. destruct E.
  - exact St.
  - intros h j G. apply getj_insert_inv in G as [[_ ->]|[j0 [G [[-> _]|[-> _]]]]].
    + cbn. split; [auto|discriminate].
    + apply (St _ _ G).
    + apply (St _ _ G).
  - congruence.
  - intros h2 j2 G. rewrite getj_set_table, getj_setj in G. destruct (Nat.eqb h h2).
    + rewrite H in G. inversion G. cbn. split; [discriminate|]. intros _. apply final_cases.
    + apply (St _ _ G).
  - intros h2 j2 G. rewrite getj_set_table, getj_setj in G. destruct (Nat.eqb h h2).
    + rewrite H in G. inversion G. cbn. split; [discriminate|]. intros _. unfold final; auto.
    + apply (St _ _ G).
  - intros h2 j2 G. rewrite getj_setj in G. destruct (Nat.eqb h h2).
    + rewrite H in G. inversion G. cbn. split; [discriminate|]. intros _. unfold final; auto.
    + apply (St _ _ G).
Qed.

(* a finished job is not touched by any step of these operations *)
Lemma effect_frozen : forall s p s' h j,
  Inv s -> effect s p s' -> c14_pc p = true -> getj s h = Some j -> jdone j = Nil -> getj s' h = Some j.
Proof.
  intros s p s' h j I E C G D. destruct E.
  - exact G.
  - rewrite (getj_insert_old _ _ _ _ G).
    destruct (option_eqb Nat.eqb (lookup id (table s)) (Some h)) eqn:Q; [|reflexivity].
    apply opt_eqb_true in Q. destruct (inv_table _ I _ _ Q) as [j2 [G2 [_ [D2 _]]]]. congruence.
  - congruence.
  - rewrite getj_set_table, getj_setj_other; auto. intro; subst h0.
    destruct (inv_table _ I _ _ H0) as [j2 [G2 [_ [D2 _]]]]. congruence.
  - rewrite getj_set_table, getj_setj_other; auto. intro; subst h0. congruence.
  - rewrite getj_setj_other; auto. intro; subst h0. congruence.
Qed.

(* the configuration invariant of such histories *)
Definition CInv (c : cfg) : Prop := InvSt (snd c) /\ clean (fst c).

Lemma exec_cinv : forall e (c c' : cfg),
  c14_ev e = true -> Inv (snd c) -> CInv c -> exec step init_pc e c = Ok c' -> CInv c'.
Proof.
  intros e c c' Ce I [St Cl] X. destruct e as [o|t].
  - inversion X; subst. cbn [fst snd]. split; [exact St|]. intros t p N. cbn [fst] in N.
    destruct (Nat.lt_ge_cases t (length (fst c))) as [L|G].
    + rewrite nth_error_app1 in N by exact L. eapply Cl; eauto.
    + rewrite nth_error_app2 in N by exact G. destruct (t - length (fst c))%nat as [|k]; cbn in N.
      * inversion N. rewrite init_c14. exact Ce.
      * destruct k; discriminate.
  - apply exec_run_cases in X as [[_ ->]|[p [p' [s' [N [S ->]]]]]]; [split; auto|].
    pose proof (Cl _ _ N) as Cp. split; cbn [fst snd].
    + eapply effect_invst; eauto. eapply step_effect; eauto. apply I.
    + intros t2 p2 N2. rewrite nth_upd in N2. destruct (Nat.eqb t t2).
      * rewrite N in N2. inversion N2; subst. eapply step_c14; eauto.
      * eapply Cl; eauto.
Qed.

Lemma run_from_cinv : forall es (c c' : cfg),
  forallb c14_ev es = true -> Inv (snd c) -> CInv c -> run_from c es = Ok c' -> CInv c'.
Proof.
  induction es as [|e es IH]; intros c c' F I C H.
  - inversion H; subst; exact C.
  - cbn in F. apply andb_prop in F as [Fe Fr]. rewrite run_from_cons in H.
    destruct (exec step init_pc e c) as [c1| |] eqn:X; try discriminate.
    eapply IH; [exact Fr| | |exact H]; [eapply exec_inv|eapply exec_cinv]; eauto.
Qed.

Lemma CInv_0 : CInv cfg0.
Proof. split; [intros h j G; destruct h; discriminate|intros t p N; destruct t; discriminate]. Qed.

Lemma run_cinv : forall es c, forallb c14_ev es = true -> run es = Ok c -> CInv c.
Proof. intros es c F H. eapply run_from_cinv; eauto. exact Inv_s0. exact CInv_0. Qed.

(* pending <-> status waiting, no result; finished <-> final status *)
Lemma status_pending_final : forall es c h j,
  forallb c14_ev es = true -> run es = Ok c -> getj (snd c) h = Some j ->
  (pending (snd c) h /\ jstatus j = StWaiting /\ jres j = 0 /\ jerr j = false) \/
  (finished (snd c) h /\ final (jstatus j)).
Proof.
  intros es c h j F H G. destruct (run_cinv _ _ F H) as [St _]. pose proof (run_inv _ _ H) as I.
  destruct (St _ _ G) as [A B]. pose proof (inv_noclosed _ I _ _ G).
  destruct (jdone j) eqn:D; try congruence.
  - left. split; [exists j; auto|auto].
  - right. split; [exists j; auto|auto].
Qed.

Lemma exec_frozen : forall e (c c' : cfg) h j,
  Inv (snd c) -> clean (fst c) -> exec step init_pc e c = Ok c' ->
  getj (snd c) h = Some j -> jdone j = Nil -> getj (snd c') h = Some j.
Proof.
  intros e c c' h j I Cl X G D. destruct (exec_effect _ _ _ I X) as [->|[t [p [_ [N E]]]]]; [exact G|].
  eapply effect_frozen; eauto.
Qed.

(* never changes afterwards *)
Lemma finished_frozen : forall es (c c' : cfg) h j,
  forallb c14_ev es = true -> Inv (snd c) -> CInv c -> run_from c es = Ok c' ->
  getj (snd c) h = Some j -> jdone j = Nil -> getj (snd c') h = Some j.
Proof.
  induction es as [|e es IH]; intros c c' h j F I C H G D.
  - inversion H; subst; exact G.
  - cbn in F. apply andb_prop in F as [Fe Fr]. rewrite run_from_cons in H.
    destruct (exec step init_pc e c) as [c1| |] eqn:X; try discriminate.
    eapply IH; [exact Fr| | |exact H| |exact D].
    + eapply exec_inv; eauto.
    + eapply exec_cinv; eauto.
    + eapply exec_frozen; eauto. apply C.
Qed.

(* the finishing step: the one step in which a job goes from pending to finished is the critical
   section of a result (PH2) or of a Cancel (PC1) on that very job; it records the status of
   that event, the result of that event, and takes the job out of the table *)
Lemma finishing_step : forall t (c c' : cfg) h,
  Inv (snd c) -> CInv c -> exec step init_pc (Run t) c = Ok c' ->
  pending (snd c) h -> finished (snd c') h ->
  exists p st r j', nth_error (fst c) t = Some p /\ commit p = Some (h, st, r) /\
    getj (snd c') h = Some j' /\ jstatus j' = st /\ final st /\
    jres j' = match r with Some tag => tag | None => 0 end /\
    ~ tracked (snd c') h.
Proof.
  intros t c c' h I [St Cl] X P F.
  assert (I' : Inv (snd c')) by (eapply exec_inv; eauto).
  destruct (exec_effect _ _ _ I X) as [E|[t' [p [Et [N E]]]]].
  - exfalso. rewrite E in F. eapply pending_not_finished; eauto.
  - inversion Et; subst t'. clear Et. destruct P as [j [G D]]. destruct F as [j' [G' D']].
    exists p. destruct E.
    + congruence.
    + rewrite (getj_insert_old _ _ _ _ G) in G'. inversion G'; subst.
      destruct (option_eqb Nat.eqb (lookup id (table (snd c))) (Some h)); cbn in D'; congruence.
    + pose proof (Cl _ _ N). congruence.
    + rewrite getj_set_table, getj_setj in G'. destruct (Nat.eqb h0 h) eqn:Q; [|congruence].
      apply Nat.eqb_eq in Q. subst h0. rewrite H in G'. inversion G'; subst j'.
      rewrite H in G. inversion G; subst j0.
      exists (if err then StError else StCompleted), (Some tag). eexists.
      split; [exact N|]. split; [reflexivity|].
      split; [rewrite getj_set_table; eapply getj_setj_same; eauto|].
      split; [reflexivity|]. split; [apply final_cases|]. split; [reflexivity|].
      apply finished_not_tracked; auto. eexists. split; [rewrite getj_set_table; eapply getj_setj_same; eauto|reflexivity].
    + rewrite getj_set_table, getj_setj in G'. destruct (Nat.eqb h0 h) eqn:Q; [|congruence].
      apply Nat.eqb_eq in Q. subst h0. rewrite H in G'. inversion G'; subst j'.
      rewrite H in G. inversion G; subst j0.
      exists StCanceled, None. eexists.
      split; [exact N|]. split; [reflexivity|].
      split; [rewrite getj_set_table; eapply getj_setj_same; eauto|].
      split; [reflexivity|]. split; [unfold final; auto|].
      split; [cbn; destruct (St _ _ H) as [A _]; apply A in D; tauto|].
      apply finished_not_tracked; auto. eexists. split; [rewrite getj_set_table; eapply getj_setj_same; eauto|reflexivity].
    + rewrite getj_setj in G'. destruct (Nat.eqb h0 h) eqn:Q; [|congruence].
      apply Nat.eqb_eq in Q. subst h0. rewrite H in G'. inversion G'; subst j'.
      rewrite H in G. inversion G; subst j0.
      exists StCanceled, None. eexists.
      split; [exact N|]. split; [reflexivity|].
      split; [eapply getj_setj_same; eauto|].
      split; [reflexivity|]. split; [unfold final; auto|].
      split; [cbn; destruct (St _ _ H) as [A _]; apply A in D; tauto|].
      apply finished_not_tracked; auto. eexists. split; [eapply getj_setj_same; eauto|reflexivity].
Qed.

Lemma forallb_app_inv : forall {A} (f : A -> bool) l1 l2,
  forallb f (l1 ++ l2) = true -> forallb f l1 = true /\ forallb f l2 = true.
Proof. intros. rewrite forallb_app in H. apply andb_prop in H. exact H. Qed.

(* status_first_event *)
Lemma status_first_event : forall es1 t es2 (c1 c2 c3 : cfg) h,
  forallb c14_ev (es1 ++ Run t :: es2) = true ->
  run es1 = Ok c1 -> exec step init_pc (Run t) c1 = Ok c2 -> run_from c2 es2 = Ok c3 ->
  pending (snd c1) h -> finished (snd c2) h ->
  exists p st r j, nth_error (fst c1) t = Some p /\ commit p = Some (h, st, r) /\
    getj (snd c2) h = Some j /\ jstatus j = st /\ final st /\
    jres j = match r with Some tag => tag | None => 0 end /\
    getj (snd c3) h = Some j /\ ~ tracked (snd c3) h.
Proof.
  intros es1 t es2 c1 c2 c3 h F H1 X H3 P Fi.
  apply forallb_app_inv in F as [F1 F2]. cbn in F2.
  pose proof (run_inv _ _ H1) as I1. pose proof (run_cinv _ _ F1 H1) as C1.
  assert (I2 : Inv (snd c2)) by (eapply exec_inv; eauto).
  assert (C2 : CInv c2) by (apply (exec_cinv (Run t) c1 c2); auto).
  assert (I3 : Inv (snd c3)) by (eapply run_from_inv; eauto).
  destruct (finishing_step _ _ _ _ I1 C1 X P Fi) as [p [st [r [j [N [Cm [G [S [Fs [R NT]]]]]]]]]].
  exists p, st, r, j. do 6 (split; [assumption|]). split.
  - destruct Fi as [j' [G' D']]. rewrite G in G'. inversion G'; subst j'.
    exact (finished_frozen es2 c2 c3 h j F2 I2 C2 H3 G D').
  - apply finished_not_tracked; auto. exact (finished_stable es2 c2 c3 h I2 Fi H3).
Qed.

(* ---- unknown_result_ignored -------------------------------------------------------------- *)
Definition handle_R (wf : bool) (id : Z) (err : bool) (tag : Z) (p : pc) (s : sess) : Prop :=
  p = PH0 wf id err tag \/
  (p = PH1 id err tag /\ wf = true /\ 2 <= id) \/
  (exists h j, p = PH2 h err tag /\ wf = true /\ 2 <= id /\ getj s h = Some j /\ jid j = id) \/
  (exists r, p = PDone r).

Lemma handle_thread : forall es (c c' : cfg) wf id err tag,
  Inv (snd c) -> run_from c (Spawn (OHandle wf id err tag) :: es) = Ok c' ->
  exists p, nth_error (fst c') (length (fst c)) = Some p /\ handle_R wf id err tag p (snd c').
Proof.
  intros es c c' wf id err tag I H. rewrite run_from_cons, exec_spawn in H. cbn [bind] in H.
  apply (thread_inv (handle_R wf id err tag)) with (es := es) (c := (fst c ++ [init_pc (OHandle wf id err tag)], snd c));
    [| |exact I|exists (PH0 wf id err tag); cbn [fst snd]; split; [apply nth_spawned|left; reflexivity]|exact H].
  - intros p s p' s' Is R S. destruct R as [->|[[-> [W L]]|[[h [j [-> [W [L [G J]]]]]]|[r ->]]]].
    + cbn in S. destruct (negb wf || (id <? 2)) eqn:Q.
      * inversion S. right. right. right. eauto.
      * apply orb_false_elim in Q as [Q1 Q2]. apply negb_false_iff in Q1. apply Z.ltb_ge in Q2.
        destruct (is_nil (table s)); inversion S; subst; [right; right; right; eauto|].
        right. left. auto.
    + cbn in S. destruct (lookup id (table s)) as [h|] eqn:Lk; inversion S; subst.
      * destruct (inv_table _ Is _ _ Lk) as [j [G [J _]]]. right. right. left. exists h, j. auto.
      * right. right. right. eauto.
    + right. right. right. cbn in S. unfold close_nil, close_chan, bind in S.
      break_in S; try discriminate; inversion S; eauto.
    + inversion S. right. right. right. eauto.
  - intros p s q s' Is R E. destruct R as [->|[[-> [W L]]|[[h [j [-> [W [L [G J]]]]]]|[r ->]]]].
    + left. reflexivity.
    + right. left. auto.
    + right. right. left. destruct (effect_mono _ _ _ _ _ E G) as [j' [G' [J' _]]].
      exists h, j'. repeat split; auto. congruence.
    + right. right. right. eauto.
Qed.

(* every step of a result-arrival thread either changes nothing, or the packet was well formed,
   its number id is >= 2, the table holds a pending job h under id at that moment, and the step
   finishes exactly that job with the packet's status and result *)
Lemma result_attribution : forall es (c c2 c3 : cfg) wf id err tag,
  Inv (snd c) -> run_from c (Spawn (OHandle wf id err tag) :: es) = Ok c2 ->
  exec step init_pc (Run (length (fst c))) c2 = Ok c3 ->
  snd c3 = snd c2 \/
  (wf = true /\ 2 <= id /\ exists h j,
     lookup id (table (snd c2)) = Some h /\ getj (snd c2) h = Some j /\ jdone j = Open /\
     snd c3 = set_table (setj (snd c2) h (fin_job j (if err then StError else StCompleted) tag err))
                        (remove id (table (snd c2)))).
Proof.
  intros es c c2 c3 wf id err tag I H X.
  assert (I2 : Inv (snd c2)) by (eapply run_from_inv; eauto).
  destruct (handle_thread _ _ _ _ _ _ _ I H) as [p [N R]].
  apply exec_run_cases in X as [[_ ->]|[q [q' [s' [N' [S ->]]]]]]; [left; reflexivity|].
  rewrite N in N'. inversion N'; subst q. cbn [snd].
  pose proof (step_effect _ _ _ _ (inv_noclosed _ I2) S) as E.
  destruct R as [->|[[-> [W L]]|[[h [j [-> [W [L [G J]]]]]]|[r ->]]]]; inversion E; subst; auto; try discriminate.
  right. split; [auto|]. split; [auto|].
  match goal with Hg : getj (snd c2) h = Some ?x, Hl : lookup (jid ?x) _ = Some h |- _ =>
    rewrite G in Hg; inversion Hg; subst x;
    destruct (inv_table _ I2 _ _ Hl) as [j2 [G2 [_ [D2 _]]]]; rewrite G in G2; inversion G2; subst j2;
    exists h, j; auto
  end.
Qed.

Lemma mem_false_lookup : forall i t, mem i t = false -> lookup i t = None.
Proof. intros i t H. unfold mem in H. destruct (lookup i t); [discriminate|reflexivity]. Qed.

Lemma unknown_result_ignored : forall es (c c2 c3 : cfg) wf id err tag,
  Inv (snd c) -> run_from c (Spawn (OHandle wf id err tag) :: es) = Ok c2 ->
  exec step init_pc (Run (length (fst c))) c2 = Ok c3 ->
  mem id (table (snd c2)) = false \/ wf = false \/ id < 2 ->
  snd c3 = snd c2.
Proof.
  intros es c c2 c3 wf id err tag I H X Q.
  destruct (result_attribution _ _ _ _ _ _ _ _ I H X) as [E|[W [L [h [j [Lk _]]]]]]; [exact E|].
  exfalso. destruct Q as [Q|[Q|Q]]; [|congruence|lia].
  apply mem_false_lookup in Q. congruence.
Qed.

(* ---- job numbers: Task ------------------------------------------------------------------- *)
(* the number Task allocates (n.Job = 0) is > 1, a uint16 and not in the table at the check *)
Lemma task_alloc_fresh : forall draws full s i full' s',
  step (PTask0 0 draws full) s = Ok (PTask1 i full', s') ->
  1 < i < 65536 /\ mem i (table s) = false /\ s' = s.
Proof.
  intros draws full s i full' s' H.
  change (step (PTask0 0 draws full) s) with
    (if new_job_id draws (table s) =? 0 then Ok (PDone (RErr E_NOID), s)
     else Ok (PTask1 (new_job_id draws (table s)) full, s)) in H.
  destruct (new_job_id draws (table s) =? 0) eqn:E; inversion H; subst s'.
  apply Z.eqb_neq in E. destruct (new_job_id_fresh draws (table s) _ eq_refl) as [Z0|[R M]]; [congruence|].
  subst i. auto.
Qed.

Lemma mem_lookup_none : forall i t, mem i t = false <-> lookup i t = None.
Proof. intros. unfold mem. destruct (lookup i t); split; congruence. Qed.

(* when no two Task calls with the same number overlap between check and insert, a thread inside
   its window holds a number that is not in the table, and no job is ever overwritten *)
Definition WInv (c : cfg) : Prop :=
  (forall t p i, nth_error (fst c) t = Some p -> in_window p = Some i -> mem i (table (snd c)) = false) /\
  (forall h j, getj (snd c) h = Some j -> jorph j = false).

Lemma step_window : forall p s p' s' i,
  step p s = Ok (p', s') -> in_window p' = Some i ->
  s' = s /\ (in_window p = Some i \/ mem i (table s) = false).
Proof.
  intros p s p' s' i H W.
  destruct p; cbn [step step_common] in H; unfold close_nil, close_chan, bind in H;
    break_in H; try discriminate; inversion H; subst; cbn in W; try discriminate; inversion W; subst; auto.
Qed.

Lemma mem_remove : forall i k t, mem i t = false -> mem i (remove k t) = false.
Proof.
  intros i k t H. apply mem_lookup_none. apply mem_lookup_none in H. rewrite lookup_remove, H.
  destruct (i =? k); reflexivity.
Qed.

Lemma effect_winv_table : forall s p s' i,
  effect s p s' -> mem i (table s) = false -> in_window p <> Some i -> mem i (table s') = false.
Proof.
  intros s p s' i E M NW. destruct E; cbn [table setj set_table]; auto using mem_remove.
  apply mem_lookup_none. rewrite lookup_insert. destruct (id =? i) eqn:Q.
  - apply Z.eqb_eq in Q. subst. exfalso. apply NW. reflexivity.
  - apply mem_lookup_none. exact M.
Qed.

Lemma effect_winv_orph : forall s p s',
  effect s p s' -> (forall i, in_window p = Some i -> mem i (table s) = false) ->
  (forall h j, getj s h = Some j -> jorph j = false) -> forall h j, getj s' h = Some j -> jorph j = false.
Proof.
  intros s p s' E W Or h2 j2 G. destruct E.
  - eauto.
  - apply getj_insert_inv in G as [[_ ->]|[j0 [G [[-> _]|[-> L]]]]]; eauto.
    specialize (W id eq_refl). apply mem_lookup_none in W. congruence.
  - rewrite getj_setj in G. destruct (Nat.eqb h h2).
    + rewrite H0 in G. inversion G; subst. rewrite H3. eauto.
    + eauto.
  - rewrite getj_set_table, getj_setj in G. destruct (Nat.eqb h h2).
    + rewrite H in G. inversion G. cbn. eauto.
    + eauto.
  - rewrite getj_set_table, getj_setj in G. destruct (Nat.eqb h h2).
    + rewrite H in G. inversion G. cbn. eauto.
    + eauto.
  - rewrite getj_setj in G. destruct (Nat.eqb h h2).
    + rewrite H in G. inversion G. cbn. eauto.
    + eauto.
Qed.

Lemma init_not_window : forall o, in_window (init_pc o) = None.
Proof. destruct o; reflexivity. Qed.

Lemma exec_winv : forall e (c c' : cfg),
  Inv (snd c) -> task_excl (fst c) -> WInv c -> exec step init_pc e c = Ok c' -> WInv c'.
Proof.
  intros e c c' I TE [W Or] X. destruct e as [o|t].
  - inversion X; subst. split; cbn [fst snd]; [|exact Or]. intros t p i N Wi.
    destruct (Nat.lt_ge_cases t (length (fst c))) as [L|G].
    + rewrite nth_error_app1 in N by exact L. eapply W; eauto.
    + rewrite nth_error_app2 in N by exact G. destruct (t - length (fst c))%nat as [|k]; cbn in N.
      * inversion N; subst. rewrite init_not_window in Wi. discriminate.
      * destruct k; discriminate.
  - apply exec_run_cases in X as [[_ ->]|[p [p' [s' [N [S ->]]]]]]; [split; auto|].
    pose proof (step_effect _ _ _ _ (inv_noclosed _ I) S) as E.
    split; cbn [fst snd].
    + intros t2 p2 i N2 Wi. rewrite nth_upd in N2. destruct (Nat.eqb t t2) eqn:Q.
      * rewrite N in N2. inversion N2; subst p2.
        destruct (step_window _ _ _ _ _ S Wi) as [-> [Wp|M]]; [eapply W; eauto|exact M].
      * apply Nat.eqb_neq in Q.
        eapply effect_winv_table; [exact E|eapply W; eauto|intro Wp; apply Q; eapply TE; eauto].
    + eapply effect_winv_orph; eauto.
Qed.

Lemma WInv_0 : WInv cfg0.
Proof. split; [intros t p i N; destruct t; discriminate|intros h j G; destruct h; discriminate]. Qed.

Lemma serial_winv : forall es (c c' : cfg),
  Inv (snd c) -> WInv c -> tasks_serial c es -> run_from c es = Ok c' -> WInv c'.
Proof.
  induction es as [|e es IH]; intros c c' I W TS H.
  - inversion H; subst; exact W.
  - destruct TS as [TE TS]. rewrite run_from_cons in H.
    destruct (exec step init_pc e c) as [c1| |] eqn:X; try discriminate.
    eapply IH; [| |exact TS|exact H]; [eapply exec_inv|eapply exec_winv]; eauto.
Qed.

(* sequential Task calls: no job is ever overwritten, hence every job is tracked exactly while
   it is pending, and the number being inserted is not a pending job's *)
Lemma serial_no_orphan : forall es c h,
  tasks_serial cfg0 es -> run es = Ok c -> ~ orphaned (snd c) h.
Proof.
  intros es c h TS H [j [G Or]].
  destruct (serial_winv es cfg0 c Inv_s0 WInv_0 TS H) as [_ O]. rewrite (O _ _ G) in Or. discriminate.
Qed.

Lemma serial_tracked_iff_pending : forall es c h,
  tasks_serial cfg0 es -> run es = Ok c -> (tracked (snd c) h <-> pending (snd c) h).
Proof.
  intros es c h TS H. pose proof (run_inv _ _ H) as I. split; [apply tracked_pending; exact I|].
  intros [j [G D]]. destruct (serial_winv es cfg0 c Inv_s0 WInv_0 TS H) as [_ O].
  exists (jid j). apply (inv_open _ I); auto. eapply O; eauto.
Qed.

Lemma serial_insert_fresh : forall es c t id,
  tasks_serial cfg0 es -> run es = Ok c -> nth_error (fst c) t = Some (PTask3 id) ->
  mem id (table (snd c)) = false.
Proof.
  intros es c t id TS H N. destruct (serial_winv es cfg0 c Inv_s0 WInv_0 TS H) as [W _].
  exact (W t (PTask3 id) id N eq_refl).
Qed.

(* concurrent Task calls with one number (the recorded finding): both pass the check, both insert;
   the first job is overwritten, stays pending, is not in the table; the result for number 7 goes
   to the second job and a waiter of the first stays blocked *)
Definition race_pre : hist :=
  [Spawn (OTask 7 [] false); Spawn (OTask 7 [] false);
   Run 0%nat; Run 0%nat; Run 0%nat; Run 1%nat; Run 1%nat; Run 1%nat].
Definition race_post : hist :=
  [Run 0%nat; Run 1%nat;
   Spawn (OHandle true 7 false 1); Run 2%nat; Run 2%nat; Run 2%nat;
   Spawn (OWait 0%nat); Run 3%nat; Run 3%nat; Run 3%nat].
Definition race_hist : hist := race_pre ++ race_post.

Lemma tasks_serial_cons : forall e r (c : cfg),
  tasks_serial c (e :: r) =
  (task_excl (fst c) /\ match exec step init_pc e c with Ok c' => tasks_serial c' r | _ => True end).
Proof. reflexivity. Qed.

Lemma tasks_serial_prefix : forall es1 es2 (c c1 : cfg),
  tasks_serial c (es1 ++ es2) -> run_from c es1 = Ok c1 -> task_excl (fst c1).
Proof.
  induction es1 as [|e es1 IH]; intros es2 c c1 TS H.
  - inversion H; subst. destruct es2; [exact (proj1 TS)|rewrite app_nil_l, tasks_serial_cons in TS; exact (proj1 TS)].
  - rewrite <- app_comm_cons, tasks_serial_cons in TS. destruct TS as [_ TS].
    rewrite run_from_cons in H. destruct (exec step init_pc e c) as [c2| |]; try discriminate.
    eapply IH; eauto.
Qed.

Lemma race_pre_result : run race_pre = Ok ([PTask3 7; PTask3 7], s0).
Proof. vm_compute. reflexivity. Qed.

Lemma task_id_race_refuted :
  exists es c, run es = Ok c /\ ~ tasks_serial cfg0 es /\
    orphaned (snd c) 0%nat /\ pending (snd c) 0%nat /\ ~ tracked (snd c) 0%nat /\
    finished (snd c) 1%nat /\ nth_error (fst c) 3%nat = Some (PW1 0%nat).
Proof.
  exists race_hist. eexists. split; [vm_compute; reflexivity|]. cbn [fst snd].
  split; [|split; [|split; [|split; [|split]]]].
  - intro TS. pose proof (tasks_serial_prefix _ _ _ _ TS race_pre_result) as X.
    specialize (X 0%nat 1%nat (PTask3 7) (PTask3 7) 7 eq_refl eq_refl eq_refl eq_refl). discriminate.
  - eexists. split; reflexivity.
  - eexists. split; reflexivity.
  - intros [k L]. cbn in L. discriminate.
  - eexists. split; reflexivity.
  - reflexivity.
Qed.

(* ---- the sequential semantics of the correspondence run is a special case of the histories - *)
Lemma run_solo_done : forall f r s, run_solo f (PDone r) s = Ok (r, s).
Proof. destruct f; reflexivity. Qed.

Lemma run_solo_S : forall f p s, (forall r, p <> PDone r) ->
  run_solo (S f) p s = do '(p', s') <- step p s; run_solo f p' s'.
Proof. intros f p s H. destruct p; try reflexivity. exfalso. eapply H; eauto. Qed.

Lemma run_solo_O : forall p s, (forall r, p <> PDone r) -> run_solo O p s = Ok (RBlocked, s).
Proof. intros p s H. destruct p; try reflexivity. exfalso. eapply H; eauto. Qed.

Lemma stutter_done : forall n (ps : list pc) t r s,
  nth_error ps t = Some (PDone r) -> run_from (ps, s) (repeat (Run t) n) = Ok (ps, s).
Proof.
  induction n as [|n IH]; intros ps t r s N; [reflexivity|].
  cbn [repeat]. rewrite run_from_cons. unfold exec. cbn [fst snd]. rewrite N. cbn.
  rewrite (upd_same _ _ _ N). eapply IH; eauto.
Qed.

Lemma run_solo_sched : forall n p s r s' (ps : list pc) t,
  nth_error ps t = Some p -> run_solo n p s = Ok (r, s') ->
  exists p', run_from (ps, s) (repeat (Run t) n) = Ok (upd ps t p', s') /\ (p' = PDone r \/ r = RBlocked).
Proof.
  induction n as [|n IH]; intros p s r s' ps t N H.
  - assert (D : (exists r0, p = PDone r0) \/ (forall r0, p <> PDone r0)) by (destruct p; eauto; right; discriminate).
    destruct D as [[r0 ->]|D].
    + inversion H; subst. exists (PDone r). rewrite (upd_same _ _ _ N). auto.
    + rewrite run_solo_O in H by exact D. inversion H; subst. exists p. rewrite (upd_same _ _ _ N). auto.
  - assert (D : (exists r0, p = PDone r0) \/ (forall r0, p <> PDone r0)) by (destruct p; eauto; right; discriminate).
    destruct D as [[r0 ->]|D].
    + rewrite run_solo_done in H. inversion H; subst. exists (PDone r).
      rewrite (upd_same _ _ _ N). split; [|auto]. eapply stutter_done; eauto.
    + rewrite run_solo_S in H by exact D. unfold bind in H.
      destruct (step p s) as [[p1 s1]| |] eqn:S; try discriminate.
      destruct (IH p1 s1 r s' (upd ps t p1) t (nth_upd_same _ _ _ _ N) H) as [p' [R Q]].
      exists p'. split; [|exact Q]. cbn [repeat]. rewrite run_from_cons. unfold exec. cbn [fst snd].
      rewrite N, S. cbn. rewrite R, upd_upd. reflexivity.
Qed.

Lemma upd_app_last : forall {A} (l : list A) x y, upd (l ++ [x]) (length l) y = l ++ [y].
Proof. induction l; intros; cbn; [reflexivity|]. f_equal. apply IHl. Qed.

(* apply_op (what `check` evaluates on every generated case) = spawn the operation and let it
   run alone *)
Lemma apply_op_unfold : forall o s, apply_op o s = run_solo 8 (init_pc o) s.
Proof. intros. unfold apply_op. reflexivity. Qed.

Lemma spawn_then : forall o rs (ps : list pc) s,
  run_from (ps, s) (Spawn o :: rs) = run_from (ps ++ [init_pc o], s) rs.
Proof. reflexivity. Qed.

Lemma solo_sched_gen : forall n o s r s' (ps : list pc),
  run_solo n (init_pc o) s = Ok (r, s') ->
  exists p', run_from (ps, s) (Spawn o :: repeat (Run (length ps)) n) = Ok (ps ++ [p'], s') /\
             (p' = PDone r \/ r = RBlocked).
Proof.
  intros n o s r s' ps H.
  destruct (run_solo_sched n (init_pc o) s r s' (ps ++ [init_pc o]) (length ps) (nth_spawned _ _) H) as [p' [R Q]].
  exists p'. split; [|exact Q]. rewrite spawn_then, R, upd_app_last. reflexivity.
Qed.

Lemma solo_is_schedule : forall o s r s' (ps : list pc),
  apply_op o s = Ok (r, s') ->
  exists p', run_from (ps, s) (Spawn o :: repeat (Run (length ps)) 8) = Ok (ps ++ [p'], s') /\
             (p' = PDone r \/ r = RBlocked).
Proof. intros o s r s' ps H. rewrite apply_op_unfold in H. exact (solo_sched_gen 8 o s r s' ps H). Qed.

(* ---- the pinned code fails the same statements (regression witnesses) ---------------------- *)
(* Task(7); Cancel: the job leaves the table with Status = waiting *)
Lemma pinned_cancel_status_refuted :
  exists es c j, pinned_run es = Ok c /\ getj (snd c) 0%nat = Some j /\
                 jdone j = Nil /\ jstatus j = StWaiting.
Proof.
  exists [Spawn (OTask 7 [] false); Run 0%nat; Run 0%nat; Run 0%nat; Run 0%nat;
          Spawn (OCancel 0%nat); Run 1%nat; Run 1%nat; Run 1%nat].
  eexists. eexists. split; [vm_compute; reflexivity|]. split; [reflexivity|]. split; reflexivity.
Qed.

(* result || Cancel: handle.setStatus; Cancel sees "completed" and closes done; handle closes it again *)
Lemma pinned_double_close_refuted : exists es, pinned_run es = Panic.
Proof.
  exists [Spawn (OTask 7 [] false); Run 0%nat; Run 0%nat; Run 0%nat; Run 0%nat;
          Spawn (OHandle true 7 false 1); Spawn (OCancel 0%nat);
          Run 1%nat; Run 1%nat; Run 1%nat; Run 1%nat; Run 1%nat;
          Run 2%nat; Run 2%nat; Run 2%nat; Run 2%nat; Run 1%nat].
  vm_compute. reflexivity.
Qed.

(* ---- non-vacuity: result || Cancel || Cancel on the current code ---------------------------- *)
Definition race3_hist : hist :=
  [Spawn (OTask 7 [] false); Run 0%nat; Run 0%nat; Run 0%nat; Run 0%nat;
   Spawn (OHandle true 7 false 1); Spawn (OCancel 0%nat); Spawn (OCancel 0%nat);
   Run 1%nat; Run 2%nat; Run 3%nat; Run 1%nat; Run 2%nat; Run 1%nat; Run 3%nat].

Lemma race3_result :
  run race3_hist =
  Ok ([PDone (RJob 0%nat); PDone (RBool false); PDone RUnit; PDone RUnit],
      mkSess [mkJob 7 StCanceled Nil 0 false 0 false] []).
Proof. vm_compute. reflexivity. Qed.

(* the same three threads, the result first *)
Definition race3b_hist : hist :=
  [Spawn (OTask 7 [] false); Run 0%nat; Run 0%nat; Run 0%nat; Run 0%nat;
   Spawn (OHandle true 7 true 1); Spawn (OCancel 0%nat); Spawn (OCancel 0%nat);
   Run 1%nat; Run 2%nat; Run 3%nat; Run 1%nat; Run 1%nat; Run 2%nat; Run 3%nat].

Lemma race3b_result :
  run race3b_hist =
  Ok ([PDone (RJob 0%nat); PDone (RBool true); PDone RUnit; PDone RUnit],
      mkSess [mkJob 7 StError Nil 1 true 0 false] []).
Proof. vm_compute. reflexivity. Qed.

(* ---- the statements of Props/C14.v, assembled ------------------------------------------------ *)
(* waiters_released: in every reachable state a job that has left the table (and was not
   overwritten by a concurrent Task) has done = nil, and every thread blocked in Wait on it
   returns at its next step *)
Lemma waiters_released : forall es c h j t p,
  run es = Ok c -> getj (snd c) h = Some j -> jorph j = false -> ~ tracked (snd c) h ->
  finished (snd c) h /\
  (nth_error (fst c) t = Some p -> p = PW0 h \/ p = PW1 h ->
   exec step init_pc (Run t) c = Ok (upd (fst c) t (PDone RUnit), snd c)).
Proof.
  intros es c h j t p H G Or NT. pose proof (run_inv _ _ H) as I.
  assert (F : finished (snd c) h) by (eapply untracked_finished; eauto).
  split; [exact F|]. intros N P. unfold exec. rewrite N.
  rewrite (wait_step_finished _ _ _ F P). reflexivity.
Qed.

(* ... and Wait never returns while the job is pending *)
Lemma wait_returns_only_finished : forall es1 es2 c1 c2 h r,
  run es1 = Ok c1 -> (h < length (jobs (snd c1)))%nat ->
  run_from c1 (Spawn (OWait h) :: es2) = Ok c2 ->
  nth_error (fst c2) (length (fst c1)) = Some (PDone r) -> finished (snd c2) h.
Proof. intros es1 es2 c1 c2 h r H. eapply wait_not_early. eapply run_inv; eauto. Qed.

Lemma cancel_returns_finished : forall es1 es2 c1 c2 h r,
  run es1 = Ok c1 -> (h < length (jobs (snd c1)))%nat ->
  run_from c1 (Spawn (OCancel h) :: es2) = Ok c2 ->
  nth_error (fst c2) (length (fst c1)) = Some (PDone r) ->
  finished (snd c2) h /\ ~ tracked (snd c2) h.
Proof. intros es1 es2 c1 c2 h r H. eapply cancel_completes. eapply run_inv; eauto. Qed.

(* IsDone = true only for a finished job *)
Definition isdone_R (h : nat) (p : pc) (s : sess) : Prop :=
  (h < length (jobs s))%nat /\
  (p = PI0 h \/ p = PI1 h \/ p = PDone (RBool false) \/ (p = PDone (RBool true) /\ finished s h)).

Lemma isdone_true_finished : forall es1 es2 c1 c2 h,
  run es1 = Ok c1 -> (h < length (jobs (snd c1)))%nat ->
  run_from c1 (Spawn (OIsDone h) :: es2) = Ok c2 ->
  nth_error (fst c2) (length (fst c1)) = Some (PDone (RBool true)) -> finished (snd c2) h.
Proof.
  intros es1 es2 c h0 h H1 V H N. pose proof (run_inv _ _ H1) as I. rename h0 into c'.
  rewrite run_from_cons, exec_spawn in H. cbn [bind] in H.
  destruct (thread_inv (isdone_R h)) with (es := es2) (c := (fst c ++ [init_pc (OIsDone h)], snd c)) (c' := c') (t := length (fst c))
    as [p' [N' [_ R]]]; auto.
  - intros p s p' s' Is [L R] S. pose proof (inv_noclosed _ Is) as NC. destruct (lt_getj _ _ L) as [j G].
    destruct R as [->|[->|[->|[-> F]]]]; cbn in S; try rewrite G in S.
    + destruct (jdone j) eqn:D; inversion S; subst; (split; [auto|]); auto.
      right. right. right. split; auto. exists j. auto.
    + destruct (jdone j) eqn:D; inversion S; subst; (split; [auto|]); auto;
        try (exfalso; eapply NC; eauto; fail). right. right. right. split; auto. exists j. auto.
    + inversion S; subst. split; auto.
    + inversion S; subst. split; auto.
  - intros p s q s' Is [L R] E. split; [eapply valid_effect; eauto|].
    destruct R as [->|[->|[->|[-> F]]]]; auto. right. right. right. split; auto. eapply finished_effect; eauto.
  - exists (PI0 h). cbn. split; [apply nth_spawned|]. split; auto.
  - rewrite N in N'. inversion N'; subst. destruct R as [X|[X|[X|[_ F]]]]; try discriminate. exact F.
Qed.

(* leaves_table: a finished job is not in the table, under any number; what the table holds is pending *)
Lemma leaves_table : forall es c h,
  run es = Ok c -> (finished (snd c) h -> ~ tracked (snd c) h) /\ (tracked (snd c) h -> pending (snd c) h).
Proof.
  intros es c h H. pose proof (run_inv _ _ H) as I. split.
  - apply finished_not_tracked; auto.
  - apply tracked_pending; auto.
Qed.

(* once finished, always finished (any operations) *)
Lemma finished_forever : forall es1 es2 c1 c2 h,
  run es1 = Ok c1 -> run_from c1 es2 = Ok c2 -> finished (snd c1) h -> finished (snd c2) h.
Proof. intros. eapply finished_stable; eauto. eapply run_inv; eauto. Qed.

(* outside the quantifier of the property: accept / frag write Job.Status without the lock, after
   an unlocked-from-then-on lookup; racing a result they overwrite the final status *)
Lemma accept_overwrites_final_status :
  exists es c j, run es = Ok c /\ getj (snd c) 0%nat = Some j /\ jdone j = Nil /\ jstatus j = StAccepted.
Proof.
  exists [Spawn (OTask 7 [] false); Run 0%nat; Run 0%nat; Run 0%nat; Run 0%nat;
          Spawn (OAccept 7); Run 1%nat; Run 1%nat;
          Spawn (OHandle true 7 false 1); Run 2%nat; Run 2%nat; Run 2%nat; Run 1%nat].
  eexists. eexists. split; [vm_compute; reflexivity|]. split; [reflexivity|]. split; reflexivity.
Qed.

(* the two statements about results, from the empty session *)
Lemma result_attribution_run : forall es1 es2 c1 c2 c3 wf id err tag,
  run es1 = Ok c1 -> run_from c1 (Spawn (OHandle wf id err tag) :: es2) = Ok c2 ->
  exec step init_pc (Run (length (fst c1))) c2 = Ok c3 ->
  snd c3 = snd c2 \/
  (wf = true /\ 2 <= id /\ exists h j,
     lookup id (table (snd c2)) = Some h /\ getj (snd c2) h = Some j /\ jdone j = Open /\
     snd c3 = set_table (setj (snd c2) h (fin_job j (if err then StError else StCompleted) tag err))
                        (remove id (table (snd c2)))).
Proof. intros es1 es2 c1 c2 c3 wf id err tag H. apply result_attribution. eapply run_inv; eauto. Qed.

Lemma unknown_result_ignored_run : forall es1 es2 c1 c2 c3 wf id err tag,
  run es1 = Ok c1 -> run_from c1 (Spawn (OHandle wf id err tag) :: es2) = Ok c2 ->
  exec step init_pc (Run (length (fst c1))) c2 = Ok c3 ->
  mem id (table (snd c2)) = false \/ wf = false \/ id < 2 ->
  snd c3 = snd c2.
Proof. intros es1 es2 c1 c2 c3 wf id err tag H. apply unknown_result_ignored. eapply run_inv; eauto. Qed.

Lemma serial_tracked : forall es c h,
  tasks_serial cfg0 es -> run es = Ok c ->
  ~ orphaned (snd c) h /\ (tracked (snd c) h <-> pending (snd c) h).
Proof. intros es c h TS H. split; [eapply serial_no_orphan|eapply serial_tracked_iff_pending]; eauto. Qed.
