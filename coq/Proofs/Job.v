(* Proofs/Job.v -- lemmas about the job-table model (Model/Job.v). *)
From XMT Require Import Base.Prelude Model.JobSched Model.Job.

(* ---- newJobID ------------------------------------------------------------------------ *)
Lemma pick_id_fresh : forall fuel draws t i,
  pick_id fuel draws t = i -> i = 0 \/ (1 < i < 65536 /\ mem i t = false).
Proof.
  induction fuel as [|f IH]; intros draws t i H; cbn [pick_id] in H.
  - left; destruct draws; congruence.
  - destruct draws as [|d r]; [left; congruence|].
    destruct (negb (mem (u16 d) t) && (1 <? u16 d)) eqn:E.
    + right. apply andb_prop in E as [E1 E2]. subst i.
      apply negb_true_iff in E1. apply Z.ltb_lt in E2.
      unfold u16 in *. pose proof (Z.mod_pos_bound d 65536 eq_refl). repeat split; try lia; assumption.
    + eauto.
Qed.

Lemma new_job_id_fresh : forall draws t i,
  new_job_id draws t = i -> i = 0 \/ (1 < i < 65536 /\ mem i t = false).
Proof. intros; eapply pick_id_fresh; eauto. Qed.

(* ---- lists, table, heap -------------------------------------------------------------- *)
Lemma nth_upd : forall {A} (l : list A) n m x,
  nth_error (upd l n x) m =
  if Nat.eqb n m then match nth_error l n with Some _ => Some x | None => None end
  else nth_error l m.
Proof.
  induction l as [|a l IH]; intros n m x.
  - cbn. destruct (Nat.eqb n m); destruct n, m; reflexivity.
  - destruct n, m; cbn; try reflexivity. apply IH.
Qed.

Lemma nth_upd_same : forall {A} (l : list A) n x y,
  nth_error l n = Some y -> nth_error (upd l n x) n = Some x.
Proof. intros. rewrite nth_upd, Nat.eqb_refl, H. reflexivity. Qed.

Lemma nth_upd_other : forall {A} (l : list A) n m x,
  n <> m -> nth_error (upd l n x) m = nth_error l m.
Proof. intros. rewrite nth_upd. apply Nat.eqb_neq in H. rewrite H. reflexivity. Qed.

Lemma length_upd : forall {A} (l : list A) n x, length (upd l n x) = length l.
Proof. induction l; intros [|n] x; cbn; auto. Qed.

Lemma upd_upd : forall {A} (l : list A) n x y, upd (upd l n x) n y = upd l n y.
Proof. induction l; intros [|n] x y; cbn; auto. f_equal; auto. Qed.

Lemma upd_same : forall {A} (l : list A) n x, nth_error l n = Some x -> upd l n x = l.
Proof.
  induction l; intros [|n] x H; cbn in *; auto; try congruence.
  f_equal; auto.
Qed.

Lemma lookup_remove : forall i k t,
  lookup k (remove i t) = if k =? i then None else lookup k t.
Proof.
  induction t as [|[k' h] t IH]; cbn.
  - destruct (k =? i); reflexivity.
  - destruct (k' =? i) eqn:E1.
    + rewrite IH. destruct (k =? i) eqn:E2; [reflexivity|].
      destruct (k' =? k) eqn:E3; [|reflexivity].
      apply Z.eqb_eq in E1, E3. apply Z.eqb_neq in E2. congruence.
    + cbn. destruct (k' =? k) eqn:E3.
      * apply Z.eqb_eq in E3. subst k'. rewrite E1. reflexivity.
      * apply IH.
Qed.

Lemma getj_setj : forall s h j h2,
  getj (setj s h j) h2 =
  if Nat.eqb h h2 then match getj s h with Some _ => Some j | None => None end else getj s h2.
Proof. intros. unfold getj, setj. cbn. apply nth_upd. Qed.

Lemma getj_setj_same : forall s h j j0, getj s h = Some j0 -> getj (setj s h j) h = Some j.
Proof. intros. rewrite getj_setj, Nat.eqb_refl, H. reflexivity. Qed.

Lemma getj_setj_other : forall s h j h2, h <> h2 -> getj (setj s h j) h2 = getj s h2.
Proof. intros. rewrite getj_setj. apply Nat.eqb_neq in H. rewrite H. reflexivity. Qed.

Lemma getj_lt : forall s h j, getj s h = Some j -> (h < length (jobs s))%nat.
Proof. intros. apply nth_error_Some. unfold getj in H. congruence. Qed.

(* ---- the effect of one atomic step on the shared state -------------------------------- *)
Inductive effect (s : sess) : pc -> sess -> Prop :=
| EffNone : forall p, effect s p s
| EffInsert : forall id, held s = None -> effect s (PTask3 id) (insert_job s id)
| EffStatus : forall p h j j', c14_pc p = false -> getj s h = Some j ->
    jid j' = jid j -> jdone j' = jdone j -> jorph j' = jorph j -> jres j' = jres j -> jerr j' = jerr j ->
    effect s p (setj s h j')
| EffAcqH : forall h err tag pl j, held s = None -> getj s h = Some j -> lookup (jid j) (table s) = Some h ->
    effect s (PH2 h err tag pl) (set_held s (Some (HRes h err tag pl)))
| EffAcqC : forall h j, held s = None -> getj s h = Some j -> jdone j <> Nil ->
    effect s (PC1 h) (set_held s (Some (CSt h)))
| EffCs : forall r c s', held s = Some c -> cs_step c s = Ok s' -> effect s (PCS r) s'.

Ltac break_in H :=
  repeat match type of H with
  | context [match ?x with _ => _ end] => destruct x eqn:?
  end.

Lemma is_held_false : forall s, is_held s = false -> held s = None.
Proof. intros s H. unfold is_held in H. destruct (held s); [discriminate|reflexivity]. Qed.

Lemma step_free_effect : forall p s p' s',
  (needs_lock p = true -> held s = None) -> step_free p s = Ok (p', s') -> effect s p s'.
Proof.
  intros p s p' s' L H.
  destruct p; cbn [step_free step_common] in H;
    try (break_in H; try discriminate; inversion H; subst; clear H; apply EffNone).
  - (* PTask3 *) inversion H; subst. apply EffInsert. apply L. reflexivity.
  - (* PH2 *)
    destruct (getj s h) as [j|] eqn:G; [|inversion H; subst; apply EffNone].
    destruct (lookup (jid j) (table s)) as [h'|] eqn:Lk; [|inversion H; subst; apply EffNone].
    destruct (Nat.eqb h' h) eqn:E; [|inversion H; subst; apply EffNone].
    apply Nat.eqb_eq in E. subst h'. inversion H; subst. eapply EffAcqH; eauto.
  - (* PCS *)
    destruct (held s) as [c|] eqn:Hd; [|inversion H; subst; apply EffNone].
    unfold bind in H. destruct (cs_step c s) as [s1| |] eqn:C; try discriminate.
    inversion H; subst. eapply EffCs; eauto.
  - (* PC1 *)
    destruct (getj s h) as [j|] eqn:G; [|inversion H; subst; apply EffNone].
    destruct (jdone j) eqn:D; inversion H; subst; try apply EffNone;
      (eapply EffAcqC; [apply L; reflexivity|exact G|congruence]).
  - (* PA2 *)
    destruct (getj s h) as [j|] eqn:G; inversion H; subst; [|apply EffNone].
    eapply EffStatus; eauto.
  - (* PF2 *)
    destruct (getj s h) as [j|] eqn:G; inversion H; subst; [|apply EffNone].
    eapply EffStatus; eauto; destruct (jfrags j =? 0); reflexivity.
Qed.

Lemma step_effect : forall p s p' s', step p s = Ok (p', s') -> effect s p s'.
Proof.
  intros p s p' s' H. unfold step in H.
  destruct (needs_lock p && is_held s) eqn:E.
  - inversion H; subst. apply EffNone.
  - eapply step_free_effect; eauto. intro N. rewrite N in E. cbn in E. apply is_held_false; exact E.
Qed.
(* ---- insert_job ---------------------------------------------------------------------- *)
Definition ins_jobs (s : sess) (id : Z) : list job :=
  match lookup id (table s) with
  | Some h' => match nth_error (jobs s) h' with
               | Some j' => upd (jobs s) h' (with_orph j')
               | None => jobs s
               end
  | None => jobs s
  end.

Lemma insert_job_eq : forall s id,
  insert_job s id = mkSess (ins_jobs s id ++ [new_job id]) ((id, length (jobs s)) :: remove id (table s)) (held s).
Proof. reflexivity. Qed.

Lemma ins_jobs_length : forall s id, length (ins_jobs s id) = length (jobs s).
Proof.
  intros. unfold ins_jobs. destruct (lookup id (table s)); auto.
  destruct (nth_error (jobs s) n); auto. apply length_upd.
Qed.

Lemma ins_jobs_nth : forall s id h,
  nth_error (ins_jobs s id) h =
  match nth_error (jobs s) h with
  | Some j => if option_eqb Nat.eqb (lookup id (table s)) (Some h) then Some (with_orph j) else Some j
  | None => None
  end.
Proof.
  intros. unfold ins_jobs. destruct (lookup id (table s)) as [h'|] eqn:L; cbn.
  - destruct (nth_error (jobs s) h') as [j'|] eqn:G.
    + rewrite nth_upd. destruct (Nat.eqb h' h) eqn:E.
      * apply Nat.eqb_eq in E. subst. rewrite G. reflexivity.
      * destruct (nth_error (jobs s) h); reflexivity.
    + destruct (Nat.eqb h' h) eqn:E.
      * apply Nat.eqb_eq in E. subst. rewrite G. reflexivity.
      * destruct (nth_error (jobs s) h); reflexivity.
  - destruct (nth_error (jobs s) h); reflexivity.
Qed.

Lemma getj_insert_inv : forall s id h j',
  getj (insert_job s id) h = Some j' ->
  (h = length (jobs s) /\ j' = new_job id) \/
  (exists j, getj s h = Some j /\
     ((j' = j /\ lookup id (table s) <> Some h) \/ (j' = with_orph j /\ lookup id (table s) = Some h))).
Proof.
  intros s id h j' H. rewrite insert_job_eq in H. unfold getj in *. cbn [jobs] in H.
  destruct (Nat.lt_ge_cases h (length (jobs s))) as [Lt|Ge].
  - right. rewrite nth_error_app1 in H by (rewrite ins_jobs_length; exact Lt).
    rewrite ins_jobs_nth in H. destruct (nth_error (jobs s) h) as [j|]; [|discriminate].
    exists j. split; [reflexivity|].
    destruct (lookup id (table s)) as [h'|]; cbn in H.
    + destruct (Nat.eqb h' h) eqn:E; inversion H; subst.
      * apply Nat.eqb_eq in E. subst. right. auto.
      * apply Nat.eqb_neq in E. left. split; congruence.
    + inversion H. left. split; congruence.
  - left. rewrite nth_error_app2 in H by (rewrite ins_jobs_length; exact Ge).
    rewrite ins_jobs_length in H.
    destruct (h - length (jobs s))%nat as [|k] eqn:E; cbn in H.
    + inversion H. split; [lia|reflexivity].
    + destruct k; discriminate.
Qed.

Lemma getj_insert_old : forall s id h j,
  getj s h = Some j ->
  getj (insert_job s id) h =
  Some (if option_eqb Nat.eqb (lookup id (table s)) (Some h) then with_orph j else j).
Proof.
  intros s id h j G. rewrite insert_job_eq. unfold getj in *. cbn [jobs].
  rewrite nth_error_app1 by (rewrite ins_jobs_length; apply nth_error_Some; congruence).
  rewrite ins_jobs_nth, G. destruct (option_eqb Nat.eqb (lookup id (table s)) (Some h)); reflexivity.
Qed.

Lemma getj_insert_new : forall s id, getj (insert_job s id) (length (jobs s)) = Some (new_job id).
Proof.
  intros. rewrite insert_job_eq. unfold getj. cbn [jobs].
  rewrite nth_error_app2 by (rewrite ins_jobs_length; lia).
  rewrite ins_jobs_length, Nat.sub_diag. reflexivity.
Qed.

Lemma lookup_insert : forall s id k,
  lookup k (table (insert_job s id)) = if id =? k then Some (length (jobs s)) else lookup k (table s).
Proof.
  intros. rewrite insert_job_eq. cbn [table lookup]. destruct (id =? k) eqn:E; [reflexivity|].
  rewrite lookup_remove. rewrite Z.eqb_sym, E. reflexivity.
Qed.


Lemma held_insert : forall s id, held (insert_job s id) = held s.
Proof. reflexivity. Qed.
Lemma getj_set_table : forall s t h, getj (set_table s t) h = getj s h.
Proof. reflexivity. Qed.
Lemma getj_set_held : forall s c h, getj (set_held s c) h = getj s h.
Proof. reflexivity. Qed.
Lemma opt_eqb_true : forall a h, option_eqb Nat.eqb a (Some h) = true <-> a = Some h.
Proof.
  intros [x|] h; cbn; split; intro H; try discriminate.
  - apply Nat.eqb_eq in H. congruence.
  - inversion H. apply Nat.eqb_refl.
Qed.

(* ---- the invariant of the shared state ------------------------------------------------ *)
(* stages of a critical section *)
Definition closed_st (c : cs) : bool := match c with HNil _ | CStNil _ => true | _ => false end.
Definition post_del (c : cs) : bool := match c with HClose _ _ _ | CClose _ => true | _ => false end.
Definition tracked_st (c : cs) : bool :=
  match c with
  | HRes _ _ _ _ | HSt _ _ _ _ | HErrSt _ _ _ | HErrTxt _ _ _ | HInfo _ _ | HDel _ _ _ | CDel _ => true
  | _ => false
  end.
Definition untracked_st (c : cs) : bool := post_del c || closed_st c.

Record Inv (s : sess) : Prop := {
  (* done is "closed, not yet nil" only for the job of the lock holder, between its last two writes *)
  inv_closed : forall h j, getj s h = Some j -> jdone j = Closed ->
     exists c, held s = Some c /\ cs_job c = h /\ closed_st c = true;
  (* what the table holds is a pending, not overwritten job with that number *)
  inv_table : forall k h, lookup k (table s) = Some h ->
     exists j, getj s h = Some j /\ jid j = k /\ jdone j = Open /\ jorph j = false;
  (* a pending job that was not overwritten is in the table under its number, or it is the job of
     the lock holder, already deleted and about to be closed *)
  inv_open : forall h j, getj s h = Some j -> jdone j = Open -> jorph j = false ->
     lookup (jid j) (table s) = Some h \/ exists c, held s = Some c /\ cs_job c = h /\ post_del c = true;
  (* the job of the lock holder *)
  inv_held : forall c, held s = Some c ->
     exists j, getj s (cs_job c) = Some j /\
       (closed_st c = false -> jdone j = Open) /\
       (closed_st c = true -> jdone j = Closed) /\
       (tracked_st c = true -> lookup (jid j) (table s) = Some (cs_job c)) /\
       (untracked_st c = true -> lookup (jid j) (table s) <> Some (cs_job c))
}.

Lemma Inv_s0 : Inv s0.
Proof.
  split.
  - intros h j H. destruct h; discriminate.
  - intros k h H. discriminate.
  - intros h j H. destruct h; discriminate.
  - intros c H. discriminate.
Qed.

Definition no_closed (s : sess) : Prop := forall h j, getj s h = Some j -> jdone j <> Closed.
Lemma unheld_no_closed : forall s, Inv s -> held s = None -> no_closed s.
Proof. intros s I H h j G D. destruct (inv_closed _ I _ _ G D) as [c [Hc _]]. congruence. Qed.

(* a write of a field of the lock holder's job that is neither done nor the table *)
Lemma inv_field_write : forall s c c' j j',
  Inv s -> held s = Some c -> getj s (cs_job c) = Some j -> cs_job c' = cs_job c ->
  jid j' = jid j -> jdone j' = jdone j -> jorph j' = jorph j ->
  closed_st c' = closed_st c -> (post_del c = true -> post_del c' = true) ->
  (tracked_st c' = true -> lookup (jid j) (table s) = Some (cs_job c)) ->
  (untracked_st c' = true -> lookup (jid j) (table s) <> Some (cs_job c)) ->
  Inv (set_held (setj s (cs_job c) j') (Some c')).
Proof.
  intros s c c' j j' [NC T O Hh] Hd G Ej Ei Ed Eo Ec Ep Et Eu.
  destruct (Hh _ Hd) as [j0 [G0 [H1 [H1c [H2 H3]]]]]. rewrite G in G0. inversion G0; subst j0. clear G0.
  split; cbn [held table set_held setj].
  - intros h2 j2 G2 D2. rewrite getj_set_held, getj_setj in G2. destruct (Nat.eqb (cs_job c) h2) eqn:E.
    + apply Nat.eqb_eq in E. subst h2. rewrite G in G2. inversion G2; subst j2.
      rewrite Ed in D2. destruct (NC _ _ G D2) as [c0 [Hc0 [J0 C0]]]. rewrite Hd in Hc0. inversion Hc0; subst c0.
      exists c'. rewrite Ec. auto.
    + destruct (NC _ _ G2 D2) as [c0 [Hc0 [J0 C0]]]. rewrite Hd in Hc0. inversion Hc0; subst c0.
      apply Nat.eqb_neq in E. congruence.
  - intros k h2 L. destruct (T _ _ L) as [j2 [G2 R]]. rewrite getj_set_held, getj_setj.
    destruct (Nat.eqb (cs_job c) h2) eqn:E.
    + apply Nat.eqb_eq in E. subst h2. rewrite G. exists j'. split; [reflexivity|].
      rewrite G in G2. inversion G2; subst j2. rewrite Ei, Ed, Eo. exact R.
    + exists j2. auto.
  - intros h2 j2 G2 D2 O2. rewrite getj_set_held, getj_setj in G2. destruct (Nat.eqb (cs_job c) h2) eqn:E.
    + apply Nat.eqb_eq in E. subst h2. rewrite G in G2. inversion G2; subst j2.
      rewrite Ed in D2. rewrite Eo in O2. rewrite Ei.
      destruct (O _ _ G D2 O2) as [L|[c0 [Hc0 [J0 P0]]]]; [left; exact L|].
      rewrite Hd in Hc0. inversion Hc0; subst c0. right. exists c'. auto.
    + destruct (O _ _ G2 D2 O2) as [L|[c0 [Hc0 [J0 P0]]]]; [left; exact L|].
      rewrite Hd in Hc0. inversion Hc0; subst c0. apply Nat.eqb_neq in E. congruence.
  - intros c0 Hc0. inversion Hc0; subst c0. rewrite Ej, getj_set_held, (getj_setj_same _ _ _ _ G).
    exists j'. split; [reflexivity|]. rewrite Ed, Ei, Ec. auto.
Qed.

Lemma setj_same : forall s h j, getj s h = Some j -> setj s h j = s.
Proof. intros [js t hd] h j G. unfold setj, getj in *. cbn in *. rewrite (upd_same _ _ _ G). reflexivity. Qed.

(* delete(s.jobs, j.ID) by the lock holder *)
Lemma inv_del : forall s c c' j,
  Inv s -> held s = Some c -> getj s (cs_job c) = Some j -> cs_job c' = cs_job c ->
  tracked_st c = true -> post_del c' = true ->
  Inv (set_held (set_table s (remove (jid j) (table s))) (Some c')).
Proof.
  intros s c c' j [NC T O Hh] Hd G Ej Tc Pc.
  destruct (Hh _ Hd) as [j0 [G0 [H1 [H1c [H2 H3]]]]]. rewrite G in G0. inversion G0; subst j0. clear G0.
  assert (Cc : closed_st c = false) by (destruct c; try discriminate; reflexivity).
  assert (Cc' : closed_st c' = false) by (destruct c'; try discriminate; reflexivity).
  assert (Pd : post_del c = false) by (destruct c; try discriminate; reflexivity).
  specialize (H2 Tc). specialize (H1 Cc).
  split; cbn [held table set_held set_table].
  - intros h2 j2 G2 D2. destruct (NC _ _ G2 D2) as [c0 [Hc0 [J0 C0]]]. congruence.
  - intros k h2 L. rewrite lookup_remove in L. destruct (k =? jid j) eqn:E; [discriminate|].
    destruct (T _ _ L) as [j2 R]. exists j2. exact R.
  - intros h2 j2 G2 D2 O2. change (getj s h2 = Some j2) in G2.
    destruct (Nat.eq_dec h2 (cs_job c)) as [->|NE].
    + right. exists c'. auto.
    + left. destruct (O _ _ G2 D2 O2) as [L|[c0 [Hc0 [J0 P0]]]]; [|congruence].
      rewrite lookup_remove. destruct (jid j2 =? jid j) eqn:E; [|exact L].
      apply Z.eqb_eq in E. congruence.
  - intros c0 Hc0. inversion Hc0; subst c0. rewrite Ej. exists j. split; [exact G|].
    split; [auto|]. split; [congruence|]. split.
    + intro X. destruct c'; discriminate.
    + intros _. rewrite lookup_remove, Z.eqb_refl. discriminate.
Qed.

(* close(j.done) by the lock holder *)
Lemma inv_close : forall s c c' j,
  Inv s -> held s = Some c -> getj s (cs_job c) = Some j -> cs_job c' = cs_job c ->
  post_del c = true -> closed_st c' = true ->
  Inv (set_held (setj s (cs_job c) (with_done j Closed)) (Some c')).
Proof.
  intros s c c' j [NC T O Hh] Hd G Ej Pc Cc'.
  destruct (Hh _ Hd) as [j0 [G0 [H1 [H1c [H2 H3]]]]]. rewrite G in G0. inversion G0; subst j0. clear G0.
  assert (U : lookup (jid j) (table s) <> Some (cs_job c)) by (apply H3; unfold untracked_st; rewrite Pc; reflexivity).
  split; cbn [held table set_held setj].
  - intros h2 j2 G2 D2. rewrite getj_set_held, getj_setj in G2. destruct (Nat.eqb (cs_job c) h2) eqn:E.
    + apply Nat.eqb_eq in E. exists c'. repeat split; auto. congruence.
    + destruct (NC _ _ G2 D2) as [c0 [Hc0 [J0 C0]]]. rewrite Hd in Hc0. inversion Hc0; subst c0.
      destruct c; discriminate.
  - intros k h2 L. destruct (T _ _ L) as [j2 [G2 [I2 R]]]. rewrite getj_set_held, getj_setj_other; [eauto|].
    intro; subst h2. rewrite G in G2. inversion G2; subst j2. congruence.
  - intros h2 j2 G2 D2 O2. rewrite getj_set_held, getj_setj in G2. destruct (Nat.eqb (cs_job c) h2) eqn:E.
    + rewrite G in G2. inversion G2; subst j2. discriminate.
    + left. destruct (O _ _ G2 D2 O2) as [L|[c0 [Hc0 [J0 P0]]]]; [exact L|].
      rewrite Hd in Hc0. inversion Hc0; subst c0. apply Nat.eqb_neq in E. congruence.
  - intros c0 Hc0. inversion Hc0; subst c0. rewrite Ej, getj_set_held, (getj_setj_same _ _ _ _ G).
    eexists. split; [reflexivity|]. cbn. split; [congruence|]. split; [reflexivity|]. split; [|auto].
    intro X. destruct c'; discriminate.
Qed.

(* j.done = nil and Unlock by the lock holder *)
Lemma inv_nil : forall s c j j',
  Inv s -> held s = Some c -> getj s (cs_job c) = Some j -> closed_st c = true ->
  jid j' = jid j -> jdone j' = Nil -> jorph j' = jorph j ->
  Inv (set_held (setj s (cs_job c) j') None).
Proof.
  intros s c j j' [NC T O Hh] Hd G Cc Ei Ed Eo.
  destruct (Hh _ Hd) as [j0 [G0 [H1 [H1c [H2 H3]]]]]. rewrite G in G0. inversion G0; subst j0. clear G0.
  assert (U : lookup (jid j) (table s) <> Some (cs_job c)) by (apply H3; unfold untracked_st; rewrite Cc; apply orb_true_r).
  assert (Pd : post_del c = false) by (destruct c; try discriminate; reflexivity).
  split; cbn [held table set_held setj].
  - intros h2 j2 G2 D2. rewrite getj_set_held, getj_setj in G2. destruct (Nat.eqb (cs_job c) h2) eqn:E.
    + rewrite G in G2. inversion G2; subst j2. congruence.
    + destruct (NC _ _ G2 D2) as [c0 [Hc0 [J0 C0]]]. rewrite Hd in Hc0. inversion Hc0; subst c0.
      apply Nat.eqb_neq in E. congruence.
  - intros k h2 L. destruct (T _ _ L) as [j2 [G2 [I2 R]]]. rewrite getj_set_held, getj_setj_other; [eauto|].
    intro; subst h2. rewrite G in G2. inversion G2; subst j2. congruence.
  - intros h2 j2 G2 D2 O2. rewrite getj_set_held, getj_setj in G2. destruct (Nat.eqb (cs_job c) h2) eqn:E.
    + rewrite G in G2. inversion G2; subst j2. congruence.
    + left. destruct (O _ _ G2 D2 O2) as [L|[c0 [Hc0 [J0 P0]]]]; [exact L|]. congruence.
  - intros c0 Hc0. discriminate.
Qed.

Lemma cs_step_inv : forall s c s', Inv s -> held s = Some c -> cs_step c s = Ok s' -> Inv s'.
Proof.
  intros s c s' I Hd C.
  destruct (inv_held _ I _ Hd) as [j [G [H1 [H1c [H2 H3]]]]].
  unfold cs_step in C. rewrite G in C.
  destruct c; cbn [cs_job] in *.
  - (* HRes *) inversion C; subst. apply (inv_field_write s (HRes h err tag pl) (HSt h err tag pl) j); auto; discriminate.
  - (* HSt *) inversion C; subst.
    apply (inv_field_write s (HSt h err tag pl) (if err then HErrSt h tag pl else HInfo h tag) j); auto;
      destruct err; auto; discriminate.
  - (* HErrSt *) inversion C; subst. apply (inv_field_write s (HErrSt h tag pl) (HErrTxt h tag pl) j); auto; discriminate.
  - (* HErrTxt *) inversion C; subst. apply (inv_field_write s (HErrTxt h tag pl) (HDel h true tag) j); auto; discriminate.
  - (* HInfo *) inversion C; subst. rewrite <- (setj_same s h j G) at 1.
    apply (inv_field_write s (HInfo h tag) (HDel h false tag) j); auto; discriminate.
  - (* HDel *) inversion C; subst. apply (inv_del s (HDel h err tag) (HClose h err tag) j); auto.
  - (* HClose *) rewrite (H1 eq_refl) in C. cbn in C. inversion C; subst.
    apply (inv_close s (HClose h err tag) (HNil h) j); auto.
  - (* HNil *) inversion C; subst. apply (inv_nil s (HNil h) j); auto.
  - (* CSt *) inversion C; subst. clear C.
    destruct (lookup (jid j) (table s)) as [h'|] eqn:L; [destruct (Nat.eqb h' h) eqn:E|].
    + apply Nat.eqb_eq in E. subst h'.
      apply (inv_field_write s (CSt h) (CDel h) j); auto; try discriminate.
    + apply Nat.eqb_neq in E.
      apply (inv_field_write s (CSt h) (CClose h) j); auto; try discriminate. intros _ X. cbn in X. congruence.
    + apply (inv_field_write s (CSt h) (CClose h) j); auto; try discriminate. intros _ X. cbn in X. congruence.
  - (* CDel *) inversion C; subst. apply (inv_del s (CDel h) (CClose h) j); auto.
  - (* CClose *) rewrite (H1 eq_refl) in C. cbn in C. inversion C; subst.
    apply (inv_close s (CClose h) (CStNil h) j); auto.
  - (* CStNil *) inversion C; subst. apply (inv_nil s (CStNil h) j); auto.
Qed.

Lemma cs_step_total : forall s c, Inv s -> held s = Some c -> exists s', cs_step c s = Ok s'.
Proof.
  intros s c I Hd. destruct (inv_held _ I _ Hd) as [j [G [H1 _]]].
  unfold cs_step. rewrite G. destruct c; cbn [cs_job] in *; eauto; rewrite (H1 eq_refl); cbn; eauto.
Qed.


Lemma effect_inv : forall s p s', Inv s -> effect s p s' -> Inv s'.
Proof.
  intros s p s' I E. destruct E as [p|id Hn|p h j j' Cp G Ei Ed Eo Er Ee|h err tag pl j Hn G L|h j Hn G D|r c s' Hd C].
  - exact I.
  - (* insert; the lock is free *)
    destruct I as [NC T O Hh]. split.
    + intros h j G D. exfalso.
      apply getj_insert_inv in G as [[_ ->]|[j0 [G [[-> _]|[-> _]]]]]; cbn in D; try discriminate;
        destruct (NC _ _ G D) as [c [Hc _]]; congruence.
    + intros k h L. rewrite lookup_insert in L. destruct (id =? k) eqn:E.
      * apply Z.eqb_eq in E. inversion L; subst. exists (new_job k). rewrite getj_insert_new. cbn. auto.
      * destruct (T _ _ L) as [j [G [Ij [D Or]]]]. exists j. split; [|auto].
        rewrite (getj_insert_old _ _ _ _ G).
        destruct (option_eqb Nat.eqb (lookup id (table s)) (Some h)) eqn:Q; [|reflexivity].
        apply opt_eqb_true in Q. destruct (T _ _ Q) as [j2 [G2 [I2 _]]].
        apply Z.eqb_neq in E. congruence.
    + intros h j G D Or. left. rewrite lookup_insert.
      apply getj_insert_inv in G as [[-> ->]|[j0 [G [[-> NL]|[-> _]]]]].
      * cbn. rewrite Z.eqb_refl. reflexivity.
      * destruct (O _ _ G D Or) as [L|[c [Hc _]]]; [|congruence].
        destruct (id =? jid j0) eqn:E; [|exact L]. apply Z.eqb_eq in E. congruence.
      * cbn in Or. discriminate.
    + intros c Hc. rewrite held_insert in Hc. congruence.
  - (* status / frags write, unlocked *)
    destruct I as [NC T O Hh]. split; cbn [held table setj].
    + intros h2 j2 G2 D2. rewrite getj_setj in G2. destruct (Nat.eqb h h2) eqn:E.
      * apply Nat.eqb_eq in E. subst h2. rewrite G in G2. inversion G2; subst j2. rewrite Ed in D2. eauto.
      * eauto.
    + intros k h2 L. destruct (T _ _ L) as [j2 [G2 R]]. rewrite getj_setj. destruct (Nat.eqb h h2) eqn:E.
      * apply Nat.eqb_eq in E. subst h2. rewrite G. exists j'. split; [reflexivity|].
        rewrite G in G2. inversion G2; subst j2. rewrite Ei, Ed, Eo. exact R.
      * exists j2. auto.
    + intros h2 j2 G2 D2 O2. rewrite getj_setj in G2. destruct (Nat.eqb h h2) eqn:E.
      * apply Nat.eqb_eq in E. subst h2. rewrite G in G2. inversion G2; subst j2.
        rewrite Ei. apply O; congruence.
      * apply O; auto.
    + intros c Hc. destruct (Hh _ Hc) as [j2 [G2 R]]. destruct (Nat.eq_dec h (cs_job c)) as [Eq|NE].
      * rewrite <- Eq in *. rewrite (getj_setj_same _ _ _ _ G). exists j'. split; [reflexivity|].
        rewrite G in G2. inversion G2; subst j2. rewrite Ei, Ed. exact R.
      * rewrite getj_setj_other by exact NE. exists j2. auto.
  - (* handle takes the lock *)
    destruct I as [NC T O Hh]. destruct (T _ _ L) as [j0 [G0 [_ [D0 _]]]]. rewrite G in G0. inversion G0; subst j0.
    split; cbn [held table set_held]; try rewrite getj_set_held.
    + intros h2 j2 G2 D2. destruct (NC _ _ G2 D2) as [c [Hc _]]. congruence.
    + exact T.
    + intros h2 j2 G2 D2 O2. destruct (O _ _ G2 D2 O2) as [X|[c [Hc _]]]; [left; exact X|congruence].
    + intros c Hc. inversion Hc; subst c. cbn. exists j. repeat split; auto; discriminate.
  - (* Cancel takes the lock *)
    destruct I as [NC T O Hh].
    assert (D0 : jdone j = Open).
    { destruct (jdone j) eqn:X; auto; [|congruence]. destruct (NC _ _ G X) as [c [Hc _]]. congruence. }
    split; cbn [held table set_held]; try rewrite getj_set_held.
    + intros h2 j2 G2 D2. destruct (NC _ _ G2 D2) as [c [Hc _]]. congruence.
    + exact T.
    + intros h2 j2 G2 D2 O2. destruct (O _ _ G2 D2 O2) as [X|[c [Hc _]]]; [left; exact X|congruence].
    + intros c Hc. inversion Hc; subst c. cbn. exists j. repeat split; auto; discriminate.
  - eapply cs_step_inv; eauto.
Qed.

Lemma step_total : forall p s, Inv s -> exists p' s', step p s = Ok (p', s').
Proof.
  intros p s I. unfold step. destruct (needs_lock p && is_held s); [eauto|].
  destruct p; cbn [step_free step_common];
    try (repeat match goal with |- context [match ?x with _ => _ end] => destruct x eqn:? end; eauto; fail).
  (* PCS *)
  destruct (held s) as [c|] eqn:Hd; eauto.
  destruct (cs_step_total s c I Hd) as [s1 ->]. cbn. eauto.
Qed.

(* ---- histories ------------------------------------------------------------------------ *)
Lemma exec_run_cases : forall t (c c' : cfg),
  exec step init_pc (Run t) c = Ok c' ->
  (nth_error (fst c) t = None /\ c' = c) \/
  exists p p' s', nth_error (fst c) t = Some p /\ step p (snd c) = Ok (p', s') /\
                  c' = (upd (fst c) t p', s').
Proof.
  intros t c c' H. unfold exec in H. destruct (nth_error (fst c) t) as [p|] eqn:N.
  - right. unfold bind in H. destruct (step p (snd c)) as [[p' s']| |] eqn:S; try discriminate.
    inversion H. exists p, p', s'. auto.
  - left. inversion H. auto.
Qed.

Lemma exec_spawn : forall o (c : cfg),
  exec step init_pc (Spawn o) c = Ok (fst c ++ [init_pc o], snd c).
Proof. reflexivity. Qed.

Lemma exec_effect : forall e (c c' : cfg),
  exec step init_pc e c = Ok c' ->
  snd c' = snd c \/ exists t p, e = Run t /\ nth_error (fst c) t = Some p /\ effect (snd c) p (snd c').
Proof.
  intros e c c' H. destruct e as [o|t].
  - inversion H. left. reflexivity.
  - apply exec_run_cases in H as [[_ ->]|[p [p' [s' [N [S ->]]]]]]; [left; reflexivity|].
    right. exists t, p. repeat split; auto. eapply step_effect; eauto.
Qed.

Lemma exec_inv : forall e (c c' : cfg),
  Inv (snd c) -> exec step init_pc e c = Ok c' -> Inv (snd c').
Proof.
  intros e c c' I H. destruct (exec_effect _ _ _ H) as [->|[t [p [_ [_ E]]]]]; [exact I|].
  eapply effect_inv; eauto.
Qed.

Lemma exec_total : forall e (c : cfg), Inv (snd c) -> exists c', exec step init_pc e c = Ok c'.
Proof.
  intros e c I. destruct e as [o|t]; [eexists; reflexivity|].
  unfold exec. destruct (nth_error (fst c) t) as [p|]; [|eexists; reflexivity].
  destruct (step_total p (snd c) I) as [p' [s' ->]]. cbn. eexists; reflexivity.
Qed.

Lemma run_from_cons : forall e es (c : cfg),
  run_from c (e :: es) = do c' <- exec step init_pc e c; run_from c' es.
Proof. reflexivity. Qed.

Lemma run_from_app : forall es1 es2 (c : cfg),
  run_from c (es1 ++ es2) = do c' <- run_from c es1; run_from c' es2.
Proof.
  induction es1 as [|e es1 IH]; intros es2 c; [reflexivity|].
  cbn [app]. rewrite !run_from_cons. destruct (exec step init_pc e c); cbn; auto.
Qed.

Lemma run_from_inv : forall es (c c' : cfg), Inv (snd c) -> run_from c es = Ok c' -> Inv (snd c').
Proof.
  induction es as [|e es IH]; intros c c' I H.
  - inversion H; subst; exact I.
  - rewrite run_from_cons in H. destruct (exec step init_pc e c) as [c1| |] eqn:X; try discriminate.
    eapply IH; [|exact H]. eapply exec_inv; eauto.
Qed.

Lemma run_from_total : forall es (c : cfg), Inv (snd c) -> exists c', run_from c es = Ok c'.
Proof.
  induction es as [|e es IH]; intros c I; [eexists; reflexivity|].
  rewrite run_from_cons. destruct (exec_total e c I) as [c1 X]. rewrite X. cbn.
  apply IH. eapply exec_inv; eauto.
Qed.

Lemma run_inv : forall es c, run es = Ok c -> Inv (snd c).
Proof. intros es c. apply run_from_inv. exact Inv_s0. Qed.

(* done_closed_once: every history runs to the end, no step panics *)
Lemma run_total : forall es, exists c, run es = Ok c.
Proof. intro es. apply run_from_total. exact Inv_s0. Qed.

Lemma run_no_panic : forall es, run es <> Panic.
Proof. intro es. destruct (run_total es) as [c H]. congruence. Qed.

(* a general induction principle over histories *)
Lemma run_from_ind (P : cfg -> Prop) :
  (forall e c c', Inv (snd c) -> P c -> exec step init_pc e c = Ok c' -> P c') ->
  forall es c c', Inv (snd c) -> P c -> run_from c es = Ok c' -> P c'.
Proof.
  intros Hs. induction es as [|e es IH]; intros c c' I Pc H.
  - inversion H; subst; exact Pc.
  - rewrite run_from_cons in H. destruct (exec step init_pc e c) as [c1| |] eqn:X; try discriminate.
    eapply IH; [| |exact H]; [eapply exec_inv|eapply Hs]; eauto.
Qed.

(* ---- what happens to one job: done only moves open -> closed -> nil ----------------------- *)
Definition done_le (a b : chan) : Prop :=
  (a <> Open -> b <> Open) /\ (a = Nil -> b = Nil).

Lemma done_le_refl : forall a, done_le a a.
Proof. split; auto. Qed.

Lemma cs_step_mono : forall c s s' h j,
  cs_step c s = Ok s' -> getj s h = Some j ->
  exists j', getj s' h = Some j' /\ jid j' = jid j /\ jorph j' = jorph j /\ done_le (jdone j) (jdone j') /\
             (h <> cs_job c -> j' = j).
Proof.
  intros c s s' h j C G. unfold cs_step in C.
  destruct (getj s (cs_job c)) as [j0|] eqn:G0.
  2:{ inversion C; subst. exists j. rewrite getj_set_held. repeat split; auto; apply done_le_refl. }
  assert (Same : forall x, exists j', getj (set_held s x) h = Some j' /\ jid j' = jid j /\ jorph j' = jorph j /\
                   done_le (jdone j) (jdone j') /\ (h <> cs_job c -> j' = j)).
  { intro x. exists j. rewrite getj_set_held. repeat split; auto. }
  assert (Tab : forall t x, exists j', getj (set_held (set_table s t) x) h = Some j' /\ jid j' = jid j /\ jorph j' = jorph j /\
                   done_le (jdone j) (jdone j') /\ (h <> cs_job c -> j' = j)).
  { intros t x. exists j. rewrite getj_set_held, getj_set_table. repeat split; auto. }
  assert (Upd : forall jn x, jid jn = jid j0 -> jorph jn = jorph j0 -> done_le (jdone j0) (jdone jn) ->
                 exists j', getj (set_held (setj s (cs_job c) jn) x) h = Some j' /\ jid j' = jid j /\ jorph j' = jorph j /\
                   done_le (jdone j) (jdone j') /\ (h <> cs_job c -> j' = j)).
  { intros jn x Ei Eo Ed. rewrite getj_set_held, getj_setj. destruct (Nat.eqb (cs_job c) h) eqn:E.
    - apply Nat.eqb_eq in E. subst h. rewrite G0. rewrite G0 in G. inversion G; subst j0.
      exists jn. repeat split; auto; try apply Ed. congruence.
    - exists j. repeat split; auto. }
  destruct c; cbn [cs_job] in *.
  - inversion C; subst. apply Upd; cbn; auto using done_le_refl.
  - inversion C; subst. apply Upd; cbn; auto using done_le_refl.
  - inversion C; subst. apply Upd; cbn; auto using done_le_refl.
  - inversion C; subst. apply Upd; cbn; auto using done_le_refl.
  - inversion C; subst. apply Same.
  - inversion C; subst. apply Tab.
  - (* HClose *)
    destruct (jdone j0) eqn:D; cbn in C; try discriminate; inversion C; subst; try apply Same.
    apply Upd; cbn; auto; split; congruence.
  - (* HNil *) inversion C; subst. apply Upd; cbn; auto; split; congruence.
  - (* CSt *) inversion C; subst. apply Upd; cbn; auto using done_le_refl.
  - inversion C; subst. apply Tab.
  - (* CClose *)
    destruct (jdone j0) eqn:D; cbn in C; try discriminate; inversion C; subst.
    apply Upd; cbn; auto; split; congruence.
  - (* CStNil *) inversion C; subst. apply Upd; cbn; auto; split; congruence.
Qed.

Lemma effect_mono : forall s p s' h j,
  effect s p s' -> getj s h = Some j ->
  exists j', getj s' h = Some j' /\ jid j' = jid j /\ done_le (jdone j) (jdone j').
Proof.
  intros s p s' h j E G. destruct E.
  - exists j. auto using done_le_refl.
  - rewrite (getj_insert_old _ _ _ _ G).
    destruct (option_eqb Nat.eqb (lookup id (table s)) (Some h)); eexists; split; eauto; cbn; auto using done_le_refl.
  - rewrite getj_setj. destruct (Nat.eqb h0 h) eqn:E.
    + apply Nat.eqb_eq in E. subst. rewrite H0. rewrite H0 in G. inversion G; subst.
      exists j'. rewrite H2. auto using done_le_refl.
    + exists j. auto using done_le_refl.
  - exists j. rewrite getj_set_held. auto using done_le_refl.
  - exists j. rewrite getj_set_held. auto using done_le_refl.
  - destruct (cs_step_mono _ _ _ _ _ H0 G) as [j' [G' [I' [_ [D' _]]]]]. exists j'. auto.
Qed.

Lemma exec_mono : forall e (c c' : cfg) h j,
  exec step init_pc e c = Ok c' -> getj (snd c) h = Some j ->
  exists j', getj (snd c') h = Some j' /\ jid j' = jid j /\ done_le (jdone j) (jdone j').
Proof.
  intros e c c' h j H G. destruct (exec_effect _ _ _ H) as [->|[t [p [_ [_ E]]]]].
  - exists j. auto using done_le_refl.
  - eapply effect_mono; eauto.
Qed.

Lemma released_effect : forall s q s' h, effect s q s' -> released s h -> released s' h.
Proof.
  intros s q s' h E [j [G D]]. destruct (effect_mono _ _ _ _ _ E G) as [j' [G' [_ [N _]]]]. exists j'. auto.
Qed.
Lemma finished_effect : forall s q s' h, effect s q s' -> finished s h -> finished s' h.
Proof.
  intros s q s' h E [j [G D]]. destruct (effect_mono _ _ _ _ _ E G) as [j' [G' [_ [_ N]]]]. exists j'. auto.
Qed.

(* a released job stays released, a finished job stays finished (any operations) *)
Lemma released_stable : forall es (c c' : cfg) h,
  Inv (snd c) -> released (snd c) h -> run_from c es = Ok c' -> released (snd c') h.
Proof.
  intros es c c' h I F H. revert es c c' I F H.
  refine (run_from_ind (fun c => released (snd c) h) _).
  intros e c c' I R X. destruct (exec_effect _ _ _ X) as [->|[t [p [_ [_ E]]]]]; [exact R|].
  eapply released_effect; eauto.
Qed.
Lemma finished_stable : forall es (c c' : cfg) h,
  Inv (snd c) -> finished (snd c) h -> run_from c es = Ok c' -> finished (snd c') h.
Proof.
  intros es c c' h I F H. revert es c c' I F H.
  refine (run_from_ind (fun c => finished (snd c) h) _).
  intros e c c' I R X. destruct (exec_effect _ _ _ X) as [->|[t [p [_ [_ E]]]]]; [exact R|].
  eapply finished_effect; eauto.
Qed.

Lemma finished_released : forall s h, finished s h -> released s h.
Proof. intros s h [j [G D]]. exists j. split; [exact G|congruence]. Qed.

Lemma pending_not_released : forall s h, pending s h -> released s h -> False.
Proof. intros s h [j [G D]] [j' [G' D']]. congruence. Qed.

Lemma pending_or_released : forall s h j, getj s h = Some j -> pending s h \/ released s h.
Proof.
  intros s h j G. destruct (jdone j) eqn:D.
  - left. exists j. auto.
  - right. exists j. split; [exact G|congruence].
  - right. exists j. split; [exact G|congruence].
Qed.

(* ---- leaves_table / waiters_released (state part) --------------------------------------- *)
Lemma tracked_pending : forall s h, Inv s -> tracked s h -> pending s h.
Proof. intros s h I [k L]. destruct (inv_table _ I _ _ L) as [j [G [_ [D _]]]]. exists j. auto. Qed.

Lemma released_not_tracked : forall s h, Inv s -> released s h -> ~ tracked s h.
Proof. intros s h I F T. eapply pending_not_released; eauto. apply tracked_pending; auto. Qed.

(* while no critical section is in progress: not in the table (and not overwritten) = finished *)
Lemma untracked_finished : forall s h j,
  Inv s -> held s = None -> getj s h = Some j -> jorph j = false -> ~ tracked s h -> finished s h.
Proof.
  intros s h j I Hn G Or NT. exists j. split; [exact G|]. destruct (jdone j) eqn:D; auto.
  - exfalso. apply NT. exists (jid j). destruct (inv_open _ I _ _ G D Or) as [L|[c [Hc _]]]; [exact L|congruence].
  - exfalso. destruct (inv_closed _ I _ _ G D) as [c [Hc _]]. congruence.
Qed.

Lemma step_unlocked : forall p s, needs_lock p = false -> step p s = step_free p s.
Proof. intros p s H. unfold step. rewrite H. reflexivity. Qed.

(* a waiter of a released job returns: at its next step, or (it had not yet loaded done) at the one after *)
Lemma wait_step_released : forall s h,
  released s h ->
  step (PW1 h) s = Ok (PDone RUnit, s) /\
  (step (PW0 h) s = Ok (PDone RUnit, s) \/ step (PW0 h) s = Ok (PW1 h, s)).
Proof.
  intros s h [j [G D]]. rewrite !step_unlocked by reflexivity. cbn. rewrite G.
  destruct (jdone j); try congruence; auto.
Qed.

Lemma isdone_step_released : forall s h,
  released s h ->
  step (PI1 h) s = Ok (PDone (RBool true), s) /\
  (step (PI0 h) s = Ok (PDone (RBool true), s) \/ step (PI0 h) s = Ok (PI1 h, s)).
Proof.
  intros s h [j [G D]]. rewrite !step_unlocked by reflexivity. cbn. rewrite G.
  destruct (jdone j); try congruence; auto.
Qed.

(* a waiter of a pending job does not return; IsDone answers false *)
Lemma wait_step_pending : forall s h p p' s',
  pending s h -> p = PW0 h \/ p = PW1 h -> step p s = Ok (p', s') -> p' = PW1 h /\ s' = s.
Proof.
  intros s h p p' s' [j [G D]] [->| ->] H; rewrite step_unlocked in H by reflexivity;
    cbn in H; rewrite G, D in H; inversion H; auto.
Qed.

Lemma isdone_step_pending : forall s h p p' s',
  pending s h -> p = PI0 h \/ p = PI1 h -> step p s = Ok (p', s') ->
  (p' = PI1 h \/ p' = PDone (RBool false)) /\ s' = s.
Proof.
  intros s h p p' s' [j [G D]] [->| ->] H; rewrite step_unlocked in H by reflexivity;
    cbn in H; rewrite G, D in H; inversion H; auto.
Qed.

(* ---- one thread through a history ------------------------------------------------------- *)
Lemma thread_inv (R : pc -> sess -> Prop) :
  (forall p s p' s', Inv s -> R p s -> step p s = Ok (p', s') -> R p' s') ->
  (forall p s q s', Inv s -> R p s -> effect s q s' -> R p s') ->
  forall es (c c' : cfg) t, Inv (snd c) ->
    (exists p, nth_error (fst c) t = Some p /\ R p (snd c)) -> run_from c es = Ok c' ->
    exists p', nth_error (fst c') t = Some p' /\ R p' (snd c').
Proof.
  intros Own Oth es c c' t I HR H. revert es c c' I HR H.
  refine (run_from_ind (fun c => exists p, nth_error (fst c) t = Some p /\ R p (snd c)) _).
  intros e c c' I [p [N Rp]] X. destruct e as [o|t'].
  - inversion X; subst. cbn. exists p. split; [|exact Rp].
    rewrite nth_error_app1; [exact N|]. apply nth_error_Some. congruence.
  - apply exec_run_cases in X as [[_ ->]|[q [q' [s' [N' [S ->]]]]]]; [exists p; auto|].
    cbn [fst snd]. destruct (Nat.eq_dec t' t) as [->|NE].
    + rewrite N in N'. inversion N'; subst q. exists q'. split; [eapply nth_upd_same; eauto|].
      eapply Own; eauto.
    + exists p. rewrite nth_upd_other by exact NE. split; [exact N|].
      eapply Oth; eauto. eapply step_effect; eauto.
Qed.

Lemma nth_spawned : forall (ps : list pc) p, nth_error (ps ++ [p]) (length ps) = Some p.
Proof. intros. rewrite nth_error_app2 by lia. rewrite Nat.sub_diag. reflexivity. Qed.

Lemma lt_getj : forall s h, (h < length (jobs s))%nat -> exists j, getj s h = Some j.
Proof. intros s h L. unfold getj. destruct (nth_error (jobs s) h) eqn:E; eauto. apply nth_error_None in E. lia. Qed.

Lemma valid_effect : forall s q s' h, effect s q s' -> (h < length (jobs s))%nat -> (h < length (jobs s'))%nat.
Proof.
  intros s q s' h E L. destruct (lt_getj _ _ L) as [j G].
  destruct (effect_mono _ _ _ _ _ E G) as [j' [G' _]]. eapply getj_lt; eauto.
Qed.

(* Wait never returns while the job is pending *)
Definition wait_R (h : nat) (p : pc) (s : sess) : Prop :=
  (h < length (jobs s))%nat /\ (p = PW0 h \/ p = PW1 h \/ ((exists r, p = PDone r) /\ released s h)).

Lemma wait_not_early : forall es (c c' : cfg) h r,
  Inv (snd c) -> (h < length (jobs (snd c)))%nat ->
  run_from c (Spawn (OWait h) :: es) = Ok c' ->
  nth_error (fst c') (length (fst c)) = Some (PDone r) -> released (snd c') h.
Proof.
  intros es c c' h r I V H N. rewrite run_from_cons, exec_spawn in H. cbn [bind] in H.
  destruct (thread_inv (wait_R h)) with (es := es) (c := (fst c ++ [init_pc (OWait h)], snd c)) (c' := c') (t := length (fst c))
    as [p' [N' [_ R]]]; auto.
  - intros p s p' s' Is [L R] S. destruct (lt_getj _ _ L) as [j G].
    destruct R as [->|[->|[[r0 ->] F]]]; rewrite step_unlocked in S by reflexivity; cbn in S; try rewrite G in S.
    + destruct (jdone j) eqn:D; inversion S; subst; (split; [auto|]); auto.
      right; right; (split; [eauto|]); exists j; (split; [auto|congruence]).
    + destruct (jdone j) eqn:D; inversion S; subst; (split; [auto|]); auto;
        right; right; (split; [eauto|]); exists j; (split; [auto|congruence]).
    + inversion S; subst. split; eauto.
  - intros p s q s' Is [L R] E. split; [eapply valid_effect; eauto|].
    destruct R as [->|[->|[X F]]]; auto. right. right. split; auto. eapply released_effect; eauto.
  - exists (PW0 h). cbn. split; [apply nth_spawned|]. split; auto.
  - rewrite N in N'. inversion N'; subst. destruct R as [X|[X|[_ F]]]; try discriminate. exact F.
Qed.

(* IsDone = true only for a released job *)
Definition isdone_R (h : nat) (p : pc) (s : sess) : Prop :=
  (h < length (jobs s))%nat /\
  (p = PI0 h \/ p = PI1 h \/ p = PDone (RBool false) \/ (p = PDone (RBool true) /\ released s h)).

Lemma isdone_true_released : forall es (c c' : cfg) h,
  Inv (snd c) -> (h < length (jobs (snd c)))%nat ->
  run_from c (Spawn (OIsDone h) :: es) = Ok c' ->
  nth_error (fst c') (length (fst c)) = Some (PDone (RBool true)) -> released (snd c') h.
Proof.
  intros es c c' h I V H N. rewrite run_from_cons, exec_spawn in H. cbn [bind] in H.
  destruct (thread_inv (isdone_R h)) with (es := es) (c := (fst c ++ [init_pc (OIsDone h)], snd c)) (c' := c') (t := length (fst c))
    as [p' [N' [_ R]]]; auto.
  - intros p s p' s' Is [L R] S. destruct (lt_getj _ _ L) as [j G].
    destruct R as [->|[->|[->|[-> F]]]]; rewrite step_unlocked in S by reflexivity; cbn in S; try rewrite G in S.
    + destruct (jdone j) eqn:D; inversion S; subst; (split; [auto|]); auto.
      right. right. right. split; auto. exists j. split; [auto|congruence].
    + destruct (jdone j) eqn:D; inversion S; subst; (split; [auto|]); auto;
        right; right; right; (split; [auto|]); exists j; (split; [auto|congruence]).
    + inversion S; subst. split; auto.
    + inversion S; subst. split; auto.
  - intros p s q s' Is [L R] E. split; [eapply valid_effect; eauto|].
    destruct R as [->|[->|[->|[-> F]]]]; auto. right. right. right. split; auto. eapply released_effect; eauto.
  - exists (PI0 h). cbn. split; [apply nth_spawned|]. split; auto.
  - rewrite N in N'. inversion N'; subst. destruct R as [X|[X|[X|[_ F]]]]; try discriminate. exact F.
Qed.

(* ---- Cancel, once it has returned, leaves the job finished ------------------------------- *)
Definition cancel_st (c : cs) : bool :=
  match c with CSt _ | CDel _ | CClose _ | CStNil _ => true | _ => false end.
(* the Cancel of h holds the lock, or h is finished *)
Definition cprog (s : sess) (h : nat) : Prop :=
  (exists c, held s = Some c /\ cancel_st c = true /\ cs_job c = h) \/ finished s h.

Lemma cs_step_cprog : forall s c s' h,
  Inv s -> held s = Some c -> cs_step c s = Ok s' -> cprog s h -> cprog s' h.
Proof.
  intros s c s' h I Hd C [[c0 [Hc0 [Cs J]]]|F].
  - rewrite Hd in Hc0. inversion Hc0; subst c0. subst h.
    destruct (inv_held _ I _ Hd) as [j [G [H1 _]]].
    unfold cs_step in C. rewrite G in C. destruct c; try discriminate; cbn [cs_job] in *.
    + inversion C; subst. left. eexists. split; [reflexivity|].
      destruct (match lookup (jid j) (table s) with Some h' => Nat.eqb h' h | None => false end); auto.
    + inversion C; subst. left. eexists. split; [reflexivity|]. auto.
    + rewrite (H1 eq_refl) in C. cbn in C. inversion C; subst. left. eexists. split; [reflexivity|]. auto.
    + inversion C; subst. right. eexists. rewrite getj_set_held. split; [eapply getj_setj_same; eauto|reflexivity].
  - right. destruct F as [j [G D]]. destruct (cs_step_mono _ _ _ _ _ C G) as [j' [G' [_ [_ [[_ N] _]]]]].
    exists j'. auto.
Qed.

Lemma effect_cprog : forall s q s' h, Inv s -> effect s q s' -> cprog s h -> cprog s' h.
Proof.
  intros s q s' h I E P. destruct E.
  - exact P.
  - destruct P as [[c [Hc _]]|F]; [congruence|]. right. eapply finished_effect; eauto. apply EffInsert; auto.
  - destruct P as [[c [Hc R]]|F]; [left; exists c; auto|]. right. eapply finished_effect; eauto. eapply EffStatus; eauto.
  - destruct P as [[c [Hc _]]|F]; [congruence|]. right. destruct F as [j0 [G0 D0]]. exists j0. auto.
  - destruct P as [[c [Hc _]]|F]; [congruence|]. right. destruct F as [j0 [G0 D0]]. exists j0. auto.
  - eapply cs_step_cprog; eauto.
Qed.

Definition cancel_R (h : nat) (p : pc) (s : sess) : Prop :=
  (h < length (jobs s))%nat /\
  (p = PC0 h \/ p = PC1 h \/ (p = PCS RUnit /\ cprog s h) \/ ((exists r, p = PDone r) /\ finished s h)).

Lemma cancel_completes : forall es (c c' : cfg) h r,
  Inv (snd c) -> (h < length (jobs (snd c)))%nat ->
  run_from c (Spawn (OCancel h) :: es) = Ok c' ->
  nth_error (fst c') (length (fst c)) = Some (PDone r) -> finished (snd c') h /\ ~ tracked (snd c') h.
Proof.
  intros es c c' h r I V H N.
  assert (Ic' : Inv (snd c')) by (eapply run_from_inv; eauto).
  rewrite run_from_cons, exec_spawn in H. cbn [bind] in H.
  destruct (thread_inv (cancel_R h)) with (es := es) (c := (fst c ++ [init_pc (OCancel h)], snd c)) (c' := c') (t := length (fst c))
    as [p' [N' [_ R]]]; auto.
  - intros p s p' s' Is [L R] S. destruct (lt_getj _ _ L) as [j G].
    pose proof (step_effect _ _ _ _ S) as E.
    split; [eapply valid_effect; eauto|].
    destruct R as [->|[->|[[-> P]|[[r0 ->] F]]]].
    + rewrite step_unlocked in S by reflexivity. cbn in S. rewrite G in S.
      destruct (jdone j) eqn:D; inversion S; subst; auto.
      right. right. right. split; eauto. exists j. auto.
    + unfold step in S. cbn [needs_lock andb] in S. destruct (is_held s) eqn:Hd.
      * inversion S; subst. auto.
      * cbn in S. rewrite G in S. apply is_held_false in Hd.
        destruct (jdone j) eqn:D; inversion S; subst.
        -- right. right. left. split; auto. left. eexists. split; [reflexivity|]. auto.
        -- right. right. left. split; auto. left. eexists. split; [reflexivity|]. auto.
        -- right. right. right. split; eauto. exists j. auto.
    + pose proof (effect_cprog _ _ _ h Is E P) as P'.
      rewrite step_unlocked in S by reflexivity. cbn in S.
      destruct (held s) as [c0|] eqn:Hd.
      * unfold bind in S. destruct (cs_step c0 s) as [s1| |]; try discriminate.
        destruct (held s1) eqn:Hd1; inversion S; subst.
        -- right. right. left. auto.
        -- right. right. right. split; eauto. destruct P' as [[c1 [Hc1 _]]|F]; [congruence|exact F].
      * inversion S; subst. right. right. right. split; eauto.
        destruct P as [[c1 [Hc1 _]]|F]; [congruence|exact F].
    + unfold step in S. cbn in S. inversion S; subst. right. right. right. split; eauto.
  - intros p s q s' Is [L R] E. split; [eapply valid_effect; eauto|].
    destruct R as [->|[->|[[-> P]|[X F]]]]; auto.
    + right. right. left. split; auto. eapply effect_cprog; eauto.
    + right. right. right. split; auto. eapply finished_effect; eauto.
  - exists (PC0 h). cbn. split; [apply nth_spawned|]. split; auto.
  - rewrite N in N'. inversion N'; subst. destruct R as [X|[X|[[X _]|[_ F]]]]; try discriminate.
    split; [exact F|]. apply released_not_tracked; auto. apply finished_released; exact F.
Qed.

(* ---- status: histories of the operations of the property (no accept / frag) ------------- *)

(* what the lock holder has written so far *)
Definition stage_ok (c : cs) (j : job) : Prop :=
  match c with
  | HRes _ _ _ _ => jstatus j = StWaiting /\ jres j = 0 /\ jerr j = false
  | HSt _ _ tag _ => jres j = tag /\ jerr j = false
  | HErrSt _ tag _ => jres j = tag
  | HErrTxt _ tag _ => jres j = tag /\ jstatus j = StError
  | HInfo _ tag => jres j = tag /\ jstatus j = StCompleted
  | HDel _ err tag | HClose _ err tag => jres j = tag /\ jstatus j = (if err then StError else StCompleted)
  | HNil _ => True
  | CSt _ => jstatus j = StWaiting /\ jres j = 0 /\ jerr j = false
  | CDel _ | CClose _ | CStNil _ => jstatus j = StCanceled /\ jres j = 0 /\ jerr j = false
  end.

Definition InvSt (s : sess) : Prop :=
  forall h j, getj s h = Some j ->
    (in_progress s h = false -> jdone j = Open -> jstatus j = StWaiting /\ jres j = 0 /\ jerr j = false) /\
    (jdone j <> Open -> final (jstatus j)) /\
    (forall c, held s = Some c -> cs_job c = h -> stage_ok c j).

Definition clean (ps : list pc) : Prop := forall t p, nth_error ps t = Some p -> c14_pc p = true.

Lemma step_c14 : forall p s p' s', step p s = Ok (p', s') -> c14_pc p = true -> c14_pc p' = true.
Proof.
  intros p s p' s' H C. unfold step in H. destruct (needs_lock p && is_held s); [inversion H; subst; exact C|].
  destruct p; try discriminate; cbn [step_free step_common] in H; unfold bind in H;
    break_in H; try discriminate; inversion H; subst; reflexivity.
Qed.

Lemma init_c14 : forall o, c14_pc (init_pc o) = c14_op o.
Proof. destruct o; reflexivity. Qed.

Lemma final_cases : forall err : bool, final (if err then StError else StCompleted).
Proof. intros [|]; unfold final; auto. Qed.

Lemma in_progress_held_none : forall s h, held s = None -> in_progress s h = false.
Proof. intros s h H. unfold in_progress. rewrite H. reflexivity. Qed.

Lemma cs_step_other : forall c s s' h2,
  cs_step c s = Ok s' -> h2 <> cs_job c -> getj s' h2 = getj s h2.
Proof.
  intros c s s' h2 C NE. unfold cs_step in C. destruct (getj s (cs_job c)) as [j|] eqn:G.
  2:{ inversion C; subst. reflexivity. }
  destruct c; cbn [cs_job] in *;
    try (inversion C; subst; rewrite ?getj_set_held, ?getj_set_table, ?getj_setj_other by auto; reflexivity).
  - destruct (jdone j); cbn in C; inversion C; subst;
      rewrite ?getj_set_held, ?getj_setj_other by auto; reflexivity.
  - destruct (jdone j); cbn in C; inversion C; subst;
      rewrite ?getj_set_held, ?getj_setj_other by auto; reflexivity.
Qed.

Lemma cs_step_held : forall c s s',
  cs_step c s = Ok s' -> held s' = None \/ exists c', held s' = Some c' /\ cs_job c' = cs_job c.
Proof.
  intros c s s' C. unfold cs_step in C. destruct (getj s (cs_job c)) as [j|] eqn:G.
  2:{ inversion C; subst. left. reflexivity. }
  destruct c; cbn [cs_job] in *; try (inversion C; subst; cbn; eauto; fail).
  - inversion C; subst. right. destruct err; eexists; split; reflexivity.
  - destruct (jdone j); cbn in C; inversion C; subst; cbn; eauto.
  - inversion C; subst. right.
    destruct (match lookup (jid j) (table s) with Some h' => Nat.eqb h' h | None => false end); eexists; split; reflexivity.
  - destruct (jdone j); cbn in C; inversion C; subst; cbn; eauto.
Qed.

Lemma in_progress_other : forall c s s' h2,
  held s = Some c -> cs_step c s = Ok s' -> h2 <> cs_job c -> in_progress s' h2 = false /\ in_progress s h2 = false.
Proof.
  intros c s s' h2 Hd C NE. split.
  - unfold in_progress. destruct (cs_step_held _ _ _ C) as [->|[c' [-> J]]]; [reflexivity|].
    rewrite J. apply Nat.eqb_neq. auto.
  - unfold in_progress. rewrite Hd. apply Nat.eqb_neq. auto.
Qed.

Lemma cs_step_invst : forall s c s', Inv s -> InvSt s -> held s = Some c -> cs_step c s = Ok s' -> InvSt s'.
Proof.
  intros s c s' I St Hd C h2 j2 G2.
  destruct (Nat.eq_dec h2 (cs_job c)) as [->|NE].
  2:{ rewrite (cs_step_other _ _ _ _ C NE) in G2. destruct (St _ _ G2) as [A [B D]].
      destruct (in_progress_other _ _ _ _ Hd C NE) as [P1 P2].
      split; [intros _; apply A; exact P2|]. split; [exact B|].
      intros c' Hc' J. exfalso. destruct (cs_step_held _ _ _ C) as [X|[c1 [X J1]]]; congruence. }
  destruct (inv_held _ I _ Hd) as [j [G [H1 [H1c _]]]].
  destruct (St _ _ G) as [A [B D]]. specialize (D _ Hd eq_refl).
  unfold cs_step in C. rewrite G in C.
  assert (IP : forall x, in_progress (set_held s' (Some x)) (cs_job x) = false -> False).
  { intros x X. unfold in_progress in X. cbn in X. rewrite Nat.eqb_refl in X. discriminate. }
  destruct c; cbn [cs_job stage_ok] in *; try specialize (H1 eq_refl).
  all: try (inversion C; subst; clear C; rewrite getj_set_held in G2;
            try rewrite getj_set_table in G2; try rewrite (getj_setj_same _ _ _ _ G) in G2;
            try rewrite G in G2; inversion G2; subst j2; clear G2).
  - (* HRes *) split; [intro X; exfalso; unfold in_progress in X; cbn in X; rewrite Nat.eqb_refl in X; discriminate|].
    split; [cbn; congruence|]. intros c' Hc' _. inversion Hc'; subst c'. cbn. tauto.
  - (* HSt *) split; [intro X; exfalso; unfold in_progress in X; cbn in X; destruct err; cbn in X; rewrite Nat.eqb_refl in X; discriminate|].
    split; [cbn; congruence|]. intros c' Hc' _. inversion Hc'; subst c'. destruct err; cbn; tauto.
  - (* HErrSt *) split; [intro X; exfalso; unfold in_progress in X; cbn in X; rewrite Nat.eqb_refl in X; discriminate|].
    split; [cbn; congruence|]. intros c' Hc' _. inversion Hc'; subst c'. cbn. tauto.
  - (* HErrTxt *) split; [intro X; exfalso; unfold in_progress in X; cbn in X; rewrite Nat.eqb_refl in X; discriminate|].
    split; [cbn; congruence|]. intros c' Hc' _. inversion Hc'; subst c'. cbn. tauto.
  - (* HInfo *) split; [intro X; exfalso; unfold in_progress in X; cbn in X; rewrite Nat.eqb_refl in X; discriminate|].
    split; [congruence|]. intros c' Hc' _. inversion Hc'; subst c'. cbn. tauto.
  - (* HDel *) split; [intro X; exfalso; unfold in_progress in X; cbn in X; rewrite Nat.eqb_refl in X; discriminate|].
    split; [congruence|]. intros c' Hc' _. inversion Hc'; subst c'. cbn. tauto.
  - (* HClose *) rewrite H1 in C. cbn in C. inversion C; subst; clear C.
    rewrite getj_set_held, (getj_setj_same _ _ _ _ G) in G2. inversion G2; subst j2.
    split; [intro X; exfalso; unfold in_progress in X; cbn in X; rewrite Nat.eqb_refl in X; discriminate|].
    split; [intros _; cbn; destruct D as [_ ->]; apply final_cases|].
    intros c' Hc' _. inversion Hc'; subst c'. exact Logic.I.
  - (* HNil *) split; [intros _ X; cbn in X; discriminate|]. split; [intros _; cbn; apply B; rewrite (H1c eq_refl); discriminate|].
    intros c' Hc'. discriminate.
  - (* CSt *) split; [intro X; exfalso; unfold in_progress in X; cbn in X;
      destruct (match lookup (jid j) (table s) with Some h' => Nat.eqb h' h | None => false end); cbn in X; rewrite Nat.eqb_refl in X; discriminate|].
    split; [cbn; congruence|]. intros c' Hc' _. inversion Hc'; subst c'.
    destruct (match lookup (jid j) (table s) with Some h' => Nat.eqb h' h | None => false end); cbn; tauto.
  - (* CDel *) split; [intro X; exfalso; unfold in_progress in X; cbn in X; rewrite Nat.eqb_refl in X; discriminate|].
    split; [congruence|]. intros c' Hc' _. inversion Hc'; subst c'. cbn. tauto.
  - (* CClose *) rewrite H1 in C. cbn in C. inversion C; subst; clear C.
    rewrite getj_set_held, (getj_setj_same _ _ _ _ G) in G2. inversion G2; subst j2.
    split; [intro X; exfalso; unfold in_progress in X; cbn in X; rewrite Nat.eqb_refl in X; discriminate|].
    split; [intros _; cbn; destruct D as [-> _]; unfold final; auto|].
    intros c' Hc' _. inversion Hc'; subst c'. cbn. tauto.
  - (* CStNil *) split; [intros _ X; cbn in X; discriminate|]. split; [intros _; cbn; unfold final; auto|].
    intros c' Hc'. discriminate.
Qed.

Lemma effect_invst : forall s p s', Inv s -> InvSt s -> effect s p s' -> c14_pc p = true -> InvSt s'.
Proof.
  intros s p s' I St E C.
  destruct E as [p|id Hn|p h j j' Cp G Ei Ed Eo Er Ee|h err tag pl j Hn G L|h j Hn G D|r c s' Hd Cs].
  - exact St.
  - intros h j G. assert (IP : in_progress (insert_job s id) h = in_progress s h) by reflexivity.
    rewrite IP. rewrite held_insert.
    apply getj_insert_inv in G as [[_ ->]|[j0 [G [[-> _]|[-> _]]]]].
    + cbn. split; [auto|]. split; [congruence|]. intros c Hc. congruence.
    + apply (St _ _ G).
    + apply (St _ _ G).
  - congruence.
  - (* handle takes the lock *)
    destruct (inv_table _ I _ _ L) as [j0 [G0 [_ [D0 _]]]]. rewrite G in G0. inversion G0; subst j0.
    intros h2 j2 G2. rewrite getj_set_held in G2. destruct (St _ _ G2) as [A [B Dd]].
    split; [|split; [exact B|]].
    + intros X. apply A. apply in_progress_held_none. exact Hn.
    + intros c Hc J. inversion Hc; subst c. cbn in J. subst h2. rewrite G in G2. inversion G2; subst j2.
      cbn. apply A; auto. apply in_progress_held_none. exact Hn.
  - (* Cancel takes the lock *)
    assert (D0 : jdone j = Open).
    { destruct (jdone j) eqn:X; auto; [|congruence]. destruct (inv_closed _ I _ _ G X) as [c [Hc _]]. congruence. }
    intros h2 j2 G2. rewrite getj_set_held in G2. destruct (St _ _ G2) as [A [B Dd]].
    split; [|split; [exact B|]].
    + intros X. apply A. apply in_progress_held_none. exact Hn.
    + intros c Hc J. inversion Hc; subst c. cbn in J. subst h2. rewrite G in G2. inversion G2; subst j2.
      cbn. apply A; auto. apply in_progress_held_none. exact Hn.
  - eapply cs_step_invst; eauto.
Qed.

(* released implies final: a job whose done is no longer open is not touched again in Status,
   Result, Error by any step of these operations *)
Lemma effect_frozen : forall s p s' h j,
  Inv s -> InvSt s -> effect s p s' -> c14_pc p = true -> getj s h = Some j -> jdone j <> Open ->
  exists j', getj s' h = Some j' /\ outcome j' = outcome j /\ jid j' = jid j.
Proof.
  intros s p s' h j I St E C G D.
  destruct E as [p|id Hn|p h0 j0 j' Cp G0 Ei Ed Eo Er Ee|h0 err tag pl j0 Hn G0 L|h0 j0 Hn G0 D0|r c s' Hd Cs].
  - eauto.
  - rewrite (getj_insert_old _ _ _ _ G).
    destruct (option_eqb Nat.eqb (lookup id (table s)) (Some h)); eexists; split; eauto.
  - congruence.
  - exists j. rewrite getj_set_held. auto.
  - exists j. rewrite getj_set_held. auto.
  - destruct (Nat.eq_dec h (cs_job c)) as [->|NE].
    2:{ exists j. rewrite (cs_step_other _ _ _ _ Cs NE). auto. }
    destruct (inv_held _ I _ Hd) as [j1 [G1 [H1 [H1c _]]]]. rewrite G in G1. inversion G1; subst j1.
    destruct (St _ _ G) as [_ [_ Dd]]. specialize (Dd _ Hd eq_refl).
    unfold cs_step in Cs. rewrite G in Cs.
    destruct c; cbn [cs_job closed_st] in *; try (exfalso; apply D; apply H1; reflexivity).
    + inversion Cs; subst. eexists. rewrite getj_set_held. split; [eapply getj_setj_same; eauto|]. auto.
    + inversion Cs; subst. eexists. rewrite getj_set_held. split; [eapply getj_setj_same; eauto|].
      cbn in Dd. destruct Dd as [Ds _]. unfold outcome. cbn. rewrite Ds. auto.
Qed.

(* the configuration invariant of such histories *)
Definition CInv (c : cfg) : Prop := InvSt (snd c) /\ clean (fst c).

Lemma exec_cinv : forall e (c c' : cfg),
  c14_ev e = true -> Inv (snd c) -> CInv c -> exec step init_pc e c = Ok c' -> CInv c'.
Proof.
  intros e c c' Ce I [St Cl] X. destruct e as [o|t].
  - inversion X; subst. cbn [fst snd]. split; [exact St|]. intros t p N. cbn [fst] in N.
    destruct (Nat.lt_ge_cases t (length (fst c))) as [L|G].
    + rewrite nth_error_app1 in N by exact L. eapply Cl; eauto.
    + rewrite nth_error_app2 in N by exact G. destruct (t - length (fst c))%nat as [|k]; cbn in N.
      * inversion N. rewrite init_c14. exact Ce.
      * destruct k; discriminate.
  - apply exec_run_cases in X as [[_ ->]|[p [p' [s' [N [S ->]]]]]]; [split; auto|].
    pose proof (Cl _ _ N) as Cp. split; cbn [fst snd].
    + eapply effect_invst; eauto. eapply step_effect; eauto.
    + intros t2 p2 N2. rewrite nth_upd in N2. destruct (Nat.eqb t t2).
      * rewrite N in N2. inversion N2; subst. eapply step_c14; eauto.
      * eapply Cl; eauto.
Qed.

Lemma run_from_cinv : forall es (c c' : cfg),
  forallb c14_ev es = true -> Inv (snd c) -> CInv c -> run_from c es = Ok c' -> CInv c'.
Proof.
  induction es as [|e es IH]; intros c c' F I C H.
  - inversion H; subst; exact C.
  - cbn in F. apply andb_prop in F as [Fe Fr]. rewrite run_from_cons in H.
    destruct (exec step init_pc e c) as [c1| |] eqn:X; try discriminate.
    eapply IH; [exact Fr| | |exact H]; [eapply exec_inv|eapply exec_cinv]; eauto.
Qed.

Lemma CInv_0 : CInv cfg0.
Proof. split; [intros h j G; destruct h; discriminate|intros t p N; destruct t; discriminate]. Qed.

Lemma run_cinv : forall es c, forallb c14_ev es = true -> run es = Ok c -> CInv c.
Proof. intros es c F H. eapply run_from_cinv; eauto. exact Inv_s0. exact CInv_0. Qed.

(* a job that is not inside somebody's critical section is pending with status waiting and no
   result, or released with a final status *)
Lemma status_pending_final : forall es c h j,
  forallb c14_ev es = true -> run es = Ok c -> getj (snd c) h = Some j ->
  (jdone j <> Open -> final (jstatus j)) /\
  (in_progress (snd c) h = false -> jdone j = Open -> jstatus j = StWaiting /\ jres j = 0 /\ jerr j = false).
Proof.
  intros es c h j F H G. destruct (run_cinv _ _ F H) as [St _].
  destruct (St _ _ G) as [A [B _]]. auto.
Qed.

Lemma exec_frozen : forall e (c c' : cfg) h j,
  Inv (snd c) -> CInv c -> exec step init_pc e c = Ok c' ->
  getj (snd c) h = Some j -> jdone j <> Open ->
  exists j', getj (snd c') h = Some j' /\ outcome j' = outcome j /\ jid j' = jid j /\ jdone j' <> Open.
Proof.
  intros e c c' h j I [St Cl] X G D.
  destruct (exec_mono _ _ _ _ _ X G) as [jm [Gm [_ [Dm _]]]].
  destruct (exec_effect _ _ _ X) as [E|[t [p [_ [N E]]]]].
  - rewrite E in *. exists j. rewrite G in Gm. inversion Gm; subst. auto.
  - destruct (effect_frozen _ _ _ _ _ I St E (Cl _ _ N) G D) as [j' [G' [O' I']]].
    exists j'. rewrite G' in Gm. inversion Gm; subst. auto.
Qed.

(* released_implies_final over whole histories *)
Lemma released_final : forall es (c c' : cfg) h j,
  forallb c14_ev es = true -> Inv (snd c) -> CInv c -> run_from c es = Ok c' ->
  getj (snd c) h = Some j -> jdone j <> Open ->
  exists j', getj (snd c') h = Some j' /\ outcome j' = outcome j /\ jid j' = jid j /\ jdone j' <> Open.
Proof.
  induction es as [|e es IH]; intros c c' h j F I C H G D.
  - inversion H; subst. exists j. auto.
  - cbn in F. apply andb_prop in F as [Fe Fr]. rewrite run_from_cons in H.
    destruct (exec step init_pc e c) as [c1| |] eqn:X; try discriminate.
    destruct (exec_frozen _ _ _ _ _ I C X G D) as [j1 [G1 [O1 [I1 D1]]]].
    assert (Inv1 : Inv (snd c1)) by exact (exec_inv e c c1 I X).
    assert (C1 : CInv c1) by exact (exec_cinv e c c1 Fe I C X).
    destruct (IH c1 c' h j1 Fr Inv1 C1 H G1 D1) as [j' [G' [O' [I' D']]]].
    exists j'. split; [exact G'|]. split; [congruence|]. split; [congruence|exact D'].
Qed.

(* the releasing step: the one step after which a job is released (it was pending before) is the
   close(done) of the critical section of a result for that job, or of a Cancel of that job; at
   that moment the job already carries the status and the result of that event *)
Lemma releasing_step : forall t (c c' : cfg) h,
  Inv (snd c) -> CInv c -> exec step init_pc (Run t) c = Ok c' ->
  pending (snd c) h -> released (snd c') h ->
  exists r k st res j', nth_error (fst c) t = Some (PCS r) /\ held (snd c) = Some k /\
    publishes k = Some (h, st, res) /\
    getj (snd c') h = Some j' /\ jstatus j' = st /\ final st /\
    jres j' = match res with Some tag => tag | None => 0 end /\
    ~ tracked (snd c') h.
Proof.
  intros t c c' h I [St Cl] X P F.
  assert (I' : Inv (snd c')) by (eapply exec_inv; eauto).
  destruct P as [j [G D]]. destruct F as [j' [G' D']].
  assert (NT : ~ tracked (snd c') h) by (apply released_not_tracked; auto; exists j'; auto).
  destruct (exec_effect _ _ _ X) as [E|[t' [p [Et [N E]]]]].
  - exfalso. rewrite E in G'. congruence.
  - inversion Et; subst t'. clear Et.
    destruct E as [p|id Hn|p h0 j0 j0' Cp G0 Ei Ed Eo Er Ee|h0 err tag pl j0 Hn G0 L|h0 j0 Hn G0 D0|r k s' Hd Cs].
    + congruence.
    + rewrite (getj_insert_old _ _ _ _ G) in G'. inversion G'; subst.
      destruct (option_eqb Nat.eqb (lookup id (table (snd c))) (Some h)); cbn in D'; congruence.
    + pose proof (Cl _ _ N). congruence.
    + rewrite getj_set_held in G'. congruence.
    + rewrite getj_set_held in G'. congruence.
    + destruct (Nat.eq_dec h (cs_job k)) as [->|NE].
      2:{ rewrite (cs_step_other _ _ _ _ Cs NE) in G'. congruence. }
      destruct (St _ _ G) as [_ [_ Dd]]. specialize (Dd _ Hd eq_refl).
      destruct (inv_held _ I _ Hd) as [jk [Gk [_ [H1c _]]]]. rewrite G in Gk. inversion Gk; subst jk.
      unfold cs_step in Cs. rewrite G in Cs.
      destruct k; cbn [cs_job stage_ok closed_st] in *;
        try (specialize (H1c eq_refl); congruence);
        try (inversion Cs; subst; rewrite getj_set_held in G'; try rewrite getj_set_table in G';
             try rewrite (getj_setj_same _ _ _ _ G) in G'; try rewrite G in G'; inversion G'; subst j';
             cbn in D'; congruence).
      * (* HClose *) rewrite D in Cs. cbn in Cs. inversion Cs; subst.
        rewrite getj_set_held, (getj_setj_same _ _ _ _ G) in G'. inversion G'; subst j'.
        exists r. eexists. exists (if err then StError else StCompleted), (Some tag). eexists.
        split; [exact N|]. split; [exact Hd|]. split; [reflexivity|].
        split; [rewrite getj_set_held; eapply getj_setj_same; eauto|]. cbn.
        destruct Dd as [Dr Ds]. repeat split; auto using final_cases.
      * (* CClose *) rewrite D in Cs. cbn in Cs. inversion Cs; subst.
        rewrite getj_set_held, (getj_setj_same _ _ _ _ G) in G'. inversion G'; subst j'.
        exists r. eexists. exists StCanceled, None. eexists.
        split; [exact N|]. split; [exact Hd|]. split; [reflexivity|].
        split; [rewrite getj_set_held; eapply getj_setj_same; eauto|]. cbn.
        destruct Dd as [Ds [Dr _]]. repeat split; auto. unfold final; auto.
Qed.

Lemma forallb_app_inv : forall {A} (f : A -> bool) l1 l2,
  forallb f (l1 ++ l2) = true -> forallb f l1 = true /\ forallb f l2 = true.
Proof. intros. rewrite forallb_app in H. apply andb_prop in H. exact H. Qed.

(* status_first_event *)
Lemma status_first_event : forall es1 t es2 (c1 c2 c3 : cfg) h,
  forallb c14_ev (es1 ++ Run t :: es2) = true ->
  run es1 = Ok c1 -> exec step init_pc (Run t) c1 = Ok c2 -> run_from c2 es2 = Ok c3 ->
  pending (snd c1) h -> released (snd c2) h ->
  exists r k st res j j3, nth_error (fst c1) t = Some (PCS r) /\ held (snd c1) = Some k /\
    publishes k = Some (h, st, res) /\
    getj (snd c2) h = Some j /\ jstatus j = st /\ final st /\
    jres j = match res with Some tag => tag | None => 0 end /\
    getj (snd c3) h = Some j3 /\ outcome j3 = outcome j /\ released (snd c3) h /\ ~ tracked (snd c3) h.
Proof.
  intros es1 t es2 c1 c2 c3 h F H1 X H3 P Fi.
  apply forallb_app_inv in F as [F1 F2]. cbn in F2.
  pose proof (run_inv _ _ H1) as I1. pose proof (run_cinv _ _ F1 H1) as C1.
  assert (I2 : Inv (snd c2)) by (eapply exec_inv; eauto).
  assert (C2 : CInv c2) by (apply (exec_cinv (Run t) c1 c2); auto).
  assert (I3 : Inv (snd c3)) by (eapply run_from_inv; eauto).
  destruct (releasing_step _ _ _ _ I1 C1 X P Fi) as [r [k [st [res [j [N [Hd [Pb [G [S [Fs [R NT]]]]]]]]]]]].
  assert (D : jdone j <> Open) by (destruct Fi as [j' [G' D']]; congruence).
  destruct (released_final es2 c2 c3 h j F2 I2 C2 H3 G D) as [j3 [G3 [O3 [_ D3]]]].
  exists r, k, st, res, j, j3. do 9 (split; [assumption|]).
  assert (R3 : released (snd c3) h) by (exists j3; auto).
  split; [exact R3|]. apply released_not_tracked; auto.
Qed.

(* ---- unknown_result_ignored -------------------------------------------------------------- *)
Definition handle_R (wf : bool) (id : Z) (err : bool) (tag : Z) (pl : list Z) (p : pc) (s : sess) : Prop :=
  p = PH0 wf id err tag pl \/
  (p = PH1 id err tag pl /\ wf = true /\ 2 <= id) \/
  (exists h j, p = PH2 h err tag pl /\ wf = true /\ 2 <= id /\ getj s h = Some j /\ jid j = id) \/
  (exists r, p = PCS r) \/ (exists r, p = PDone r).

Lemma handle_thread : forall es (c c' : cfg) wf id err tag pl,
  Inv (snd c) -> run_from c (Spawn (OHandle wf id err tag pl) :: es) = Ok c' ->
  exists p, nth_error (fst c') (length (fst c)) = Some p /\ handle_R wf id err tag pl p (snd c').
Proof.
  intros es c c' wf id err tag pl I H. rewrite run_from_cons, exec_spawn in H. cbn [bind] in H.
  apply (thread_inv (handle_R wf id err tag pl)) with (es := es) (c := (fst c ++ [init_pc (OHandle wf id err tag pl)], snd c));
    [| |exact I|exists (PH0 wf id err tag pl); cbn [fst snd]; split; [apply nth_spawned|left; reflexivity]|exact H].
  - intros p s p' s' Is R S. unfold step in S.
    destruct (needs_lock p && is_held s); [inversion S; subst; exact R|].
    destruct R as [->|[[-> [W L]]|[[h [j [-> [W [L [G J]]]]]]|[[r ->]|[r ->]]]]].
    + cbn in S. destruct (negb wf || (id <? 2)) eqn:Q.
      * inversion S. right. right. right. right. eauto.
      * apply orb_false_elim in Q as [Q1 Q2]. apply negb_false_iff in Q1. apply Z.ltb_ge in Q2.
        destruct (is_nil (table s)); inversion S; subst; [right; right; right; right; eauto|].
        right. left. auto.
    + cbn in S. destruct (lookup id (table s)) as [h|] eqn:Lk; inversion S; subst.
      * destruct (inv_table _ Is _ _ Lk) as [j [G [J _]]]. right. right. left. exists h, j. auto.
      * right. right. right. right. eauto.
    + cbn in S. break_in S; inversion S; subst; [right; right; right; left; eauto|right; right; right; right; eauto..].
    + cbn in S. unfold bind in S. break_in S; try discriminate; inversion S; subst;
        [right; right; right; left; eauto|right; right; right; right; eauto..].
    + inversion S. right. right. right. right. eauto.
  - intros p s q s' Is R E. destruct R as [->|[[-> [W L]]|[[h [j [-> [W [L [G J]]]]]]|[[r ->]|[r ->]]]]].
    + left. reflexivity.
    + right. left. auto.
    + right. right. left. destruct (effect_mono _ _ _ _ _ E G) as [j' [G' [J' _]]].
      exists h, j'. repeat split; auto. congruence.
    + right. right. right. left. eauto.
    + right. right. right. right. eauto.
Qed.

(* every step of a result-arrival thread BEFORE it is inside its critical section either changes
   nothing, or: the packet was well formed, its number id is >= 2, the lock is free, the table
   holds a pending job h under id at that moment, and the step takes the lock to finish exactly
   that job with this packet *)
Lemma result_attribution : forall es (c c2 c3 : cfg) wf id err tag pl,
  Inv (snd c) -> run_from c (Spawn (OHandle wf id err tag pl) :: es) = Ok c2 ->
  (forall r, nth_error (fst c2) (length (fst c)) <> Some (PCS r)) ->
  exec step init_pc (Run (length (fst c))) c2 = Ok c3 ->
  snd c3 = snd c2 \/
  (wf = true /\ 2 <= id /\ held (snd c2) = None /\ exists h j,
     lookup id (table (snd c2)) = Some h /\ getj (snd c2) h = Some j /\ jdone j = Open /\
     snd c3 = set_held (snd c2) (Some (HRes h err tag pl))).
Proof.
  intros es c c2 c3 wf id err tag pl I H NCS X.
  assert (I2 : Inv (snd c2)) by (eapply run_from_inv; eauto).
  destruct (handle_thread _ _ _ _ _ _ _ _ I H) as [p [N R]].
  apply exec_run_cases in X as [[_ ->]|[q [q' [s' [N' [S ->]]]]]]; [left; reflexivity|].
  rewrite N in N'. inversion N'; subst q. cbn [snd].
  pose proof (step_effect _ _ _ _ S) as E.
  destruct R as [->|[[-> [W L]]|[[h [j [-> [W [L [G J]]]]]]|[[r ->]|[r ->]]]]];
    try (exfalso; eapply NCS; eauto; fail); inversion E; subst; auto; try discriminate.
  right. split; [auto|]. split; [auto|]. split; [assumption|].
  match goal with Hg : getj (snd c2) h = Some ?x, Hl : lookup (jid ?x) _ = Some h |- _ =>
    rewrite G in Hg; inversion Hg; subst x;
    destruct (inv_table _ I2 _ _ Hl) as [j2 [G2 [_ [D2 _]]]]; rewrite G in G2; inversion G2; subst j2;
    exists h, j; auto
  end.
Qed.

Lemma mem_false_lookup : forall i t, mem i t = false -> lookup i t = None.
Proof. intros i t H. unfold mem in H. destruct (lookup i t); [discriminate|reflexivity]. Qed.

Lemma unknown_result_ignored : forall es (c c2 c3 : cfg) wf id err tag pl,
  Inv (snd c) -> run_from c (Spawn (OHandle wf id err tag pl) :: es) = Ok c2 ->
  (forall r, nth_error (fst c2) (length (fst c)) <> Some (PCS r)) ->
  exec step init_pc (Run (length (fst c))) c2 = Ok c3 ->
  mem id (table (snd c2)) = false \/ wf = false \/ id < 2 ->
  snd c3 = snd c2.
Proof.
  intros es c c2 c3 wf id err tag pl I H NCS X Q.
  destruct (result_attribution _ _ _ _ _ _ _ _ _ I H NCS X) as [E|[W [L [_ [h [j [Lk _]]]]]]]; [exact E|].
  exfalso. destruct Q as [Q|[Q|Q]]; [|congruence|lia].
  apply mem_false_lookup in Q. congruence.
Qed.

(* a critical section only writes the job it was entered for and only removes that job's number *)
Lemma cs_only_own_job : forall c s s' h2,
  cs_step c s = Ok s' -> h2 <> cs_job c -> getj s' h2 = getj s h2.
Proof. exact cs_step_other. Qed.

(* ---- job numbers: Task ------------------------------------------------------------------- *)
Lemma task_alloc_fresh : forall draws full s i full' s',
  step (PTask0 0 draws full) s = Ok (PTask1 i full', s') ->
  1 < i < 65536 /\ mem i (table s) = false /\ s' = s.
Proof.
  intros draws full s i full' s' H. unfold step in H.
  destruct (needs_lock (PTask0 0 draws full) && is_held s); [discriminate|].
  change (step_free (PTask0 0 draws full) s) with
    (if new_job_id draws (table s) =? 0 then Ok (PDone (RErr E_NOID), s)
     else Ok (PTask1 (new_job_id draws (table s)) full, s)) in H.
  destruct (new_job_id draws (table s) =? 0) eqn:E; inversion H; subst s'.
  apply Z.eqb_neq in E. destruct (new_job_id_fresh draws (table s) _ eq_refl) as [Z0|[R M]]; [congruence|].
  subst i. auto.
Qed.

Lemma mem_lookup_none : forall i t, mem i t = false <-> lookup i t = None.
Proof. intros. unfold mem. destruct (lookup i t); split; congruence. Qed.

Definition WInv (c : cfg) : Prop :=
  (forall t p i, nth_error (fst c) t = Some p -> in_window p = Some i -> mem i (table (snd c)) = false) /\
  (forall h j, getj (snd c) h = Some j -> jorph j = false).

Lemma step_window : forall p s p' s' i,
  step p s = Ok (p', s') -> in_window p' = Some i ->
  s' = s /\ (in_window p = Some i \/ mem i (table s) = false).
Proof.
  intros p s p' s' i H W. unfold step in H.
  destruct (needs_lock p && is_held s); [inversion H; subst; auto|].
  destruct p; cbn [step_free step_common] in H; unfold bind in H;
    break_in H; try discriminate; inversion H; subst; cbn in W; try discriminate; inversion W; subst; auto.
Qed.

Lemma mem_remove : forall i k t, mem i t = false -> mem i (remove k t) = false.
Proof.
  intros i k t H. apply mem_lookup_none. apply mem_lookup_none in H. rewrite lookup_remove, H.
  destruct (i =? k); reflexivity.
Qed.

Lemma cs_step_table : forall c s s',
  cs_step c s = Ok s' -> table s' = table s \/ exists k, table s' = remove k (table s).
Proof.
  intros c s s' C. unfold cs_step in C. destruct (getj s (cs_job c)) as [j|].
  2:{ inversion C; subst. auto. }
  destruct c; try (inversion C; subst; cbn; eauto; fail).
  - destruct (jdone j); cbn in C; inversion C; subst; cbn; auto.
  - destruct (jdone j); cbn in C; inversion C; subst; cbn; auto.
Qed.

Lemma effect_winv_table : forall s p s' i,
  effect s p s' -> mem i (table s) = false -> in_window p <> Some i -> mem i (table s') = false.
Proof.
  intros s p s' i E M NW. destruct E; cbn [table setj set_table set_held]; auto using mem_remove.
  - apply mem_lookup_none. rewrite lookup_insert. destruct (id =? i) eqn:Q.
    + apply Z.eqb_eq in Q. subst. exfalso. apply NW. reflexivity.
    + apply mem_lookup_none. exact M.
  - destruct (cs_step_table _ _ _ H0) as [->|[k ->]]; auto using mem_remove.
Qed.

Lemma cs_step_orph : forall c s s' h j',
  cs_step c s = Ok s' -> getj s' h = Some j' -> exists j, getj s h = Some j /\ jorph j' = jorph j.
Proof.
  intros c s s' h j' C G'. destruct (getj s h) as [j|] eqn:G.
  - destruct (cs_step_mono _ _ _ _ _ C G) as [j2 [G2 [_ [O2 _]]]]. rewrite G' in G2. inversion G2; subst. eauto.
  - exfalso. destruct (Nat.eq_dec h (cs_job c)) as [->|NE].
    + unfold cs_step in C. rewrite G in C. inversion C; subst. rewrite getj_set_held in G'. congruence.
    + rewrite (cs_step_other _ _ _ _ C NE) in G'. congruence.
Qed.

Lemma effect_winv_orph : forall s p s',
  effect s p s' -> (forall i, in_window p = Some i -> mem i (table s) = false) ->
  (forall h j, getj s h = Some j -> jorph j = false) -> forall h j, getj s' h = Some j -> jorph j = false.
Proof.
  intros s p s' E W Or h2 j2 G. destruct E.
  - eauto.
  - apply getj_insert_inv in G as [[_ ->]|[j0 [G [[-> _]|[-> L]]]]]; eauto.
    specialize (W id eq_refl). apply mem_lookup_none in W. congruence.
  - rewrite getj_setj in G. destruct (Nat.eqb h h2).
    + rewrite H0 in G. inversion G; subst. rewrite H3. eauto.
    + eauto.
  - rewrite getj_set_held in G. eauto.
  - rewrite getj_set_held in G. eauto.
  - destruct (cs_step_orph _ _ _ _ _ H0 G) as [j [G0 ->]]. eauto.
Qed.

Lemma init_not_window : forall o, in_window (init_pc o) = None.
Proof. destruct o; reflexivity. Qed.

Lemma exec_winv : forall e (c c' : cfg),
  task_excl (fst c) -> WInv c -> exec step init_pc e c = Ok c' -> WInv c'.
Proof.
  intros e c c' TE [W Or] X. destruct e as [o|t].
  - inversion X; subst. split; cbn [fst snd]; [|exact Or]. intros t p i N Wi.
    destruct (Nat.lt_ge_cases t (length (fst c))) as [L|G].
    + rewrite nth_error_app1 in N by exact L. eapply W; eauto.
    + rewrite nth_error_app2 in N by exact G. destruct (t - length (fst c))%nat as [|k]; cbn in N.
      * inversion N; subst. rewrite init_not_window in Wi. discriminate.
      * destruct k; discriminate.
  - apply exec_run_cases in X as [[_ ->]|[p [p' [s' [N [S ->]]]]]]; [split; auto|].
    pose proof (step_effect _ _ _ _ S) as E.
    split; cbn [fst snd].
    + intros t2 p2 i N2 Wi. rewrite nth_upd in N2. destruct (Nat.eqb t t2) eqn:Q.
      * rewrite N in N2. inversion N2; subst p2.
        destruct (step_window _ _ _ _ _ S Wi) as [-> [Wp|M]]; [eapply W; eauto|exact M].
      * apply Nat.eqb_neq in Q.
        eapply effect_winv_table; [exact E|eapply W; eauto|intro Wp; apply Q; eapply TE; eauto].
    + eapply effect_winv_orph; eauto.
Qed.

Lemma WInv_0 : WInv cfg0.
Proof. split; [intros t p i N; destruct t; discriminate|intros h j G; destruct h; discriminate]. Qed.

Lemma serial_winv : forall es (c c' : cfg),
  WInv c -> tasks_serial c es -> run_from c es = Ok c' -> WInv c'.
Proof.
  induction es as [|e es IH]; intros c c' W TS H.
  - inversion H; subst; exact W.
  - destruct TS as [TE TS]. rewrite run_from_cons in H.
    destruct (exec step init_pc e c) as [c1| |] eqn:X; try discriminate.
    eapply IH; [|exact TS|exact H]. eapply exec_winv; eauto.
Qed.

Lemma serial_no_orphan : forall es c h,
  tasks_serial cfg0 es -> run es = Ok c -> ~ orphaned (snd c) h.
Proof.
  intros es c h TS H [j [G Or]].
  destruct (serial_winv es cfg0 c WInv_0 TS H) as [_ O]. rewrite (O _ _ G) in Or. discriminate.
Qed.

(* tracked <-> pending, except for the one job whose critical section has deleted it and is about
   to close it *)
Lemma serial_tracked_iff_pending : forall es c h,
  tasks_serial cfg0 es -> run es = Ok c -> in_progress (snd c) h = false ->
  (tracked (snd c) h <-> pending (snd c) h).
Proof.
  intros es c h TS H NP. pose proof (run_inv _ _ H) as I. split; [apply tracked_pending; exact I|].
  intros [j [G D]]. destruct (serial_winv es cfg0 c WInv_0 TS H) as [_ O].
  exists (jid j). destruct (inv_open _ I _ _ G D (O _ _ G)) as [L|[k [Hk [J _]]]]; [exact L|].
  exfalso. unfold in_progress in NP. rewrite Hk, J, Nat.eqb_refl in NP. discriminate.
Qed.

Lemma serial_insert_fresh : forall es c t id,
  tasks_serial cfg0 es -> run es = Ok c -> nth_error (fst c) t = Some (PTask3 id) ->
  mem id (table (snd c)) = false.
Proof.
  intros es c t id TS H N. destruct (serial_winv es cfg0 c WInv_0 TS H) as [W _].
  exact (W t (PTask3 id) id N eq_refl).
Qed.

Lemma serial_tracked : forall es c h,
  tasks_serial cfg0 es -> run es = Ok c ->
  ~ orphaned (snd c) h /\ (in_progress (snd c) h = false -> (tracked (snd c) h <-> pending (snd c) h)).
Proof. intros es c h TS H. split; [eapply serial_no_orphan|intro; eapply serial_tracked_iff_pending]; eauto. Qed.

Lemma tasks_serial_cons : forall e r (c : cfg),
  tasks_serial c (e :: r) =
  (task_excl (fst c) /\ match exec step init_pc e c with Ok c' => tasks_serial c' r | _ => True end).
Proof. reflexivity. Qed.

Lemma tasks_serial_prefix : forall es1 es2 (c c1 : cfg),
  tasks_serial c (es1 ++ es2) -> run_from c es1 = Ok c1 -> task_excl (fst c1).
Proof.
  induction es1 as [|e es1 IH]; intros es2 c c1 TS H.
  - inversion H; subst. destruct es2; [exact (proj1 TS)|rewrite app_nil_l, tasks_serial_cons in TS; exact (proj1 TS)].
  - rewrite <- app_comm_cons, tasks_serial_cons in TS. destruct TS as [_ TS].
    rewrite run_from_cons in H. destruct (exec step init_pc e c) as [c2| |]; try discriminate.
    eapply IH; eauto.
Qed.

(* ---- the sequential semantics of the correspondence run is a special case of the histories - *)
Lemma run_solo_done : forall f r s, run_solo f (PDone r) s = Ok (r, s).
Proof. destruct f; reflexivity. Qed.

Lemma run_solo_S : forall f p s, (forall r, p <> PDone r) ->
  run_solo (S f) p s = do '(p', s') <- step p s; run_solo f p' s'.
Proof. intros f p s H. destruct p; try reflexivity. exfalso. eapply H; eauto. Qed.

Lemma run_solo_O : forall p s, (forall r, p <> PDone r) -> run_solo O p s = Ok (RBlocked, s).
Proof. intros p s H. destruct p; try reflexivity. exfalso. eapply H; eauto. Qed.

Lemma step_done : forall r s, step (PDone r) s = Ok (PDone r, s).
Proof. reflexivity. Qed.

Lemma stutter_done : forall n (ps : list pc) t r s,
  nth_error ps t = Some (PDone r) -> run_from (ps, s) (repeat (Run t) n) = Ok (ps, s).
Proof.
  induction n as [|n IH]; intros ps t r s N; [reflexivity|].
  cbn [repeat]. rewrite run_from_cons. unfold exec. cbn [fst snd]. rewrite N, step_done. cbn.
  rewrite (upd_same _ _ _ N). eapply IH; eauto.
Qed.

Lemma run_solo_sched : forall n p s r s' (ps : list pc) t,
  nth_error ps t = Some p -> run_solo n p s = Ok (r, s') ->
  exists p', run_from (ps, s) (repeat (Run t) n) = Ok (upd ps t p', s') /\ (p' = PDone r \/ r = RBlocked).
Proof.
  induction n as [|n IH]; intros p s r s' ps t N H.
  - assert (D : (exists r0, p = PDone r0) \/ (forall r0, p <> PDone r0)) by (destruct p; eauto; right; discriminate).
    destruct D as [[r0 ->]|D].
    + inversion H; subst. exists (PDone r). rewrite (upd_same _ _ _ N). auto.
    + rewrite run_solo_O in H by exact D. inversion H; subst. exists p. rewrite (upd_same _ _ _ N). auto.
  - assert (D : (exists r0, p = PDone r0) \/ (forall r0, p <> PDone r0)) by (destruct p; eauto; right; discriminate).
    destruct D as [[r0 ->]|D].
    + rewrite run_solo_done in H. inversion H; subst. exists (PDone r).
      rewrite (upd_same _ _ _ N). split; [|auto]. eapply stutter_done; eauto.
    + rewrite run_solo_S in H by exact D. unfold bind in H.
      destruct (step p s) as [[p1 s1]| |] eqn:S; try discriminate.
      destruct (IH p1 s1 r s' (upd ps t p1) t (nth_upd_same _ _ _ _ N) H) as [p' [R Q]].
      exists p'. split; [|exact Q]. cbn [repeat]. rewrite run_from_cons. unfold exec. cbn [fst snd].
      rewrite N, S. cbn. rewrite R, upd_upd. reflexivity.
Qed.

Lemma upd_app_last : forall {A} (l : list A) x y, upd (l ++ [x]) (length l) y = l ++ [y].
Proof. induction l; intros; cbn; [reflexivity|]. f_equal. apply IHl. Qed.

Lemma apply_op_unfold : forall o s, apply_op o s = run_solo 16 (init_pc o) s.
Proof. intros. unfold apply_op. reflexivity. Qed.

Lemma spawn_then : forall o rs (ps : list pc) s,
  run_from (ps, s) (Spawn o :: rs) = run_from (ps ++ [init_pc o], s) rs.
Proof. reflexivity. Qed.

Lemma solo_sched_gen : forall n o s r s' (ps : list pc),
  run_solo n (init_pc o) s = Ok (r, s') ->
  exists p', run_from (ps, s) (Spawn o :: repeat (Run (length ps)) n) = Ok (ps ++ [p'], s') /\
             (p' = PDone r \/ r = RBlocked).
Proof.
  intros n o s r s' ps H.
  destruct (run_solo_sched n (init_pc o) s r s' (ps ++ [init_pc o]) (length ps) (nth_spawned _ _) H) as [p' [R Q]].
  exists p'. split; [|exact Q]. rewrite spawn_then, R, upd_app_last. reflexivity.
Qed.

Lemma solo_is_schedule : forall o s r s' (ps : list pc),
  apply_op o s = Ok (r, s') ->
  exists p', run_from (ps, s) (Spawn o :: repeat (Run (length ps)) 16) = Ok (ps ++ [p'], s') /\
             (p' = PDone r \/ r = RBlocked).
Proof. intros o s r s' ps H. rewrite apply_op_unfold in H. exact (solo_sched_gen 16 o s r s' ps H). Qed.

(* ---- witnesses (vm_compute) ------------------------------------------------------------------ *)
Definition R (t : nat) (k : nat) : hist := repeat (Run t) k.

(* concurrent Task calls with one number (the recorded finding) *)
Definition race_pre : hist :=
  [Spawn (OTask 7 [] false); Spawn (OTask 7 [] false);
   Run 0%nat; Run 0%nat; Run 0%nat; Run 1%nat; Run 1%nat; Run 1%nat].
Definition race_post : hist :=
  [Run 0%nat; Run 1%nat; Spawn (OHandle true 7 false 1 [0])] ++ R 2 9 ++
  [Spawn (OWait 0%nat); Run 3%nat; Run 3%nat; Run 3%nat].
Definition race_hist : hist := race_pre ++ race_post.

Lemma race_pre_result : run race_pre = Ok ([PTask3 7; PTask3 7], s0).
Proof. vm_compute. reflexivity. Qed.

Lemma task_id_race_refuted :
  exists es c, run es = Ok c /\ ~ tasks_serial cfg0 es /\
    orphaned (snd c) 0%nat /\ pending (snd c) 0%nat /\ ~ tracked (snd c) 0%nat /\
    finished (snd c) 1%nat /\ nth_error (fst c) 3%nat = Some (PW1 0%nat).
Proof.
  exists race_hist. eexists. split; [vm_compute; reflexivity|]. cbn [fst snd].
  split; [|split; [|split; [|split; [|split]]]].
  - intro TS. pose proof (tasks_serial_prefix _ _ _ _ TS race_pre_result) as X.
    specialize (X 0%nat 1%nat (PTask3 7) (PTask3 7) 7 eq_refl eq_refl eq_refl eq_refl). discriminate.
  - eexists. split; reflexivity.
  - eexists. split; reflexivity.
  - intros [k L]. cbn in L. discriminate.
  - eexists. split; reflexivity.
  - reflexivity.
Qed.

(* the pinned code fails the same statements (regression witnesses) *)
Lemma pinned_cancel_status_refuted :
  exists es c j, pinned_run es = Ok c /\ getj (snd c) 0%nat = Some j /\
                 jdone j = Nil /\ jstatus j = StWaiting.
Proof.
  exists [Spawn (OTask 7 [] false); Run 0%nat; Run 0%nat; Run 0%nat; Run 0%nat;
          Spawn (OCancel 0%nat); Run 1%nat; Run 1%nat; Run 1%nat].
  eexists. eexists. split; [vm_compute; reflexivity|]. split; [reflexivity|]. split; reflexivity.
Qed.

Lemma pinned_double_close_refuted : exists es, pinned_run es = Panic.
Proof.
  exists [Spawn (OTask 7 [] false); Run 0%nat; Run 0%nat; Run 0%nat; Run 0%nat;
          Spawn (OHandle true 7 false 1 []); Spawn (OCancel 0%nat);
          Run 1%nat; Run 1%nat; Run 1%nat; Run 1%nat; Run 1%nat;
          Run 2%nat; Run 2%nat; Run 2%nat; Run 2%nat; Run 1%nat].
  vm_compute. reflexivity.
Qed.

(* non-vacuity: result || Cancel || Cancel on the current code, the first Cancel wins *)
Definition race3_hist : hist :=
  Spawn (OTask 7 [] false) :: R 0 4 ++
  [Spawn (OHandle true 7 false 1 [0]); Spawn (OCancel 0%nat); Spawn (OCancel 0%nat);
   Run 1%nat; Run 2%nat; Run 3%nat; Run 1%nat] ++ R 2 5 ++ [Run 1%nat; Run 3%nat].

Lemma race3_result :
  run race3_hist =
  Ok ([PDone (RJob 0%nat); PDone (RBool false); PDone RUnit; PDone RUnit],
      mkSess [mkJob 7 StCanceled Nil 0 false 0 false] [] None).
Proof. vm_compute. reflexivity. Qed.

(* the same three threads, the (error, text "boom") result first *)
Definition race3b_hist : hist :=
  Spawn (OTask 7 [] false) :: R 0 4 ++
  [Spawn (OHandle true 7 true 1 [1;4;98;111;111;109]); Spawn (OCancel 0%nat); Spawn (OCancel 0%nat);
   Run 1%nat; Run 2%nat; Run 3%nat; Run 1%nat] ++ R 1 8 ++ [Run 2%nat; Run 3%nat].

Lemma race3b_result :
  run race3b_hist =
  Ok ([PDone (RJob 0%nat); PDone (RBool true); PDone RUnit; PDone RUnit],
      mkSess [mkJob 7 StError Nil 1 true 0 false] [] None).
Proof. vm_compute. reflexivity. Qed.

(* an error-flagged result with EMPTY text, an IsDone reader that looks between close(done) and
   done = nil, and a Cancel that waits for the lock: the reader is told "done" while the result
   thread is still inside its critical section, and what it can see is already final
   (Status error although Error is empty) *)
Definition reader_hist : hist :=
  Spawn (OTask 7 [] false) :: R 0 4 ++
  [Spawn (OHandle true 7 true 1 [0]); Spawn (OIsDone 0%nat); Spawn (OCancel 0%nat)] ++ R 1 3 ++
  [Run 3%nat; Run 3%nat; Run 3%nat] ++ R 1 6 ++ [Run 2%nat; Run 2%nat].

Lemma reader_result :
  run reader_hist =
  Ok ([PDone (RJob 0%nat); PCS (RBool true); PDone (RBool true); PC1 0%nat],
      mkSess [mkJob 7 StError Closed 1 false 0 false] [] (Some (HNil 0%nat))).
Proof. vm_compute. reflexivity. Qed.

(* outside the quantifier of the property: accept / frag write Job.Status without the lock *)
Lemma accept_overwrites_final_status :
  exists es c j, run es = Ok c /\ getj (snd c) 0%nat = Some j /\ jdone j = Nil /\ jstatus j = StAccepted.
Proof.
  exists (Spawn (OTask 7 [] false) :: R 0 4 ++ [Spawn (OAccept 7); Run 1%nat; Run 1%nat;
          Spawn (OHandle true 7 false 1 [0])] ++ R 2 9 ++ [Run 1%nat]).
  eexists. eexists. split; [vm_compute; reflexivity|]. split; [reflexivity|]. split; reflexivity.
Qed.

(* error-flagged results: the text is empty exactly for a payload that starts with the class byte 0
   (WriteString(""), the single zero byte Session.write emits); every other shape, the truncated
   ones included, leaves a non-empty Error; the Status does not depend on it *)
Lemma err_nonempty_shapes :
  err_nonempty [0] = false /\ err_nonempty [0; 9; 9] = false /\ err_nonempty [] = true /\
  err_nonempty [1] = true /\ err_nonempty [1; 4; 98] = true /\ err_nonempty [1; 0] = true /\
  err_nonempty [1; 4; 98; 111; 111; 109] = true /\ err_nonempty [3; 0] = true /\ err_nonempty [200] = true.
Proof. vm_compute. repeat split; reflexivity. Qed.

(* ---- the statements of Props/C14.v, assembled ------------------------------------------------ *)
Lemma waiters_released : forall es c h j,
  run es = Ok c -> held (snd c) = None -> getj (snd c) h = Some j -> jorph j = false -> ~ tracked (snd c) h ->
  finished (snd c) h.
Proof. intros es c h j H Hn G Or NT. eapply untracked_finished; eauto. eapply run_inv; eauto. Qed.

Lemma waiter_returns : forall es c h t p,
  run es = Ok c -> released (snd c) h -> nth_error (fst c) t = Some p -> p = PW0 h \/ p = PW1 h ->
  exec step init_pc (Run t) c = Ok (upd (fst c) t (PDone RUnit), snd c) \/
  (exec step init_pc (Run t) c = Ok (upd (fst c) t (PW1 h), snd c) /\
   exec step init_pc (Run t) (upd (fst c) t (PW1 h), snd c) = Ok (upd (fst c) t (PDone RUnit), snd c)).
Proof.
  intros es c h t p H Rl N P. destruct (wait_step_released _ _ Rl) as [S1 S0].
  unfold exec. rewrite N. destruct P as [->| ->].
  - destruct S0 as [S0|S0]; rewrite S0; cbn; [left; reflexivity|right]. split; [reflexivity|].
    cbn [fst snd]. rewrite (nth_upd_same _ _ _ _ N), S1. cbn. rewrite upd_upd. reflexivity.
  - rewrite S1. left. reflexivity.
Qed.

Lemma wait_returns_only_released : forall es1 es2 c1 c2 h r,
  run es1 = Ok c1 -> (h < length (jobs (snd c1)))%nat ->
  run_from c1 (Spawn (OWait h) :: es2) = Ok c2 ->
  nth_error (fst c2) (length (fst c1)) = Some (PDone r) -> released (snd c2) h.
Proof. intros es1 es2 c1 c2 h r H. eapply wait_not_early. eapply run_inv; eauto. Qed.

Lemma isdone_true_only_released : forall es1 es2 c1 c2 h,
  run es1 = Ok c1 -> (h < length (jobs (snd c1)))%nat ->
  run_from c1 (Spawn (OIsDone h) :: es2) = Ok c2 ->
  nth_error (fst c2) (length (fst c1)) = Some (PDone (RBool true)) -> released (snd c2) h.
Proof. intros es1 es2 c1 c2 h H. eapply isdone_true_released. eapply run_inv; eauto. Qed.

Lemma cancel_returns_finished : forall es1 es2 c1 c2 h r,
  run es1 = Ok c1 -> (h < length (jobs (snd c1)))%nat ->
  run_from c1 (Spawn (OCancel h) :: es2) = Ok c2 ->
  nth_error (fst c2) (length (fst c1)) = Some (PDone r) ->
  finished (snd c2) h /\ ~ tracked (snd c2) h.
Proof. intros es1 es2 c1 c2 h r H. eapply cancel_completes. eapply run_inv; eauto. Qed.

Lemma leaves_table : forall es c h,
  run es = Ok c -> (released (snd c) h -> ~ tracked (snd c) h) /\ (tracked (snd c) h -> pending (snd c) h).
Proof.
  intros es c h H. pose proof (run_inv _ _ H) as I. split.
  - apply released_not_tracked; auto.
  - apply tracked_pending; auto.
Qed.

Lemma released_forever : forall es1 es2 c1 c2 h,
  run es1 = Ok c1 -> run_from c1 es2 = Ok c2 -> released (snd c1) h -> released (snd c2) h.
Proof. intros. eapply released_stable; eauto. eapply run_inv; eauto. Qed.

(* released implies final: from the moment anybody can observe done closed *)
Lemma released_implies_final : forall es1 es2 c1 c2 h j,
  forallb c14_ev (es1 ++ es2) = true -> run es1 = Ok c1 -> run_from c1 es2 = Ok c2 ->
  getj (snd c1) h = Some j -> jdone j <> Open ->
  final (jstatus j) /\
  exists j', getj (snd c2) h = Some j' /\ outcome j' = outcome j /\ jdone j' <> Open.
Proof.
  intros es1 es2 c1 c2 h j F H1 H2 G D. apply forallb_app_inv in F as [F1 F2].
  pose proof (run_inv _ _ H1) as I1. pose proof (run_cinv _ _ F1 H1) as C1.
  split; [destruct C1 as [St _]; destruct (St _ _ G) as [_ [B _]]; auto|].
  destruct (released_final es2 c1 c2 h j F2 I1 C1 H2 G D) as [j' [G' [O' [_ D']]]]. eauto.
Qed.

Lemma result_attribution_run : forall es1 es2 c1 c2 c3 wf id err tag pl,
  run es1 = Ok c1 -> run_from c1 (Spawn (OHandle wf id err tag pl) :: es2) = Ok c2 ->
  (forall r, nth_error (fst c2) (length (fst c1)) <> Some (PCS r)) ->
  exec step init_pc (Run (length (fst c1))) c2 = Ok c3 ->
  snd c3 = snd c2 \/
  (wf = true /\ 2 <= id /\ held (snd c2) = None /\ exists h j,
     lookup id (table (snd c2)) = Some h /\ getj (snd c2) h = Some j /\ jdone j = Open /\
     snd c3 = set_held (snd c2) (Some (HRes h err tag pl))).
Proof. intros es1 es2 c1 c2 c3 wf id err tag pl H. apply result_attribution. eapply run_inv; eauto. Qed.

Lemma unknown_result_ignored_run : forall es1 es2 c1 c2 c3 wf id err tag pl,
  run es1 = Ok c1 -> run_from c1 (Spawn (OHandle wf id err tag pl) :: es2) = Ok c2 ->
  (forall r, nth_error (fst c2) (length (fst c1)) <> Some (PCS r)) ->
  exec step init_pc (Run (length (fst c1))) c2 = Ok c3 ->
  mem id (table (snd c2)) = false \/ wf = false \/ id < 2 ->
  snd c3 = snd c2.
Proof. intros es1 es2 c1 c2 c3 wf id err tag pl H. apply unknown_result_ignored. eapply run_inv; eauto. Qed.

(* the critical section entered for job h writes job h only *)
Lemma cs_writes_own_job : forall es c t r k c' h2,
  run es = Ok c -> nth_error (fst c) t = Some (PCS r) -> held (snd c) = Some k ->
  exec step init_pc (Run t) c = Ok c' -> h2 <> cs_job k -> getj (snd c') h2 = getj (snd c) h2.
Proof.
  intros es c t r k c' h2 H N Hd X NE.
  apply exec_run_cases in X as [[_ ->]|[q [q' [s' [N' [S ->]]]]]]; [reflexivity|].
  rewrite N in N'. inversion N'; subst q. cbn [snd].
  rewrite step_unlocked in S by reflexivity. cbn in S. rewrite Hd in S. unfold bind in S.
  destruct (cs_step k (snd c)) as [s1| |] eqn:C; try discriminate. inversion S; subst.
  eapply cs_step_other; eauto.
Qed.

(* Cancel of a job that is not the table's entry for its number (it was displaced by an overlapping
   Task, or is already out of the table) leaves the table as it is: the identity check *)
Lemma cs_step_table_eq : forall c s s',
  cs_step c s = Ok s' -> (forall h e t, c <> HDel h e t) -> (forall h, c <> CDel h) -> table s' = table s.
Proof.
  intros c s s' C N1 N2. unfold cs_step in C. destruct (getj s (cs_job c)) as [j|].
  2:{ inversion C; subst. reflexivity. }
  destruct c; try (inversion C; subst; reflexivity).
  - exfalso. eapply N1; reflexivity.
  - destruct (jdone j); cbn in C; inversion C; subst; reflexivity.
  - exfalso. eapply N2; reflexivity.
  - destruct (jdone j); cbn in C; inversion C; subst; reflexivity.
Qed.

Lemma cancel_displaced_keeps_table : forall s h j s1 s2 s3,
  getj s h = Some j -> lookup (jid j) (table s) <> Some h ->
  cs_step (CSt h) s = Ok s1 -> cs_step (CClose h) s1 = Ok s2 -> cs_step (CStNil h) s2 = Ok s3 ->
  held s1 = Some (CClose h) /\ table s3 = table s.
Proof.
  intros s h j s1 s2 s3 G L C1 C2 C3.
  assert (T1 : table s1 = table s) by (eapply cs_step_table_eq; eauto; discriminate).
  assert (T2 : table s2 = table s1) by (eapply cs_step_table_eq; eauto; discriminate).
  assert (T3 : table s3 = table s2) by (eapply cs_step_table_eq; eauto; discriminate).
  split; [|congruence].
  unfold cs_step in C1. cbn [cs_job] in C1. rewrite G in C1. inversion C1; subst. cbn.
  destruct (lookup (jid j) (table s)) as [h'|]; [|reflexivity].
  destruct (Nat.eqb h' h) eqn:E; [|reflexivity]. apply Nat.eqb_eq in E. congruence.
Qed.
