(* Proofs/Wrappers.v -- C07: round trips of hex, base64, the B64 shift transform, CFB over any
   block function (hence XOR), and of every stack of lossless wrappers. *)
From XMT Require Import Base.Prelude Model.Cbk Model.Dns Model.Wrappers.
From Coq Require Import ZifyBool.
Ltac Zify.zify_post_hook ::= Z.div_mod_to_equations.

Definition byte (b : Z) : Prop := 0 <= b < 256.
Definition bytes (l : list Z) : Prop := Forall byte l.

Lemma bytes_nil : bytes []. Proof. constructor. Qed.
Lemma bytes_cons b l : byte b -> bytes l -> bytes (b :: l). Proof. constructor; auto. Qed.
Lemma bytes_app a b : bytes a -> bytes b -> bytes (a ++ b).
Proof. intros; apply Forall_app; auto. Qed.
Lemma bytes_inv b l : bytes (b :: l) -> byte b /\ bytes l.
Proof. intros H; inversion H; auto. Qed.

(* ---- a wrapper is lossless when, on byte lists, it produces bytes and decodes to the input ---- *)
Definition lossless (w : wrapper) : Prop :=
  forall x, bytes x -> bytes (w_enc w x) /\ w_dec w (w_enc w x) = Ok x.

Lemma unwrap_stack_app ws1 ws2 y :
  unwrap_stack (ws1 ++ ws2) y = do a <- unwrap_stack ws2 y; unwrap_stack ws1 a.
Proof.
  unfold unwrap_stack. rewrite fold_right_app.
  generalize (fold_right (fun w acc => do a <- acc; w_dec w a) (Ok y) ws2) as r.
  induction ws1 as [|w ws1 IH]; intros r; cbn [fold_right].
  - destruct r; reflexivity.
  - rewrite IH. destruct r; cbn [bind]; reflexivity.
Qed.

(* the stack, for ALL stacks: induction on the list, in the order MultiWrapper composes *)
Theorem stack_roundtrip :
  forall ws, Forall lossless ws ->
  forall x, bytes x -> bytes (wrap_stack ws x) /\ unwrap_stack ws (wrap_stack ws x) = Ok x.
Proof.
  induction ws as [|w ws IH]; intros HL x Hx.
  - split; [exact Hx | reflexivity].
  - inversion HL as [|? ? Hw Hws]; subst.
    destruct (Hw x Hx) as [Hb Hd].
    destruct (IH Hws (w_enc w x) Hb) as [Hb' Hd'].
    unfold wrap_stack in *. cbn [fold_left]. split; [exact Hb'|].
    unfold unwrap_stack in *. cbn [fold_right]. rewrite Hd'. cbn [bind]. exact Hd.
Qed.

(* ---- hex ----------------------------------------------------------------------------------- *)
Lemma unhex_hexdigit n : 0 <= n < 16 -> unhex (hexdigit n) = Some n.
Proof.
  intros H. unfold unhex, hexdigit.
  destruct (n <? 10) eqn:E.
  - replace ((48 <=? 48 + n) && (48 + n <=? 57)) with true by lia. f_equal; lia.
  - replace ((48 <=? 87 + n) && (87 + n <=? 57)) with false by lia.
    replace ((97 <=? 87 + n) && (87 + n <=? 102)) with true by lia. f_equal; lia.
Qed.
Lemma hexdigit_byte n : 0 <= n < 16 -> byte (hexdigit n).
Proof. unfold hexdigit, byte. intros. destruct (n <? 10); lia. Qed.

Theorem hex_roundtrip : forall x, bytes x -> bytes (hex_enc x) /\ hex_dec (hex_enc x) = Ok x.
Proof.
  induction x as [|b r IH]; intros H.
  - split; [constructor | reflexivity].
  - apply bytes_inv in H. destruct H as [Hb Hr]. destruct (IH Hr) as [IHb IHd]. unfold byte in Hb.
    cbn [hex_enc]. split.
    + apply bytes_cons; [apply hexdigit_byte; lia|]. apply bytes_cons; [apply hexdigit_byte; lia | exact IHb].
    + cbn [hex_dec]. rewrite !unhex_hexdigit by lia. rewrite IHd. cbn [bind]. f_equal. f_equal. lia.
Qed.

(* ---- base64 -------------------------------------------------------------------------------- *)
Lemma b64val_char n : 0 <= n < 64 -> b64val (b64char n) = Some n.
Proof.
  intros H. unfold b64val, b64char.
  destruct (n <? 26) eqn:E1.
  { replace ((65 <=? 65 + n) && (65 + n <=? 90)) with true by lia. f_equal; lia. }
  destruct (n <? 52) eqn:E2.
  { replace ((65 <=? 71 + n) && (71 + n <=? 90)) with false by lia.
    replace ((97 <=? 71 + n) && (71 + n <=? 122)) with true by lia. f_equal; lia. }
  destruct (n <? 62) eqn:E3.
  { replace ((65 <=? n - 4) && (n - 4 <=? 90)) with false by lia.
    replace ((97 <=? n - 4) && (n - 4 <=? 122)) with false by lia.
    replace ((48 <=? n - 4) && (n - 4 <=? 57)) with true by lia. f_equal; lia. }
  destruct (n =? 62) eqn:E4.
  { assert (n = 62) by lia. subst. reflexivity. }
  assert (n = 63) by lia. subst. reflexivity.
Qed.
Lemma b64char_byte n : 0 <= n < 64 -> byte (b64char n).
Proof.
  unfold b64char, byte. intros.
  destruct (n <? 26) eqn:?; [lia|]. destruct (n <? 52) eqn:?; [lia|]. destruct (n <? 62) eqn:?; [lia|]. destruct (n =? 62); lia.
Qed.
Lemma b64char_not_pad n : 0 <= n < 64 -> (b64char n =? PAD) = false.
Proof.
  unfold b64char, PAD. intros.
  destruct (n <? 26) eqn:?; [lia|]. destruct (n <? 52) eqn:?; [lia|]. destruct (n <? 62) eqn:?; [lia|].
  destruct (n =? 62); lia.
Qed.

Lemma b64_roundtrip_len :
  forall n x, (length x <= n)%nat -> bytes x -> bytes (b64_enc x) /\ b64_dec (b64_enc x) = Ok x.
Proof.
  induction n as [|n IH]; intros x Hl Hx.
  { destruct x; [split; [constructor|reflexivity] | cbn in Hl; lia]. }
  destruct x as [|a [|b [|c r]]].
  - split; [constructor | reflexivity].
  - apply bytes_inv in Hx. destruct Hx as [Ha _]. unfold byte in Ha.
    cbn [b64_enc]. split.
    + repeat apply bytes_cons; try (apply b64char_byte; lia); try (unfold byte, PAD; lia). constructor.
    + cbn [b64_dec]. rewrite !b64val_char by lia.
      replace (PAD =? PAD) with true by reflexivity. cbn [is_nil negb]. f_equal. f_equal. lia.
  - apply bytes_inv in Hx. destruct Hx as [Ha Hx]. apply bytes_inv in Hx. destruct Hx as [Hb _].
    unfold byte in Ha, Hb.
    cbn [b64_enc]. split.
    + repeat apply bytes_cons; try (apply b64char_byte; lia); try (unfold byte, PAD; lia). constructor.
    + cbn [b64_dec]. rewrite !b64val_char by lia.
      replace (PAD =? PAD) with true by reflexivity. cbn [is_nil negb].
      rewrite b64char_not_pad by lia. f_equal. f_equal; [lia|]. f_equal. lia.
  - apply bytes_inv in Hx. destruct Hx as [Ha Hx]. apply bytes_inv in Hx. destruct Hx as [Hb Hx].
    apply bytes_inv in Hx. destruct Hx as [Hc Hr]. unfold byte in Ha, Hb, Hc.
    assert (Hlr : (length r <= n)%nat) by (cbn in Hl; lia).
    destruct (IH r Hlr Hr) as [IHb IHd].
    cbn [b64_enc]. split.
    + repeat apply bytes_cons; try (apply b64char_byte; lia). exact IHb.
    + cbn [b64_dec]. rewrite !b64val_char by lia.
      rewrite (b64char_not_pad (c mod 64)) by lia. rewrite IHd. cbn [bind].
      f_equal. f_equal; [lia|]. f_equal; [lia|]. f_equal. lia.
Qed.

Theorem b64_roundtrip : forall x, bytes x -> bytes (b64_enc x) /\ b64_dec (b64_enc x) = Ok x.
Proof. intros x. apply (b64_roundtrip_len (length x)). lia. Qed.

(* the B64 transform with ANY shift byte *)
Theorem b64shift_roundtrip :
  forall shift x, bytes x -> bytes (b64t_enc shift x) /\ b64t_dec shift (b64t_enc shift x) = Ok x.
Proof.
  intros shift x Hx. unfold b64t_enc, b64t_dec.
  assert (Hm : bytes (map (fun b => (b + shift) mod 256) x)).
  { apply Forall_forall. intros y Hy. apply in_map_iff in Hy. destruct Hy as [b [<- _]]. unfold byte. lia. }
  destruct (b64_roundtrip _ Hm) as [Hb Hd]. split; [exact Hb|].
  rewrite Hd. cbn [bind]. f_equal. rewrite map_map.
  rewrite <- (map_id x) at 2. apply map_ext_in. intros b Hb'.
  unfold bytes in Hx. rewrite Forall_forall in Hx. specialize (Hx b Hb'). unfold byte in Hx. lia.
Qed.

(* ---- CFB ------------------------------------------------------------------------------------ *)
Lemma xorl_xorl a : forall k, xorl (xorl a k) k = a.
Proof.
  induction a as [|x a IH]; intros k; cbn [xorl]; [reflexivity|].
  rewrite IH. f_equal. rewrite Z.lxor_assoc, Z.lxor_nilpotent, Z.lxor_0_r. reflexivity.
Qed.
Lemma xorl_length a : forall k, length (xorl a k) = length a.
Proof. induction a; intros; cbn [xorl length]; auto. Qed.

Lemma firstn_app_exact {A} (a b : list A) n : length a = n -> firstn n (a ++ b) = a.
Proof. intros <-. rewrite firstn_app, Nat.sub_diag, firstn_all. cbn. apply app_nil_r. Qed.
Lemma skipn_app_exact {A} (a b : list A) n : length a = n -> skipn n (a ++ b) = b.
Proof. intros <-. rewrite skipn_app, Nat.sub_diag, skipn_all. reflexivity. Qed.

Lemma cfb_roundtrip_f (E : list Z -> list Z) (n : nat) :
  (0 < n)%nat ->
  forall fuel x next fuel', (length x <= fuel)%nat -> (length x <= fuel')%nat ->
  cfb_dec_f fuel' E n next (cfb_enc_f fuel E n next x) = x.
Proof.
  intros Hn. induction fuel as [|fuel IH]; intros x next fuel' Hf Hf'.
  { destruct x; [|cbn in Hf; lia]. destruct fuel'; reflexivity. }
  destruct x as [|b r] eqn:Ex.
  { cbn [cfb_enc_f]. destruct fuel'; reflexivity. }
  rewrite <- Ex in *. assert (Hx : x <> []) by (subst; discriminate).
  cbn [cfb_enc_f]. destruct x as [|b0 r0] eqn:Ex0; [congruence|]. rewrite <- Ex0 in *.
  set (c := xorl (firstn n x) (E next)).
  assert (Hc : length c = length (firstn n x)) by apply xorl_length.
  assert (Hcn : c <> []).
  { intros Hnil. rewrite Hnil in Hc. cbn in Hc. rewrite firstn_length in Hc.
    assert (length x > 0)%nat by (subst x; cbn; lia). lia. }
  destruct fuel' as [|fuel'].
  { assert (length x > 0)%nat by (rewrite Ex0; cbn; lia). lia. }
  cbn [cfb_dec_f].
  destruct (c ++ cfb_enc_f fuel E n c (skipn n x)) as [|w0 wr] eqn:Ew.
  { destruct c; [congruence | discriminate]. }
  rewrite <- Ew. clear Ew w0 wr.
  assert (Hlen : (length (firstn n x) <= n)%nat) by apply firstn_le_length.
  destruct (Nat.le_gt_cases n (length x)) as [Hge|Hlt].
  - (* a full block *)
    assert (Hcl : length c = n) by (rewrite Hc, firstn_length; lia).
    rewrite (firstn_app_exact c _ n Hcl), (skipn_app_exact c _ n Hcl).
    unfold c at 1. rewrite xorl_xorl.
    rewrite IH.
    + apply firstn_skipn.
    + rewrite skipn_length. lia.
    + rewrite skipn_length. lia.
  - (* the last, partial block: nothing follows *)
    assert (Hs : skipn n x = []) by (apply skipn_all2; lia).
    rewrite Hs. assert (He : cfb_enc_f fuel E n c [] = []) by (destruct fuel; reflexivity).
    rewrite He, app_nil_r.
    assert (Hfx : firstn n x = x) by (apply firstn_all2; lia).
    assert (Hcl : (length c <= n)%nat) by lia.
    rewrite (firstn_all2 c) by lia. rewrite (skipn_all2 c) by lia.
    assert (Hd : cfb_dec_f fuel' E n c [] = []) by (destruct fuel'; reflexivity).
    rewrite Hd, app_nil_r. unfold c. rewrite xorl_xorl. exact Hfx.
Qed.

Lemma cfb_enc_f_length (E : list Z -> list Z) (n : nat) :
  (0 < n)%nat -> forall fuel x next, (length x <= fuel)%nat -> length (cfb_enc_f fuel E n next x) = length x.
Proof.
  intros Hn. induction fuel as [|fuel IH]; intros x next Hf.
  { destruct x; [reflexivity | cbn in Hf; lia]. }
  destruct x as [|b r] eqn:Ex; [reflexivity|]. rewrite <- Ex in *.
  cbn [cfb_enc_f]. destruct x as [|b0 r0] eqn:Ex0; [congruence|]. rewrite <- Ex0 in *.
  rewrite app_length, xorl_length, IH.
  - rewrite <- app_length, firstn_skipn. reflexivity.
  - rewrite skipn_length. assert (length x > 0)%nat by (rewrite Ex0; cbn; lia). lia.
Qed.

(* for EVERY block function E, every non-empty IV, every payload length (partial last block included) *)
Theorem cfb_roundtrip :
  forall (E : list Z -> list Z) iv x, iv <> [] -> cfb_dec E iv (cfb_enc E iv x) = x.
Proof.
  intros E iv x Hiv. unfold cfb_dec, cfb_enc.
  assert (Hn : (0 < length iv)%nat) by (destruct iv; [congruence | cbn; lia]).
  apply cfb_roundtrip_f; [exact Hn | lia |].
  rewrite cfb_enc_f_length; [lia | exact Hn | lia].
Qed.

Lemma lxor_byte a b : byte a -> byte b -> byte (Z.lxor a b).
Proof.
  unfold byte. intros Ha Hb. split.
  - apply Z.lxor_nonneg. lia.
  - destruct (Z.eq_dec (Z.lxor a b) 0) as [->|Hnz]; [lia|].
    assert (Hnn : 0 <= Z.lxor a b) by (apply Z.lxor_nonneg; lia).
    apply Z.log2_lt_cancel. change (Z.log2 256) with 8.
    assert (Hl : Z.log2 (Z.lxor a b) <= Z.max (Z.log2 a) (Z.log2 b)) by (apply Z.log2_lxor; lia).
    assert (Z.log2 a < 8).
    { destruct (Z.eq_dec a 0) as [->|]; [cbn; lia|]. apply Z.log2_lt_pow2; lia. }
    assert (Z.log2 b < 8).
    { destruct (Z.eq_dec b 0) as [->|]; [cbn; lia|]. apply Z.log2_lt_pow2; lia. }
    lia.
Qed.

(* a key stream that is too short or holds non-bytes cannot occur in the code (the block function
   fills a block of bytes); for the byte-ness of the output we ask it of E *)
Definition block_fn_bytes (E : list Z -> list Z) : Prop := forall b, bytes (E b).

Lemma xorl_bytes a : forall k, bytes a -> bytes k -> bytes (xorl a k).
Proof.
  induction a as [|x a IH]; intros k Ha Hk; cbn [xorl]; [constructor|].
  apply bytes_inv in Ha. destruct Ha as [Hx Ha].
  apply bytes_cons.
  - apply lxor_byte; [exact Hx|]. destruct k as [|y k]; cbn [hd]; [unfold byte; lia|].
    apply bytes_inv in Hk. tauto.
  - apply IH; [exact Ha|]. destruct k as [|y k]; cbn [tl]; [constructor|]. apply bytes_inv in Hk. tauto.
Qed.

Lemma In_firstn' {A} n (l : list A) y : In y (firstn n l) -> In y l.
Proof. intros H. rewrite <- (firstn_skipn n l). apply in_or_app. left. exact H. Qed.
Lemma firstn_bytes n x : bytes x -> bytes (firstn n x).
Proof. intros H. unfold bytes in *. rewrite Forall_forall in *. intros y Hy. apply H. eapply In_firstn'; eauto. Qed.
Lemma In_skipn {A} n (l : list A) y : In y (skipn n l) -> In y l.
Proof. intros H. rewrite <- (firstn_skipn n l). apply in_or_app. right. exact H. Qed.
Lemma skipn_bytes n x : bytes x -> bytes (skipn n x).
Proof. intros H. unfold bytes in *. rewrite Forall_forall in *. intros y Hy. apply H. eapply In_skipn; eauto. Qed.

Lemma cfb_enc_f_bytes E n : block_fn_bytes E ->
  forall fuel x next, bytes x -> bytes (cfb_enc_f fuel E n next x).
Proof.
  intros HE. induction fuel as [|fuel IH]; intros x next Hx; cbn [cfb_enc_f]; [constructor|].
  destruct x as [|b r] eqn:Ex; [constructor|]. rewrite <- Ex in *.
  apply bytes_app.
  - apply xorl_bytes; [apply firstn_bytes; exact Hx | apply HE].
  - apply IH. apply skipn_bytes. exact Hx.
Qed.

(* CFB as a wrapper (wrapper.XOR, wrapper.Block): lossless for every byte-valued block function *)
Definition cfb_w (E : list Z -> list Z) (iv : list Z) : wrapper :=
  {| w_enc := cfb_enc E iv; w_dec := fun w => Ok (cfb_dec E iv w) |}.

Theorem cfb_lossless : forall E iv, iv <> [] -> block_fn_bytes E -> lossless (cfb_w E iv).
Proof.
  intros E iv Hiv HE x Hx. cbn [cfb_w w_enc w_dec]. split.
  - unfold cfb_enc. apply cfb_enc_f_bytes; assumption.
  - rewrite cfb_roundtrip by exact Hiv. reflexivity.
Qed.

(* XOR: the block function is xor with the key *)
Theorem xor_roundtrip : forall key x, key <> [] -> xor_dec key (xor_enc key x) = x.
Proof.
  intros key x Hk. unfold xor_dec, xor_enc. apply cfb_roundtrip.
  unfold xor_iv. destruct key; [congruence | cbn [mapi]; discriminate].
Qed.

(* the XOR wrapper keeps bytes when the key and the payload are bytes; the block it encrypts is the
   IV or a cipher text block, both bytes, but block_fn_bytes asks it of every input: we prove the
   byte-ness of the XOR stream directly *)
Lemma mapi_bytes f : (forall i x, byte (f i x)) -> forall l i, bytes (mapi f i l).
Proof. intros Hf. induction l as [|x l IH]; intros i; cbn [mapi]; [constructor | apply bytes_cons; auto]. Qed.

Lemma xor_iv_bytes key : bytes (xor_iv key).
Proof.
  unfold xor_iv. apply mapi_bytes. intros i x. apply lxor_byte; unfold byte; lia.
Qed.

Lemma xor_enc_f_bytes key : bytes key ->
  forall fuel n x next, bytes x -> bytes next -> bytes (cfb_enc_f fuel (xor_block key) n next x).
Proof.
  intros Hk. induction fuel as [|fuel IH]; intros n x next Hx Hn; cbn [cfb_enc_f]; [constructor|].
  destruct x as [|b r] eqn:Ex; [constructor|]. rewrite <- Ex in *.
  assert (Hc : bytes (xorl (firstn n x) (xor_block key next))).
  { apply xorl_bytes; [apply firstn_bytes; exact Hx|]. unfold xor_block. apply xorl_bytes; assumption. }
  apply bytes_app; [exact Hc|]. apply IH; [apply skipn_bytes; exact Hx | exact Hc].
Qed.

Theorem xor_lossless : forall key, key <> [] -> bytes key -> lossless (xor_w key).
Proof.
  intros key Hk Hb x Hx. cbn [xor_w w_enc w_dec]. split.
  - unfold xor_enc, cfb_enc. apply xor_enc_f_bytes; [exact Hb | exact Hx | apply xor_iv_bytes].
  - rewrite xor_roundtrip by exact Hk. reflexivity.
Qed.

Theorem hex_lossless : lossless hex_w.
Proof. intros x Hx. exact (hex_roundtrip x Hx). Qed.
Theorem b64_lossless : lossless b64_w.
Proof. intros x Hx. exact (b64_roundtrip x Hx). Qed.
