(* Proofs/Utf16.v -- lemmas for C20. *)
From XMT Require Import Base.Prelude Base.BitLemmas Model.Utf16.
From Coq Require Import ZifyBool.
Ltac Zify.zify_post_hook ::= Z.div_mod_to_equations.

(* ---- encoder ----------------------------------------------------------- *)

Lemma encode_rune_std r :
  utfSelf <= r <= utfRuneMax ->
  encode_rune r = (utfSurgA + (r - utfSelf) / 1024, utfSurgB + (r - utfSelf) mod 1024).
Proof.
  unfold encode_rune, utfSelf, utfRuneMax, utfSurgA, utfSurgB. intros H.
  replace ((r <? 65536) || (1114111 <? r)) with false by lia.
  change 1023 with (2 ^ 10 - 1). rewrite !land_ones_mod, shiftr_div by lia.
  change (2 ^ 10) with 1024.
  rewrite Z.mod_small with (a := (r - 65536) / 1024) by lia.
  rewrite !u16_small by lia. reflexivity.
Qed.

Definition no_inner_nul (s : list Z) : Prop :=
  forall a b, s = a ++ 0 :: b -> b = [].

Lemma no_inner_nul_cons r s : no_inner_nul (r :: s) -> no_inner_nul s.
Proof. intros H a b E. apply (H (r :: a) b). rewrite E. reflexivity. Qed.

Lemma no_inner_nul_head r s : no_inner_nul (r :: s) -> s <> [] -> r <> 0.
Proof. intros H Hs E. subst r. apply Hs. apply (H [] s). reflexivity. Qed.

Lemma strict_guard_false strict r rest :
  (strict = true -> no_inner_nul (r :: rest)) ->
  strict && (r =? 0) && negb (is_nil rest) = false.
Proof.
  intros H. destruct strict; [|reflexivity]. cbn [andb].
  destruct rest as [|x rest]; [apply andb_false_r|].
  specialize (H eq_refl). apply no_inner_nul_head in H; [|discriminate].
  cbn [is_nil negb]. rewrite andb_true_r. lia.
Qed.

Definition extra (r : Z) : Z := if r <? utfSelf then 0 else 1.
Definition extras (s : list Z) : Z := fold_right (fun r a => extra r + a) 0 s.

Lemma extras_cons r s : extras (r :: s) = extra r + extras s.
Proof. reflexivity. Qed.
Lemma extras_nonneg s : 0 <= extras s.
Proof. induction s as [|x l IH]; [cbn; lia|]. rewrite extras_cons. unfold extra. destruct (x <? utfSelf); lia. Qed.
Global Opaque extras.

Lemma size_pass_ok strict s n :
  (strict = true -> no_inner_nul s) -> size_pass strict s n = Ok (n + extras s).
Proof.
  revert n. induction s as [|r rest IH]; intros n H; cbn [size_pass].
  - f_equal. change (extras []) with 0. lia.
  - rewrite strict_guard_false by exact H.
    rewrite IH by (intros E; eapply no_inner_nul_cons; eauto).
    rewrite extras_cons. unfold extra. destruct (r <? utfSelf); f_equal; lia.
Qed.

Lemma std_enc_rune_len r : len (std_enc_rune r) = 1 + (if scalar r then extra r else 0).
Proof.
  unfold std_enc_rune, extra. destruct (scalar r) eqn:E; cbn [negb]; [|reflexivity].
  destruct (r <? utfSelf); reflexivity.
Qed.

Lemma std_enc_len_le s : len (std_enc s) <= len s + extras s.
Proof.
  induction s as [|r rest IH]; [change (extras []) with 0; cbn; lia|].
  unfold std_enc in *. cbn [flat_map]. rewrite len_app, len_cons, std_enc_rune_len, extras_cons.
  unfold extra. destruct (scalar r), (r <? utfSelf); lia.
Qed.

Lemma enc_loop_ok strict cap s : forall n out,
  (strict = true -> no_inner_nul s) ->
  n = len out -> n + len s + extras s <= cap ->
  enc_loop strict cap s n out = Ok (rev out ++ std_enc s).
Proof.
  induction s as [|r rest IH]; intros n out Hn En Hc.
  - cbn [enc_loop std_enc flat_map]. rewrite len_nil in Hc. change (extras []) with 0 in Hc.
    replace (n <=? cap) with true by lia. rewrite app_nil_r. reflexivity.
  - cbn [enc_loop]. rewrite strict_guard_false by exact Hn.
    assert (Hn' : strict = true -> no_inner_nul rest) by (intros E; eapply no_inner_nul_cons; eauto).
    rewrite len_cons, extras_cons in Hc.
    pose proof (len_nonneg rest) as Hl.
    pose proof (extras_nonneg rest) as Hx.
    unfold std_enc. cbn [flat_map]. fold (std_enc rest). unfold std_enc_rune, scalar.
    unfold extra in Hc.
    destruct (((0 <=? r) && (r <? utfSurgA)) || ((utfSurgC <=? r) && (r <? utfSelf))) eqn:E1.
    + (* BMP scalar *)
      assert (Hr : 0 <= r < utfSelf) by (unfold utfSurgA, utfSurgC, utfSelf in *; lia).
      replace (r <? utfSelf) with true in * by lia.
      replace (n <? cap) with true by lia.
      rewrite IH; [| exact Hn' | rewrite len_cons; lia | lia].
      replace (negb (((0 <=? r) && (r <? utfSurgA)) || ((utfSurgC <=? r) && (r <=? utfRuneMax)))) with false
        by (unfold utfSurgA, utfSurgC, utfSelf, utfRuneMax in *; lia).
      rewrite u16_small by (unfold utfSelf in Hr; lia).
      cbn [rev]. rewrite <- app_assoc. reflexivity.
    + destruct ((utfSelf <=? r) && (r <=? utfRuneMax)) eqn:E2.
      * (* supplementary *)
        assert (Hr : utfSelf <= r <= utfRuneMax) by lia.
        replace (r <? utfSelf) with false in * by lia.
        replace (n + 1 <? cap) with true by lia.
        rewrite encode_rune_std by exact Hr.
        rewrite IH; [| exact Hn' | rewrite !len_cons; lia | lia].
        replace (negb (((0 <=? r) && (r <? utfSurgA)) || ((utfSurgC <=? r) && (r <=? utfRuneMax)))) with false
          by (unfold utfSurgA, utfSurgC, utfSelf, utfRuneMax in *; lia).
        cbn [rev]. rewrite <- !app_assoc. reflexivity.
      * (* not a scalar value: replacement *)
        replace (n <? cap) with true by (destruct (r <? utfSelf); lia).
        rewrite IH; [| exact Hn' | rewrite len_cons; lia | destruct (r <? utfSelf); lia].
        replace (negb (((0 <=? r) && (r <? utfSurgA)) || ((utfSurgC <=? r) && (r <=? utfRuneMax)))) with true
          by (unfold utfSurgA, utfSurgC, utfSelf, utfRuneMax in *; lia).
        cbn [rev]. rewrite <- app_assoc. reflexivity.
Qed.

Lemma encode_gen_std strict s :
  (strict = true -> no_inner_nul s) -> utf16_encode_gen strict s = Ok (std_enc s).
Proof.
  intros H. unfold utf16_encode_gen. rewrite size_pass_ok by exact H. cbn [bind].
  rewrite enc_loop_ok; [reflexivity | exact H | reflexivity | lia].
Qed.

Lemma encode_std_total s : utf16_encode_std s = Ok (std_enc s).
Proof. apply encode_gen_std. discriminate. Qed.

Lemma std_enc_app a b : std_enc (a ++ b) = std_enc a ++ std_enc b.
Proof. unfold std_enc. apply flat_map_app. Qed.

Lemma no_nul_no_inner rs : ~ In 0 rs -> no_inner_nul (rs ++ [0]).
Proof.
  intros H a b E. destruct b as [|x b]; [reflexivity|exfalso].
  assert (In 0 rs); [|tauto].
  assert (Hl : (length a < length rs)%nat).
  { apply (f_equal (@length Z)) in E. rewrite !app_length in E. cbn [length] in E. lia. }
  assert (E2 : nth_error (rs ++ [0]) (length a) = Some 0) by (rewrite E, nth_error_app2, Nat.sub_diag; [reflexivity|lia]).
  rewrite nth_error_app1 in E2 by exact Hl. eapply nth_error_In; eauto.
Qed.

Lemma from_runes_std rs : ~ In 0 rs -> utf16_from_runes rs = Ok (std_enc rs ++ [0]).
Proof.
  intros H. destruct rs as [|r rs]; [reflexivity|].
  unfold utf16_from_runes, utf16_encode. rewrite encode_gen_std by (intros _; apply no_nul_no_inner; exact H).
  rewrite std_enc_app. reflexivity.
Qed.

Lemma size_pass_rejects s : forall n, (exists a b, s = a ++ 0 :: b /\ b <> []) -> size_pass true s n = Err EINVAL.
Proof.
  induction s as [|r rest IH]; intros n (a & b & E & Hb).
  - destruct a; discriminate.
  - cbn [size_pass andb]. destruct a as [|x a]; cbn [app] in E; injection E as -> ->.
    + destruct b; [contradiction|]. reflexivity.
    + destruct ((x =? 0) && negb (is_nil (a ++ 0 :: b))); [reflexivity|].
      apply IH. exists a, b. split; [reflexivity|exact Hb].
Qed.

Lemma from_runes_rejects rs : In 0 rs -> utf16_from_runes rs = Err EINVAL.
Proof.
  intros H. destruct rs as [|r rs]; [contradiction|].
  unfold utf16_from_runes, utf16_encode, utf16_encode_gen.
  rewrite size_pass_rejects; [reflexivity|].
  apply in_split in H. destruct H as (a & b & E). exists a, (b ++ [0]).
  split; [rewrite E, <- app_assoc; reflexivity | destruct b; discriminate].
Qed.

(* ---- decoder ----------------------------------------------------------- *)

Definition valid_text (rs : list Z) : Prop := Forall (fun r => scalar r = true /\ r <> 0) rs.

Lemma decode_rune_pair r :
  utfSelf <= r <= utfRuneMax ->
  decode_rune (utfSurgA + (r - utfSelf) / 1024) (utfSurgB + (r - utfSelf) mod 1024) = r.
Proof.
  intros H. unfold decode_rune, utfSelf, utfRuneMax, utfSurgA, utfSurgB, utfSurgC in *.
  match goal with |- (if ?c then _ else _) = _ => replace c with true by lia end.
  rewrite lor_shiftl_add by lia. lia.
Qed.

Lemma decode_encode rs tail : valid_text rs -> utf16_decode (std_enc rs ++ 0 :: tail) = rs.
Proof.
  induction 1 as [|r rs [Hs Hz] _ IH]; [reflexivity|].
  unfold std_enc. cbn [flat_map]. fold (std_enc rs). unfold std_enc_rune. rewrite Hs. cbn [negb].
  unfold scalar in Hs.
  destruct (r <? utfSelf) eqn:E.
  - cbn [app utf16_decode]. replace (r =? 0) with false by lia.
    replace ((r <? utfSurgA) || (utfSurgC <=? r)) with true by (unfold utfSurgA, utfSurgC, utfSelf, utfRuneMax in *; lia).
    rewrite IH. reflexivity.
  - assert (Hr : utfSelf <= r <= utfRuneMax) by (unfold utfSurgA, utfSurgC, utfSelf, utfRuneMax in *; lia).
    cbn [app utf16_decode].
    set (hi := utfSurgA + (r - utfSelf) / 1024). set (lo := utfSurgB + (r - utfSelf) mod 1024).
    assert (Hhi : utfSurgA <= hi < utfSurgB) by (unfold hi, utfSurgA, utfSurgB, utfSelf, utfRuneMax in *; lia).
    assert (Hlo : utfSurgB <= lo < utfSurgC) by (unfold lo, utfSurgB, utfSurgC, utfSelf, utfRuneMax in *; lia).
    replace (hi =? 0) with false by (unfold utfSurgA in *; lia).
    replace ((hi <? utfSurgA) || (utfSurgC <=? hi)) with false by (unfold utfSurgA, utfSurgB, utfSurgC in *; lia).
    replace ((utfSurgA <=? hi) && (hi <? utfSurgB) && (utfSurgB <=? lo) && (lo <? utfSurgC)) with true by lia.
    unfold hi, lo. rewrite decode_rune_pair by exact Hr. rewrite IH. reflexivity.
Qed.

(* decoding stops at the first NUL: what follows it is never looked at *)
Lemma decode_stops_at_nul_aux n : forall a b, (length a <= n)%nat -> ~ In 0 a ->
  utf16_decode (a ++ 0 :: b) = utf16_decode a.
Proof.
  induction n as [|n IH]; intros a b Hl Hz.
  - destruct a; [reflexivity | cbn in Hl; lia].
  - destruct a as [|r a]; [reflexivity|]. cbn [app utf16_decode].
    assert (Hr : r <> 0) by (intros ->; apply Hz; left; reflexivity).
    assert (Ha : ~ In 0 a) by (intros Hi; apply Hz; right; exact Hi).
    replace (r =? 0) with false by lia.
    destruct ((r <? utfSurgA) || (utfSurgC <=? r)); [rewrite IH by (cbn in Hl; try lia; assumption); reflexivity|].
    destruct a as [|r2 a]; cbn [app].
    + replace ((utfSurgA <=? r) && (r <? utfSurgB) && (utfSurgB <=? 0) && (0 <? utfSurgC)) with false
        by (unfold utfSurgB; lia).
      reflexivity.
    + assert (Ha2 : ~ In 0 a) by (intros Hi; apply Ha; right; exact Hi).
      destruct ((utfSurgA <=? r) && (r <? utfSurgB) && (utfSurgB <=? r2) && (r2 <? utfSurgC)).
      * rewrite IH by (cbn in Hl; try lia; assumption). reflexivity.
      * change (r2 :: a ++ 0 :: b) with ((r2 :: a) ++ 0 :: b).
        rewrite IH by (cbn in Hl |- *; try lia; assumption). reflexivity.
Qed.

Lemma decode_stops_at_nul a b : ~ In 0 a -> utf16_decode (a ++ 0 :: b) = utf16_decode a.
Proof. apply (decode_stops_at_nul_aux (length a)). lia. Qed.

(* every decoded value is a Unicode scalar value or U+FFFD, and the output is never longer
   than the input (the b[n] writes of the Go loop stay inside make([]rune, len(s))) *)
Lemma decode_len_aux n : forall s, (length s <= n)%nat -> (length (utf16_decode s) <= length s)%nat.
Proof.
  induction n as [|n IH]; intros s Hl.
  - destruct s; [cbn; lia | cbn in Hl; lia].
  - destruct s as [|r s]; [cbn; lia|]. cbn [utf16_decode].
    destruct (r =? 0); [cbn; lia|].
    destruct ((r <? utfSurgA) || (utfSurgC <=? r)).
    + cbn [length] in *. specialize (IH s). lia.
    + destruct s as [|r2 s]; [cbn; lia|].
      destruct ((utfSurgA <=? r) && (r <? utfSurgB) && (utfSurgB <=? r2) && (r2 <? utfSurgC)).
      * cbn [length] in *. specialize (IH s). lia.
      * cbn [length] in *. specialize (IH (r2 :: s)). cbn [length] in IH. lia.
Qed.
Lemma decode_len s : (length (utf16_decode s) <= length s)%nat.
Proof. apply (decode_len_aux (length s)). lia. Qed.

(* ---- registry values --------------------------------------------------- *)

Fixpoint u16s_le (d : list Z) : list Z :=
  match d with a :: b :: r => (a + 256 * b) :: u16s_le r | _ => [] end.

Lemma idx_ok {A} (l : list A) i : 0 <= i < len l -> exists x, idx l i = Ok x.
Proof.
  intros H. unfold idx. replace (i <? 0) with false by lia.
  destruct (nth_error l (Z.to_nat i)) eqn:E; [eauto|].
  apply nth_error_None in E. unfold len in H. lia.
Qed.

Lemma view_from_no_panic d : forall k i, 0 <= i -> 2 * (i + Z.of_nat k) <= len d ->
  exists v, view_from d i k = Ok v /\ length v = k.
Proof.
  induction k as [|k IH]; intros i Hi Hb; [exists []; split; reflexivity|].
  cbn [view_from]. unfold v_at.
  destruct (idx_ok d (2 * i)) as (lo & ->); [lia|].
  destruct (idx_ok d (2 * i + 1)) as (hi & ->); [lia|]. cbn [bind].
  destruct (IH (i + 1)) as (v & -> & Hv); [lia|lia|]. cbn [bind].
  exists (lo + 256 * hi :: v). split; [reflexivity | cbn; lia].
Qed.

Lemma view_no_panic d : exists v, view d = Ok v /\ len v = len d / 2.
Proof.
  unfold view. destruct (view_from_no_panic d (Z.to_nat (len d / 2)) 0) as (v & E & Hv).
  - lia.
  - pose proof (len_nonneg d). rewrite Z2Nat.id by lia. lia.
  - exists v. split; [exact E|]. unfold len at 1. rewrite Hv. pose proof (len_nonneg d). rewrite Z2Nat.id; lia.
Qed.

Lemma entry_to_string_no_panic ty d : entry_to_string ty d <> Panic.
Proof.
  unfold entry_to_string. destruct (_ && _); [discriminate|]. destruct (len d <? 3); [discriminate|].
  destruct (view_no_panic d) as (v & -> & _). discriminate.
Qed.
Lemma entry_to_string_list_no_panic ty d : entry_to_string_list ty d <> Panic.
Proof.
  unfold entry_to_string_list. destruct (negb _); [discriminate|]. destruct (len d <? 3); [discriminate|].
  destruct (view_no_panic d) as (v & -> & _). cbn [bind]. destruct (is_nil v); discriminate.
Qed.
Lemma entry_to_integer_no_panic ty d : entry_to_integer ty d <> Panic.
Proof.
  unfold entry_to_integer. repeat match goal with |- context [if ?c then _ else _] => destruct c end; discriminate.
Qed.

(* the result depends only on the value's own bytes: bytes appended after an even-length
   value behind the same length are never part of the view (stated on the view itself) *)
Lemma view_from_prefix d e : forall k i, 0 <= i -> 2 * (i + Z.of_nat k) <= len d ->
  view_from (d ++ e) i k = view_from d i k.
Proof.
  induction k as [|k IH]; intros i Hi Hb; [reflexivity|].
  cbn [view_from]. unfold v_at, idx.
  replace (2 * i <? 0) with false by lia. replace (2 * i + 1 <? 0) with false by lia.
  assert (Hl : len d = Z.of_nat (length d)) by reflexivity.
  rewrite !nth_error_app1 by lia. rewrite IH by lia. reflexivity.
Qed.

(* ---- FNV-1 -------------------------------------------------------------- *)
Lemma fnv_nil : fnv [] = 2166136261.
Proof. reflexivity. Qed.
Lemma fnv_snoc s c : fnv (s ++ [c]) = Z.lxor ((fnv s * 16777619) mod 2 ^ 32) c.
Proof. unfold fnv. rewrite fold_left_app. reflexivity. Qed.

Lemma lxor_range a b : 0 <= a < 2 ^ 32 -> 0 <= b < 2 ^ 32 -> 0 <= Z.lxor a b < 2 ^ 32.
Proof.
  intros Ha Hb. assert (P : 0 < 2 ^ 32) by reflexivity.
  assert (N : 0 <= Z.lxor a b) by (apply Z.lxor_nonneg; lia).
  split; [exact N|].
  destruct (Z.eq_dec (Z.lxor a b) 0) as [E|Hne]; [rewrite E; exact P|].
  apply Z.log2_lt_pow2; [lia|].
  eapply Z.le_lt_trans; [apply Z.log2_lxor; lia|].
  apply Z.max_lub_lt.
  - destruct (Z.eq_dec a 0) as [->|]; [reflexivity|]. apply Z.log2_lt_pow2; lia.
  - destruct (Z.eq_dec b 0) as [->|]; [reflexivity|]. apply Z.log2_lt_pow2; lia.
Qed.

Lemma fnv_range s : Forall (fun c => 0 <= c < 256) s -> 0 <= fnv s < 2 ^ 32.
Proof.
  intros H. unfold fnv.
  assert (G : forall h, 0 <= h < 2 ^ 32 -> 0 <= fold_left fnv_step s h < 2 ^ 32).
  { induction H as [|c s Hc _ IH]; intros h Hh; [exact Hh|]. cbn [fold_left]. apply IH.
    unfold fnv_step, u32. apply lxor_range; [|lia]. change 4294967296 with (2 ^ 32). apply Z.mod_pos_bound. lia. }
  apply G. lia.
Qed.
