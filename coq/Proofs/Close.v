(* Proofs/Close.v -- C16: closing terminates cleanly.  Proofs about Model/Close.v.

   Everything is proved for ALL schedules (lists of thread indices of any length), ANY number
   of concurrent close calls (any list of [entry] program counters appended to the service
   goroutines) and all five protocol-state flags of [world0], by induction on the schedule
   with one invariant [Inv] that ties the state bits to the channels and counts the threads
   standing in the critical program sections. *)
From Coq Require Import List Lia Bool Arith.
From XMT Require Import Base.Prelude Model.Close.
Import ListNotations.
Local Open Scope nat_scope.

(* ------------------------------------------------------------------------------------------ *)
(* counting threads                                                                             *)
Definition b2n (b : bool) : nat := if b then 1 else 0.
Fixpoint cnt (f : pc -> bool) (l : list pc) : nat :=
  match l with [] => 0 | p :: t => b2n (f p) + cnt f t end.

Lemma cnt_app f l1 l2 : cnt f (l1 ++ l2) = cnt f l1 + cnt f l2.
Proof. induction l1; simpl; lia. Qed.

Lemma cnt_set_nth f : forall l i p p',
  nth_error l i = Some p -> cnt f (set_nth i p' l) + b2n (f p) = cnt f l + b2n (f p').
Proof.
  induction l; intros [|i] p p' H; simpl in *; try discriminate.
  - inversion H; subst. lia.
  - specialize (IHl _ _ p' H). lia.
Qed.

Lemma cnt_ge f : forall l i p, nth_error l i = Some p -> b2n (f p) <= cnt f l.
Proof.
  induction l; intros [|i] p H; simpl in *; try discriminate.
  - inversion H; subst. lia.
  - specialize (IHl _ _ H). lia.
Qed.

Lemma cnt_le f g l : (forall p, f p = true -> g p = true) -> cnt f l <= cnt g l.
Proof.
  intros H. induction l; simpl; auto.
  destruct (f a) eqn:E; simpl; [rewrite (H _ E); simpl|]; lia.
Qed.

Lemma cnt_zero f l : (forall p, In p l -> f p = false) -> cnt f l = 0.
Proof.
  induction l; simpl; intros H; auto.
  rewrite (H a) by auto. simpl. apply IHl. intros; apply H; auto.
Qed.

Lemma cnt_pos_in f l : 0 < cnt f l -> exists p, In p l /\ f p = true.
Proof.
  induction l; simpl; intros H; [lia|].
  destruct (f a) eqn:E.
  - exists a; auto.
  - simpl in H. destruct (IHl H) as [p [Hi Hp]]. exists p; auto.
Qed.

Lemma nth_error_set_nth_same {A} : forall (l : list A) i x y,
  nth_error l i = Some y -> nth_error (set_nth i x l) i = Some x.
Proof. induction l; intros [|i] x y H; simpl in *; try discriminate; eauto. Qed.

Lemma nth_error_set_nth_other {A} : forall (l : list A) i j x,
  i <> j -> nth_error (set_nth i x l) j = nth_error l j.
Proof.
  induction l; intros [|i] [|j] x H; simpl; auto; try congruence.
Qed.

Lemma length_set_nth {A} : forall (l : list A) i x, length (set_nth i x l) = length l.
Proof. induction l; intros [|i] x; simpl; auto. Qed.

(* ------------------------------------------------------------------------------------------ *)
(* induction over schedules                                                                     *)
Lemma run_ind_inv (m : mode) (I : list pc -> world -> Prop) (G : fault -> Prop) :
  (forall pool w i p w' p', I pool w -> nth_error pool i = Some p -> exec m p w = Step w' p' ->
                            I (set_nth i p' pool) w') ->
  (forall pool w i p f, I pool w -> nth_error pool i = Some p -> exec m p w = Fault f -> G f) ->
  forall sched pool w, I pool w ->
    match run m sched pool w with Running pool' w' => I pool' w' | Faulted f _ => G f end.
Proof.
  intros Hs Hf. induction sched as [|i rest IH]; intros pool w HI; simpl; auto.
  unfold sched1. destruct (nth_error pool i) as [p|] eqn:En.
  - destruct (exec m p w) as [w' p'| |f] eqn:Ee.
    + apply IH. eapply Hs; eauto.
    + apply IH; auto.
    + eapply Hf; eauto.
  - apply IH; auto.
Qed.

Lemma run_app m : forall s1 s2 pool w,
  run m (s1 ++ s2) pool w =
  match run m s1 pool w with Running p1 w1 => run m s2 p1 w1 | Faulted f t => Faulted f t end.
Proof.
  induction s1; intros; simpl; auto.
  destruct (sched1 m a pool w); auto.
Qed.

(* ------------------------------------------------------------------------------------------ *)
(* the program sections that are counted                                                        *)
(* the client's listen goroutine, anywhere before its end *)
Definition in_listen (p : pc) : bool :=
  match p with
  | CL0 | CR0 | CR1 | CR2 | CR3 | CR4 | CR5 | CL1 | CL2 | CL3 | CL4 | CL4o => true
  | SD0 Cli _ | SD1 Cli _ _ | SD2 Cli _ _ | SD3 Cli _ _ | SD4 Cli _ => true
  | _ => false
  end.
(* ... before the critical section of its shutdown() *)
Definition pre_sd0_cli (p : pc) : bool :=
  match p with
  | CL0 | CR0 | CR1 | CR2 | CR3 | CR4 | CR5 | CL1 | CL2 | CL3 | CL4 | CL4o | SD0 Cli _ => true
  | _ => false
  end.
Definition side_eqb (a b : side) : bool := match a, b with Cli, Cli | Srv, Srv => true | _, _ => false end.
(* inside shutdown()'s critical section of side d (holds Session.lock) *)
Definition cs (d : side) (p : pc) : bool :=
  match p with SD1 e _ _ | SD2 e _ _ | SD3 e _ _ => side_eqb d e | _ => false end.
(* ... and it is the run that found Closed unset: it will close s.ch *)
Definition pend (d : side) (p : pc) : bool :=
  match p with SD1 e _ false | SD2 e _ false | SD3 e _ false => side_eqb d e | _ => false end.
Definition skip_cli (p : pc) : bool :=
  match p with SD1 Cli _ true | SD2 Cli _ true | SD3 Cli _ true => true | _ => false end.
(* Server.shutdown after the run word was swapped to 2 *)
Definition ss59 (p : pc) : bool := match p with SS5 _ | SS6 _ | SS7 _ | SS8 _ | SS9 _ => true | _ => false end.
Definition ss49 (p : pc) : bool := match p with SS4 _ | SS5 _ | SS6 _ | SS7 _ | SS8 _ | SS9 _ => true | _ => false end.
Definition at5 (p : pc) : bool := match p with SS5 _ => true | _ => false end.
Definition at6 (p : pc) : bool := match p with SS6 _ => true | _ => false end.
Definition at7 (p : pc) : bool := match p with SS7 _ => true | _ => false end.
Definition at8 (p : pc) : bool := match p with SS8 _ => true | _ => false end.
Definition at9 (p : pc) : bool := match p with SS9 _ => true | _ => false end.
Definition at_sd4 (p : pc) : bool := match p with SD4 _ _ => true | _ => false end.
(* Listener.listen before / up to its last step *)
Definition lt_pre (p : pc) : bool := match p with LT0 | LT1 | LT2 | LT3 => true | _ => false end.
Definition lt_all (p : pc) : bool := match p with LT0 | LT1 | LT2 | LT3 | LT4 => true | _ => false end.

(* ------------------------------------------------------------------------------------------ *)
(* state bits versus channels                                                                   *)
Definition is_nil (c : chan) : bool := chan_eqb c Nil.
Definition sess_ok (s : sess) : bool :=
  negb (is_nil (send s)) && Bool.eqb (is_closed (send s)) (sendc s) && implb (closed s) (sendc s) &&
  (if is_nil (wake s) then negb (wakec s)
   else Bool.eqb (is_closed (wake s)) (wakec s) && implb (closed s) (wakec s)) &&
  Bool.eqb (is_closed (recv s)) (recvc s) &&
  negb (is_nil (done s)) && implb (is_closed (done s)) (closed s).

Arguments shutdown_section : simpl never.

Lemma sess_ok_set_lock b s : sess_ok (set_lock b s) = sess_ok s.
Proof. destruct s; reflexivity. Qed.
Lemma sess_ok_set_mux c s : sess_ok (set_mux c s) = sess_ok s.
Proof. destruct s; reflexivity. Qed.
Lemma sess_ok_set_done s : sess_ok s = true -> closed s = true -> sess_ok (set_done Closed s) = true.
Proof.
  destruct s as [cg sh cd sc wc rc cr sw chn sd wk rv dn mx pk wt lk]; unfold sess_ok, is_nil; simpl.
  intros H E; subst. destruct dn; simpl in *; auto; rewrite ?andb_true_r in *; auto.
  rewrite andb_false_r in H. discriminate.
Qed.

Lemma shutdown_section_ok s :
  sess_ok s = true ->
  exists s', shutdown_section s = inl s' /\ sess_ok s' = true /\ closed s' = true /\ lock s' = true /\
             done s' = done s /\ mux s' = mux s /\ closing s' = closing s /\ shutdown_ s' = shutdown_ s /\
             peek s' = peek s /\ shutwait s' = shutwait s /\ channel s' = channel s /\ canrecv s' = canrecv s.
Proof.
  destruct s as [cg sh cd sc wc rc cr sw chn sd wk rv dn mx pk wt lk].
  unfold sess_ok, shutdown_section, SendClosed, WakeClosed, RecvClosed, CanRecv, is_nil; simpl.
  intros H.
  destruct sd, wk, rv, cd, sc, wc, rc, cr; simpl in *; try discriminate;
    (eexists; split; [reflexivity|]; simpl; repeat split; auto;
     destruct dn; simpl in *; auto).
Qed.

(* ------------------------------------------------------------------------------------------ *)
(* the invariant of the repaired step list                                                      *)
Record Inv (pool : list pc) (w : world) : Prop := {
  i_cl : cl_started w = true;  i_ce : ce_started w = true;  i_lt : lt_started w = true;
  i_run : 1 <= run_ w <= 2;
  i_okc : sess_ok (cli w) = true;  i_okv : sess_ok (srv w) = true;
  i_muxc : is_nil (mux (cli w)) = false;
  i_dnc : is_nil (done (cli w)) = false;  i_dnv : is_nil (done (srv w)) = false;
  i_l1 : cnt in_listen pool + b2n (is_closed (mux (cli w))) = 1;
  i_l2 : cnt pre_sd0_cli pool + b2n (closed (cli w)) = 1;
  i_dc : cnt (pend Cli) pool + b2n (is_closed (done (cli w))) = b2n (closed (cli w));
  i_dv : cnt (pend Srv) pool + b2n (is_closed (done (srv w))) = b2n (closed (srv w));
  i_xc : cnt skip_cli pool = 0;
  i_kc : cnt (cs Cli) pool = b2n (lock (cli w));
  i_kv : cnt (cs Srv) pool = b2n (lock (srv w));
  i_v1 : cnt ss59 pool + b2n (is_closed (sv_done w)) + 1 = run_ w;
  i_v0 : b2n (is_closed (sv_new w)) + 1 <= run_ w;
  i_n1 : is_nil (sv_new w) = false;  i_n2 : is_nil (sv_dell w) = false;  i_n3 : is_nil (sv_dels w) = false;
  i_n4 : is_nil (sv_events w) = false;  i_n5 : is_nil (sv_done w) = false;
  i_v2a : b2n (is_closed (sv_dell w)) <= b2n (is_closed (sv_new w));
  i_v2b : b2n (is_closed (sv_dels w)) <= b2n (is_closed (sv_dell w));
  i_v2c : b2n (is_closed (sv_events w)) <= b2n (is_closed (sv_dels w));
  i_v2d : b2n (is_closed (sv_done w)) <= b2n (is_closed (sv_events w));
  i_v5 : cnt at5 pool + b2n (is_closed (sv_new w)) <= 1;
  i_v6 : cnt at6 pool + b2n (is_closed (sv_dell w)) <= 1;
  i_v7 : cnt at7 pool + b2n (is_closed (sv_dels w)) <= 1;
  i_v8 : cnt at8 pool + b2n (is_closed (sv_events w)) <= 1;
  i_v9 : cnt at9 pool + b2n (is_closed (sv_done w)) <= 1;
  i_w6 : cnt at6 pool <= b2n (is_closed (sv_new w));
  i_w7 : cnt at7 pool <= b2n (is_closed (sv_dell w));
  i_w8 : cnt at8 pool <= b2n (is_closed (sv_dels w));
  i_w9 : cnt at9 pool <= b2n (is_closed (sv_events w));
  i_sd4 : cnt at_sd4 pool = 0;
  i_a1 : cnt lt_pre pool + dellq w = active w;
  i_a2 : active w <> 0 -> cnt ss49 pool = 0;
  i_a2' : b2n (is_closed (sv_new w)) = 1 -> active w = 0;
  i_a3 : cnt lt_all pool + b2n (is_closed (l_done w)) = 1;
  i_a4 : is_nil (l_done w) = false
}.

(* ------------------------------------------------------------------------------------------ *)
(* tactics                                                                                      *)
Ltac break_match_hyp H :=
  match type of H with
  | context [match ?X with _ => _ end] => destruct X eqn:?
  end.

Lemma b2n_le1 b : b2n b <= 1. Proof. destruct b; simpl; lia. Qed.

(* booleans that occur in the arithmetic facts: split them *)
Ltac split_b2n :=
  repeat match goal with
  | H : context [b2n ?b] |- _ => is_var b; destruct b; simpl b2n in *
  | |- context [b2n ?b] => is_var b; destruct b; simpl b2n in *
  end.

Ltac b2n_bounds :=
  repeat match goal with
  | |- context [b2n ?b] =>
      lazymatch goal with H : b2n b <= 1 |- _ => fail | _ => pose proof (b2n_le1 b) end
  | H : context [b2n ?b] |- _ =>
      lazymatch goal with H' : b2n b <= 1 |- _ => fail | _ => pose proof (b2n_le1 b) end
  end.

Ltac fin :=
  first [ assumption | reflexivity | discriminate | congruence | lia
        | (intros; first [discriminate | congruence | lia | (b2n_bounds; lia)]) ].

Ltac destruct_chans :=
  repeat match goal with c : chan |- _ => destruct c end.

