(* Proofs/Close.v -- C16: closing terminates cleanly.  Proofs about Model/Close.v.

   Everything is proved for ALL schedules (lists of thread indices of any length), ANY number
   of concurrent close calls (any list of [entry] program counters appended to the service
   goroutines) and all five protocol-state flags of [world0], by induction on the schedule
   with one invariant [Inv] that ties the state bits to the channels and counts the threads
   standing in the critical program sections. *)
From Coq Require Import List Lia Bool Arith.
From XMT Require Import Base.Prelude Model.Close.
Import ListNotations.
Local Open Scope nat_scope.

(* ------------------------------------------------------------------------------------------ *)
(* counting threads                                                                             *)
Definition b2n (b : bool) : nat := if b then 1 else 0.
Fixpoint cnt (f : pc -> bool) (l : list pc) : nat :=
  match l with [] => 0 | p :: t => b2n (f p) + cnt f t end.

Lemma cnt_app f l1 l2 : cnt f (l1 ++ l2) = cnt f l1 + cnt f l2.
Proof. induction l1; simpl; lia. Qed.

Lemma cnt_set_nth f : forall l i p p',
  nth_error l i = Some p -> cnt f (set_nth i p' l) + b2n (f p) = cnt f l + b2n (f p').
Proof.
  induction l; intros [|i] p p' H; simpl in *; try discriminate.
  - inversion H; subst. lia.
  - specialize (IHl _ _ p' H). lia.
Qed.

Lemma cnt_ge f : forall l i p, nth_error l i = Some p -> b2n (f p) <= cnt f l.
Proof.
  induction l; intros [|i] p H; simpl in *; try discriminate.
  - inversion H; subst. lia.
  - specialize (IHl _ _ H). lia.
Qed.

Lemma cnt_le f g l : (forall p, f p = true -> g p = true) -> cnt f l <= cnt g l.
Proof.
  intros H. induction l; simpl; auto.
  destruct (f a) eqn:E; simpl; [rewrite (H _ E); simpl|]; lia.
Qed.

Lemma cnt_zero f l : (forall p, In p l -> f p = false) -> cnt f l = 0.
Proof.
  induction l; simpl; intros H; auto.
  rewrite (H a) by auto. simpl. apply IHl. intros; apply H; auto.
Qed.

Lemma cnt_pos_in f l : 0 < cnt f l -> exists p, In p l /\ f p = true.
Proof.
  induction l; simpl; intros H; [lia|].
  destruct (f a) eqn:E.
  - exists a; auto.
  - simpl in H. destruct (IHl H) as [p [Hi Hp]]. exists p; auto.
Qed.

Lemma nth_error_set_nth_same {A} : forall (l : list A) i x y,
  nth_error l i = Some y -> nth_error (set_nth i x l) i = Some x.
Proof. induction l; intros [|i] x y H; simpl in *; try discriminate; eauto. Qed.

Lemma nth_error_set_nth_other {A} : forall (l : list A) i j x,
  i <> j -> nth_error (set_nth i x l) j = nth_error l j.
Proof.
  induction l; intros [|i] [|j] x H; simpl; auto; try congruence.
Qed.

Lemma length_set_nth {A} : forall (l : list A) i x, length (set_nth i x l) = length l.
Proof. induction l; intros [|i] x; simpl; auto. Qed.

(* ------------------------------------------------------------------------------------------ *)
(* induction over schedules                                                                     *)
Lemma run_ind_inv (m : mode) (I : list pc -> world -> Prop) (G : fault -> Prop) :
  (forall pool w i p w' p', I pool w -> nth_error pool i = Some p -> exec m p w = Step w' p' ->
                            I (set_nth i p' pool) w') ->
  (forall pool w i p f, I pool w -> nth_error pool i = Some p -> exec m p w = Fault f -> G f) ->
  forall sched pool w, I pool w ->
    match run m sched pool w with Running pool' w' => I pool' w' | Faulted f _ => G f end.
Proof.
  intros Hs Hf. induction sched as [|i rest IH]; intros pool w HI; simpl; auto.
  unfold sched1. destruct (nth_error pool i) as [p|] eqn:En.
  - destruct (exec m p w) as [w' p'| |f] eqn:Ee.
    + apply IH. eapply Hs; eauto.
    + apply IH; auto.
    + eapply Hf; eauto.
  - apply IH; auto.
Qed.

Lemma run_app m : forall s1 s2 pool w,
  run m (s1 ++ s2) pool w =
  match run m s1 pool w with Running p1 w1 => run m s2 p1 w1 | Faulted f t => Faulted f t end.
Proof.
  induction s1; intros; simpl; auto.
  destruct (sched1 m a pool w); auto.
Qed.

(* ------------------------------------------------------------------------------------------ *)
(* the program sections that are counted                                                        *)
(* the client's listen goroutine, anywhere before its end *)
Definition in_listen (p : pc) : bool :=
  match p with
  | CL0 | CR0 | CR1 | CR2 | CR3 | CR4 | CR5 | CL1 | CL2 | CL3 | CL4 | CL4o => true
  | SD0 Cli _ | SD1 Cli _ _ | SD2 Cli _ _ | SD3 Cli _ _ | SD4 Cli _ => true
  | _ => false
  end.
(* ... before the critical section of its shutdown() *)
Definition pre_sd0_cli (p : pc) : bool :=
  match p with
  | CL0 | CR0 | CR1 | CR2 | CR3 | CR4 | CR5 | CL1 | CL2 | CL3 | CL4 | CL4o | SD0 Cli _ => true
  | _ => false
  end.
Definition side_eqb (a b : side) : bool := match a, b with Cli, Cli | Srv, Srv => true | _, _ => false end.
(* inside shutdown()'s critical section of side d (holds Session.lock) *)
Definition cs (d : side) (p : pc) : bool :=
  match p with SD1 e _ _ | SD2 e _ _ | SD3 e _ _ => side_eqb d e | _ => false end.
(* ... and it is the run that found Closed unset: it will close s.ch *)
Definition pend (d : side) (p : pc) : bool :=
  match p with SD1 e _ false | SD2 e _ false | SD3 e _ false => side_eqb d e | _ => false end.
Definition skip_cli (p : pc) : bool :=
  match p with SD1 Cli _ true | SD2 Cli _ true | SD3 Cli _ true => true | _ => false end.
(* Server.shutdown after the run word was swapped to 2 *)
Definition ss59 (p : pc) : bool := match p with SS5 _ | SS6 _ | SS7 _ | SS8 _ | SS9 _ => true | _ => false end.
Definition ss49 (p : pc) : bool := match p with SS4 _ | SS5 _ | SS6 _ | SS7 _ | SS8 _ | SS9 _ => true | _ => false end.
Definition at5 (p : pc) : bool := match p with SS5 _ => true | _ => false end.
Definition at6 (p : pc) : bool := match p with SS6 _ => true | _ => false end.
Definition at7 (p : pc) : bool := match p with SS7 _ => true | _ => false end.
Definition at8 (p : pc) : bool := match p with SS8 _ => true | _ => false end.
Definition at9 (p : pc) : bool := match p with SS9 _ => true | _ => false end.
Definition at_sd4 (p : pc) : bool := match p with SD4 _ _ => true | _ => false end.
(* Listener.Replace between Lock and Unlock (incl. the Close of a failed bind) *)
Definition lr_cs (p : pc) : bool :=
  match p with
  | LR1 _ | LR2 _ | LR3 _ | LR4 | LR5 => true
  | LC0 RRepl | LC1 RRepl | LC2 RRepl | LC3 RRepl | LC4 RRepl => true
  | SD0 _ RRepl | SD1 _ RRepl _ | SD2 _ RRepl _ | SD3 _ RRepl _ | SD4 _ RRepl => true
  | SC0 RRepl | SC1 RRepl | SC2 RRepl | SC3 RRepl | SC4 RRepl | SC5 RRepl | SC6 RRepl => true
  | _ => false
  end.
Definition at_lr1 (p : pc) : bool := match p with LR1 _ => true | _ => false end.
Definition at_lr23 (p : pc) : bool := match p with LR2 _ | LR3 _ => true | _ => false end.
Definition at_lr4 (p : pc) : bool := match p with LR4 => true | _ => false end.
(* Listener.listen before / up to its last step *)
Definition lt_pre (p : pc) : bool := match p with LT0 | LT1 | LT2 | LT3 => true | _ => false end.
Definition lt_all (p : pc) : bool := match p with LT0 | LT1 | LT2 | LT3 | LT4 => true | _ => false end.

(* ------------------------------------------------------------------------------------------ *)
(* state bits versus channels                                                                   *)
Definition is_nil (c : chan) : bool := chan_eqb c Nil.
Definition sess_ok (s : sess) : bool :=
  negb (is_nil (send s)) && Bool.eqb (is_closed (send s)) (sendc s) && implb (closed s) (sendc s) &&
  (if is_nil (wake s) then negb (wakec s)
   else Bool.eqb (is_closed (wake s)) (wakec s) && implb (closed s) (wakec s)) &&
  Bool.eqb (is_closed (recv s)) (recvc s) &&
  negb (is_nil (done s)) && implb (is_closed (done s)) (closed s).

Arguments shutdown_section : simpl never.

Lemma sess_ok_set_lock b s : sess_ok (set_lock b s) = sess_ok s.
Proof. destruct s; reflexivity. Qed.
Lemma sess_ok_set_mux c s : sess_ok (set_mux c s) = sess_ok s.
Proof. destruct s; reflexivity. Qed.
Lemma sess_ok_set_done s : sess_ok s = true -> closed s = true -> sess_ok (set_done Closed s) = true.
Proof.
  destruct s as [cg sh cd sc wc rc cr sw chn sd wk rv dn mx pk wt lk]; unfold sess_ok, is_nil; simpl.
  intros H E; subst. destruct dn; simpl in *; auto; rewrite ?andb_true_r in *; auto.
  rewrite andb_false_r in H. discriminate.
Qed.

Lemma shutdown_section_ok s :
  sess_ok s = true ->
  exists s', shutdown_section s = inl s' /\ sess_ok s' = true /\ closed s' = true /\ lock s' = true /\
             done s' = done s /\ mux s' = mux s /\ closing s' = closing s /\ shutdown_ s' = shutdown_ s /\
             peek s' = peek s /\ shutwait s' = shutwait s /\ channel s' = channel s /\ canrecv s' = canrecv s.
Proof.
  destruct s as [cg sh cd sc wc rc cr sw chn sd wk rv dn mx pk wt lk].
  unfold sess_ok, shutdown_section, SendClosed, WakeClosed, RecvClosed, CanRecv, is_nil; simpl.
  intros H.
  destruct sd, wk, rv, cd, sc, wc, rc, cr; simpl in *; try discriminate;
    (eexists; split; [reflexivity|]; simpl; repeat split; auto;
     destruct dn; simpl in *; auto).
Qed.

(* ------------------------------------------------------------------------------------------ *)
(* the invariant of the repaired step list                                                      *)
Record Inv (pool : list pc) (w : world) : Prop := {
  i_cl : cl_started w = true;  i_ce : ce_started w = true;  i_lt : lt_started w = true;
  i_run : 1 <= run_ w <= 2;
  i_okc : sess_ok (cli w) = true;  i_okv : sess_ok (srv w) = true;
  i_muxc : is_nil (mux (cli w)) = false;
  i_dnc : is_nil (done (cli w)) = false;  i_dnv : is_nil (done (srv w)) = false;
  i_l1 : cnt in_listen pool + b2n (is_closed (mux (cli w))) = 1;
  i_l2 : cnt pre_sd0_cli pool + b2n (closed (cli w)) = 1;
  i_dc : cnt (pend Cli) pool + b2n (is_closed (done (cli w))) = b2n (closed (cli w));
  i_dv : cnt (pend Srv) pool + b2n (is_closed (done (srv w))) = b2n (closed (srv w));
  i_xc : cnt skip_cli pool = 0;
  i_kc : cnt (cs Cli) pool = b2n (lock (cli w));
  i_kv : cnt (cs Srv) pool = b2n (lock (srv w));
  i_v1 : cnt ss59 pool + b2n (is_closed (sv_done w)) + 1 = run_ w;
  i_v0 : b2n (is_closed (sv_new w)) + 1 <= run_ w;
  i_n1 : is_nil (sv_new w) = false;  i_n2 : is_nil (sv_dell w) = false;  i_n3 : is_nil (sv_dels w) = false;
  i_n4 : is_nil (sv_events w) = false;  i_n5 : is_nil (sv_done w) = false;
  i_v2a : b2n (is_closed (sv_dell w)) <= b2n (is_closed (sv_new w));
  i_v2b : b2n (is_closed (sv_dels w)) <= b2n (is_closed (sv_dell w));
  i_v2c : b2n (is_closed (sv_events w)) <= b2n (is_closed (sv_dels w));
  i_v2d : b2n (is_closed (sv_done w)) <= b2n (is_closed (sv_events w));
  i_v5 : cnt at5 pool + b2n (is_closed (sv_new w)) <= 1;
  i_v6 : cnt at6 pool + b2n (is_closed (sv_dell w)) <= 1;
  i_v7 : cnt at7 pool + b2n (is_closed (sv_dels w)) <= 1;
  i_v8 : cnt at8 pool + b2n (is_closed (sv_events w)) <= 1;
  i_v9 : cnt at9 pool + b2n (is_closed (sv_done w)) <= 1;
  i_w6 : cnt at6 pool <= b2n (is_closed (sv_new w));
  i_w7 : cnt at7 pool <= b2n (is_closed (sv_dell w));
  i_w8 : cnt at8 pool <= b2n (is_closed (sv_dels w));
  i_w9 : cnt at9 pool <= b2n (is_closed (sv_events w));
  i_sd4 : cnt at_sd4 pool = 0;
  i_a1 : cnt lt_pre pool + dellq w = active w;
  i_a2 : active w <> 0 -> cnt ss49 pool = 0;
  i_a2' : b2n (is_closed (sv_new w)) = 1 -> active w = 0;
  i_a3 : cnt lt_all pool + b2n (is_closed (l_done w)) = 1;
  i_a4 : is_nil (l_done w) = false;
  i_r1 : cnt lr_cs pool = b2n (l_rlock w);
  i_r2 : b2n (l_nil w) <= b2n (l_repl w);
  i_r3 : cnt at_lr4 pool + b2n (l_nil w) <= 1;
  i_r4 : cnt at_lr23 pool <= b2n (l_repl w)
}.

(* ------------------------------------------------------------------------------------------ *)
(* tactics                                                                                      *)
Ltac break_match_hyp H :=
  match type of H with
  | context [match ?X with _ => _ end] => destruct X eqn:?
  end.

Lemma b2n_le1 b : b2n b <= 1. Proof. destruct b; simpl; lia. Qed.

(* booleans that occur in the arithmetic facts: split them *)
Ltac split_b2n :=
  repeat match goal with
  | H : context [b2n ?b] |- _ => is_var b; destruct b; simpl b2n in *
  | |- context [b2n ?b] => is_var b; destruct b; simpl b2n in *
  end.

Ltac b2n_bounds :=
  repeat match goal with
  | |- context [b2n ?b] =>
      lazymatch goal with H : b2n b <= 1 |- _ => fail | _ => pose proof (b2n_le1 b) end
  | H : context [b2n ?b] |- _ =>
      lazymatch goal with H' : b2n b <= 1 |- _ => fail | _ => pose proof (b2n_le1 b) end
  end.

Ltac fin :=
  first [ assumption | reflexivity | discriminate | congruence | lia
        | (intros; first [discriminate | congruence | lia | (b2n_bounds; lia)]) ].

Ltac destruct_chans :=
  repeat match goal with c : chan |- _ => destruct c end.

(* ------------------------------------------------------------------------------------------ *)
(* preservation                                                                                 *)
Ltac destruct_world w :=
  let c := fresh "c" in let v := fresh "v" in
  destruct w as [c v li dq cx rc c2 cb ss g1 g2 g3 lcg lcd lwc ld sk lx rn sx ac dl n1 n2 n3 n4 n5 lrp lnl lrk];
  destruct c as [cg sh cd sc wc rcc cr sw chn sd wk rv dn mx pk wt lk];
  destruct v as [cg' sh' cd' sc' wc' rcc' cr' sw' chn' sd' wk' rv' dn' mx' pk' wt' lk'].

Ltac destruct_pc_args :=
  repeat match goal with
  | d : side |- _ => destruct d
  end.

Ltac destruct_inv HI :=
  destruct HI as [Hcl Hce Hlt Hrun Hokc Hokv Hmuxc Hdnc Hdnv Hl1 Hl2 Hdc Hdv Hxc Hkc Hkv Hv1 Hv0 Hn1 Hn2 Hn3 Hn4 Hn5 Hv2a Hv2b Hv2c Hv2d Hv5 Hv6 Hv7 Hv8 Hv9
                  Hw6 Hw7 Hw8 Hw9 Hsd4 Ha1 Ha2 Ha2' Ha3 Ha4 Hr1 Hr2 Hr3 Hr4].

Ltac use_section Hok :=
  match goal with
  | E : shutdown_section ?s = _ |- _ =>
      let s' := fresh "s'" in let F := fresh "F" in
      destruct (shutdown_section_ok s Hok) as [s' F];
      destruct F as (F0 & F1 & F2 & F3 & F4 & F5 & F6 & F7 & F8 & F9 & F10 & F11);
      rewrite F0 in E; injection E as E;
      match type of E with ?a = ?b => subst a; destruct b end;
      cbn in F1, F2, F3, F4, F5, F6, F7, F8, F9, F10, F11; subst
  end.

Lemma cnt_same f l i p p' : nth_error l i = Some p -> f p = f p' -> cnt f (set_nth i p' l) = cnt f l.
Proof. intros H E. pose proof (cnt_set_nth f l i p p' H). rewrite E in H0. lia. Qed.

Lemma at5_le l : cnt at5 l <= cnt ss59 l. Proof. apply cnt_le; intros []; simpl; congruence. Qed.
Lemma at6_le l : cnt at6 l <= cnt ss59 l. Proof. apply cnt_le; intros []; simpl; congruence. Qed.
Lemma at7_le l : cnt at7 l <= cnt ss59 l. Proof. apply cnt_le; intros []; simpl; congruence. Qed.
Lemma at8_le l : cnt at8 l <= cnt ss59 l. Proof. apply cnt_le; intros []; simpl; congruence. Qed.
Lemma at9_le l : cnt at9 l <= cnt ss59 l. Proof. apply cnt_le; intros []; simpl; congruence. Qed.
Lemma ss59_le l : cnt ss59 l <= cnt ss49 l. Proof. apply cnt_le; intros []; simpl; congruence. Qed.
Lemma ss59_split l : cnt at5 l + cnt at6 l + cnt at7 l + cnt at8 l + cnt at9 l = cnt ss59 l.
Proof. induction l as [|a l IH]; simpl; auto. destruct a; simpl; lia. Qed.

Lemma lr_split l : cnt at_lr1 l + cnt at_lr23 l + cnt at_lr4 l <= cnt lr_cs l.
Proof. induction l as [|a l IH]; simpl; auto. destruct a; simpl; lia. Qed.

Ltac simp_cnt Hn :=
  repeat match goal with
  | |- context [cnt ?f (set_nth ?i ?q ?l)] => rewrite (cnt_same f l i _ q Hn (eq_refl _))
  end.

(* equations left by the case analysis of the step: use them in the goal *)
Ltac rw_eqs :=
  repeat match goal with
  | H : ?X = true |- context [?X] => rewrite H
  | H : ?X = false |- context [?X] => rewrite H
  end.

Ltac pf f Hn q :=
  match type of Hn with nth_error ?l ?i = Some ?p =>
    let H := fresh "C" in let H' := fresh "C" in
    pose proof (cnt_set_nth f l i p q Hn) as H; cbn in H;
    pose proof (cnt_ge f l i p Hn) as H'; cbn in H'
  end.

Ltac facts Hn q :=
  pf in_listen Hn q; pf pre_sd0_cli Hn q; pf (pend Cli) Hn q; pf (pend Srv) Hn q; pf skip_cli Hn q;
  pf (cs Cli) Hn q; pf (cs Srv) Hn q; pf at_sd4 Hn q;
  pf ss59 Hn q; pf ss49 Hn q; pf at5 Hn q; pf at6 Hn q; pf at7 Hn q; pf at8 Hn q; pf at9 Hn q;
  pf lt_pre Hn q; pf lt_all Hn q; pf lr_cs Hn q; pf at_lr1 Hn q; pf at_lr23 Hn q; pf at_lr4 Hn q;
  match type of Hn with nth_error ?l _ = _ =>
    pose proof (at5_le l); pose proof (at6_le l); pose proof (at7_le l); pose proof (at8_le l);
    pose proof (at9_le l); pose proof (ss59_le l); pose proof (ss59_split l); pose proof (lr_split l)
  end.

Ltac split_ifs :=
  repeat match goal with
  | H : context [if ?b then _ else _] |- _ => is_var b; destruct b; cbn in H
  | |- context [if ?b then _ else _] => is_var b; destruct b; cbn
  end.

Ltac arith := cbn [b2n] in *; first [ lia | (intros; first [lia | (b2n_bounds; lia)]) ].

Ltac heavy Hn q :=
  facts Hn q; split_ifs;
  first [ arith
        | (* a session after close(s.ch): the Closed flag is set because this thread is counted *)
          (rewrite ?sess_ok_set_lock, ?sess_ok_set_mux; apply sess_ok_set_done;
           [ rewrite ?sess_ok_set_mux; assumption
           | cbn; match goal with |- ?b = true => destruct b; [reflexivity | exfalso; arith] end ])
        | (* a closed channel is not nil *)
          (match goal with |- is_nil _ = false => reflexivity end) ].

Ltac one Hn q :=
  cbn; rw_eqs;
  first [ assumption | reflexivity
        | (simp_cnt Hn; first [assumption | reflexivity])
        | heavy Hn q ].

Lemma step_inv pool w i p w' p' :
  Inv pool w -> nth_error pool i = Some p -> exec New p w = Step w' p' -> Inv (set_nth i p' pool) w'.
Proof.
  intros HI Hn He.
  destruct_inv HI.
  destruct_world w.
  cbn in *.
  destruct p; destruct_pc_args; try (destruct x); try (destruct g); try (destruct w); cbn in He;
    repeat (break_match_hyp He; try discriminate);
    try use_section Hokc; try use_section Hokv;
    inversion He; subst; clear He;
    repeat match goal with
           | |- context [ret_pc ?r] => is_var r; destruct r; cbn [ret_pc]
           | |- context [ret2_pc ?r] => is_var r; destruct r; cbn [ret2_pc]
           end;
    match goal with |- Inv (set_nth _ ?q _) _ => constructor; try one Hn q end.
Qed.

(* ------------------------------------------------------------------------------------------ *)
(* faults                                                                                       *)
Ltac gf f Hn :=
  match type of Hn with nth_error ?l ?i = Some ?p =>
    let H' := fresh "G" in pose proof (cnt_ge f l i p Hn) as H'; cbn in H'
  end.
Ltac ge_facts Hn :=
  gf in_listen Hn; gf pre_sd0_cli Hn; gf (pend Cli) Hn; gf (pend Srv) Hn; gf skip_cli Hn;
  gf (cs Cli) Hn; gf (cs Srv) Hn; gf at_sd4 Hn; gf ss59 Hn; gf ss49 Hn; gf at5 Hn; gf at6 Hn; gf at7 Hn;
  gf at8 Hn; gf at9 Hn; gf lt_pre Hn; gf lt_all Hn; gf lr_cs Hn; gf at_lr1 Hn; gf at_lr23 Hn; gf at_lr4 Hn;
  match type of Hn with nth_error ?l _ = _ => pose proof (lr_split l) end.

Ltac no_section Hok :=
  match goal with
  | E : shutdown_section ?s = inr _ |- _ =>
      let s' := fresh "s'" in let F := fresh "F" in
      destruct (shutdown_section_ok s Hok) as [s' [F _]]; rewrite F in E; discriminate E
  end.

Ltac absurd_eq :=
  match goal with
  | H : true = false |- _ => discriminate H
  | H : false = true |- _ => discriminate H
  end.

Lemma step_fault pool w i p f :
  Inv pool w -> nth_error pool i = Some p -> exec New p w = Fault f -> False.
Proof.
  intros HI Hn He.
  destruct_inv HI.
  destruct_world w.
  cbn in *.
  destruct p; destruct_pc_args; try (destruct x); try (destruct g); try (destruct w); cbn in He;
    unfold close_fault in He;
    repeat (break_match_hyp He; try discriminate);
    repeat match goal with
           | H : match ?c with Nil => _ | _ => _ end = _ |- _ => is_var c; destruct c; try discriminate H
           end;
    try no_section Hokc; try no_section Hokv;
    inversion He; subst; clear He;
    cbn in *; try absurd_eq;
    repeat match goal with
           | H : ?x = false |- _ => is_var x; subst x
           | H : ?x = true |- _ => is_var x; subst x
           end;
    ge_facts Hn; arith.
Qed.

(* ------------------------------------------------------------------------------------------ *)
(* the initial state satisfies the invariant                                                    *)
Lemma cnt_entry f :
  (forall p, entry p = true -> f p = false) -> forall calls, forallb entry calls = true -> cnt f calls = 0.
Proof.
  intros H. induction calls as [|a l IH]; simpl; auto.
  intros E. apply andb_prop in E. destruct E as [E1 E2].
  rewrite (H _ E1). simpl. auto.
Qed.

Ltac entry_class :=
  let p := fresh "p" in
  intros p; destruct p; simpl; intros; try reflexivity; try discriminate;
  repeat match goal with
         | r : ret |- _ => destruct r
         | d : side |- _ => destruct d
         | b : bool |- _ => destruct b
         end; simpl in *; try reflexivity; try discriminate.

Lemma inv_init cpk spk chm rch cbk calls :
  forallb entry calls = true -> Inv (pool0 calls) (world0 cpk spk chm rch cbk).
Proof.
  intros E. unfold pool0.
  constructor; rewrite ?cnt_app;
    repeat match goal with
           | |- context [cnt ?f calls] => rewrite (cnt_entry f ltac:(entry_class) calls E)
           end;
    destruct cpk, spk, chm; vm_compute;
    first [reflexivity | lia | (intros; first [reflexivity | lia | discriminate])].
Qed.

(* ------------------------------------------------------------------------------------------ *)
(* channels_closed_once                                                                         *)
Lemma run_inv sched : forall pool w, Inv pool w ->
  match run New sched pool w with Running pool' w' => Inv pool' w' | Faulted f _ => False end.
Proof.
  apply (run_ind_inv New Inv (fun _ => False)).
  - intros; eapply step_inv; eauto.
  - intros; eapply step_fault; eauto.
Qed.

Lemma channels_closed_once cpk spk chm rch cbk calls sched :
  forallb entry calls = true ->
  faulted (run New sched (pool0 calls) (world0 cpk spk chm rch cbk)) = false.
Proof.
  intros E. pose proof (run_inv sched _ _ (inv_init cpk spk chm rch cbk calls E)) as R.
  destruct (run New sched (pool0 calls) (world0 cpk spk chm rch cbk)); [reflexivity | contradiction].
Qed.

Lemma reachable_inv cpk spk chm rch cbk calls sched pool w :
  forallb entry calls = true ->
  run New sched (pool0 calls) (world0 cpk spk chm rch cbk) = Running pool w -> Inv pool w.
Proof.
  intros E H. pose proof (run_inv sched _ _ (inv_init cpk spk chm rch cbk calls E)) as R.
  rewrite H in R. exact R.
Qed.

(* ------------------------------------------------------------------------------------------ *)
(* the threads of a server teardown (used by the second invariant) *)
Definition ret_td (r : ret) : bool := match r with RDone | RRepl => false | _ => true end.
Definition srv_td (p : pc) : bool :=
  match p with
  | SV0 | SV1 | SV2 | SS0 _ | SS1 _ | SS2 _ | SS3 _ | SS4 _ | SS5 _ | SS6 _ | SS7 _ | SS8 _ | SS9 _ => true
  | SD0 _ r | SD1 _ r _ | SD2 _ r _ | SD3 _ r _ | SD4 _ r => ret_td r
  | SC0 r | SC1 r | SC2 r | SC3 r | SC4 r | SC5 r | SC6 r => ret_td r
  | LC0 r | LC1 r | LC2 r | LC3 r | LC4 r => ret_td r
  | _ => false
  end.

Lemma section_fault_kind s f : shutdown_section s = inr f -> is_remove_race f = false.
Proof.
  unfold shutdown_section, close_fault. intros H.
  repeat match goal with
         | H : context [match ?X with _ => _ end] |- _ => destruct X eqn:?; try discriminate
         end;
  repeat match goal with H : Some _ = Some _ |- _ => inversion H; clear H; subst end;
  inversion H; subst; reflexivity.
Qed.

(* ------------------------------------------------------------------------------------------ *)
(* closed is final (any step list, any state)                                                   *)
Lemma chan_le_refl c : chan_le c c = true. Proof. destruct c; reflexivity. Qed.
Lemma chan_le_trans a b c : chan_le a b = true -> chan_le b c = true -> chan_le a c = true.
Proof. destruct a, b, c; simpl; auto. Qed.
Lemma implb_trans a b c : implb a b = true -> implb b c = true -> implb a c = true.
Proof. destruct a, b, c; simpl; auto. Qed.

Lemma sess_le_refl s : sess_le s s = true.
Proof. unfold sess_le. rewrite !Bool.implb_same, !chan_le_refl. reflexivity. Qed.
Lemma world_le_refl w : world_le w w = true.
Proof. unfold world_le. rewrite !sess_le_refl, !Bool.implb_same, !chan_le_refl. reflexivity. Qed.

Ltac split_andb :=
  repeat match goal with
  | H : _ && _ = true |- _ => apply andb_prop in H; destruct H
  end.

Ltac trans_tac :=
  match goal with
  | |- implb ?a ?c = true =>
      match goal with H1 : implb a ?b = true, H2 : implb ?b c = true |- _ => exact (implb_trans _ _ _ H1 H2) end
  | |- chan_le ?a ?c = true =>
      match goal with H1 : chan_le a ?b = true, H2 : chan_le ?b c = true |- _ => exact (chan_le_trans _ _ _ H1 H2) end
  end.

Lemma sess_le_trans a b c : sess_le a b = true -> sess_le b c = true -> sess_le a c = true.
Proof.
  unfold sess_le. intros H1 H2. split_andb.
  repeat (apply andb_true_intro; split); trans_tac.
Qed.
Lemma world_le_trans a b c : world_le a b = true -> world_le b c = true -> world_le a c = true.
Proof.
  unfold world_le. intros H1 H2. split_andb.
  repeat match goal with
         | H1 : sess_le ?x ?y = true, H2 : sess_le ?y ?z = true |- _ =>
             rewrite (sess_le_trans _ _ _ H1 H2); clear H1 H2
         end; simpl.
  repeat (apply andb_true_intro; split); trans_tac.
Qed.

Lemma implb_orb_l a b : implb a (a || b) = true. Proof. destruct a, b; reflexivity. Qed.

Lemma section_le s s' : shutdown_section s = inl s' -> sess_le s s' = true.
Proof.
  unfold shutdown_section. intros H.
  destruct (if negb (SendClosed s) then close_fault NSend (send s) else None) eqn:E1; [discriminate|].
  destruct (if negb (chan_eqb (wake s) Nil) && negb (WakeClosed s) then close_fault NWake (wake s) else None) eqn:E2;
    [discriminate|].
  destruct (if negb (chan_eqb (recv s) Nil) && negb (CanRecv s) && negb (RecvClosed s)
            then close_fault NRecv (recv s) else None) eqn:E3; [discriminate|].
  inversion H; subst s'; clear H. unfold sess_le; cbn.
  rewrite ?Bool.implb_same, ?Bool.implb_true_r, ?implb_orb_l, ?chan_le_refl. cbn.
  destruct (negb (SendClosed s)); [destruct (send s); try discriminate E1|];
    (destruct (negb (chan_eqb (wake s) Nil) && negb (WakeClosed s)); [destruct (wake s); try discriminate E2|]);
    (destruct (negb (chan_eqb (recv s) Nil) && negb (CanRecv s) && negb (RecvClosed s));
       [destruct (recv s); try discriminate E3|]);
    cbn; rewrite ?chan_le_refl; reflexivity.
Qed.

Ltac le_solve :=
  unfold world_le, sess_le; cbn;
  rewrite ?Bool.implb_same, ?chan_le_refl, ?Bool.implb_true_r; cbn;
  try reflexivity;
  repeat match goal with
         | |- context [implb ?b _] => is_var b; destruct b; cbn
         | |- context [chan_le ?c _] => is_var c; destruct c; cbn
         end; try reflexivity; try discriminate.

Lemma step_le m p w w' p' : exec m p w = Step w' p' -> world_le w w' = true.
Proof.
  intros He.
  destruct w as [c v li dq cx rc c2 cb ss g1 g2 g3 lcg lcd lwc ld sk lx rn sx ac dl n1 n2 n3 n4 n5 lrp lnl lrk].
  destruct c as [cg sh cd sc wc rcc cr sw chn sd wk rv dn mx pk wt lk].
  destruct v as [cg' sh' cd' sc' wc' rcc' cr' sw' chn' sd' wk' rv' dn' mx' pk' wt' lk'].
  destruct p; try (destruct d); cbn in He; unfold close_fault in He;
    repeat (break_match_hyp He; try discriminate);
    inversion He; subst; clear He;
    try (match goal with E : shutdown_section _ = inl ?s |- _ =>
           pose proof (section_le _ _ E) as L; destruct s; unfold world_le; cbn; rewrite L end);
    le_solve.
Qed.

Lemma closed_is_final m sched : forall pool w pool' w',
  run m sched pool w = Running pool' w' -> world_le w w' = true.
Proof.
  induction sched as [|i rest IH]; intros pool w pool' w' H; simpl in H.
  - inversion H; subst. apply world_le_refl.
  - unfold sched1 in H. destruct (nth_error pool i) as [p|]; [|eauto].
    destruct (exec m p w) as [w1 p1| |f] eqn:E; [| eauto | discriminate].
    eapply world_le_trans; [eapply step_le; eauto | eauto].
Qed.

(* ------------------------------------------------------------------------------------------ *)
(* regression: the old step list (the tree before the four repairs)                             *)
Definition w_reg : world := world0 false false false true true.

(* (1) two handlers serve an SvShutdown notice each: both pass the unlocked Closing() test, both
       run shutdown(), both reach close(s.ch).  Schedule [A.test; B.test; A.shutdown; B.shutdown] *)
Definition sched_double_close : list nat := rep 8 5 ++ rep 8 6 ++ rep 7 5 ++ rep 7 6.
Lemma double_close_ch_refuted :
  run Old sched_double_close (pool0 [SH0 false; SH0 false]) w_reg = Faulted (DoubleClose NDone) 6.
Proof. vm_compute. reflexivity. Qed.
Lemma double_close_ch_repaired :
  faulted (run New sched_double_close (pool0 [SH0 false; SH0 false]) w_reg) = false.
Proof. vm_compute. reflexivity. Qed.

(* (2) the eventer goroutine: receiving from its closed channel never blocks and never ends *)
Lemma eventer_spins_old w :
  ctxdone w = false -> is_closed (mux (cli w)) = true ->
  exec Old CE0 w = Step w CE0 /\ exec New CE0 w = Step w PDone.
Proof. intros H1 H2. simpl. rewrite H1, H2. auto. Qed.

(* (3) handler A has tested SendClosed, handler B runs its whole shutdown, A sends the ack *)
Definition sched_send_closed : list nat := rep 3 5 ++ rep 11 6 ++ [5].
Lemma send_on_closed_refuted :
  run Old sched_send_closed (pool0 [SH0 false; SH0 false]) w_reg = Faulted (SendOnClosed NSend) 5.
Proof. vm_compute. reflexivity. Qed.
Lemma send_on_closed_repaired :
  faulted (run New sched_send_closed (pool0 [SH0 false; SH0 false]) w_reg) = false.
Proof. vm_compute. reflexivity. Qed.

(* (4) Close() and a context cancel: the cancel lands after the listen loop looked at the context
       and before its last Connect; the client closes, the reachable server is never told *)
Definition sched_notice_lost : list nat := rep 3 5 ++ rep 4 0 ++ [6] ++ rep 4 0.
Definition notice_lost (r : rstate) : bool :=
  match r with
  | Running _ w => closed (cli w) && reachable w && negb (sent_shut w)
  | Faulted _ _ => false
  end.
Lemma final_notice_lost_refuted :
  notice_lost (run Old sched_notice_lost (pool0 [CC0 true; CX]) w_reg) = true.
Proof. vm_compute. reflexivity. Qed.
Lemma final_notice_repaired :
  notice_lost (run New sched_notice_lost (pool0 [CC0 true; CX]) w_reg) = false.
Proof. vm_compute. reflexivity. Qed.

(* (5) Remove's unlocked IsActive test, then the whole Server.shutdown (which closes delSession),
       then Remove's send *)
Definition sched_remove_race : list nat := rep 5 5 ++ [6; 6] ++ rep 13 2 ++ rep 5 3 ++ rep 7 2 ++ [5].
Lemma remove_race_refuted :
  run Old sched_remove_race (pool0 [SH0 false; SV0]) (world0 false false false true false)
  = Faulted (SendOnClosed NDelS) 5.
Proof. vm_compute. reflexivity. Qed.
Lemma remove_race_repaired :
  faulted (run New sched_remove_race (pool0 [SH0 false; SV0]) (world0 false false false true false)) = false.
Proof. vm_compute. reflexivity. Qed.

(* non-vacuity: three concurrent calls (client Close, server-side Close, context cancel) under the
   fair round-robin schedule: everything returns, both ends closed, the notice went out, the
   server forgot the session, nothing is left running *)
Definition all_done (r : rstate) : bool :=
  match r with
  | Running pool w =>
      forallb quiescent_pc (skipn (length service) pool) &&
      closed (cli w) && is_closed (done (cli w)) && closed (srv w) && is_closed (done (srv w)) &&
      sent_shut w && negb (listed w) &&
      quiescent_pc (nth 0 pool CL0) && quiescent_pc (nth 1 pool CE0)
  | Faulted _ _ => false
  end.
Lemma nonvacuous_three_threads :
  all_done (model_run New false false false true true [[1; 4; 3]]%Z) = true.
Proof. vm_compute. reflexivity. Qed.

(* ------------------------------------------------------------------------------------------ *)
(* second invariant: the notice, the listing, who waits for what                                *)
Definition at_cl24 (p : pc) : bool := match p with CL2 | CL3 | CL4 | CL4o => true | _ => false end.
Definition at_sd_cli (p : pc) : bool :=
  match p with SD0 Cli _ | SD1 Cli _ _ | SD2 Cli _ _ | SD3 Cli _ _ | SD4 Cli _ => true | _ => false end.
Definition at_sd12_srv (p : pc) : bool := match p with SD1 Srv _ _ | SD2 Srv _ _ => true | _ => false end.
Definition at_cc35 (p : pc) : bool := match p with CC3 _ | CC4 _ | CC5 => true | _ => false end.
Definition at_lc24 (p : pc) : bool := match p with LC2 _ | LC3 _ | LC4 _ => true | _ => false end.
Definition at_cl4o (p : pc) : bool := match p with CL4o => true | _ => false end.
Definition td19 (p : pc) : bool :=
  match p with SV0 | SV1 | SV2 | SS0 _ => false | _ => srv_td p end.
(* the client's last transmission carried SvShutdown, or there was no way to reach the server *)
Definition notified (w : world) : nat := b2n (sent_shut w) + b2n (negb (reach w)) + b2n (sock_closed w).

Record Inv2 (pool : list pc) (w : world) : Prop := {
  j_pk : b2n (peek (cli w)) = 0 -> cnt at_cl24 pool = 0;
  j_nt1 : notified w = 0 -> cnt at_sd_cli pool = 0;
  j_nt2 : b2n (closed (cli w)) <= notified w;
  j_fg : b2n (closed (srv w)) <= b2n (negb (listed w)) + delq w + cnt at_sd12_srv pool + b2n (sctx_done w);
  j_dn : b2n (is_closed (sv_done w)) <= b2n (sctx_done w);
  j_ds : b2n (is_closed (sv_dels w)) <= b2n (sctx_done w);
  j_td : b2n (sctx_done w) = 0 -> cnt td19 pool = 0;
  j_cc : b2n (closing (cli w)) = 0 -> cnt at_cc35 pool = 0;
  j_lc : b2n (l_closing w) = 0 -> cnt at_lc24 pool = 0;
  j_o : cnt at_cl4o pool = 0
}.

Lemma at_cl24_le l : cnt at_cl24 l <= cnt in_listen l. Proof. apply cnt_le; intros []; simpl; congruence. Qed.

Ltac facts2 Hn q :=
  pf at_cl24 Hn q; pf at_sd_cli Hn q; pf at_sd12_srv Hn q; pf at_cc35 Hn q; pf at_lc24 Hn q; pf td19 Hn q; pf at_cl4o Hn q;
  pf in_listen Hn q;
  match type of Hn with nth_error ?l _ = _ => pose proof (at_cl24_le l) end.

(* what the case analysis of the step left behind about single booleans *)
Ltac bool_hyps :=
  repeat match goal with
  | H : ?a && ?b = true |- _ => apply andb_prop in H; destruct H
  | H : negb ?x = true |- _ => apply negb_true_iff in H
  | H : negb ?x = false |- _ => apply negb_false_iff in H
  | H : ?a || ?b = false |- _ => apply orb_false_elim in H; destruct H
  | H : ?x = true |- _ => is_var x; subst x
  | H : ?x = false |- _ => is_var x; subst x
  | H : ?a && ?b = false |- _ => apply andb_false_iff in H; destruct H
  | H : ?a || ?b = true |- _ => apply orb_true_iff in H; destruct H
  | H : is_closed ?c = ?v |- _ => rewrite H in *; clear H
  end.

Ltac heavy2 Hn q :=
  facts2 Hn q; split_ifs; unfold reachable, server_active in *; cbn [reach sock_closed sv_done sctx_done] in *;
  bool_hyps; cbn [b2n negb andb orb] in *; arith.

Ltac one2 Hn q :=
  cbn; rw_eqs;
  first [ assumption | reflexivity
        | (simp_cnt Hn; first [assumption | reflexivity])
        | heavy2 Hn q ].

Lemma step_inv2 pool w i p w' p' :
  Inv pool w -> Inv2 pool w -> nth_error pool i = Some p -> exec New p w = Step w' p' ->
  Inv2 (set_nth i p' pool) w'.
Proof.
  intros HI HJ Hn He.
  pose proof (i_l1 _ _ HI) as Hl1. pose proof (i_okc _ _ HI) as Hokc. pose proof (i_okv _ _ HI) as Hokv.
  clear HI.
  destruct HJ as [Jpk Jnt1 Jnt2 Jfg Jdn Jds Jtd Jcc Jlc Jo].
  destruct_world w.
  unfold notified, reachable in *. cbn in *.
  destruct p; destruct_pc_args; try (destruct x); try (destruct g); try (destruct w); cbn in He;
    repeat (break_match_hyp He; try discriminate);
    try use_section Hokc; try use_section Hokv;
    inversion He; subst; clear He;
    repeat match goal with
           | |- context [ret_pc ?r] => is_var r; destruct r; cbn [ret_pc]
           | |- context [ret2_pc ?r] => is_var r; destruct r; cbn [ret2_pc]
           end;
    match goal with |- Inv2 (set_nth _ ?q _) _ => constructor; unfold notified; try one2 Hn q end.
Qed.

Lemma inv2_init cpk spk chm rch cbk calls :
  forallb entry calls = true -> Inv2 (pool0 calls) (world0 cpk spk chm rch cbk).
Proof.
  intros E. unfold pool0.
  constructor; unfold notified; rewrite ?cnt_app;
    repeat match goal with
           | |- context [cnt ?f calls] => rewrite (cnt_entry f ltac:(entry_class) calls E)
           end;
    destruct cpk, spk, chm, rch; vm_compute;
    first [reflexivity | lia | (intros; first [reflexivity | lia | discriminate])].
Qed.

Definition Inv12 (pool : list pc) (w : world) : Prop := Inv pool w /\ Inv2 pool w.

Lemma run_inv12 sched : forall pool w, Inv12 pool w ->
  match run New sched pool w with Running pool' w' => Inv12 pool' w' | Faulted f _ => False end.
Proof.
  apply (run_ind_inv New Inv12 (fun _ => False)).
  - intros ? ? ? ? ? ? [A B] ? ?; split; [eapply step_inv | eapply step_inv2]; eauto.
  - intros ? ? ? ? ? [A B] ? ?; eapply step_fault; eauto.
Qed.

Lemma reachable_inv12 cpk spk chm rch cbk calls sched pool w :
  forallb entry calls = true ->
  run New sched (pool0 calls) (world0 cpk spk chm rch cbk) = Running pool w -> Inv12 pool w.
Proof.
  intros E H.
  pose proof (run_inv12 sched _ _ (conj (inv_init cpk spk chm rch cbk calls E) (inv2_init cpk spk chm rch cbk calls E))) as R.
  rewrite H in R. exact R.
Qed.

(* peer_notified, client side: a closed client whose server was reachable has sent SvShutdown *)
Lemma peer_notified_inv pool w :
  Inv2 pool w -> closed (cli w) = true -> reachable w = true -> sent_shut w = true.
Proof.
  intros [_ _ J _ _ _ _ _ _ _] Hc Hr. unfold notified, reachable in *.
  rewrite Hc in J. apply andb_prop in Hr. destruct Hr as [Hr1 Hr2].
  rewrite Hr1 in J. apply negb_true_iff in Hr2. rewrite Hr2 in J. simpl in J.
  destruct (sent_shut w); auto. simpl in J. lia.
Qed.

(* server_forgets: a closed server-side session is unlisted as soon as the removal requests
   that its shutdown queued have been taken by the server loop *)
Lemma server_forgets_inv pool w :
  Inv2 pool w -> closed (srv w) = true -> sctx_done w = false -> delq w = 0 -> cnt at_sd12_srv pool = 0 ->
  listed w = false.
Proof.
  intros [_ _ _ J _ _ _ _ _ _] Hc Hs Hd Hn. rewrite Hc, Hs, Hd, Hn in J. simpl in J.
  destruct (listed w); auto. simpl in J. lia.
Qed.

(* ------------------------------------------------------------------------------------------ *)
(* close_returns: the goroutine a waiting close call depends on is never stuck                  *)
Lemma cnt_two f g : forall l i p,
  nth_error l i = Some p -> f p = true -> g p = false -> (forall q, g q = true -> f q = true) ->
  cnt g l + 1 <= cnt f l.
Proof.
  intros l i p Hn Hf Hg Hs. revert i Hn.
  induction l as [|a l IH]; intros [|i] Hn; simpl in *; try discriminate.
  - inversion Hn; subst. rewrite Hf, Hg. simpl. pose proof (cnt_le g f l Hs). lia.
  - specialize (IH _ Hn). destruct (g a) eqn:E; simpl; [rewrite (Hs _ E); simpl|]; lia.
Qed.

Lemma chan_le_closed a b : chan_le a b = true -> is_closed a = true -> is_closed b = true.
Proof. destruct a, b; simpl; auto; discriminate. Qed.

Lemma step_keeps m p w w' p' :
  exec m p w = Step w' p' ->
  (closing (cli w) = true -> closing (cli w') = true) /\
  (is_closed (done (cli w)) = true -> is_closed (done (cli w')) = true) /\
  (l_closing w = true -> l_closing w' = true) /\
  (is_closed (l_done w) = true -> is_closed (l_done w') = true).
Proof.
  intros H. apply step_le in H. unfold world_le, sess_le in H. split_andb.
  repeat split; intros E.
  - match goal with A : implb (closing (cli w)) _ = true |- _ => rewrite E in A; exact A end.
  - match goal with A : chan_le (done (cli w)) _ = true |- _ => eapply chan_le_closed; eauto end.
  - match goal with A : implb (l_closing w) _ = true |- _ => rewrite E in A; exact A end.
  - match goal with A : chan_le (l_done w) _ = true |- _ => eapply chan_le_closed; eauto end.
Qed.

(* the client's listen goroutine (thread 0 of the pool) *)
Definition listen_pc (p : pc) : bool :=
  match p with
  | CL0 | CR0 | CR1 | CR2 | CR3 | CR4 | CR5 | CL1 | CL2 | CL3 | CL4 | SD0 Cli RDone | SD3 Cli RDone _ | PDone => true
  | _ => false
  end.
Definition lrank (p : pc) : nat :=
  match p with
  | CR0 => 16 | CR1 => 15 | CR2 => 14 | CR3 => 13 | CR4 => 12 | CR5 => 11 | CL0 => 10 | CL1 => 9 | CL2 => 8
  | CL3 => 7 | CL4 => 6 | SD0 _ _ => 5 | SD3 _ _ _ => 4 | _ => 0
  end.

Lemma in_listen_cs q : cs Cli q = true -> in_listen q = true.
Proof. destruct q; simpl; try discriminate; destruct d; simpl; auto; discriminate. Qed.

Lemma listen_step pool w p :
  Inv pool w -> closing (cli w) = true -> nth_error pool 0 = Some p -> listen_pc p = true -> p <> PDone ->
  exists w' p', exec New p w = Step w' p' /\ listen_pc p' = true /\ lrank p' < lrank p /\
                (p' = PDone -> is_closed (done (cli w')) = true).
Proof.
  intros HI Hc Hn Hl Hne.
  destruct (exec New p w) as [w' p'| |f] eqn:E.
  - exists w', p'. split; [reflexivity|].
    pose proof (cnt_ge skip_cli pool 0 p Hn) as G.
    destruct_inv HI. destruct_world w. cbn in *. subst cg.
    destruct p; try discriminate Hl; try (destruct d; try discriminate Hl); try (destruct r; try discriminate Hl);
      try (destruct x); cbn in E, G;
      repeat (break_match_hyp E; try discriminate);
      try (match goal with H : Closing _ = false |- _ =>
             unfold Closing in H; cbn in H; rewrite orb_true_r in H; discriminate H end);
      try use_section Hokc;
      inversion E; subst; clear E; cbn;
      repeat split; try reflexivity; try lia; try discriminate; try (exfalso; lia).
  - exfalso.
    pose proof (cnt_two in_listen (cs Cli) pool 0 p Hn) as T.
    destruct_inv HI. destruct_world w. cbn in *. subst cg.
    destruct p; try discriminate Hl; try (destruct d; try discriminate Hl); try (destruct r; try discriminate Hl);
      try (destruct x); try congruence; cbn in E;
      rewrite ?orb_true_r in E;
      repeat (break_match_hyp E; try discriminate); try discriminate E.
    all: try (specialize (T eq_refl eq_refl in_listen_cs); cbn [b2n] in *; lia).
    all: try no_section Hokc.
    all: try (match goal with H : Closing _ = false |- _ =>
                unfold Closing in H; cbn in H; rewrite orb_true_r in H; discriminate H end).
  - exfalso. eapply step_fault; eauto.
Qed.

(* a goroutine (thread k of the pool) that, while [cond] holds, can always take its next step
   and gets strictly closer to its end: after [rank] of its own steps it is done, whatever the
   other threads do in between *)
Section Progress.
  Variables (k : nat) (good : pc -> bool) (rank : pc -> nat) (cond post : world -> bool).
  Hypothesis good_step : forall pool w p,
    Inv pool w -> cond w = true -> nth_error pool k = Some p -> good p = true -> p <> PDone ->
    exists w' p', exec New p w = Step w' p' /\ good p' = true /\ rank p' < rank p /\ (p' = PDone -> post w' = true).
  Hypothesis keeps : forall p w w' p',
    exec New p w = Step w' p' -> (cond w = true -> cond w' = true) /\ (post w = true -> post w' = true).
  Hypothesis rank_done : rank PDone = 0.

  Lemma progress : forall sched pool w p,
    Inv pool w -> cond w = true -> nth_error pool k = Some p -> good p = true ->
    (p = PDone -> post w = true) ->
    match run New sched pool w with
    | Running pool' w' =>
        exists p', nth_error pool' k = Some p' /\ good p' = true /\
                   rank p' <= rank p - count_occ_nat k sched /\ (p' = PDone -> post w' = true)
    | Faulted _ _ => True
    end.
  Proof.
    induction sched as [|i rest IH]; intros pool w p HI Hc Hn Hl Hd.
    - simpl. exists p. repeat split; auto. lia.
    - cbn [run count_occ_nat]. unfold sched1. destruct (nth_error pool i) as [q|] eqn:En.
      + destruct (Nat.eq_dec i k) as [Ek|Ek].
        * subst i. rewrite Nat.eqb_refl. rewrite Hn in En. inversion En; subst q.
          assert (D : p = PDone \/ p <> PDone) by (destruct p; auto; right; discriminate).
          destruct D as [D|D].
          { subst p. cbn [exec]. specialize (IH pool w PDone HI Hc Hn Hl Hd).
            destruct (run New rest pool w); auto.
            destruct IH as (p' & A1 & A2 & A3 & A4). exists p'. repeat split; auto. lia. }
          { destruct (good_step pool w p HI Hc Hn Hl D) as (w1 & p1 & E1 & L1 & R1 & D1).
            rewrite E1.
            specialize (IH (set_nth k p1 pool) w1 p1 (step_inv _ _ _ _ _ _ HI Hn E1)
                           (proj1 (keeps _ _ _ _ E1) Hc)
                           (nth_error_set_nth_same _ _ _ _ Hn) L1 D1).
            destruct (run New rest (set_nth k p1 pool) w1); auto.
            destruct IH as (p' & A1 & A2 & A3 & A4). exists p'. repeat split; auto. lia. }
        * assert (Eb : Nat.eqb i k = false) by (apply Nat.eqb_neq; auto). rewrite Eb. cbn [Nat.add].
          destruct (exec New q w) as [w1 q1| |f] eqn:E; auto.
          -- destruct (keeps _ _ _ _ E) as (K1 & K2).
             specialize (IH (set_nth i q1 pool) w1 p (step_inv _ _ _ _ _ _ HI En E) (K1 Hc)).
             rewrite nth_error_set_nth_other in IH by auto.
             exact (IH Hn Hl (fun e => K2 (Hd e))).
          -- apply (IH pool w p); auto.
      + destruct (Nat.eq_dec i k) as [Ek|Ek]; [subst; congruence|].
        assert (Eb : Nat.eqb i k = false) by (apply Nat.eqb_neq; auto). rewrite Eb. cbn [Nat.add].
        apply (IH pool w p); auto.
  Qed.
End Progress.

Lemma keeps_client p w w' p' :
  exec New p w = Step w' p' ->
  (closing (cli w) = true -> closing (cli w') = true) /\
  (is_closed (done (cli w)) = true -> is_closed (done (cli w')) = true).
Proof. intros H. destruct (step_keeps _ _ _ _ _ H) as (A & B & _ & _). auto. Qed.

Definition listen_progress :=
  progress 0 listen_pc lrank (fun w => closing (cli w)) (fun w => is_closed (done (cli w))) listen_step keeps_client eq_refl.

Lemma lrank_zero p : listen_pc p = true -> lrank p = 0 -> p = PDone.
Proof. destruct p; simpl; intros; try discriminate; try lia; auto. Qed.
Lemma lrank_max p : lrank p <= 16.
Proof. destruct p; simpl; lia. Qed.

(* Session.Close on the client: the wait for s.ch ends, under the one fairness assumption that
   the listen goroutine is scheduled (16 of its own steps suffice) *)
Lemma client_close_returns sched pool w p pool' w' :
  Inv pool w -> closing (cli w) = true ->
  nth_error pool 0 = Some p -> listen_pc p = true -> (p = PDone -> is_closed (done (cli w)) = true) ->
  16 <= count_occ_nat 0 sched ->
  run New sched pool w = Running pool' w' ->
  is_closed (done (cli w')) = true /\ nth_error pool' 0 = Some PDone /\ exec New CC5 w' = Step w' PDone.
Proof.
  intros HI Hc Hn Hl Hd Hk Hr.
  pose proof (listen_progress sched pool w p HI Hc Hn Hl Hd) as P.
  rewrite Hr in P. destruct P as (p' & A1 & A2 & A3 & A4).
  pose proof (lrank_max p).
  assert (p' = PDone) by (apply lrank_zero; auto; lia).
  subst p'. specialize (A4 eq_refl). repeat split; auto.
  simpl. rewrite A4. reflexivity.
Qed.

(* ---- Listener.Close: the listener goroutine is thread 3 ---- *)
Definition listener_pc (p : pc) : bool :=
  match p with LT0 | LT1 | LT2 | LT3 | LT4 | PDone => true | _ => false end.
Definition trank (p : pc) : nat :=
  match p with LT0 => 5 | LT1 => 4 | LT2 => 3 | LT3 => 2 | LT4 => 1 | _ => 0 end.

Lemma listener_step pool w p :
  Inv pool w -> l_closing w = true -> nth_error pool 3 = Some p -> listener_pc p = true -> p <> PDone ->
  exists w' p', exec New p w = Step w' p' /\ listener_pc p' = true /\ trank p' < trank p /\
                (p' = PDone -> is_closed (l_done w') = true).
Proof.
  intros HI Hc Hn Hl Hne.
  destruct (exec New p w) as [w' p'| |f] eqn:E.
  - exists w', p'. split; [reflexivity|].
    destruct_world w. cbn in Hc. subst lcg.
    destruct p; try discriminate Hl; cbn in E; rewrite ?orb_true_r in E;
      repeat (break_match_hyp E; try discriminate);
      inversion E; subst; clear E; cbn;
      repeat split; try reflexivity; try lia; try discriminate.
  - exfalso. destruct_world w. cbn in Hc. subst lcg.
    destruct p; try discriminate Hl; try congruence; cbn in E; rewrite ?orb_true_r in E;
      repeat (break_match_hyp E; try discriminate); try discriminate E.
  - exfalso. eapply step_fault; eauto.
Qed.

Lemma keeps_listener p w w' p' :
  exec New p w = Step w' p' ->
  (l_closing w = true -> l_closing w' = true) /\
  (is_closed (l_done w) = true -> is_closed (l_done w') = true).
Proof. intros H. destruct (step_keeps _ _ _ _ _ H) as (_ & _ & A & B). auto. Qed.

Definition listener_progress :=
  progress 3 listener_pc trank (fun w => l_closing w) (fun w => is_closed (l_done w)) listener_step keeps_listener eq_refl.

Lemma trank_zero p : listener_pc p = true -> trank p = 0 -> p = PDone.
Proof. destruct p; simpl; intros; try discriminate; try lia; auto. Qed.

Lemma listener_close_returns sched pool w p pool' w' r :
  Inv pool w -> l_closing w = true ->
  nth_error pool 3 = Some p -> listener_pc p = true -> (p = PDone -> is_closed (l_done w) = true) ->
  5 <= count_occ_nat 3 sched ->
  run New sched pool w = Running pool' w' ->
  is_closed (l_done w') = true /\ exec New (LC4 r) w' = Step w' (ret_pc r).
Proof.
  intros HI Hc Hn Hl Hd Hk Hr.
  pose proof (listener_progress sched pool w p HI Hc Hn Hl Hd) as P.
  rewrite Hr in P. destruct P as (p' & A1 & A2 & A3 & A4).
  assert (trank p <= 5) by (destruct p; simpl; lia).
  assert (p' = PDone) by (apply trank_zero; auto; lia).
  subst p'. specialize (A4 eq_refl). split; auto.
  simpl. rewrite A4. reflexivity.
Qed.

(* ---- reachable states: thread 0 is the listen goroutine, thread 3 the listener ---- *)
Lemma listen_pc_step pool w p w' p' :
  Inv pool w -> nth_error pool 0 = Some p -> listen_pc p = true -> exec New p w = Step w' p' ->
  listen_pc p' = true /\ (p' = PDone -> is_closed (done (cli w')) = true).
Proof.
  intros HI Hn Hl E.
  pose proof (cnt_ge skip_cli pool 0 p Hn) as G.
  destruct_inv HI. destruct_world w. cbn in *.
  destruct p; try discriminate Hl; try (destruct d; try discriminate Hl); try (destruct r; try discriminate Hl);
    try (destruct x); cbn in E, G;
    repeat (break_match_hyp E; try discriminate);
    try use_section Hokc;
    inversion E; subst; clear E; cbn;
    repeat split; try reflexivity; try lia; try discriminate; try (exfalso; lia).
Qed.

Lemma listener_pc_step w p w' p' :
  listener_pc p = true -> exec New p w = Step w' p' ->
  listener_pc p' = true /\ (p' = PDone -> is_closed (l_done w') = true).
Proof.
  intros Hl E. destruct_world w.
  destruct p; try discriminate Hl; cbn in E;
    repeat (break_match_hyp E; try discriminate);
    inversion E; subst; clear E; cbn;
    repeat split; try reflexivity; try discriminate.
Qed.

Definition InvL (pool : list pc) (w : world) : Prop :=
  (exists p, nth_error pool 0 = Some p /\ listen_pc p = true /\ (p = PDone -> is_closed (done (cli w)) = true)) /\
  (exists p, nth_error pool 3 = Some p /\ listener_pc p = true /\ (p = PDone -> is_closed (l_done w) = true)).

Definition Inv3 (pool : list pc) (w : world) : Prop := Inv pool w /\ Inv2 pool w /\ InvL pool w.

Lemma step_invL pool w i p w' p' :
  Inv pool w -> InvL pool w -> nth_error pool i = Some p -> exec New p w = Step w' p' ->
  InvL (set_nth i p' pool) w'.
Proof.
  intros HI [(a & A1 & A2 & A3) (b & B1 & B2 & B3)] Hn E.
  destruct (step_keeps _ _ _ _ _ E) as (_ & K2 & _ & K4).
  split.
  - destruct (Nat.eq_dec i 0) as [E0|E0].
    + subst i. rewrite A1 in Hn. inversion Hn; subst p.
      destruct (listen_pc_step _ _ _ _ _ HI A1 A2 E) as (L1 & L2).
      exists p'. split; [eapply nth_error_set_nth_same; eauto | auto].
    + exists a. rewrite nth_error_set_nth_other by auto. repeat split; auto.
  - destruct (Nat.eq_dec i 3) as [E0|E0].
    + subst i. rewrite B1 in Hn. inversion Hn; subst p.
      destruct (listener_pc_step _ _ _ _ B2 E) as (L1 & L2).
      exists p'. split; [eapply nth_error_set_nth_same; eauto | auto].
    + exists b. rewrite nth_error_set_nth_other by auto. repeat split; auto.
Qed.

Lemma run_inv3 sched : forall pool w, Inv3 pool w ->
  match run New sched pool w with Running pool' w' => Inv3 pool' w' | Faulted f _ => False end.
Proof.
  apply (run_ind_inv New Inv3 (fun _ => False)).
  - intros ? ? ? ? ? ? (A & B & C) ? ?; split; [|split];
      [eapply step_inv | eapply step_inv2 | eapply step_invL]; eauto.
  - intros ? ? ? ? ? (A & B & C) ? ?; eapply step_fault; eauto.
Qed.

Lemma inv3_init cpk spk chm rch cbk calls :
  forallb entry calls = true -> Inv3 (pool0 calls) (world0 cpk spk chm rch cbk).
Proof.
  intros E. split; [|split; [|split]]; [apply inv_init | apply inv2_init | | ]; auto.
  - exists CL0. repeat split; auto. discriminate.
  - exists LT0. repeat split; auto. discriminate.
Qed.

Lemma reachable_inv3 cpk spk chm rch cbk calls sched pool w :
  forallb entry calls = true ->
  run New sched (pool0 calls) (world0 cpk spk chm rch cbk) = Running pool w -> Inv3 pool w.
Proof.
  intros E H. pose proof (run_inv3 sched _ _ (inv3_init cpk spk chm rch cbk calls E)) as R.
  rewrite H in R. exact R.
Qed.

(* close_returns, stated on reachable states *)
Lemma close_returns_client cpk spk chm rch cbk calls s0 pool w j q s1 pool' w' :
  forallb entry calls = true ->
  run New s0 (pool0 calls) (world0 cpk spk chm rch cbk) = Running pool w ->
  nth_error pool j = Some q -> at_cc35 q = true ->
  16 <= count_occ_nat 0 s1 ->
  run New s1 pool w = Running pool' w' ->
  is_closed (done (cli w')) = true /\ exec New CC5 w' = Step w' PDone.
Proof.
  intros E H0 Hj Hq Hk H1.
  destruct (reachable_inv3 _ _ _ _ _ _ _ _ _ E H0) as (HI & HJ & ((a & A1 & A2 & A3) & _)).
  assert (Hc : closing (cli w) = true).
  { pose proof (cnt_ge at_cc35 pool j q Hj) as G. rewrite Hq in G. simpl in G.
    pose proof (j_cc _ _ HJ) as C. destruct (closing (cli w)); auto. simpl in C. specialize (C eq_refl). lia. }
  destruct (client_close_returns s1 pool w a pool' w' HI Hc A1 A2 A3 Hk H1) as (R1 & _ & R3). auto.
Qed.

Lemma close_returns_listener cpk spk chm rch cbk calls s0 pool w j q s1 pool' w' r :
  forallb entry calls = true ->
  run New s0 (pool0 calls) (world0 cpk spk chm rch cbk) = Running pool w ->
  nth_error pool j = Some q -> at_lc24 q = true ->
  5 <= count_occ_nat 3 s1 ->
  run New s1 pool w = Running pool' w' ->
  is_closed (l_done w') = true /\ exec New (LC4 r) w' = Step w' (ret_pc r).
Proof.
  intros E H0 Hj Hq Hk H1.
  destruct (reachable_inv3 _ _ _ _ _ _ _ _ _ E H0) as (HI & HJ & (_ & (b & B1 & B2 & B3))).
  assert (Hc : l_closing w = true).
  { pose proof (cnt_ge at_lc24 pool j q Hj) as G. rewrite Hq in G. simpl in G.
    pose proof (j_lc _ _ HJ) as C. destruct (l_closing w); auto. simpl in C. specialize (C eq_refl). lia. }
  eapply listener_close_returns; eauto.
Qed.

(* ---- peer_notified, server side: Close queues the notice; its receipt closes the client ---- *)
Lemma server_close_queues_notice m r w :
  exec m (SC2 r) w = Step (put Srv (set_peek true (srv w)) w) (SC3 r) /\
  peek (srv (put Srv (set_peek true (srv w)) w)) = true.
Proof. destruct w; simpl; auto. Qed.

(* the exchange that delivers it: the listen goroutine takes the packet and stands at CR0 *)
Lemma notice_is_delivered w :
  Closing (cli w) = false -> ctxdone w = false -> callsback w = true -> reachable w = true -> peek (srv w) = true ->
  exec New CL0 w = Step (put Srv (set_peek false (srv w)) w) CR0.
Proof. intros H1 H2 H3 H4 H5. simpl. rewrite H1, H2, H3, H4, H5. reflexivity. Qed.

Lemma Closing_keeps m p w w' p' :
  exec m p w = Step w' p' -> Closing (cli w) = true -> Closing (cli w') = true.
Proof.
  intros H. apply step_le in H. unfold world_le, sess_le in H. split_andb.
  unfold Closing. intros E. apply orb_true_iff in E. apply orb_true_iff.
  destruct E as [E|E]; [left|right];
    match goal with A : implb ?x _ = true |- _ = true => rewrite E in A; exact A end.
Qed.

Lemma Closing_stays : forall s pool w pool' w',
  Closing (cli w) = true -> run New s pool w = Running pool' w' -> Closing (cli w') = true.
Proof.
  induction s as [|i s IH]; intros pool w pool' w' Hc H; simpl in H.
  - inversion H; subst; auto.
  - unfold sched1 in H. destruct (nth_error pool i) as [p|]; eauto.
    destruct (exec New p w) eqn:Ex; try discriminate; eauto using Closing_keeps.
Qed.

Definition crank (p : pc) : nat := match p with CR0 => 4 | CR1 => 3 | CR2 => 2 | CR3 => 1 | _ => 0 end.

Lemma exec_CR0 w : Closing (cli w) = false -> exec New CR0 w = Step w CR1.
Proof. intros H. simpl. rewrite H. reflexivity. Qed.
Lemma exec_CR1 w : Closing (cli w) = false -> exec New CR1 w = Step w CR2.
Proof. intros H. simpl. rewrite H. reflexivity. Qed.
Lemma exec_CR2 w : exec New CR2 w = Step (put Cli (unset_channel (cli w)) w) CR3.
Proof. reflexivity. Qed.
Lemma exec_CR3 w : exec New CR3 w = Step (put Cli (set_closing (cli w)) w) CR4.
Proof. reflexivity. Qed.

Lemma receipt_progress : forall sched pool w p,
  nth_error pool 0 = Some p -> (Closing (cli w) = true \/ 1 <= crank p) ->
  match run New sched pool w with
  | Running pool' w' =>
      Closing (cli w') = true \/
      exists p', nth_error pool' 0 = Some p' /\ 1 <= crank p' /\ crank p' + count_occ_nat 0 sched <= crank p
  | Faulted _ _ => True
  end.
Proof.
  induction sched as [|i rest IH]; intros pool w p Hn D.
  - simpl. destruct D as [D|D]; auto. right. exists p. repeat split; auto. lia.
  - destruct (Closing (cli w)) eqn:Ec.
    { destruct (run New (i :: rest) pool w) eqn:R; auto. left. eapply Closing_stays; eauto. }
    destruct D as [D|D]; [discriminate|].
    cbn [run count_occ_nat]. unfold sched1.
    destruct (nth_error pool i) as [q|] eqn:En.
    + destruct (Nat.eq_dec i 0) as [E0|E0].
      * subst i. rewrite Hn in En. inversion En; subst q. cbn [Nat.eqb Nat.add].
        destruct p; simpl in D; try lia;
          rewrite ?(exec_CR0 _ Ec), ?(exec_CR1 _ Ec), ?exec_CR2, ?exec_CR3.
        -- (* CR0 *) specialize (IH (set_nth 0 CR1 pool) w CR1 (nth_error_set_nth_same _ _ _ _ Hn) ltac:(right; simpl; lia)).
           destruct (run New rest (set_nth 0 CR1 pool) w); auto.
           destruct IH as [IH|(p' & A & B & C)]; auto. right. exists p'. simpl in *. repeat split; auto; lia.
        -- (* CR1 *) specialize (IH (set_nth 0 CR2 pool) w CR2 (nth_error_set_nth_same _ _ _ _ Hn) ltac:(right; simpl; lia)).
           destruct (run New rest (set_nth 0 CR2 pool) w); auto.
           destruct IH as [IH|(p' & A & B & C)]; auto. right. exists p'. simpl in *. repeat split; auto; lia.
        -- (* CR2 *)
           match goal with |- context [run New rest (set_nth 0 CR3 pool) ?w1] =>
             assert (Ec1 : Closing (cli w1) = false) by (destruct w as [[] ? ? ? ? ? ? ? ? ? ? ? ? ? ? ? ? ? ? ? ? ? ? ? ? ? ? ? ? ?]; exact Ec);
             specialize (IH (set_nth 0 CR3 pool) w1 CR3 (nth_error_set_nth_same _ _ _ _ Hn) ltac:(right; simpl; lia));
             destruct (run New rest (set_nth 0 CR3 pool) w1); auto end.
           destruct IH as [IH|(p' & A & B & C)]; auto. right. exists p'. simpl in *. repeat split; auto; lia.
        -- (* CR3 *)
           match goal with |- context [run New rest (set_nth 0 CR4 pool) ?w1] =>
             assert (Ec1 : Closing (cli w1) = true) by (destruct w as [[] ? ? ? ? ? ? ? ? ? ? ? ? ? ? ? ? ? ? ? ? ? ? ? ? ? ? ? ? ?]; unfold Closing; simpl; apply orb_true_r);
             destruct (run New rest (set_nth 0 CR4 pool) w1) eqn:R; auto; left; eapply Closing_stays; eauto end.
      * assert (Eb : Nat.eqb i 0 = false) by (apply Nat.eqb_neq; auto). rewrite Eb. cbn [Nat.add].
        destruct (exec New q w) as [w1 q1| |f] eqn:E; auto.
        -- specialize (IH (set_nth i q1 pool) w1 p).
           rewrite nth_error_set_nth_other in IH by auto.
           apply IH; auto.
        -- apply (IH pool w p); auto.
    + destruct (Nat.eq_dec i 0) as [E0|E0]; [subst; congruence|].
      assert (Eb : Nat.eqb i 0 = false) by (apply Nat.eqb_neq; auto). rewrite Eb. cbn [Nat.add].
      apply (IH pool w p); auto.
Qed.

(* a client whose listen goroutine has received the server's notice (stands at CR0) is closing
   after four more steps of that goroutine, whatever else runs in between *)
Lemma receipt_closes_client sched pool w pool' w' :
  nth_error pool 0 = Some CR0 -> 4 <= count_occ_nat 0 sched ->
  run New sched pool w = Running pool' w' -> Closing (cli w') = true.
Proof.
  intros Hn Hk Hr.
  pose proof (receipt_progress sched pool w CR0 Hn ltac:(right; simpl; lia)) as P.
  rewrite Hr in P. destruct P as [P|(p' & A & B & C)]; auto. simpl in C. lia.
Qed.

(* ------------------------------------------------------------------------------------------ *)
(* the statements on reachable states                                                           *)
Lemma peer_notified_client cpk spk chm rch cbk calls sched pool w :
  forallb entry calls = true ->
  run New sched (pool0 calls) (world0 cpk spk chm rch cbk) = Running pool w ->
  closed (cli w) = true -> reachable w = true -> sent_shut w = true.
Proof.
  intros E H. destruct (reachable_inv3 _ _ _ _ _ _ _ _ _ E H) as (_ & HJ & _).
  eapply peer_notified_inv; eauto.
Qed.

Lemma server_forgets cpk spk chm rch cbk calls sched pool w :
  forallb entry calls = true ->
  run New sched (pool0 calls) (world0 cpk spk chm rch cbk) = Running pool w ->
  closed (srv w) = true -> sctx_done w = false -> delq w = 0 -> cnt at_sd12_srv pool = 0 ->
  listed w = false.
Proof.
  intros E H. destruct (reachable_inv3 _ _ _ _ _ _ _ _ _ E H) as (_ & HJ & _).
  eapply server_forgets_inv; eauto.
Qed.

(* the flags and the channels agree in every reachable state (what the harness checks on the
   implementation at quiescence) *)
Lemma flags_match_channels cpk spk chm rch cbk calls sched pool w :
  forallb entry calls = true ->
  run New sched (pool0 calls) (world0 cpk spk chm rch cbk) = Running pool w ->
  sess_ok (cli w) = true /\ sess_ok (srv w) = true.
Proof.
  intros E H. destruct (reachable_inv3 _ _ _ _ _ _ _ _ _ E H) as (HI & _ & _).
  split; [apply (i_okc _ _ HI) | apply (i_okv _ _ HI)].
Qed.

Lemma replace_history_example :
  match model_run New false false false true false [[21]; [20]; [10]]%Z with
  | Running pool w => forallb quiescent_pc (skipn (length service) pool) && is_closed (l_done w) && negb (l_repl w) && negb (l_nil w)
  | Faulted _ _ => false
  end = true.
Proof. vm_compute. reflexivity. Qed.

(* ------------------------------------------------------------------------------------------ *)
(* Server.shutdown with n Listeners: it returns, for every n                                    *)
Lemma sumw_set_nth : forall l k a b,
  nth_error l k = Some a -> sumw (set_nth k b l) + lw a = sumw l + lw b.
Proof.
  induction l; intros [|k] x b H; simpl in *; try discriminate.
  - inversion H; subst. lia.
  - specialize (IHl _ _ b H). lia.
Qed.
Lemma length_set_nth' {A} : forall (l : list A) i x, length (set_nth i x l) = length l.
Proof. induction l; intros [|i] x; simpl; auto. Qed.
Lemma nth_error_lt {A} (l : list A) k a : nth_error l k = Some a -> k < length l.
Proof. intros H. apply nth_error_Some. congruence. Qed.

(* every step that is taken lowers the measure and keeps the number of Listeners *)
Lemma ns_step_mu m t s s' :
  ns_step m t s = Some s' -> ns_mu s' < ns_mu s /\ length (ns_ls s') = length (ns_ls s).
Proof.
  destruct s as [c ls b sp f]. unfold ns_step, ns_mu; simpl. destruct t as [|k].
  - destruct f; [discriminate|]. destruct c; simpl.
    + destruct (nth_error ls sp) as [[]|] eqn:E.
      * destruct (is_new m); [|discriminate]. destruct b; [discriminate|].
        intros H; inversion H; subst; simpl. split; auto; lia.
      * destruct (is_new m); [|discriminate]. destruct b; [discriminate|].
        intros H; inversion H; subst; simpl. split; auto; lia.
      * intros H; inversion H; subst; simpl. apply nth_error_lt in E. split; auto; lia.
      * intros H; inversion H; subst; simpl. split; auto; lia.
    + intros H; inversion H; subst; simpl. split; auto; lia.
  - destruct (nth_error ls k) as [[]|] eqn:E; try discriminate.
    + destruct c; [|discriminate]. intros H; inversion H; subst; simpl.
      pose proof (sumw_set_nth _ _ _ LSend E). rewrite length_set_nth'. simpl in *.
      destruct f; split; auto; lia.
    + destruct (b <? ns_cap); [|discriminate]. intros H; inversion H; subst; simpl.
      pose proof (sumw_set_nth _ _ _ LEnd E). rewrite length_set_nth'. simpl in *.
      destruct f; split; auto; try lia.
Qed.

(* the repaired shutdown is never stuck: while it has not finished some thread can step *)
Lemma ns_no_deadlock s :
  ns_fin s = false -> exists t, In t (ns_threads (length (ns_ls s))) /\ ns_step New t s <> None.
Proof.
  destruct s as [c ls b sp f]; simpl. intros ->.
  assert (Z0 : In 0 (ns_threads (length ls))) by (unfold ns_threads; apply in_seq; lia).
  destruct c; [|exists 0; split; auto; simpl; discriminate].
  destruct (nth_error ls sp) as [p|] eqn:E.
  - pose proof (nth_error_lt _ _ _ E) as L.
    assert (ZS : In (S sp) (ns_threads (length ls))) by (unfold ns_threads; apply in_seq; lia).
    destruct p.
    + exists (S sp). split; auto. simpl. rewrite E. discriminate.
    + destruct (b <? ns_cap) eqn:B.
      * exists (S sp). split; auto. simpl. rewrite E, B. discriminate.
      * exists 0. split; auto. simpl. rewrite E. apply Nat.ltb_ge in B. unfold ns_cap in B.
        destruct b; [lia|discriminate].
    + exists 0. split; auto. simpl. rewrite E. discriminate.
  - exists 0. split; auto. simpl. rewrite E. discriminate.
Qed.

Lemma ns_do_mu m t s : ns_mu (ns_do m t s) <= ns_mu s /\ length (ns_ls (ns_do m t s)) = length (ns_ls s).
Proof.
  unfold ns_do. destruct (ns_step m t s) eqn:E; [|auto].
  destruct (ns_step_mu _ _ _ _ E). split; auto; lia.
Qed.

Lemma ns_run_mu_le m : forall ts s, ns_mu (ns_run m ts s) <= ns_mu s.
Proof.
  induction ts as [|a ts IH]; intros s; simpl; auto.
  destruct (ns_do_mu m a s). specialize (IH (ns_do m a s)). lia.
Qed.

(* one round over a list of threads: the measure drops, or nothing moved and every thread of
   the list was blocked *)
Lemma ns_round m : forall ts s,
  ns_mu (ns_run m ts s) < ns_mu s \/
  (ns_run m ts s = s /\ forall t, In t ts -> ns_step m t s = None).
Proof.
  induction ts as [|t ts IH]; intros s; simpl.
  - right. split; auto. intros ? [].
  - unfold ns_do. destruct (ns_step m t s) as [s'|] eqn:E.
    + left. destruct (ns_step_mu _ _ _ _ E) as [L _].
      pose proof (ns_run_mu_le m ts s'). lia.
    + destruct (IH s) as [L|[R B]]; [left; auto|].
      right. split; [exact R|]. intros x Hx. destruct Hx as [Hx|Hx]; [subst x; exact E | auto].
Qed.

Lemma ns_run_len m : forall ts s, length (ns_ls (ns_run m ts s)) = length (ns_ls s).
Proof.
  induction ts; intros; simpl; auto. rewrite IHts. apply ns_do_mu.
Qed.

Lemma ns_fin_mu s : ns_mu s = 0 -> ns_fin s = true.
Proof. unfold ns_mu. destruct (ns_fin s); auto. lia. Qed.

Lemma ns_fin_keeps m : forall ts s, ns_fin s = true -> ns_fin (ns_run m ts s) = true.
Proof.
  induction ts as [|t ts IH]; intros s F; simpl; auto. apply IH.
  unfold ns_do, ns_step. destruct s as [c ls b sp f]; simpl in *; subst f.
  destruct t; simpl; auto.
  destruct (nth_error ls t) as [[]|]; simpl; auto.
  - destruct c; auto.
  - destruct (b <? ns_cap); auto.
Qed.

Lemma ns_run_app m : forall l1 l2 x, ns_run m (l1 ++ l2) x = ns_run m l2 (ns_run m l1 x).
Proof. induction l1; intros; simpl; auto. Qed.

Lemma ns_rounds : forall k s,
  ns_fin (ns_run New (repeat_sched k (ns_threads (length (ns_ls s)))) s) = true \/
  ns_mu (ns_run New (repeat_sched k (ns_threads (length (ns_ls s)))) s) <= ns_mu s - k.
Proof.
  induction k; intros s; cbn [repeat_sched ns_run]; [right; lia|].
  rewrite ns_run_app.
  set (s1 := ns_run New (ns_threads (length (ns_ls s))) s).
  assert (L1 : length (ns_ls s1) = length (ns_ls s)) by apply ns_run_len.
  specialize (IHk s1). rewrite L1 in IHk.
  destruct IHk as [IHk|IHk]; [left; auto|].
  destruct (ns_round New (ns_threads (length (ns_ls s))) s) as [D|[R B]].
  - fold s1 in D. right. lia.
  - fold s1 in R. destruct (ns_fin s) eqn:F.
    + left. apply ns_fin_keeps. rewrite R. auto.
    + destruct (ns_no_deadlock s F) as (t & T1 & T2). elim T2. auto.
Qed.

(* Server.shutdown (hence Server.Close and a cancelled context) finishes for every number of
   Listeners under the fair round-robin schedule; with [ns_no_deadlock] and [ns_step_mu]: under
   every schedule that keeps scheduling a thread that can step *)
Lemma server_close_returns_n n :
  ns_fin (ns_run New (ns_fair n) (ns_init n)) = true.
Proof.
  unfold ns_fair.
  pose proof (ns_rounds (ns_mu (ns_init n)) (ns_init n)) as R.
  assert (L : length (ns_ls (ns_init n)) = n) by (simpl; apply repeat_length).
  rewrite L in R. destruct R as [R|R]; auto. apply ns_fin_mu. lia.
Qed.

(* the old shutdown with 17 Listeners: all have stopped or try to, 16 names fill the channel,
   the 17th Listener blocks sending, shutdown waits for it: nobody can move *)
Definition sched_many_listeners : list nat := [0] ++ flat_map (fun k => [k; k]) (seq 1 17) ++ rep 17 0.
Lemma many_listeners_refuted :
  ns_stuck Old (ns_run Old sched_many_listeners (ns_init 17)) = true /\
  ns_stuck New (ns_run New sched_many_listeners (ns_init 17)) = false.
Proof. vm_compute. auto. Qed.
