(* Proofs/Interleave.v -- C13: no update of the state word is lost under ANY interleaving of
   linearisable mutators (CAS retry loop / single read-modify-write call); the load-then-store
   shape of the pinned tree loses updates (regression section); the theorems instantiated with the
   shapes atomics2v translated from the current c2/state.go (Gen/StateAtomics.v); and the channel
   request protocol under EVERY interleaving of SetChannel with ChannelCanStop / ChannelCanStart
   (the compound methods translated into decision trees over their atomic calls). *)
From Coq Require Import Permutation.
From XMT Require Import Base.Prelude Base.BitLemmas Model.State Model.Interleave Proofs.State Gen.StateAtomics.

(* ---- lists ------------------------------------------------------------------- *)
Lemma set_nth_length {A} (l : list A) i x : length (set_nth l i x) = length l.
Proof. revert i. induction l as [|y l IH]; intros [|i]; cbn [set_nth length]; auto. Qed.

Lemma nth_error_set_nth_eq {A} (l : list A) i x y :
  nth_error l i = Some y -> nth_error (set_nth l i x) i = Some x.
Proof.
  revert i. induction l as [|z l IH]; intros [|i] H; cbn [set_nth nth_error] in *; try discriminate; auto.
Qed.

Lemma nth_error_set_nth_neq {A} (l : list A) i j x :
  i <> j -> nth_error (set_nth l i x) j = nth_error l j.
Proof.
  revert i j. induction l as [|z l IH]; intros [|i] [|j] H; cbn [set_nth nth_error]; auto; try congruence.
Qed.

Lemma inb_in i l : inb i l = true <-> In i l.
Proof.
  unfold inb. rewrite existsb_exists. split.
  - intros [x [Hx E]]. apply Nat.eqb_eq in E. subst. exact Hx.
  - intros H. exists i. split; [exact H|apply Nat.eqb_refl].
Qed.

Lemma inb_app i l j : inb i (l ++ [j]) = inb i l || Nat.eqb i j.
Proof. unfold inb. rewrite existsb_app. cbn [existsb]. rewrite orb_false_r. reflexivity. Qed.

(* ---- one thread --------------------------------------------------------------- *)
(* the states of a thread that executes a linearisable call: before its commit point (false) it
   has not changed the word, after it (true) it has returned *)
Definition thread_inv (c : call) (committed : bool) (t : thread) : Prop :=
  code t = map (step_of (snd c)) (m_ops (fst c)) /\
  match m_ops (fst c) with
  | [ALoad; ACas _] => if committed then pc t = 2%nat else (pc t = 0%nat \/ pc t = 1%nat)
  | [_] => if committed then pc t = 1%nat else (pc t = 0%nat /\ reg t = 0)
  | _ => False
  end.

Lemma linearisable_ops m :
  linearisable m = true ->
  m_shape m <> Unknown /\
  ((exists e, m_ops m = [ALoad; ACas e]) \/ (exists e, m_ops m = [AOr e]) \/ (exists e, m_ops m = [AAnd e])).
Proof.
  unfold linearisable. destruct (m_shape m); try discriminate.
  - destruct (m_ops m) as [|[| | | |] [|[| | | |] [|]]]; try discriminate.
    intros _. split; [discriminate|]. left. eexists. reflexivity.
  - destruct (m_ops m) as [|[| | | |] [|]]; try discriminate; intros _; (split; [discriminate|]).
    + right. left. eexists. reflexivity.
    + right. right. eexists. reflexivity.
Qed.

Lemma thread_of_inv c : linearisable (fst c) = true -> thread_inv c false (thread_of c).
Proof.
  intros L. destruct (linearisable_ops _ L) as [Hs Ho].
  unfold thread_inv, thread_of, instantiate.
  destruct (m_shape (fst c)); try congruence;
    (split; [reflexivity|]); destruct Ho as [[e ->]|[[e ->]|[e ->]]]; cbn [pc reg]; auto.
Qed.

(* one step of a thread that has not committed: either the word is unchanged and the thread has
   still not committed, or the word becomes commit c (word) and the thread has committed *)
Lemma thread_step_uncommitted c w t :
  linearisable (fst c) = true -> thread_inv c false t ->
  let '(w', t') := thread_step w t in
  (w' = w /\ thread_inv c false t') \/ (w' = commit c w /\ thread_inv c true t').
Proof.
  intros L [Hc Hp]. destruct (linearisable_ops _ L) as [_ Ho].
  unfold thread_step, commit, commit_fn, thread_inv.
  destruct Ho as [[e Ho]|[[e Ho]|[e Ho]]]; rewrite Ho in *; rewrite Hc; cbn [map].
  - destruct Hp as [Hp|Hp]; rewrite Hp; cbn [nth_error step_of code pc reg].
    + left. split; [reflexivity|]. split; [reflexivity|]. right. reflexivity.
    + destruct (Z.eqb_spec w (reg t)) as [E|E].
      * right. cbn [code pc reg]. rewrite <- E. split; [reflexivity|]. split; reflexivity.
      * left. cbn [code pc reg]. split; [reflexivity|]. split; [reflexivity|]. left. reflexivity.
  - destruct Hp as [Hp Hr]. rewrite Hp, Hr. cbn [nth_error step_of code pc reg].
    right. split; [reflexivity|]. split; reflexivity.
  - destruct Hp as [Hp Hr]. rewrite Hp, Hr. cbn [nth_error step_of code pc reg].
    right. split; [reflexivity|]. split; reflexivity.
Qed.

(* a thread that has committed has returned: it stutters *)
Lemma thread_step_committed c w t :
  linearisable (fst c) = true -> thread_inv c true t -> thread_step w t = (w, t).
Proof.
  intros L [Hc Hp]. destruct (linearisable_ops _ L) as [_ Ho].
  unfold thread_step.
  destruct Ho as [[e Ho]|[[e Ho]|[e Ho]]]; rewrite Ho in *; rewrite Hc, Hp; reflexivity.
Qed.

Lemma thread_inv_finished c b t :
  linearisable (fst c) = true -> thread_inv c b t -> finished t = b.
Proof.
  intros L [Hc Hp]. destruct (linearisable_ops _ L) as [_ Ho].
  unfold finished.
  destruct Ho as [[e Ho]|[[e Ho]|[e Ho]]]; rewrite Ho in *; rewrite Hc; cbn [map length];
    destruct b; try (rewrite Hp; reflexivity).
  - destruct Hp as [Hp|Hp]; rewrite Hp; reflexivity.
  - destruct Hp as [Hp _]; rewrite Hp; reflexivity.
  - destruct Hp as [Hp _]; rewrite Hp; reflexivity.
Qed.

(* ---- all threads: the invariant of every schedule ------------------------------------ *)
Section NoLostUpdate.
  Variable cs : list call.
  Hypothesis Hlin : Forall (fun c => linearisable (fst c) = true) cs.
  Variable w0 : Z.

  (* lin = the ids of the threads that have committed, in the order of their commit points *)
  Definition inv (lin : list nat) (cf : config) : Prop :=
    NoDup lin /\
    (forall i, In i lin -> (i < length cs)%nat) /\
    fst cf = apply_calls cs lin w0 /\
    length (snd cf) = length cs /\
    forall i c t, nth_error cs i = Some c -> nth_error (snd cf) i = Some t -> thread_inv c (inb i lin) t.

  Lemma lin_of i c : nth_error cs i = Some c -> linearisable (fst c) = true.
  Proof.
    intros H. apply nth_error_In in H. rewrite Forall_forall in Hlin. exact (Hlin _ H).
  Qed.

  Lemma inv_init : inv [] (init w0 cs).
  Proof.
    unfold inv, init. cbn [fst snd]. split; [constructor|]. split; [intros i []|].
    split; [reflexivity|]. split; [apply map_length|].
    intros i c t Hc Ht. rewrite nth_error_map, Hc in Ht. cbn in Ht. injection Ht as <-.
    apply thread_of_inv. exact (lin_of _ _ Hc).
  Qed.

  Lemma apply_calls_snoc lin i c :
    nth_error cs i = Some c -> apply_calls cs (lin ++ [i]) w0 = commit c (apply_calls cs lin w0).
  Proof. intros H. unfold apply_calls. rewrite fold_left_app. cbn [fold_left]. rewrite H. reflexivity. Qed.

  Lemma inv_step lin cf i :
    inv lin cf -> exists lin', inv lin' (sched_step cf i) /\ (lin' = lin \/ lin' = lin ++ [i]).
  Proof.
    intros (Hnd & Hlt & Hw & Hlen & Hth). destruct cf as [w ts]. cbn [fst snd] in *.
    unfold sched_step. cbn [fst snd].
    destruct (nth_error ts i) as [t|] eqn:Ht.
    2:{ exists lin. split; [|left; reflexivity]. unfold inv. cbn [fst snd]. auto 10. }
    assert (i < length cs)%nat as Hi.
    { rewrite <- Hlen. apply nth_error_Some. congruence. }
    destruct (nth_error cs i) as [c|] eqn:Hc; [|apply nth_error_None in Hc; lia].
    pose proof (lin_of _ _ Hc) as L.
    pose proof (Hth _ _ _ Hc Ht) as Ti.
    destruct (inb i lin) eqn:Hin.
    - (* already returned: stutter *)
      rewrite (thread_step_committed c w t L Ti).
      exists lin. split; [|left; reflexivity].
      split; [exact Hnd|]. split; [exact Hlt|]. cbn [fst snd]. split; [exact Hw|].
      split; [rewrite set_nth_length; exact Hlen|].
      intros j c' t' Hc' Ht'. destruct (Nat.eq_dec i j) as [<-|Hne].
      + rewrite (nth_error_set_nth_eq _ _ _ _ Ht) in Ht'. injection Ht' as <-.
        rewrite Hc in Hc'. injection Hc' as <-. rewrite Hin. exact Ti.
      + rewrite nth_error_set_nth_neq in Ht' by exact Hne. exact (Hth _ _ _ Hc' Ht').
    - pose proof (thread_step_uncommitted c w t L Ti) as S.
      destruct (thread_step w t) as [w' t'].
      destruct S as [[-> Ti']|[-> Ti']].
      + (* a load, or a failed CAS *)
        exists lin. split; [|left; reflexivity].
        split; [exact Hnd|]. split; [exact Hlt|]. cbn [fst snd]. split; [exact Hw|].
        split; [rewrite set_nth_length; exact Hlen|].
        intros j c' t'' Hc' Ht'. destruct (Nat.eq_dec i j) as [<-|Hne].
        * rewrite (nth_error_set_nth_eq _ _ _ _ Ht) in Ht'. injection Ht' as <-.
          rewrite Hc in Hc'. injection Hc' as <-. rewrite Hin. exact Ti'.
        * rewrite nth_error_set_nth_neq in Ht' by exact Hne. exact (Hth _ _ _ Hc' Ht').
      + (* the commit point of thread i *)
        exists (lin ++ [i]). split; [|right; reflexivity].
        assert (~ In i lin) as Hnot.
        { intros H. apply inb_in in H. congruence. }
        split.
        { apply (Permutation_NoDup (Permutation_cons_append lin i)). constructor; assumption. }
        split.
        { intros j Hj. apply in_app_or in Hj. destruct Hj as [Hj|[<-|[]]]; [exact (Hlt _ Hj)|exact Hi]. }
        cbn [fst snd]. split.
        { rewrite (apply_calls_snoc _ _ _ Hc), <- Hw. reflexivity. }
        split; [rewrite set_nth_length; exact Hlen|].
        intros j c' t'' Hc' Ht'. rewrite inb_app. destruct (Nat.eq_dec i j) as [<-|Hne].
        * rewrite (nth_error_set_nth_eq _ _ _ _ Ht) in Ht'. injection Ht' as <-.
          rewrite Hc in Hc'. injection Hc' as <-. rewrite Nat.eqb_refl, orb_true_r. exact Ti'.
        * rewrite nth_error_set_nth_neq in Ht' by exact Hne.
          replace (Nat.eqb j i) with false by (symmetry; apply Nat.eqb_neq; congruence).
          rewrite orb_false_r. exact (Hth _ _ _ Hc' Ht').
  Qed.

  (* at every point of every schedule the word is the result of the committed calls, applied in
     one piece each, in the order of their commit points *)
  Lemma inv_run sched : forall lin cf, inv lin cf -> exists lin', inv lin' (run_sched cf sched).
  Proof.
    induction sched as [|i sched IH]; intros lin cf H.
    - exists lin. exact H.
    - unfold run_sched. cbn [fold_left]. destruct (inv_step lin cf i H) as [lin' [H' _]].
      exact (IH lin' _ H').
  Qed.

  Lemma inv_all_done lin cf :
    inv lin cf -> all_done cf = true -> Permutation lin (seq 0 (length cs)).
  Proof.
    intros (Hnd & Hlt & _ & Hlen & Hth) Hd.
    apply NoDup_Permutation; [exact Hnd|apply seq_NoDup|].
    intros i. rewrite in_seq. split; [intros H; specialize (Hlt _ H); lia|].
    intros [_ Hi]. cbn in Hi.
    destruct (nth_error cs i) as [c|] eqn:Hc; [|apply nth_error_None in Hc; lia].
    destruct (nth_error (snd cf) i) as [t|] eqn:Ht; [|apply nth_error_None in Ht; lia].
    pose proof (Hth _ _ _ Hc Ht) as Ti.
    pose proof (thread_inv_finished _ _ _ (lin_of _ _ Hc) Ti) as F.
    unfold all_done in Hd. rewrite forallb_forall in Hd.
    rewrite (Hd t (nth_error_In _ _ Ht)) in F. apply inb_in. congruence.
  Qed.

  (* the word at any point of any schedule: the calls of the threads that have returned, in some order *)
  Theorem word_is_committed_calls sched :
    exists lin, NoDup lin /\ fst (run_sched (init w0 cs) sched) = apply_calls cs lin w0 /\
      forall i t, nth_error (snd (run_sched (init w0 cs) sched)) i = Some t -> finished t = inb i lin.
  Proof.
    destruct (inv_run sched [] _ inv_init) as [lin H]. exists lin.
    destruct H as (Hnd & Hlt & Hw & Hlen & Hth). split; [exact Hnd|]. split; [exact Hw|].
    intros i t Ht.
    destruct (nth_error cs i) as [c|] eqn:Hc.
    - exact (thread_inv_finished _ _ _ (lin_of _ _ Hc) (Hth _ _ _ Hc Ht)).
    - apply nth_error_None in Hc. assert (i < length (snd (run_sched (init w0 cs) sched)))%nat.
      { apply nth_error_Some. congruence. }
      lia.
  Qed.

  (* NO LOST UPDATE: after every complete schedule the word is the result of ALL the calls applied
     in one piece each, in some order (the order of their commit points) *)
  Theorem no_lost_update_lin sched :
    all_done (run_sched (init w0 cs) sched) = true ->
    exists order, Permutation order (seq 0 (length cs)) /\
                  fst (run_sched (init w0 cs) sched) = apply_calls cs order w0.
  Proof.
    intros Hd. destruct (inv_run sched [] _ inv_init) as [lin H]. exists lin.
    split; [exact (inv_all_done _ _ H Hd)|]. destruct H as (_ & _ & Hw & _). exact Hw.
  Qed.
End NoLostUpdate.


(* ---- complete schedules exist ------------------------------------------------------ *)
(* two scheduling slots return a linearisable call when nothing intervenes: load, then a
   compare-and-swap that finds the word it loaded *)
Lemma two_steps_finish c w :
  linearisable (fst c) = true ->
  finished (snd (thread_step (fst (thread_step w (thread_of c))) (snd (thread_step w (thread_of c))))) = true.
Proof.
  intros L. destruct (linearisable_ops _ L) as [Hs Ho].
  unfold thread_of, instantiate.
  destruct (m_shape (fst c)); try congruence;
    destruct Ho as [[e ->]|[[e ->]|[e ->]]]; unfold thread_step; cbn [map code pc reg nth_error step_of fst snd];
    rewrite ?Z.eqb_refl; reflexivity.
Qed.

Lemma set_nth_app {A} (l1 : list A) x y l2 : set_nth (l1 ++ x :: l2) (length l1) y = l1 ++ y :: l2.
Proof. induction l1 as [|z l1 IH]; cbn [app length set_nth]; [reflexivity|rewrite IH; reflexivity]. Qed.

Lemma nth_error_app_mid {A} (l1 : list A) x l2 : nth_error (l1 ++ x :: l2) (length l1) = Some x.
Proof. induction l1 as [|z l1 IH]; cbn [app length nth_error]; auto. Qed.

Lemma sched_step_mid w done t rest :
  sched_step (w, done ++ t :: rest) (length done) =
  (fst (thread_step w t), done ++ snd (thread_step w t) :: rest).
Proof.
  unfold sched_step. cbn [fst snd]. rewrite nth_error_app_mid.
  destruct (thread_step w t) as [w' t']. rewrite set_nth_app. reflexivity.
Qed.

Lemma serial_completes_from rest :
  Forall (fun c => linearisable (fst c) = true) rest ->
  forall done w, forallb finished done = true ->
    all_done (run_sched (w, done ++ map thread_of rest)
                        (flat_map (fun i => [i; i]) (seq (length done) (length rest)))) = true.
Proof.
  induction rest as [|c rest IH]; intros HF done w Hd.
  - cbn. unfold all_done. cbn [snd]. rewrite app_nil_r. exact Hd.
  - inversion HF as [|? ? Lc HF']; subst.
    cbn [length seq flat_map map]. unfold run_sched. rewrite fold_left_app. fold (run_sched).
    cbn [app fold_left]. rewrite !sched_step_mid.
    pose proof (two_steps_finish c w Lc) as F.
    destruct (thread_step w (thread_of c)) as [w1 t1]. cbn [fst snd] in *.
    destruct (thread_step w1 t1) as [w2 t2]. cbn [fst snd] in *.
    replace (done ++ t2 :: map thread_of rest) with ((done ++ [t2]) ++ map thread_of rest)
      by (rewrite <- app_assoc; reflexivity).
    replace (S (length done)) with (length (done ++ [t2])) by (rewrite app_length; cbn; lia).
    apply (IH HF'). rewrite forallb_app, Hd. cbn. rewrite F. reflexivity.
Qed.

(* every list of linearisable calls has a complete schedule (so the theorem above is about
   something): every thread in turn, two slots each *)
Theorem serial_completes cs w0 :
  Forall (fun c => linearisable (fst c) = true) cs ->
  all_done (run_sched (init w0 cs) (serial_sched (length cs))) = true.
Proof. intros H. exact (serial_completes_from cs H [] w0 eq_refl). Qed.

(* ---- the three mutators of the state word ------------------------------------------ *)
(* facts about the calls applied in one piece, in any order *)
Lemma mcall_last c w : arg_in_half c ->
  st_last (mcall_fn c w) = match c with MSetLast g => g | _ => st_last w end.
Proof.
  destruct c as [v|v|g]; cbn [mcall_fn arg_in_half]; intros H.
  - apply set_keeps_group. exact H.
  - apply unset_keeps_group. exact H.
  - apply setlast_sets. exact H.
Qed.

Lemma mcall_flags c w w' : st_flags w = st_flags w' -> st_flags (mcall_fn c w) = st_flags (flag_fn c w').
Proof.
  destruct c as [v|v|g]; cbn [mcall_fn flag_fn]; intros H.
  - rewrite !set_flags, H. reflexivity.
  - rewrite !unset_flags, H. reflexivity.
  - rewrite setlast_keeps_flags. exact H.
Qed.

Lemma mcall_bit c w k : 0 <= k < 16 ->
  Z.testbit (mcall_fn c w) k = (Z.testbit w k || sets_bit k c) && negb (clears_bit k c).
Proof.
  intros Hk. destruct c as [v|v|g]; cbn [mcall_fn sets_bit clears_bit negb].
  - rewrite set_spec, andb_true_r. reflexivity.
  - rewrite unset_spec, orb_false_r. reflexivity.
  - rewrite setlast_spec by lia. replace (k <? 16) with true by (symmetry; apply Z.ltb_lt; lia).
    rewrite orb_false_r, andb_true_r. reflexivity.
Qed.

Section Orders.
  Variable cs : list mcall.

  Lemma apply_mcalls_cons i order w :
    apply_mcalls cs (i :: order) w =
    apply_mcalls cs order (match nth_error cs i with Some c => mcall_fn c w | None => w end).
  Proof. reflexivity. Qed.

  (* the group half after the calls = the argument of the last SetLast (the initial group if none) *)
  Lemma apply_mcalls_last order : (forall c, In c cs -> arg_in_half c) ->
    forall w, st_last (apply_mcalls cs order w) = last_group cs order (st_last w).
  Proof.
    intros Hh. induction order as [|i order IH]; intros w; [reflexivity|].
    rewrite apply_mcalls_cons, IH. unfold last_group. cbn [fold_left].
    destruct (nth_error cs i) as [c|] eqn:Hc; [|reflexivity].
    rewrite (mcall_last c w (Hh _ (nth_error_In _ _ Hc))). destruct c; reflexivity.
  Qed.

  (* the flag half after the calls = the flag half after the flag calls alone *)
  Lemma apply_mcalls_flags order :
    forall w w', st_flags w = st_flags w' ->
                 st_flags (apply_mcalls cs order w) = st_flags (apply_flag_calls cs order w').
  Proof.
    induction order as [|i order IH]; intros w w' H; [exact H|].
    rewrite apply_mcalls_cons. unfold apply_flag_calls. cbn [fold_left]. apply IH.
    destruct (nth_error cs i) as [c|]; [apply mcall_flags|]; exact H.
  Qed.

  Lemma last_group_no_setlast order g0 :
    (forall c, In c cs -> is_flag_call c = true) -> last_group cs order g0 = g0.
  Proof.
    intros Hf. induction order as [|i order IH]; [reflexivity|].
    unfold last_group in *. cbn [fold_left]. destruct (nth_error cs i) as [c|] eqn:Hc; [|exact IH].
    specialize (Hf _ (nth_error_In _ _ Hc)). destruct c; try discriminate; exact IH.
  Qed.

  Lemma apply_flag_calls_no_flag_call order w :
    (forall c, In c cs -> is_flag_call c = false) -> apply_flag_calls cs order w = w.
  Proof.
    intros Hf. induction order as [|i order IH]; [reflexivity|].
    unfold apply_flag_calls in *. cbn [fold_left]. destruct (nth_error cs i) as [c|] eqn:Hc; [|exact IH].
    specialize (Hf _ (nth_error_In _ _ Hc)). destruct c; try discriminate; exact IH.
  Qed.

  (* a flag that some call sets and no call clears is set after the calls, whatever the order *)
  Lemma apply_mcalls_bit_set k order : 0 <= k < 16 ->
    (forall c, In c cs -> clears_bit k c = false) ->
    forall w, (Z.testbit w k = true \/ exists i c, In i order /\ nth_error cs i = Some c /\ sets_bit k c = true) ->
              Z.testbit (apply_mcalls cs order w) k = true.
  Proof.
    intros Hk Hn. induction order as [|i order IH]; intros w H.
    - destruct H as [H|(i & c & [] & _)]. exact H.
    - rewrite apply_mcalls_cons. apply IH.
      destruct (nth_error cs i) as [c|] eqn:Hc.
      + rewrite mcall_bit by exact Hk. rewrite (Hn _ (nth_error_In _ _ Hc)). cbn [negb]. rewrite andb_true_r.
        destruct H as [H|(j & c' & [<-|Hj] & Hc' & Hs)].
        * left. rewrite H. reflexivity.
        * left. rewrite Hc in Hc'. injection Hc' as <-. rewrite Hs. apply orb_true_r.
        * right. exists j, c'. auto.
      + destruct H as [H|(j & c' & [<-|Hj] & Hc' & Hs)]; [left; exact H|congruence|right; exists j, c'; auto].
  Qed.

  (* a flag that some call clears and no call sets is clear after the calls, whatever the order *)
  Lemma apply_mcalls_bit_clear k order : 0 <= k < 16 ->
    (forall c, In c cs -> sets_bit k c = false) ->
    forall w, (Z.testbit w k = false \/ exists i c, In i order /\ nth_error cs i = Some c /\ clears_bit k c = true) ->
              Z.testbit (apply_mcalls cs order w) k = false.
  Proof.
    intros Hk Hn. induction order as [|i order IH]; intros w H.
    - destruct H as [H|(i & c & [] & _)]. exact H.
    - rewrite apply_mcalls_cons. apply IH.
      destruct (nth_error cs i) as [c|] eqn:Hc.
      + rewrite mcall_bit by exact Hk. rewrite (Hn _ (nth_error_In _ _ Hc)). rewrite orb_false_r.
        destruct H as [H|(j & c' & [<-|Hj] & Hc' & Hs)].
        * left. rewrite H. reflexivity.
        * left. rewrite Hc in Hc'. injection Hc' as <-. rewrite Hs. apply andb_false_r.
        * right. exists j, c'. auto.
      + destruct H as [H|(j & c' & [<-|Hj] & Hc' & Hs)]; [left; exact H|congruence|right; exists j, c'; auto].
  Qed.

  Lemma in_order_of_perm order c :
    Permutation order (seq 0 (length cs)) -> In c cs -> exists i, In i order /\ nth_error cs i = Some c.
  Proof.
    intros P H. destruct (In_nth_error _ _ H) as [i Hi]. exists i. split; [|exact Hi].
    apply (Permutation_in _ (Permutation_sym P)). apply in_seq.
    assert (i < length cs)%nat by (apply nth_error_Some; congruence). lia.
  Qed.
End Orders.

(* the concurrent theorems for any three linearisable mutators whose commit functions are
   Set / Unset / SetLast of Model/State.v *)
Section Mutators.
  Variables mset munset msetlast : mutator.
  Hypothesis Lset : linearisable mset = true.
  Hypothesis Lunset : linearisable munset = true.
  Hypothesis Lsetlast : linearisable msetlast = true.
  Hypothesis Cset : forall w v, commit_fn mset v w = st_set w v.
  Hypothesis Cunset : forall w v, commit_fn munset v w = st_unset w v.
  Hypothesis Csetlast : forall w g, commit_fn msetlast g w = st_setlast w g.

  Local Notation tc := (to_call mset munset msetlast).

  Lemma to_call_linearisable cs : Forall (fun c => linearisable (fst c) = true) (map tc cs).
  Proof.
    apply Forall_forall. intros c H. apply in_map_iff in H. destruct H as [m [<- _]].
    destruct m; assumption.
  Qed.

  Lemma commit_to_call m w : commit (tc m) w = mcall_fn m w.
  Proof. destruct m; unfold commit; cbn [to_call fst snd mcall_fn]; auto. Qed.

  Lemma apply_calls_to_call cs order : forall w, apply_calls (map tc cs) order w = apply_mcalls cs order w.
  Proof.
    induction order as [|i order IH]; intros w; [reflexivity|].
    unfold apply_calls, apply_mcalls in *. cbn [fold_left]. rewrite nth_error_map.
    destruct (nth_error cs i) as [m|]; cbn [option_map]; [rewrite commit_to_call|]; apply IH.
  Qed.

  Theorem no_lost_update_mut (cs : list mcall) w0 sched :
    all_done (run_sched (init w0 (map tc cs)) sched) = true ->
    exists order, Permutation order (seq 0 (length cs)) /\
                  fst (run_sched (init w0 (map tc cs)) sched) = apply_mcalls cs order w0.
  Proof.
    intros Hd. destruct (no_lost_update_lin _ (to_call_linearisable cs) w0 sched Hd) as [order [P E]].
    exists order. rewrite map_length in P. split; [exact P|]. rewrite E. apply apply_calls_to_call.
  Qed.

  Theorem set_bit_survives_mut (cs : list mcall) w0 sched k :
    all_done (run_sched (init w0 (map tc cs)) sched) = true ->
    0 <= k < 16 ->
    (exists c, In c cs /\ sets_bit k c = true) -> (forall c, In c cs -> clears_bit k c = false) ->
    Z.testbit (fst (run_sched (init w0 (map tc cs)) sched)) k = true.
  Proof.
    intros Hd Hk [c [Hc Hs]] Hn. destruct (no_lost_update_mut cs w0 sched Hd) as [order [P ->]].
    apply apply_mcalls_bit_set; [exact Hk|exact Hn|]. right.
    destruct (in_order_of_perm cs order c P Hc) as [i [Hi Hnth]]. exists i, c. auto.
  Qed.

  Theorem cleared_bit_stays_clear_mut (cs : list mcall) w0 sched k :
    all_done (run_sched (init w0 (map tc cs)) sched) = true ->
    0 <= k < 16 ->
    (exists c, In c cs /\ clears_bit k c = true) -> (forall c, In c cs -> sets_bit k c = false) ->
    Z.testbit (fst (run_sched (init w0 (map tc cs)) sched)) k = false.
  Proof.
    intros Hd Hk [c [Hc Hs]] Hn. destruct (no_lost_update_mut cs w0 sched Hd) as [order [P ->]].
    apply apply_mcalls_bit_clear; [exact Hk|exact Hn|]. right.
    destruct (in_order_of_perm cs order c P Hc) as [i [Hi Hnth]]. exists i, c. auto.
  Qed.

  (* the two halves stay independent under concurrency: the flag half is what the flag calls alone
     give in the linearisation order, the group half is the argument of the SetLast linearised last *)
  Theorem halves_independent_mut (cs : list mcall) w0 sched :
    all_done (run_sched (init w0 (map tc cs)) sched) = true ->
    (forall c, In c cs -> arg_in_half c) ->
    exists order, Permutation order (seq 0 (length cs)) /\
      st_flags (fst (run_sched (init w0 (map tc cs)) sched)) = st_flags (apply_flag_calls cs order w0) /\
      st_last (fst (run_sched (init w0 (map tc cs)) sched)) = last_group cs order (st_last w0).
  Proof.
    intros Hd Hh. destruct (no_lost_update_mut cs w0 sched Hd) as [order [P ->]].
    exists order. split; [exact P|]. split.
    - apply apply_mcalls_flags. reflexivity.
    - apply apply_mcalls_last. exact Hh.
  Qed.

  Theorem flag_calls_keep_group_mut (cs : list mcall) w0 sched :
    all_done (run_sched (init w0 (map tc cs)) sched) = true ->
    (forall c, In c cs -> arg_in_half c) -> (forall c, In c cs -> is_flag_call c = true) ->
    st_last (fst (run_sched (init w0 (map tc cs)) sched)) = st_last w0.
  Proof.
    intros Hd Hh Hf. destruct (halves_independent_mut cs w0 sched Hd Hh) as (order & _ & _ & ->).
    apply last_group_no_setlast. exact Hf.
  Qed.

  Theorem setlast_calls_keep_flags_mut (cs : list mcall) w0 sched :
    all_done (run_sched (init w0 (map tc cs)) sched) = true ->
    (forall c, In c cs -> is_flag_call c = false) ->
    st_flags (fst (run_sched (init w0 (map tc cs)) sched)) = st_flags w0.
  Proof.
    intros Hd Hf. destruct (no_lost_update_mut cs w0 sched Hd) as [order [P ->]].
    rewrite (apply_mcalls_flags cs order w0 w0 eq_refl). rewrite apply_flag_calls_no_flag_call by exact Hf.
    reflexivity.
  Qed.

  (* the word stays a 32-bit word *)
  Theorem word_ok_mut (cs : list mcall) w0 sched :
    all_done (run_sched (init w0 (map tc cs)) sched) = true ->
    word_ok w0 -> (forall c, In c cs -> match c with MSet v => word_ok v | _ => True end) ->
    word_ok (fst (run_sched (init w0 (map tc cs)) sched)).
  Proof.
    intros Hd Hw Ha. destruct (no_lost_update_mut cs w0 sched Hd) as [order [_ ->]].
    clear Hd. revert w0 Hw. induction order as [|i order IH]; intros w Hw; [exact Hw|].
    rewrite apply_mcalls_cons. apply IH. destruct (nth_error cs i) as [c|] eqn:Hc; [|exact Hw].
    specialize (Ha _ (nth_error_In _ _ Hc)). destruct c; cbn [mcall_fn].
    - apply set_word_ok; assumption.
    - apply unset_word_ok; assumption.
    - apply setlast_word_ok.
  Qed.
End Mutators.

(* ---- regression: the load-then-store shape of the pinned tree ------------------------- *)
(* what atomics2v read from c2/state.go before the repair (`fix:` commit recorded in
   known_findings.d/C13.json): Set/Unset/SetLast were an atomic load followed by an atomic store.
   Kept here as a copy so that the refutation stays checked. *)
Section Regress.
  Definition old_set : mutator := Mutator LoadStore [ALoad; AStore (EOr ECur EArg)].
  Definition old_unset : mutator := Mutator LoadStore [ALoad; AStore (EAndNot ECur EArg)].
  Definition old_setlast : mutator :=
    Mutator LoadStore [ALoad; AStore (EOr (EU32 (EShl (EU32 EArg) 16)) (EU32 (EU16 ECur)))].
  Definition old_call : mcall -> call := to_call old_set old_unset old_setlast.

  Lemma old_not_linearisable :
    linearisable old_set = false /\ linearisable old_unset = false /\ linearisable old_setlast = false.
  Proof. repeat split. Qed.

  (* run alone, the old methods computed the right thing (the sequential model) *)
  Lemma old_sequential_meaning w v :
    seq_fn old_set v w = st_set w v /\ seq_fn old_unset v w = st_unset w v /\ seq_fn old_setlast v w = st_setlast w v.
  Proof. repeat split. Qed.

  Lemma perm2 (order : list nat) : Permutation order [0%nat; 1%nat] -> order = [0%nat; 1%nat] \/ order = [1%nat; 0%nat].
  Proof. intros P. apply Permutation_sym in P. exact (Permutation_length_2_inv P). Qed.

  (* [T0.load; T1.load; T1.store; T0.store]: Set(1) and Set(2) on the word 0 leave 1.  Both calls
     returned, the word is the result of NO order of the two calls, and the flag 2, set by one call
     and cleared by none, is not set. *)
  Lemma lost_update_refuted :
    exists (cs : list mcall) (w0 : Z) (sched : list nat),
      let cf := run_sched (init w0 (map old_call cs)) sched in
      all_done cf = true /\
      (forall order, Permutation order (seq 0 (length cs)) -> fst cf <> apply_mcalls cs order w0) /\
      exists k c, 0 <= k < 16 /\ In c cs /\ sets_bit k c = true /\
                  (forall c', In c' cs -> clears_bit k c' = false) /\ Z.testbit (fst cf) k = false.
  Proof.
    exists [MSet 1; MSet 2], 0, [0; 1; 1; 0]%nat. cbv zeta.
    split; [vm_compute; reflexivity|]. split.
    - intros order P. destruct (perm2 order P) as [-> | ->]; vm_compute; discriminate.
    - exists 1, (MSet 2). split; [lia|]. split; [right; left; reflexivity|]. split; [reflexivity|].
      split; [|vm_compute; reflexivity].
      intros c' [<-|[<-|[]]]; reflexivity.
  Qed.

  (* the same schedule with SetLast(7) against Set(1): the group call wipes out the flag, i.e.
     under concurrency updating one half altered the other *)
  Lemma lost_update_refuted_setlast :
    exists (cs : list mcall) (w0 : Z) (sched : list nat),
      let cf := run_sched (init w0 (map old_call cs)) sched in
      all_done cf = true /\ (forall c, In c cs -> arg_in_half c) /\
      (forall order, Permutation order (seq 0 (length cs)) ->
                     st_flags (fst cf) <> st_flags (apply_flag_calls cs order w0)).
  Proof.
    exists [MSetLast 7; MSet 1], 0, [0; 1; 1; 0]%nat. cbv zeta.
    split; [vm_compute; reflexivity|]. split.
    - intros c [<-|[<-|[]]]; cbn [arg_in_half]; unfold half_ok; lia.
    - intros order P. destruct (perm2 order P) as [-> | ->]; vm_compute; discriminate.
  Qed.

  (* the witness schedule the check evaluates on the generated shapes when they are not
     linearisable (tools/propcfg/c13.py): on the old shapes it loses the update *)
  Lemma old_witness_loses :
    wr_lost (lost_update_witness (old_call (MSet 1)) (old_call (MSet 2)) 0) = true /\
    wr_lost (lost_update_witness (old_call (MSet 1)) (old_call (MUnset 2)) 2) = true /\
    wr_lost (lost_update_witness (old_call (MSetLast 7)) (old_call (MSet 1)) 0) = true.
  Proof. repeat split. Qed.
End Regress.

(* ---- the shapes translated from the CURRENT c2/state.go -------------------------------- *)
(* Gen/StateAtomics.v is rewritten by tools/atomics2v on every run.  Everything below is about
   those generated terms: if Set/Unset/SetLast stop being linearisable (or stop computing
   Set/Unset/SetLast of Model/State.v at their commit point) this part no longer compiles. *)
Definition gen_call : mcall -> call := to_call gen_set gen_unset gen_setlast.

Lemma gen_linearisable :
  linearisable gen_set = true /\ linearisable gen_unset = true /\ linearisable gen_setlast = true.
Proof. repeat split. Qed.

Lemma gen_set_commit w v : commit_fn gen_set v w = st_set w v.
Proof. unfold gen_set, commit_fn, st_set; cbn [m_ops eval]; first [reflexivity | apply Z.lor_comm]. Qed.
Lemma gen_unset_commit w v : commit_fn gen_unset v w = st_unset w v.
Proof. reflexivity. Qed.
Lemma gen_setlast_commit w g : commit_fn gen_setlast g w = st_setlast w g.
Proof. unfold gen_setlast, commit_fn, st_setlast; cbn [m_ops eval]; first [reflexivity | apply Z.lor_comm]. Qed.

(* the constants of the model are the constants of the code *)
Lemma gen_state_bits_agree : gen_state_bits = state_bits.
Proof. reflexivity. Qed.

(* the argument widths the translator read from the signatures *)
Lemma gen_argbits : gen_set_argbits = 32 /\ gen_unset_argbits = 32 /\ gen_setlast_argbits = 16.
Proof. repeat split. Qed.

Lemma gen_witness_keeps :
  wr_lost (lost_update_witness (gen_call (MSet 1)) (gen_call (MSet 2)) 0) = false /\
  wr_lost (lost_update_witness (gen_call (MSet 1)) (gen_call (MUnset 2)) 2) = false /\
  wr_lost (lost_update_witness (gen_call (MSetLast 7)) (gen_call (MSet 1)) 0) = false.
Proof. repeat split. Qed.

Definition gen_L1 := proj1 gen_linearisable.
Definition gen_L2 := proj1 (proj2 gen_linearisable).
Definition gen_L3 := proj2 (proj2 gen_linearisable).

Theorem no_lost_update (cs : list mcall) w0 sched :
  all_done (run_sched (init w0 (map gen_call cs)) sched) = true ->
  exists order, Permutation order (seq 0 (length cs)) /\
                fst (run_sched (init w0 (map gen_call cs)) sched) = apply_mcalls cs order w0.
Proof.
  exact (no_lost_update_mut _ _ _ gen_L1 gen_L2 gen_L3 gen_set_commit gen_unset_commit gen_setlast_commit cs w0 sched).
Qed.

(* also at every intermediate point of every schedule: the word is the result of the calls that
   have returned (and of no other), in the order of their commit points *)
Theorem no_partial_update (cs : list mcall) w0 sched :
  exists lin, NoDup lin /\
    fst (run_sched (init w0 (map gen_call cs)) sched) = apply_mcalls cs lin w0 /\
    forall i t, nth_error (snd (run_sched (init w0 (map gen_call cs)) sched)) i = Some t -> finished t = inb i lin.
Proof.
  destruct (word_is_committed_calls _ (to_call_linearisable _ _ _ gen_L1 gen_L2 gen_L3 cs) w0 sched)
    as (lin & Hnd & Hw & Hf).
  exists lin. unfold gen_call. split; [exact Hnd|]. split; [|exact Hf].
  rewrite Hw. exact (apply_calls_to_call _ _ _ gen_set_commit gen_unset_commit gen_setlast_commit cs lin w0).
Qed.

Theorem complete_schedule_exists (cs : list mcall) w0 :
  all_done (run_sched (init w0 (map gen_call cs)) (serial_sched (length cs))) = true.
Proof.
  pose proof (serial_completes (map gen_call cs) w0 (to_call_linearisable _ _ _ gen_L1 gen_L2 gen_L3 cs)) as H.
  rewrite map_length in H. exact H.
Qed.

Definition set_bit_survives :=
  set_bit_survives_mut _ _ _ gen_L1 gen_L2 gen_L3 gen_set_commit gen_unset_commit gen_setlast_commit.
Definition cleared_bit_stays_clear :=
  cleared_bit_stays_clear_mut _ _ _ gen_L1 gen_L2 gen_L3 gen_set_commit gen_unset_commit gen_setlast_commit.
Definition halves_independent_concurrently :=
  halves_independent_mut _ _ _ gen_L1 gen_L2 gen_L3 gen_set_commit gen_unset_commit gen_setlast_commit.
Definition flag_calls_keep_group :=
  flag_calls_keep_group_mut _ _ _ gen_L1 gen_L2 gen_L3 gen_set_commit gen_unset_commit gen_setlast_commit.
Definition setlast_calls_keep_flags :=
  setlast_calls_keep_flags_mut _ _ _ gen_L1 gen_L2 gen_L3 gen_set_commit gen_unset_commit gen_setlast_commit.
Definition concurrent_word_ok :=
  word_ok_mut _ _ _ gen_L1 gen_L2 gen_L3 gen_set_commit gen_unset_commit gen_setlast_commit.

(* ==== every interleaving of two compound calls ======================================== *)
Section MachineFacts.
  Variables mset munset : mutator.
  Local Notation pstep' := (pstep mset munset).
  Local Notation pstep2' := (pstep2 mset munset).
  Local Notation prun' := (prun mset munset).
  Local Notation explore' := (explore mset munset).

  Lemma pstep_finished w t : pfinished t = true -> pstep' w t = (w, t).
  Proof. unfold pfinished, pstep. destruct (pt_prog t); try discriminate. reflexivity. Qed.

  Lemma pstep2_finished_a c : pfinished (pc_a c) = true -> pstep2' c 0%nat = c.
  Proof. destruct c as [[w a] b]. cbn [pc_a fst snd pstep2]. intros H. rewrite (pstep_finished w a H). reflexivity. Qed.

  Lemma pstep2_finished_b c : pfinished (pc_b c) = true -> pstep2' c 1%nat = c.
  Proof. destruct c as [[w a] b]. cbn [pc_b fst snd pstep2]. intros H. rewrite (pstep_finished w b H). reflexivity. Qed.

  Lemma pstep2_other c i : pstep2' c (S (S i)) = c.
  Proof. destruct c as [[w a] b]. reflexivity. Qed.

  (* what `explore` computes is a statement about ALL schedules *)
  Lemma explore_sound P : forall sched n c, explore' P n c = true -> P (prun' c sched) = true.
  Proof.
    induction sched as [|i sched IH]; intros n c H.
    - cbn. destruct n; cbn [explore] in H; destruct (P c); congruence.
    - unfold prun. cbn [fold_left]. fold (prun' (pstep2' c i) sched).
      destruct i as [|[|i]].
      + destruct n as [|n]; cbn [explore] in H; destruct (P c) eqn:Pc; try discriminate.
        * destruct (pfinished (pc_a c)) eqn:Fa; try discriminate.
          rewrite (pstep2_finished_a c Fa). apply (IH 0%nat). cbn [explore]. rewrite Pc, Fa. exact H.
        * destruct (pfinished (pc_a c)) eqn:Fa.
          -- rewrite (pstep2_finished_a c Fa). apply (IH (S n)). cbn [explore]. rewrite Pc, Fa. exact H.
          -- destruct (pblocked mset munset (pc_a c)); try discriminate.
             destruct (explore' P n (pstep2' c 0%nat)) eqn:E; try discriminate. exact (IH n _ E).
      + destruct n as [|n]; cbn [explore] in H; destruct (P c) eqn:Pc; try discriminate.
        * destruct (pfinished (pc_a c)) eqn:Fa; try discriminate.
          rewrite (pstep2_finished_b c H). apply (IH 0%nat). cbn [explore]. rewrite Pc, Fa. exact H.
        * destruct (pfinished (pc_b c)) eqn:Fb.
          -- rewrite (pstep2_finished_b c Fb). apply (IH (S n)). cbn [explore]. rewrite Pc, Fb. exact H.
          -- destruct (if pfinished (pc_a c) then true else if pblocked mset munset (pc_a c) then false else explore' P n (pstep2' c 0%nat));
               try discriminate.
             destruct (pblocked mset munset (pc_b c)); try discriminate. exact (IH n _ H).
      + rewrite pstep2_other. exact (IH n c H).
  Qed.
End MachineFacts.

(* ==== from the words made of protocol bits to ALL words ================================= *)
(* The programs touch the word only through `load & m != 0` and Set/Unset of constants, all inside
   proto_mask.  Writing a word as x | h (x = its protocol bits, h = all other bits), a run from
   x | h and the run from x under the same schedule go through the same program points, and the
   words stay x' | h. *)
Definition psub (x : Z) : Prop := Z.land x proto_mask = x.
Definition pdisj (h : Z) : Prop := Z.land h proto_mask = 0.

Lemma psub_bit x i : psub x -> Z.testbit x i = true -> Z.testbit proto_mask i = true.
Proof.
  intros H T. unfold psub in H. rewrite <- H, Z.land_spec in T. apply andb_prop in T. tauto.
Qed.

Lemma pdisj_bit h i : pdisj h -> Z.testbit proto_mask i = true -> Z.testbit h i = false.
Proof.
  intros H T. assert (Z.testbit (Z.land h proto_mask) i = false) as E by (rewrite H; apply Z.bits_0).
  rewrite Z.land_spec, T, andb_true_r in E. exact E.
Qed.

Lemma psub_eqb x : (Z.land x proto_mask =? x) = true -> psub x.
Proof. apply Z.eqb_eq. Qed.

Section Lift.
  Variable h : Z.
  Hypothesis Hh : pdisj h.
  Local Notation lift := (fun x => Z.lor x h).

  Lemma land_lift x m : psub m -> Z.land (Z.lor x h) m = Z.land x m.
  Proof.
    intros Hm. apply Z.bits_inj'. intros i _. rewrite !Z.land_spec, Z.lor_spec.
    destruct (Z.testbit m i) eqn:Tm; [|rewrite !andb_false_r; reflexivity].
    rewrite (pdisj_bit h i Hh (psub_bit m i Hm Tm)), orb_false_r. reflexivity.
  Qed.

  Lemma ld_and_lift x m : psub m -> ld_and (Z.lor x h) m = ld_and x m.
  Proof. intros Hm. unfold ld_and. rewrite land_lift by exact Hm. reflexivity. Qed.

  Lemma lift_inj x y : psub x -> psub y -> Z.lor x h = Z.lor y h -> x = y.
  Proof.
    intros Hx Hy E. apply Z.bits_inj'. intros i _.
    assert (Z.testbit (Z.lor x h) i = Z.testbit (Z.lor y h) i) as B by (rewrite E; reflexivity).
    rewrite !Z.lor_spec in B.
    destruct (Z.testbit proto_mask i) eqn:Tm.
    - rewrite (pdisj_bit h i Hh Tm), !orb_false_r in B. exact B.
    - destruct (Z.testbit x i) eqn:Tx; [rewrite (psub_bit x i Hx Tx) in Tm; discriminate|].
      destruct (Z.testbit y i) eqn:Ty; [rewrite (psub_bit y i Hy Ty) in Tm; discriminate|]. reflexivity.
  Qed.

  Lemma lift_eqb x y : psub x -> psub y -> (Z.lor x h =? Z.lor y h) = (x =? y).
  Proof.
    intros Hx Hy. destruct (Z.eqb_spec x y) as [->|N]; [apply Z.eqb_refl|].
    apply Z.eqb_neq. intros E. exact (N (lift_inj x y Hx Hy E)).
  Qed.

  Lemma lor_lift x a : Z.lor (Z.lor x h) a = Z.lor (Z.lor x a) h.
  Proof. rewrite <- !Z.lor_assoc, (Z.lor_comm h a). reflexivity. Qed.

  Lemma psub_lor x a : psub x -> psub a -> psub (Z.lor x a).
  Proof. unfold psub. intros Hx Ha. rewrite Z.land_lor_distr_l, Hx, Ha. reflexivity. Qed.

  Lemma ldiff_lift x a : psub a -> Z.ldiff (Z.lor x h) a = Z.lor (Z.ldiff x a) h.
  Proof.
    intros Ha. apply Z.bits_inj'. intros i _. rewrite Z.ldiff_spec, !Z.lor_spec, Z.ldiff_spec.
    destruct (Z.testbit a i) eqn:Ta.
    - rewrite (pdisj_bit h i Hh (psub_bit a i Ha Ta)). rewrite !andb_false_r. reflexivity.
    - rewrite !andb_true_r. reflexivity.
  Qed.

  Lemma psub_ldiff x a : psub x -> psub (Z.ldiff x a).
  Proof.
    unfold psub. intros Hx. apply Z.bits_inj'. intros i _. rewrite Z.land_spec, !Z.ldiff_spec.
    destruct (Z.testbit x i) eqn:Tx; [|reflexivity].
    rewrite (psub_bit x i Hx Tx), andb_true_r. reflexivity.
  Qed.

  (* the machine: Set and Unset are compare-and-swap loops that or / and-not their argument in *)
  Variables mset munset : mutator.
  Variables es eu : expr.
  Hypothesis Hset_ops : call_ops mset munset true = [ALoad; ACas es].
  Hypothesis Hunset_ops : call_ops mset munset false = [ALoad; ACas eu].
  Hypothesis Hset_ev : forall cur a, eval es cur a = Z.lor cur a.
  Hypothesis Hunset_ev : forall cur a, eval eu cur a = Z.ldiff cur a.

  Local Notation pstep' := (pstep mset munset).

  Definition Rw (wf wx : Z) : Prop := wf = Z.lor wx h /\ psub wx.
  Definition Rt (tf tx : pthread) : Prop :=
    pt_prog tf = pt_prog tx /\ pt_k tf = pt_k tx /\ prog_in (pt_prog tx) = true /\
    (pt_k tx = 0%nat \/ (pt_k tx = 1%nat /\ pt_reg tf = Z.lor (pt_reg tx) h /\ psub (pt_reg tx))).

  Lemma Rt_start p : prog_in p = true -> Rt (pstart p) (pstart p).
  Proof. intros H. unfold Rt, pstart. cbn [pt_prog pt_k pt_reg]. auto. Qed.

  Lemma pstep_lift wf wx tf tx :
    Rw wf wx -> Rt tf tx ->
    Rw (fst (pstep' wf tf)) (fst (pstep' wx tx)) /\ Rt (snd (pstep' wf tf)) (snd (pstep' wx tx)).
  Proof.
    intros [-> Hwx] (Hp & Hk & Hin & Hr).
    destruct tf as [pf kf rf], tx as [px kx rx]. cbn [pt_prog pt_k pt_reg] in *. subst pf kf.
    unfold pstep. cbn [pt_prog pt_k pt_reg].
    destruct px as [b|m pa pb|set arg k|].
    - cbn [fst snd]. split; [split; [reflexivity|exact Hwx]|]. unfold Rt. cbn [pt_prog pt_k pt_reg]. auto.
    - cbn [prog_in] in Hin. apply andb_prop in Hin. destruct Hin as [Hin Hb]. apply andb_prop in Hin. destruct Hin as [Hm Ha].
      rewrite (ld_and_lift wx m (psub_eqb m Hm)). cbn [fst snd].
      split; [split; [reflexivity|exact Hwx]|]. apply Rt_start. destruct (ld_and wx m); assumption.
    - cbn [prog_in] in Hin. apply andb_prop in Hin. destruct Hin as [Harg Hk].
      apply psub_eqb in Harg.
      assert (exists e, call_ops mset munset set = [ALoad; ACas e] /\
                        forall cur, eval e cur arg = if set then Z.lor cur arg else Z.ldiff cur arg) as (e & Hops & Hev).
      { destruct set; [exists es|exists eu]; split; auto. }
      rewrite Hops.
      destruct Hr as [->|(-> & -> & Hrx)]; cbn [nth_error step_of length Nat.leb fst snd].
      + split; [split; [reflexivity|exact Hwx]|]. unfold Rt. cbn [pt_prog pt_k pt_reg prog_in].
        split; [reflexivity|]. split; [reflexivity|]. split.
        { apply andb_true_intro. split; [apply Z.eqb_eq; exact Harg|exact Hk]. }
        right. auto.
      + rewrite (lift_eqb wx rx Hwx Hrx). destruct (wx =? rx); cbn [Nat.leb fst snd].
        * rewrite !Hev. split; [|apply Rt_start; exact Hk].
          destruct set.
          -- rewrite lor_lift. split; [reflexivity|apply psub_lor; assumption].
          -- rewrite ldiff_lift by exact Harg. split; [reflexivity|apply psub_ldiff; assumption].
        * split; [split; [reflexivity|exact Hwx]|]. unfold Rt. cbn [pt_prog pt_k pt_reg prog_in].
          split; [reflexivity|]. split; [reflexivity|]. split.
          { apply andb_true_intro. split; [apply Z.eqb_eq; exact Harg|exact Hk]. }
          left. reflexivity.
    - cbn [fst snd]. split; [split; [reflexivity|exact Hwx]|]. unfold Rt. cbn [pt_prog pt_k pt_reg]. auto.
  Qed.

  Definition Rc (cf cx : pconfig) : Prop :=
    Rw (pc_word cf) (pc_word cx) /\ Rt (pc_a cf) (pc_a cx) /\ Rt (pc_b cf) (pc_b cx).

  Lemma pstep2_lift cf cx i : Rc cf cx -> Rc (pstep2 mset munset cf i) (pstep2 mset munset cx i).
  Proof.
    destruct cf as [[wf af] bf], cx as [[wx ax] bx]. unfold Rc. cbn [pc_word pc_a pc_b fst snd].
    intros (Hw & Ha & Hb). destruct i as [|[|i]]; cbn [pstep2].
    - pose proof (pstep_lift wf wx af ax Hw Ha) as [Hw' Ha'].
      destruct (pstep' wf af), (pstep' wx ax). cbn [fst snd] in *. auto.
    - pose proof (pstep_lift wf wx bf bx Hw Hb) as [Hw' Hb'].
      destruct (pstep' wf bf), (pstep' wx bx). cbn [fst snd] in *. auto.
    - auto.
  Qed.

  Lemma prun_lift sched : forall cf cx, Rc cf cx -> Rc (prun mset munset cf sched) (prun mset munset cx sched).
  Proof.
    induction sched as [|i sched IH]; intros cf cx H; [exact H|].
    unfold prun. cbn [fold_left]. apply IH. apply pstep2_lift. exact H.
  Qed.

  Lemma run_alone_lift n : forall wf wx tf tx, Rw wf wx -> Rt tf tx ->
    fst (run_alone mset munset n wf tf) = fst (run_alone mset munset n wx tx) /\
    Rw (snd (run_alone mset munset n wf tf)) (snd (run_alone mset munset n wx tx)).
  Proof.
    induction n as [|n IH]; intros wf wx tf tx Hw Ht; cbn [run_alone].
    - unfold pret. destruct Ht as (-> & _). cbn [fst snd]. auto.
    - assert (pfinished tf = pfinished tx) as -> by (unfold pfinished; destruct Ht as (-> & _); reflexivity).
      destruct (pfinished tx).
      + unfold pret. destruct Ht as (-> & _). cbn [fst snd]. auto.
      + pose proof (pstep_lift wf wx tf tx Hw Ht) as [Hw' Ht'].
        destruct (pstep' wf tf), (pstep' wx tx). cbn [fst snd] in *. exact (IH _ _ _ _ Hw' Ht').
  Qed.
End Lift.

(* the constants of the protocol lie inside proto_mask *)
Lemma psub_consts :
  psub stateClosed /\ psub stateClosing /\ psub stateChannel /\ psub stateChannelValue /\
  psub stateChannelUpdated /\ psub stateChannelProxy.
Proof. repeat split. Qed.

Section LiftProps.
  Variable h : Z.
  Hypothesis Hh : pdisj h.
  Variables mset munset : mutator.
  Variables es eu : expr.
  Hypothesis Hset_ops : call_ops mset munset true = [ALoad; ACas es].
  Hypothesis Hunset_ops : call_ops mset munset false = [ALoad; ACas eu].
  Hypothesis Hset_ev : forall cur a, eval es cur a = Z.lor cur a.
  Hypothesis Hunset_ev : forall cur a, eval eu cur a = Z.ldiff cur a.

  Ltac lift_getters :=
    unfold chan_active, request_differs, st_channel_can_start, st_closing, st_closed, st_channel, st_channel_value,
      st_channel_updated, st_channel_proxy;
    destruct psub_consts as (S1 & S2 & S3 & S4 & S5 & S6);
    rewrite ?(ld_and_lift h Hh _ _ S1), ?(ld_and_lift h Hh _ _ S2), ?(ld_and_lift h Hh _ _ S3),
      ?(ld_and_lift h Hh _ _ S4), ?(ld_and_lift h Hh _ _ S5), ?(ld_and_lift h Hh _ _ S6).

  Lemma protocol_ok_lift poller e x0 cf cx :
    prog_in poller = true -> psub x0 -> Rc h cf cx ->
    protocol_ok mset munset poller e (Z.lor x0 h) cf = protocol_ok mset munset poller e x0 cx.
  Proof.
    intros Hp Hx0 (Hw & Ha & Hb). destruct cf as [[wf af] bf], cx as [[wx ax] bx].
    cbn [pc_word pc_a pc_b fst snd] in *. destruct Hw as [-> Hwx].
    unfold protocol_ok, pret.
    destruct Ha as (-> & _). destruct Hb as (-> & _).
    pose proof (run_alone_lift h Hh mset munset es eu Hset_ops Hunset_ops Hset_ev Hunset_ev 64
                  (Z.lor wx h) wx (pstart poller) (pstart poller) (conj eq_refl Hwx) (Rt_start h poller Hp)) as [Hr [Hw2 Hs2]].
    unfold run_prog.
    destruct (run_alone mset munset 64 (Z.lor wx h) (pstart poller)) as [r2 w2].
    destruct (run_alone mset munset 64 wx (pstart poller)) as [r2' w2'].
    cbn [fst snd] in *. subst r2 w2.
    lift_getters. reflexivity.
  Qed.

  Lemma canstart_ok_lift e x0 cf cx :
    psub x0 -> Rc h cf cx -> canstart_ok e (Z.lor x0 h) cf = canstart_ok e x0 cx.
  Proof.
    intros Hx0 (Hw & Ha & Hb). destruct cf as [[wf af] bf], cx as [[wx ax] bx].
    cbn [pc_word pc_a pc_b fst snd] in *. destruct Hw as [-> Hwx].
    unfold canstart_ok, pret. destruct Ha as (-> & _). destruct Hb as (-> & _).
    lift_getters. reflexivity.
  Qed.

  (* every word splits into its protocol bits and the rest *)
  Lemma split_word w : w = Z.lor (Z.land w proto_mask) (Z.ldiff w proto_mask) /\
                       psub (Z.land w proto_mask) /\ pdisj (Z.ldiff w proto_mask) /\
                       In (Z.land w proto_mask) (submasks proto_mask).
  Proof.
    split; [rewrite Z.lor_comm; symmetry; apply Z.lor_ldiff_and|].
    assert (psub (Z.land w proto_mask)) as Hs.
    { unfold psub. rewrite <- Z.land_assoc, Z.land_diag. reflexivity. }
    split; [exact Hs|]. split; [apply Z.land_ldiff|].
    unfold submasks. apply filter_In. split; [|apply Z.eqb_eq; exact Hs].
    apply in_flag_states.
    assert (Z.land w proto_mask = Z.land w proto_mask mod 2 ^ 16) as E.
    { rewrite <- Z.land_ones by lia. rewrite <- Z.land_assoc. reflexivity. }
    rewrite E. change (2 ^ 16) with 65536. apply Z.mod_pos_bound. lia.
  Qed.
End LiftProps.

(* ---- the protocol theorems for any Set/Unset that are compare-and-swap loops ---------- *)
Section Protocol.
  Variables mset munset : mutator.
  Variables es eu : expr.
  Hypothesis Hset_ops : call_ops mset munset true = [ALoad; ACas es].
  Hypothesis Hunset_ops : call_ops mset munset false = [ALoad; ACas eu].
  Hypothesis Hset_ev : forall cur a, eval es cur a = Z.lor cur a.
  Hypothesis Hunset_ev : forall cur a, eval eu cur a = Z.ldiff cur a.

  Theorem protocol_all_words (poller sc : prog) (e : bool) :
    prog_in poller = true -> prog_in sc = true ->
    forallb (fun x => explore mset munset (protocol_ok mset munset poller e x) protocol_fuel (pinit x sc poller))
            (submasks proto_mask) = true ->
    forall w0 sched, protocol_ok mset munset poller e w0 (prun mset munset (pinit w0 sc poller) sched) = true.
  Proof.
    intros Hp Hs Hall w0 sched.
    destruct (split_word w0) as (Ew & Hx & Hh & Hin).
    set (x0 := Z.land w0 proto_mask) in *. set (h := Z.ldiff w0 proto_mask) in *.
    rewrite forallb_forall in Hall. specialize (Hall x0 Hin).
    pose proof (explore_sound mset munset _ sched _ _ Hall) as Px.
    rewrite <- Px. rewrite Ew at 1.
    apply (protocol_ok_lift h Hh mset munset es eu Hset_ops Hunset_ops Hset_ev Hunset_ev poller e x0); auto.
    apply (prun_lift h Hh mset munset es eu Hset_ops Hunset_ops Hset_ev Hunset_ev).
    rewrite Ew. unfold Rc, pinit. cbn [pc_word pc_a pc_b fst snd].
    split; [split; [reflexivity|exact Hx]|]. split; apply Rt_start; assumption.
  Qed.

  Theorem canstart_all_words (poller sc : prog) (e : bool) :
    prog_in poller = true -> prog_in sc = true ->
    forallb (fun x => explore mset munset (canstart_ok e x) protocol_fuel (pinit x sc poller))
            (submasks proto_mask) = true ->
    forall w0 sched, canstart_ok e w0 (prun mset munset (pinit w0 sc poller) sched) = true.
  Proof.
    intros Hp Hs Hall w0 sched.
    destruct (split_word w0) as (Ew & Hx & Hh & Hin).
    set (x0 := Z.land w0 proto_mask) in *. set (h := Z.ldiff w0 proto_mask) in *.
    rewrite forallb_forall in Hall. specialize (Hall x0 Hin).
    pose proof (explore_sound mset munset _ sched _ _ Hall) as Px.
    rewrite <- Px. rewrite Ew at 1.
    apply (canstart_ok_lift h Hh e x0); auto.
    apply (prun_lift h Hh mset munset es eu Hset_ops Hunset_ops Hset_ev Hunset_ev).
    rewrite Ew. unfold Rc, pinit. cbn [pc_word pc_a pc_b fst snd].
    split; [split; [reflexivity|exact Hx]|]. split; apply Rt_start; assumption.
  Qed.

  (* a program alone: one load per test, Set/Unset succeed at the first compare-and-swap *)
  Lemma run_ret n w b : run_alone mset munset n w (pstart (PRet b)) = (Some b, w).
  Proof. destruct n; reflexivity. Qed.

  Lemma run_test n w m a b :
    run_alone mset munset (S n) w (pstart (PTest m a b)) =
    run_alone mset munset n w (pstart (if ld_and w m then a else b)).
  Proof. reflexivity. Qed.

  Lemma run_call n w set arg k :
    run_alone mset munset (S (S n)) w (pstart (PCall set arg k)) =
    run_alone mset munset n (if set then st_set w arg else st_unset w arg) (pstart k).
  Proof.
    cbn [run_alone pfinished pstart pt_prog]. unfold pstep at 1. cbn [pt_prog pt_k pt_reg pstart].
    destruct set; [rewrite Hset_ops|rewrite Hunset_ops]; cbn [nth_error step_of length Nat.leb];
      unfold pstep; cbn [pt_prog pt_k pt_reg pfinished]; [rewrite Hset_ops|rewrite Hunset_ops];
      cbn [nth_error step_of length Nat.leb]; rewrite Z.eqb_refl; cbn [Nat.leb];
      [rewrite Hset_ev|rewrite Hunset_ev]; reflexivity.
  Qed.
End Protocol.

(* ---- regression: SetChannel raising the notice BEFORE it changes the request ------------ *)
Section RegressProtocol.
  (* compare-and-swap Set / Unset (the repaired shape), the poller of the pinned tree, and a
     SetChannel that raises the notice first and changes the standing request second *)
  Definition cas_set : mutator := Mutator CasLoop [ALoad; ACas (EOr ECur EArg)].
  Definition cas_unset : mutator := Mutator CasLoop [ALoad; ACas (EAndNot ECur EArg)].
  Definition ref_channelcanstop : prog :=
    PTest 4 (PRet true) (PTest 8 (PRet true) (PTest 256
      (PTest 1024 (PCall false 1024 (PTest 512 (PRet false) (PRet true))) (PTest 256 (PRet false) (PRet true)))
      (PRet true))).
  Definition swapped_setchannel (e : bool) : prog :=
    if e then PTest 512 (PRet false) (PCall true 1024 (PCall true 512 (PRet true)))
    else let go := PCall true 1024 (PCall false 512 (PRet true)) in
         let val := PTest 512 go (PRet false) in
         PTest 256 (PTest 2048 go val) val.

  (* alone, the swapped order computes the same word and answer as SetChannel of Model/State.v *)
  Lemma swapped_order_same_alone :
    forallb (fun x => let '(r, w) := run_prog cas_set cas_unset (swapped_setchannel true) x in
                      let '(r', w') := run_prog cas_set cas_unset (swapped_setchannel false) x in
                      match r, r' with
                      | Some b, Some b' => eqb b (fst (st_set_channel true x)) && (w =? snd (st_set_channel true x)) &&
                                           eqb b' (fst (st_set_channel false x)) && (w' =? snd (st_set_channel false x))
                      | _, _ => false
                      end) (submasks proto_mask) = true.
  Proof. vm_compute. reflexivity. Qed.

  (* OFF: word Ready|Channel|ChannelValue, SetChannel(false) || ChannelCanStop.  The poller sees the
     notice, consumes it and reads the OLD request: it answers "no stop", the notice is gone, the
     request is lost (final word Ready|Channel: every later poll answers "no stop"). *)
  Lemma swapped_order_loses_request :
    exists w0 sched,
      let c := prun cas_set cas_unset (pinit w0 (swapped_setchannel false) ref_channelcanstop) sched in
      chan_active w0 = true /\ st_channel_updated w0 = false /\
      pret (pc_a c) = Some true /\ pret (pc_b c) = Some false /\
      st_channel_updated (pc_word c) = false /\ st_channel_value (pc_word c) = false /\
      fst (run_prog cas_set cas_unset ref_channelcanstop (pc_word c)) = Some false /\
      protocol_ok cas_set cas_unset ref_channelcanstop false w0 c = false.
  Proof.
    exists 770, [0; 0; 0; 0; 0; 1; 1; 1; 1; 1; 1; 1; 0; 0]%nat. vm_compute. repeat split.
  Qed.

  (* ON: word Ready|Channel (channel started by the peer), SetChannel(true) || ChannelCanStop: the
     poller consumes the notice with the old value 0 and answers "stop" to a request to turn the
     channel on *)
  Lemma swapped_order_stops_on_request :
    exists w0 sched,
      let c := prun cas_set cas_unset (pinit w0 (swapped_setchannel true) ref_channelcanstop) sched in
      chan_active w0 = true /\ st_channel_updated w0 = false /\
      pret (pc_b c) = Some true /\
      protocol_ok cas_set cas_unset ref_channelcanstop true w0 c = false.
  Proof.
    exists 258, [0; 0; 0; 1; 1; 1; 1; 1; 1; 1]%nat. vm_compute. repeat split.
  Qed.
End RegressProtocol.

(* ---- what protocol_ok says, as propositions -------------------------------------------- *)
Lemma protocol_ok_elim mset munset poller e w0 w ts tp :
  protocol_ok mset munset poller e w0 (w, ts, tp) = true -> chan_active w0 = true ->
  (forall rs, pret ts = Some rs -> rs = request_differs e w0) /\
  (pret tp = Some true -> e = false \/ (st_channel_updated w0 = true /\ st_channel_value w0 = false)) /\
  (pret ts = Some true -> forall rp, pret tp = Some rp ->
     st_channel_value w = e /\
     (st_channel_updated w = false -> rp = negb e) /\
     (st_channel_updated w = true ->
        exists w2, run_prog mset munset poller w = (Some (negb e), w2) /\
                   st_channel_updated w2 = false /\ st_channel_value w2 = e)).
Proof.
  unfold protocol_ok. intros H Ha. rewrite Ha in H. cbn [negb orb] in H.
  apply andb_prop in H. destruct H as [H H3]. apply andb_prop in H. destruct H as [H1 H2].
  split; [|split].
  - intros rs E. rewrite E in H1. apply eqb_prop in H1. exact H1.
  - intros E. rewrite E in H2. destruct e; [right|left; reflexivity].
    cbn [negb orb] in H2. apply andb_prop in H2. destruct H2 as [A B]. split; [exact A|].
    destruct (st_channel_value w0); [discriminate|reflexivity].
  - intros Es rp Ep. rewrite Es, Ep in H3.
    apply andb_prop in H3. destruct H3 as [V H3]. apply eqb_prop in V. split; [exact V|].
    destruct (st_channel_updated w) eqn:U.
    + split; [discriminate|]. intros _.
      destruct (run_prog mset munset poller w) as [r2 w2].
      apply andb_prop in H3. destruct H3 as [H3 V2]. apply andb_prop in H3. destruct H3 as [R2 U2].
      exists w2. destruct r2 as [b|]; [|discriminate]. apply eqb_prop in R2. subst b.
      split; [reflexivity|]. split; [destruct (st_channel_updated w2); [discriminate|reflexivity]|apply eqb_prop; exact V2].
    + split; [|discriminate]. intros _. apply eqb_prop. exact H3.
Qed.

Lemma canstart_ok_elim e w0 w ts tp :
  canstart_ok e w0 (w, ts, tp) = true ->
  (forall r, pret tp = Some r ->
     r = st_channel_can_start w0 \/
     r = negb (st_closed w0) && (st_channel w0 || (if request_differs e w0 then e else st_channel_value w0))) /\
  (forall rs r, pret ts = Some rs -> pret tp = Some r ->
     rs = request_differs e w0 /\ st_channel_value w = (if rs then e else st_channel_value w0) /\
     st_channel_updated w = (rs || st_channel_updated w0)).
Proof.
  unfold canstart_ok. intros H. apply andb_prop in H. destruct H as [H1 H2]. split.
  - intros r E. rewrite E in H1. apply orb_prop in H1. destruct H1 as [A|A]; apply eqb_prop in A; auto.
  - intros rs r Es Ep. rewrite Es, Ep in H2.
    apply andb_prop in H2. destruct H2 as [H2 C]. apply andb_prop in H2. destruct H2 as [A B].
    apply eqb_prop in A. apply eqb_prop in B. apply eqb_prop in C. auto.
Qed.

(* ==== the compound methods translated from the CURRENT c2/state.go ======================= *)
Definition gen_es : expr := match m_ops gen_set with [ALoad; ACas e] => e | _ => EConst 0 end.
Definition gen_eu : expr := match m_ops gen_unset with [ALoad; ACas e] => e | _ => EConst 0 end.
Lemma gen_set_ops : call_ops gen_set gen_unset true = [ALoad; ACas gen_es].  Proof. reflexivity. Qed.
Lemma gen_unset_ops : call_ops gen_set gen_unset false = [ALoad; ACas gen_eu]. Proof. reflexivity. Qed.
Lemma gen_es_ev cur a : eval gen_es cur a = Z.lor cur a.
Proof. unfold gen_es; cbn [gen_set m_ops eval]; first [reflexivity | apply Z.lor_comm]. Qed.
Lemma gen_eu_ev cur a : eval gen_eu cur a = Z.ldiff cur a.
Proof. reflexivity. Qed.

Lemma gen_protocol_progs_in :
  prog_in gen_channelcanstop = true /\ prog_in gen_channelcanstart = true /\
  prog_in (gen_setchannel true) = true /\ prog_in (gen_setchannel false) = true.
Proof. repeat split. Qed.

(* run alone, every translated compound method is the method of the sequential model *)
Ltac run_sym :=
  unfold run_prog; unfold stateClosed, stateClosing, stateChannel, stateChannelValue, stateChannelUpdated,
    stateChannelProxy, stateSeen in *;
  repeat first
    [ rewrite (run_ret gen_set gen_unset)
    | rewrite (run_call gen_set gen_unset gen_es gen_eu gen_set_ops gen_unset_ops gen_es_ev gen_eu_ev)
    | rewrite (run_test gen_set gen_unset);
      match goal with
      | H : ld_and ?w ?m = _ |- context [if ld_and ?w ?m then _ else _] => rewrite H
      | |- context [if ld_and ?w ?m then _ else _] => destruct (ld_and w m) eqn:?
      end ];
  cbn [negb andb orb fst snd]; try reflexivity.

Theorem gen_tag_meaning w : run_prog gen_set gen_unset gen_tag w = (Some (fst (st_tag w)), snd (st_tag w)).
Proof. unfold gen_tag, st_tag, st_seen. run_sym. Qed.

Theorem gen_channelcanstart_meaning w :
  run_prog gen_set gen_unset gen_channelcanstart w = (Some (st_channel_can_start w), w).
Proof. unfold gen_channelcanstart, st_channel_can_start, st_closed, st_channel, st_channel_value. run_sym. Qed.

Theorem gen_channelcanstop_meaning w :
  run_prog gen_set gen_unset gen_channelcanstop w = (Some (fst (st_channel_can_stop w)), snd (st_channel_can_stop w)).
Proof.
  unfold gen_channelcanstop, st_channel_can_stop, st_closing, st_closed, st_channel, st_channel_updated, st_channel_value.
  run_sym.
Qed.

Theorem gen_setchannel_meaning e w :
  run_prog gen_set gen_unset (gen_setchannel e) w = (Some (fst (st_set_channel e w)), snd (st_set_channel e w)).
Proof.
  destruct e; unfold gen_setchannel, st_set_channel, st_channel, st_channel_proxy, st_channel_value; run_sym.
Qed.

(* every interleaving, computed on the words made of protocol bits ... *)
Lemma gen_protocol_explored e :
  forallb (fun x => explore gen_set gen_unset (protocol_ok gen_set gen_unset gen_channelcanstop e x) protocol_fuel
                            (pinit x (gen_setchannel e) gen_channelcanstop)) (submasks proto_mask) = true.
Proof. destruct e; vm_compute; reflexivity. Qed.

Lemma gen_canstart_explored e :
  forallb (fun x => explore gen_set gen_unset (canstart_ok e x) protocol_fuel
                            (pinit x (gen_setchannel e) gen_channelcanstart)) (submasks proto_mask) = true.
Proof. destruct e; vm_compute; reflexivity. Qed.

(* ... and lifted to every word, every schedule *)
Theorem gen_protocol_ok e w0 sched :
  protocol_ok gen_set gen_unset gen_channelcanstop e w0
              (prun gen_set gen_unset (pinit w0 (gen_setchannel e) gen_channelcanstop) sched) = true.
Proof.
  destruct gen_protocol_progs_in as (P1 & P2 & P3 & P4).
  apply (protocol_all_words gen_set gen_unset gen_es gen_eu gen_set_ops gen_unset_ops gen_es_ev gen_eu_ev).
  - exact P1.
  - destruct e; assumption.
  - apply gen_protocol_explored.
Qed.

Theorem gen_canstart_ok e w0 sched :
  canstart_ok e w0 (prun gen_set gen_unset (pinit w0 (gen_setchannel e) gen_channelcanstart) sched) = true.
Proof.
  destruct gen_protocol_progs_in as (P1 & P2 & P3 & P4).
  apply (canstart_all_words gen_set gen_unset gen_es gen_eu gen_set_ops gen_unset_ops gen_es_ev gen_eu_ev).
  - exact P2.
  - destruct e; assumption.
  - apply gen_canstart_explored.
Qed.

(* SetChannel(e) on one thread, ChannelCanStop on another, a running channel, ANY schedule *)
Theorem channel_protocol_concurrent (e : bool) (w0 : Z) (sched : list nat) :
  chan_active w0 = true ->
  let c := prun gen_set gen_unset (pinit w0 (gen_setchannel e) gen_channelcanstop) sched in
  (forall rs, pret (pc_a c) = Some rs -> rs = request_differs e w0) /\
  (pret (pc_b c) = Some true -> e = false \/ (st_channel_updated w0 = true /\ st_channel_value w0 = false)) /\
  (pret (pc_a c) = Some true -> forall rp, pret (pc_b c) = Some rp ->
     st_channel_value (pc_word c) = e /\
     (st_channel_updated (pc_word c) = false -> rp = negb e) /\
     (st_channel_updated (pc_word c) = true ->
        exists w2, st_channel_can_stop (pc_word c) = (negb e, w2) /\
                   st_channel_updated w2 = false /\ st_channel_value w2 = e)).
Proof.
  intros Ha c. pose proof (gen_protocol_ok e w0 sched) as H. fold c in H.
  destruct c as [[w ts] tp]. cbn [pc_word pc_a pc_b fst snd].
  destruct (protocol_ok_elim _ _ _ _ _ _ _ _ H Ha) as (H1 & H2 & H3).
  split; [exact H1|]. split; [exact H2|].
  intros Es rp Ep. destruct (H3 Es rp Ep) as (V & U0 & U1). split; [exact V|]. split; [exact U0|].
  intros U. destruct (U1 U) as (w2 & R & A & B). exists w2.
  rewrite gen_channelcanstop_meaning in R. injection R as R1 R2.
  split; [|auto]. rewrite <- R1, <- R2. destruct (st_channel_can_stop w); reflexivity.
Qed.

(* SetChannel(e) on one thread, ChannelCanStart on another, any word, ANY schedule *)
Theorem channel_can_start_concurrent (e : bool) (w0 : Z) (sched : list nat) :
  let c := prun gen_set gen_unset (pinit w0 (gen_setchannel e) gen_channelcanstart) sched in
  (forall r, pret (pc_b c) = Some r ->
     r = st_channel_can_start w0 \/
     r = negb (st_closed w0) && (st_channel w0 || (if request_differs e w0 then e else st_channel_value w0))) /\
  (forall rs r, pret (pc_a c) = Some rs -> pret (pc_b c) = Some r ->
     rs = request_differs e w0 /\ st_channel_value (pc_word c) = (if rs then e else st_channel_value w0) /\
     st_channel_updated (pc_word c) = (rs || st_channel_updated w0)).
Proof.
  intros c. pose proof (gen_canstart_ok e w0 sched) as H. fold c in H.
  destruct c as [[w ts] tp]. cbn [pc_word pc_a pc_b fst snd]. exact (canstart_ok_elim _ _ _ _ _ H).
Qed.

(* both calls return under the schedule "SetChannel to completion, then the poller" (the
   hypotheses above are satisfiable) *)
Lemma gen_protocol_completes :
  forallb (fun x => let c := prun gen_set gen_unset (pinit x (gen_setchannel false) gen_channelcanstop)
                                  (repeat 0%nat 8 ++ repeat 1%nat 8) in
                    pfinished (pc_a c) && pfinished (pc_b c)) (submasks proto_mask) = true.
Proof. vm_compute. reflexivity. Qed.

(* ==== the rest of c2, read from the source by atomics2v =================================== *)
(* no method with a VALUE receiver writes the state word of its receiver (such a write lands in a
   copy and is lost: every flag clear through that method would have no effect) *)
Lemma gen_no_value_receiver_writers : gen_value_receiver_writers = 0.
Proof. reflexivity. Qed.

(* every statement list of c2 that drops the standing channel request (clears ChannelValue) also
   clears its notice and the channel mode *)
Definition site_ok (cs : Z * Z) : bool :=
  if Z.land (fst cs) stateChannelValue =? 0 then true else Z.land (fst cs) teardown_mask =? teardown_mask.
Lemma gen_sites_drop_notice_with_request : forallb site_ok gen_state_sites = true.
Proof. vm_compute. reflexivity. Qed.

(* Session.close has (at least) two such statement lists and each of them clears all three flags,
   as st_close of Model/State.v does *)
Lemma gen_close_sites_teardown :
  (2 <=? Z.of_nat (length gen_session_close_sites)) &&
  forallb (fun cs => Z.land (fst cs) teardown_mask =? teardown_mask) gen_session_close_sites = true.
Proof. vm_compute. reflexivity. Qed.

(* hence: wherever c2 drops the request, no notice outlives it -- a channel started later (by the
   peer) is not stopped by a stale notice *)
Theorem no_notice_outlives_its_request :
  forall cs w, In cs gen_state_sites -> Z.land (fst cs) stateChannelValue <> 0 ->
    let w1 := st_unset w (fst cs) in
    st_channel_value w1 = false /\ st_channel_updated w1 = false /\
    (forall s, Z.testbit s 10 = false -> let w2 := st_set (st_set w1 s) stateChannel in
               st_closing w2 = false -> st_channel_can_stop w2 = (false, w2)).
Proof.
  intros cs w Hin Hv.
  pose proof (proj1 (forallb_forall _ _) gen_sites_drop_notice_with_request cs Hin) as H.
  unfold site_ok in H. destruct (Z.eqb_spec (Z.land (fst cs) stateChannelValue) 0) as [E|_]; [contradiction|].
  apply Z.eqb_eq in H. destruct (no_stale_notice_after_teardown (fst cs) w H) as (_ & V & U & K). auto.
Qed.
