(* Proofs/Interleave.v -- C13: no update of the state word is lost under ANY interleaving of
   linearisable mutators (CAS retry loop / single read-modify-write call); the load-then-store
   shape of the pinned tree loses updates (regression section); the theorems instantiated with the
   shapes atomics2v translated from the current c2/state.go (Gen/StateAtomics.v). *)
From Coq Require Import Permutation.
From XMT Require Import Base.Prelude Base.BitLemmas Model.State Model.Interleave Proofs.State.

(* ---- lists ------------------------------------------------------------------- *)
Lemma set_nth_length {A} (l : list A) i x : length (set_nth l i x) = length l.
Proof. revert i. induction l as [|y l IH]; intros [|i]; cbn [set_nth length]; auto. Qed.

Lemma nth_error_set_nth_eq {A} (l : list A) i x y :
  nth_error l i = Some y -> nth_error (set_nth l i x) i = Some x.
Proof.
  revert i. induction l as [|z l IH]; intros [|i] H; cbn [set_nth nth_error] in *; try discriminate; auto.
Qed.

Lemma nth_error_set_nth_neq {A} (l : list A) i j x :
  i <> j -> nth_error (set_nth l i x) j = nth_error l j.
Proof.
  revert i j. induction l as [|z l IH]; intros [|i] [|j] H; cbn [set_nth nth_error]; auto; try congruence.
Qed.

Lemma inb_in i l : inb i l = true <-> In i l.
Proof.
  unfold inb. rewrite existsb_exists. split.
  - intros [x [Hx E]]. apply Nat.eqb_eq in E. subst. exact Hx.
  - intros H. exists i. split; [exact H|apply Nat.eqb_refl].
Qed.

Lemma inb_app i l j : inb i (l ++ [j]) = inb i l || Nat.eqb i j.
Proof. unfold inb. rewrite existsb_app. cbn [existsb]. rewrite orb_false_r. reflexivity. Qed.

(* ---- one thread --------------------------------------------------------------- *)
(* the states of a thread that executes a linearisable call: before its commit point (false) it
   has not changed the word, after it (true) it has returned *)
Definition thread_inv (c : call) (committed : bool) (t : thread) : Prop :=
  code t = map (step_of (snd c)) (m_ops (fst c)) /\
  match m_ops (fst c) with
  | [ALoad; ACas _] => if committed then pc t = 2%nat else (pc t = 0%nat \/ pc t = 1%nat)
  | [_] => if committed then pc t = 1%nat else (pc t = 0%nat /\ reg t = 0)
  | _ => False
  end.

Lemma linearisable_ops m :
  linearisable m = true ->
  m_shape m <> Unknown /\
  ((exists e, m_ops m = [ALoad; ACas e]) \/ (exists e, m_ops m = [AOr e]) \/ (exists e, m_ops m = [AAnd e])).
Proof.
  unfold linearisable. destruct (m_shape m); try discriminate.
  - destruct (m_ops m) as [|[| | | |] [|[| | | |] [|]]]; try discriminate.
    intros _. split; [discriminate|]. left. eexists. reflexivity.
  - destruct (m_ops m) as [|[| | | |] [|]]; try discriminate; intros _; (split; [discriminate|]).
    + right. left. eexists. reflexivity.
    + right. right. eexists. reflexivity.
Qed.

Lemma thread_of_inv c : linearisable (fst c) = true -> thread_inv c false (thread_of c).
Proof.
  intros L. destruct (linearisable_ops _ L) as [Hs Ho].
  unfold thread_inv, thread_of, instantiate.
  destruct (m_shape (fst c)); try congruence;
    (split; [reflexivity|]); destruct Ho as [[e ->]|[[e ->]|[e ->]]]; cbn [pc reg]; auto.
Qed.

(* one step of a thread that has not committed: either the word is unchanged and the thread has
   still not committed, or the word becomes commit c (word) and the thread has committed *)
Lemma thread_step_uncommitted c w t :
  linearisable (fst c) = true -> thread_inv c false t ->
  let '(w', t') := thread_step w t in
  (w' = w /\ thread_inv c false t') \/ (w' = commit c w /\ thread_inv c true t').
Proof.
  intros L [Hc Hp]. destruct (linearisable_ops _ L) as [_ Ho].
  unfold thread_step, commit, commit_fn, thread_inv.
  destruct Ho as [[e Ho]|[[e Ho]|[e Ho]]]; rewrite Ho in *; rewrite Hc; cbn [map].
  - destruct Hp as [Hp|Hp]; rewrite Hp; cbn [nth_error step_of code pc reg].
    + left. split; [reflexivity|]. split; [reflexivity|]. right. reflexivity.
    + destruct (Z.eqb_spec w (reg t)) as [E|E].
      * right. cbn [code pc reg]. rewrite <- E. split; [reflexivity|]. split; reflexivity.
      * left. cbn [code pc reg]. split; [reflexivity|]. split; [reflexivity|]. left. reflexivity.
  - destruct Hp as [Hp Hr]. rewrite Hp, Hr. cbn [nth_error step_of code pc reg].
    right. split; [reflexivity|]. split; reflexivity.
  - destruct Hp as [Hp Hr]. rewrite Hp, Hr. cbn [nth_error step_of code pc reg].
    right. split; [reflexivity|]. split; reflexivity.
Qed.

(* a thread that has committed has returned: it stutters *)
Lemma thread_step_committed c w t :
  linearisable (fst c) = true -> thread_inv c true t -> thread_step w t = (w, t).
Proof.
  intros L [Hc Hp]. destruct (linearisable_ops _ L) as [_ Ho].
  unfold thread_step.
  destruct Ho as [[e Ho]|[[e Ho]|[e Ho]]]; rewrite Ho in *; rewrite Hc, Hp; reflexivity.
Qed.

Lemma thread_inv_finished c b t :
  linearisable (fst c) = true -> thread_inv c b t -> finished t = b.
Proof.
  intros L [Hc Hp]. destruct (linearisable_ops _ L) as [_ Ho].
  unfold finished.
  destruct Ho as [[e Ho]|[[e Ho]|[e Ho]]]; rewrite Ho in *; rewrite Hc; cbn [map length];
    destruct b; try (rewrite Hp; reflexivity).
  - destruct Hp as [Hp|Hp]; rewrite Hp; reflexivity.
  - destruct Hp as [Hp _]; rewrite Hp; reflexivity.
  - destruct Hp as [Hp _]; rewrite Hp; reflexivity.
Qed.

(* ---- all threads: the invariant of every schedule ------------------------------------ *)
Section NoLostUpdate.
  Variable cs : list call.
  Hypothesis Hlin : Forall (fun c => linearisable (fst c) = true) cs.
  Variable w0 : Z.

  (* lin = the ids of the threads that have committed, in the order of their commit points *)
  Definition inv (lin : list nat) (cf : config) : Prop :=
    NoDup lin /\
    (forall i, In i lin -> (i < length cs)%nat) /\
    fst cf = apply_calls cs lin w0 /\
    length (snd cf) = length cs /\
    forall i c t, nth_error cs i = Some c -> nth_error (snd cf) i = Some t -> thread_inv c (inb i lin) t.

  Lemma lin_of i c : nth_error cs i = Some c -> linearisable (fst c) = true.
  Proof.
    intros H. apply nth_error_In in H. rewrite Forall_forall in Hlin. exact (Hlin _ H).
  Qed.

  Lemma inv_init : inv [] (init w0 cs).
  Proof.
    unfold inv, init. cbn [fst snd]. split; [constructor|]. split; [intros i []|].
    split; [reflexivity|]. split; [apply map_length|].
    intros i c t Hc Ht. rewrite nth_error_map, Hc in Ht. cbn in Ht. injection Ht as <-.
    apply thread_of_inv. exact (lin_of _ _ Hc).
  Qed.

  Lemma apply_calls_snoc lin i c :
    nth_error cs i = Some c -> apply_calls cs (lin ++ [i]) w0 = commit c (apply_calls cs lin w0).
  Proof. intros H. unfold apply_calls. rewrite fold_left_app. cbn [fold_left]. rewrite H. reflexivity. Qed.

  Lemma inv_step lin cf i :
    inv lin cf -> exists lin', inv lin' (sched_step cf i) /\ (lin' = lin \/ lin' = lin ++ [i]).
  Proof.
    intros (Hnd & Hlt & Hw & Hlen & Hth). destruct cf as [w ts]. cbn [fst snd] in *.
    unfold sched_step. cbn [fst snd].
    destruct (nth_error ts i) as [t|] eqn:Ht.
    2:{ exists lin. split; [|left; reflexivity]. unfold inv. cbn [fst snd]. auto 10. }
    assert (i < length cs)%nat as Hi.
    { rewrite <- Hlen. apply nth_error_Some. congruence. }
    destruct (nth_error cs i) as [c|] eqn:Hc; [|apply nth_error_None in Hc; lia].
    pose proof (lin_of _ _ Hc) as L.
    pose proof (Hth _ _ _ Hc Ht) as Ti.
    destruct (inb i lin) eqn:Hin.
    - (* already returned: stutter *)
      rewrite (thread_step_committed c w t L Ti).
      exists lin. split; [|left; reflexivity].
      split; [exact Hnd|]. split; [exact Hlt|]. cbn [fst snd]. split; [exact Hw|].
      split; [rewrite set_nth_length; exact Hlen|].
      intros j c' t' Hc' Ht'. destruct (Nat.eq_dec i j) as [<-|Hne].
      + rewrite (nth_error_set_nth_eq _ _ _ _ Ht) in Ht'. injection Ht' as <-.
        rewrite Hc in Hc'. injection Hc' as <-. rewrite Hin. exact Ti.
      + rewrite nth_error_set_nth_neq in Ht' by exact Hne. exact (Hth _ _ _ Hc' Ht').
    - pose proof (thread_step_uncommitted c w t L Ti) as S.
      destruct (thread_step w t) as [w' t'].
      destruct S as [[-> Ti']|[-> Ti']].
      + (* a load, or a failed CAS *)
        exists lin. split; [|left; reflexivity].
        split; [exact Hnd|]. split; [exact Hlt|]. cbn [fst snd]. split; [exact Hw|].
        split; [rewrite set_nth_length; exact Hlen|].
        intros j c' t'' Hc' Ht'. destruct (Nat.eq_dec i j) as [<-|Hne].
        * rewrite (nth_error_set_nth_eq _ _ _ _ Ht) in Ht'. injection Ht' as <-.
          rewrite Hc in Hc'. injection Hc' as <-. rewrite Hin. exact Ti'.
        * rewrite nth_error_set_nth_neq in Ht' by exact Hne. exact (Hth _ _ _ Hc' Ht').
      + (* the commit point of thread i *)
        exists (lin ++ [i]). split; [|right; reflexivity].
        assert (~ In i lin) as Hnot.
        { intros H. apply inb_in in H. congruence. }
        split.
        { apply (Permutation_NoDup (Permutation_cons_append lin i)). constructor; assumption. }
        split.
        { intros j Hj. apply in_app_or in Hj. destruct Hj as [Hj|[<-|[]]]; [exact (Hlt _ Hj)|exact Hi]. }
        cbn [fst snd]. split.
        { rewrite (apply_calls_snoc _ _ _ Hc), <- Hw. reflexivity. }
        split; [rewrite set_nth_length; exact Hlen|].
        intros j c' t'' Hc' Ht'. rewrite inb_app. destruct (Nat.eq_dec i j) as [<-|Hne].
        * rewrite (nth_error_set_nth_eq _ _ _ _ Ht) in Ht'. injection Ht' as <-.
          rewrite Hc in Hc'. injection Hc' as <-. rewrite Nat.eqb_refl, orb_true_r. exact Ti'.
        * rewrite nth_error_set_nth_neq in Ht' by exact Hne.
          replace (Nat.eqb j i) with false by (symmetry; apply Nat.eqb_neq; congruence).
          rewrite orb_false_r. exact (Hth _ _ _ Hc' Ht').
  Qed.

  (* at every point of every schedule the word is the result of the committed calls, applied in
     one piece each, in the order of their commit points *)
  Lemma inv_run sched : forall lin cf, inv lin cf -> exists lin', inv lin' (run_sched cf sched).
  Proof.
    induction sched as [|i sched IH]; intros lin cf H.
    - exists lin. exact H.
    - unfold run_sched. cbn [fold_left]. destruct (inv_step lin cf i H) as [lin' [H' _]].
      exact (IH lin' _ H').
  Qed.

  Lemma inv_all_done lin cf :
    inv lin cf -> all_done cf = true -> Permutation lin (seq 0 (length cs)).
  Proof.
    intros (Hnd & Hlt & _ & Hlen & Hth) Hd.
    apply NoDup_Permutation; [exact Hnd|apply seq_NoDup|].
    intros i. rewrite in_seq. split; [intros H; specialize (Hlt _ H); lia|].
    intros [_ Hi]. cbn in Hi.
    destruct (nth_error cs i) as [c|] eqn:Hc; [|apply nth_error_None in Hc; lia].
    destruct (nth_error (snd cf) i) as [t|] eqn:Ht; [|apply nth_error_None in Ht; lia].
    pose proof (Hth _ _ _ Hc Ht) as Ti.
    pose proof (thread_inv_finished _ _ _ (lin_of _ _ Hc) Ti) as F.
    unfold all_done in Hd. rewrite forallb_forall in Hd.
    rewrite (Hd t (nth_error_In _ _ Ht)) in F. apply inb_in. congruence.
  Qed.

  (* the word at any point of any schedule: the calls of the threads that have returned, in some order *)
  Theorem word_is_committed_calls sched :
    exists lin, NoDup lin /\ fst (run_sched (init w0 cs) sched) = apply_calls cs lin w0 /\
      forall i t, nth_error (snd (run_sched (init w0 cs) sched)) i = Some t -> finished t = inb i lin.
  Proof.
    destruct (inv_run sched [] _ inv_init) as [lin H]. exists lin.
    destruct H as (Hnd & Hlt & Hw & Hlen & Hth). split; [exact Hnd|]. split; [exact Hw|].
    intros i t Ht.
    destruct (nth_error cs i) as [c|] eqn:Hc.
    - exact (thread_inv_finished _ _ _ (lin_of _ _ Hc) (Hth _ _ _ Hc Ht)).
    - apply nth_error_None in Hc. assert (i < length (snd (run_sched (init w0 cs) sched)))%nat.
      { apply nth_error_Some. congruence. }
      lia.
  Qed.

  (* NO LOST UPDATE: after every complete schedule the word is the result of ALL the calls applied
     in one piece each, in some order (the order of their commit points) *)
  Theorem no_lost_update_lin sched :
    all_done (run_sched (init w0 cs) sched) = true ->
    exists order, Permutation order (seq 0 (length cs)) /\
                  fst (run_sched (init w0 cs) sched) = apply_calls cs order w0.
  Proof.
    intros Hd. destruct (inv_run sched [] _ inv_init) as [lin H]. exists lin.
    split; [exact (inv_all_done _ _ H Hd)|]. destruct H as (_ & _ & Hw & _). exact Hw.
  Qed.
End NoLostUpdate.

