(* Proofs/Interleave.v -- C13: no update of the state word is lost under ANY interleaving of
   linearisable mutators (CAS retry loop / single read-modify-write call); the load-then-store
   shape of the pinned tree loses updates (regression section); the theorems instantiated with the
   shapes atomics2v translated from the current c2/state.go (Gen/StateAtomics.v). *)
From Coq Require Import Permutation.
From XMT Require Import Base.Prelude Base.BitLemmas Model.State Model.Interleave Proofs.State Gen.StateAtomics.

(* ---- lists ------------------------------------------------------------------- *)
Lemma set_nth_length {A} (l : list A) i x : length (set_nth l i x) = length l.
Proof. revert i. induction l as [|y l IH]; intros [|i]; cbn [set_nth length]; auto. Qed.

Lemma nth_error_set_nth_eq {A} (l : list A) i x y :
  nth_error l i = Some y -> nth_error (set_nth l i x) i = Some x.
Proof.
  revert i. induction l as [|z l IH]; intros [|i] H; cbn [set_nth nth_error] in *; try discriminate; auto.
Qed.

Lemma nth_error_set_nth_neq {A} (l : list A) i j x :
  i <> j -> nth_error (set_nth l i x) j = nth_error l j.
Proof.
  revert i j. induction l as [|z l IH]; intros [|i] [|j] H; cbn [set_nth nth_error]; auto; try congruence.
Qed.

Lemma inb_in i l : inb i l = true <-> In i l.
Proof.
  unfold inb. rewrite existsb_exists. split.
  - intros [x [Hx E]]. apply Nat.eqb_eq in E. subst. exact Hx.
  - intros H. exists i. split; [exact H|apply Nat.eqb_refl].
Qed.

Lemma inb_app i l j : inb i (l ++ [j]) = inb i l || Nat.eqb i j.
Proof. unfold inb. rewrite existsb_app. cbn [existsb]. rewrite orb_false_r. reflexivity. Qed.

(* ---- one thread --------------------------------------------------------------- *)
(* the states of a thread that executes a linearisable call: before its commit point (false) it
   has not changed the word, after it (true) it has returned *)
Definition thread_inv (c : call) (committed : bool) (t : thread) : Prop :=
  code t = map (step_of (snd c)) (m_ops (fst c)) /\
  match m_ops (fst c) with
  | [ALoad; ACas _] => if committed then pc t = 2%nat else (pc t = 0%nat \/ pc t = 1%nat)
  | [_] => if committed then pc t = 1%nat else (pc t = 0%nat /\ reg t = 0)
  | _ => False
  end.

Lemma linearisable_ops m :
  linearisable m = true ->
  m_shape m <> Unknown /\
  ((exists e, m_ops m = [ALoad; ACas e]) \/ (exists e, m_ops m = [AOr e]) \/ (exists e, m_ops m = [AAnd e])).
Proof.
  unfold linearisable. destruct (m_shape m); try discriminate.
  - destruct (m_ops m) as [|[| | | |] [|[| | | |] [|]]]; try discriminate.
    intros _. split; [discriminate|]. left. eexists. reflexivity.
  - destruct (m_ops m) as [|[| | | |] [|]]; try discriminate; intros _; (split; [discriminate|]).
    + right. left. eexists. reflexivity.
    + right. right. eexists. reflexivity.
Qed.

Lemma thread_of_inv c : linearisable (fst c) = true -> thread_inv c false (thread_of c).
Proof.
  intros L. destruct (linearisable_ops _ L) as [Hs Ho].
  unfold thread_inv, thread_of, instantiate.
  destruct (m_shape (fst c)); try congruence;
    (split; [reflexivity|]); destruct Ho as [[e ->]|[[e ->]|[e ->]]]; cbn [pc reg]; auto.
Qed.

(* one step of a thread that has not committed: either the word is unchanged and the thread has
   still not committed, or the word becomes commit c (word) and the thread has committed *)
Lemma thread_step_uncommitted c w t :
  linearisable (fst c) = true -> thread_inv c false t ->
  let '(w', t') := thread_step w t in
  (w' = w /\ thread_inv c false t') \/ (w' = commit c w /\ thread_inv c true t').
Proof.
  intros L [Hc Hp]. destruct (linearisable_ops _ L) as [_ Ho].
  unfold thread_step, commit, commit_fn, thread_inv.
  destruct Ho as [[e Ho]|[[e Ho]|[e Ho]]]; rewrite Ho in *; rewrite Hc; cbn [map].
  - destruct Hp as [Hp|Hp]; rewrite Hp; cbn [nth_error step_of code pc reg].
    + left. split; [reflexivity|]. split; [reflexivity|]. right. reflexivity.
    + destruct (Z.eqb_spec w (reg t)) as [E|E].
      * right. cbn [code pc reg]. rewrite <- E. split; [reflexivity|]. split; reflexivity.
      * left. cbn [code pc reg]. split; [reflexivity|]. split; [reflexivity|]. left. reflexivity.
  - destruct Hp as [Hp Hr]. rewrite Hp, Hr. cbn [nth_error step_of code pc reg].
    right. split; [reflexivity|]. split; reflexivity.
  - destruct Hp as [Hp Hr]. rewrite Hp, Hr. cbn [nth_error step_of code pc reg].
    right. split; [reflexivity|]. split; reflexivity.
Qed.

(* a thread that has committed has returned: it stutters *)
Lemma thread_step_committed c w t :
  linearisable (fst c) = true -> thread_inv c true t -> thread_step w t = (w, t).
Proof.
  intros L [Hc Hp]. destruct (linearisable_ops _ L) as [_ Ho].
  unfold thread_step.
  destruct Ho as [[e Ho]|[[e Ho]|[e Ho]]]; rewrite Ho in *; rewrite Hc, Hp; reflexivity.
Qed.

Lemma thread_inv_finished c b t :
  linearisable (fst c) = true -> thread_inv c b t -> finished t = b.
Proof.
  intros L [Hc Hp]. destruct (linearisable_ops _ L) as [_ Ho].
  unfold finished.
  destruct Ho as [[e Ho]|[[e Ho]|[e Ho]]]; rewrite Ho in *; rewrite Hc; cbn [map length];
    destruct b; try (rewrite Hp; reflexivity).
  - destruct Hp as [Hp|Hp]; rewrite Hp; reflexivity.
  - destruct Hp as [Hp _]; rewrite Hp; reflexivity.
  - destruct Hp as [Hp _]; rewrite Hp; reflexivity.
Qed.

(* ---- all threads: the invariant of every schedule ------------------------------------ *)
Section NoLostUpdate.
  Variable cs : list call.
  Hypothesis Hlin : Forall (fun c => linearisable (fst c) = true) cs.
  Variable w0 : Z.

  (* lin = the ids of the threads that have committed, in the order of their commit points *)
  Definition inv (lin : list nat) (cf : config) : Prop :=
    NoDup lin /\
    (forall i, In i lin -> (i < length cs)%nat) /\
    fst cf = apply_calls cs lin w0 /\
    length (snd cf) = length cs /\
    forall i c t, nth_error cs i = Some c -> nth_error (snd cf) i = Some t -> thread_inv c (inb i lin) t.

  Lemma lin_of i c : nth_error cs i = Some c -> linearisable (fst c) = true.
  Proof.
    intros H. apply nth_error_In in H. rewrite Forall_forall in Hlin. exact (Hlin _ H).
  Qed.

  Lemma inv_init : inv [] (init w0 cs).
  Proof.
    unfold inv, init. cbn [fst snd]. split; [constructor|]. split; [intros i []|].
    split; [reflexivity|]. split; [apply map_length|].
    intros i c t Hc Ht. rewrite nth_error_map, Hc in Ht. cbn in Ht. injection Ht as <-.
    apply thread_of_inv. exact (lin_of _ _ Hc).
  Qed.

  Lemma apply_calls_snoc lin i c :
    nth_error cs i = Some c -> apply_calls cs (lin ++ [i]) w0 = commit c (apply_calls cs lin w0).
  Proof. intros H. unfold apply_calls. rewrite fold_left_app. cbn [fold_left]. rewrite H. reflexivity. Qed.

  Lemma inv_step lin cf i :
    inv lin cf -> exists lin', inv lin' (sched_step cf i) /\ (lin' = lin \/ lin' = lin ++ [i]).
  Proof.
    intros (Hnd & Hlt & Hw & Hlen & Hth). destruct cf as [w ts]. cbn [fst snd] in *.
    unfold sched_step. cbn [fst snd].
    destruct (nth_error ts i) as [t|] eqn:Ht.
    2:{ exists lin. split; [|left; reflexivity]. unfold inv. cbn [fst snd]. auto 10. }
    assert (i < length cs)%nat as Hi.
    { rewrite <- Hlen. apply nth_error_Some. congruence. }
    destruct (nth_error cs i) as [c|] eqn:Hc; [|apply nth_error_None in Hc; lia].
    pose proof (lin_of _ _ Hc) as L.
    pose proof (Hth _ _ _ Hc Ht) as Ti.
    destruct (inb i lin) eqn:Hin.
    - (* already returned: stutter *)
      rewrite (thread_step_committed c w t L Ti).
      exists lin. split; [|left; reflexivity].
      split; [exact Hnd|]. split; [exact Hlt|]. cbn [fst snd]. split; [exact Hw|].
      split; [rewrite set_nth_length; exact Hlen|].
      intros j c' t' Hc' Ht'. destruct (Nat.eq_dec i j) as [<-|Hne].
      + rewrite (nth_error_set_nth_eq _ _ _ _ Ht) in Ht'. injection Ht' as <-.
        rewrite Hc in Hc'. injection Hc' as <-. rewrite Hin. exact Ti.
      + rewrite nth_error_set_nth_neq in Ht' by exact Hne. exact (Hth _ _ _ Hc' Ht').
    - pose proof (thread_step_uncommitted c w t L Ti) as S.
      destruct (thread_step w t) as [w' t'].
      destruct S as [[-> Ti']|[-> Ti']].
      + (* a load, or a failed CAS *)
        exists lin. split; [|left; reflexivity].
        split; [exact Hnd|]. split; [exact Hlt|]. cbn [fst snd]. split; [exact Hw|].
        split; [rewrite set_nth_length; exact Hlen|].
        intros j c' t'' Hc' Ht'. destruct (Nat.eq_dec i j) as [<-|Hne].
        * rewrite (nth_error_set_nth_eq _ _ _ _ Ht) in Ht'. injection Ht' as <-.
          rewrite Hc in Hc'. injection Hc' as <-. rewrite Hin. exact Ti'.
        * rewrite nth_error_set_nth_neq in Ht' by exact Hne. exact (Hth _ _ _ Hc' Ht').
      + (* the commit point of thread i *)
        exists (lin ++ [i]). split; [|right; reflexivity].
        assert (~ In i lin) as Hnot.
        { intros H. apply inb_in in H. congruence. }
        split.
        { apply (Permutation_NoDup (Permutation_cons_append lin i)). constructor; assumption. }
        split.
        { intros j Hj. apply in_app_or in Hj. destruct Hj as [Hj|[<-|[]]]; [exact (Hlt _ Hj)|exact Hi]. }
        cbn [fst snd]. split.
        { rewrite (apply_calls_snoc _ _ _ Hc), <- Hw. reflexivity. }
        split; [rewrite set_nth_length; exact Hlen|].
        intros j c' t'' Hc' Ht'. rewrite inb_app. destruct (Nat.eq_dec i j) as [<-|Hne].
        * rewrite (nth_error_set_nth_eq _ _ _ _ Ht) in Ht'. injection Ht' as <-.
          rewrite Hc in Hc'. injection Hc' as <-. rewrite Nat.eqb_refl, orb_true_r. exact Ti'.
        * rewrite nth_error_set_nth_neq in Ht' by exact Hne.
          replace (Nat.eqb j i) with false by (symmetry; apply Nat.eqb_neq; congruence).
          rewrite orb_false_r. exact (Hth _ _ _ Hc' Ht').
  Qed.

  (* at every point of every schedule the word is the result of the committed calls, applied in
     one piece each, in the order of their commit points *)
  Lemma inv_run sched : forall lin cf, inv lin cf -> exists lin', inv lin' (run_sched cf sched).
  Proof.
    induction sched as [|i sched IH]; intros lin cf H.
    - exists lin. exact H.
    - unfold run_sched. cbn [fold_left]. destruct (inv_step lin cf i H) as [lin' [H' _]].
      exact (IH lin' _ H').
  Qed.

  Lemma inv_all_done lin cf :
    inv lin cf -> all_done cf = true -> Permutation lin (seq 0 (length cs)).
  Proof.
    intros (Hnd & Hlt & _ & Hlen & Hth) Hd.
    apply NoDup_Permutation; [exact Hnd|apply seq_NoDup|].
    intros i. rewrite in_seq. split; [intros H; specialize (Hlt _ H); lia|].
    intros [_ Hi]. cbn in Hi.
    destruct (nth_error cs i) as [c|] eqn:Hc; [|apply nth_error_None in Hc; lia].
    destruct (nth_error (snd cf) i) as [t|] eqn:Ht; [|apply nth_error_None in Ht; lia].
    pose proof (Hth _ _ _ Hc Ht) as Ti.
    pose proof (thread_inv_finished _ _ _ (lin_of _ _ Hc) Ti) as F.
    unfold all_done in Hd. rewrite forallb_forall in Hd.
    rewrite (Hd t (nth_error_In _ _ Ht)) in F. apply inb_in. congruence.
  Qed.

  (* the word at any point of any schedule: the calls of the threads that have returned, in some order *)
  Theorem word_is_committed_calls sched :
    exists lin, NoDup lin /\ fst (run_sched (init w0 cs) sched) = apply_calls cs lin w0 /\
      forall i t, nth_error (snd (run_sched (init w0 cs) sched)) i = Some t -> finished t = inb i lin.
  Proof.
    destruct (inv_run sched [] _ inv_init) as [lin H]. exists lin.
    destruct H as (Hnd & Hlt & Hw & Hlen & Hth). split; [exact Hnd|]. split; [exact Hw|].
    intros i t Ht.
    destruct (nth_error cs i) as [c|] eqn:Hc.
    - exact (thread_inv_finished _ _ _ (lin_of _ _ Hc) (Hth _ _ _ Hc Ht)).
    - apply nth_error_None in Hc. assert (i < length (snd (run_sched (init w0 cs) sched)))%nat.
      { apply nth_error_Some. congruence. }
      lia.
  Qed.

  (* NO LOST UPDATE: after every complete schedule the word is the result of ALL the calls applied
     in one piece each, in some order (the order of their commit points) *)
  Theorem no_lost_update_lin sched :
    all_done (run_sched (init w0 cs) sched) = true ->
    exists order, Permutation order (seq 0 (length cs)) /\
                  fst (run_sched (init w0 cs) sched) = apply_calls cs order w0.
  Proof.
    intros Hd. destruct (inv_run sched [] _ inv_init) as [lin H]. exists lin.
    split; [exact (inv_all_done _ _ H Hd)|]. destruct H as (_ & _ & Hw & _). exact Hw.
  Qed.
End NoLostUpdate.


(* ---- complete schedules exist ------------------------------------------------------ *)
(* two scheduling slots return a linearisable call when nothing intervenes: load, then a
   compare-and-swap that finds the word it loaded *)
Lemma two_steps_finish c w :
  linearisable (fst c) = true ->
  finished (snd (thread_step (fst (thread_step w (thread_of c))) (snd (thread_step w (thread_of c))))) = true.
Proof.
  intros L. destruct (linearisable_ops _ L) as [Hs Ho].
  unfold thread_of, instantiate.
  destruct (m_shape (fst c)); try congruence;
    destruct Ho as [[e ->]|[[e ->]|[e ->]]]; unfold thread_step; cbn [map code pc reg nth_error step_of fst snd];
    rewrite ?Z.eqb_refl; reflexivity.
Qed.

Lemma set_nth_app {A} (l1 : list A) x y l2 : set_nth (l1 ++ x :: l2) (length l1) y = l1 ++ y :: l2.
Proof. induction l1 as [|z l1 IH]; cbn [app length set_nth]; [reflexivity|rewrite IH; reflexivity]. Qed.

Lemma nth_error_app_mid {A} (l1 : list A) x l2 : nth_error (l1 ++ x :: l2) (length l1) = Some x.
Proof. induction l1 as [|z l1 IH]; cbn [app length nth_error]; auto. Qed.

Lemma sched_step_mid w done t rest :
  sched_step (w, done ++ t :: rest) (length done) =
  (fst (thread_step w t), done ++ snd (thread_step w t) :: rest).
Proof.
  unfold sched_step. cbn [fst snd]. rewrite nth_error_app_mid.
  destruct (thread_step w t) as [w' t']. rewrite set_nth_app. reflexivity.
Qed.

Lemma serial_completes_from rest :
  Forall (fun c => linearisable (fst c) = true) rest ->
  forall done w, forallb finished done = true ->
    all_done (run_sched (w, done ++ map thread_of rest)
                        (flat_map (fun i => [i; i]) (seq (length done) (length rest)))) = true.
Proof.
  induction rest as [|c rest IH]; intros HF done w Hd.
  - cbn. unfold all_done. cbn [snd]. rewrite app_nil_r. exact Hd.
  - inversion HF as [|? ? Lc HF']; subst.
    cbn [length seq flat_map map]. unfold run_sched. rewrite fold_left_app. fold (run_sched).
    cbn [app fold_left]. rewrite !sched_step_mid.
    pose proof (two_steps_finish c w Lc) as F.
    destruct (thread_step w (thread_of c)) as [w1 t1]. cbn [fst snd] in *.
    destruct (thread_step w1 t1) as [w2 t2]. cbn [fst snd] in *.
    replace (done ++ t2 :: map thread_of rest) with ((done ++ [t2]) ++ map thread_of rest)
      by (rewrite <- app_assoc; reflexivity).
    replace (S (length done)) with (length (done ++ [t2])) by (rewrite app_length; cbn; lia).
    apply (IH HF'). rewrite forallb_app, Hd. cbn. rewrite F. reflexivity.
Qed.

(* every list of linearisable calls has a complete schedule (so the theorem above is about
   something): every thread in turn, two slots each *)
Theorem serial_completes cs w0 :
  Forall (fun c => linearisable (fst c) = true) cs ->
  all_done (run_sched (init w0 cs) (serial_sched (length cs))) = true.
Proof. intros H. exact (serial_completes_from cs H [] w0 eq_refl). Qed.

(* ---- the three mutators of the state word ------------------------------------------ *)
(* facts about the calls applied in one piece, in any order *)
Lemma mcall_last c w : arg_in_half c ->
  st_last (mcall_fn c w) = match c with MSetLast g => g | _ => st_last w end.
Proof.
  destruct c as [v|v|g]; cbn [mcall_fn arg_in_half]; intros H.
  - apply set_keeps_group. exact H.
  - apply unset_keeps_group. exact H.
  - apply setlast_sets. exact H.
Qed.

Lemma mcall_flags c w w' : st_flags w = st_flags w' -> st_flags (mcall_fn c w) = st_flags (flag_fn c w').
Proof.
  destruct c as [v|v|g]; cbn [mcall_fn flag_fn]; intros H.
  - rewrite !set_flags, H. reflexivity.
  - rewrite !unset_flags, H. reflexivity.
  - rewrite setlast_keeps_flags. exact H.
Qed.

Lemma mcall_bit c w k : 0 <= k < 16 ->
  Z.testbit (mcall_fn c w) k = (Z.testbit w k || sets_bit k c) && negb (clears_bit k c).
Proof.
  intros Hk. destruct c as [v|v|g]; cbn [mcall_fn sets_bit clears_bit negb].
  - rewrite set_spec, andb_true_r. reflexivity.
  - rewrite unset_spec, orb_false_r. reflexivity.
  - rewrite setlast_spec by lia. replace (k <? 16) with true by (symmetry; apply Z.ltb_lt; lia).
    rewrite orb_false_r, andb_true_r. reflexivity.
Qed.

Section Orders.
  Variable cs : list mcall.

  Lemma apply_mcalls_cons i order w :
    apply_mcalls cs (i :: order) w =
    apply_mcalls cs order (match nth_error cs i with Some c => mcall_fn c w | None => w end).
  Proof. reflexivity. Qed.

  (* the group half after the calls = the argument of the last SetLast (the initial group if none) *)
  Lemma apply_mcalls_last order : (forall c, In c cs -> arg_in_half c) ->
    forall w, st_last (apply_mcalls cs order w) = last_group cs order (st_last w).
  Proof.
    intros Hh. induction order as [|i order IH]; intros w; [reflexivity|].
    rewrite apply_mcalls_cons, IH. unfold last_group. cbn [fold_left].
    destruct (nth_error cs i) as [c|] eqn:Hc; [|reflexivity].
    rewrite (mcall_last c w (Hh _ (nth_error_In _ _ Hc))). destruct c; reflexivity.
  Qed.

  (* the flag half after the calls = the flag half after the flag calls alone *)
  Lemma apply_mcalls_flags order :
    forall w w', st_flags w = st_flags w' ->
                 st_flags (apply_mcalls cs order w) = st_flags (apply_flag_calls cs order w').
  Proof.
    induction order as [|i order IH]; intros w w' H; [exact H|].
    rewrite apply_mcalls_cons. unfold apply_flag_calls. cbn [fold_left]. apply IH.
    destruct (nth_error cs i) as [c|]; [apply mcall_flags|]; exact H.
  Qed.

  Lemma last_group_no_setlast order g0 :
    (forall c, In c cs -> is_flag_call c = true) -> last_group cs order g0 = g0.
  Proof.
    intros Hf. induction order as [|i order IH]; [reflexivity|].
    unfold last_group in *. cbn [fold_left]. destruct (nth_error cs i) as [c|] eqn:Hc; [|exact IH].
    specialize (Hf _ (nth_error_In _ _ Hc)). destruct c; try discriminate; exact IH.
  Qed.

  Lemma apply_flag_calls_no_flag_call order w :
    (forall c, In c cs -> is_flag_call c = false) -> apply_flag_calls cs order w = w.
  Proof.
    intros Hf. induction order as [|i order IH]; [reflexivity|].
    unfold apply_flag_calls in *. cbn [fold_left]. destruct (nth_error cs i) as [c|] eqn:Hc; [|exact IH].
    specialize (Hf _ (nth_error_In _ _ Hc)). destruct c; try discriminate; exact IH.
  Qed.

  (* a flag that some call sets and no call clears is set after the calls, whatever the order *)
  Lemma apply_mcalls_bit_set k order : 0 <= k < 16 ->
    (forall c, In c cs -> clears_bit k c = false) ->
    forall w, (Z.testbit w k = true \/ exists i c, In i order /\ nth_error cs i = Some c /\ sets_bit k c = true) ->
              Z.testbit (apply_mcalls cs order w) k = true.
  Proof.
    intros Hk Hn. induction order as [|i order IH]; intros w H.
    - destruct H as [H|(i & c & [] & _)]. exact H.
    - rewrite apply_mcalls_cons. apply IH.
      destruct (nth_error cs i) as [c|] eqn:Hc.
      + rewrite mcall_bit by exact Hk. rewrite (Hn _ (nth_error_In _ _ Hc)). cbn [negb]. rewrite andb_true_r.
        destruct H as [H|(j & c' & [<-|Hj] & Hc' & Hs)].
        * left. rewrite H. reflexivity.
        * left. rewrite Hc in Hc'. injection Hc' as <-. rewrite Hs. apply orb_true_r.
        * right. exists j, c'. auto.
      + destruct H as [H|(j & c' & [<-|Hj] & Hc' & Hs)]; [left; exact H|congruence|right; exists j, c'; auto].
  Qed.

  (* a flag that some call clears and no call sets is clear after the calls, whatever the order *)
  Lemma apply_mcalls_bit_clear k order : 0 <= k < 16 ->
    (forall c, In c cs -> sets_bit k c = false) ->
    forall w, (Z.testbit w k = false \/ exists i c, In i order /\ nth_error cs i = Some c /\ clears_bit k c = true) ->
              Z.testbit (apply_mcalls cs order w) k = false.
  Proof.
    intros Hk Hn. induction order as [|i order IH]; intros w H.
    - destruct H as [H|(i & c & [] & _)]. exact H.
    - rewrite apply_mcalls_cons. apply IH.
      destruct (nth_error cs i) as [c|] eqn:Hc.
      + rewrite mcall_bit by exact Hk. rewrite (Hn _ (nth_error_In _ _ Hc)). rewrite orb_false_r.
        destruct H as [H|(j & c' & [<-|Hj] & Hc' & Hs)].
        * left. rewrite H. reflexivity.
        * left. rewrite Hc in Hc'. injection Hc' as <-. rewrite Hs. apply andb_false_r.
        * right. exists j, c'. auto.
      + destruct H as [H|(j & c' & [<-|Hj] & Hc' & Hs)]; [left; exact H|congruence|right; exists j, c'; auto].
  Qed.

  Lemma in_order_of_perm order c :
    Permutation order (seq 0 (length cs)) -> In c cs -> exists i, In i order /\ nth_error cs i = Some c.
  Proof.
    intros P H. destruct (In_nth_error _ _ H) as [i Hi]. exists i. split; [|exact Hi].
    apply (Permutation_in _ (Permutation_sym P)). apply in_seq.
    assert (i < length cs)%nat by (apply nth_error_Some; congruence). lia.
  Qed.
End Orders.

(* the concurrent theorems for any three linearisable mutators whose commit functions are
   Set / Unset / SetLast of Model/State.v *)
Section Mutators.
  Variables mset munset msetlast : mutator.
  Hypothesis Lset : linearisable mset = true.
  Hypothesis Lunset : linearisable munset = true.
  Hypothesis Lsetlast : linearisable msetlast = true.
  Hypothesis Cset : forall w v, commit_fn mset v w = st_set w v.
  Hypothesis Cunset : forall w v, commit_fn munset v w = st_unset w v.
  Hypothesis Csetlast : forall w g, commit_fn msetlast g w = st_setlast w g.

  Local Notation tc := (to_call mset munset msetlast).

  Lemma to_call_linearisable cs : Forall (fun c => linearisable (fst c) = true) (map tc cs).
  Proof.
    apply Forall_forall. intros c H. apply in_map_iff in H. destruct H as [m [<- _]].
    destruct m; assumption.
  Qed.

  Lemma commit_to_call m w : commit (tc m) w = mcall_fn m w.
  Proof. destruct m; unfold commit; cbn [to_call fst snd mcall_fn]; auto. Qed.

  Lemma apply_calls_to_call cs order : forall w, apply_calls (map tc cs) order w = apply_mcalls cs order w.
  Proof.
    induction order as [|i order IH]; intros w; [reflexivity|].
    unfold apply_calls, apply_mcalls in *. cbn [fold_left]. rewrite nth_error_map.
    destruct (nth_error cs i) as [m|]; cbn [option_map]; [rewrite commit_to_call|]; apply IH.
  Qed.

  Theorem no_lost_update_mut (cs : list mcall) w0 sched :
    all_done (run_sched (init w0 (map tc cs)) sched) = true ->
    exists order, Permutation order (seq 0 (length cs)) /\
                  fst (run_sched (init w0 (map tc cs)) sched) = apply_mcalls cs order w0.
  Proof.
    intros Hd. destruct (no_lost_update_lin _ (to_call_linearisable cs) w0 sched Hd) as [order [P E]].
    exists order. rewrite map_length in P. split; [exact P|]. rewrite E. apply apply_calls_to_call.
  Qed.

  Theorem set_bit_survives_mut (cs : list mcall) w0 sched k :
    all_done (run_sched (init w0 (map tc cs)) sched) = true ->
    0 <= k < 16 ->
    (exists c, In c cs /\ sets_bit k c = true) -> (forall c, In c cs -> clears_bit k c = false) ->
    Z.testbit (fst (run_sched (init w0 (map tc cs)) sched)) k = true.
  Proof.
    intros Hd Hk [c [Hc Hs]] Hn. destruct (no_lost_update_mut cs w0 sched Hd) as [order [P ->]].
    apply apply_mcalls_bit_set; [exact Hk|exact Hn|]. right.
    destruct (in_order_of_perm cs order c P Hc) as [i [Hi Hnth]]. exists i, c. auto.
  Qed.

  Theorem cleared_bit_stays_clear_mut (cs : list mcall) w0 sched k :
    all_done (run_sched (init w0 (map tc cs)) sched) = true ->
    0 <= k < 16 ->
    (exists c, In c cs /\ clears_bit k c = true) -> (forall c, In c cs -> sets_bit k c = false) ->
    Z.testbit (fst (run_sched (init w0 (map tc cs)) sched)) k = false.
  Proof.
    intros Hd Hk [c [Hc Hs]] Hn. destruct (no_lost_update_mut cs w0 sched Hd) as [order [P ->]].
    apply apply_mcalls_bit_clear; [exact Hk|exact Hn|]. right.
    destruct (in_order_of_perm cs order c P Hc) as [i [Hi Hnth]]. exists i, c. auto.
  Qed.

  (* the two halves stay independent under concurrency: the flag half is what the flag calls alone
     give in the linearisation order, the group half is the argument of the SetLast linearised last *)
  Theorem halves_independent_mut (cs : list mcall) w0 sched :
    all_done (run_sched (init w0 (map tc cs)) sched) = true ->
    (forall c, In c cs -> arg_in_half c) ->
    exists order, Permutation order (seq 0 (length cs)) /\
      st_flags (fst (run_sched (init w0 (map tc cs)) sched)) = st_flags (apply_flag_calls cs order w0) /\
      st_last (fst (run_sched (init w0 (map tc cs)) sched)) = last_group cs order (st_last w0).
  Proof.
    intros Hd Hh. destruct (no_lost_update_mut cs w0 sched Hd) as [order [P ->]].
    exists order. split; [exact P|]. split.
    - apply apply_mcalls_flags. reflexivity.
    - apply apply_mcalls_last. exact Hh.
  Qed.

  Theorem flag_calls_keep_group_mut (cs : list mcall) w0 sched :
    all_done (run_sched (init w0 (map tc cs)) sched) = true ->
    (forall c, In c cs -> arg_in_half c) -> (forall c, In c cs -> is_flag_call c = true) ->
    st_last (fst (run_sched (init w0 (map tc cs)) sched)) = st_last w0.
  Proof.
    intros Hd Hh Hf. destruct (halves_independent_mut cs w0 sched Hd Hh) as (order & _ & _ & ->).
    apply last_group_no_setlast. exact Hf.
  Qed.

  Theorem setlast_calls_keep_flags_mut (cs : list mcall) w0 sched :
    all_done (run_sched (init w0 (map tc cs)) sched) = true ->
    (forall c, In c cs -> is_flag_call c = false) ->
    st_flags (fst (run_sched (init w0 (map tc cs)) sched)) = st_flags w0.
  Proof.
    intros Hd Hf. destruct (no_lost_update_mut cs w0 sched Hd) as [order [P ->]].
    rewrite (apply_mcalls_flags cs order w0 w0 eq_refl). rewrite apply_flag_calls_no_flag_call by exact Hf.
    reflexivity.
  Qed.

  (* the word stays a 32-bit word *)
  Theorem word_ok_mut (cs : list mcall) w0 sched :
    all_done (run_sched (init w0 (map tc cs)) sched) = true ->
    word_ok w0 -> (forall c, In c cs -> match c with MSet v => word_ok v | _ => True end) ->
    word_ok (fst (run_sched (init w0 (map tc cs)) sched)).
  Proof.
    intros Hd Hw Ha. destruct (no_lost_update_mut cs w0 sched Hd) as [order [_ ->]].
    clear Hd. revert w0 Hw. induction order as [|i order IH]; intros w Hw; [exact Hw|].
    rewrite apply_mcalls_cons. apply IH. destruct (nth_error cs i) as [c|] eqn:Hc; [|exact Hw].
    specialize (Ha _ (nth_error_In _ _ Hc)). destruct c; cbn [mcall_fn].
    - apply set_word_ok; assumption.
    - apply unset_word_ok; assumption.
    - apply setlast_word_ok.
  Qed.
End Mutators.

(* ---- regression: the load-then-store shape of the pinned tree ------------------------- *)
(* what atomics2v read from c2/state.go before the repair (`fix:` commit recorded in
   known_findings.d/C13.json): Set/Unset/SetLast were an atomic load followed by an atomic store.
   Kept here as a copy so that the refutation stays checked. *)
Section Regress.
  Definition old_set : mutator := Mutator LoadStore [ALoad; AStore (EOr ECur EArg)].
  Definition old_unset : mutator := Mutator LoadStore [ALoad; AStore (EAndNot ECur EArg)].
  Definition old_setlast : mutator :=
    Mutator LoadStore [ALoad; AStore (EOr (EU32 (EShl (EU32 EArg) 16)) (EU32 (EU16 ECur)))].
  Definition old_call : mcall -> call := to_call old_set old_unset old_setlast.

  Lemma old_not_linearisable :
    linearisable old_set = false /\ linearisable old_unset = false /\ linearisable old_setlast = false.
  Proof. repeat split. Qed.

  (* run alone, the old methods computed the right thing (the sequential model) *)
  Lemma old_sequential_meaning w v :
    seq_fn old_set v w = st_set w v /\ seq_fn old_unset v w = st_unset w v /\ seq_fn old_setlast v w = st_setlast w v.
  Proof. repeat split. Qed.

  Lemma perm2 (order : list nat) : Permutation order [0%nat; 1%nat] -> order = [0%nat; 1%nat] \/ order = [1%nat; 0%nat].
  Proof. intros P. apply Permutation_sym in P. exact (Permutation_length_2_inv P). Qed.

  (* [T0.load; T1.load; T1.store; T0.store]: Set(1) and Set(2) on the word 0 leave 1.  Both calls
     returned, the word is the result of NO order of the two calls, and the flag 2, set by one call
     and cleared by none, is not set. *)
  Lemma lost_update_refuted :
    exists (cs : list mcall) (w0 : Z) (sched : list nat),
      let cf := run_sched (init w0 (map old_call cs)) sched in
      all_done cf = true /\
      (forall order, Permutation order (seq 0 (length cs)) -> fst cf <> apply_mcalls cs order w0) /\
      exists k c, 0 <= k < 16 /\ In c cs /\ sets_bit k c = true /\
                  (forall c', In c' cs -> clears_bit k c' = false) /\ Z.testbit (fst cf) k = false.
  Proof.
    exists [MSet 1; MSet 2], 0, [0; 1; 1; 0]%nat. cbv zeta.
    split; [vm_compute; reflexivity|]. split.
    - intros order P. destruct (perm2 order P) as [-> | ->]; vm_compute; discriminate.
    - exists 1, (MSet 2). split; [lia|]. split; [right; left; reflexivity|]. split; [reflexivity|].
      split; [|vm_compute; reflexivity].
      intros c' [<-|[<-|[]]]; reflexivity.
  Qed.

  (* the same schedule with SetLast(7) against Set(1): the group call wipes out the flag, i.e.
     under concurrency updating one half altered the other *)
  Lemma lost_update_refuted_setlast :
    exists (cs : list mcall) (w0 : Z) (sched : list nat),
      let cf := run_sched (init w0 (map old_call cs)) sched in
      all_done cf = true /\ (forall c, In c cs -> arg_in_half c) /\
      (forall order, Permutation order (seq 0 (length cs)) ->
                     st_flags (fst cf) <> st_flags (apply_flag_calls cs order w0)).
  Proof.
    exists [MSetLast 7; MSet 1], 0, [0; 1; 1; 0]%nat. cbv zeta.
    split; [vm_compute; reflexivity|]. split.
    - intros c [<-|[<-|[]]]; cbn [arg_in_half]; unfold half_ok; lia.
    - intros order P. destruct (perm2 order P) as [-> | ->]; vm_compute; discriminate.
  Qed.

  (* the witness schedule the check evaluates on the generated shapes when they are not
     linearisable (tools/propcfg/c13.py): on the old shapes it loses the update *)
  Lemma old_witness_loses :
    wr_lost (lost_update_witness (old_call (MSet 1)) (old_call (MSet 2)) 0) = true /\
    wr_lost (lost_update_witness (old_call (MSet 1)) (old_call (MUnset 2)) 2) = true /\
    wr_lost (lost_update_witness (old_call (MSetLast 7)) (old_call (MSet 1)) 0) = true.
  Proof. repeat split. Qed.
End Regress.

(* ---- the shapes translated from the CURRENT c2/state.go -------------------------------- *)
(* Gen/StateAtomics.v is rewritten by tools/atomics2v on every run.  Everything below is about
   those generated terms: if Set/Unset/SetLast stop being linearisable (or stop computing
   Set/Unset/SetLast of Model/State.v at their commit point) this part no longer compiles. *)
Definition gen_call : mcall -> call := to_call gen_set gen_unset gen_setlast.

Lemma gen_linearisable :
  linearisable gen_set = true /\ linearisable gen_unset = true /\ linearisable gen_setlast = true.
Proof. repeat split. Qed.

Lemma gen_set_commit w v : commit_fn gen_set v w = st_set w v.
Proof. unfold gen_set, commit_fn, st_set; cbn [m_ops eval]; first [reflexivity | apply Z.lor_comm]. Qed.
Lemma gen_unset_commit w v : commit_fn gen_unset v w = st_unset w v.
Proof. reflexivity. Qed.
Lemma gen_setlast_commit w g : commit_fn gen_setlast g w = st_setlast w g.
Proof. unfold gen_setlast, commit_fn, st_setlast; cbn [m_ops eval]; first [reflexivity | apply Z.lor_comm]. Qed.

(* the constants of the model are the constants of the code *)
Lemma gen_state_bits_agree : gen_state_bits = state_bits.
Proof. reflexivity. Qed.

(* the argument widths the translator read from the signatures *)
Lemma gen_argbits : gen_set_argbits = 32 /\ gen_unset_argbits = 32 /\ gen_setlast_argbits = 16.
Proof. repeat split. Qed.

Lemma gen_witness_keeps :
  wr_lost (lost_update_witness (gen_call (MSet 1)) (gen_call (MSet 2)) 0) = false /\
  wr_lost (lost_update_witness (gen_call (MSet 1)) (gen_call (MUnset 2)) 2) = false /\
  wr_lost (lost_update_witness (gen_call (MSetLast 7)) (gen_call (MSet 1)) 0) = false.
Proof. repeat split. Qed.

Definition gen_L1 := proj1 gen_linearisable.
Definition gen_L2 := proj1 (proj2 gen_linearisable).
Definition gen_L3 := proj2 (proj2 gen_linearisable).

Theorem no_lost_update (cs : list mcall) w0 sched :
  all_done (run_sched (init w0 (map gen_call cs)) sched) = true ->
  exists order, Permutation order (seq 0 (length cs)) /\
                fst (run_sched (init w0 (map gen_call cs)) sched) = apply_mcalls cs order w0.
Proof.
  exact (no_lost_update_mut _ _ _ gen_L1 gen_L2 gen_L3 gen_set_commit gen_unset_commit gen_setlast_commit cs w0 sched).
Qed.

(* also at every intermediate point of every schedule: the word is the result of the calls that
   have returned (and of no other), in the order of their commit points *)
Theorem no_partial_update (cs : list mcall) w0 sched :
  exists lin, NoDup lin /\
    fst (run_sched (init w0 (map gen_call cs)) sched) = apply_mcalls cs lin w0 /\
    forall i t, nth_error (snd (run_sched (init w0 (map gen_call cs)) sched)) i = Some t -> finished t = inb i lin.
Proof.
  destruct (word_is_committed_calls _ (to_call_linearisable _ _ _ gen_L1 gen_L2 gen_L3 cs) w0 sched)
    as (lin & Hnd & Hw & Hf).
  exists lin. unfold gen_call. split; [exact Hnd|]. split; [|exact Hf].
  rewrite Hw. exact (apply_calls_to_call _ _ _ gen_set_commit gen_unset_commit gen_setlast_commit cs lin w0).
Qed.

Theorem complete_schedule_exists (cs : list mcall) w0 :
  all_done (run_sched (init w0 (map gen_call cs)) (serial_sched (length cs))) = true.
Proof.
  pose proof (serial_completes (map gen_call cs) w0 (to_call_linearisable _ _ _ gen_L1 gen_L2 gen_L3 cs)) as H.
  rewrite map_length in H. exact H.
Qed.

Definition set_bit_survives :=
  set_bit_survives_mut _ _ _ gen_L1 gen_L2 gen_L3 gen_set_commit gen_unset_commit gen_setlast_commit.
Definition cleared_bit_stays_clear :=
  cleared_bit_stays_clear_mut _ _ _ gen_L1 gen_L2 gen_L3 gen_set_commit gen_unset_commit gen_setlast_commit.
Definition halves_independent_concurrently :=
  halves_independent_mut _ _ _ gen_L1 gen_L2 gen_L3 gen_set_commit gen_unset_commit gen_setlast_commit.
Definition flag_calls_keep_group :=
  flag_calls_keep_group_mut _ _ _ gen_L1 gen_L2 gen_L3 gen_set_commit gen_unset_commit gen_setlast_commit.
Definition setlast_calls_keep_flags :=
  setlast_calls_keep_flags_mut _ _ _ gen_L1 gen_L2 gen_L3 gen_set_commit gen_unset_commit gen_setlast_commit.
Definition concurrent_word_ok :=
  word_ok_mut _ _ _ gen_L1 gen_L2 gen_L3 gen_set_commit gen_unset_commit gen_setlast_commit.
