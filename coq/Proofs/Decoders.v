(* Proofs/Decoders.v -- C04: no decoder of Model/Decoders.v panics, and each allocates at most
   K*|input| + C, for ALL byte strings.  The statements are about the definitions that the
   correspondence run evaluates (`run`), after the fix: commits d9f26ba, 05faa5c, bd34833; the
   pinned-tree definitions (`run_pinned`) are refuted by concrete witnesses. *)
From XMT Require Import Base.Prelude Base.BitLemmas Model.Codec Model.Decoders.
From Coq Require Import ZifyBool.
From Coq Require String.
Import String.StringSyntax.
Ltac Zify.zify_post_hook ::= Z.div_mod_to_equations.

(* ===================================================================================
   0. generic facts: the A monad, suffixes, byte ranges
   =================================================================================== *)
Definition np {X} (a : A X) : Prop := outcome a <> Panic.

Lemma abind_ok {X Y} (m : A X) (f : X -> A Y) x :
  outcome m = Ok x -> abind m f = (outcome (f x), alloc m + alloc (f x)).
Proof. unfold abind, outcome, alloc. intros ->. reflexivity. Qed.
Lemma abind_err {X Y} (m : A X) (f : X -> A Y) e :
  outcome m = Err e -> abind m f = (Err e, alloc m).
Proof. unfold abind, outcome, alloc. intros ->. reflexivity. Qed.
Lemma abind_panic {X Y} (m : A X) (f : X -> A Y) :
  outcome m = Panic -> abind m f = (Panic, alloc m).
Proof. unfold abind, outcome, alloc. intros ->. reflexivity. Qed.

(* the working rule: a bound B1 for m, a bound B2 for every continuation that is reached *)
Lemma bind_rule {X Y} (m : A X) (f : X -> A Y) (B1 B2 : Z) :
  np m -> alloc m <= B1 -> 0 <= B2 ->
  (forall x, outcome m = Ok x -> np (f x) /\ alloc (f x) <= B2) ->
  np (abind m f) /\ alloc (abind m f) <= B1 + B2.
Proof.
  intros Hn Ha HB Hf. destruct (outcome m) as [x|e|] eqn:E.
  - rewrite (abind_ok _ _ _ E). destruct (Hf x eq_refl) as [H1 H2]. split; [exact H1|]. unfold alloc in *. cbn [snd]. lia.
  - rewrite (abind_err _ _ _ E). split; [discriminate|]. unfold alloc in *. cbn [snd]. lia.
  - exfalso. apply Hn. exact E.
Qed.

(* a continuation after a pure step *)
Lemma lift_rule {X Y} (r : res X) (f : X -> A Y) (B : Z) :
  r <> Panic -> 0 <= B ->
  (forall x, r = Ok x -> np (f x) /\ alloc (f x) <= B) ->
  np (abind (lift r) f) /\ alloc (abind (lift r) f) <= B.
Proof.
  intros Hr HB Hf.
  assert (H : np (abind (lift r) f) /\ alloc (abind (lift r) f) <= 0 + B).
  { apply bind_rule.
    - exact Hr.
    - cbn. lia.
    - exact HB.
    - exact Hf. }
  destruct H as [H1 H2]. split; [exact H1|lia].
Qed.

Lemma mk_rule {Y} (n : Z) (f : unit -> A Y) (B : Z) :
  0 <= B -> np (f tt) /\ alloc (f tt) <= B ->
  np (abind (mk n) f) /\ alloc (abind (mk n) f) <= n + B.
Proof.
  intros HB Hf. apply bind_rule.
  - discriminate.
  - cbn. lia.
  - exact HB.
  - intros [] _. exact Hf.
Qed.

Lemma ret_rule {X} (x : X) (B : Z) : 0 <= B -> np (ret x) /\ alloc (ret x) <= B.
Proof. intros. split; [discriminate | cbn; lia]. Qed.
Lemma err_rule {X} (e : Z) (B : Z) : 0 <= B -> np (@lift X (Err e)) /\ alloc (@lift X (Err e)) <= B.
Proof. intros. split; [discriminate | cbn; lia]. Qed.

(* ---- r is what is left of s after at least n bytes were consumed ------------------ *)
Definition adv (n : Z) (s r : list Z) : Prop := exists p, s = p ++ r /\ n <= len p.

Lemma adv_len n s r : adv n s r -> len r + n <= len s.
Proof. intros (p & -> & H). rewrite len_app. lia. Qed.
Lemma adv_ok n s r : adv n s r -> bytes_ok s = true -> bytes_ok r = true.
Proof. intros (p & -> & _). unfold bytes_ok. rewrite forallb_app. intros H. apply andb_prop in H. tauto. Qed.
Lemma adv_refl s : adv 0 s s.
Proof. exists []. split; [reflexivity | cbn; lia]. Qed.
Lemma adv_trans n m s r r' : adv n s r -> adv m r r' -> adv (n + m) s r'.
Proof. intros (p & -> & H1) (q & -> & H2). exists (p ++ q). rewrite <- app_assoc, len_app. split; [reflexivity|lia]. Qed.
Lemma adv_weak n m s r : adv n s r -> m <= n -> adv m s r.
Proof. intros (p & -> & H) ?. exists p. split; [reflexivity|lia]. Qed.
Lemma adv_drop k (s : list Z) : 0 <= k <= len s -> adv k s (drop k s).
Proof.
  intros H. exists (take k s). split.
  - symmetry. apply firstn_skipn.
  - unfold len, take in *. rewrite firstn_length. lia.
Qed.
Lemma adv_cons x s : adv 1 (x :: s) s.
Proof. exists [x]. split; [reflexivity | cbn; lia]. Qed.

Lemma len_drop (s : list Z) k : 0 <= k <= len s -> len (drop k s) = len s - k.
Proof. intros. unfold len, drop in *. rewrite skipn_length. lia. Qed.
Lemma len_take' (s : list Z) k : 0 <= k <= len s -> len (take k s) = k.
Proof. intros. unfold len, take in *. rewrite firstn_length. lia. Qed.

Lemma bytes_ok_cons x s : bytes_ok (x :: s) = true -> 0 <= x < 256 /\ bytes_ok s = true.
Proof. unfold bytes_ok, is_byte. cbn [forallb]. intros H. apply andb_prop in H. destruct H. split; [lia|assumption]. Qed.
Lemma bytes_ok_take k s : bytes_ok s = true -> bytes_ok (take k s) = true.
Proof.
  unfold take. generalize (Z.to_nat k). intros n. revert s. induction n; intros s H; [reflexivity|].
  destruct s as [|x s]; [reflexivity|]. cbn [firstn]. apply bytes_ok_cons in H. destruct H as [Hx Hs].
  unfold bytes_ok in *. cbn [forallb]. rewrite IHn by assumption. unfold is_byte. lia.
Qed.
Lemma bytes_ok_drop k s : bytes_ok s = true -> bytes_ok (drop k s) = true.
Proof.
  unfold drop. generalize (Z.to_nat k). intros n. revert s. induction n; intros s H; [exact H|].
  destruct s as [|x s]; [reflexivity|]. cbn [skipn]. apply bytes_ok_cons in H. apply IHn. tauto.
Qed.

Lemma idx_some (b : list Z) i : 0 <= i < len b -> exists x, idx b i = Ok x /\ In x b.
Proof.
  intros H. unfold idx. replace (i <? 0) with false by lia.
  destruct (nth_error b (Z.to_nat i)) eqn:E.
  - exists z. split; [reflexivity|]. eapply nth_error_In. exact E.
  - apply nth_error_None in E. unfold len in H. lia.
Qed.
Lemma bytes_ok_in b x : bytes_ok b = true -> In x b -> 0 <= x < 256.
Proof. unfold bytes_ok. rewrite forallb_forall. intros H Hi. specialize (H x Hi). unfold is_byte in H. lia. Qed.
Lemma idx_byte (b : list Z) i : bytes_ok b = true -> 0 <= i < len b -> exists x, idx b i = Ok x /\ 0 <= x < 256.
Proof. intros Hb H. destruct (idx_some b i H) as (x & E & Hin). exists x. split; [exact E|]. eapply bytes_ok_in; eassumption. Qed.

Lemma of_be_bound l : forall acc, bytes_ok l = true -> 0 <= acc -> 0 <= of_be l acc < (acc + 1) * 256 ^ len l.
Proof.
  induction l as [|x l IH]; intros acc Hb Ha.
  - cbn [of_be]. change (len (@nil Z)) with 0. lia.
  - apply bytes_ok_cons in Hb. destruct Hb as [Hx Hl]. cbn [of_be].
    specialize (IH (acc * 256 + x) Hl ltac:(lia)). rewrite len_cons.
    pose proof (len_nonneg l). rewrite Z.pow_add_r by lia. change (256 ^ 1) with 256.
    assert (0 < 256 ^ len l) by (apply Z.pow_pos_nonneg; lia). nia.
Qed.

(* ===================================================================================
   1. the flat reader primitives of Model/Codec.v: never Panic, consume what they return
   =================================================================================== *)
Lemma rd_u8_spec s v r : rd_u8 s = Ok (v, r) -> adv 1 s r /\ (bytes_ok s = true -> 0 <= v < 256).
Proof.
  destruct s as [|x s]; cbn [rd_u8]; [discriminate|]. intros E. inversion E; subst.
  split; [apply adv_cons|]. intros H. apply bytes_ok_cons in H. tauto.
Qed.
Lemma rd_u8_np s : rd_u8 s <> Panic.
Proof. destruct s; discriminate. Qed.

Lemma rd_fixed_spec n s b r : 0 <= n -> rd_fixed n s = Ok (b, r) -> adv n s r /\ b = take n s /\ len b = n.
Proof.
  intros Hn. unfold rd_fixed. destruct (len s <? n) eqn:E; [discriminate|]. intros H. inversion H; subst.
  split; [apply adv_drop; lia|]. split; [reflexivity|]. apply len_take'. lia.
Qed.

Lemma rd_uN_spec n s v r : 0 <= n -> rd_uN n s = Ok (v, r) ->
  adv n s r /\ (bytes_ok s = true -> 0 <= v < 256 ^ n).
Proof.
  intros Hn. unfold rd_uN. destruct (rd_fixed n s) as [[b r']|e|] eqn:E; cbn [bind]; try discriminate.
  intros H. inversion H; subst. destruct (rd_fixed_spec _ _ _ _ Hn E) as (Ha & Hb & Hl).
  split; [exact Ha|]. intros Hs. subst b. pose proof (of_be_bound (take n s) 0 (bytes_ok_take _ _ Hs) ltac:(lia)).
  rewrite Hl in H0. lia.
Qed.
Lemma rd_uN_np n s : rd_uN n s <> Panic.
Proof. unfold rd_uN, rd_fixed. destruct (len s <? n); discriminate. Qed.

Lemma rd_prefix_spec s o r : rd_prefix s = Ok (o, r) ->
  adv 1 s r /\ (bytes_ok s = true -> forall n, o = Some n -> 0 <= n < 2 ^ 64).
Proof.
  unfold rd_prefix. destruct (rd_u8 s) as [[t r0]|e|] eqn:E0; cbn [bind]; try discriminate.
  destruct (rd_u8_spec _ _ _ E0) as [A0 _].
  destruct (t =? 0). { intros H. inversion H; subst. split; [exact A0|]. intros; discriminate. }
  assert (Hgen : forall k, 0 <= k -> 256 ^ k <= 2 ^ 64 ->
     (do '(n, r') <- rd_uN k r0; Ok (Some n, r')) = Ok (o, r) ->
     adv 1 s r /\ (bytes_ok s = true -> forall n, o = Some n -> 0 <= n < 2 ^ 64)).
  { intros k Hk Hp. destruct (rd_uN k r0) as [[n r']|e|] eqn:E1; cbn [bind]; try discriminate.
    intros H. inversion H; subst. destruct (rd_uN_spec _ _ _ _ Hk E1) as [A1 B1]. split.
    - eapply adv_weak; [eapply adv_trans; eassumption|lia].
    - intros Hs m Hm. inversion Hm; subst. specialize (B1 (adv_ok _ _ _ A0 Hs)). lia. }
  destruct ((t =? 1) || (t =? 2)).
  { destruct (rd_u8 r0) as [[n r']|e|] eqn:E1; cbn [bind]; try discriminate.
    intros H. inversion H; subst. destruct (rd_u8_spec _ _ _ E1) as [A1 B1]. split.
    - eapply adv_weak; [eapply adv_trans; eassumption|lia].
    - intros Hs m Hm. inversion Hm; subst. specialize (B1 (adv_ok _ _ _ A0 Hs)). lia. }
  destruct ((t =? 3) || (t =? 4)). { apply (Hgen 2); [lia|vm_compute; discriminate]. }
  destruct ((t =? 5) || (t =? 6)). { apply (Hgen 4); [lia|vm_compute; discriminate]. }
  destruct ((t =? 7) || (t =? 8)). { apply (Hgen 8); [lia|vm_compute; discriminate]. }
  discriminate.
Qed.
Lemma rd_prefix_np s : rd_prefix s <> Panic.
Proof.
  unfold rd_prefix. destruct (rd_u8 s) as [[t r0]|e|] eqn:E0; cbn [bind]; try discriminate.
  - destruct (t =? 0); [discriminate|].
    destruct ((t =? 1) || (t =? 2)). { destruct (rd_u8 r0) as [[? ?]|?|] eqn:E; cbn [bind]; try discriminate. exfalso; eapply rd_u8_np; eassumption. }
    assert (Hgen : forall k, (do '(n, r') <- rd_uN k r0; Ok (Some n, r')) <> Panic).
    { intros k. destruct (rd_uN k r0) as [[? ?]|?|] eqn:E; cbn [bind]; try discriminate. exfalso; eapply rd_uN_np; eassumption. }
    destruct ((t =? 3) || (t =? 4)); [apply Hgen|].
    destruct ((t =? 5) || (t =? 6)); [apply Hgen|].
    destruct ((t =? 7) || (t =? 8)); [apply Hgen|]. discriminate.
  - exfalso; eapply rd_u8_np; eassumption.
Qed.

Lemma rd_bytes_spec s b r : rd_bytes s = Ok (b, r) -> adv 1 s r.
Proof.
  unfold rd_bytes. destruct (rd_prefix s) as [[o r0]|e|] eqn:E0; cbn [bind]; try discriminate.
  destruct (rd_prefix_spec _ _ _ E0) as [A0 _]. destruct o as [l|].
  - destruct (l =? 0); [discriminate|]. destruct (MaxSlice <? l); [discriminate|].
    destruct (len r0 <? l) eqn:El; [discriminate|]. intros H. inversion H; subst.
    destruct (Z.leb_spec 0 l).
    + eapply adv_weak; [eapply adv_trans; [exact A0 | apply (adv_drop l); lia]|lia].
    + unfold drop. replace (Z.to_nat l) with 0%nat by lia. exact A0.
  - intros H. inversion H; subst. exact A0.
Qed.
Lemma rd_bytes_np s : rd_bytes s <> Panic.
Proof.
  unfold rd_bytes. destruct (rd_prefix s) as [[o r0]|e|] eqn:E0; cbn [bind]; try discriminate.
  - destruct o as [l|]; [|discriminate]. destruct (l =? 0); [discriminate|]. destruct (MaxSlice <? l); [discriminate|].
    destruct (len r0 <? l); discriminate.
  - exfalso; eapply rd_prefix_np; eassumption.
Qed.

(* fields and field lists (result decoders, registration data) *)
Lemma rd_field_spec f s u r : rd_field f s = Ok (u, r) -> adv 1 s r.
Proof.
  destruct f; cbn [rd_field].
  - destruct (rd_u8 s) as [[? ?]|?|] eqn:E; cbn [bind]; try discriminate. intros H; inversion H; subst. apply (rd_u8_spec _ _ _ E).
  - unfold rd_u16. destruct (rd_uN 2 s) as [[? ?]|?|] eqn:E; cbn [bind]; try discriminate. intros H; inversion H; subst.
    eapply adv_weak; [apply (rd_uN_spec 2 _ _ _ ltac:(lia) E)|lia].
  - unfold rd_u32. destruct (rd_uN 4 s) as [[? ?]|?|] eqn:E; cbn [bind]; try discriminate. intros H; inversion H; subst.
    eapply adv_weak; [apply (rd_uN_spec 4 _ _ _ ltac:(lia) E)|lia].
  - unfold rd_u64. destruct (rd_uN 8 s) as [[? ?]|?|] eqn:E; cbn [bind]; try discriminate. intros H; inversion H; subst.
    eapply adv_weak; [apply (rd_uN_spec 8 _ _ _ ltac:(lia) E)|lia].
  - destruct (rd_bytes s) as [[? ?]|?|] eqn:E; cbn [bind]; try discriminate. intros H; inversion H; subst. apply (rd_bytes_spec _ _ _ E).
Qed.
Lemma rd_field_np f s : rd_field f s <> Panic.
Proof.
  destruct f; cbn [rd_field].
  - destruct (rd_u8 s) as [[? ?]|?|] eqn:E; cbn [bind]; try discriminate. exfalso; eapply rd_u8_np; eassumption.
  - unfold rd_u16. destruct (rd_uN 2 s) as [[? ?]|?|] eqn:E; cbn [bind]; try discriminate. exfalso; eapply rd_uN_np; eassumption.
  - unfold rd_u32. destruct (rd_uN 4 s) as [[? ?]|?|] eqn:E; cbn [bind]; try discriminate. exfalso; eapply rd_uN_np; eassumption.
  - unfold rd_u64. destruct (rd_uN 8 s) as [[? ?]|?|] eqn:E; cbn [bind]; try discriminate. exfalso; eapply rd_uN_np; eassumption.
  - destruct (rd_bytes s) as [[? ?]|?|] eqn:E; cbn [bind]; try discriminate. exfalso; eapply rd_bytes_np; eassumption.
Qed.
Lemma rd_fields_spec fs : forall s u r, rd_fields fs s = Ok (u, r) -> adv (len fs) s r.
Proof.
  induction fs as [|f fs IH]; intros s u r; cbn [rd_fields].
  - intros H; inversion H; subst. apply adv_refl.
  - destruct (rd_field f s) as [[? r0]|?|] eqn:E; cbn [bind]; try discriminate. intros H.
    rewrite len_cons. eapply adv_trans; [eapply rd_field_spec; eassumption | eapply IH; eassumption].
Qed.
Lemma rd_fields_np fs : forall s, rd_fields fs s <> Panic.
Proof.
  induction fs as [|f fs IH]; intros s; cbn [rd_fields]; [discriminate|].
  destruct (rd_field f s) as [[? r0]|?|] eqn:E; cbn [bind]; try discriminate.
  - apply IH.
  - exfalso; eapply rd_field_np; eassumption.
Qed.

(* ===================================================================================
   2. DNS transform (c2/transform/dns.go, after fix d9f26ba): no index or slice expression
      can fail, and the bytes written never exceed the bytes read
   =================================================================================== *)
Lemma abind_lift_ok {X Y} (x : X) (f : X -> A Y) : abind (lift (Ok x)) f = f x.
Proof. unfold abind, lift. cbn. destruct (f x). reflexivity. Qed.
Lemma abind_lift_err {X Y} e (f : X -> A Y) : abind (lift (Err e)) f = lift (Err e).
Proof. reflexivity. Qed.
Lemma abind_mk {Y} n (f : unit -> A Y) : abind (mk n) f = (outcome (f tt), n + alloc (f tt)).
Proof. reflexivity. Qed.

Lemma dns_labels_spec fuel : forall b i s, bytes_ok b = true -> 0 <= s ->
  dns_labels true fuel b i s <> Panic /\ (forall s', dns_labels true fuel b i s = Ok s' -> s <= s').
Proof.
  induction fuel as [|fuel IH]; intros b i s Hb Hs; cbn [dns_labels].
  - destruct (64 <=? i); split; try discriminate; intros s' H; inversion H; lia.
  - destruct (64 <=? i). { split; [discriminate|]. intros s' H; inversion H; lia. }
    destruct ((len b <=? i) || (len b <=? s)) eqn:E. { split; [discriminate|]. intros; discriminate. }
    assert (Hr : 0 <= s < len b) by lia.
    destruct (idx_byte b s Hb Hr) as (x & Ex & Hx). rewrite Ex. cbn [bind].
    destruct (x =? 0). { split; [discriminate|]. intros s' H'; inversion H'; lia. }
    destruct (IH b x (s + x + 1) Hb ltac:(lia)) as [H1 H2]. split; [exact H1|].
    intros s' H'. specialize (H2 s' H'). lia.
Qed.

Lemma dns_q_spec q : forall b s, bytes_ok b = true -> 0 <= s ->
  dns_q true q b s <> Panic /\ (forall s', dns_q true q b s = Ok s' -> s <= s').
Proof.
  induction q as [|q IH]; intros b s Hb Hs; cbn [dns_q].
  - split; [discriminate|]. intros s' H; inversion H; lia.
  - destruct (dns_labels_spec (S (length b)) b 0 s Hb Hs) as [H1 H2].
    destruct (dns_labels true (S (length b)) b 0 s) as [s1|e|] eqn:E; cbn [bind].
    + specialize (H2 s1 eq_refl). destruct (len b <=? s1 + 4). { split; [discriminate|]. intros; discriminate. }
      destruct (IH b (s1 + 4) Hb ltac:(lia)) as [H3 H4]. split; [exact H3|]. intros s' H'. specialize (H4 s' H'). lia.
    + split; [discriminate|]. intros; discriminate.
    + exfalso. apply H1. reflexivity.
Qed.

Lemma dns_c_spec c : forall b s, bytes_ok b = true -> 0 <= s ->
  dns_c true c b s <> Panic /\ (forall s', dns_c true c b s = Ok s' -> s <= s').
Proof.
  induction c as [|c IH]; intros b s Hb Hs; cbn [dns_c].
  - split; [discriminate|]. intros s' H; inversion H; lia.
  - destruct (len b <=? s + 10 + 1) eqn:E. { split; [discriminate|]. intros; discriminate. }
    destruct (idx_byte b (s + 10) Hb ltac:(lia)) as (hi & Eh & Hh). rewrite Eh. cbn [bind].
    destruct (idx_byte b (s + 10 + 1) Hb ltac:(lia)) as (lo & El & Hl). rewrite El. cbn [bind].
    destruct (IH b (s + 10 + (hi * 256 + lo) + 2) Hb ltac:(lia)) as [H1 H2]. split; [exact H1|].
    intros s' H'. specialize (H2 s' H'). lia.
Qed.

Lemma slice_ok (b : list Z) a c : 0 <= a -> a <= c -> c <= len b ->
  exists d, slice b a c = Ok d /\ len d = c - a.
Proof.
  intros. unfold slice. replace ((a <? 0) || (c <? a) || (len b <? c)) with false by lia.
  eexists. split; [reflexivity|]. rewrite len_take'; [lia|]. rewrite len_drop by lia. lia.
Qed.

Lemma dns_t_spec t : forall b s acc, bytes_ok b = true -> 0 <= s ->
  np (dns_t true t b s acc) /\ alloc (dns_t true t b s acc) <= Z.max 0 (len b - s) /\
  (forall s' w, outcome (dns_t true t b s acc) = Ok (s', w) -> alloc (dns_t true t b s acc) <= s' - s).
Proof.
  induction t as [|t IH]; intros b s acc Hb Hs; cbn [dns_t].
  - split; [discriminate|]. split; [cbn; lia|]. intros s' w H. cbn in H. inversion H; subst. cbn. lia.
  - destruct (len b <=? s + 6) eqn:E6. { split; [discriminate|]. split; [cbn; lia|]. intros; discriminate. }
    destruct (idx_byte b s Hb ltac:(lia)) as (b0 & E0 & _). rewrite E0, abind_lift_ok.
    destruct (idx_byte b (s + 1) Hb ltac:(lia)) as (b1 & E1 & _). rewrite E1, abind_lift_ok.
    destruct (idx_byte b (s + 2) Hb ltac:(lia)) as (b2 & E2 & _). rewrite E2, abind_lift_ok.
    destruct (idx_byte b (s + 3) Hb ltac:(lia)) as (b3 & E3 & _). rewrite E3, abind_lift_ok.
    destruct (idx_byte b (s + 4) Hb ltac:(lia)) as (b4 & E4 & _). rewrite E4, abind_lift_ok.
    destruct (idx_byte b (s + 5) Hb ltac:(lia)) as (b5 & E5 & _). rewrite E5, abind_lift_ok.
    destruct (negb _). { split; [discriminate|]. split; [cbn; lia|]. intros; discriminate. }
    cbn [andb].
    destruct (len b <=? s + 10 + 1) eqn:E11. { split; [discriminate|]. split; [cbn; lia|]. intros; discriminate. }
    destruct (idx_byte b (s + 10) Hb ltac:(lia)) as (hi & Eh & Hh). rewrite Eh, abind_lift_ok.
    destruct (idx_byte b (s + 10 + 1) Hb ltac:(lia)) as (lo & El & Hl). rewrite El, abind_lift_ok.
    destruct (len b <? s + 10 + 2 + (hi * 256 + lo)) eqn:Ei. { split; [discriminate|]. split; [cbn; lia|]. intros; discriminate. }
    destruct (slice_ok b (s + 10 + 2) (s + 10 + 2 + (hi * 256 + lo))) as (d & Ed & Hd); try lia.
    rewrite Ed, abind_lift_ok, abind_mk.
    destruct (IH b (s + 10 + 2 + (hi * 256 + lo)) (acc ++ d) Hb ltac:(lia)) as (H1 & H2 & H3).
    split; [exact H1|]. unfold alloc, outcome in *. cbn [fst snd]. split; [lia|].
    intros s' w H'. specialize (H3 s' w H'). lia.
Qed.

Lemma dns_packet_spec b : bytes_ok b = true ->
  np (dns_packet true b) /\ alloc (dns_packet true b) <= Z.max 0 (len b - 12) /\
  (forall n w, outcome (dns_packet true b) = Ok (n, w) -> alloc (dns_packet true b) <= n - 12 /\ 12 <= n).
Proof.
  intros Hb. unfold dns_packet.
  destruct (len b <? 12) eqn:E. { rewrite abind_lift_err. split; [discriminate|]. split; [cbn; lia|]. intros; discriminate. }
  rewrite abind_lift_ok.
  destruct (idx_byte b 4 Hb ltac:(lia)) as (q1 & E1 & H1). rewrite E1, abind_lift_ok.
  destruct (idx_byte b 5 Hb ltac:(lia)) as (q0 & E2 & H2). rewrite E2, abind_lift_ok.
  destruct (idx_byte b 6 Hb ltac:(lia)) as (c1 & E3 & H3). rewrite E3, abind_lift_ok.
  destruct (idx_byte b 7 Hb ltac:(lia)) as (c0 & E4 & H4). rewrite E4, abind_lift_ok.
  destruct (idx_byte b 10 Hb ltac:(lia)) as (t1 & E5 & H5). rewrite E5, abind_lift_ok.
  destruct (idx_byte b 11 Hb ltac:(lia)) as (t0 & E6 & H6). rewrite E6, abind_lift_ok.
  destruct (dns_q_spec (Z.to_nat (q1 * 256 + q0)) b 12 Hb ltac:(lia)) as [Q1 Q2].
  destruct (dns_q true (Z.to_nat (q1 * 256 + q0)) b 12) as [s1|e|] eqn:Eq.
  2: { rewrite abind_lift_err. split; [discriminate|]. split; [cbn; lia|]. intros; discriminate. }
  2: { exfalso. apply Q1. reflexivity. }
  rewrite abind_lift_ok. specialize (Q2 s1 eq_refl).
  destruct (dns_c_spec (Z.to_nat (c1 * 256 + c0)) b s1 Hb ltac:(lia)) as [C1 C2].
  destruct (dns_c true (Z.to_nat (c1 * 256 + c0)) b s1) as [s2|e|] eqn:Ec.
  2: { rewrite abind_lift_err. split; [discriminate|]. split; [cbn; lia|]. intros; discriminate. }
  2: { exfalso. apply C1. reflexivity. }
  rewrite abind_lift_ok. specialize (C2 s2 eq_refl).
  destruct (dns_t_spec (Z.to_nat (t1 * 256 + t0)) b s2 [] Hb ltac:(lia)) as (T1 & T2 & T3).
  split; [exact T1|]. split; [lia|]. intros n w H. specialize (T3 n w H).
  assert (s2 <= n); [|lia].
  (* the final offset is never smaller than the start of the data records *)
  clear - H Hb C2 Q2. revert H. generalize (@nil Z). generalize (Z.to_nat (t1 * 256 + t0)). intros t.
  assert (Hs : 0 <= s2) by lia. clear C2 Q2. revert s2 Hs. induction t as [|t IH]; intros s2 Hs acc; cbn [dns_t].
  - cbn. intros H; inversion H; lia.
  - destruct (len b <=? s2 + 6) eqn:E6; [cbn; discriminate|].
    destruct (idx_byte b s2 Hb ltac:(lia)) as (b0 & E0 & _). rewrite E0, abind_lift_ok.
    destruct (idx_byte b (s2 + 1) Hb ltac:(lia)) as (b1 & E1 & _). rewrite E1, abind_lift_ok.
    destruct (idx_byte b (s2 + 2) Hb ltac:(lia)) as (b2 & E2 & _). rewrite E2, abind_lift_ok.
    destruct (idx_byte b (s2 + 3) Hb ltac:(lia)) as (b3 & E3 & _). rewrite E3, abind_lift_ok.
    destruct (idx_byte b (s2 + 4) Hb ltac:(lia)) as (b4 & E4 & _). rewrite E4, abind_lift_ok.
    destruct (idx_byte b (s2 + 5) Hb ltac:(lia)) as (b5 & E5 & _). rewrite E5, abind_lift_ok.
    destruct (negb _); [cbn; discriminate|]. cbn [andb].
    destruct (len b <=? s2 + 10 + 1) eqn:E11; [cbn; discriminate|].
    destruct (idx_byte b (s2 + 10) Hb ltac:(lia)) as (hi & Eh & Hh). rewrite Eh, abind_lift_ok.
    destruct (idx_byte b (s2 + 10 + 1) Hb ltac:(lia)) as (lo & El & Hl). rewrite El, abind_lift_ok.
    destruct (len b <? s2 + 10 + 2 + (hi * 256 + lo)) eqn:Ei; [cbn; discriminate|].
    destruct (slice_ok b (s2 + 10 + 2) (s2 + 10 + 2 + (hi * 256 + lo))) as (d & Ed & Hd); try lia.
    rewrite Ed, abind_lift_ok, abind_mk. unfold outcome. cbn [fst]. intros H.
    specialize (IH (s2 + 10 + 2 + (hi * 256 + lo)) ltac:(lia) (acc ++ d) H). lia.
Qed.

Lemma dns_packets_spec fuel : forall b i acc, bytes_ok b = true -> 0 <= i ->
  np (dns_packets true fuel b i acc) /\ alloc (dns_packets true fuel b i acc) <= Z.max 0 (len b - i).
Proof.
  induction fuel as [|fuel IH]; intros b i acc Hb Hi; cbn [dns_packets].
  - destruct (len b <=? i); (split; [discriminate | cbn; lia]).
  - destruct (len b <=? i) eqn:E. { split; [discriminate | cbn; lia]. }
    destruct (dns_packet_spec (drop i b) (bytes_ok_drop _ _ Hb)) as (P1 & P2 & P3).
    rewrite len_drop in P2 by lia.
    destruct (outcome (dns_packet true (drop i b))) as [[n w]|e|] eqn:Eo.
    + rewrite (abind_ok _ _ _ Eo). destruct (P3 n w eq_refl) as [P4 P5].
      destruct (IH b (i + n) (acc ++ w) Hb ltac:(lia)) as [H1 H2].
      split; [exact H1|]. unfold alloc, outcome in *. cbn [fst snd]. lia.
    + rewrite (abind_err _ _ _ Eo). split; [discriminate|]. unfold alloc in *. cbn [snd]. lia.
    + exfalso. apply P1. exact Eo.
Qed.

Theorem dns_read_no_panic b : bytes_ok b = true -> outcome (dns_read true b) <> Panic.
Proof.
  intros Hb. unfold dns_read.
  destruct (dns_packets_spec (S (length b)) b 0 [] Hb ltac:(lia)) as [H1 H2].
  destruct (outcome (dns_packets true (S (length b)) b 0 [])) as [[n w]|e|] eqn:Eo.
  - rewrite (abind_ok _ _ _ Eo). destruct (n =? len b); discriminate.
  - rewrite (abind_err _ _ _ Eo). discriminate.
  - exfalso. apply H1. exact Eo.
Qed.

Theorem dns_read_alloc_linear b : bytes_ok b = true -> alloc (dns_read true b) <= len b.
Proof.
  intros Hb. unfold dns_read.
  destruct (dns_packets_spec (S (length b)) b 0 [] Hb ltac:(lia)) as [H1 H2].
  pose proof (len_nonneg b).
  destruct (outcome (dns_packets true (S (length b)) b 0 [])) as [[n w]|e|] eqn:Eo.
  - rewrite (abind_ok _ _ _ Eo). unfold alloc in *. destruct (n =? len b); cbn [snd ret lift]; lia.
  - rewrite (abind_err _ _ _ Eo). unfold alloc in *. cbn [snd]. lia.
  - exfalso. apply H1. exact Eo.
Qed.

(* the pinned tree: the four unchecked expressions, each with its witness *)
Lemma dns_pinned_refuted_header : outcome (dns_read false [0]) = Panic.
Proof. vm_compute. reflexivity. Qed.
Lemma dns_pinned_refuted_label : outcome (dns_read false [0;0;0;0;0;1;0;0;0;0;0;0;1;97]) = Panic.
Proof. vm_compute. reflexivity. Qed.
Lemma dns_pinned_refuted_answer : outcome (dns_read false [0;0;0;0;0;0;0;1;0;0;0;0; 0;0;0;0;0;0;0;0;0;0]) = Panic.
Proof. vm_compute. reflexivity. Qed.
Lemma dns_pinned_refuted_record :
  outcome (dns_read false [0;0;0;0;0;0;0;0;0;0;0;1; 192;12;0;10;0;1;0]) = Panic /\
  outcome (dns_read false [0;0;0;0;0;0;0;0;0;0;0;1; 192;12;0;10;0;1;0;0;0;0;0;9;1]) = Panic.
Proof. split; vm_compute; reflexivity. Qed.

(* ===================================================================================
   3. string lists and byte strings over a Chunk (after fix 05faa5c)
   =================================================================================== *)
Lemma weaken {X} (a : A X) B B' : np a /\ alloc a <= B -> B <= B' -> np a /\ alloc a <= B'.
Proof. intros [H1 H2] H. split; [exact H1|lia]. Qed.

Lemma on_ok_rule {X} (a : A X) (f : X -> list Z) B : 0 <= B ->
  np a /\ alloc a <= B -> np (on_ok a f) /\ alloc (on_ok a f) <= B.
Proof.
  intros HB [H1 H2]. unfold on_ok.
  eapply weaken; [apply (bind_rule a _ B 0); try assumption; try lia|lia].
  intros x _. apply ret_rule. lia.
Qed.

Lemma rd_strings_g_spec fuel : forall k s,
  np (rd_strings_g fuel k s) /\ alloc (rd_strings_g fuel k s) <= StrGrow * (len s + 1).
Proof.
  induction fuel as [|fuel IH]; intros k s; cbn [rd_strings_g]; pose proof (len_nonneg s).
  - destruct (k <=? 0); [apply ret_rule | apply err_rule]; unfold StrGrow; lia.
  - destruct (k <=? 0). { apply ret_rule. unfold StrGrow; lia. }
    eapply weaken; [apply (mk_rule StrGrow _ (StrGrow * len s)); [unfold StrGrow; lia|] | lia].
    apply lift_rule; [apply rd_bytes_np | unfold StrGrow; lia |].
    intros [b r] E. apply rd_bytes_spec in E. apply adv_len in E.
    eapply weaken; [apply (bind_rule _ _ (StrGrow * (len r + 1)) 0); try apply IH; try lia | unfold StrGrow; lia].
    intros [l r'] _. apply ret_rule. lia.
Qed.

Theorem strlist_flat_spec s : np (strlist_flat true s) /\ alloc (strlist_flat true s) <= StrGrow * len s.
Proof.
  unfold strlist_flat. pose proof (len_nonneg s).
  apply lift_rule; [apply rd_prefix_np | unfold StrGrow; lia |].
  intros [ol r] E. apply rd_prefix_spec in E. destruct E as [E _]. apply adv_len in E.
  destruct ol as [n|]; [|apply ret_rule; unfold StrGrow; lia].
  destruct (i64 n <=? 0); [apply ret_rule; unfold StrGrow; lia|].
  eapply weaken; [apply rd_strings_g_spec | unfold StrGrow; lia].
Qed.

(* the pinned tree *)
Lemma strlist_pinned_refuted :
  outcome (run_pinned DStrListC [7;64;0;0;0;0;0;0;0]) = Panic /\
  alloc (run_pinned DStrListC [5;0;32;0;0]) = 33554432.
Proof. split; vm_compute; reflexivity. Qed.

(* ---- the stream reader (known finding stream-bytes-alloc): it never panics, but it allocates
   what the length prefix says ---- *)
Lemma read_full_np fuel : forall k s acc, read_full fuel k s acc <> Panic.
Proof.
  induction fuel as [|fuel IH]; intros k s acc; cbn [read_full].
  - destruct (k <=? 0); discriminate.
  - destruct (k <=? 0); [discriminate|]. destruct (read1 k s) as [[got s']|].
    + apply IH.
    + destruct (is_nil acc); discriminate.
Qed.
Lemma srd_u8_np s : srd_u8 s <> Panic.
Proof. unfold srd_u8. destruct (read1 1 s) as [[[|b g] s']|]; discriminate. Qed.
Lemma srd_uN_np n s : srd_uN n s <> Panic.
Proof.
  unfold srd_uN. destruct (read_full (src_fuel s n) n s []) as [[b s']|e|] eqn:E; cbn [bind]; try discriminate.
  exfalso. eapply read_full_np. eassumption.
Qed.
Lemma srd_prefix_np s : srd_prefix s <> Panic.
Proof.
  unfold srd_prefix. destruct (srd_u8 s) as [[t r0]|e|] eqn:E0; cbn [bind]; try discriminate.
  - destruct (t =? 0); [discriminate|].
    destruct ((t =? 1) || (t =? 2)). { destruct (srd_u8 r0) as [[? ?]|?|] eqn:E; cbn [bind]; try discriminate. exfalso; eapply srd_u8_np; eassumption. }
    assert (Hgen : forall k, (do '(n, r') <- srd_uN k r0; Ok (Some n, r')) <> Panic).
    { intros k. destruct (srd_uN k r0) as [[? ?]|?|] eqn:E; cbn [bind]; try discriminate. exfalso; eapply srd_uN_np; eassumption. }
    destruct ((t =? 3) || (t =? 4)); [apply Hgen|].
    destruct ((t =? 5) || (t =? 6)); [apply Hgen|].
    destruct ((t =? 7) || (t =? 8)); [apply Hgen|]. discriminate.
  - exfalso; eapply srd_u8_np; eassumption.
Qed.

Lemma bytes_stream_spec s : np (bytes_stream s) /\ alloc (bytes_stream s) <= MaxSlice.
Proof.
  unfold bytes_stream. apply lift_rule; [apply srd_prefix_np | unfold MaxSlice; lia |].
  intros [ol r] _. destruct ol as [l|]; [|apply ret_rule; unfold MaxSlice; lia].
  destruct (l =? 0); [apply err_rule; unfold MaxSlice; lia|].
  destruct (MaxSlice <? l) eqn:E; [apply err_rule; unfold MaxSlice; lia|].
  eapply weaken; [apply (mk_rule l _ 0); [lia|] | lia].
  destruct (read_full (src_fuel r l) l r []) as [x|e|] eqn:Er.
  - apply ret_rule; lia.
  - apply err_rule; lia.
  - exfalso. eapply read_full_np. eassumption.
Qed.

Lemma srd_strings_n_np grow fuel : forall k s, np (srd_strings_n grow fuel k s).
Proof.
  induction fuel as [|fuel IH]; intros k s; cbn [srd_strings_n].
  - destruct (k <=? 0); discriminate.
  - destruct (k <=? 0); [discriminate|].
    assert (G : forall n, np (al _ <- mk n; al '(b, r) <- bytes_stream s; al '(l, r') <- srd_strings_n grow fuel (k - 1) r; ret (b :: l, r'))).
    { intros n. rewrite abind_mk. unfold np, outcome. cbn [fst].
      destruct (bytes_stream_spec s) as [B1 _].
      destruct (outcome (bytes_stream s)) as [[b r]|e|] eqn:Eb.
      - rewrite (abind_ok _ _ _ Eb). cbn [fst].
        specialize (IH (k - 1) r). destruct (outcome (srd_strings_n grow fuel (k - 1) r)) as [[l r']|e|] eqn:Es.
        + rewrite (abind_ok _ _ _ Es). discriminate.
        + rewrite (abind_err _ _ _ Es). discriminate.
        + exfalso. apply IH. exact Es.
      - rewrite (abind_err _ _ _ Eb). discriminate.
      - exfalso. apply B1. exact Eb. }
    apply G.
Qed.

Theorem strlist_stream_no_panic s : np (strlist_stream true s).
Proof.
  unfold strlist_stream. unfold np.
  destruct (srd_prefix s) as [[ol r]|e|] eqn:E.
  - rewrite abind_lift_ok. destruct ol as [n|]; [|discriminate].
    destruct (i64 n <=? 0); [discriminate|]. apply srd_strings_n_np.
  - discriminate.
  - exfalso. eapply srd_prefix_np. eassumption.
Qed.

Lemma stream_alloc_refuted :
  alloc (run DBytesS [5;2;0;0;0]) = 33554432 /\ alloc (run DBytesS [7;0;0;4;0;0;0;0;0]) = MaxSlice /\
  alloc (run DStrListS [1;1;5;2;0;0;0]) = 33554432 + StrGrow.
Proof. repeat split; vm_compute; reflexivity. Qed.
Lemma strlist_stream_pinned_refuted : outcome (run_pinned DStrListS [7;64;0;0;0;0;0;0;0]) = Panic.
Proof. vm_compute. reflexivity. Qed.

(* ===================================================================================
   4. com.Packet, wire form and stream form: the tag slice is the only allocation made before
      the bytes are there, and its size field is two bytes
   =================================================================================== *)
Definition TagsMax : Z := 4 * 65535.

Lemma read_full_flat_np n s : read_full_flat n s <> Panic.
Proof. unfold read_full_flat. destruct (n <=? 0); [discriminate|]. destruct (is_nil s); [discriminate|]. destruct (len s <? n); discriminate. Qed.
Lemma read_full_flat_spec n s b r : 0 < n -> read_full_flat n s = Ok (b, r) -> adv n s r /\ b = take n s /\ len b = n.
Proof.
  intros Hn. unfold read_full_flat. replace (n <=? 0) with false by lia. destruct (is_nil s); [discriminate|].
  destruct (len s <? n) eqn:E; [discriminate|]. intros H. inversion H; subst.
  split; [apply adv_drop; lia|]. split; [reflexivity|]. apply len_take'. lia.
Qed.
Lemma rd_devid_np s : rd_devid s <> Panic.
Proof.
  unfold rd_devid. destruct (read_full_flat IDSize s) as [[i r]|e|] eqn:E; cbn [bind]; try discriminate.
  - destruct i as [|x i]; [discriminate|]. destruct (x =? 0); discriminate.
  - exfalso. eapply read_full_flat_np. eassumption.
Qed.
Lemma rd_devid_spec s i r : rd_devid s = Ok (i, r) -> adv 32 s r.
Proof.
  unfold rd_devid. destruct (read_full_flat IDSize s) as [[i0 r0]|e|] eqn:E; cbn [bind]; try discriminate.
  destruct i0 as [|x i0]; [discriminate|]. destruct (x =? 0); [discriminate|]. intros H. inversion H; subst.
  apply (read_full_flat_spec 32 _ _ _ ltac:(lia) E).
Qed.
Lemma rd_tags_wire_np k : forall s, rd_tags_wire k s <> Panic.
Proof.
  induction k as [|k IH]; intros s; cbn [rd_tags_wire]; [discriminate|].
  destruct (read_full_flat 4 s) as [[b r]|e|] eqn:E; cbn [bind]; try discriminate.
  - destruct (of_be b 0 =? 0); [discriminate|]. specialize (IH r).
    destruct (rd_tags_wire k r) as [[ts r']|e|]; cbn [bind]; try discriminate. exfalso. apply IH. reflexivity.
  - exfalso. eapply read_full_flat_np. eassumption.
Qed.
Lemma rd_tags_stream_np k : forall s, rd_tags_stream k s <> Panic.
Proof.
  induction k as [|k IH]; intros s; cbn [rd_tags_stream]; [discriminate|].
  destruct (rd_u32 s) as [[t r]|e|] eqn:E; cbn [bind]; try discriminate.
  - destruct (t =? 0); [discriminate|]. specialize (IH r).
    destruct (rd_tags_stream k r) as [[ts r']|e|]; cbn [bind]; try discriminate. exfalso. apply IH. reflexivity.
  - exfalso. eapply rd_uN_np. exact E.
Qed.

Theorem packet_wire_spec s : bytes_ok s = true -> np (packet_wire s) /\ alloc (packet_wire s) <= TagsMax.
Proof.
  intros Hs. unfold packet_wire, TagsMax.
  apply lift_rule; [apply rd_devid_np | lia |]. intros [i r0] E0.
  pose proof (adv_ok _ _ _ (rd_devid_spec _ _ _ E0) Hs) as Hr0.
  apply lift_rule; [apply read_full_flat_np | lia |]. intros [h r1] E1.
  destruct (read_full_flat_spec 14 _ _ _ ltac:(lia) E1) as (_ & Hh & Hl).
  assert (Hhb : bytes_ok h = true) by (subst h; apply bytes_ok_take; exact Hr0).
  destruct (idx_byte h 0 Hhb ltac:(lia)) as (id & Eid & _). rewrite Eid, abind_lift_ok.
  apply lift_rule; [apply rd_uN_np | lia |]. intros [job x1] _.
  apply lift_rule; [apply rd_uN_np | lia |]. intros [flags x2] _.
  apply lift_rule; [apply rd_uN_np | lia |]. intros [nt x3] E3.
  destruct (rd_uN_spec 2 _ _ _ ltac:(lia) E3) as [_ Hnt]. specialize (Hnt (bytes_ok_drop _ _ Hhb)).
  destruct (idx_byte h 13 Hhb ltac:(lia)) as (cls & Ecls & _). rewrite Ecls, abind_lift_ok.
  eapply weaken; [apply (mk_rule (4 * nt) _ 0); [lia|] | lia].
  apply lift_rule; [ | lia | ].
  { destruct (cls =? 0); [discriminate|].
    assert (G : forall k, (do '(b, r) <- read_full_flat k r1; Ok (of_be b 0, r)) <> Panic).
    { intros k. destruct (read_full_flat k r1) as [[b r]|e|] eqn:E; cbn [bind]; try discriminate. exfalso. eapply read_full_flat_np. eassumption. }
    destruct (cls =? 1); [apply G|]. destruct (cls =? 3); [apply G|]. destruct (cls =? 5); [apply G|].
    destruct (cls =? 7); [apply G|]. discriminate. }
  intros [blen r2] _.
  apply lift_rule; [apply rd_tags_wire_np | lia |]. intros [tags r3] _.
  destruct (blen =? 0); [apply ret_rule; lia|]. destruct (len r3 <? blen); [apply err_rule; lia | apply ret_rule; lia].
Qed.

Theorem packet_stream_spec s : bytes_ok s = true -> np (packet_stream s) /\ alloc (packet_stream s) <= TagsMax.
Proof.
  intros Hs. unfold packet_stream, TagsMax.
  apply lift_rule; [apply rd_u8_np | lia |]. intros [id r0] E0.
  pose proof (adv_ok _ _ _ (proj1 (rd_u8_spec _ _ _ E0)) Hs) as H0.
  apply lift_rule; [apply rd_uN_np | lia |]. intros [job r1] E1.
  pose proof (adv_ok _ _ _ (proj1 (rd_uN_spec 2 _ _ _ ltac:(lia) E1)) H0) as H1.
  apply lift_rule; [apply rd_uN_np | lia |]. intros [nt r2] E2.
  destruct (rd_uN_spec 2 _ _ _ ltac:(lia) E2) as [_ Hnt]. specialize (Hnt H1).
  apply lift_rule; [apply rd_uN_np | lia |]. intros [flags r3] _.
  apply lift_rule; [apply rd_devid_np | lia |]. intros [i r4] _.
  eapply weaken; [apply (mk_rule (4 * nt) _ 0); [lia|] | lia].
  apply lift_rule; [apply rd_tags_stream_np | lia |]. intros [tags r5] _.
  apply lift_rule; [apply rd_bytes_np | lia |]. intros [body r6] _.
  apply ret_rule; lia.
Qed.

(* ===================================================================================
   5. c2/task/result (after fix bd34833): the element count is checked against the bytes that
      remain before make()
   =================================================================================== *)
Lemma rd_elems_np fuel : forall c fs s, rd_elems fuel c fs s <> Panic.
Proof.
  induction fuel as [|fuel IH]; intros c fs s; cbn [rd_elems].
  - destruct (c <=? 0); discriminate.
  - destruct (c <=? 0); [discriminate|].
    destruct (rd_fields fs s) as [[u r]|e|] eqn:E; cbn [bind]; try discriminate.
    + apply IH.
    + exfalso. eapply rd_fields_np. eassumption.
Qed.

Lemma counted_spec c esz fs r : 0 <= esz ->
  np (counted true c esz fs r) /\ alloc (counted true c esz fs r) <= esz * len r.
Proof.
  intros He. unfold counted. cbn [andb]. pose proof (len_nonneg r).
  destruct (len r <? c) eqn:E; [apply err_rule; nia|].
  eapply weaken; [apply (mk_rule (c * esz) _ 0); [lia|] | nia].
  apply lift_rule; [apply rd_elems_np | lia |]. intros [u r'] _. apply ret_rule; lia.
Qed.

Lemma plain_spec fs s B : 0 <= B -> np (plain fs s) /\ alloc (plain fs s) <= B.
Proof.
  intros. unfold plain. apply lift_rule; [apply rd_fields_np | lia |]. intros [u r] _. apply ret_rule; lia.
Qed.

Definition ResultK : Z := 112.   (* the largest factor: StrGrow (Mounts); the structs are at most 104 bytes *)

Theorem result_dec_spec d s : np (result_dec true d s) /\ alloc (result_dec true d s) <= ResultK * len s.
Proof.
  unfold result_dec, ResultK. pose proof (len_nonneg s). destruct (is_nil s); [apply err_rule; lia|].
  assert (Hcnt : forall k esz fs, 0 <= k -> 0 <= esz <= 112 ->
     np (al '(c, r) <- lift (rd_uN k s); counted true c esz fs r) /\
     alloc (al '(c, r) <- lift (rd_uN k s); counted true c esz fs r) <= 112 * len s).
  { intros k esz fs Hk He. apply lift_rule; [apply rd_uN_np | lia |]. intros [c r] E.
    destruct (rd_uN_spec k _ _ _ Hk E) as [Ha _]. apply adv_len in Ha. pose proof (len_nonneg r).
    eapply weaken; [apply counted_spec; lia | nia]. }
  destruct d; try (apply plain_spec; lia).
  - (* Mounts *)
    eapply weaken; [apply (bind_rule _ _ (StrGrow * len s) 0); try apply strlist_flat_spec; try lia | unfold StrGrow; lia].
    intros [l r] _. apply ret_rule; lia.
  - (* Ls *)
    apply lift_rule; [apply rd_uN_np | lia |]. intros [c r] E.
    destruct (rd_uN_spec 4 _ _ _ ltac:(lia) E) as [Ha _]. apply adv_len in Ha. pose proof (len_nonneg r).
    destruct (c =? 0); [apply ret_rule; lia|].
    eapply weaken; [apply counted_spec; unfold Z_ls; lia | unfold Z_ls; lia].
  - apply (Hcnt 4); unfold Z_window; lia.
  - apply (Hcnt 4); unfold Z_func; lia.
  - apply (Hcnt 2); unfold Z_login; lia.
  - apply (Hcnt 4); unfold Z_proc; lia.
  - (* Registry *)
    apply lift_rule; [apply rd_u8_np | lia |]. intros [o r] E.
    destruct (rd_u8_spec _ _ _ E) as [Ha _]. apply adv_len in Ha. pose proof (len_nonneg r).
    destruct (1 <? o); [apply ret_rule; lia|].
    destruct (o =? 0).
    + apply lift_rule; [apply rd_uN_np | lia |]. intros [c r'] E'.
      destruct (rd_uN_spec 4 _ _ _ ltac:(lia) E') as [Ha' _]. apply adv_len in Ha'. pose proof (len_nonneg r').
      destruct (c =? 0); [apply ret_rule; lia|].
      eapply weaken; [apply counted_spec; unfold Z_reg; lia | unfold Z_reg; lia].
    + eapply weaken; [apply counted_spec; unfold Z_reg; lia | unfold Z_reg; lia].
  - (* SystemIO *)
    apply lift_rule; [apply rd_u8_np | lia |]. intros [o r] _.
    destruct (negb _); [apply ret_rule; lia | apply plain_spec; lia].
Qed.

Lemma result_pinned_refuted :
  alloc (run_pinned (DResult RLs) [255;255;255;255]) = 68719476720 /\
  alloc (run_pinned (DResult RWindowList) [0;16;0;0]) = 50331648 /\
  alloc (run_pinned (DResult RUserLogins) [255;255]) = 6815640 /\
  outcome (run_pinned (DResult RMounts) [7;64;0;0;0;0;0;0;0]) = Panic.
Proof. repeat split; vm_compute; reflexivity. Qed.

(* ===================================================================================
   6. registration data: every count is ONE byte; address slices of devices that were read
      completely are paid for by their 16 wire bytes each
   =================================================================================== *)
Lemma rd_addrs_np k : forall s, rd_addrs k s <> Panic.
Proof.
  induction k as [|k IH]; intros s; cbn [rd_addrs]; [discriminate|].
  destruct (rd_fields [FU64; FU64] s) as [[u r]|e|] eqn:E; cbn [bind]; try discriminate.
  - apply IH.
  - exfalso. eapply rd_fields_np. eassumption.
Qed.
Lemma rd_addrs_spec k : forall s u r, rd_addrs k s = Ok (u, r) -> adv (16 * Z.of_nat k) s r.
Proof.
  induction k as [|k IH]; intros s u r; cbn [rd_addrs].
  - intros H; inversion H; subst. apply adv_refl.
  - destruct (rd_fields [FU64; FU64] s) as [[u0 r0]|e|] eqn:E; cbn [bind]; try discriminate. intros H.
    assert (A1 : adv 16 s r0).
    { cbn [rd_fields rd_field] in E. unfold rd_u64 in E.
      destruct (rd_uN 8 s) as [[v1 s1]|?|] eqn:E1; cbn [bind] in E; try discriminate.
      destruct (rd_uN 8 s1) as [[v2 s2]|?|] eqn:E2; cbn [bind] in E; try discriminate.
      inversion E; subst.
      apply (adv_trans 8 8 s s1 r0); [apply (rd_uN_spec 8 _ _ _ ltac:(lia) E1) | apply (rd_uN_spec 8 _ _ _ ltac:(lia) E2)]. }
    eapply adv_weak; [eapply adv_trans; [exact A1 | eapply IH; eassumption] | lia].
Qed.

Definition AddrMax : Z := 255 * Z_address.    (* 4080 *)
Definition DevMax : Z := 255 * Z_device.      (* 12240 *)
Definition ProxyMax : Z := 255 * Z_proxy.     (* 14280 *)

Lemma rd_netdev_spec s : bytes_ok s = true ->
  np (rd_netdev s) /\ alloc (rd_netdev s) <= AddrMax /\
  (forall u r, outcome (rd_netdev s) = Ok (u, r) -> alloc (rd_netdev s) <= len s - len r /\ bytes_ok r = true).
Proof.
  intros Hs. unfold rd_netdev, AddrMax, Z_address.
  destruct (rd_fields [FBytes; FU64] s) as [[u0 r0]|e|] eqn:E0.
  2: { rewrite abind_lift_err. split; [discriminate|]. split; [cbn; lia|]. intros; discriminate. }
  2: { exfalso. eapply rd_fields_np. eassumption. }
  rewrite abind_lift_ok. pose proof (rd_fields_spec _ _ _ _ E0) as A0.
  pose proof (adv_ok _ _ _ A0 Hs) as H0. apply adv_len in A0. change (len [FBytes; FU64]) with 2 in A0.
  destruct (rd_u8 r0) as [[l r1]|e|] eqn:E1.
  2: { rewrite abind_lift_err. split; [discriminate|]. split; [cbn; lia|]. intros; discriminate. }
  2: { exfalso. eapply rd_u8_np. eassumption. }
  rewrite abind_lift_ok. destruct (rd_u8_spec _ _ _ E1) as [A1 Hl]. specialize (Hl H0).
  pose proof (adv_ok _ _ _ A1 H0) as H1. apply adv_len in A1.
  rewrite abind_mk. unfold np, outcome, alloc. cbn [fst snd lift].
  destruct (rd_addrs (Z.to_nat l) r1) as [[u r]|e|] eqn:E2.
  - split; [discriminate|]. split; [lia|]. intros u' r' H. inversion H; subst.
    pose proof (rd_addrs_spec _ _ _ _ E2) as A2. pose proof (adv_ok _ _ _ A2 H1). apply adv_len in A2.
    split; [lia|assumption].
  - split; [discriminate|]. split; [lia|]. intros; discriminate.
  - exfalso. eapply rd_addrs_np. eassumption.
Qed.

Lemma rd_netdevs_spec k : forall s, bytes_ok s = true ->
  np (rd_netdevs k s) /\ alloc (rd_netdevs k s) <= len s + AddrMax /\
  (forall u r, outcome (rd_netdevs k s) = Ok (u, r) -> alloc (rd_netdevs k s) <= len s - len r).
Proof.
  induction k as [|k IH]; intros s Hs; cbn [rd_netdevs]; pose proof (len_nonneg s).
  - split; [discriminate|]. split; [cbn; unfold AddrMax, Z_address; lia|]. intros u r H'. cbn in H'. inversion H'; subst. cbn. lia.
  - destruct (rd_netdev_spec s Hs) as (N1 & N2 & N3).
    destruct (outcome (rd_netdev s)) as [[u0 r0]|e|] eqn:E0.
    + rewrite (abind_ok _ _ _ E0). destruct (N3 u0 r0 eq_refl) as [N4 N5].
      destruct (IH r0 N5) as (I1 & I2 & I3). unfold np, outcome, alloc in *. cbn [fst snd].
      split; [exact I1|]. split; [lia|]. intros u r H'. specialize (I3 u r H'). lia.
    + rewrite (abind_err _ _ _ E0). unfold np, outcome, alloc in *. cbn [fst snd].
      split; [discriminate|]. split; [lia|]. intros; discriminate.
    + exfalso. apply N1. exact E0.
Qed.

Theorem rd_network_spec s : bytes_ok s = true ->
  np (rd_network s) /\ alloc (rd_network s) <= len s + (DevMax + AddrMax).
Proof.
  intros Hs. unfold rd_network. pose proof (len_nonneg s).
  apply lift_rule; [apply rd_u8_np | unfold DevMax, AddrMax, Z_device, Z_address; lia |]. intros [l r] E.
  destruct (rd_u8_spec _ _ _ E) as [A0 Hl]. specialize (Hl Hs). pose proof (adv_ok _ _ _ A0 Hs) as Hr. apply adv_len in A0.
  pose proof (len_nonneg r).
  eapply weaken; [apply (mk_rule (l * Z_device) _ (len r + AddrMax)); [unfold AddrMax, Z_address; lia|] | unfold DevMax, Z_device; lia].
  destruct (rd_netdevs_spec (Z.to_nat l) r Hr) as (N1 & N2 & _).
  eapply weaken; [apply (bind_rule _ _ (len r + AddrMax) 0); try assumption; try lia | lia].
  intros [u r'] _. apply ret_rule; lia.
Qed.

Theorem rd_machine_spec s : bytes_ok s = true ->
  np (rd_machine s) /\ alloc (rd_machine s) <= len s + (DevMax + AddrMax).
Proof.
  intros Hs. unfold rd_machine. pose proof (len_nonneg s).
  apply lift_rule; [apply rd_devid_np | unfold DevMax, AddrMax, Z_device, Z_address; lia |]. intros [i r0] E0.
  pose proof (rd_devid_spec _ _ _ E0) as A0. pose proof (adv_ok _ _ _ A0 Hs) as H0. apply adv_len in A0.
  apply lift_rule; [apply rd_fields_np | unfold DevMax, AddrMax, Z_device, Z_address; lia |]. intros [u r1] E1.
  pose proof (rd_fields_spec _ _ _ _ E1) as A1. pose proof (adv_ok _ _ _ A1 H0) as H1. apply adv_len in A1.
  pose proof (len_nonneg (A:=field) [FU8; FU32; FU32; FBytes; FBytes; FBytes; FU8; FU32]).
  eapply weaken; [apply rd_network_spec; exact H1 | lia].
Qed.

Lemma rd_proxies_np k full : forall s, rd_proxies k full s <> Panic.
Proof.
  induction k as [|k IH]; intros s; cbn [rd_proxies]; [discriminate|].
  destruct (rd_fields (if full then [FBytes; FBytes; FBytes] else [FBytes; FBytes]) s) as [[u r]|e|] eqn:E; cbn [bind]; try discriminate.
  - apply IH.
  - exfalso. eapply rd_fields_np. eassumption.
Qed.

Theorem rd_proxydata_spec full s : bytes_ok s = true ->
  np (rd_proxydata full s) /\ alloc (rd_proxydata full s) <= ProxyMax.
Proof.
  intros Hs. unfold rd_proxydata, ProxyMax, Z_proxy.
  apply lift_rule; [apply rd_u8_np | lia |]. intros [n r] E.
  destruct (rd_u8_spec _ _ _ E) as [_ Hn]. specialize (Hn Hs).
  eapply weaken; [apply (mk_rule (n * 56) _ 0); [lia|] | lia].
  apply lift_rule; [apply rd_proxies_np | lia |]. intros [u r'] _. apply ret_rule; lia.
Qed.

Definition DevInfoC : Z := DevMax + AddrMax + ProxyMax.   (* 30600 *)

Theorem devinfo_spec t s : bytes_ok s = true ->
  np (devinfo t s) /\ alloc (devinfo t s) <= len s + DevInfoC.
Proof.
  intros Hs. unfold devinfo. pose proof (len_nonneg s).
  assert (HC : DevInfoC = 30600) by reflexivity. assert (HD : DevMax + AddrMax = 16320) by reflexivity.
  assert (HP : ProxyMax = 14280) by reflexivity.
  destruct (t =? infoProxy).
  { eapply weaken; [apply (bind_rule _ _ ProxyMax 0); try apply rd_proxydata_spec; try assumption; try lia | lia].
    intros [n r] _. apply ret_rule; lia. }
  (* the first stage: machine / device id / nothing; what is left is still a byte string *)
  set (stage := if (t =? infoHello) || (t =? infoRefresh) || (t =? infoSyncMigrate)
                then al '(_, r) <- rd_machine s; ret r
                else if t =? infoMigrate then al '(_, r) <- lift (rd_devid s); ret r else ret s).
  assert (S1 : np stage /\ alloc stage <= len s + 16320 /\ forall r, outcome stage = Ok r -> bytes_ok r = true).
  { unfold stage. destruct ((t =? infoHello) || (t =? infoRefresh) || (t =? infoSyncMigrate)).
    - destruct (rd_machine_spec s Hs) as [M1 M2].
      destruct (outcome (rd_machine s)) as [[l r]|e|] eqn:Em.
      + rewrite (abind_ok _ _ _ Em). unfold np, outcome, alloc in *. cbn [fst snd ret]. split; [discriminate|]. split; [lia|].
        intros r' H'. inversion H'; subst.
        (* r is a suffix of s *)
        clear - Em Hs. unfold rd_machine in Em.
        destruct (rd_devid s) as [[i r0]|e|] eqn:E0; [rewrite abind_lift_ok in Em | rewrite abind_lift_err in Em; discriminate | discriminate].
        pose proof (adv_ok _ _ _ (rd_devid_spec _ _ _ E0) Hs) as H0.
        destruct (rd_fields [FU8; FU32; FU32; FBytes; FBytes; FBytes; FU8; FU32] r0) as [[u r1]|e|] eqn:E1;
          [rewrite abind_lift_ok in Em | rewrite abind_lift_err in Em; discriminate | discriminate].
        pose proof (adv_ok _ _ _ (rd_fields_spec _ _ _ _ E1) H0) as H1.
        unfold rd_network in Em.
        destruct (rd_u8 r1) as [[l0 r2]|e|] eqn:E2; [rewrite abind_lift_ok in Em | rewrite abind_lift_err in Em; discriminate | discriminate].
        pose proof (adv_ok _ _ _ (proj1 (rd_u8_spec _ _ _ E2)) H1) as H2.
        rewrite abind_mk in Em. unfold outcome in Em. cbn [fst] in Em.
        (* rd_netdevs keeps byte strings *)
        assert (G : forall k s0, bytes_ok s0 = true -> forall u9 r3, fst (rd_netdevs k s0) = Ok (u9, r3) -> bytes_ok r3 = true).
        { induction k as [|k IH]; intros s0 Hs0 u9 r3; cbn [rd_netdevs].
          - cbn. intros H9; inversion H9; subst. exact Hs0.
          - destruct (rd_netdev_spec s0 Hs0) as (N1 & _ & N3).
            destruct (outcome (rd_netdev s0)) as [[u0 r0']|e|] eqn:E.
            + rewrite (abind_ok _ _ _ E). cbn [fst]. destruct (N3 u0 r0' eq_refl) as [_ N5]. apply IH. exact N5.
            + rewrite (abind_err _ _ _ E). cbn. discriminate.
            + exfalso. apply N1. exact E. }
        destruct (fst (rd_netdevs (Z.to_nat l0) r2)) as [[u3 r3]|e|] eqn:E3.
        * pose proof (G _ _ H2 _ _ E3) as H3.
          change (fst (rd_netdevs (Z.to_nat l0) r2)) with (outcome (rd_netdevs (Z.to_nat l0) r2)) in E3.
          rewrite (abind_ok _ _ _ E3) in Em. cbn in Em. inversion Em; subst. exact H3.
        * change (fst (rd_netdevs (Z.to_nat l0) r2)) with (outcome (rd_netdevs (Z.to_nat l0) r2)) in E3.
          rewrite (abind_err _ _ _ E3) in Em. cbn in Em. discriminate.
        * change (fst (rd_netdevs (Z.to_nat l0) r2)) with (outcome (rd_netdevs (Z.to_nat l0) r2)) in E3.
          rewrite (abind_panic _ _ E3) in Em. cbn in Em. discriminate.
      + rewrite (abind_err _ _ _ Em). unfold np, outcome, alloc in *. cbn [fst snd]. split; [discriminate|]. split; [lia|]. intros; discriminate.
      + exfalso. apply M1. exact Em.
    - destruct (t =? infoMigrate).
      + destruct (rd_devid s) as [[i r]|e|] eqn:E0.
        * rewrite abind_lift_ok. split; [discriminate|]. split; [cbn; lia|]. intros r' H'. cbn in H'. inversion H'; subst.
          apply (adv_ok _ _ _ (rd_devid_spec _ _ _ E0) Hs).
        * rewrite abind_lift_err. split; [discriminate|]. split; [cbn; lia|]. intros; discriminate.
        * exfalso. eapply rd_devid_np. eassumption.
      + split; [discriminate|]. split; [cbn; lia|]. intros r' H'. cbn in H'. inversion H'; subst. exact Hs. }
  fold stage. destruct S1 as (S1 & S2 & S3).
  eapply weaken; [apply (bind_rule stage _ (len s + 16320) ProxyMax); try assumption; try lia | lia].
  intros r0 E0. specialize (S3 r0 E0).
  apply lift_rule; [apply rd_fields_np | lia |]. intros [u r1] E1.
  pose proof (adv_ok _ _ _ (rd_fields_spec _ _ _ _ E1) S3) as H1.
  destruct (infoRefresh <? t); [apply ret_rule; lia|].
  eapply weaken; [apply (bind_rule _ _ ProxyMax 0); try apply rd_proxydata_spec; try assumption; try lia | lia].
  intros [n r2] _. apply ret_rule; lia.
Qed.

(* ===================================================================================
   7. every decoder the correspondence run drives (`run`)
   =================================================================================== *)
Lemma on_ok_np {X} (a : A X) (f : X -> list Z) : np a -> np (on_ok a f).
Proof.
  intros H. unfold on_ok, np. destruct (outcome a) as [x|e|] eqn:E.
  - rewrite (abind_ok _ _ _ E). discriminate.
  - rewrite (abind_err _ _ _ E). discriminate.
  - exfalso. apply H. exact E.
Qed.

(* the stream-reader decoders are the known finding stream-bytes-alloc; they are not reachable
   from a listener (readPacket hands Chunks to every decoder) *)
Definition chunk_backed (d : dec) : bool := match d with DBytesS | DStrListS => false | _ => true end.

Theorem run_no_panic d s : bytes_ok s = true -> outcome (run d s) <> Panic.
Proof.
  intros Hs. destruct d; cbn [run].
  - apply dns_read_no_panic. exact Hs.
  - apply on_ok_np. apply strlist_flat_spec.
  - apply on_ok_np. apply strlist_stream_no_panic.
  - apply on_ok_np. unfold np. cbn. apply rd_bytes_np.
  - apply on_ok_np. apply bytes_stream_spec.
  - apply on_ok_np. apply packet_wire_spec. exact Hs.
  - apply on_ok_np. apply packet_stream_spec. exact Hs.
  - apply result_dec_spec.
  - apply on_ok_np. apply rd_machine_spec. exact Hs.
  - apply on_ok_np. apply rd_network_spec. exact Hs.
  - apply on_ok_np. apply rd_proxydata_spec. exact Hs.
  - apply devinfo_spec. exact Hs.
Qed.

(* explicit constants per decoder: alloc <= K * |input| + C *)
Definition K_of (d : dec) : Z :=
  match d with
  | DDns => 1 | DStrListC => 112 | DBytesC => 0 | DPacketWire | DPacketStream => 0
  | DResult _ => 112 | DMachine | DNetwork => 1 | DProxyData _ => 0 | DDevInfo _ => 1
  | DBytesS | DStrListS => 0
  end.
Definition C_of (d : dec) : Z :=
  match d with
  | DPacketWire | DPacketStream => 262140 | DMachine | DNetwork => 16320 | DProxyData _ => 14280
  | DDevInfo _ => 30600 | _ => 0
  end.

Theorem run_alloc_linear d s : bytes_ok s = true -> chunk_backed d = true ->
  alloc (run d s) <= K_of d * len s + C_of d.
Proof.
  intros Hs Hd. pose proof (len_nonneg s). destruct d; cbn [run K_of C_of]; try discriminate Hd.
  - pose proof (dns_read_alloc_linear s Hs). lia.
  - apply (on_ok_rule _ _ (112 * len s + 0)); [lia|]. eapply weaken; [apply strlist_flat_spec | unfold StrGrow; lia].
  - apply (on_ok_rule _ _ (0 * len s + 0)); [lia|]. split; [unfold np; cbn; apply rd_bytes_np | cbn; lia].
  - apply (on_ok_rule _ _ (0 * len s + 262140)); [lia|]. eapply weaken; [apply packet_wire_spec; exact Hs | unfold TagsMax; lia].
  - apply (on_ok_rule _ _ (0 * len s + 262140)); [lia|]. eapply weaken; [apply packet_stream_spec; exact Hs | unfold TagsMax; lia].
  - pose proof (proj2 (result_dec_spec d s)). unfold ResultK in *. lia.
  - apply (on_ok_rule _ _ (1 * len s + 16320)); [lia|]. eapply weaken; [apply rd_machine_spec; exact Hs | unfold DevMax, AddrMax, Z_device, Z_address; lia].
  - apply (on_ok_rule _ _ (1 * len s + 16320)); [lia|]. eapply weaken; [apply rd_network_spec; exact Hs | unfold DevMax, AddrMax, Z_device, Z_address; lia].
  - apply (on_ok_rule _ _ (0 * len s + 14280)); [lia|]. eapply weaken; [apply rd_proxydata_spec; exact Hs | unfold ProxyMax, Z_proxy; lia].
  - pose proof (proj2 (devinfo_spec t s Hs)). unfold DevInfoC, DevMax, AddrMax, ProxyMax, Z_device, Z_address, Z_proxy in *. lia.
Qed.

(* the rule the harness applies to the implementation: allocation <= 128 * |input| + 1 MiB *)
Theorem run_alloc_proportional d s : bytes_ok s = true -> chunk_backed d = true ->
  alloc (run d s) <= thr (len s).
Proof.
  intros Hs Hd. pose proof (run_alloc_linear d s Hs Hd) as H. pose proof (len_nonneg s).
  unfold thr, MiB. destruct d; cbn [K_of C_of] in H; try discriminate Hd; lia.
Qed.

(* the finding: honest statements about the stream reader *)
Theorem stream_bytes_alloc_partial s : alloc (run DBytesS s) <= MaxSlice.
Proof. cbn [run]. apply (on_ok_rule _ _ MaxSlice); [unfold MaxSlice; lia|]. apply bytes_stream_spec. Qed.

Theorem stream_alloc_refuted_thr :
  exists s, bytes_ok s = true /\ alloc (run DBytesS s) > thr (len s).
Proof. exists [5;2;0;0;0]. split; vm_compute; reflexivity. Qed.

(* ===================================================================================
   8. transform.B64.Read: given the contract of encoding/base64 (it answers an error or at most
      DecodedLen(len p) bytes and does not panic), the shift loop and the final reslice stay
      inside the buffer, and the buffer is 3/4 of the input
   =================================================================================== *)
Lemma len_repeat (x : Z) n : len (repeat x n) = Z.of_nat n.
Proof. unfold len. rewrite repeat_length. reflexivity. Qed.

Lemma shift_loop_ok k : forall o x b, 0 <= x -> x + Z.of_nat k <= len o ->
  exists o', shift_loop k o x b = Ok o' /\ len o' = len o.
Proof.
  induction k as [|k IH]; intros o x b Hx Hk; cbn [shift_loop].
  - exists o. split; reflexivity.
  - destruct (idx_some o x ltac:(lia)) as (v & Ev & _). rewrite Ev. cbn [bind].
    assert (Hl : len (take x o ++ u8 (v - b) :: drop (x + 1) o) = len o).
    { rewrite len_app, len_cons, len_take', len_drop by lia. lia. }
    destruct (IH (take x o ++ u8 (v - b) :: drop (x + 1) o) (x + 1) b ltac:(lia) ltac:(lia)) as (o' & E & Hl').
    exists o'. split; [exact E | lia].
Qed.

Theorem b64_read_spec shift dec p :
  dec <> Panic -> (forall d, dec = Ok d -> len d <= b64_decoded_len (len p)) ->
  np (b64_read shift dec p) /\ alloc (b64_read shift dec p) <= len p.
Proof.
  intros Hnp Hlen. unfold b64_read. pose proof (len_nonneg p).
  assert (Hn : 0 <= b64_decoded_len (len p) <= len p) by (unfold b64_decoded_len; lia).
  eapply weaken; [apply (mk_rule _ _ 0); [lia|] | lia].
  destruct dec as [d|e|]; [|apply err_rule; lia | exfalso; apply Hnp; reflexivity].
  specialize (Hlen d eq_refl). pose proof (len_nonneg d).
  set (blen := Z.max (b64_decoded_len (len p)) 512).
  assert (Hb : len d <= blen) by (unfold blen; lia).
  set (o := take blen (d ++ repeat 0 (Z.to_nat (blen - len d)))).
  assert (Ho : len o = blen).
  { unfold o. apply len_take'. rewrite len_app, len_repeat. lia. }
  assert (Hs : exists o', (if shift =? 0 then Ok o else shift_loop (Z.to_nat (len d)) o 0 shift) = Ok o' /\ len o' = blen).
  { destruct (shift =? 0).
    - exists o. split; [reflexivity | exact Ho].
    - destruct (shift_loop_ok (Z.to_nat (len d)) o 0 shift ltac:(lia) ltac:(lia)) as (o' & E & Hl).
      exists o'. split; [exact E | lia]. }
  destruct Hs as (o' & -> & Hl'). rewrite abind_lift_ok.
  destruct (slice_ok o' 0 (len d) ltac:(lia) ltac:(lia) ltac:(lia)) as (w & -> & _). rewrite abind_lift_ok.
  apply ret_rule; lia.
Qed.

(* ===================================================================================
   9. receive(): the Multi container walk over bytes, nested containers, fragment dispatch.
      Tag slices of sub-packets that are decoded completely are paid for by their own header and
      tag bytes (4*nt <= 2 * bytes consumed outside the body); only the ONE sub-packet on which
      the walk fails can have an unpaid tag slice.
   =================================================================================== *)
Lemma rd_bytes_spec2 s b r : rd_bytes s = Ok (b, r) ->
  len b + len r + 1 <= len s /\ (bytes_ok s = true -> bytes_ok b = true /\ bytes_ok r = true).
Proof.
  unfold rd_bytes. destruct (rd_prefix s) as [[o r0]|e|] eqn:E0; cbn [bind]; try discriminate.
  destruct (rd_prefix_spec _ _ _ E0) as [A0 _]. pose proof (adv_len _ _ _ A0) as L0. destruct o as [l|].
  - destruct (l =? 0); [discriminate|]. destruct (MaxSlice <? l); [discriminate|].
    destruct (len r0 <? l) eqn:El; [discriminate|]. intros H. inversion H; subst. pose proof (len_nonneg r0).
    destruct (Z.leb_spec 0 l).
    + rewrite len_take', len_drop by lia. split; [lia|]. intros Hs. pose proof (adv_ok _ _ _ A0 Hs).
      split; [apply bytes_ok_take | apply bytes_ok_drop]; assumption.
    + unfold take, drop. replace (Z.to_nat l) with 0%nat by lia. cbn [firstn skipn]. change (len (@nil Z)) with 0.
      split; [lia|]. intros Hs. split; [reflexivity | apply (adv_ok _ _ _ A0 Hs)].
  - intros H. inversion H; subst. change (len (@nil Z)) with 0. split; [lia|]. intros Hs.
    split; [reflexivity | apply (adv_ok _ _ _ A0 Hs)].
Qed.

Lemma rd_tags_stream_spec k : forall s ts r, rd_tags_stream k s = Ok (ts, r) -> adv (4 * Z.of_nat k) s r.
Proof.
  induction k as [|k IH]; intros s ts r; cbn [rd_tags_stream].
  - intros H; inversion H; subst. apply adv_refl.
  - unfold rd_u32. destruct (rd_uN 4 s) as [[t r0]|e|] eqn:E; cbn [bind]; try discriminate.
    destruct (t =? 0); [discriminate|].
    destruct (rd_tags_stream k r0) as [[ts0 r1]|e|] eqn:E1; cbn [bind]; try discriminate.
    intros H. inversion H; subst.
    eapply adv_weak; [eapply adv_trans; [apply (rd_uN_spec 4 _ _ _ ltac:(lia) E) | eapply IH; eassumption] | lia].
Qed.

(* a successfully decoded stream-form packet: its tag slice is paid for *)
Lemma packet_stream_cost s p r : bytes_ok s = true -> outcome (packet_stream s) = Ok (p, r) ->
  alloc (packet_stream s) + 2 * (len (p_body p) + len r) <= 2 * len s /\
  bytes_ok (p_body p) = true /\ bytes_ok r = true /\ len (p_body p) + len r + 46 <= len s.
Proof.
  intros Hs. unfold packet_stream.
  destruct (rd_u8 s) as [[id r0]|e|] eqn:E0; [rewrite abind_lift_ok | rewrite abind_lift_err; discriminate | cbn; discriminate].
  destruct (rd_u8_spec _ _ _ E0) as [A0 _]. pose proof (adv_ok _ _ _ A0 Hs) as H0. apply adv_len in A0.
  unfold rd_u16, rd_u64.
  destruct (rd_uN 2 r0) as [[job r1]|e|] eqn:E1; [rewrite abind_lift_ok | rewrite abind_lift_err; discriminate | cbn; discriminate].
  destruct (rd_uN_spec 2 _ _ _ ltac:(lia) E1) as [A1 _]. pose proof (adv_ok _ _ _ A1 H0) as H1. apply adv_len in A1.
  destruct (rd_uN 2 r1) as [[nt r2]|e|] eqn:E2; [rewrite abind_lift_ok | rewrite abind_lift_err; discriminate | cbn; discriminate].
  destruct (rd_uN_spec 2 _ _ _ ltac:(lia) E2) as [A2 Hnt]. specialize (Hnt H1). pose proof (adv_ok _ _ _ A2 H1) as H2. apply adv_len in A2.
  destruct (rd_uN 8 r2) as [[flags r3]|e|] eqn:E3; [rewrite abind_lift_ok | rewrite abind_lift_err; discriminate | cbn; discriminate].
  destruct (rd_uN_spec 8 _ _ _ ltac:(lia) E3) as [A3 _]. pose proof (adv_ok _ _ _ A3 H2) as H3. apply adv_len in A3.
  destruct (rd_devid r3) as [[dev r4]|e|] eqn:E4; [rewrite abind_lift_ok | rewrite abind_lift_err; discriminate | cbn; discriminate].
  pose proof (rd_devid_spec _ _ _ E4) as A4. pose proof (adv_ok _ _ _ A4 H3) as H4. apply adv_len in A4.
  rewrite abind_mk. unfold outcome, alloc. cbn [fst snd].
  destruct (rd_tags_stream (Z.to_nat (Z.min nt PacketMaxTags)) r4) as [[tags r5]|e|] eqn:E5;
    [rewrite abind_lift_ok | rewrite abind_lift_err; cbn; discriminate | cbn; discriminate].
  pose proof (rd_tags_stream_spec _ _ _ _ E5) as A5. pose proof (adv_ok _ _ _ A5 H4) as H5. apply adv_len in A5.
  destruct (rd_bytes r5) as [[body r6]|e|] eqn:E6; [rewrite abind_lift_ok | rewrite abind_lift_err; cbn; discriminate | cbn; discriminate].
  destruct (rd_bytes_spec2 _ _ _ E6) as [L6 B6]. specialize (B6 H5). destruct B6 as [Hb Hr].
  cbn [ret fst snd]. intros H. inversion H; subst. cbn [p_body].
  split; [|split; [assumption|split; [assumption|]]]; unfold PacketMaxTags in *; lia.
Qed.

Definition slack {X} (a : A X) : Z := match outcome a with Ok _ => 0 | _ => TagsMax end.

Lemma slack_nonneg {X} (a : A X) : 0 <= slack a.
Proof. unfold slack, TagsMax. destruct (outcome a); lia. Qed.
Lemma slack_ret {X} (x : X) B : 0 <= B -> np (ret x) /\ alloc (ret x) <= B + slack (ret x).
Proof. intros. split; [discriminate|]. cbn. lia. Qed.
Lemma slack_lift {X} (r : res X) B : r <> Panic -> 0 <= B -> np (lift r) /\ alloc (lift r) <= B + slack (lift r).
Proof. intros Hr HB. split; [exact Hr|]. unfold slack, lift, alloc, outcome, TagsMax. cbn [fst snd]. destruct r; lia. Qed.

(* ---- clusters: cluster.add / cluster.done ---- *)
(* what every member of a cluster is: it came through the fragment branch of receive() *)
Definition member_ok (p : packet) : Prop := fl_bit 0 (p_flags p) = true /\ fl_bit 1 (p_flags p) = false.
Definition cl_wf (c : clus) : Prop := Forall member_ok (c_data c).
Definition st_wf (st : fstate) : Prop := Forall (fun kc => cl_wf (snd kc)) st.
Definition plain (q : packet) : Prop := fl_bit 1 (p_flags q) = false /\ fl_bit 0 (p_flags q) = false.

Lemma st_wf_nil : st_wf [].
Proof. constructor. Qed.
Lemma f_lookup_wf g st c : st_wf st -> f_lookup g st = Some c -> cl_wf c.
Proof.
  induction st as [|[k c0] st IH]; cbn [f_lookup]; [discriminate|]. intros H. inversion H; subst.
  destruct (k =? g); [intros E; inversion E; subst; assumption | apply IH; assumption].
Qed.
Lemma f_remove_wf g st : st_wf st -> st_wf (f_remove g st).
Proof.
  unfold st_wf, f_remove. rewrite !Forall_forall. intros H x Hx. apply filter_In in Hx. apply H. tauto.
Qed.

Lemma cl_add_np c p : cl_add c p <> Panic.
Proof.
  unfold cl_add. destruct (match c_data c with d0 :: _ => negb (belongs d0 p) | [] => false end); [discriminate|].
  destruct (is_nil (p_body p)); discriminate.
Qed.
Lemma cl_add_wf c p c' : cl_wf c -> member_ok p -> cl_add c p = Ok c' -> cl_wf c'.
Proof.
  unfold cl_add, cl_wf. intros Hc Hp.
  destruct (match c_data c with d0 :: _ => negb (belongs d0 p) | [] => false end); [discriminate|].
  destruct (is_nil (p_body p)); intros E; inversion E; subst; cbn [c_data]; [exact Hc|].
  apply Forall_app. split; [exact Hc | constructor; [exact Hp | constructor]].
Qed.

Lemma insert_pos_Forall (P : packet -> Prop) q l : P q -> Forall P l -> Forall P (insert_pos q l).
Proof.
  intros Hq. induction l as [|x r IH]; intros Hl; cbn [insert_pos]; [constructor; [exact Hq | constructor]|].
  inversion Hl; subst. destruct (_ <=? _); constructor; auto.
Qed.
Lemma sort_pos_Forall (P : packet -> Prop) l : Forall P l -> Forall P (sort_pos l).
Proof.
  induction l as [|x r IH]; intros Hl; cbn [sort_pos fold_right]; [constructor|].
  inversion Hl; subst. apply insert_pos_Forall; [assumption | apply IH; assumption].
Qed.
Lemma insert_pos_len q l : len (insert_pos q l) = 1 + len l.
Proof.
  induction l as [|x r IH]; cbn [insert_pos]; [reflexivity|]. destruct (_ <=? _); rewrite !len_cons; [rewrite IH|]; lia.
Qed.
Lemma sort_pos_len l : len (sort_pos l) = len l.
Proof.
  induction l as [|x r IH]; cbn [sort_pos fold_right]; [reflexivity|].
  fold (sort_pos r). rewrite insert_pos_len, len_cons, IH. reflexivity.
Qed.

Lemma fl_clear_bits fl : fl_bit 1 fl = false -> fl_bit 0 fl = true ->
  fl_bit 1 (fl_clear fl) = false /\ fl_bit 0 (fl_clear fl) = false.
Proof.
  unfold fl_bit, fl_clear. intros H1 H0. change 65536 with (2 ^ 16).
  rewrite !Z.lxor_spec, !Z.mod_pow2_bits_low by lia. rewrite H1, H0. split; reflexivity.
Qed.

Lemma padd_bits n x : member_ok n -> member_ok x -> member_ok (padd n x).
Proof.
  unfold padd, member_ok, fl_bit. intros [N0 N1] [X0 X1].
  destruct (is_nil (p_body x) || negb (p_id n =? p_id x)); [split; assumption|]. cbn [p_flags].
  change 65536 with (2 ^ 16). rewrite !Z.lor_spec, !Z.mod_pow2_bits_low by lia. rewrite N0, N1, X1. split; reflexivity.
Qed.
Lemma fold_padd_bits tl : forall n, member_ok n -> Forall member_ok tl -> member_ok (fold_left padd tl n).
Proof.
  induction tl as [|x tl IH]; intros n Hn Ht; cbn [fold_left]; [exact Hn|].
  inversion Ht; subst. apply IH; [apply padd_bits; assumption | assumption].
Qed.
Lemma merge_plain n tl : member_ok n -> Forall member_ok tl -> plain (merge n tl).
Proof.
  intros Hn Ht. unfold merge, plain. cbn [with_flags p_flags].
  destruct (fold_padd_bits tl n Hn Ht) as [B0 B1]. apply fl_clear_bits; assumption.
Qed.

Lemma Forall_drop {X} (P : X -> Prop) k (l : list X) : Forall P l -> Forall P (drop k l).
Proof.
  unfold drop. generalize (Z.to_nat k). intros n. revert l. induction n; intros l H; [exact H|].
  destruct l; [constructor|]. cbn [skipn]. inversion H; subst. apply IHn. assumption.
Qed.

Lemma idx_some_gen {X} (b : list X) i : 0 <= i < len b -> exists x, idx b i = Ok x /\ In x b.
Proof.
  intros H. unfold idx. replace (i <? 0) with false by lia.
  destruct (nth_error b (Z.to_nat i)) eqn:E.
  - exists x. split; [reflexivity|]. eapply nth_error_In. exact E.
  - apply nth_error_None in E. unfold len in H. lia.
Qed.

(* with the guard, done() indexes data[0] only when there is one; a completed group is a
   Packet that is neither a container nor a fragment *)
Lemma cl_done_spec c : cl_wf c ->
  (cl_done c = Ok None) \/ (exists v, cl_done c = Ok (Some v) /\ plain v).
Proof.
  unfold cl_done, cl_done_g, cl_wf. intros Hc. cbn [andb].
  destruct (c_data c) as [|d0 r] eqn:Ed; [left; reflexivity|]. cbn [is_nil].
  destruct (c_max c <? _); [|left; reflexivity]. right.
  assert (Hs : Forall member_ok (sort_pos (d0 :: r))) by (apply sort_pos_Forall; exact Hc).
  pose proof (sort_pos_len (d0 :: r)) as Hl. rewrite len_cons in Hl. pose proof (len_nonneg r).
  destruct (idx_some_gen (sort_pos (d0 :: r)) 0 ltac:(lia)) as (n & En & Hin). rewrite En. cbn [bind].
  eexists. split; [reflexivity|]. apply merge_plain.
  - rewrite Forall_forall in Hs. apply Hs. exact Hin.
  - apply Forall_drop. exact Hs.
Qed.

(* without the guard the same function panics on a group whose two parts are both empty
   (reachable: the cluster is what two cluster.add calls leave behind) *)
Lemma frag_done_guard_needed :
  let e0 := Build_packet 192 7 (2 * 281474976710656 + 0 * 4294967296 + 8 * 65536 + 1) 0 [] [] [65] in
  let e1 := Build_packet 192 7 (2 * 281474976710656 + 1 * 4294967296 + 8 * 65536 + 1) 0 [] [] [65] in
  exists c1 c2, cl_add (Build_clus 0 0 []) e0 = Ok c1 /\ cl_add c1 e1 = Ok c2 /\
                cl_done_g true c2 = Ok None /\ cl_done_g false c2 = Panic.
Proof. cbv zeta. eexists. eexists. repeat split; vm_compute; reflexivity. Qed.

Definition clob_ok (clob : nat -> list Z -> list Z) : Prop :=
  forall k r, bytes_ok r = true -> bytes_ok (clob k r) = true /\ len (clob k r) = len r.
Lemma no_clob_ok : clob_ok no_clob.
Proof. intros k r H. split; [exact H | reflexivity]. Qed.

Section Clobber.
Variable clob : nat -> list Z -> list Z.
Hypothesis Hclob : clob_ok clob.

(* a Packet that is neither a container nor a fragment is finished in one step *)
Lemma recv_b_plain f self st q : plain q ->
  recv_b clob (S f) self st q = ret st \/ recv_b clob (S f) self st q = lift (Err EOther).
Proof.
  intros [H1 H0]. cbn [recv_b].
  destruct (_ && _ && _); [left; reflexivity|]. destruct (_ && _); [right; reflexivity|].
  destruct (fl_bit 6 (p_flags q)); [left; reflexivity|]. destruct (_ && _); [left; reflexivity|].
  rewrite H1, H0. left. reflexivity.
Qed.

Lemma recv_unpack_spec fuel :
  (forall self st p, st_wf st -> bytes_ok (p_body p) = true ->
     np (recv_b clob fuel self st p) /\ alloc (recv_b clob fuel self st p) <= 2 * len (p_body p) + slack (recv_b clob fuel self st p) /\
     (forall st', outcome (recv_b clob fuel self st p) = Ok st' -> st_wf st')) /\
  (forall self st x body, st_wf st -> bytes_ok body = true ->
     np (unpack_b clob fuel self st x body) /\ alloc (unpack_b clob fuel self st x body) <= 2 * len body + slack (unpack_b clob fuel self st x body) /\
     (forall st', outcome (unpack_b clob fuel self st x body) = Ok st' -> st_wf st')).
Proof.
  assert (Rret : forall st B, st_wf st -> 0 <= B ->
            np (ret st) /\ alloc (ret st) <= B + slack (ret st) /\ (forall st', outcome (ret st) = Ok st' -> st_wf st')).
  { intros st B Hw HB. destruct (slack_ret st B HB) as [R1 R2]. split; [exact R1|]. split; [exact R2|].
    intros st' E. cbn in E. inversion E; subst. exact Hw. }
  assert (Rerr : forall e B, 0 <= B ->
            np (@lift fstate (Err e)) /\ alloc (@lift fstate (Err e)) <= B + slack (@lift fstate (Err e)) /\
            (forall st', outcome (@lift fstate (Err e)) = Ok st' -> st_wf st')).
  { intros e B HB. destruct (slack_lift (@Err fstate e) B ltac:(discriminate) HB) as [R1 R2]. split; [exact R1|]. split; [exact R2|].
    intros st' E. cbn in E. discriminate. }
  induction fuel as [|f [IHr IHu]].
  - split; intros; cbn [recv_b unpack_b]; apply Rerr; apply Z.mul_nonneg_nonneg; try lia; apply len_nonneg.
  - split.
    + intros self st p Hw Hb. cbn [recv_b]. pose proof (len_nonneg (p_body p)).
      destruct ((p_id p <? 2) && is_nil (p_body p) && ((p_flags p =? 0) || (p_flags p =? 4))); [apply Rret; [exact Hw|lia]|].
      destruct (negb (fl_bit 7 (p_flags p)) && negb (zlist_eqb self (p_dev p))); [apply Rerr; lia|].
      destruct (fl_bit 6 (p_flags p)); [apply Rret; [exact Hw|lia]|].
      destruct ((p_id p =? 4) && negb (fl_bit 8 (p_flags p))); [apply Rret; [exact Hw|lia]|].
      destruct (fl_bit 1 (p_flags p)) eqn:E1.
      { destruct (fl_len (p_flags p) =? 0); [apply Rerr; lia|]. apply IHu; assumption. }
      destruct (fl_bit 0 (p_flags p)) eqn:E0; [|apply Rret; [exact Hw|lia]].
      destruct ((p_id p =? 6) || (p_id p =? 3)); [apply Rret; [exact Hw|lia]|].
      destruct (fl_len (p_flags p) =? 0); [apply Rerr; lia|].
      destruct (fl_len (p_flags p) =? 1). { apply (IHr self st (with_flags (fl_clear (p_flags p)) p)); assumption. }
      assert (Hm : member_ok p) by (split; assumption).
      assert (Hgo : forall c, cl_wf c ->
        let a := match cl_add c p with
                 | Ok c' => match cl_done c' with
                            | Ok (Some v) => recv_b clob f self (f_remove (fl_group (p_flags p)) st) v
                            | Ok None => ret ((fl_group (p_flags p), c') :: f_remove (fl_group (p_flags p)) st)
                            | Err e => lift (Err e)
                            | Panic => lift Panic
                            end
                 | Err e => lift (Err e)
                 | Panic => lift Panic
                 end in
        np a /\ alloc a <= 2 * len (p_body p) + slack a /\ (forall st', outcome a = Ok st' -> st_wf st')).
      { intros c Hc. cbv zeta. pose proof (cl_add_np c p) as Hn.
        destruct (cl_add c p) as [c'|e|] eqn:Ea; [|apply Rerr; lia | exfalso; apply Hn; reflexivity].
        pose proof (cl_add_wf _ _ _ Hc Hm Ea) as Hc'.
        destruct (cl_done_spec c' Hc') as [Ed | (v & Ed & Hv)]; rewrite Ed.
        - apply Rret; [|lia]. constructor; [exact Hc' | apply f_remove_wf; exact Hw].
        - destruct f as [|f'].
          + cbn [recv_b]. apply Rerr; lia.
          + destruct (recv_b_plain f' self (f_remove (fl_group (p_flags p)) st) v Hv) as [-> | ->].
            * apply Rret; [apply f_remove_wf; exact Hw | lia].
            * apply Rerr; lia. }
      destruct (f_lookup (fl_group (p_flags p)) st) as [c|] eqn:El.
      * apply Hgo. eapply f_lookup_wf; eassumption.
      * destruct (0 <? fl_pos (p_flags p)); [apply Rret; [exact Hw|lia]|]. apply Hgo. constructor.
    + intros self st x body Hw Hb. cbn [unpack_b]. pose proof (len_nonneg body).
      destruct (x <=? 0); [apply Rret; [exact Hw|lia]|].
      destruct (packet_stream_spec body Hb) as [P1 P2].
      destruct (outcome (packet_stream body)) as [[v r]|e|] eqn:Ep.
      * destruct (packet_stream_cost body v r Hb Ep) as (C1 & C2 & C3 & _).
        rewrite (abind_ok _ _ _ Ep).
        destruct (IHr self st v Hw C2) as (R1 & R2 & R3).
        destruct (outcome (recv_b clob f self st v)) as [st'|e|] eqn:Er.
        -- rewrite (abind_ok _ _ _ Er). destruct (Hclob f r C3) as [C3' L3].
           destruct (IHu self st' (x - 1) (clob f r) (R3 st' eq_refl) C3') as (U1 & U2 & U3). rewrite L3 in U2.
           unfold slack in *. rewrite Er in R2. unfold np, outcome, alloc in *. cbn [fst snd].
           split; [exact U1|]. pose proof (len_nonneg (p_body v)). pose proof (len_nonneg r). split; [lia | exact U3].
        -- rewrite (abind_err _ _ _ Er). unfold slack in *. rewrite Er in R2. unfold np, outcome, alloc in *. cbn [fst snd].
           split; [discriminate|]. pose proof (len_nonneg (p_body v)). pose proof (len_nonneg r). split; [lia | intros; discriminate].
        -- exfalso. apply R1. exact Er.
      * rewrite (abind_err _ _ _ Ep). unfold slack, np, outcome, alloc in *. cbn [fst snd]. split; [discriminate|]. split; [lia | intros; discriminate].
      * exfalso. apply P1. exact Ep.
Qed.

Theorem receive_bytes_spec self s : bytes_ok s = true ->
  np (receive_bytes_c clob self s) /\ alloc (receive_bytes_c clob self s) <= 2 * len s + 2 * TagsMax.
Proof.
  intros Hs. unfold receive_bytes_c. pose proof (len_nonneg s).
  destruct (packet_stream_spec s Hs) as [P1 P2].
  destruct (outcome (packet_stream s)) as [[p r]|e|] eqn:Ep.
  - destruct (packet_stream_cost s p r Hs Ep) as (C1 & C2 & C3 & _). rewrite (abind_ok _ _ _ Ep).
    destruct (proj1 (recv_unpack_spec (recv_fuel p)) self [] p st_wf_nil C2) as (R1 & R2 & _).
    pose proof (slack_nonneg (recv_b clob (recv_fuel p) self [] p)) as Hs0.
    assert (Hsl : slack (recv_b clob (recv_fuel p) self [] p) <= TagsMax).
    { unfold slack. generalize (outcome (recv_b clob (recv_fuel p) self [] p)). intros o. destruct o; unfold TagsMax; lia. }
    pose proof (len_nonneg r). pose proof (len_nonneg (p_body p)).
    destruct (outcome (recv_b clob (recv_fuel p) self [] p)) as [st|e|] eqn:Er.
    + rewrite (abind_ok _ _ _ Er). unfold np, outcome, alloc in *. cbn [fst snd ret]. split; [discriminate|]. unfold TagsMax in *. lia.
    + rewrite (abind_err _ _ _ Er). unfold np, outcome, alloc in *. cbn [fst snd]. split; [discriminate|]. unfold TagsMax in *. lia.
    + exfalso. apply R1. exact Er.
  - rewrite (abind_err _ _ _ Ep). unfold np, outcome, alloc in *. cbn [fst snd]. split; [discriminate|]. unfold TagsMax in *. lia.
  - exfalso. apply P1. exact Ep.
Qed.

(* ---- ALL sequences of Packets handed to one Session: any flags, positions, lengths, group
   ids, empty or not, duplicates, in any order ---- *)
Theorem recv_packets_no_panic self : forall ps st, st_wf st ->
  Forall (fun p => bytes_ok (p_body p) = true) ps -> np (recv_packets clob self st ps).
Proof.
  induction ps as [|p ps IH]; intros st Hw Hb; cbn [recv_packets]; [discriminate|].
  inversion Hb; subst.
  destruct (proj1 (recv_unpack_spec (recv_fuel p)) self st p Hw H1) as (R1 & _ & R3). unfold np.
  destruct (outcome (recv_b clob (recv_fuel p) self st p)) as [st'|e|] eqn:Er.
  - rewrite (abind_ok _ _ _ Er). cbn [outcome fst]. apply IH; [apply R3; reflexivity | assumption].
  - rewrite (abind_err _ _ _ Er). discriminate.
  - exfalso. apply R1. exact Er.
Qed.

Lemma recv_stream_spec fuel : forall self st s, st_wf st -> bytes_ok s = true ->
  np (recv_stream clob fuel self st s) /\ alloc (recv_stream clob fuel self st s) <= 2 * len s + slack (recv_stream clob fuel self st s).
Proof.
  induction fuel as [|f IH]; intros self st s Hw Hb; cbn [recv_stream]; pose proof (len_nonneg s).
  - apply slack_lift; [discriminate | lia].
  - destruct (is_nil s); [apply slack_ret; lia|].
    destruct (packet_stream_spec s Hb) as [P1 P2].
    destruct (outcome (packet_stream s)) as [[v r]|e|] eqn:Ep.
    + destruct (packet_stream_cost s v r Hb Ep) as (C1 & C2 & C3 & _). rewrite (abind_ok _ _ _ Ep).
      destruct (proj1 (recv_unpack_spec (recv_fuel v)) self st v Hw C2) as (R1 & R2 & R3).
      destruct (outcome (recv_b clob (recv_fuel v) self st v)) as [st'|e|] eqn:Er.
      * rewrite (abind_ok _ _ _ Er). destruct (IH self st' r (R3 st' eq_refl) C3) as [U1 U2].
        unfold slack in *. rewrite Er in R2. unfold np, outcome, alloc in *. cbn [fst snd].
        split; [exact U1|]. pose proof (len_nonneg (p_body v)). pose proof (len_nonneg r). lia.
      * rewrite (abind_err _ _ _ Er). unfold slack in *. rewrite Er in R2. unfold np, outcome, alloc in *. cbn [fst snd].
        split; [discriminate|]. pose proof (len_nonneg (p_body v)). pose proof (len_nonneg r). lia.
      * exfalso. apply R1. exact Er.
    + rewrite (abind_err _ _ _ Ep). unfold slack, np, outcome, alloc in *. cbn [fst snd]. split; [discriminate|]. lia.
    + exfalso. apply P1. exact Ep.
Qed.

Theorem receive_seq_spec self s : bytes_ok s = true ->
  np (receive_seq_c clob self s) /\ alloc (receive_seq_c clob self s) <= 2 * len s + TagsMax.
Proof.
  intros Hs. unfold receive_seq_c, session_of_talk. pose proof (len_nonneg s).
  destruct (recv_stream_spec (S (length s)) self [] s st_wf_nil Hs) as [R1 R2].
  assert (Hsl : slack (recv_stream clob (S (length s)) self [] s) <= TagsMax).
  { unfold slack. generalize (outcome (recv_stream clob (S (length s)) self [] s)). intros o. destruct o; unfold TagsMax; lia. }
  destruct (outcome (recv_stream clob (S (length s)) self [] s)) as [st|e|] eqn:Er.
  - rewrite (abind_ok _ _ _ Er). unfold np, outcome, alloc in *. cbn [fst snd ret]. split; [discriminate|]. lia.
  - rewrite (abind_err _ _ _ Er). unfold np, outcome, alloc in *. cbn [fst snd]. split; [discriminate|]. lia.
  - exfalso. apply R1. exact Er.
Qed.


End Clobber.

(* ===================================================================================
   10. the fuel of the model loops is never exhausted (EFuel is unreachable): this is the
       termination argument for decodePacket(s), the list loops and the container walk
   =================================================================================== *)
Definition nofuel {X} (r : res X) : Prop := r <> Err EFuel.

Lemma nofuel_bind {X Y} (r : res X) (f : X -> res Y) :
  nofuel r -> (forall x, r = Ok x -> nofuel (f x)) -> nofuel (bind r f).
Proof. unfold nofuel. intros H1 H2. destruct r as [x|e|]; cbn [bind]; [apply H2; reflexivity | intros E; apply H1; inversion E; reflexivity | discriminate]. Qed.

Lemma rd_u8_nf s : nofuel (rd_u8 s).
Proof. destruct s; discriminate. Qed.
Lemma rd_uN_nf n s : nofuel (rd_uN n s).
Proof. unfold rd_uN, rd_fixed. destruct (len s <? n); discriminate. Qed.
Lemma rd_prefix_nf s : nofuel (rd_prefix s).
Proof.
  unfold rd_prefix. apply nofuel_bind; [apply rd_u8_nf|]. intros [t r] _.
  destruct (t =? 0); [discriminate|].
  destruct ((t =? 1) || (t =? 2)). { apply nofuel_bind; [apply rd_u8_nf|]. intros [? ?] _. discriminate. }
  destruct ((t =? 3) || (t =? 4)). { apply nofuel_bind; [apply rd_uN_nf|]. intros [? ?] _. discriminate. }
  destruct ((t =? 5) || (t =? 6)). { apply nofuel_bind; [apply rd_uN_nf|]. intros [? ?] _. discriminate. }
  destruct ((t =? 7) || (t =? 8)). { apply nofuel_bind; [apply rd_uN_nf|]. intros [? ?] _. discriminate. }
  discriminate.
Qed.
Lemma rd_bytes_nf s : nofuel (rd_bytes s).
Proof.
  unfold rd_bytes. apply nofuel_bind; [apply rd_prefix_nf|]. intros [[l|] r] _; [|discriminate].
  destruct (l =? 0); [discriminate|]. destruct (MaxSlice <? l); [discriminate|]. destruct (len r <? l); discriminate.
Qed.
Lemma rd_field_nf f s : nofuel (rd_field f s).
Proof.
  destruct f; cbn [rd_field]; (apply nofuel_bind; [first [apply rd_u8_nf | apply rd_uN_nf | apply rd_bytes_nf]|]); intros [? ?] _; discriminate.
Qed.
Lemma rd_fields_nf fs : forall s, nofuel (rd_fields fs s).
Proof.
  induction fs as [|f fs IH]; intros s; cbn [rd_fields]; [discriminate|].
  apply nofuel_bind; [apply rd_field_nf|]. intros [? r] _. apply IH.
Qed.

(* ---- string list: every entry takes at least one byte ---- *)
Lemma rd_strings_g_fuel fuel : forall k s, (length s < fuel)%nat -> outcome (rd_strings_g fuel k s) <> Err EFuel.
Proof.
  induction fuel as [|fuel IH]; intros k s Hf; [lia|]. cbn [rd_strings_g].
  destruct (k <=? 0); [discriminate|]. rewrite abind_mk. unfold outcome. cbn [fst].
  pose proof (rd_bytes_nf s) as Hn.
  destruct (rd_bytes s) as [[b r]|e|] eqn:E.
  - rewrite abind_lift_ok. apply rd_bytes_spec in E. apply adv_len in E. unfold len in E.
    specialize (IH (k - 1) r ltac:(lia)). unfold outcome in IH.
    destruct (fst (rd_strings_g fuel (k - 1) r)) as [[l r']|e|] eqn:Er.
    + change (fst (rd_strings_g fuel (k - 1) r)) with (outcome (rd_strings_g fuel (k - 1) r)) in Er. rewrite (abind_ok _ _ _ Er). discriminate.
    + change (fst (rd_strings_g fuel (k - 1) r)) with (outcome (rd_strings_g fuel (k - 1) r)) in Er. rewrite (abind_err _ _ _ Er). cbn. intros H; apply IH; exact H.
    + change (fst (rd_strings_g fuel (k - 1) r)) with (outcome (rd_strings_g fuel (k - 1) r)) in Er. rewrite (abind_panic _ _ Er). discriminate.
  - rewrite abind_lift_err. cbn. intros H. apply Hn. inversion H; reflexivity.
  - discriminate.
Qed.

Theorem strlist_flat_fuel s : outcome (strlist_flat true s) <> Err EFuel.
Proof.
  unfold strlist_flat. pose proof (rd_prefix_nf s) as Hn.
  destruct (rd_prefix s) as [[ol r]|e|] eqn:E.
  - rewrite abind_lift_ok. destruct ol as [n|]; [|discriminate]. destruct (i64 n <=? 0); [discriminate|].
    apply rd_strings_g_fuel. lia.
  - rewrite abind_lift_err. cbn. intros H. apply Hn. inversion H; reflexivity.
  - discriminate.
Qed.

(* ---- counted lists: every element takes at least one byte (the field lists are not empty) ---- *)
Lemma rd_elems_fuel fuel : forall c fs s, fs <> [] -> (length s < fuel)%nat -> nofuel (rd_elems fuel c fs s).
Proof.
  induction fuel as [|fuel IH]; intros c fs s Hfs Hf; [lia|]. cbn [rd_elems].
  destruct (c <=? 0); [discriminate|]. apply nofuel_bind; [apply rd_fields_nf|]. intros [u r] E.
  apply rd_fields_spec in E. apply adv_len in E. apply IH; [exact Hfs|].
  assert (1 <= len fs) by (destruct fs; [congruence | rewrite len_cons; pose proof (len_nonneg fs); lia]).
  unfold len in *. lia.
Qed.

(* ---- DNS ---- *)
Lemma dns_labels_fuel fuel : forall b i s, bytes_ok b = true -> 0 <= s -> (Z.to_nat (len b - s) < fuel)%nat ->
  nofuel (dns_labels true fuel b i s).
Proof.
  induction fuel as [|fuel IH]; intros b i s Hb Hs Hf; [lia|]. cbn [dns_labels].
  destruct (64 <=? i); [discriminate|].
  destruct ((len b <=? i) || (len b <=? s)) eqn:E; [discriminate|].
  destruct (idx_byte b s Hb ltac:(lia)) as (x & Ex & Hx). rewrite Ex. cbn [bind].
  destruct (x =? 0); [discriminate|]. apply IH; [exact Hb | lia | lia].
Qed.

Lemma dns_q_fuel q : forall b s, bytes_ok b = true -> 0 <= s -> nofuel (dns_q true q b s).
Proof.
  induction q as [|q IH]; intros b s Hb Hs; cbn [dns_q]; [discriminate|].
  apply nofuel_bind.
  - apply dns_labels_fuel; [exact Hb | exact Hs |]. pose proof (len_nonneg b). unfold len in *. lia.
  - intros s1 E. destruct (dns_labels_spec (S (length b)) b 0 s Hb Hs) as [_ H2]. specialize (H2 s1 E).
    destruct (len b <=? s1 + 4); [discriminate|]. apply IH; [exact Hb | lia].
Qed.

Lemma dns_c_fuel c : forall b s, nofuel (dns_c true c b s).
Proof.
  induction c as [|c IH]; intros b s; cbn [dns_c]; [discriminate|].
  destruct (len b <=? s + 10 + 1); [discriminate|].
  apply nofuel_bind; [unfold nofuel, idx; destruct (s + 10 <? 0); [discriminate|]; destruct (nth_error b (Z.to_nat (s + 10))); discriminate|].
  intros hi _. apply nofuel_bind; [unfold nofuel, idx; destruct (s + 10 + 1 <? 0); [discriminate|]; destruct (nth_error b (Z.to_nat (s + 10 + 1))); discriminate|].
  intros lo _. apply IH.
Qed.

Lemma idx_nf (b : list Z) i : nofuel (idx b i).
Proof. unfold nofuel, idx. destruct (i <? 0); [discriminate|]. destruct (nth_error b (Z.to_nat i)); discriminate. Qed.
Lemma slice_nf (b : list Z) i j : nofuel (slice b i j).
Proof. unfold nofuel, slice. destruct ((i <? 0) || (j <? i) || (len b <? j)); discriminate. Qed.

Definition anofuel {X} (a : A X) : Prop := outcome a <> Err EFuel.
Lemma anofuel_lift_bind {X Y} (r : res X) (f : X -> A Y) :
  nofuel r -> (forall x, r = Ok x -> anofuel (f x)) -> anofuel (abind (lift r) f).
Proof.
  unfold nofuel, anofuel. intros H1 H2. destruct r as [x|e|].
  - rewrite abind_lift_ok. apply H2. reflexivity.
  - rewrite abind_lift_err. cbn. intros E. apply H1. inversion E; reflexivity.
  - cbn. discriminate.
Qed.

Lemma dns_t_fuel t : forall b s acc, anofuel (dns_t true t b s acc).
Proof.
  induction t as [|t IH]; intros b s acc; cbn [dns_t]; [discriminate|].
  destruct (len b <=? s + 6); [discriminate|].
  do 6 (apply anofuel_lift_bind; [apply idx_nf|]; intros ? _).
  destruct (negb _); [discriminate|]. cbn [andb].
  destruct (len b <=? s + 10 + 1); [discriminate|].
  do 2 (apply anofuel_lift_bind; [apply idx_nf|]; intros ? _).
  destruct (len b <? _); [discriminate|].
  apply anofuel_lift_bind; [apply slice_nf|]. intros d _.
  rewrite abind_mk. unfold anofuel, outcome. cbn [fst]. apply IH.
Qed.

Lemma dns_packet_fuel b : bytes_ok b = true -> anofuel (dns_packet true b).
Proof.
  intros Hb. unfold dns_packet.
  apply anofuel_lift_bind; [destruct (len b <? 12); discriminate|]. intros ? _.
  do 6 (apply anofuel_lift_bind; [apply idx_nf|]; intros ? _).
  apply anofuel_lift_bind; [apply dns_q_fuel; [exact Hb | lia]|]. intros s1 _.
  apply anofuel_lift_bind; [apply dns_c_fuel|]. intros s2 _.
  apply dns_t_fuel.
Qed.

Lemma dns_packets_fuel fuel : forall b i acc, bytes_ok b = true -> 0 <= i -> (Z.to_nat (len b - i) < fuel)%nat ->
  anofuel (dns_packets true fuel b i acc).
Proof.
  induction fuel as [|fuel IH]; intros b i acc Hb Hi Hf; [lia|]. cbn [dns_packets].
  destruct (len b <=? i) eqn:E; [discriminate|].
  pose proof (dns_packet_fuel (drop i b) (bytes_ok_drop _ _ Hb)) as Hp.
  destruct (dns_packet_spec (drop i b) (bytes_ok_drop _ _ Hb)) as (P1 & _ & P3).
  unfold anofuel in *.
  destruct (outcome (dns_packet true (drop i b))) as [[n w]|e|] eqn:Eo.
  - rewrite (abind_ok _ _ _ Eo). cbn [outcome fst]. destruct (P3 n w eq_refl) as [_ P5].
    apply IH; [exact Hb | lia | lia].
  - rewrite (abind_err _ _ _ Eo). cbn. exact Hp.
  - exfalso. apply P1. exact Eo.
Qed.

Theorem dns_read_fuel b : bytes_ok b = true -> outcome (dns_read true b) <> Err EFuel.
Proof.
  intros Hb. unfold dns_read.
  pose proof (dns_packets_fuel (S (length b)) b 0 [] Hb ltac:(lia)) as H.
  assert (Hf : (Z.to_nat (len b - 0) < S (length b))%nat) by (unfold len; lia). specialize (H Hf). unfold anofuel in H.
  destruct (outcome (dns_packets true (S (length b)) b 0 [])) as [[n w]|e|] eqn:Eo.
  - rewrite (abind_ok _ _ _ Eo). cbn [outcome fst]. destruct (n =? len b); discriminate.
  - rewrite (abind_err _ _ _ Eo). cbn. intros E. apply H. inversion E; reflexivity.
  - rewrite (abind_panic _ _ Eo). discriminate.
Qed.

Lemma counted_fuel c esz fs r : fs <> [] -> outcome (counted true c esz fs r) <> Err EFuel.
Proof.
  intros Hfs. unfold counted. cbn [andb]. destruct (len r <? c); [discriminate|].
  rewrite abind_mk. unfold outcome. cbn [fst].
  apply (anofuel_lift_bind (rd_elems (S (length r)) c fs r)); [apply rd_elems_fuel; [exact Hfs | lia]|].
  intros [u r'] _. discriminate.
Qed.

(* ---- the container walk ---- *)
Lemma read_full_flat_nf n s : nofuel (read_full_flat n s).
Proof. unfold nofuel, read_full_flat. destruct (n <=? 0); [discriminate|]. destruct (is_nil s); [discriminate|]. destruct (len s <? n); discriminate. Qed.
Lemma rd_devid_nf s : nofuel (rd_devid s).
Proof.
  unfold rd_devid. apply nofuel_bind; [apply read_full_flat_nf|]. intros [i r] _.
  destruct i as [|x i]; [discriminate|]. destruct (x =? 0); discriminate.
Qed.
Lemma rd_tags_stream_nf k : forall s, nofuel (rd_tags_stream k s).
Proof.
  induction k as [|k IH]; intros s; cbn [rd_tags_stream]; [discriminate|].
  apply nofuel_bind; [apply rd_uN_nf|]. intros [t r] _. destruct (t =? 0); [discriminate|].
  apply nofuel_bind; [apply IH|]. intros [? ?] _. discriminate.
Qed.
Lemma packet_stream_fuel s : anofuel (packet_stream s).
Proof.
  unfold packet_stream.
  apply anofuel_lift_bind; [apply rd_u8_nf|]. intros [? ?] _.
  apply anofuel_lift_bind; [apply rd_uN_nf|]. intros [? ?] _.
  apply anofuel_lift_bind; [apply rd_uN_nf|]. intros [nt ?] _.
  apply anofuel_lift_bind; [apply rd_uN_nf|]. intros [? ?] _.
  apply anofuel_lift_bind; [apply rd_devid_nf|]. intros [? ?] _.
  rewrite abind_mk. unfold anofuel, outcome. cbn [fst].
  apply (anofuel_lift_bind (rd_tags_stream _ _)); [apply rd_tags_stream_nf|]. intros [? ?] _.
  apply anofuel_lift_bind; [apply rd_bytes_nf|]. intros [? ?] _. discriminate.
Qed.

Section ClobberFuel.
Variable clob : nat -> list Z -> list Z.
Hypothesis Hclob : clob_ok clob.

Lemma cl_add_nf c p : nofuel (cl_add c p).
Proof.
  unfold nofuel, cl_add. destruct (match c_data c with d0 :: _ => negb (belongs d0 p) | [] => false end); [discriminate|].
  destruct (is_nil (p_body p)); discriminate.
Qed.

Lemma recv_unpack_fuel fuel :
  (forall self st p, st_wf st -> bytes_ok (p_body p) = true -> (length (p_body p) + 2 < fuel)%nat -> anofuel (recv_b clob fuel self st p)) /\
  (forall self st x body, st_wf st -> bytes_ok body = true -> (length body < fuel)%nat -> anofuel (unpack_b clob fuel self st x body)).
Proof.
  induction fuel as [|f [IHr IHu]]; [split; intros; lia|]. split.
  - intros self st p Hw Hb Hf. cbn [recv_b]. unfold anofuel.
    destruct (_ && _ && _); [discriminate|]. destruct (_ && _); [discriminate|].
    destruct (fl_bit 6 (p_flags p)); [discriminate|]. destruct (_ && _); [discriminate|].
    destruct (fl_bit 1 (p_flags p)) eqn:E1.
    { destruct (fl_len (p_flags p) =? 0); [discriminate|]. apply IHu; [exact Hw | exact Hb | lia]. }
    destruct (fl_bit 0 (p_flags p)) eqn:E0; [|discriminate].
    destruct (_ || _); [discriminate|]. destruct (fl_len (p_flags p) =? 0); [discriminate|].
    destruct f as [|f']; [lia|].
    assert (Hpl : forall st0 q, plain q -> outcome (recv_b clob (S f') self st0 q) <> Err EFuel).
    { intros st0 q Hq. destruct (recv_b_plain clob f' self st0 q Hq) as [-> | ->]; discriminate. }
    destruct (fl_len (p_flags p) =? 1).
    { apply Hpl. destruct (fl_clear_bits _ E1 E0) as [B1 B0]. split; cbn [with_flags p_flags]; assumption. }
    assert (Hm : member_ok p) by (split; assumption).
    assert (Hgo : forall c, cl_wf c ->
      outcome (match cl_add c p with
               | Ok c' => match cl_done c' with
                          | Ok (Some v) => recv_b clob (S f') self (f_remove (fl_group (p_flags p)) st) v
                          | Ok None => ret ((fl_group (p_flags p), c') :: f_remove (fl_group (p_flags p)) st)
                          | Err e => lift (Err e)
                          | Panic => lift Panic
                          end
               | Err e => lift (Err e)
               | Panic => lift Panic
               end) <> Err EFuel).
    { intros c Hc. pose proof (cl_add_nf c p) as Hn.
      destruct (cl_add c p) as [c'|e|] eqn:Ea; [|cbn; intros E; apply Hn; inversion E; reflexivity | discriminate].
      destruct (cl_done_spec c' (cl_add_wf _ _ _ Hc Hm Ea)) as [Ed | (v & Ed & Hv)]; rewrite Ed; [discriminate|].
      apply Hpl. exact Hv. }
    destruct (f_lookup _ st) as [c|] eqn:El.
    + apply Hgo. eapply f_lookup_wf; eassumption.
    + destruct (0 <? _); [discriminate | apply Hgo; constructor].
  - intros self st x body Hw Hb Hf. cbn [unpack_b]. unfold anofuel.
    destruct (x <=? 0); [discriminate|].
    pose proof (packet_stream_fuel body) as Hp. destruct (packet_stream_spec body Hb) as [P1 _].
    destruct (outcome (packet_stream body)) as [[v r]|e|] eqn:Ep.
    + destruct (packet_stream_cost body v r Hb Ep) as (_ & C2 & C3 & C4). rewrite (abind_ok _ _ _ Ep). cbn [outcome fst].
      pose proof (len_nonneg r). pose proof (len_nonneg (p_body v)). unfold len in *.
      assert (Hr : anofuel (recv_b clob f self st v)) by (apply IHr; [exact Hw | exact C2 | lia]).
      destruct (proj1 (recv_unpack_spec clob Hclob f) self st v Hw C2) as (_ & _ & R3).
      destruct (outcome (recv_b clob f self st v)) as [st'|e|] eqn:Er.
      * rewrite (abind_ok _ _ _ Er). cbn [fst]. destruct (Hclob f r C3) as [C3' L3]. unfold len in L3.
        apply IHu; [apply R3; reflexivity | exact C3' | lia].
      * rewrite (abind_err _ _ _ Er). cbn. unfold anofuel in Hr. rewrite Er in Hr. exact Hr.
      * rewrite (abind_panic _ _ Er). discriminate.
    + rewrite (abind_err _ _ _ Ep). cbn. unfold anofuel in Hp. rewrite Ep in Hp. intros E. apply Hp. inversion E; reflexivity.
    + exfalso. apply P1. exact Ep.
Qed.

Lemma recv_fuel_ok self st p : st_wf st -> bytes_ok (p_body p) = true -> anofuel (recv_b clob (recv_fuel p) self st p).
Proof. intros Hw Hb. apply (proj1 (recv_unpack_fuel _)); [exact Hw | exact Hb | unfold recv_fuel; lia]. Qed.

Theorem receive_bytes_fuel self s : bytes_ok s = true -> outcome (receive_bytes_c clob self s) <> Err EFuel.
Proof.
  intros Hs. unfold receive_bytes_c.
  pose proof (packet_stream_fuel s) as Hp. destruct (packet_stream_spec s Hs) as [P1 _].
  destruct (outcome (packet_stream s)) as [[p r]|e|] eqn:Ep.
  - destruct (packet_stream_cost s p r Hs Ep) as (_ & C2 & _ & C4). rewrite (abind_ok _ _ _ Ep). cbn [outcome fst].
    pose proof (recv_fuel_ok self [] p st_wf_nil C2) as Hr. unfold anofuel in Hr.
    destruct (outcome (recv_b clob (recv_fuel p) self [] p)) as [st|e|] eqn:Er.
    + rewrite (abind_ok _ _ _ Er). discriminate.
    + rewrite (abind_err _ _ _ Er). cbn. intros E. apply Hr. inversion E; reflexivity.
    + rewrite (abind_panic _ _ Er). discriminate.
  - rewrite (abind_err _ _ _ Ep). cbn. unfold anofuel in Hp. rewrite Ep in Hp. intros E. apply Hp. inversion E; reflexivity.
  - exfalso. apply P1. exact Ep.
Qed.

Theorem recv_packets_fuel self : forall ps st, st_wf st ->
  Forall (fun p => bytes_ok (p_body p) = true) ps -> outcome (recv_packets clob self st ps) <> Err EFuel.
Proof.
  induction ps as [|p ps IH]; intros st Hw Hb; cbn [recv_packets]; [discriminate|].
  inversion Hb; subst. pose proof (recv_fuel_ok self st p Hw H1) as Hr. unfold anofuel in Hr.
  destruct (proj1 (recv_unpack_spec clob Hclob (recv_fuel p)) self st p Hw H1) as (_ & _ & R3).
  destruct (outcome (recv_b clob (recv_fuel p) self st p)) as [st'|e|] eqn:Er.
  - rewrite (abind_ok _ _ _ Er). cbn [outcome fst]. apply IH; [apply R3; reflexivity | assumption].
  - rewrite (abind_err _ _ _ Er). cbn. exact Hr.
  - rewrite (abind_panic _ _ Er). discriminate.
Qed.

Lemma recv_stream_fuel fuel : forall self st s, st_wf st -> bytes_ok s = true -> (length s < fuel)%nat ->
  anofuel (recv_stream clob fuel self st s).
Proof.
  induction fuel as [|f IH]; intros self st s Hw Hb Hf; [lia|]. cbn [recv_stream]. unfold anofuel.
  destruct (is_nil s); [discriminate|].
  pose proof (packet_stream_fuel s) as Hp. destruct (packet_stream_spec s Hb) as [P1 _].
  destruct (outcome (packet_stream s)) as [[v r]|e|] eqn:Ep.
  - destruct (packet_stream_cost s v r Hb Ep) as (_ & C2 & C3 & C4). rewrite (abind_ok _ _ _ Ep). cbn [outcome fst].
    pose proof (recv_fuel_ok self st v Hw C2) as Hr. unfold anofuel in Hr.
    destruct (proj1 (recv_unpack_spec clob Hclob (recv_fuel v)) self st v Hw C2) as (_ & _ & R3).
    pose proof (len_nonneg r). pose proof (len_nonneg (p_body v)). unfold len in *.
    destruct (outcome (recv_b clob (recv_fuel v) self st v)) as [st'|e|] eqn:Er.
    + rewrite (abind_ok _ _ _ Er). cbn [fst]. apply IH; [apply R3; reflexivity | exact C3 | lia].
    + rewrite (abind_err _ _ _ Er). cbn. exact Hr.
    + rewrite (abind_panic _ _ Er). discriminate.
  - rewrite (abind_err _ _ _ Ep). cbn. unfold anofuel in Hp. rewrite Ep in Hp. intros E. apply Hp. inversion E; reflexivity.
  - exfalso. apply P1. exact Ep.
Qed.

Theorem receive_seq_fuel self s : bytes_ok s = true -> outcome (receive_seq_c clob self s) <> Err EFuel.
Proof.
  intros Hs. unfold receive_seq_c, session_of_talk.
  pose proof (recv_stream_fuel (S (length s)) self [] s st_wf_nil Hs ltac:(lia)) as Hr. unfold anofuel in Hr.
  destruct (outcome (recv_stream clob (S (length s)) self [] s)) as [st|e|] eqn:Er.
  - rewrite (abind_ok _ _ _ Er). discriminate.
  - rewrite (abind_err _ _ _ Er). cbn. intros E. apply Hr. inversion E; reflexivity.
  - rewrite (abind_panic _ _ Er). discriminate.
Qed.


End ClobberFuel.

(* the two constructors of the server-side Session agree on what receive() touches *)
Lemma session_constructors_agree : session_of_talkSub = session_of_talk /\ st_wf session_of_talkSub.
Proof. split; [reflexivity | constructor]. Qed.
Lemma receive_seqf_is_receive_seq clob self s : receive_seqf_c clob self s = receive_seq_c clob self s.
Proof. reflexivity. Qed.

(* ===================================================================================
   11. Session.JSON: the text is one JSON value followed by nothing, whatever the leaves are,
       as long as they keep their contracts (escape.JSON returns a string literal; identifiers,
       times and addresses need no escaping; util.Uitoa returns a number)
   =================================================================================== *)
(* `jvalk inp r`: inp is ONE JSON value followed by r (byte-level grammar of RFC 8259 restricted
   to what the code emits: objects, arrays, strings, unsigned integers, true/false, one optional
   space after a colon) *)
Inductive jvalk : list Z -> list Z -> Prop :=
| JStrK s r : is_jstr s = true -> jvalk (s ++ r) r
| JQuoteK x r : is_plain x = true -> jvalk (Q ++ x ++ Q ++ r) r
| JNumK s r : is_jnum s = true -> jvalk (s ++ r) r
| JBoolK b r : jvalk (jbool b ++ r) r
| JSpK inp r : jvalk inp r -> jvalk (lit " " ++ inp) r
| JObjEmptyK r : jvalk (lit "{" ++ lit "}" ++ r) r
| JObjK k inp inp' r : is_jstr k = true -> jvalk inp inp' -> jtailk inp' r -> jvalk (lit "{" ++ k ++ CL ++ inp) r
| JArrEmptyK r : jvalk (lit "[" ++ lit "]" ++ r) r
| JArrK inp inp' r : jvalk inp inp' -> jatailk inp' r -> jvalk (lit "[" ++ inp) r
with jtailk : list Z -> list Z -> Prop :=        (* (, member)* } *)
| TEndK r : jtailk (lit "}" ++ r) r
| TMoreK k inp inp' r : is_jstr k = true -> jvalk inp inp' -> jtailk inp' r -> jtailk (CM ++ k ++ CL ++ inp) r
with jatailk : list Z -> list Z -> Prop :=       (* (, value)* ] *)
| AEndK r : jatailk (lit "]" ++ r) r
| AMoreK inp inp' r : jvalk inp inp' -> jatailk inp' r -> jatailk (CM ++ inp) r.

Definition json_wf (text : list Z) : Prop := jvalk text [].

Lemma ips_tail l : forall k r, forallb is_plain l = true -> jatailk k r -> jatailk (ips_loop false l ++ k) r.
Proof.
  induction l as [|x l IH]; intros k r Hl Hk; cbn [ips_loop].
  - exact Hk.
  - cbn [forallb] in Hl. apply andb_prop in Hl. destruct Hl as [Hx Hl].
    repeat rewrite <- app_assoc. eapply AMoreK; [apply JQuoteK; exact Hx|]. apply IH; assumption.
Qed.

Lemma ips_array l r : forallb is_plain l = true -> jvalk (lit "[" ++ ips_loop true l ++ lit "]" ++ r) r.
Proof.
  intros Hl. destruct l as [|x l]; cbn [ips_loop].
  - apply JArrEmptyK.
  - cbn [forallb] in Hl. apply andb_prop in Hl. destruct Hl as [Hx Hl].
    repeat rewrite <- app_assoc. eapply JArrK; [apply JQuoteK; exact Hx|]. apply ips_tail; [exact Hl | apply AEndK].
Qed.

Lemma netdev_val d k : netdev_okb d = true -> jvalk (netdev_json d k) k.
Proof.
  unfold netdev_okb, netdev_json. intros H. apply andb_prop in H. destruct H as [H Hi]. apply andb_prop in H. destruct H as [Hn Hm].
  eapply JObjK; [reflexivity | apply JStrK; exact Hn |].
  eapply TMoreK; [reflexivity | apply JQuoteK; exact Hm |].
  eapply TMoreK; [reflexivity | apply ips_array; exact Hi |]. apply TEndK.
Qed.

Lemma net_tail l : forall k r, forallb netdev_okb l = true -> jatailk k r -> jatailk (net_loop false l ++ k) r.
Proof.
  induction l as [|d l IH]; intros k r Hl Hk; cbn [net_loop].
  - exact Hk.
  - cbn [forallb] in Hl. apply andb_prop in Hl. destruct Hl as [Hd Hl].
    unfold netdev_json. repeat rewrite <- app_assoc.
    eapply AMoreK; [apply (netdev_val d _ Hd)|]. apply IH; assumption.
Qed.

Lemma net_array l r : forallb netdev_okb l = true -> jvalk (lit "[" ++ net_loop true l ++ lit "]" ++ r) r.
Proof.
  intros Hl. destruct l as [|d l]; cbn [net_loop].
  - apply JArrEmptyK.
  - cbn [forallb] in Hl. apply andb_prop in Hl. destruct Hl as [Hd Hl].
    unfold netdev_json. repeat rewrite <- app_assoc.
    eapply JArrK; [apply (netdev_val d _ Hd)|]. apply net_tail; [exact Hl | apply AEndK].
Qed.

Definition proxy_okb (p : list Z * list Z) : bool := is_jstr (fst p) && is_jstr (snd p).

Lemma proxy_val p k : proxy_okb p = true -> jvalk (proxy_json p k) k.
Proof.
  unfold proxy_okb, proxy_json. intros H. apply andb_prop in H. destruct H as [Hn Hb].
  eapply JObjK; [reflexivity | apply JStrK; exact Hn |].
  eapply TMoreK; [reflexivity | apply JSpK; apply JStrK; exact Hb |]. apply TEndK.
Qed.

Lemma proxy_tail l : forall k r, forallb proxy_okb l = true -> jatailk k r -> jatailk (proxy_loop false l ++ k) r.
Proof.
  induction l as [|p l IH]; intros k r Hl Hk; cbn [proxy_loop].
  - exact Hk.
  - cbn [forallb] in Hl. apply andb_prop in Hl. destruct Hl as [Hp Hl].
    unfold proxy_json. repeat rewrite <- app_assoc.
    eapply AMoreK; [apply (proxy_val p _ Hp)|]. apply IH; assumption.
Qed.

Lemma proxies_tail l r : forallb proxy_okb l = true -> jtailk (proxies_member l (lit "}" ++ r)) r.
Proof.
  intros Hl. destruct l as [|p l]; unfold proxies_member.
  - apply TEndK.
  - eapply TMoreK; [reflexivity | | apply TEndK].
    cbn [proxy_loop]. cbn [forallb] in Hl. apply andb_prop in Hl. destruct Hl as [Hp Hl].
    unfold proxy_json. repeat rewrite <- app_assoc.
    eapply JArrK; [apply (proxy_val p _ Hp)|]. apply proxy_tail; [exact Hl | apply AEndK].
Qed.

Lemma opt_tail key o k r : is_jstr key = true -> opt_okb o = true -> jtailk k r -> jtailk (opt_member key o k) r.
Proof.
  intros Hk Ho Ht. destruct o as [v|]; unfold opt_member; [|exact Ht].
  eapply TMoreK; [exact Hk | apply JStrK; exact Ho | exact Ht].
Qed.

Lemma work_val w k : work_okb w = true -> jvalk (work_json w k) k.
Proof.
  intros H. destruct w as [w|]; unfold work_json; [|apply JObjEmptyK].
  unfold work_okb in H. repeat (apply andb_prop in H; destruct H as [H ?]).
  eapply JObjK; [reflexivity | apply JNumK; eassumption |].
  eapply TMoreK; [reflexivity | apply JNumK; eassumption |].
  eapply TMoreK; [reflexivity | apply JNumK; eassumption |].
  eapply TMoreK; [reflexivity | apply JNumK; eassumption |].
  eapply TMoreK; [reflexivity | apply JQuoteK; eassumption |]. apply TEndK.
Qed.

Theorem session_json_wf f : sess_okb f = true -> json_wf (session_json f).
Proof.
  unfold sess_okb. intros H. repeat (apply andb_prop in H; destruct H as [H ?]).
  unfold json_wf, session_json.
  eapply JObjK; [reflexivity | apply JQuoteK; eassumption |].
  eapply TMoreK; [reflexivity | apply JQuoteK; eassumption |].
  eapply TMoreK; [reflexivity | apply JBoolK |].
  eapply TMoreK; [reflexivity | |].
  { (* "device": { ... } *)
    eapply JObjK; [reflexivity | apply JQuoteK; eassumption |].
    eapply TMoreK; [reflexivity | apply JStrK; eassumption |].
    eapply TMoreK; [reflexivity | apply JStrK; eassumption |].
    eapply TMoreK; [reflexivity | apply JStrK; eassumption |].
    eapply TMoreK; [reflexivity | apply JQuoteK; eassumption |].
    eapply TMoreK; [reflexivity | apply JStrK; eassumption |].
    eapply TMoreK; [reflexivity | apply JBoolK |].
    eapply TMoreK; [reflexivity | apply JQuoteK; eassumption |].
    eapply TMoreK; [reflexivity | apply JBoolK |].
    eapply TMoreK; [reflexivity | apply JNumK; eassumption |].
    eapply TMoreK; [reflexivity | apply JNumK; eassumption |].
    eapply TMoreK; [reflexivity | apply net_array; eassumption |].
    apply TEndK. }
  eapply TMoreK; [reflexivity | apply JQuoteK; eassumption |].
  eapply TMoreK; [reflexivity | apply JQuoteK; eassumption |].
  eapply TMoreK; [reflexivity | apply JStrK; eassumption |].
  eapply TMoreK; [reflexivity | apply JNumK; eassumption |].
  eapply TMoreK; [reflexivity | apply JNumK; eassumption |].
  eapply TMoreK; [reflexivity | apply JQuoteK; eassumption |].
  eapply TMoreK; [reflexivity | apply work_val; eassumption |].
  apply opt_tail; [reflexivity | eassumption |].
  apply opt_tail; [reflexivity | eassumption |].
  apply (proxies_tail _ []). eassumption.
Qed.

(* with escape.JSON's contract as the hypothesis: whatever the client put into the strings *)
Section EscapeContract.
  Variable escape : list Z -> list Z.                       (* github.com/PurpleSec/escape.JSON *)
  Hypothesis escape_is_string : forall s, is_jstr (escape s) = true.

  Definition with_client_strings (f : sess) (user host ver via : list Z) (names : list (list Z)) (proxies : list (list Z * list Z)) : sess :=
    Build_sess (j_id f) (j_hash f) (j_channel f) (j_full f) (escape user) (escape host) (escape ver) (j_arch f) (j_os f)
      (j_elev f) (j_caps f) (j_domain f) (j_pid f) (j_ppid f)
      (map (fun dn => Build_netdev (escape (snd dn)) (n_mac (fst dn)) (n_ips (fst dn))) (combine (j_net f) names))
      (j_created f) (j_last f) (escape via) (j_sleep f) (j_jitter f) (j_kill f) (j_work f) (j_cname f) (j_conn f)
      (map (fun p => (escape (fst p), escape (snd p))) proxies).

  Theorem session_json_wf_any_strings f user host ver via names proxies :
    sess_okb f = true -> json_wf (session_json (with_client_strings f user host ver via names proxies)).
  Proof.
    intros H. apply session_json_wf. unfold sess_okb in *. repeat (apply andb_prop in H; destruct H as [H ?]).
    unfold with_client_strings. cbn [j_id j_hash j_channel j_full j_user j_host j_ver j_arch j_os j_elev j_caps j_domain j_pid j_ppid
      j_net j_created j_last j_via j_sleep j_jitter j_kill j_work j_cname j_conn j_proxies].
    rewrite !escape_is_string.
    repeat (apply andb_true_intro; split); try assumption; try reflexivity.
    - (* devices: names are escaped, the rest keeps its contract *)
      match goal with Hn : forallb netdev_okb (j_net f) = true |- _ => revert Hn end.
      generalize (j_net f). intros l. revert names. induction l as [|d l IH]; intros names Hl; [reflexivity|].
      destruct names as [|n names]; [reflexivity|]. cbn [combine map forallb] in *.
      apply andb_prop in Hl. destruct Hl as [Hd Hl]. rewrite (IH names Hl).
      unfold netdev_okb in *. cbn [n_name n_mac n_ips fst snd]. rewrite escape_is_string.
      apply andb_prop in Hd. destruct Hd as [Hd Hi]. apply andb_prop in Hd. destruct Hd as [_ Hm]. rewrite Hm, Hi. reflexivity.
    - induction proxies as [|p l IH]; [reflexivity|]. cbn [map forallb fst snd]. rewrite !escape_is_string, IH. reflexivity.
  Qed.
End EscapeContract.
