(* Proofs/Batch.v -- lemmas about Model/Batch.v (C03: batching of queued packets).
   Layout:
     1. record bookkeeping (tags / device never influence what the peer does with a packet)
     2. the receiving side: a well-formed transmission is processed packet by packet
     3. the loop of nextPacket (np_loop): structure, flags, budget
     4. nextPacket and Session.next: one transmission
     5. draining: induction over the number of transmissions
     6. mergeTags, the abandoned group, the keep-alive-only observation *)
From XMT Require Import Base.Prelude Base.BitLemmas Model.Batch.
From Coq Require Import ZifyBool.
Ltac Zify.zify_post_hook ::= Z.div_mod_to_equations.

Local Open Scope Z_scope.

(* ------------------------------------------------------------------ 1. bookkeeping *)

(* what write_unpack and the peer need of a queued packet (weaker than queueable: no condition on
   tags, job number or length) *)
Definition packable (p : packet) : bool :=
  negb (f_multi (p_fl p)) && negb (f_mdev (p_fl p)) && negb (f_oneshot (p_fl p)) &&
  (negb (f_frag (p_fl p)) || (1 <=? f_len (p_fl p)) || (p_id p =? SvDrop) || (p_id p =? SvRegister)).

Definition nonnop (l : list packet) : list packet := filter (fun p => negb (is_nop p)) l.
(* what the peer does with a packet that arrives at the session of its device *)
Definition direct' (p : packet) : list dlv := fst (handle (p_dev p) p).
Definition optl {A} (o : option A) : list A := match o with Some x => [x] | None => [] end.
(* Session.next replaces the tags of the packet it picked when a proxy is active *)
Definition retag (c : conf) (p : packet) : packet :=
  match c_ptags c with Some t => set_tags p t | None => p end.

Lemma queueable_packable p : queueable p = true -> packable p = true.
Proof.
  unfold queueable, packable. intro H.
  repeat (apply andb_prop in H; destruct H as [H ?]).
  repeat (apply andb_true_intro; split); assumption.
Qed.

Lemma queueable_len p : queueable p = true -> 0 <= p_len p.
Proof.
  unfold queueable. intro H. apply andb_prop in H. destruct H as [_ H]. lia.
Qed.

Lemma is_nop_set_tags p t : is_nop (set_tags p t) = is_nop p.
Proof. reflexivity. Qed.
Lemma is_nop_set_dev p d : is_nop (set_dev p d) = is_nop p.
Proof. reflexivity. Qed.
Lemma is_nop_norm i p : is_nop (norm i p) = is_nop p.
Proof. unfold norm. destruct (p_dev p =? 0); reflexivity. Qed.
Lemma is_nop_untag p : is_nop (untag p) = is_nop p.
Proof. reflexivity. Qed.
Lemma packable_set_tags p t : packable (set_tags p t) = packable p.
Proof. reflexivity. Qed.
Lemma packable_norm i p : packable (norm i p) = packable p.
Proof. unfold norm. destruct (p_dev p =? 0); reflexivity. Qed.
Lemma is_own_set_tags i p t : is_own i (set_tags p t) = is_own i p.
Proof. reflexivity. Qed.
Lemma psize_norm i p : psize (norm i p) = psize p.
Proof. unfold norm. destruct (p_dev p =? 0); reflexivity. Qed.
Lemma p_tags_norm i p : p_tags (norm i p) = p_tags p.
Proof. unfold norm. destruct (p_dev p =? 0); reflexivity. Qed.
Lemma p_fl_norm i p : p_fl (norm i p) = p_fl p.
Proof. unfold norm. destruct (p_dev p =? 0); reflexivity. Qed.
Lemma norm_set_tags i p t : norm i (set_tags p t) = set_tags (norm i p) t.
Proof. unfold norm. cbn [set_tags p_dev]. destruct (p_dev p =? 0); reflexivity. Qed.
Lemma untag_set_tags p t : untag (set_tags p t) = untag p.
Proof. reflexivity. Qed.
Lemma untag_norm i p : untag (norm i p) = norm i (untag p).
Proof. unfold untag. symmetry. apply norm_set_tags. Qed.

Lemma norm_own_dev i p : is_own i p = true -> p_dev (norm i p) = i.
Proof.
  unfold is_own, norm. destruct (p_dev p =? 0) eqn:E; cbn [set_dev p_dev]; [reflexivity|].
  rewrite orb_false_l. lia.
Qed.
Lemma norm_dev_nz i p : i <> 0 -> p_dev (norm i p) <> 0.
Proof. unfold norm. destruct (p_dev p =? 0) eqn:E; cbn [set_dev p_dev]; lia. Qed.
Lemma norm_foreign i p : is_own i p = false -> norm i p = p.
Proof. unfold is_own, norm. destruct (p_dev p =? 0); [discriminate|reflexivity]. Qed.
Lemma norm_idem i p : i <> 0 -> norm i (norm i p) = norm i p.
Proof.
  intro Hi. unfold norm at 1. pose proof (norm_dev_nz i p Hi).
  destruct (p_dev (norm i p) =? 0) eqn:E; [lia|reflexivity].
Qed.
Lemma retag_untag_norm c i p : untag (norm i (retag c p)) = untag (norm i p).
Proof. unfold retag. destruct (c_ptags c); [|reflexivity]. rewrite norm_set_tags. reflexivity. Qed.
Lemma is_own_retag c i p : is_own i (retag c p) = is_own i p.
Proof. unfold retag. destruct (c_ptags c); reflexivity. Qed.
Lemma is_nop_retag c p : is_nop (retag c p) = is_nop p.
Proof. unfold retag. destruct (c_ptags c); reflexivity. Qed.
Lemma packable_retag c p : packable (retag c p) = packable p.
Proof. unfold retag. destruct (c_ptags c); reflexivity. Qed.
Lemma p_fl_retag c p : p_fl (retag c p) = p_fl p.
Proof. unfold retag. destruct (c_ptags c); reflexivity. Qed.
Lemma p_dev_retag c p : p_dev (retag c p) = p_dev p.
Proof. unfold retag. destruct (c_ptags c); reflexivity. Qed.

(* the peer never looks at the tags of a packet *)
Definition retag_d (t : list Z) (d : dlv) : dlv := mkD (d_sid d) (set_tags (d_pkt d) t).

Lemma handle_pre_tags sid p t :
  handle_pre sid (set_tags p t) = handle_pre sid p.
Proof. reflexivity. Qed.

Lemma handle_body_tags sid p t :
  handle_body sid (set_tags p t) = (map (retag_d t) (fst (handle_body sid p)), snd (handle_body sid p)).
Proof.
  unfold handle_body. cbn [set_tags p_fl p_id].
  repeat match goal with |- context [if ?b then _ else _] => destruct b end; reflexivity.
Qed.

Lemma handle_tags sid p t :
  handle sid (set_tags p t) = (map (retag_d t) (fst (handle sid p)), snd (handle sid p)).
Proof.
  unfold handle. rewrite handle_pre_tags.
  destruct (handle_pre sid p) as [[d e]|] eqn:E.
  - unfold handle_pre in E.
    repeat match type of E with context [if ?b then _ else _] => destruct b end;
      inversion E; reflexivity.
  - change (single_frag (set_tags p t)) with (single_frag p).
    destruct (single_frag p).
    + change (set_fl (set_tags p t) (fl_clear (p_fl (set_tags p t))))
        with (set_tags (set_fl p (fl_clear (p_fl p))) t).
      rewrite handle_pre_tags.
      destruct (handle_pre sid (set_fl p (fl_clear (p_fl p)))) as [[d e]|] eqn:E2.
      * unfold handle_pre in E2.
        repeat match type of E2 with context [if ?b then _ else _] => destruct b end;
          inversion E2; reflexivity.
      * apply handle_body_tags.
    + apply handle_body_tags.
Qed.

Lemma untag_retag_d d : untag_d d = retag_d [] d.
Proof. reflexivity. Qed.

Lemma handle_untag sid p :
  map untag_d (fst (handle sid p)) = fst (handle sid (untag p)) /\ snd (handle sid p) = snd (handle sid (untag p)).
Proof.
  unfold untag. rewrite handle_tags. cbn [fst snd]. split; [|reflexivity].
  apply map_ext. intro d. apply untag_retag_d.
Qed.

Lemma handle_nop sid p : is_nop p = true -> handle sid p = ([], 0).
Proof.
  intro H. unfold handle, handle_pre. rewrite H, orb_true_r. reflexivity.
Qed.

Lemma direct'_nop p : is_nop p = true -> direct' p = [].
Proof. intro H. unfold direct'. rewrite handle_nop by assumption. reflexivity. Qed.

Lemma flat_map_direct'_nonnop l : flat_map direct' (nonnop l) = flat_map direct' l.
Proof.
  induction l as [|p l IH]; [reflexivity|]. cbn [nonnop filter flat_map].
  destruct (is_nop p) eqn:E; cbn [negb].
  - rewrite direct'_nop by assumption. exact IH.
  - cbn [flat_map]. f_equal. exact IH.
Qed.

Lemma direct_direct' i p : direct i p = direct' (untag (norm i p)).
Proof. reflexivity. Qed.

Lemma flat_map_direct i l : flat_map (direct i) l = flat_map direct' (map (fun p => untag (norm i p)) l).
Proof.
  induction l as [|p l IH]; [reflexivity|]. cbn [flat_map map]. rewrite IH. reflexivity.
Qed.

(* a packet that arrives at the session of its own device never produces an error *)
Lemma handle_body_no_err sid p :
  packable p = true -> snd (handle_body sid p) = 0.
Proof.
  unfold packable, handle_body. intro H.
  repeat (apply andb_prop in H; destruct H as [H ?]).
  repeat match goal with |- context [if ?b then _ else _] => destruct b eqn:? end;
    cbn [snd]; try reflexivity.
  exfalso. cbn [negb orb] in *. lia.
Qed.

Lemma handle_no_err p :
  p_dev p <> 0 -> packable p = true -> snd (handle (p_dev p) p) = 0.
Proof.
  intros Hd Hp. unfold handle, handle_pre.
  destruct ((p_dev p =? 0) || is_nop p) eqn:E1; [reflexivity|].
  rewrite Z.eqb_refl. cbn [negb]. rewrite andb_false_r.
  destruct (single_frag p) eqn:Es.
  - cbn [set_fl p_dev]. rewrite Z.eqb_refl. cbn [negb]. rewrite andb_false_r.
    match goal with |- context [if ?b then _ else _] => destruct b end; [reflexivity|].
    unfold handle_body. cbn [set_fl p_fl p_id fl_clear f_frag f_oneshot f_multi f_crypt f_len].
    unfold single_frag in Es.
    repeat (apply andb_prop in Es; destruct Es as [Es ?]).
    rewrite Es. cbn [negb].
    repeat match goal with |- context [if ?b then _ else _] => destruct b end; reflexivity.
  - apply handle_body_no_err. exact Hp.
Qed.

(* an ordinary data packet reaches the handlers of its device unchanged *)
Lemma direct_plain i p :
  i <> 0 -> queueable p = true -> plain p = true -> is_nop p = false -> direct i p = [to_own i p].
Proof.
  intros Hi Hq Hpl Hn. unfold direct, to_own.
  set (v := untag (norm i p)).
  assert (Hv : p_dev v <> 0) by (apply (norm_dev_nz i p Hi)).
  assert (Hnv : is_nop v = false) by (subst v; rewrite is_nop_untag, is_nop_norm; exact Hn).
  assert (Hfl : p_fl v = p_fl p) by (subst v; cbn [untag set_tags p_fl]; apply p_fl_norm).
  assert (Hid : p_id v = p_id p) by (subst v; unfold norm; destruct (p_dev p =? 0); reflexivity).
  change (p_dev (norm i p)) with (p_dev v).
  unfold handle, handle_pre. rewrite Hnv.
  replace (p_dev v =? 0) with false by lia. cbn [orb].
  rewrite Z.eqb_refl. cbn [negb]. rewrite andb_false_r.
  unfold queueable in Hq. unfold plain in Hpl.
  repeat (apply andb_prop in Hq; destruct Hq as [Hq ?]).
  apply andb_prop in Hpl. destruct Hpl as [Hp1 Hp2].
  assert (Hsf : single_frag v = false).
  { unfold single_frag. rewrite Hfl, Hid.
    destruct (f_frag (p_fl p)) eqn:Ef; [|reflexivity]. cbn [negb orb andb] in Hp2.
    replace (f_len (p_fl p) =? 1) with false by lia. repeat rewrite andb_false_r. reflexivity. }
  rewrite Hsf. unfold handle_body. rewrite Hfl, Hid.
  destruct (f_oneshot (p_fl p)); [discriminate|].
  destruct ((p_id p =? SvComplete) && negb (f_crypt (p_fl p))); [discriminate|].
  destruct (f_multi (p_fl p)); [discriminate|].
  destruct (f_frag (p_fl p)) eqn:Ef; [|reflexivity].
  cbn [negb orb andb] in Hp2.
  replace (p_id p =? SvDrop) with false by lia.
  replace (p_id p =? SvRegister) with false by lia.
  replace (f_len (p_fl p) =? 0) with false by lia. reflexivity.
Qed.

(* ------------------------------------------------------------------ 2. the receiving side *)

Definition in_ok (reg : Z -> bool) (i : Z) (v : packet) : Prop :=
  packable v = true /\ p_dev v <> 0 /\ (p_dev v = i \/ reg (p_dev v) = true).

(* what Session.next may hand to the wire *)
Definition wf_tx (reg : Z -> bool) (i : Z) (t : tx) : Prop :=
  match t with
  | TSingle p => p_dev p = i /\ packable p = true
  | TMulti o => c_dev o = i /\ f_len (c_fl o) = len (c_in o) /\ len (c_in o) < 65536 /\
                Forall (in_ok reg i) (c_in o) /\
                (f_mdev (c_fl o) = false -> Forall (fun v => p_dev v = i) (c_in o))
  end.

Lemma map_flat_map {A B C} (g : B -> C) (f : A -> list B) l :
  map g (flat_map f l) = flat_map (fun x => map g (f x)) l.
Proof.
  induction l as [|x l IH]; [reflexivity|]. cbn [flat_map]. rewrite map_app, IH. reflexivity.
Qed.

Lemma flat_map_map {A B C} (g : A -> B) (f : B -> list C) l :
  flat_map f (map g l) = flat_map (fun x => f (g x)) l.
Proof.
  induction l as [|x l IH]; [reflexivity|]. cbn [flat_map map]. rewrite IH. reflexivity.
Qed.

Lemma to_nat_len {A} (l : list A) : Z.to_nat (len l) = length l.
Proof. unfold len. apply Nat2Z.id. Qed.

Lemma len_zero_nil {A} (l : list A) : len l = 0 -> l = [].
Proof. destruct l; [reflexivity|]. rewrite len_cons. pose proof (len_nonneg l). lia. Qed.

Lemma recv_inner_spec hid inner :
  hid <> 0 -> Forall (fun v => packable v = true /\ p_dev v = hid) inner ->
  recv_inner hid (length inner) inner = (flat_map (fun v => fst (handle hid v)) inner, 0).
Proof.
  intros Hh H. induction H as [|v l [Hp Hd] _ IH]; [reflexivity|].
  cbn [length recv_inner flat_map].
  pose proof (handle_no_err v) as Hn. rewrite Hd in Hn. specialize (Hn Hh Hp).
  destruct (handle hid v) as [d e]. cbn [snd fst] in *. subst e. cbn [Z.eqb].
  rewrite IH. reflexivity.
Qed.

Lemma proc_multi_spec reg hid inner :
  Forall (in_ok reg hid) inner ->
  proc_multi reg hid (length inner) inner = (flat_map (fun v => direct' (untag v)) inner, 0).
Proof.
  intro H. induction H as [|v l [Hp [Hd Hr]] _ IH]; [reflexivity|].
  cbn [length proc_multi flat_map].
  replace (p_dev v =? 0) with false by lia.
  assert (Hpu : packable (untag v) = true) by exact Hp.
  pose proof Hpu as Hpu'. unfold packable in Hpu'.
  repeat (apply andb_prop in Hpu'; destruct Hpu' as [Hpu' ?]).
  destruct (f_multi (p_fl (untag v))); [discriminate|].
  destruct (f_mdev (p_fl (untag v))); [discriminate|].
  destruct (f_oneshot (p_fl (untag v))); [discriminate|]. cbn [orb].
  change (p_dev (untag v)) with (p_dev v).
  assert (He : snd (handle (p_dev v) (untag v)) = 0) by (apply (handle_no_err (untag v)); assumption).
  destruct (hid =? p_dev v) eqn:E.
  - assert (hid = p_dev v) by lia. subst hid. cbn [Z.eqb]. rewrite IH. reflexivity.
  - assert (Hreg : reg (p_dev v) = true) by (destruct Hr; [lia|assumption]). rewrite Hreg.
    unfold direct'. change (p_dev (untag v)) with (p_dev v).
    destruct (handle (p_dev v) (untag v)) as [d e]. cbn [snd fst] in *. subst e. cbn [Z.eqb].
    rewrite IH. reflexivity.
Qed.

Lemma direct'_untag_idem v : map untag_d (direct' (untag v)) = direct' (untag v).
Proof.
  unfold direct'. destruct (handle_untag (p_dev (untag v)) (untag v)) as [H _]. exact H.
Qed.

Lemma recv_tx_spec reg i t :
  i <> 0 -> wf_tx reg i t ->
  map untag_d (fst (recv_tx reg i t)) = flat_map direct' (map untag (tx_packets t)) /\
  (snd (recv_tx reg i t) = 0 \/
   (snd (recv_tx reg i t) = E_COUNT /\ fst (recv_tx reg i t) = [] /\ exists o, t = TMulti o /\ c_in o = [])).
Proof.
  intros Hi Hw. destruct t as [p|o]; cbn [wf_tx tx_packets recv_tx] in *.
  - destruct Hw as [Hd Hp].
    assert (Hm : f_mdev (p_fl p) = false).
    { unfold packable in Hp. repeat (apply andb_prop in Hp; destruct Hp as [Hp ?]).
      destruct (f_mdev (p_fl p)); [discriminate|reflexivity]. }
    rewrite Hm. destruct (handle_untag i p) as [H1 H2]. split.
    + rewrite H1. cbn [map flat_map]. rewrite app_nil_r. unfold direct'.
      change (p_dev (untag p)) with (p_dev p). rewrite Hd. reflexivity.
    + left. pose proof (handle_no_err p) as Hn. rewrite Hd in Hn. apply Hn; assumption.
  - destruct Hw as [Hd [Hl [Hb [Hall Hown]]]].
    destruct (f_mdev (c_fl o)) eqn:Em.
    + destruct (f_len (c_fl o) =? 0) eqn:E0.
      * assert (c_in o = []) by (apply len_zero_nil; lia).
        split; [rewrite H; reflexivity|]. right. cbn [snd fst].
        split; [reflexivity|]. split; [reflexivity|]. exists o. split; [reflexivity|assumption].
      * rewrite Hl, to_nat_len, proc_multi_spec by assumption. cbn [fst snd]. split; [|left; reflexivity].
        rewrite map_flat_map, flat_map_map. apply flat_map_ext. intro v. apply direct'_untag_idem.
    + rewrite Hd. replace (i =? 0) with false by lia. rewrite Z.eqb_refl. cbn [negb].
      destruct (f_len (c_fl o) =? 0) eqn:E0.
      * assert (c_in o = []) by (apply len_zero_nil; lia).
        split; [rewrite H; reflexivity|]. right. cbn [snd fst].
        split; [reflexivity|]. split; [reflexivity|]. exists o. split; [reflexivity|assumption].
      * specialize (Hown eq_refl).
        rewrite Hl, to_nat_len, recv_inner_spec; [|assumption|].
        2:{ rewrite Forall_forall in *. intros v Hv. split; [apply (Hall v Hv)|apply (Hown v Hv)]. }
        cbn [fst snd]. split; [|left; reflexivity].
        rewrite map_flat_map, flat_map_map.
        rewrite Forall_forall in Hown.
        clear - Hown. induction (c_in o) as [|v l IH]; [reflexivity|]. cbn [flat_map].
        rewrite IH by (intros x Hx; apply Hown; right; exact Hx). f_equal.
        destruct (handle_untag i v) as [H1 _]. rewrite H1. unfold direct'.
        change (p_dev (untag v)) with (p_dev v). rewrite (Hown v (or_introl eq_refl)). reflexivity.
Qed.

(* ------------------------------------------------------------------ 3. the loop of nextPacket *)

Lemma packable_not_cont p : packable p = true -> is_cont p = false.
Proof.
  unfold packable, is_cont. intro H. repeat (apply andb_prop in H; destruct H as [H ?]).
  destruct (f_multi (p_fl p)); [discriminate|]. destruct (f_mdev (p_fl p)); [discriminate|reflexivity].
Qed.

Lemma write_unpack_packable o src :
  packable src = true ->
  write_unpack o src =
  mkC (c_dev o) (set_multi (or_chan (set_len (c_fl o) (f_len (c_fl o) + 1)) (f_chan (p_fl src))))
      (c_tags o ++ p_tags src) (c_in o ++ [src]).
Proof. intro H. unfold write_unpack. rewrite (packable_not_cont _ H). reflexivity. Qed.

(* a queued item: an ordinary packet, or a container that counts the packets it holds *)
Definition item_packable (p : packet) : Prop :=
  packable p = true \/ (is_cont p = true /\ 1 <= f_len (p_fl p) /\ f_len (p_fl p) = len (p_in p)).
(* the tags writeUnpack takes over from an item (none from a spliced container) *)
Definition wtags (p : packet) : list Z := if is_cont p then [] else p_tags p.
(* the number of packets a list of items holds *)
Definition cnt (l : list packet) : Z := len (flat_map expand l).

Lemma is_cont_norm i p : is_cont (norm i p) = is_cont p.
Proof. unfold is_cont. rewrite p_fl_norm. reflexivity. Qed.
Lemma p_in_norm i p : p_in (norm i p) = p_in p.
Proof. unfold norm. destruct (p_dev p =? 0); reflexivity. Qed.
Lemma expand_norm i p : expand (norm i p) = if is_cont p then p_in p else [norm i p].
Proof. unfold expand. rewrite is_cont_norm, p_in_norm. reflexivity. Qed.
Lemma expand_plain p : is_cont p = false -> expand p = [p].
Proof. intro H. unfold expand. rewrite H. reflexivity. Qed.
Lemma len_expand_norm i p : len (expand (norm i p)) = len (expand p).
Proof. rewrite expand_norm. unfold expand. destruct (is_cont p); reflexivity. Qed.
Lemma wtags_norm i p : wtags (norm i p) = wtags p.
Proof. unfold wtags. rewrite is_cont_norm, p_tags_norm. reflexivity. Qed.
Lemma item_packable_norm i p : item_packable p -> item_packable (norm i p).
Proof.
  unfold item_packable. rewrite packable_norm, is_cont_norm, p_fl_norm, p_in_norm. exact (fun h => h).
Qed.
Lemma cnt_cons p l : cnt (p :: l) = len (expand p) + cnt l.
Proof. unfold cnt. cbn [flat_map]. apply len_app. Qed.
Lemma cnt_nonneg l : 0 <= cnt l.
Proof. apply len_nonneg. Qed.
Lemma cnt_firstn_le f l : cnt (firstn f l) <= cnt l.
Proof.
  revert f. induction l as [|p l IH]; intro f; destruct f; cbn [firstn]; try (unfold cnt; cbn; lia).
  - rewrite cnt_cons. pose proof (cnt_nonneg l). pose proof (len_nonneg (expand p)). unfold cnt at 1. cbn. lia.
  - rewrite !cnt_cons. specialize (IH f). lia.
Qed.
Lemma cnt_plain_firstn f l : Forall (fun p => is_cont p = false) l -> cnt (firstn f l) <= Z.of_nat f.
Proof.
  revert f. induction l as [|p l IH]; intros f H; destruct f; cbn [firstn]; try (unfold cnt; cbn; lia).
  inversion H; subst. rewrite cnt_cons, expand_plain by assumption. specialize (IH f H3).
  change (len [p]) with 1. lia.
Qed.

Lemma set_flags_mdev f n b :
  f_mdev (set_multi (or_chan (set_len f n) b)) = f_mdev f.
Proof. reflexivity. Qed.
Lemma set_flags_len f n b :
  f_len (set_multi (or_chan (set_len f n) b)) = u16 n.
Proof. reflexivity. Qed.

(* writeUnpack appends what the item holds: one packet, or the packets of a spliced container *)
Lemma write_unpack_gen o src :
  item_packable src -> f_len (c_fl o) = len (c_in o) -> len (c_in o) + len (expand src) <= 65535 ->
  c_dev (write_unpack o src) = c_dev o /\
  c_in (write_unpack o src) = c_in o ++ expand src /\
  c_tags (write_unpack o src) = c_tags o ++ wtags src /\
  f_mdev (c_fl (write_unpack o src)) = f_mdev (c_fl o) /\
  f_len (c_fl (write_unpack o src)) = len (c_in (write_unpack o src)).
Proof.
  intros [Hp|[Hc [H1 H2]]] Hl Hb; pose proof (len_nonneg (c_in o)) as Hn.
  - rewrite (write_unpack_packable o src Hp). pose proof (packable_not_cont _ Hp) as Hc.
    unfold wtags. rewrite (expand_plain _ Hc) in *. rewrite Hc. cbn [c_dev c_in c_tags c_fl].
    rewrite set_flags_mdev, set_flags_len, Hl, len_app. change (len [src]) with 1 in *.
    repeat split. apply u16_small. lia.
  - unfold write_unpack, wtags, expand in *. rewrite Hc in *.
    replace (f_len (p_fl src) =? 0) with false by lia.
    replace (FRAG_MAX <? f_len (p_fl src) + f_len (c_fl o)) with false by (unfold FRAG_MAX; lia).
    cbn [c_dev c_in c_tags c_fl set_len f_mdev f_len]. rewrite app_nil_r, len_app, Hl, H2.
    repeat split. apply u16_small. pose proof (len_nonneg (p_in src)). lia.
Qed.

Lemma nonnop_cons_nop p l : is_nop p = true -> nonnop (p :: l) = nonnop l.
Proof. intro H. unfold nonnop. cbn [filter]. rewrite H. reflexivity. Qed.

Lemma nonnop_cons_eq p a b : nonnop a = nonnop b -> nonnop (p :: a) = nonnop (p :: b).
Proof. intro H. unfold nonnop in *. cbn [filter]. destruct (negb (is_nop p)); [f_equal|]; exact H. Qed.

Lemma nonnop_app a b : nonnop (a ++ b) = nonnop a ++ nonnop b.
Proof. apply filter_app. Qed.

(* an own item contributes packets of our own device only *)
Definition own_items (i : Z) (l : list packet) : Prop :=
  Forall (fun p => is_own i p = true -> Forall (fun v => p_dev v = i) (expand (norm i p))) l.

(* structure: what the loop consumes (used), what it packs (kept), what it leaves; the count and
   the multi-device bit of the container *)
Lemma np_loop_struct F i : forall fuel l s m o o' k rest,
  np_loop F i fuel l s m o = (o', k, rest) ->
  Forall item_packable l -> own_items i l ->
  f_mdev (c_fl o) = m -> (m = false -> Forall (fun v => p_dev v = i) (c_in o)) ->
  f_len (c_fl o) = len (c_in o) -> len (c_in o) + cnt (firstn fuel l) <= 65535 ->
  exists used kept,
    l = used ++ optl k ++ rest /\
    c_in o' = c_in o ++ flat_map expand (map (norm i) kept) /\
    c_tags o' = c_tags o ++ flat_map wtags kept /\
    c_dev o' = c_dev o /\
    nonnop kept = nonnop used /\
    incl kept used /\
    (length kept <= fuel)%nat /\
    ((0 <? s) = false -> fuel <> O -> l <> [] -> used <> []) /\
    f_len (c_fl o') = len (c_in o') /\
    (f_mdev (c_fl o') = false -> Forall (fun v => p_dev v = i) (c_in o')) /\
    len (c_in o') <= len (c_in o) + cnt (firstn fuel l).
Proof.
  induction fuel as [|f IH]; intros l s m o o' k rest H Hp Hoi Hm Hown Hl Hb.
  - cbn [np_loop] in H. inversion H; subst. exists [], []. cbn [optl app map flat_map].
    repeat rewrite app_nil_r. repeat split; try reflexivity; try (intros x Hx; exact Hx); try lia;
      try (intros; congruence); try assumption; try (unfold cnt; cbn; lia).
  - destruct l as [|n r].
    + cbn [np_loop] in H. inversion H; subst. exists [], []. cbn [optl app map flat_map].
      repeat rewrite app_nil_r. repeat split; try reflexivity; try (intros x Hx; exact Hx); try (cbn; lia);
        try (intros; congruence); try assumption; try (unfold cnt; cbn; lia).
    + cbn [np_loop] in H. inversion Hp as [|? ? Hn Hr]; subst. inversion Hoi as [|? ? Hon Hor]; subst.
      cbn [firstn] in Hb. rewrite cnt_cons in Hb.
      pose proof (cnt_nonneg (firstn f r)) as Hc0. pose proof (len_nonneg (expand n)) as Hc1.
      destruct (is_nop n && (((0 <? s) && negb (f_mdev (c_fl o))) || is_own i n)) eqn:E1.
      * apply andb_prop in E1. destruct E1 as [En _].
        destruct (IH _ _ _ _ _ _ _ H Hr Hor eq_refl Hown Hl ltac:(lia))
          as [used [kept [H1 [H2 [H3 [H4 [H5 [H6 [H7 [_ [H9 [H10 H11]]]]]]]]]]]].
        exists (n :: used), kept. repeat split; try assumption.
        -- rewrite H1. reflexivity.
        -- rewrite nonnop_cons_nop by assumption. exact H5.
        -- intros x Hx. right. apply H6. exact Hx.
        -- lia.
        -- intros _ _ _ Hc. discriminate.
        -- cbn [firstn]. rewrite cnt_cons. lia.
      * destruct ((0 <? s) && (F <? s + psize n)) eqn:E2.
        -- inversion H; subst. exists [], []. cbn [optl app map flat_map].
           repeat rewrite app_nil_r. repeat split; try reflexivity; try (intros x Hx; exact Hx); try (cbn; lia);
             try (intros Hs; rewrite Hs in E2; discriminate); try assumption;
             try (cbn [firstn]; rewrite cnt_cons; lia).
        -- set (m := f_mdev (c_fl o)) in *.
           set (md := negb (is_own i n) && negb m) in *.
           set (o1 := if md then mkC (c_dev o) (set_mdev (c_fl o)) (c_tags o) (c_in o) else o) in *.
           assert (Ho1 : c_in o1 = c_in o /\ c_tags o1 = c_tags o /\ c_dev o1 = c_dev o /\
                         f_len (c_fl o1) = f_len (c_fl o) /\ f_mdev (c_fl o1) = m || md).
           { subst o1. destruct md eqn:Emd; cbn [c_in c_tags c_dev c_fl set_mdev f_len f_mdev];
               repeat split; try reflexivity; [rewrite orb_true_r|rewrite orb_false_r]; reflexivity. }
           destruct Ho1 as [Ha [Hb1 [Hc [Hd He]]]].
           assert (Hpn : item_packable (norm i n)) by (apply item_packable_norm; exact Hn).
           assert (Hl1 : f_len (c_fl o1) = len (c_in o1)) by (rewrite Hd, Ha; exact Hl).
           assert (Hb2 : len (c_in o1) + len (expand (norm i n)) <= 65535) by (rewrite Ha, len_expand_norm; lia).
           destruct (write_unpack_gen o1 (norm i n) Hpn Hl1 Hb2) as [W1 [W2 [W3 [W4 W5]]]].
           set (o2 := write_unpack o1 (norm i n)) in *.
           assert (A1 : f_mdev (c_fl o2) = m || md) by (rewrite W4; exact He).
           assert (A3 : m || md = false -> Forall (fun v => p_dev v = i) (c_in o2)).
           { intro Hf. apply orb_false_elim in Hf. destruct Hf as [Hf1 Hf2]. rewrite W2, Ha.
             apply Forall_app. split; [apply Hown; exact Hf1|]. apply Hon.
             subst md. rewrite Hf1 in Hf2. cbn [negb] in Hf2. rewrite andb_true_r in Hf2.
             destruct (is_own i n); [reflexivity|discriminate]. }
           assert (A4 : len (c_in o2) + cnt (firstn f r) <= 65535).
           { rewrite W2, len_app, Ha, len_expand_norm. lia. }
           destruct (IH _ _ _ _ _ _ _ H Hr Hor A1 A3 W5 A4)
             as [used [kept [H1 [H2 [H3 [H4 [H5 [H6 [H7 [_ [H9 [H10 H11]]]]]]]]]]]].
           exists (n :: used), (n :: kept). repeat split; try assumption.
           ++ rewrite H1. reflexivity.
           ++ rewrite H2, W2, Ha. cbn [map flat_map]. rewrite <- app_assoc. reflexivity.
           ++ rewrite H3, W3, Hb1, wtags_norm. cbn [flat_map]. rewrite <- app_assoc. reflexivity.
           ++ rewrite H4, W1. exact Hc.
           ++ apply nonnop_cons_eq. exact H5.
           ++ intros x [Hx|Hx]; [left; exact Hx|right; apply H6; exact Hx].
           ++ cbn [length]. lia.
           ++ intros _ _ _ Hc'. discriminate.
           ++ cbn [firstn]. rewrite cnt_cons. rewrite W2, len_app, Ha, len_expand_norm in H11. lia.
Qed.

(* ordinary packets as items *)
Lemma plain_items i l :
  Forall (fun p => packable p = true) l ->
  Forall item_packable l /\ own_items i l /\ Forall (fun p => is_cont p = false) l.
Proof.
  intro H. unfold own_items. repeat split; rewrite Forall_forall in *; intros p Hp; specialize (H p Hp).
  - left. exact H.
  - intro Ho. rewrite expand_norm, (packable_not_cont _ H). constructor; [|constructor].
    apply norm_own_dev. exact Ho.
  - apply packable_not_cont. exact H.
Qed.

Lemma flat_map_expand_plain i l :
  Forall (fun p => is_cont p = false) l -> flat_map expand (map (norm i) l) = map (norm i) l.
Proof.
  intro H. induction H as [|p l Hp _ IH]; [reflexivity|]. cbn [map flat_map].
  rewrite expand_norm, Hp, IH. reflexivity.
Qed.
Lemma flat_map_wtags_plain l :
  Forall (fun p => is_cont p = false) l -> flat_map wtags l = flat_map p_tags l.
Proof.
  intro H. induction H as [|p l Hp _ IH]; [reflexivity|]. cbn [flat_map]. unfold wtags at 1. rewrite Hp, IH. reflexivity.
Qed.

Lemma psize_pos p : 0 <= p_len p -> 0 < psize p.
Proof.
  intro H. unfold psize, len_prefix, HDR, LimitSmall, LimitMedium, LimitLarge.
  pose proof (len_nonneg (p_tags p)).
  repeat match goal with |- context [if ?b then _ else _] => destruct b end; lia.
Qed.

Lemma sum_size_app a b : sum_size (a ++ b) = sum_size a + sum_size b.
Proof.
  induction a as [|x a IH]; [reflexivity|]. cbn [app]. unfold sum_size in *. cbn [fold_right]. rewrite IH. lia.
Qed.

Lemma sum_size_zero l : Forall (fun v => 0 < psize v) l -> sum_size l <= 0 -> l = [].
Proof.
  intros H. destruct H as [|x l Hx Hl]; [reflexivity|].
  unfold sum_size. cbn [fold_right]. intro Hs. exfalso.
  assert (0 <= fold_right (fun p a => psize p + a) 0 l).
  { clear - Hl. induction Hl; cbn [fold_right]; lia. }
  lia.
Qed.

(* the size budget: either the running Size() sum is within limits.Frag or there is one packet *)
Lemma np_loop_budget F i : forall fuel l s m o o' k rest,
  np_loop F i fuel l s m o = (o', k, rest) ->
  Forall (fun p => packable p = true /\ 0 <= p_len p) l ->
  s = sum_size (c_in o) -> Forall (fun v => 0 < psize v) (c_in o) ->
  (sum_size (c_in o) <= F \/ len (c_in o) <= 1) ->
  (sum_size (c_in o') <= F \/ len (c_in o') <= 1).
Proof.
  induction fuel as [|f IH]; intros l s m o o' k rest H Hp Hs Hpos Hb.
  - cbn [np_loop] in H. inversion H; subst. assumption.
  - destruct l as [|n r].
    + cbn [np_loop] in H. inversion H; subst. assumption.
    + cbn [np_loop] in H. inversion Hp as [|? ? [Hn Hln] Hr]; subst s.
      destruct (is_nop n && (((0 <? sum_size (c_in o)) && negb m) || is_own i n)).
      * exact (IH _ _ _ _ _ _ _ H Hr eq_refl Hpos Hb).
      * destruct ((0 <? sum_size (c_in o)) && (F <? sum_size (c_in o) + psize n)) eqn:E2.
        -- inversion H; subst. assumption.
        -- set (md := negb (is_own i n) && negb m) in *.
           set (o1 := if md then mkC (c_dev o) (set_mdev (c_fl o)) (c_tags o) (c_in o) else o) in *.
           assert (Ha : c_in o1 = c_in o) by (subst o1; destruct md; reflexivity).
           assert (Hpn : packable (norm i n) = true) by (rewrite packable_norm; exact Hn).
           rewrite (write_unpack_packable o1 (norm i n) Hpn) in H.
           match type of H with np_loop _ _ _ _ _ _ ?oo = _ => set (o2 := oo) in * end.
           assert (Hin2 : c_in o2 = c_in o ++ [norm i n]) by (subst o2; cbn [c_in]; rewrite Ha; reflexivity).
           assert (Hsz : sum_size (c_in o2) = sum_size (c_in o) + psize n).
           { rewrite Hin2, sum_size_app. unfold sum_size at 2. cbn [fold_right]. rewrite psize_norm. lia. }
           pose proof (psize_pos n Hln) as Hpn0.
           apply (IH _ _ _ _ _ _ _ H Hr).
           ++ symmetry. exact Hsz.
           ++ rewrite Hin2. apply Forall_app. split; [assumption|]. constructor; [|constructor].
              rewrite psize_norm. exact Hpn0.
           ++ destruct (0 <? sum_size (c_in o)) eqn:E0.
              ** left. cbn [andb] in E2. lia.
              ** right. assert (Hnil : c_in o = []) by (apply sum_size_zero; [assumption|lia]).
                 rewrite Hin2, Hnil. cbn. lia.
Qed.

(* ------------------------------------------------------------------ 4. one transmission *)

(* what a queued item must be for the peer to process what it contributes: the packets it holds
   are processable (in_ok), and an own item holds packets of our own device only *)
Definition src_ok (reg : Z -> bool) (i : Z) (p : packet) : Prop :=
  item_packable p /\ Forall (in_ok reg i) (expand (norm i p)) /\
  (is_own i p = true -> Forall (fun v => p_dev v = i) (expand (norm i p))).

Lemma src_ok_plain reg i p :
  i <> 0 -> packable p = true -> (is_own i p = true \/ reg (p_dev p) = true) -> src_ok reg i p.
Proof.
  intros Hi Hp Hr. unfold src_ok. rewrite expand_norm, (packable_not_cont _ Hp).
  split; [left; exact Hp|]. split.
  - constructor; [|constructor]. unfold in_ok. rewrite packable_norm. split; [assumption|].
    split; [apply norm_dev_nz; assumption|].
    destruct (is_own i p) eqn:E.
    + left. apply norm_own_dev. exact E.
    + right. rewrite norm_foreign by assumption. destruct Hr; [discriminate|assumption].
  - intro Ho. constructor; [|constructor]. apply norm_own_dev. exact Ho.
Qed.

Lemma src_ok_retag reg c i p : src_ok reg i p -> src_ok reg i (retag c p).
Proof.
  unfold retag. destruct (c_ptags c) as [t|]; [|exact (fun h => h)].
  unfold src_ok, item_packable. rewrite norm_set_tags.
  change (packable (set_tags p t)) with (packable p). change (is_cont (set_tags p t)) with (is_cont p).
  change (p_fl (set_tags p t)) with (p_fl p). change (p_in (set_tags p t)) with (p_in p).
  change (is_own i (set_tags p t)) with (is_own i p).
  intros [H1 [H2 H3]]. split; [exact H1|].
  unfold expand in *. change (is_cont (set_tags (norm i p) t)) with (is_cont (norm i p)).
  change (p_in (set_tags (norm i p) t)) with (p_in (norm i p)).
  destruct (is_cont (norm i p)); [split; assumption|]. split.
  - inversion H2; subst. constructor; [|constructor]. exact H4.
  - intro Ho. specialize (H3 Ho). inversion H3; subst. constructor; [|constructor]. exact H4.
Qed.

Lemma src_ok_items reg i l :
  Forall (src_ok reg i) l -> Forall item_packable l /\ own_items i l.
Proof.
  intro H. unfold own_items. split; rewrite Forall_forall in *; intros p Hp; apply (H p Hp).
Qed.

Lemma nonnop_map_untag_norm i l :
  nonnop (map (fun p => untag (norm i p)) l) = map (fun p => untag (norm i p)) (nonnop l).
Proof.
  induction l as [|p l IH]; [reflexivity|]. unfold nonnop in *. cbn [map filter].
  rewrite is_nop_untag, is_nop_norm. destruct (negb (is_nop p)); cbn [map]; rewrite IH; reflexivity.
Qed.

Lemma map_norm_tags i l : flat_map p_tags (map (norm i) l) = flat_map p_tags l.
Proof. induction l as [|p l IH]; [reflexivity|]. cbn [map flat_map]. rewrite p_tags_norm, IH. reflexivity. Qed.

Lemma tx_packets_as_tx p : tx_packets (as_tx p) = expand p.
Proof. unfold as_tx, expand. destruct (is_cont p); reflexivity. Qed.
Lemma tx_tags_as_tx p : tx_tags (as_tx p) = p_tags p.
Proof. unfold as_tx. destruct (is_cont p); reflexivity. Qed.
Lemma map_untag_expand_set_tags p g : map untag (expand (set_tags p g)) = map untag (expand p).
Proof.
  unfold expand. change (is_cont (set_tags p g)) with (is_cont p). destruct (is_cont p); reflexivity.
Qed.

(* an own item sent as it is *)
Lemma wf_tx_as_tx reg i n g :
  i <> 0 -> src_ok reg i n -> is_own i n = true -> len (expand (norm i n)) <= 65535 ->
  wf_tx reg i (as_tx (set_tags (norm i n) g)).
Proof.
  intros Hi [Hp [Hin Hown]] Ho Hb. specialize (Hown Ho). unfold as_tx.
  change (is_cont (set_tags (norm i n) g)) with (is_cont (norm i n)).
  unfold expand in *. rewrite is_cont_norm in *. destruct (is_cont n) eqn:Ec.
  - cbn [wf_tx c_dev c_fl c_in set_tags p_dev p_fl p_in].
    split; [apply norm_own_dev; exact Ho|].
    destruct Hp as [Hp|[_ [H1 H2]]]; [rewrite (packable_not_cont _ Hp) in Ec; discriminate|].
    rewrite p_fl_norm, p_in_norm in *.
    split; [exact H2|]. split; [lia|]. split; [exact Hin|]. intros _. exact Hown.
  - cbn [wf_tx set_tags p_dev]. split; [apply norm_own_dev; exact Ho|].
    change (packable (set_tags (norm i n) g)) with (packable (norm i n)).
    inversion Hin as [|? ? Hk _]; subst. apply Hk.
Qed.

Lemma cnt_firstn_head f n q : f <> O -> len (expand n) <= cnt (firstn f (n :: q)).
Proof.
  intro Hf. destruct f; [congruence|]. cbn [firstn]. rewrite cnt_cons. pose proof (cnt_nonneg (firstn f q)). lia.
Qed.

Lemma next_packet_spec reg F NP i n q t o k rest :
  next_packet F NP i (Some n) q t = (o, k, rest) -> i <> 0 ->
  Forall (src_ok reg i) (n :: q) ->
  cnt (firstn (Z.to_nat (Z.max NP 1)) (n :: q)) <= 65535 ->
  exists tx u kept,
    o = Some tx /\ q = u ++ optl k ++ rest /\
    map untag (tx_packets tx) = map untag (flat_map expand (map (norm i) kept)) /\
    nonnop kept = nonnop (n :: u) /\ incl kept (n :: u) /\
    wf_tx reg i tx /\
    (Forall (fun p => is_cont p = false) (n :: q) ->
     (forall x, In x (tx_tags tx) -> In x t \/ exists v, In v kept /\ In x (p_tags v)) /\
     (forall v x, In v kept -> In x (p_tags v) -> In x (tx_tags tx)) /\
     (match tx with TMulti c => c_in c = map (norm i) kept | TSingle _ => True end)).
Proof.
  intros H Hi Hall HB. unfold next_packet in H.
  inversion Hall as [|? ? Hn Hq]; subst.
  assert (Hhead : len (expand (norm i n)) <= 65535).
  { rewrite len_expand_norm. pose proof (cnt_firstn_head (Z.to_nat (Z.max NP 1)) n q ltac:(lia)). lia. }
  destruct ((NP <=? 1) || is_nil q) eqn:Efast.
  - (* fast path *)
    destruct (is_own i n) eqn:Eown.
    + inversion H; subst. exists (as_tx (set_tags (norm i n) (p_tags n ++ t))), [], [n].
      cbn [optl app map flat_map]. rewrite app_nil_r, tx_packets_as_tx, map_untag_expand_set_tags, tx_tags_as_tx.
      cbn [set_tags p_tags].
      split; [reflexivity|]. split; [reflexivity|]. split; [reflexivity|]. split; [reflexivity|].
      split; [intros x Hx; exact Hx|]. split; [apply wf_tx_as_tx; assumption|].
      intro Hpl. inversion Hpl as [|? ? Hcn _]; subst.
      split; [|split].
      * intros x Hx. apply in_app_or in Hx. destruct Hx as [Hx|Hx]; [right|left; exact Hx].
        exists n. split; [left; reflexivity|exact Hx].
      * intros v x [Hv|[]] Hx. subst v. apply in_or_app. left. exact Hx.
      * unfold as_tx. change (is_cont (set_tags (norm i n) (p_tags n ++ t))) with (is_cont (norm i n)).
        rewrite is_cont_norm, Hcn. exact I.
    + destruct Hn as [Hpn [Hin _]].
      pose proof (norm_foreign i n Eown) as Hnf. rewrite Hnf in Hin, Hhead.
      destruct (write_unpack_gen (mkC i fl_multi_mdev [] []) n Hpn eq_refl)
        as [W1 [W2 [W3 [W4 W5]]]].
      { cbn [c_in]. rewrite len_nil. lia. }
      cbn [c_dev c_in c_tags c_fl app] in W1, W2, W3, W4.
      inversion H; subst o k rest. clear H.
      eexists (TMulti _), [], [n]. split; [reflexivity|].
      cbn [optl app tx_packets map flat_map tx_tags c_tags wf_tx c_dev c_fl c_in].
      rewrite app_nil_r, W2, Hnf.
      split; [reflexivity|]. split; [reflexivity|]. split; [reflexivity|]. split; [intros x Hx; exact Hx|].
      split.
      * rewrite W1, W5, W2. split; [reflexivity|]. split; [reflexivity|]. split; [lia|]. split; [exact Hin|].
        rewrite W4. cbn [fl_multi_mdev f_mdev]. discriminate.
      * intro Hpl. inversion Hpl as [|? ? Hcn _]; subst. rewrite W3.
        unfold wtags. rewrite Hcn.
        split; [|split].
        -- intros x Hx. apply in_app_or in Hx. destruct Hx as [Hx|Hx]; [right|left; exact Hx].
           exists n. split; [left; reflexivity|exact Hx].
        -- intros v x [Hv|[]] Hx. subst v. apply in_or_app. left. exact Hx.
        -- rewrite (expand_plain _ Hcn). reflexivity.
  - (* the loop *)
    apply orb_false_elim in Efast. destruct Efast as [E1 E2].
    destruct (np_loop F i (Z.to_nat NP) (n :: q) 0 false (mkC i fl_multi [] [])) as [[o' k'] rest'] eqn:EL.
    inversion H; subst. clear H.
    destruct (src_ok_items _ _ _ Hall) as [Hpk Hoi].
    assert (HB' : len (c_in (mkC i fl_multi [] [])) + cnt (firstn (Z.to_nat NP) (n :: q)) <= 65535).
    { cbn [c_in]. rewrite len_nil. replace (Z.max NP 1) with NP in HB by lia. lia. }
    destruct (np_loop_struct _ _ _ _ _ _ _ _ _ _ EL Hpk Hoi eq_refl (fun _ => Forall_nil _) eq_refl HB')
      as [used [kept [H1 [H2 [H3 [H4 [H5 [H6 [H7 [H8 [G1 [G3 G5]]]]]]]]]]]].
    cbn [c_in c_tags c_dev app] in H2, H3, H4.
    assert (Hfuel : Z.to_nat NP <> O) by lia.
    specialize (H8 eq_refl Hfuel ltac:(discriminate)).
    destruct used as [|n' u]; [congruence|].
    cbn [app] in H1. injection H1 as Hnn Hqq. subst n'.
    assert (Hkept_ok : Forall (in_ok reg i) (c_in o')).
    { rewrite H2, Forall_forall. intros v Hv. apply in_flat_map in Hv. destruct Hv as [p' [Hp1 Hp2]].
      apply in_map_iff in Hp1. destruct Hp1 as [p [Hp0 Hp1]]. subst p'.
      assert (Hin : In p (n :: q)).
      { apply H6 in Hp1. destruct Hp1 as [Hp1|Hp1]; [left; exact Hp1|right].
        rewrite Hqq. apply in_or_app. left. exact Hp1. }
      rewrite Forall_forall in Hall. destruct (Hall p Hin) as [_ [Hi2 _]].
      rewrite Forall_forall in Hi2. apply Hi2. exact Hp2. }
    assert (Hcount : len (c_in o') <= 65535) by lia.
    assert (Hmulti : wf_tx reg i (TMulti o')).
    { cbn [wf_tx]. split; [assumption|]. split; [assumption|]. split; [lia|]. split; [assumption|exact G3]. }
    assert (Hplain : Forall (fun p => is_cont p = false) (n :: q) -> Forall (fun p => is_cont p = false) kept).
    { intro Hpl. rewrite Forall_forall in *. intros p Hp. apply Hpl.
      apply H6 in Hp. destruct Hp as [Hp|Hp]; [left; exact Hp|right]. rewrite Hqq. apply in_or_app. left. exact Hp. }
    assert (Htags : Forall (fun p => is_cont p = false) (n :: q) ->
                    forall x, In x (c_tags o') <-> exists v, In v kept /\ In x (p_tags v)).
    { intros Hpl x. rewrite H3, (flat_map_wtags_plain _ (Hplain Hpl)). apply in_flat_map. }
    assert (Hmcase : exists tx u0 kept0,
      Some (TMulti o') = Some tx /\ q = u0 ++ optl k ++ rest /\
      map untag (tx_packets tx) = map untag (flat_map expand (map (norm i) kept0)) /\
      nonnop kept0 = nonnop (n :: u0) /\ incl kept0 (n :: u0) /\ wf_tx reg i tx /\
      (Forall (fun p => is_cont p = false) (n :: q) ->
       (forall x, In x (tx_tags tx) -> In x t \/ exists v, In v kept0 /\ In x (p_tags v)) /\
       (forall v x, In v kept0 -> In x (p_tags v) -> In x (tx_tags tx)) /\
       (match tx with TMulti c => c_in c = map (norm i) kept0 | TSingle _ => True end))).
    { exists (TMulti o'), u, kept.
      split; [reflexivity|]. split; [exact Hqq|].
      split; [cbn [tx_packets]; rewrite H2; reflexivity|].
      split; [exact H5|]. split; [exact H6|]. split; [exact Hmulti|].
      intro Hpl. split; [intros x Hx; right; apply (Htags Hpl); exact Hx|].
      split; [intros v0 x Hv Hx; apply (Htags Hpl); exists v0; split; assumption|].
      cbn [tx_tags]. rewrite H2. apply flat_map_expand_plain. exact (Hplain Hpl). }
    unfold unwrap.
    destruct ((f_len (c_fl o') =? 1) && negb (f_mdev (c_fl o'))) eqn:EU; [|exact Hmcase].
    apply andb_prop in EU. destruct EU as [EU1 EU2].
    destruct (c_in o') as [|v [|w r]] eqn:Ein; [exact Hmcase| |exact Hmcase].
    exists (TSingle v), u, kept. cbn [tx_packets tx_tags wf_tx].
    split; [reflexivity|]. split; [exact Hqq|]. split; [rewrite <- H2; reflexivity|].
    split; [exact H5|]. split; [exact H6|]. split.
    { destruct (f_mdev (c_fl o')); [discriminate|]. specialize (G3 eq_refl).
      inversion G3; subst. inversion Hkept_ok as [|? ? Hk _]; subst. split; [assumption|apply Hk]. }
    intro Hpl. rewrite (flat_map_expand_plain i kept (Hplain Hpl)) in H2.
    destruct kept as [|p [|p2 kr]]; try discriminate. cbn [map] in H2. injection H2 as H2. subst v.
    split; [|split; [|exact I]].
    + intros x Hx. right. exists p. split; [left; reflexivity|]. rewrite p_tags_norm in Hx. exact Hx.
    + intros v x [Hv|[]] Hx. subst v. rewrite p_tags_norm. exact Hx.
Qed.

(* --- Session.next: pick, the abandoned group --- *)

Fixpoint dropwhile {A} (f : A -> bool) (l : list A) : list A :=
  match l with [] => [] | x :: r => if f x then dropwhile f r else l end.
Fixpoint takewhile {A} (f : A -> bool) (l : list A) : list A :=
  match l with [] => [] | x :: r => if f x then x :: takewhile f r else [] end.
Lemma take_drop_while {A} (f : A -> bool) l : l = takewhile f l ++ dropwhile f l.
Proof. induction l as [|x l IH]; [reflexivity|]. cbn. destruct (f x); [cbn; f_equal; exact IH|reflexivity]. Qed.

Definition in_group (l : Z) (p : packet) : bool := f_group (p_fl p) =? l.

Lemma skip_group_spec l : forall q n n1 q1,
  skip_group l n q = (n1, q1) ->
  (in_group l n1 = true /\ q1 = [] /\ dropwhile (in_group l) (n :: q) = []) \/
  (in_group l n1 = false /\ dropwhile (in_group l) (n :: q) = n1 :: q1).
Proof.
  induction q as [|p r IH]; intros n n1 q1 H; cbn [skip_group] in H.
  - inversion H; subst. cbn [dropwhile]. destruct (in_group l n1) eqn:E; [left|right]; repeat split; reflexivity.
  - cbn [dropwhile]. fold (in_group l n) in H. destruct (in_group l n) eqn:E.
    + apply IH in H. cbn [dropwhile] in H. exact H.
    + inversion H; subst. right. rewrite E. split; reflexivity.
Qed.

Lemma skip_group_retag c l q n0 n1 q1 :
  skip_group l (retag c n0) q = (n1, q1) ->
  exists n1', skip_group l n0 q = (n1', q1) /\ (n1 = n1' \/ n1 = retag c n1').
Proof.
  destruct q as [|p r]; cbn [skip_group]; intro H.
  - inversion H; subst. exists n0. split; [reflexivity|right; reflexivity].
  - rewrite p_fl_retag in H. destruct (f_group (p_fl n0) =? l).
    + exists n1. split; [exact H|left; reflexivity].
    + inversion H; subst. exists n0. split; [reflexivity|right; reflexivity].
Qed.

(* what next() skips because the peer abandoned group l: exactly the leading run of that group
   (a lone packet of our own is sent regardless; a picked packet of our own carrying key material is
   sent alone and leaves the abandoned group pending for the call after it) *)
Lemma abandon_spec i l q :
  abandon i l q =
  match q with
  | [] => []
  | n :: r =>
    if is_nil r && is_own i n then q
    else if f_crypt (p_fl n) && is_own i n then n :: abandon i l r
    else if 0 <? l then dropwhile (in_group l) q else q
  end.
Proof.
  destruct q as [|n r]; [reflexivity|]. cbn [abandon].
  destruct (is_nil r && is_own i n); [reflexivity|].
  destruct (f_crypt (p_fl n) && is_own i n); [reflexivity|].
  destruct (0 <? l); [|reflexivity]. destruct (skip_group l n r) as [n1 q1] eqn:E.
  apply skip_group_spec in E. fold (in_group l n1).
  destruct E as [[E1 [E2 E3]]|[E1 E2]]; rewrite E1, ?E3, ?E2; reflexivity.
Qed.

Lemma abandon_zero i q : abandon i 0 q = q.
Proof.
  induction q as [|n r IH]; [reflexivity|]. rewrite abandon_spec.
  destruct (is_nil r && is_own i n); [reflexivity|].
  destruct (f_crypt (p_fl n) && is_own i n); [rewrite IH; reflexivity|reflexivity].
Qed.

Lemma Forall_dropwhile {A} (P : A -> Prop) f l : Forall P l -> Forall P (dropwhile f l).
Proof. intro H. rewrite (take_drop_while f l) in H. apply Forall_app in H. apply H. Qed.

Lemma abandon_Forall (P : packet -> Prop) i l q : Forall P q -> Forall P (abandon i l q).
Proof.
  induction q as [|n r IH]; intro H; [constructor|]. rewrite abandon_spec.
  destruct (is_nil r && is_own i n); [exact H|].
  destruct (f_crypt (p_fl n) && is_own i n).
  - inversion H; subst. constructor; [assumption|apply IH; assumption].
  - destruct (0 <? l); [apply Forall_dropwhile; exact H|exact H].
Qed.

Lemma keepalive_own i t : is_own i (keepalive i t) = true.
Proof. unfold is_own, keepalive. cbn [p_dev]. rewrite Z.eqb_refl. apply orb_true_r. Qed.
Lemma keepalive_nop i t : is_nop (keepalive i t) = true.
Proof. reflexivity. Qed.

Lemma pick_spec c st :
  (pending st = [] /\ pick c st = (if c_inter c then None else Some (keepalive (c_own c) []), [])) \/
  (exists n0 q, pending st = n0 :: q /\ pick c st = (Some n0, q)).
Proof.
  unfold pending, pick. destruct (s_peek st) as [p|].
  - right. exists p, (s_q st). split; reflexivity.
  - destruct (s_q st) as [|p r].
    + left. split; [reflexivity|]. destruct (c_inter c); reflexivity.
    + right. exists p, r. split; reflexivity.
Qed.

(* the shapes of one call of next() *)
Lemma session_next_cases c st tx st' :
  session_next c st = (Some tx, st') ->
  (exists p, tx = as_tx p /\ st' = mkS [] None 0 /\
     ((pending st = [] /\ p = norm (c_own c) (retag c (keepalive (c_own c) []))) \/
      (exists n0, pending st = [n0] /\ is_own (c_own c) n0 = true /\ p = norm (c_own c) (retag c n0)) \/
      (exists n0 q, pending st = n0 :: q /\ abandon (c_own c) (s_last st) (pending st) = [] /\
                    p = keepalive (c_own c) (p_tags (retag c n0)))))
  \/
  (exists n0 q dropped n1' n1 q1,
     pending st = n0 :: q /\ pending st = dropped ++ n1' :: q1 /\
     abandon (c_own c) (s_last st) (pending st) = n1' :: q1 /\ (n1 = n1' \/ n1 = retag c n1') /\
     finish c n1 q1 (p_tags (retag c n0)) = (Some tx, st'))
  \/
  (exists n0 q, pending st = n0 :: q /\ q <> [] /\
     f_crypt (p_fl n0) && is_own (c_own c) n0 = true /\
     tx = as_tx (norm (c_own c) (retag c n0)) /\ st' = mkS q None (s_last st)).
Proof.
  intro H. unfold session_next in H.
  destruct (pick_spec c st) as [[Hp Hk]|[n0 [q [Hp Hk]]]]; rewrite Hk in H.
  - destruct (c_inter c); [discriminate|].
    change (match c_ptags c with Some t => set_tags (keepalive (c_own c) []) t | None => keepalive (c_own c) [] end)
      with (retag c (keepalive (c_own c) [])) in H.
    rewrite is_own_retag, keepalive_own in H. cbn [is_nil andb] in H. inversion H; subst.
    left. eexists. split; [reflexivity|]. split; [reflexivity|]. left. split; [assumption|reflexivity].
  - change (match c_ptags c with Some t => set_tags n0 t | None => n0 end) with (retag c n0) in H.
    rewrite is_own_retag in H.
    destruct (is_nil q && is_own (c_own c) n0) eqn:E1.
    + inversion H; subst. apply andb_prop in E1. destruct E1 as [Eq Eo].
      destruct q; [|discriminate]. left. eexists. split; [reflexivity|]. split; [reflexivity|].
      right. left. exists n0. repeat split; assumption.
    + rewrite p_fl_retag in H.
      destruct (f_crypt (p_fl n0) && is_own (c_own c) n0) eqn:EC.
      { inversion H; subst. right. right. exists n0, q. split; [assumption|].
        split; [|split; [exact EC|split; reflexivity]].
        intro Hq. subst q. apply andb_prop in EC. destruct EC as [_ EC]. rewrite EC in E1. discriminate. }
      assert (Hab : abandon (c_own c) (s_last st) (n0 :: q) =
                    if 0 <? s_last st then match skip_group (s_last st) n0 q with
                                           | (n1, q1) => if f_group (p_fl n1) =? s_last st then [] else n1 :: q1 end
                    else n0 :: q).
      { cbn [abandon]. rewrite E1, EC. reflexivity. }
      rewrite Hp. rewrite Hab.
      destruct (0 <? s_last st) eqn:EL.
      * destruct (skip_group (s_last st) (retag c n0) q) as [n1 q1] eqn:ES.
        destruct (skip_group_retag _ _ _ _ _ _ ES) as [n1' [ES' Hrel]].
        rewrite ES'.
        assert (Hg : f_group (p_fl n1) = f_group (p_fl n1')).
        { destruct Hrel as [Hr|Hr]; rewrite Hr; [reflexivity|rewrite p_fl_retag; reflexivity]. }
        rewrite Hg in H.
        pose proof (skip_group_spec _ _ _ _ _ ES') as Hsp. fold (in_group (s_last st) n1') in H |- *.
        destruct Hsp as [[G1 [G2 G3]]|[G1 G2]]; rewrite G1 in H |- *.
        -- inversion H; subst. left. exists (keepalive (c_own c) (p_tags (retag c n0))).
           split; [reflexivity|]. split; [reflexivity|].
           right. right. exists n0, q. repeat split; reflexivity.
        -- right. left. exists n0, q, (takewhile (in_group (s_last st)) (n0 :: q)), n1', n1, q1.
           split; [reflexivity|]. split; [rewrite <- G2; apply take_drop_while|].
           split; [reflexivity|]. split; [exact Hrel|exact H].
      * right. left. exists n0, q, [], n0, (retag c n0), q.
        split; [reflexivity|]. split; [reflexivity|]. split; [reflexivity|].
        split; [right; reflexivity|exact H].
Qed.

(* mergeTags keeps exactly the union of the two tag lists *)
Lemma merge_tags_in a b y : In y (merge_tags a b) <-> In y a \/ In y b.
Proof.
  unfold merge_tags. destruct a as [|x a]; destruct b as [|z b].
  - cbn. tauto.
  - cbn [In]. tauto.
  - cbn [In]. tauto.
  - rewrite nodup_In, in_app_iff. tauto.
Qed.

Lemma merge_tags_nodup a b : a <> [] -> b <> [] -> NoDup (merge_tags a b).
Proof.
  intros Ha Hb. unfold merge_tags. destruct a; [congruence|]. destruct b; [congruence|]. apply NoDup_nodup.
Qed.

Lemma wf_tx_set_tags reg i x g : wf_tx reg i x -> wf_tx reg i (tx_set_tags x g).
Proof. destruct x as [p|o]; cbn [tx_set_tags wf_tx]; [|exact (fun h => h)]. intros [H1 H2]. split; assumption. Qed.

Lemma tx_packets_set_tags x g : map untag (tx_packets (tx_set_tags x g)) = map untag (tx_packets x).
Proof. destruct x; reflexivity. Qed.

Lemma tx_tags_set_tags x g : tx_tags (tx_set_tags x g) = g.
Proof. destruct x; reflexivity. Qed.

Lemma pending_mkS rest k l : pending (mkS rest k l) = optl k ++ rest.
Proof. unfold pending. cbn [s_peek s_q]. destruct k; reflexivity. Qed.

Lemma first_tags_spec c st :
  first_tags c st =
  match pending st with
  | n0 :: _ => p_tags (retag c n0)
  | [] => if c_inter c then [] else p_tags (retag c (keepalive (c_own c) []))
  end.
Proof.
  unfold first_tags. destruct (pick_spec c st) as [[Hp Hk]|[n0 [q [Hp Hk]]]]; rewrite Hk, Hp; cbn [fst].
  - destruct (c_inter c); [reflexivity|]. unfold retag. destruct (c_ptags c); reflexivity.
  - unfold retag. destruct (c_ptags c); reflexivity.
Qed.

(* what a list of queued items puts into transmissions: the packets they hold, device filled in, tags aside *)
Definition sent (i : Z) (l : list packet) : list packet := map untag (flat_map expand (map (norm i) l)).

Lemma flags_eqb_cont a b : flags_eqb a b = true -> f_multi a = f_multi b /\ f_mdev a = f_mdev b.
Proof.
  unfold flags_eqb. intro H. repeat (apply andb_prop in H; destruct H as [H ?]).
  split; apply eqb_prop; assumption.
Qed.
Lemma nop_not_cont p : is_nop p = true -> is_cont p = false.
Proof.
  unfold is_nop, is_cont. intro H. apply andb_prop in H. destruct H as [_ H]. apply orb_prop in H.
  destruct H as [H|H]; apply flags_eqb_cont in H; destruct H as [H1 H2]; rewrite H1, H2; reflexivity.
Qed.

Lemma sent_cons i p l : sent i (p :: l) = map untag (expand (norm i p)) ++ sent i l.
Proof. unfold sent. cbn [map flat_map]. apply map_app. Qed.
Lemma sent_app i a b : sent i (a ++ b) = sent i a ++ sent i b.
Proof. induction a as [|p a IH]; [reflexivity|]. cbn [app]. rewrite !sent_cons, IH, app_assoc. reflexivity. Qed.

Lemma sent_nonnop i l : nonnop (sent i l) = nonnop (sent i (nonnop l)).
Proof.
  induction l as [|p l IH]; [reflexivity|]. destruct (is_nop p) eqn:En.
  - rewrite (nonnop_cons_nop p l En), sent_cons, nonnop_app, IH.
    rewrite expand_norm, (nop_not_cont _ En). cbn [map]. rewrite nonnop_cons_nop; [reflexivity|].
    rewrite is_nop_untag, is_nop_norm. exact En.
  - assert (Hc : nonnop (p :: l) = p :: nonnop l) by (unfold nonnop; cbn [filter]; rewrite En; reflexivity).
    rewrite Hc, !sent_cons, !nonnop_app, IH. reflexivity.
Qed.

Lemma sent_retag_head c i p l : sent i (retag c p :: l) = sent i (p :: l).
Proof.
  rewrite !sent_cons. f_equal. unfold retag. destruct (c_ptags c); [|reflexivity].
  rewrite norm_set_tags. apply map_untag_expand_set_tags.
Qed.

Lemma as_tx_set_tags p g : as_tx (set_tags p g) = tx_set_tags (as_tx p) g.
Proof. unfold as_tx. change (is_cont (set_tags p g)) with (is_cont p). destruct (is_cont p); reflexivity. Qed.

Lemma wf_tx_as_tx_norm reg i n :
  i <> 0 -> src_ok reg i n -> is_own i n = true -> len (expand (norm i n)) <= 65535 ->
  wf_tx reg i (as_tx (norm i n)).
Proof.
  intros Hi Hs Ho Hb. pose proof (wf_tx_as_tx reg i n (p_tags (norm i n)) Hi Hs Ho Hb) as H.
  rewrite as_tx_set_tags in H. destruct (as_tx (norm i n)) as [p|o] eqn:E; cbn [tx_set_tags wf_tx] in *; exact H.
Qed.

(* the count bound every transmission needs: the packets held by the first limits.Packets items of any
   suffix of the queue fit the 16-bit count of a container *)
Definition qbound (NP : Z) (l : list packet) : Prop :=
  forall pre suf, l = pre ++ suf -> cnt (firstn (Z.to_nat (Z.max NP 1)) suf) <= 65535.

Lemma qbound_suffix NP a b : qbound NP (a ++ b) -> qbound NP b.
Proof. intros H pre suf E. apply (H (a ++ pre) suf). rewrite E, app_assoc. reflexivity. Qed.
Lemma qbound_here NP l : qbound NP l -> cnt (firstn (Z.to_nat (Z.max NP 1)) l) <= 65535.
Proof. intro H. exact (H [] l eq_refl). Qed.
Lemma cnt_app a b : cnt (a ++ b) = cnt a + cnt b.
Proof. unfold cnt. rewrite flat_map_app. apply len_app. Qed.
Lemma qbound_total NP l : cnt l <= 65535 -> qbound NP l.
Proof.
  intros H pre suf E. subst l. rewrite cnt_app in H. pose proof (cnt_nonneg pre).
  pose proof (cnt_firstn_le (Z.to_nat (Z.max NP 1)) suf). lia.
Qed.
Lemma qbound_plain NP l : NP < 65536 -> Forall (fun p => is_cont p = false) l -> qbound NP l.
Proof.
  intros HN H pre suf E. subst l. apply Forall_app in H. destruct H as [_ H].
  pose proof (cnt_plain_firstn (Z.to_nat (Z.max NP 1)) suf H). lia.
Qed.
Lemma cnt_firstn_retag c f p l : cnt (firstn f (retag c p :: l)) = cnt (firstn f (p :: l)).
Proof.
  destruct f; [reflexivity|]. cbn [firstn]. rewrite !cnt_cons. f_equal.
  unfold retag. destruct (c_ptags c); [|reflexivity]. unfold expand.
  change (is_cont (set_tags p l0)) with (is_cont p). destruct (is_cont p); reflexivity.
Qed.

Lemma finish_spec c reg n1 q1 t tx st' :
  finish c n1 q1 t = (Some tx, st') -> wf_conf c -> Forall (src_ok reg (c_own c)) (n1 :: q1) ->
  cnt (firstn (Z.to_nat (Z.max (c_packets c) 1)) (n1 :: q1)) <= 65535 ->
  exists u kept,
    q1 = u ++ pending st' /\ s_last st' = 0 /\
    map untag (tx_packets tx) = sent (c_own c) kept /\
    nonnop kept = nonnop (n1 :: u) /\ incl kept (n1 :: u) /\
    wf_tx reg (c_own c) tx /\
    (Forall (fun p => is_cont p = false) (n1 :: q1) ->
     forall y, In y (tx_tags tx) <-> In y t \/ exists v, In v (tx_packets tx) /\ In y (p_tags v)).
Proof.
  intros H [Hi HNP] Hall HB. unfold finish in H.
  destruct (next_packet (c_frag c) (c_packets c) (c_own c) (Some n1) q1 t) as [[o k] rest] eqn:EN.
  destruct (next_packet_spec reg _ _ _ _ _ _ _ _ _ EN Hi Hall HB)
    as [x [u [kept [H0 [H1 [H2 [H3 [H4 [H5 HT]]]]]]]]].
  subst o. inversion H; subst. clear H.
  exists u, kept. rewrite pending_mkS. split; [reflexivity|]. split; [reflexivity|].
  rewrite tx_packets_set_tags. split; [exact H2|]. split; [exact H3|]. split; [exact H4|].
  split; [apply wf_tx_set_tags; exact H5|].
  intros Hpl y. destruct (HT Hpl) as [H6 [H7 H8]]. rewrite tx_tags_set_tags, merge_tags_in.
  destruct x as [p|o]; cbn [tx_set_tags tx_packets tx_tags] in *.
  - split.
    + intro Hy. right. eexists. split; [left; reflexivity|]. cbn [set_tags p_tags].
      apply merge_tags_in. exact Hy.
    + intros [Hy|[v [[Hv|[]] Hy]]]; [right; exact Hy|]. subst v. cbn [set_tags p_tags] in Hy.
      apply merge_tags_in in Hy. exact Hy.
  - split.
    + intros [Hy|Hy]; [|left; exact Hy]. apply H6 in Hy. destruct Hy as [Hy|[v [Hv Hy]]]; [left; exact Hy|].
      right. exists (norm (c_own c) v). split; [rewrite H8; apply in_map; exact Hv|rewrite p_tags_norm; exact Hy].
    + intros [Hy|[v [Hv Hy]]]; [right; exact Hy|]. left. rewrite H8 in Hv. apply in_map_iff in Hv.
      destruct Hv as [w [Hw1 Hw2]]. subst v. rewrite p_tags_norm in Hy. exact (H7 w y Hw2 Hy).
Qed.

Lemma plain_as_tx i c n : is_cont n = false -> as_tx (norm i (retag c n)) = TSingle (norm i (retag c n)).
Proof.
  intro H. unfold as_tx. rewrite is_cont_norm. unfold retag. destruct (c_ptags c); 
    [change (is_cont (set_tags n l)) with (is_cont n)|]; rewrite H; reflexivity.
Qed.

(* one call of next(): what it consumes, what it sends, what it leaves *)
Lemma session_next_spec c reg st tx st' :
  wf_conf c -> Forall (src_ok reg (c_own c)) (pending st) -> qbound (c_packets c) (pending st) ->
  session_next c st = (Some tx, st') ->
  exists dropped used,
    pending st = dropped ++ used ++ pending st' /\
    abandon (c_own c) (s_last st) (pending st) = used ++ abandon (c_own c) (s_last st') (pending st') /\
    (s_last st' = 0 \/ s_last st' = s_last st) /\
    (pending st <> [] -> dropped ++ used <> []) /\
    nonnop (map untag (tx_packets tx)) = nonnop (sent (c_own c) used) /\
    wf_tx reg (c_own c) tx /\
    (Forall (fun p => is_cont p = false) (pending st) ->
     forall y, In y (tx_tags tx) <-> In y (first_tags c st) \/ exists v, In v (tx_packets tx) /\ In y (p_tags v)).
Proof.
  intros Hw Hall HQ H. pose proof Hw as [Hi HNP].
  assert (Hsingle_tags : forall p, (forall y, In y (first_tags c st) -> In y (p_tags p)) ->
            forall y, In y (tx_tags (TSingle p)) <-> In y (first_tags c st) \/ exists v, In v (tx_packets (TSingle p)) /\ In y (p_tags v)).
  { intros p Hsub y. cbn [tx_tags tx_packets]. split.
    - intro Hy. right. exists p. split; [left; reflexivity|exact Hy].
    - intros [Hy|[v [[Hv|[]] Hy]]]; [apply Hsub; exact Hy|subst v; exact Hy]. }
  (* an own item sent as it is (lone, or key material) *)
  assert (Hasis : forall n0 rest0, pending st = n0 :: rest0 -> is_own (c_own c) n0 = true ->
            nonnop (map untag (tx_packets (as_tx (norm (c_own c) (retag c n0))))) = nonnop (sent (c_own c) [n0]) /\
            wf_tx reg (c_own c) (as_tx (norm (c_own c) (retag c n0))) /\
            (Forall (fun p => is_cont p = false) (pending st) ->
             forall y, In y (tx_tags (as_tx (norm (c_own c) (retag c n0)))) <->
                       In y (first_tags c st) \/ exists v, In v (tx_packets (as_tx (norm (c_own c) (retag c n0)))) /\ In y (p_tags v))).
  { intros n0 rest0 Hp Hown. rewrite Hp in Hall, HQ. inversion Hall as [|? ? Hn0 _]; subst.
    split; [|split].
    - rewrite tx_packets_as_tx. rewrite <- (sent_retag_head c (c_own c) n0 []). unfold sent. cbn [map flat_map].
      rewrite app_nil_r. reflexivity.
    - apply wf_tx_as_tx_norm; [exact Hi|apply src_ok_retag; exact Hn0|rewrite is_own_retag; exact Hown|].
      rewrite len_expand_norm. pose proof (qbound_here _ _ HQ) as HB. rewrite <- (cnt_firstn_retag c) in HB.
      pose proof (cnt_firstn_head (Z.to_nat (Z.max (c_packets c) 1)) (retag c n0) rest0 ltac:(lia)). lia.
    - intro Hpl. rewrite Hp in Hpl. inversion Hpl as [|? ? Hcn _]; subst. rewrite (plain_as_tx _ _ _ Hcn).
      apply Hsingle_tags. rewrite first_tags_spec, Hp, p_tags_norm. exact (fun y h => h). }
  destruct (session_next_cases _ _ _ _ H) as [[p [Htx [Hst Hc]]]|[[n0 [q [dropped [n1' [n1 [q1 [Hp [Hsplit [Hab [Hrel Hfin]]]]]]]]]]|[n0 [q [Hp [Hqne [HC [Htx Hst]]]]]]]].
  - subst tx st'. change (pending (mkS [] None 0)) with (@nil packet). cbn [s_last].
    change (abandon (c_own c) 0 []) with (@nil packet).
    destruct Hc as [[Hp Hpk]|[[n0 [Hp [Hown Hpk]]]|[n0 [q [Hp [Hab Hpk]]]]]].
    + exists [], []. rewrite Hp. cbn [app].
      split; [reflexivity|]. split; [reflexivity|]. split; [left; reflexivity|]. split; [congruence|].
      assert (Hka : as_tx p = TSingle p) by (subst p; apply plain_as_tx; reflexivity).
      rewrite Hka. split; [|split].
      * subst p. cbn [tx_packets map]. rewrite nonnop_cons_nop; [reflexivity|].
        rewrite is_nop_untag, is_nop_norm, is_nop_retag. reflexivity.
      * subst p. cbn [wf_tx]. split; [apply norm_own_dev; rewrite is_own_retag; apply keepalive_own|].
        rewrite packable_norm, packable_retag. reflexivity.
      * intros _. apply Hsingle_tags. rewrite first_tags_spec, Hp. subst p. rewrite p_tags_norm.
        destruct (c_inter c); [intros y []|exact (fun y h => h)].
    + exists [], [n0]. subst p. destruct (Hasis n0 [] Hp Hown) as [A1 [A2 A3]]. rewrite Hp. cbn [app].
      split; [reflexivity|]. split.
      { cbn [abandon is_nil andb]. rewrite Hown. reflexivity. }
      split; [left; reflexivity|]. split; [congruence|]. split; [exact A1|]. split; [exact A2|].
      rewrite <- Hp. exact A3.
    + exists (pending st), []. cbn [app]. rewrite app_nil_r.
      split; [reflexivity|]. split; [exact Hab|]. split; [left; reflexivity|]. split; [exact (fun h => h)|].
      subst p. change (as_tx (keepalive (c_own c) (p_tags (retag c n0)))) with (TSingle (keepalive (c_own c) (p_tags (retag c n0)))).
      split; [reflexivity|]. split; [cbn [wf_tx]; split; reflexivity|].
      intros _. apply Hsingle_tags. rewrite first_tags_spec, Hp. exact (fun y h => h).
  - assert (Hsuf : Forall (src_ok reg (c_own c)) (n1' :: q1)).
    { rewrite Hsplit in Hall. apply Forall_app in Hall. apply Hall. }
    assert (Hall1 : Forall (src_ok reg (c_own c)) (n1 :: q1)).
    { inversion Hsuf as [|? ? Ha Hb]; subst. constructor; [|exact Hb].
      destruct Hrel as [Hr|Hr]; subst n1; [exact Ha|apply src_ok_retag; exact Ha]. }
    assert (HB1 : cnt (firstn (Z.to_nat (Z.max (c_packets c) 1)) (n1 :: q1)) <= 65535).
    { rewrite Hsplit in HQ. apply qbound_suffix in HQ. apply qbound_here in HQ.
      destruct Hrel as [Hr|Hr]; subst n1; [exact HQ|rewrite cnt_firstn_retag; exact HQ]. }
    destruct (finish_spec _ reg _ _ _ _ _ Hfin Hw Hall1 HB1) as [u [kept [F1 [F2 [F3 [F4 [F5 [F6 F7]]]]]]]].
    exists dropped, (n1' :: u).
    split; [rewrite Hsplit, F1; reflexivity|]. split; [rewrite Hab, F1, F2, abandon_zero; reflexivity|].
    split; [left; exact F2|]. split; [intros _; destruct dropped; discriminate|].
    split; [|split; [exact F6|]].
    + rewrite F3, sent_nonnop, F4, <- sent_nonnop.
      destruct Hrel as [Hr|Hr]; subst n1; [reflexivity|]. rewrite sent_retag_head. reflexivity.
    + intros Hpl y. rewrite first_tags_spec, Hp. apply F7.
      rewrite Hsplit in Hpl. apply Forall_app in Hpl. destruct Hpl as [_ Hpl].
      inversion Hpl as [|? ? Ha Hb]; subst. constructor; [|exact Hb].
      destruct Hrel as [Hr|Hr]; subst n1; [exact Ha|].
      unfold retag. destruct (c_ptags c); [exact Ha|exact Ha].
  - subst tx st'. rewrite pending_mkS. cbn [optl app s_last].
    apply andb_prop in HC. destruct HC as [HC1 Hown].
    destruct (Hasis n0 q Hp Hown) as [A1 [A2 A3]].
    exists [], [n0]. rewrite Hp. cbn [app].
    split; [reflexivity|]. split.
    { cbn [abandon]. rewrite HC1, Hown. destruct q; [congruence|]. reflexivity. }
    split; [right; reflexivity|]. split; [congruence|]. split; [exact A1|]. split; [exact A2|].
    rewrite <- Hp. exact A3.
Qed.

(* ------------------------------------------------------------------ 5. draining *)

Lemma next_packet_some F NP i n q t o k rest :
  next_packet F NP i (Some n) q t = (o, k, rest) -> o <> None.
Proof.
  unfold next_packet. destruct ((NP <=? 1) || is_nil q).
  - destruct (is_own i n); intro H; inversion H; discriminate.
  - destruct (np_loop F i (Z.to_nat NP) (n :: q) 0 false (mkC i fl_multi [] [])) as [[o' k'] r'].
    intro H; inversion H; discriminate.
Qed.

Lemma finish_some c n q t o st' : finish c n q t = (o, st') -> o <> None.
Proof.
  unfold finish. destruct (next_packet (c_frag c) (c_packets c) (c_own c) (Some n) q t) as [[x k] rest] eqn:E.
  apply next_packet_some in E. intro H. inversion H; subst. destruct x; [discriminate|congruence].
Qed.

(* next() returns nothing only when nothing is pending *)
Lemma session_next_none c st st' : session_next c st = (None, st') -> pending st = [].
Proof.
  unfold session_next. destruct (pick_spec c st) as [[Hp Hk]|[n0 [q [Hp Hk]]]]; rewrite Hk; [intros _; exact Hp|].
  intro H. exfalso.
  destruct (is_nil q && is_own (c_own c) (match c_ptags c with Some t => set_tags n0 t | None => n0 end));
    [discriminate|].
  destruct (f_crypt (p_fl (match c_ptags c with Some t => set_tags n0 t | None => n0 end)) &&
            is_own (c_own c) (match c_ptags c with Some t => set_tags n0 t | None => n0 end));
    [discriminate|].
  destruct (0 <? s_last st).
  - destruct (skip_group (s_last st) _ q) as [n1 q1].
    destruct (f_group (p_fl n1) =? s_last st); [discriminate|]. apply finish_some in H. congruence.
  - apply finish_some in H. congruence.
Qed.

(* what the peer's handlers see of one transmission is what direct processing of the consumed
   packets would have produced; the only possible error is the empty container *)
(* per item: what the peer does with what the item put on the wire = direct processing of the packets it holds *)
Lemma sent_direct reg i l :
  Forall (src_ok reg i) l -> flat_map direct' (sent i l) = flat_map (direct i) (flatten l).
Proof.
  intro H. induction H as [|p l [_ [Hin _]] _ IH]; [reflexivity|].
  rewrite sent_cons. unfold flatten in *. cbn [flat_map]. rewrite !flat_map_app, IH. f_equal.
  rewrite expand_norm in *. unfold expand. destruct (is_cont p).
  - clear - Hin.
    induction Hin as [|v l [_ [Hd _]] _ IH]; [reflexivity|]. cbn [map flat_map]. rewrite IH. f_equal.
    rewrite direct_direct'. unfold norm. replace (p_dev v =? 0) with false by lia. reflexivity.
  - cbn [map flat_map]. rewrite !app_nil_r. reflexivity.
Qed.

Lemma step_spec c reg st tx st' :
  wf_conf c -> Forall (src_ok reg (c_own c)) (pending st) -> qbound (c_packets c) (pending st) ->
  session_next c st = (Some tx, st') ->
  exists dropped used,
    pending st = dropped ++ used ++ pending st' /\
    abandon (c_own c) (s_last st) (pending st) = used ++ abandon (c_own c) (s_last st') (pending st') /\
    (s_last st' = 0 \/ s_last st' = s_last st) /\
    (pending st <> [] -> dropped ++ used <> []) /\
    map untag_d (fst (recv_tx reg (c_own c) tx)) = flat_map (direct (c_own c)) (flatten used) /\
    (snd (recv_tx reg (c_own c) tx) = 0 \/
     (snd (recv_tx reg (c_own c) tx) = E_COUNT /\ fst (recv_tx reg (c_own c) tx) = [] /\
      exists o, tx = TMulti o /\ c_in o = [])).
Proof.
  intros Hw Hall HQ H.
  destruct (session_next_spec _ reg _ _ _ Hw Hall HQ H) as [dropped [used [H1 [H2 [H3 [H4 [H5 [H6 _]]]]]]]].
  exists dropped, used. repeat (split; [assumption|]).
  destruct Hw as [Hi _]. destruct (recv_tx_spec reg _ _ Hi H6) as [R1 R2]. split; [|exact R2].
  rewrite R1, <- flat_map_direct'_nonnop, H5, flat_map_direct'_nonnop. apply (sent_direct reg).
  rewrite H1 in Hall. apply Forall_app in Hall. destruct Hall as [_ Hall]. apply Forall_app in Hall. apply Hall.
Qed.

(* the two things every call of next() needs of what is pending *)
Definition qok (c : conf) (reg : Z -> bool) (l : list packet) : Prop :=
  Forall (src_ok reg (c_own c)) l /\ qbound (c_packets c) l.
Lemma qok_suffix c reg a b : qok c reg (a ++ b) -> qok c reg b.
Proof. intros [H1 H2]. split; [apply Forall_app in H1; apply H1|apply (qbound_suffix _ a); exact H2]. Qed.
Lemma qok_nil c reg : qok c reg [].
Proof. split; [constructor|]. intros pre suf E. symmetry in E. apply app_eq_nil in E. destruct E as [_ E]. subst suf.
  destruct (Z.to_nat (Z.max (c_packets c) 1)); unfold cnt; cbn; lia. Qed.
Lemma session_next_spec_q c reg st tx st' :
  wf_conf c -> qok c reg (pending st) -> session_next c st = (Some tx, st') ->
  exists dropped used,
    pending st = dropped ++ used ++ pending st' /\
    abandon (c_own c) (s_last st) (pending st) = used ++ abandon (c_own c) (s_last st') (pending st') /\
    (s_last st' = 0 \/ s_last st' = s_last st) /\
    (pending st <> [] -> dropped ++ used <> []) /\
    nonnop (map untag (tx_packets tx)) = nonnop (sent (c_own c) used) /\
    wf_tx reg (c_own c) tx /\
    (Forall (fun p => is_cont p = false) (pending st) ->
     forall y, In y (tx_tags tx) <-> In y (first_tags c st) \/ exists v, In v (tx_packets tx) /\ In y (p_tags v)).
Proof. intros Hw [H1 H2]. apply session_next_spec; assumption. Qed.
Lemma step_spec_q c reg st tx st' :
  wf_conf c -> qok c reg (pending st) -> session_next c st = (Some tx, st') ->
  exists dropped used,
    pending st = dropped ++ used ++ pending st' /\
    abandon (c_own c) (s_last st) (pending st) = used ++ abandon (c_own c) (s_last st') (pending st') /\
    (s_last st' = 0 \/ s_last st' = s_last st) /\
    (pending st <> [] -> dropped ++ used <> []) /\
    map untag_d (fst (recv_tx reg (c_own c) tx)) = flat_map (direct (c_own c)) (flatten used) /\
    (snd (recv_tx reg (c_own c) tx) = 0 \/
     (snd (recv_tx reg (c_own c) tx) = E_COUNT /\ fst (recv_tx reg (c_own c) tx) = [] /\
      exists o, tx = TMulti o /\ c_in o = [])).
Proof. intros Hw [H1 H2]. apply step_spec; assumption. Qed.

Lemma flatten_app a b : flatten (a ++ b) = flatten a ++ flatten b.
Proof. apply flat_map_app. Qed.
Lemma flatten_plain l : Forall (fun p => is_cont p = false) l -> flatten l = l.
Proof.
  intro H. induction H as [|p l Hp _ IH]; [reflexivity|]. unfold flatten in *. cbn [flat_map].
  rewrite (expand_plain _ Hp), IH. reflexivity.
Qed.

Lemma app_length_lt {A} (a b c : list A) : a ++ b <> [] -> (length c < length (a ++ b ++ c))%nat.
Proof.
  intro H. rewrite app_assoc, app_length. destruct (a ++ b); [congruence|]. cbn [length]. lia.
Qed.

Lemma Forall_suffix {A} (P : A -> Prop) a b : Forall P (a ++ b) -> Forall P b.
Proof. intro H. apply Forall_app in H. apply H. Qed.

Lemma deliveries_cons s l : deliveries (s :: l) = st_dlv s ++ deliveries l.
Proof. reflexivity. Qed.

(* drain_delivers_queue, for every state and every fuel that exceeds the number of pending packets *)
Lemma drain_fuel_delivers c reg : wf_conf c -> forall fuel st,
  (length (pending st) < fuel)%nat -> qok c reg (pending st) ->
  map untag_d (deliveries (drain_fuel c reg fuel st)) =
  flat_map (direct (c_own c)) (flatten (abandon (c_own c) (s_last st) (pending st))).
Proof.
  intro Hw. induction fuel as [|f IH]; intros st Hf Hall; [lia|].
  cbn [drain_fuel]. destruct (session_next c st) as [[tx|] st'] eqn:E.
  - destruct (step_spec_q _ reg _ _ _ Hw Hall E) as [dropped [used [H1 [H2 [H3 [H4 [H5 _]]]]]]].
    destruct (recv_tx reg (c_own c) tx) as [d e]. cbn [fst] in H5.
    rewrite deliveries_cons. cbn [st_dlv]. rewrite map_app, H5, H2, flatten_app, flat_map_app. f_equal.
    destruct (pending st') as [|x r] eqn:Ep; [reflexivity|]. cbn [is_nil]. rewrite <- Ep in H1 |- *.
    clear H3.
    assert (Hne : pending st <> []).
    { intro Hc. rewrite Hc in H1. destruct dropped; [|discriminate]. destruct used; [|discriminate].
      cbn [app] in H1. rewrite Ep in H1. discriminate. }
    rewrite IH.
    + reflexivity.
    + pose proof (app_length_lt dropped used (pending st') (H4 Hne)) as HL. rewrite <- H1 in HL. lia.
    + rewrite H1 in Hall. apply qok_suffix in Hall. apply qok_suffix in Hall. exact Hall.
  - apply session_next_none in E. rewrite E. reflexivity.
Qed.

Lemma queueable_plain q : Forall (fun p => queueable p = true) q -> Forall (fun p => is_cont p = false) q.
Proof.
  intro H. rewrite Forall_forall in *. intros p Hp. apply packable_not_cont, queueable_packable, H, Hp.
Qed.

Lemma queue_qok c reg q :
  wf_conf c -> Forall (fun p => queueable p = true) q -> all_reg reg (c_own c) q -> qok c reg q.
Proof.
  intros [Hi HNP] H1 H2. split.
  - unfold all_reg in H2. rewrite Forall_forall in *. intros p Hp.
    apply src_ok_plain; [exact Hi|apply queueable_packable; apply H1; exact Hp|apply H2; exact Hp].
  - apply qbound_plain; [exact HNP|apply queueable_plain; exact H1].
Qed.

(* queues of ordinary packets and containers *)
Lemma item_ok_src_ok reg i p : i <> 0 -> item_ok reg i p = true -> src_ok reg i p.
Proof.
  intros Hi H. unfold item_ok in H. destruct (is_cont p) eqn:Ec.
  - unfold cont_ok in H. rewrite Ec in H. cbn [andb] in H.
    apply andb_prop in H. destruct H as [H H3]. apply andb_prop in H. destruct H as [H1 H2].
    rewrite forallb_forall in H3.
    unfold src_ok. rewrite expand_norm, Ec.
    split; [right; split; [exact Ec|split; lia]|]. split.
    + rewrite Forall_forall. intros v Hv. specialize (H3 v Hv).
      apply andb_prop in H3. destruct H3 as [H3 H5]. apply andb_prop in H3. destruct H3 as [H3 H4].
      unfold in_ok. split; [apply queueable_packable; exact H3|]. split; [lia|].
      apply orb_prop in H5. destruct H5 as [H5|H5]; [left; lia|right].
      apply andb_prop in H5. apply H5.
    + intro Ho. rewrite Forall_forall. intros v Hv. specialize (H3 v Hv).
      apply andb_prop in H3. destruct H3 as [_ H5]. apply orb_prop in H5. destruct H5 as [H5|H5]; [lia|].
      rewrite Ho in H5. discriminate.
  - apply andb_prop in H. destruct H as [H1 H2]. apply src_ok_plain; [exact Hi|apply queueable_packable; exact H1|].
    apply orb_prop in H2. exact H2.
Qed.

Lemma items_qok c reg q :
  wf_conf c -> Forall (fun p => item_ok reg (c_own c) p = true) q -> len (flatten q) <= FRAG_MAX -> qok c reg q.
Proof.
  intros [Hi _] H HB. split.
  - rewrite Forall_forall in *. intros p Hp. apply item_ok_src_ok; [exact Hi|apply H; exact Hp].
  - apply qbound_total. exact HB.
Qed.

(* drain_delivers_queue for queues that may hold containers: the delivered sequence is the flattening *)
Lemma drain_delivers_items c reg last q :
  wf_conf c -> Forall (fun p => item_ok reg (c_own c) p = true) q -> len (flatten q) <= FRAG_MAX ->
  map untag_d (deliveries (drain c reg (mkS q None last))) =
  flat_map (direct (c_own c)) (flatten (abandon (c_own c) last q)).
Proof.
  intros Hw Hq HB. unfold drain.
  rewrite (drain_fuel_delivers c reg Hw); [reflexivity|lia|]. apply items_qok; assumption.
Qed.

Lemma drain_delivers_queue c reg last q :
  wf_conf c -> Forall (fun p => queueable p = true) q -> all_reg reg (c_own c) q ->
  map untag_d (deliveries (drain c reg (mkS q None last))) =
  flat_map (direct (c_own c)) (abandon (c_own c) last q).
Proof.
  intros Hw Hq Hr. unfold drain.
  rewrite (drain_fuel_delivers c reg Hw); [|lia|apply queue_qok; assumption].
  cbn [s_last pending s_peek s_q]. rewrite flatten_plain; [reflexivity|].
  apply abandon_Forall. apply queueable_plain. exact Hq.
Qed.

(* every step of a drain is one call of next() on a state whose pending packets are a suffix of the queue *)
Lemma drain_fuel_steps c reg : wf_conf c -> forall fuel st s,
  qok c reg (pending st) ->
  In s (drain_fuel c reg fuel st) ->
  exists st0 pre, pending st = pre ++ pending st0 /\
    session_next c st0 = (Some (st_tx s), st_after s) /\
    recv_tx reg (c_own c) (st_tx s) = (st_dlv s, st_err s).
Proof.
  intro Hw. induction fuel as [|f IH]; intros st s Hall Hin; [destruct Hin|].
  cbn [drain_fuel] in Hin. destruct (session_next c st) as [[tx|] st'] eqn:E; [|destruct Hin].
  destruct (recv_tx reg (c_own c) tx) as [d e] eqn:ER.
  destruct Hin as [Hs|Hin].
  - subst s. exists st, []. cbn [st_tx st_after st_dlv st_err]. repeat split; assumption.
  - destruct (is_nil (pending st')); [destruct Hin|].
    destruct (step_spec_q _ reg _ _ _ Hw Hall E) as [dropped [used [H1 _]]].
    assert (Hall' : qok c reg (pending st')).
    { rewrite H1 in Hall. apply qok_suffix in Hall. apply qok_suffix in Hall. exact Hall. }
    destruct (IH _ _ Hall' Hin) as [st0 [pre [P1 P2]]].
    exists st0, (dropped ++ used ++ pre). split; [|exact P2].
    rewrite H1, P1. repeat rewrite <- app_assoc. reflexivity.
Qed.

(* progress: a call of next() with something pending consumes at least one packet *)
Lemma progress c reg st tx st' :
  wf_conf c -> qok c reg (pending st) ->
  session_next c st = (Some tx, st') -> pending st <> [] ->
  (length (pending st') < length (pending st))%nat /\ exists pre, pre <> [] /\ pending st = pre ++ pending st'.
Proof.
  intros Hw Hall H Hne.
  destruct (session_next_spec_q _ reg _ _ _ Hw Hall H) as [dropped [used [H1 [_ [_ [H4 _]]]]]].
  split.
  - pose proof (app_length_lt dropped used (pending st') (H4 Hne)) as HL. rewrite <- H1 in HL. exact HL.
  - exists (dropped ++ used). split; [exact (H4 Hne)|]. rewrite H1, app_assoc. reflexivity.
Qed.

(* the fuel of drain never runs out: more fuel changes nothing, and the last step leaves nothing pending *)
Lemma drain_fuel_stable c reg : wf_conf c -> forall f1 f2 st,
  (length (pending st) < f1)%nat -> (length (pending st) < f2)%nat ->
  qok c reg (pending st) ->
  drain_fuel c reg f1 st = drain_fuel c reg f2 st.
Proof.
  intro Hw. induction f1 as [|f1 IH]; intros f2 st H1 H2 Hall; [lia|].
  destruct f2 as [|f2]; [lia|]. cbn [drain_fuel].
  destruct (session_next c st) as [[tx|] st'] eqn:E; [|reflexivity].
  destruct (recv_tx reg (c_own c) tx) as [d e]. f_equal.
  destruct (pending st') as [|x r] eqn:Ep; [reflexivity|]. cbn [is_nil].
  assert (Hne : pending st <> []).
  { destruct (session_next_spec_q _ reg _ _ _ Hw Hall E) as [dropped [used [G1 [G2 _]]]].
    intro Hc. rewrite Hc in G1. destruct dropped; [|discriminate]. destruct used; [|discriminate].
    cbn [app] in G1. rewrite Ep in G1. discriminate. }
  destruct (progress _ reg _ _ _ Hw Hall E Hne) as [HL [pre [_ Hpre]]].
  apply IH; try lia. rewrite Hpre in Hall. apply qok_suffix in Hall. exact Hall.
Qed.

Lemma drain_fuel_ends_empty c reg : wf_conf c -> forall fuel st s,
  (length (pending st) < fuel)%nat -> qok c reg (pending st) ->
  last (drain_fuel c reg fuel st) s = s \/ pending (st_after (last (drain_fuel c reg fuel st) s)) = [].
Proof.
  intro Hw. induction fuel as [|f IH]; intros st s Hf Hall; [lia|].
  cbn [drain_fuel]. destruct (session_next c st) as [[tx|] st'] eqn:E; [|left; reflexivity].
  destruct (recv_tx reg (c_own c) tx) as [d e].
  destruct (pending st') as [|x r] eqn:Ep; cbn [is_nil].
  - right. cbn [last st_after]. exact Ep.
  - assert (Hne : pending st <> []).
    { destruct (session_next_spec_q _ reg _ _ _ Hw Hall E) as [dropped [used [G1 [G2 _]]]].
      intro Hc. rewrite Hc in G1. destruct dropped; [|discriminate]. destruct used; [|discriminate].
      cbn [app] in G1. rewrite Ep in G1. discriminate. }
    destruct (progress _ reg _ _ _ Hw Hall E Hne) as [HL [pre [_ Hpre]]].
    assert (Hall' : qok c reg (pending st')).
    { rewrite Hpre in Hall. apply qok_suffix in Hall. exact Hall. }
    assert (Hf' : (length (pending st') < f)%nat) by lia.
    set (s0 := mkStep tx st' d e).
    destruct (drain_fuel c reg f st') as [|y l] eqn:ED.
    + (* impossible: st' has pending packets, so next() returns something *)
      exfalso. destruct f as [|f']; [lia|]. cbn [drain_fuel] in ED.
      destruct (session_next c st') as [[tx2|] st2] eqn:E2.
      * destruct (recv_tx reg (c_own c) tx2); discriminate.
      * apply session_next_none in E2. rewrite Ep in E2. discriminate.
    + specialize (IH st' s0 Hf' Hall'). rewrite ED in IH.
      change (last (s0 :: y :: l) s) with (last (y :: l) s).
      assert (HL2 : forall a b : step, last (y :: l) a = last (y :: l) b).
      { clear. revert y. induction l as [|z l IHl]; intros y a b; [reflexivity|]. 
        change (last (y :: z :: l) a) with (last (z :: l) a). change (last (y :: z :: l) b) with (last (z :: l) b).
        apply IHl. }
      rewrite (HL2 s s0). destruct IH as [IH|IH]; [|right; exact IH].
      (* the last step would be s0 itself only if it were in the list: use the pending fact *)
      right. rewrite IH. cbn [s0 st_after].
      (* last (y :: l) s0 = s0 means the default was returned or the last element equals s0;
         in both cases we need pending st' = [] which contradicts Ep: derive from membership *)
      exfalso.
      assert (Hin : In (last (y :: l) s0) (y :: l)).
      { clear. revert y. induction l as [|z l IHl]; intro y; [left; reflexivity|].
        change (last (y :: z :: l) s0) with (last (z :: l) s0). right. apply IHl. }
      rewrite IH in Hin. rewrite <- ED in Hin.
      destruct (drain_fuel_steps c reg Hw _ _ _ Hall' Hin) as [st0 [pre0 [Q1 [Q2 _]]]].
      cbn [s0 st_tx st_after] in Q2.
      (* next() from st0 ends in st' while st0's pending is a suffix of st': no progress *)
      assert (Hall0 : qok c reg (pending st0)).
      { rewrite Q1 in Hall'. apply qok_suffix in Hall'. exact Hall'. }
      assert (Hne0 : pending st0 <> []).
      { intro Hc. destruct (session_next_spec_q _ reg _ _ _ Hw Hall0 Q2) as [dr [us [G1 _]]].
        rewrite Hc in G1. destruct dr; [|discriminate]. destruct us; [|discriminate].
        cbn [app] in G1. rewrite Ep in G1. discriminate. }
      destruct (progress _ reg _ _ _ Hw Hall0 Q2 Hne0) as [HL0 _].
      rewrite Q1, app_length in HL0. lia.
Qed.

(* ------------------------------------------------------------------ 6. carry-over, budget, keep-alive-only queues *)

(* the carried-over packet is never a keep-alive of our own (those are elided before the size test) *)
Lemma np_loop_carry F i : forall fuel l s m o o' x rest,
  np_loop F i fuel l s m o = (o', Some x, rest) -> is_nop x && is_own i x = false.
Proof.
  induction fuel as [|f IH]; intros l s m o o' x rest H; [cbn [np_loop] in H; discriminate|].
  destruct l as [|n r]; [cbn [np_loop] in H; discriminate|]. cbn [np_loop] in H.
  destruct (is_nop n && (((0 <? s) && negb m) || is_own i n)) eqn:E1; [exact (IH _ _ _ _ _ _ _ H)|].
  destruct ((0 <? s) && (F <? s + psize n)); [|exact (IH _ _ _ _ _ _ _ H)].
  inversion H; subst. destruct (is_nop x); [|reflexivity]. cbn [andb] in *.
  destruct (is_own i x); [|reflexivity]. rewrite orb_true_r in E1. discriminate.
Qed.

(* the loop on ordinary packets, started by nextPacket *)
Lemma np_loop_struct_plain0 F i fuel l o' k rest :
  np_loop F i fuel l 0 false (mkC i fl_multi [] []) = (o', k, rest) ->
  Forall (fun p => packable p = true) l -> Z.of_nat fuel <= 65535 ->
  exists used kept,
    l = used ++ optl k ++ rest /\ c_in o' = map (norm i) kept /\ incl kept used /\
    (fuel <> O -> l <> [] -> used <> []) /\
    f_len (c_fl o') = len (c_in o') /\ len (c_in o') <= Z.of_nat fuel.
Proof.
  intros H Hp Hf. destruct (plain_items i l Hp) as [A1 [A2 A3]].
  pose proof (cnt_plain_firstn fuel l A3) as Hc.
  destruct (np_loop_struct _ _ _ _ _ _ _ _ _ _ H A1 A2 eq_refl (fun _ => Forall_nil _) eq_refl)
    as [used [kept [H1 [H2 [_ [_ [_ [H6 [_ [H8 [H9 [_ H11]]]]]]]]]]]].
  { cbn [c_in]. rewrite len_nil. lia. }
  cbn [c_in app] in H2, H11. rewrite len_nil in H11.
  exists used, kept. split; [exact H1|]. split.
  - rewrite H2. apply flat_map_expand_plain. rewrite Forall_forall in *. intros p Hp'. apply A3.
    rewrite H1. apply in_or_app. left. apply H6. exact Hp'.
  - split; [exact H6|]. split; [exact (H8 eq_refl)|]. split; [exact H9|lia].
Qed.

Lemma np_loop_prefix F i : forall fuel l s m o o' k rest,
  np_loop F i fuel l s m o = (o', k, rest) -> Forall (fun p => packable p = true) l ->
  exists X, c_in o' = c_in o ++ X.
Proof.
  induction fuel as [|f IH]; intros l s m o o' k rest H Hp.
  - cbn [np_loop] in H. inversion H; subst. exists []. rewrite app_nil_r. reflexivity.
  - destruct l as [|n r]; [cbn [np_loop] in H; inversion H; subst; exists []; rewrite app_nil_r; reflexivity|].
    cbn [np_loop] in H. inversion Hp as [|? ? Hn Hr]; subst.
    destruct (is_nop n && (((0 <? s) && negb m) || is_own i n)); [exact (IH _ _ _ _ _ _ _ H Hr)|].
    destruct ((0 <? s) && (F <? s + psize n)); [inversion H; subst; exists []; rewrite app_nil_r; reflexivity|].
    assert (Hpn : packable (norm i n) = true) by (rewrite packable_norm; exact Hn).
    rewrite (write_unpack_packable _ (norm i n) Hpn) in H.
    destruct (IH _ _ _ _ _ _ _ H Hr) as [X HX]. cbn [c_in] in HX.
    exists (norm i n :: X). rewrite HX.
    destruct (negb (is_own i n) && negb m); cbn [c_in]; rewrite <- app_assoc; reflexivity.
Qed.

Lemma np_loop_first F i f n r o o' k rest :
  is_nop n && is_own i n = false -> Forall (fun p => packable p = true) (n :: r) ->
  np_loop F i (S f) (n :: r) 0 false o = (o', k, rest) -> c_in o = [] ->
  exists X, c_in o' = norm i n :: X.
Proof.
  intros Hn Hp H Ho. cbn [np_loop] in H. inversion Hp as [|? ? Hpn Hpr]; subst.
  change (0 <? 0) with false in H. cbn [andb orb] in H. rewrite Hn in H.
  set (md := negb (is_own i n) && negb false) in *.
  set (o1 := if md then mkC (c_dev o) (set_mdev (c_fl o)) (c_tags o) (c_in o) else o) in *.
  assert (Ha : c_in o1 = []) by (subst o1; destruct md; exact Ho).
  assert (Hpn' : packable (norm i n) = true) by (rewrite packable_norm; exact Hpn).
  rewrite (write_unpack_packable o1 (norm i n) Hpn') in H.
  destruct (np_loop_prefix _ _ _ _ _ _ _ _ _ _ H Hpr) as [X H2].
  cbn [c_in] in H2. rewrite Ha in H2. cbn [app] in H2. eexists. exact H2.
Qed.

Lemma first_packet_set_tags x g v :
  first_packet x = Some v -> exists v', first_packet (tx_set_tags x g) = Some v' /\ untag v' = untag v.
Proof.
  destruct x as [p|o]; cbn [first_packet tx_set_tags c_in].
  - intro H. inversion H; subst. eexists. split; reflexivity.
  - intro H. exists v. split; [exact H|reflexivity].
Qed.

Lemma as_tx_packable i p g : packable p = true -> as_tx (set_tags (norm i p) g) = TSingle (set_tags (norm i p) g).
Proof.
  intro H. unfold as_tx. change (is_cont (set_tags (norm i p) g)) with (is_cont (norm i p)).
  rewrite is_cont_norm, (packable_not_cont _ H). reflexivity.
Qed.
Lemma as_tx_packable_norm i p : packable p = true -> as_tx (norm i p) = TSingle (norm i p).
Proof. intro H. unfold as_tx. rewrite is_cont_norm, (packable_not_cont _ H). reflexivity. Qed.

Lemma next_packet_first F NP i n q t x k rest :
  next_packet F NP i (Some n) q t = (Some x, k, rest) ->
  is_nop n && is_own i n = false -> Forall (fun p => packable p = true) (n :: q) ->
  exists v, first_packet x = Some v /\ untag v = untag (norm i n).
Proof.
  intros H Hn Hp. unfold next_packet in H. inversion Hp as [|? ? Hpn Hpq]; subst.
  destruct ((NP <=? 1) || is_nil q) eqn:Efast.
  - destruct (is_own i n) eqn:Eo.
    + rewrite (as_tx_packable i n _ Hpn) in H. inversion H; subst. eexists. split; reflexivity.
    + rewrite (write_unpack_packable _ n Hpn) in H. inversion H; subst. cbn [first_packet c_in app].
      exists n. split; [reflexivity|]. rewrite (norm_foreign i n Eo). reflexivity.
  - apply orb_false_elim in Efast. destruct Efast as [E1 _].
    destruct (np_loop F i (Z.to_nat NP) (n :: q) 0 false (mkC i fl_multi [] [])) as [[o' k'] r'] eqn:EL.
    inversion H; subst. clear H.
    destruct (Z.to_nat NP) as [|f] eqn:EN; [lia|].
    destruct (np_loop_first _ _ _ _ _ _ _ _ _ Hn Hp EL eq_refl) as [X HX].
    exists (norm i n). split; [|reflexivity]. unfold unwrap.
    destruct ((f_len (c_fl o') =? 1) && negb (f_mdev (c_fl o'))).
    + rewrite HX. destruct X; cbn [first_packet c_in]; [reflexivity|]. rewrite HX. reflexivity.
    + cbn [first_packet]. rewrite HX. reflexivity.
Qed.

(* carry_over_never_lost: the packet that did not fit is peek and opens the next transmission *)
Lemma carry_over c st tx st' k :
  wf_conf c -> Forall (fun p => packable p = true) (pending st) ->
  session_next c st = (Some tx, st') -> s_peek st' = Some k ->
  In k (pending st) /\
  exists tx' st'', session_next c st' = (Some tx', st'') /\
    exists v, first_packet tx' = Some v /\ untag v = untag (norm (c_own c) k).
Proof.
  intros [Hi HNP] Hp H Hk.
  destruct (session_next_cases _ _ _ _ H) as [[p [_ [Hst _]]]|[[n0 [q [dropped [n1' [n1 [q1 [Hpe [Hsplit [_ [Hrel Hfin]]]]]]]]]]|[n0 [q [_ [_ [_ [_ Hst]]]]]]]].
  { subst st'. discriminate. }
  2:{ subst st'. discriminate. }
  unfold finish in Hfin.
  destruct (next_packet (c_frag c) (c_packets c) (c_own c) (Some n1) q1 (p_tags (retag c n0))) as [[o k'] rest] eqn:EN.
  inversion Hfin; subst st'. cbn [s_peek] in Hk. subst k'. clear Hfin.
  assert (Hsuf : Forall (fun p => packable p = true) (n1' :: q1)).
  { rewrite Hsplit in Hp. apply Forall_suffix in Hp. exact Hp. }
  assert (Hp1 : Forall (fun p => packable p = true) (n1 :: q1)).
  { inversion Hsuf as [|? ? Ha Hb]; subst. constructor; [|exact Hb].
    destruct Hrel as [Hr|Hr]; subst n1; [exact Ha|rewrite packable_retag; exact Ha]. }
  (* the first transmission went through the loop *)
  unfold next_packet in EN.
  destruct ((c_packets c <=? 1) || is_nil q1) eqn:Efast.
  { destruct (is_own (c_own c) n1); inversion EN. }
  destruct (np_loop (c_frag c) (c_own c) (Z.to_nat (c_packets c)) (n1 :: q1) 0 false (mkC (c_own c) fl_multi [] []))
    as [[o' k'] r'] eqn:EL.
  inversion EN; subst. clear EN.
  pose proof (np_loop_carry _ _ _ _ _ _ _ _ _ _ EL) as Hknop.
  destruct (np_loop_struct_plain0 _ _ _ _ _ _ _ EL Hp1 ltac:(lia)) as [used [kept [S1 [_ [_ [S8 _]]]]]].
  assert (Hfuel : Z.to_nat (c_packets c) <> O) by (apply orb_false_elim in Efast; lia).
  specialize (S8 Hfuel ltac:(discriminate)).
  destruct used as [|x u]; [congruence|]. cbn [app optl] in S1. injection S1 as Hx Hq1. subst x.
  assert (Hkin : In k q1) by (rewrite Hq1; apply in_or_app; right; left; reflexivity).
  assert (Hprest : Forall (fun p => packable p = true) (k :: rest)).
  { pose proof (Forall_inv_tail Hsuf) as Hb. rewrite Hq1 in Hb. apply Forall_suffix in Hb. exact Hb. }
  split.
  { rewrite Hsplit. apply in_or_app. right. right. exact Hkin. }
  (* the second transmission *)
  unfold session_next, pick. cbn [s_peek s_q s_last].
  change (match c_ptags c with Some t => set_tags k t | None => k end) with (retag c k).
  rewrite is_own_retag.
  assert (Hka : as_tx (norm (c_own c) (retag c k)) = TSingle (norm (c_own c) (retag c k))).
  { apply as_tx_packable_norm. rewrite packable_retag. inversion Hprest; assumption. }
  rewrite Hka.
  destruct (is_nil rest && is_own (c_own c) k).
  { eexists _, _. split; [reflexivity|]. eexists. split; [reflexivity|]. apply retag_untag_norm. }
  destruct (f_crypt (p_fl (retag c k)) && is_own (c_own c) k).
  { eexists _, _. split; [reflexivity|]. eexists. split; [reflexivity|]. apply retag_untag_norm. }
  change (0 <? 0) with false. cbn iota.
  unfold finish.
  destruct (next_packet (c_frag c) (c_packets c) (c_own c) (Some (retag c k)) rest (p_tags (retag c k)))
    as [[o2 k2] rest2] eqn:EN2.
  destruct o2 as [x2|]; [|apply next_packet_some in EN2; congruence].
  eexists _, _. split; [reflexivity|].
  assert (Hp2 : Forall (fun p => packable p = true) (retag c k :: rest)).
  { inversion Hprest; subst. constructor; [rewrite packable_retag|]; assumption. }
  assert (Hn2 : is_nop (retag c k) && is_own (c_own c) (retag c k) = false)
    by (rewrite is_nop_retag, is_own_retag; exact Hknop).
  destruct (next_packet_first _ _ _ _ _ _ _ _ _ EN2 Hn2 Hp2) as [v [Hv1 Hv2]].
  destruct (first_packet_set_tags x2 (merge_tags (tx_tags x2) (p_tags (retag c k))) v Hv1) as [v' [Hv'1 Hv'2]].
  exists v'. split; [exact Hv'1|]. rewrite Hv'2, Hv2. apply retag_untag_norm.
Qed.

(* batch_within_budget *)
Lemma p_len_retag c p : p_len (retag c p) = p_len p.
Proof. unfold retag. destruct (c_ptags c); reflexivity. Qed.

Lemma session_next_budget c st o st' :
  wf_conf c -> Forall (fun p => queueable p = true) (pending st) ->
  session_next c st = (Some (TMulti o), st') -> 1 < len (c_in o) ->
  sum_size (c_in o) <= c_frag c /\ len (c_in o) <= c_packets c /\ f_len (c_fl o) = len (c_in o).
Proof.
  intros [Hi HNP] Hq H Hlen.
  assert (Hplain : forall n0, In n0 (pending st) -> as_tx (norm (c_own c) (retag c n0)) = TSingle (norm (c_own c) (retag c n0))).
  { intros n0 Hin. apply as_tx_packable_norm. rewrite packable_retag. apply queueable_packable.
    rewrite Forall_forall in Hq. apply Hq. exact Hin. }
  destruct (session_next_cases _ _ _ _ H) as [[p [Hc [_ Hsub]]]|[[n0 [q [dropped [n1' [n1 [q1 [Hpe [Hsplit [_ [Hrel Hfin]]]]]]]]]]|[n0 [q [Hpe [_ [_ [Hc _]]]]]]]].
  { exfalso. destruct Hsub as [[_ Hp]|[[n0 [Hpe [_ Hp]]]|[n0 [q [_ [_ Hp]]]]]]; subst p.
    - rewrite (plain_as_tx (c_own c) c (keepalive (c_own c) []) eq_refl) in Hc. discriminate.
    - rewrite (Hplain n0) in Hc by (rewrite Hpe; left; reflexivity). discriminate.
    - discriminate. }
  2:{ rewrite (Hplain n0) in Hc by (rewrite Hpe; left; reflexivity). discriminate. }
  assert (Hsuf : Forall (fun p => packable p = true /\ 0 <= p_len p) (n1' :: q1)).
  { rewrite Hsplit in Hq. apply Forall_suffix in Hq. rewrite Forall_forall in *. intros x Hx.
    split; [apply queueable_packable|apply queueable_len]; apply Hq; exact Hx. }
  assert (Hp1 : Forall (fun p => packable p = true /\ 0 <= p_len p) (n1 :: q1)).
  { inversion Hsuf as [|? ? Ha Hb]; subst. constructor; [|exact Hb].
    destruct Hrel as [Hr|Hr]; subst n1; [exact Ha|rewrite packable_retag, p_len_retag; exact Ha]. }
  assert (Hp1' : Forall (fun p => packable p = true) (n1 :: q1)).
  { rewrite Forall_forall in *. intros x Hx. apply (Hp1 x Hx). }
  unfold finish in Hfin.
  destruct (next_packet (c_frag c) (c_packets c) (c_own c) (Some n1) q1 (p_tags (retag c n0))) as [[ox k'] rest] eqn:EN.
  destruct ox as [x|]; [|discriminate]. inversion Hfin as [[Hx Hst]]. clear Hfin.
  destruct x as [p|o0]; [discriminate|]. cbn [tx_set_tags] in Hx. inversion Hx; subst o. cbn [c_in c_fl] in *.
  clear Hx.
  unfold next_packet in EN.
  destruct ((c_packets c <=? 1) || is_nil q1) eqn:Efast.
  - inversion Hp1' as [|? ? Hpn _]; subst.
    destruct (is_own (c_own c) n1); [rewrite (as_tx_packable _ n1 _ Hpn) in EN; inversion EN|].
    rewrite (write_unpack_packable _ n1 Hpn) in EN. inversion EN; subst. cbn [c_in app] in Hlen.
    change (len [n1]) with 1 in Hlen. lia.
  - apply orb_false_elim in Efast. destruct Efast as [E1 _].
    destruct (np_loop (c_frag c) (c_own c) (Z.to_nat (c_packets c)) (n1 :: q1) 0 false (mkC (c_own c) fl_multi [] []))
      as [[o' k2] r'] eqn:EL.
    assert (Hun : unwrap o' = TMulti o0) by (inversion EN; reflexivity).
    assert (Ho : o0 = o').
    { unfold unwrap in Hun. destruct ((f_len (c_fl o') =? 1) && negb (f_mdev (c_fl o'))).
      - destruct (c_in o') as [|v [|w r]]; inversion Hun; reflexivity.
      - inversion Hun; reflexivity. }
    subst o0.
    destruct (np_loop_struct_plain0 _ _ _ _ _ _ _ EL Hp1' ltac:(lia)) as [_ [_ [_ [_ [_ [_ [G1 G2]]]]]]].
    pose proof (np_loop_budget _ _ _ _ _ _ _ _ _ _ EL Hp1 eq_refl (Forall_nil _)) as B.
    cbn [c_in] in B. specialize (B ltac:(right; rewrite len_nil; lia)).
    split; [destruct B; [assumption|lia]|]. split; [lia|exact G1].
Qed.

(* the observation: a queue of keep-alives only *)
Definition own_nop (i : Z) (p : packet) : bool := is_nop p && is_own i p.

Lemma np_loop_all_nop F i : forall fuel l s m o,
  Forall (fun p => own_nop i p = true) l -> np_loop F i fuel l s m o = (o, None, skipn fuel l).
Proof.
  induction fuel as [|f IH]; intros l s m o H; [reflexivity|].
  destruct l as [|n r]; [reflexivity|]. inversion H as [|? ? Hn Hr]; subst. cbn [np_loop skipn].
  unfold own_nop in Hn. apply andb_prop in Hn. destruct Hn as [Hn1 Hn2]. rewrite Hn1, Hn2, orb_true_r.
  cbn [andb]. apply IH. exact Hr.
Qed.

Lemma flags_eqb_crypt a b : flags_eqb a b = true -> f_crypt a = f_crypt b.
Proof.
  unfold flags_eqb. intro H. repeat (apply andb_prop in H; destruct H as [H ?]). apply eqb_prop. assumption.
Qed.

Lemma nop_not_crypt p : is_nop p = true -> f_crypt (p_fl p) = false.
Proof.
  unfold is_nop. intro H. apply andb_prop in H. destruct H as [_ H]. apply orb_prop in H.
  destruct H as [H|H]; apply flags_eqb_crypt in H; exact H.
Qed.

Lemma all_nop_rejected c reg q :
  wf_conf c -> 2 <= c_packets c -> (2 <= length q)%nat -> Forall (fun p => own_nop (c_own c) p = true) q ->
  exists o st', session_next c (mkS q None 0) = (Some (TMulti o), st') /\
    f_len (c_fl o) = 0 /\ c_in o = [] /\ recv_tx reg (c_own c) (TMulti o) = ([], E_COUNT).
Proof.
  intros [Hi HNP] H2 Hl Hall.
  destruct q as [|n0 [|p r]]; cbn [length] in Hl; try lia.
  unfold session_next, pick. cbn [s_peek s_q s_last].
  change (match c_ptags c with Some t => set_tags n0 t | None => n0 end) with (retag c n0).
  cbn [is_nil andb].
  assert (Hcr : f_crypt (p_fl (retag c n0)) = false).
  { rewrite p_fl_retag. inversion Hall as [|? ? Ha _]; subst. unfold own_nop in Ha. apply andb_prop in Ha.
    apply nop_not_crypt. apply Ha. }
  rewrite Hcr. cbn [andb]. change (0 <? 0) with false. cbn iota.
  unfold finish, next_packet. replace (c_packets c <=? 1) with false by lia. cbn [is_nil orb].
  rewrite np_loop_all_nop.
  2:{ inversion Hall as [|? ? Ha Hb]; subst. constructor; [|exact Hb].
      unfold own_nop in *. rewrite is_nop_retag, is_own_retag. exact Ha. }
  unfold unwrap. cbn [c_fl fl_multi f_len f_mdev c_in]. change (0 =? 1) with false. cbn [andb tx_set_tags tx_tags c_tags c_dev c_fl c_in].
  eexists _, _. split; [reflexivity|]. cbn [c_fl c_in f_len]. split; [reflexivity|]. split; [reflexivity|].
  cbn [recv_tx c_fl f_mdev c_dev f_len].
  replace (c_own c =? 0) with false by lia. cbn [fl_multi f_mdev]. rewrite (Z.eqb_refl (c_own c)). reflexivity.
Qed.

(* a queue with at least one packet that is not a keep-alive: errors can only stem from an empty container *)
Lemma drain_errors c reg last q s :
  wf_conf c -> Forall (fun p => queueable p = true) q -> all_reg reg (c_own c) q ->
  In s (drain c reg (mkS q None last)) ->
  st_err s = 0 \/ (st_err s = E_COUNT /\ st_dlv s = [] /\ exists o, st_tx s = TMulti o /\ c_in o = []).
Proof.
  intros Hw Hq Hr Hin.
  pose proof (queue_qok c reg _ Hw Hq Hr) as Hall.
  destruct (drain_fuel_steps c reg Hw _ (mkS q None last) _ Hall Hin) as [st0 [pre [P1 [P2 P3]]]].
  assert (Hall0 : qok c reg (pending st0)).
  { change (pending (mkS q None last)) with q in P1. rewrite P1 in Hall. apply qok_suffix in Hall. exact Hall. }
  destruct (step_spec_q _ reg _ _ _ Hw Hall0 P2) as [_ [_ [_ [_ [_ [_ [_ He]]]]]]].
  rewrite P3 in He. cbn [fst snd] in He. exact He.
Qed.

(* ------------------------------------------------------------------ 7. corollaries in the form used by Props/C03.v *)

Lemma direct_nop i p : is_nop p = true -> direct i p = [].
Proof. intro H. rewrite direct_direct'. apply direct'_nop. rewrite is_nop_untag, is_nop_norm. exact H. Qed.

Lemma flat_map_direct_plain i l :
  i <> 0 -> Forall (fun p => queueable p = true /\ (is_nop p = true \/ plain p = true)) l ->
  flat_map (direct i) l = map (to_own i) (nonnop l).
Proof.
  intros Hi H. induction H as [|p l [Hq Hp] _ IH]; [reflexivity|].
  cbn [flat_map]. unfold nonnop in *. cbn [filter]. destruct (is_nop p) eqn:En; cbn [negb].
  - rewrite direct_nop by assumption. exact IH.
  - destruct Hp as [Hp|Hp]; [discriminate|]. rewrite (direct_plain i p Hi Hq Hp En). cbn [map app]. f_equal. exact IH.
Qed.

Lemma drain_delivers_plain c reg last q :
  wf_conf c -> Forall (fun p => queueable p = true /\ (is_nop p = true \/ plain p = true)) q ->
  all_reg reg (c_own c) q ->
  map untag_d (deliveries (drain c reg (mkS q None last))) =
  map (to_own (c_own c)) (filter (fun p => negb (is_nop p)) (abandon (c_own c) last q)).
Proof.
  intros Hw Hq Hr.
  assert (Hq' : Forall (fun p => queueable p = true) q).
  { rewrite Forall_forall in *. intros p Hp. apply (Hq p Hp). }
  rewrite (drain_delivers_queue c reg last q Hw Hq' Hr).
  apply flat_map_direct_plain; [apply Hw|]. apply abandon_Forall. exact Hq.
Qed.

Lemma drain_terminates c reg lg q :
  wf_conf c -> Forall (fun p => queueable p = true) q -> all_reg reg (c_own c) q ->
  (forall extra, drain_fuel c reg (S (length q) + extra) (mkS q None lg) = drain c reg (mkS q None lg)) /\
  (forall s, In s (drain c reg (mkS q None lg)) ->
     exists st0 pre, q = pre ++ pending st0 /\ session_next c st0 = (Some (st_tx s), st_after s) /\
                     (pending st0 <> [] -> (length (pending (st_after s)) < length (pending st0))%nat)) /\
  (forall s0, drain c reg (mkS q None lg) = [] \/
              pending (st_after (last (drain c reg (mkS q None lg)) s0)) = []).
Proof.
  intros Hw Hq Hr. pose proof (queue_qok c reg _ Hw Hq Hr) as Hall. split; [|split].
  - intro extra. unfold drain. apply (drain_fuel_stable c reg Hw); cbn [pending s_peek s_q]; try lia. exact Hall.
  - intros s Hin.
    destruct (drain_fuel_steps c reg Hw _ (mkS q None lg) _ Hall Hin) as [st0 [pre [P1 [P2 _]]]].
    exists st0, pre. split; [exact P1|]. split; [exact P2|]. intro Hne.
    assert (Hall0 : qok c reg (pending st0)).
    { change (pending (mkS q None lg)) with q in P1. rewrite P1 in Hall. apply qok_suffix in Hall. exact Hall. }
    apply (progress c reg st0 _ _ Hw Hall0 P2 Hne).
  - intro s0. unfold drain.
    destruct (drain_fuel c reg (S (length (pending (mkS q None lg)))) (mkS q None lg)) as [|y l] eqn:ED;
      [left; reflexivity|right].
    pose proof (drain_fuel_ends_empty c reg Hw (S (length (pending (mkS q None lg)))) (mkS q None lg)
                  (mkStep (TSingle (keepalive 0 [])) (mkS [] None 0) [] 0) ltac:(lia) Hall) as HE.
    rewrite ED in HE.
    assert (HL2 : forall a b : step, last (y :: l) a = last (y :: l) b).
    { clear. revert y. induction l as [|z l IHl]; intros y a b; [reflexivity|].
      change (last (y :: z :: l) a) with (last (z :: l) a). change (last (y :: z :: l) b) with (last (z :: l) b).
      apply IHl. }
    rewrite (HL2 s0 (mkStep (TSingle (keepalive 0 [])) (mkS [] None 0) [] 0)).
    destruct HE as [HE|HE]; [rewrite HE; reflexivity|exact HE].
Qed.

Lemma drain_batches_within_budget c reg last q s o :
  wf_conf c -> Forall (fun p => queueable p = true) q -> all_reg reg (c_own c) q ->
  In s (drain c reg (mkS q None last)) -> st_tx s = TMulti o -> 1 < len (c_in o) ->
  sum_size (c_in o) <= c_frag c /\ len (c_in o) <= c_packets c /\ f_len (c_fl o) = len (c_in o).
Proof.
  intros Hw Hq Hr Hin Htx Hlen. pose proof (queue_qok c reg _ Hw Hq Hr) as Hall.
  destruct (drain_fuel_steps c reg Hw _ (mkS q None last) _ Hall Hin) as [st0 [pre [P1 [P2 _]]]].
  rewrite Htx in P2. change (pending (mkS q None last)) with q in P1.
  apply (session_next_budget c st0 o (st_after s) Hw); [|exact P2|exact Hlen].
  rewrite P1 in Hq. apply Forall_suffix in Hq. exact Hq.
Qed.

Lemma session_next_tags c reg st tx st' :
  wf_conf c -> Forall (fun p => queueable p = true) (pending st) -> all_reg reg (c_own c) (pending st) ->
  session_next c st = (Some tx, st') ->
  forall y, In y (tx_tags tx) <-> In y (first_tags c st) \/ exists v, In v (tx_packets tx) /\ In y (p_tags v).
Proof.
  intros Hw Hq Hr H. pose proof (queue_qok c reg _ Hw Hq Hr) as Hall.
  destruct (session_next_spec_q _ reg _ _ _ Hw Hall H) as [_ [_ [_ [_ [_ [_ [_ [_ HT]]]]]]]]. apply HT. apply queueable_plain. exact Hq.
Qed.

Lemma carry_over_q c st tx st' k :
  wf_conf c -> Forall (fun p => queueable p = true) (pending st) ->
  session_next c st = (Some tx, st') -> s_peek st' = Some k ->
  In k (pending st) /\
  exists tx' st'', session_next c st' = (Some tx', st'') /\
    exists v, first_packet tx' = Some v /\ untag v = untag (norm (c_own c) k).
Proof.
  intros Hw Hq. apply carry_over; [exact Hw|].
  rewrite Forall_forall in *. intros p Hp. apply queueable_packable. apply Hq. exact Hp.
Qed.

Lemma progress_q c reg st tx st' :
  wf_conf c -> Forall (fun p => queueable p = true) (pending st) -> all_reg reg (c_own c) (pending st) ->
  session_next c st = (Some tx, st') -> pending st <> [] ->
  (length (pending st') < length (pending st))%nat /\ exists pre, pre <> [] /\ pending st = pre ++ pending st'.
Proof.
  intros Hw Hq Hr. apply (progress c reg); [exact Hw|]. apply queue_qok; assumption.
Qed.

(* ------------------------------------------------------------------ 8. the proxy's queue for one of its clients *)
(* c2/proxy.go proxyClient.pick / next (pc_next) and the client's receive(s, nil, n) (recv_client).
   Every packet in such a queue is for the client's device (Proxy.accept routes by device). *)

Definition noreg (_ : Z) : bool := false.

Lemma recv_client_spec i t :
  i <> 0 -> wf_tx noreg i t ->
  map untag_d (fst (recv_client i t)) = flat_map direct' (map untag (tx_packets t)) /\
  (snd (recv_client i t) = 0 \/
   (snd (recv_client i t) = E_COUNT /\ fst (recv_client i t) = [] /\ exists o, t = TMulti o /\ c_in o = [])).
Proof.
  intros Hi Hw. destruct t as [p|o]; cbn [wf_tx tx_packets recv_client] in *.
  - destruct Hw as [Hd Hp]. destruct (handle_untag i p) as [H1 H2]. split.
    + rewrite H1. cbn [map flat_map]. rewrite app_nil_r. unfold direct'.
      change (p_dev (untag p)) with (p_dev p). rewrite Hd. reflexivity.
    + left. pose proof (handle_no_err p) as Hn. rewrite Hd in Hn. apply Hn; assumption.
  - destruct Hw as [Hd [Hl [Hb [Hall _]]]].
    rewrite Hd. replace (i =? 0) with false by lia. rewrite (Z.eqb_refl i). cbn [negb]. rewrite andb_false_r.
    destruct (f_len (c_fl o) =? 0) eqn:E0.
    + assert (Hnil : c_in o = []) by (apply len_zero_nil; lia).
      split; [rewrite Hnil; reflexivity|]. right. cbn [snd fst].
      split; [reflexivity|]. split; [reflexivity|]. exists o. split; [reflexivity|assumption].
    + assert (Hown : Forall (fun v => packable v = true /\ p_dev v = i) (c_in o)).
      { rewrite Forall_forall in *. intros v Hv. destruct (Hall v Hv) as [A [_ [B|B]]]; [split; assumption|discriminate]. }
      rewrite Hl, to_nat_len, recv_inner_spec by assumption.
      cbn [fst snd]. split; [|left; reflexivity].
      rewrite map_flat_map, flat_map_map.
      clear - Hown. induction Hown as [|v l [_ Hv] _ IH]; [reflexivity|]. cbn [flat_map].
      rewrite IH. f_equal. destruct (handle_untag i v) as [H1 _]. rewrite H1. unfold direct'.
      change (p_dev (untag v)) with (p_dev v). rewrite Hv. reflexivity.
Qed.

(* one poll: what it consumes, what it sends, what it leaves (the peek slot is emptied by pick) *)
Lemma pc_next_spec c st tx st' :
  wf_conf c -> qok c noreg (pending st) ->
  pc_next c st = (Some tx, st') ->
  exists used,
    pending st = used ++ pending st' /\
    (pending st <> [] -> used <> []) /\
    nonnop (map untag (tx_packets tx)) = nonnop (sent (c_own c) used) /\
    wf_tx noreg (c_own c) tx.
Proof.
  intros [Hi HNP] [Hall HQ] H. unfold pc_next in H.
  destruct (pick_spec c st) as [[Hp Hk]|[n0 [q [Hp Hk]]]]; rewrite Hk in H.
  - destruct (c_inter c); [discriminate|]. rewrite keepalive_own in H. cbn [is_nil andb] in H.
    inversion H; subst. exists []. rewrite Hp. change (pending (mkS [] None 0)) with (@nil packet).
    split; [reflexivity|]. split; [congruence|].
    rewrite (as_tx_packable_norm (c_own c) (keepalive (c_own c) []) eq_refl). split.
    + cbn [tx_packets map]. rewrite nonnop_cons_nop; [reflexivity|]. rewrite is_nop_untag, is_nop_norm. reflexivity.
    + cbn [wf_tx]. split; [apply norm_own_dev; apply keepalive_own|]. rewrite packable_norm. reflexivity.
  - rewrite Hp in Hall, HQ |- *. inversion Hall as [|? ? Hn0 Hq]; subst.
    destruct (is_nil q && is_own (c_own c) n0) eqn:E1.
    + inversion H; subst. apply andb_prop in E1. destruct E1 as [Eq Eo]. destruct q; [|discriminate].
      exists [n0]. change (pending (mkS [] None 0)) with (@nil packet).
      split; [reflexivity|]. split; [congruence|]. split.
      * rewrite tx_packets_as_tx. unfold sent. cbn [map flat_map]. rewrite app_nil_r. reflexivity.
      * apply wf_tx_as_tx_norm; [exact Hi|exact Hn0|exact Eo|]. rewrite len_expand_norm.
        pose proof (qbound_here _ _ HQ) as HB.
        pose proof (cnt_firstn_head (Z.to_nat (Z.max (c_packets c) 1)) n0 [] ltac:(lia)). lia.
    + destruct (next_packet (c_frag c) (c_packets c) (c_own c) (Some n0) q (p_tags n0)) as [[o k] rest] eqn:EN.
      destruct (next_packet_spec noreg _ _ _ _ _ _ _ _ _ EN Hi Hall (qbound_here _ _ HQ))
        as [x [u [kept [H0 [H1 [H2 [H3 [H4 [H5 _]]]]]]]]].
      subst o. inversion H; subst. exists (n0 :: u). rewrite pending_mkS.
      split; [reflexivity|]. split; [congruence|]. split; [|exact H5].
      change (map untag (flat_map expand (map (norm (c_own c)) kept))) with (sent (c_own c) kept) in H2.
      rewrite H2, sent_nonnop, H3, <- sent_nonnop. reflexivity.
Qed.

Lemma pc_step_spec c st tx st' :
  wf_conf c -> qok c noreg (pending st) ->
  pc_next c st = (Some tx, st') ->
  exists used,
    pending st = used ++ pending st' /\ (pending st <> [] -> used <> []) /\
    map untag_d (fst (recv_client (c_own c) tx)) = flat_map (direct (c_own c)) (flatten used) /\
    nonnop (map untag (tx_packets tx)) = nonnop (sent (c_own c) used).
Proof.
  intros Hw Hall H. destruct (pc_next_spec _ _ _ _ Hw Hall H) as [used [H1 [H2 [H3 H4]]]].
  exists used. split; [exact H1|]. split; [exact H2|]. split; [|exact H3].
  destruct Hw as [Hi _]. destruct (recv_client_spec _ _ Hi H4) as [R1 _].
  rewrite R1, <- flat_map_direct'_nonnop, H3, flat_map_direct'_nonnop. apply (sent_direct noreg).
  destruct Hall as [Hall _]. rewrite H1 in Hall. apply Forall_app in Hall. apply Hall.
Qed.

(* polls with nothing pending yield keep-alives only and deliver nothing *)
Lemma pc_polls_idle c : wf_conf c -> forall n st s,
  pending st = [] -> In s (pc_polls c n st) ->
  st_dlv s = [] /\ nonnop (map untag (tx_packets (st_tx s))) = [] /\ pending (st_after s) = [].
Proof.
  intro Hw. induction n as [|n IH]; intros st s Hp Hin; [destruct Hin|].
  cbn [pc_polls] in Hin. destruct (pc_next c st) as [[tx|] st'] eqn:E; [|destruct Hin].
  assert (Hall : qok c noreg (pending st)) by (rewrite Hp; apply qok_nil).
  destruct (pc_step_spec _ _ _ _ Hw Hall E) as [used [H1 [_ [H3 H4]]]].
  rewrite Hp in H1. symmetry in H1. apply app_eq_nil in H1. destruct H1 as [Hu Hp']. subst used.
  destruct (recv_client (c_own c) tx) as [d e]. cbn [fst flatten flat_map] in H3. apply map_eq_nil in H3. subst d.
  destruct Hin as [Hs|Hin].
  - subst s. cbn [st_dlv st_tx st_after]. split; [reflexivity|]. split; [exact H4|exact Hp'].
  - exact (IH _ _ Hp' Hin).
Qed.

Lemma pc_polls_deliver_nothing c : wf_conf c -> forall n st,
  pending st = [] -> deliveries (pc_polls c n st) = [].
Proof.
  intros Hw n st Hp.
  assert (H : forall s, In s (pc_polls c n st) -> st_dlv s = []).
  { intros s Hs. apply (pc_polls_idle c Hw n st s Hp Hs). }
  unfold deliveries. induction (pc_polls c n st) as [|s l IH]; [reflexivity|]. cbn [flat_map].
  rewrite (H s (or_introl eq_refl)), IH; [reflexivity|]. intros x Hx. apply H. right. exact Hx.
Qed.

Lemma pc_next_none c st st' : pc_next c st = (None, st') -> pending st = [].
Proof.
  unfold pc_next. destruct (pick_spec c st) as [[Hp Hk]|[n0 [q [Hp Hk]]]]; rewrite Hk; [intros _; exact Hp|].
  intro H. exfalso. destruct (is_nil q && is_own (c_own c) n0); [discriminate|].
  destruct (next_packet (c_frag c) (c_packets c) (c_own c) (Some n0) q (p_tags n0)) as [[o k] rest] eqn:EN.
  apply next_packet_some in EN. inversion H; subst. congruence.
Qed.

(* drain_delivers_queue for the proxy's queue, extra polls included *)
Lemma pc_drain_fuel_delivers c extra : wf_conf c -> forall fuel st,
  (length (pending st) < fuel)%nat -> qok c noreg (pending st) ->
  map untag_d (deliveries (pc_drain_fuel c extra fuel st)) = flat_map (direct (c_own c)) (flatten (pending st)).
Proof.
  intro Hw. induction fuel as [|f IH]; intros st Hf Hall; [lia|].
  cbn [pc_drain_fuel]. destruct (pc_next c st) as [[tx|] st'] eqn:E.
  - destruct (pc_step_spec _ _ _ _ Hw Hall E) as [used [H1 [H2 [H3 _]]]].
    destruct (recv_client (c_own c) tx) as [d e]. cbn [fst] in H3.
    rewrite deliveries_cons. cbn [st_dlv]. rewrite map_app, H3.
    replace (flatten (pending st)) with (flatten (used ++ pending st')) by (rewrite <- H1; reflexivity).
    rewrite flatten_app, flat_map_app. f_equal.
    destruct (is_nil (pending st')) eqn:En.
    + assert (Hp' : pending st' = []) by (destruct (pending st'); [reflexivity|discriminate]).
      rewrite (pc_polls_deliver_nothing c Hw extra st' Hp'), Hp'. reflexivity.
    + assert (Hne : pending st <> []).
      { intro Hc. rewrite Hc in H1. symmetry in H1. apply app_eq_nil in H1. destruct H1 as [_ H1].
        rewrite H1 in En. discriminate. }
      apply IH.
      * specialize (H2 Hne). rewrite H1, app_length in Hf. destruct used; [congruence|]. cbn [length] in Hf. lia.
      * rewrite H1 in Hall. apply qok_suffix in Hall. exact Hall.
  - apply pc_next_none in E. rewrite E. reflexivity.
Qed.

Lemma pc_queue_qok c q :
  wf_conf c -> Forall (fun p => queueable p = true) q -> Forall (fun p => is_own (c_own c) p = true) q ->
  qok c noreg q.
Proof.
  intros [Hi HNP] H1 H2. split.
  - rewrite Forall_forall in *. intros p Hp.
    apply src_ok_plain; [exact Hi|apply queueable_packable; apply H1; exact Hp|left; apply H2; exact Hp].
  - apply qbound_plain; [exact HNP|apply queueable_plain; exact H1].
Qed.

(* the proxy's queue may hold containers as well (the batch the server sent for the client) *)
Lemma pc_drain_delivers_items c extra q :
  wf_conf c -> Forall (fun p => item_ok noreg (c_own c) p = true) q -> len (flatten q) <= FRAG_MAX ->
  map untag_d (deliveries (pc_drain c extra (mkS q None 0))) = flat_map (direct (c_own c)) (flatten q).
Proof.
  intros Hw Hq HB. unfold pc_drain.
  rewrite (pc_drain_fuel_delivers c extra Hw); [reflexivity|lia|]. apply items_qok; assumption.
Qed.

Lemma pc_drain_delivers_queue c extra q :
  wf_conf c -> Forall (fun p => queueable p = true) q -> Forall (fun p => is_own (c_own c) p = true) q ->
  map untag_d (deliveries (pc_drain c extra (mkS q None 0))) = flat_map (direct (c_own c)) q.
Proof.
  intros Hw Hq Ho. unfold pc_drain.
  rewrite (pc_drain_fuel_delivers c extra Hw); [|lia|apply pc_queue_qok; assumption].
  cbn [pending s_peek s_q]. rewrite flatten_plain; [reflexivity|apply queueable_plain; exact Hq].
Qed.

Lemma pc_drain_delivers_plain c extra q :
  wf_conf c -> Forall (fun p => queueable p = true /\ (is_nop p = true \/ plain p = true)) q ->
  Forall (fun p => is_own (c_own c) p = true) q ->
  map untag_d (deliveries (pc_drain c extra (mkS q None 0))) =
  map (to_own (c_own c)) (filter (fun p => negb (is_nop p)) q).
Proof.
  intros Hw Hq Ho.
  assert (Hq' : Forall (fun p => queueable p = true) q).
  { rewrite Forall_forall in *. intros p Hp. apply (Hq p Hp). }
  rewrite (pc_drain_delivers_queue c extra q Hw Hq' Ho).
  apply flat_map_direct_plain; [apply Hw|exact Hq].
Qed.

(* once nothing is pending, further polls only ever yield keep-alives *)
Lemma pc_idle_polls_only_keepalives c n st s :
  wf_conf c -> pending st = [] -> In s (pc_polls c n st) ->
  st_dlv s = [] /\ (forall p, In p (tx_packets (st_tx s)) -> is_nop p = true) /\ pending (st_after s) = [].
Proof.
  intros Hw Hp Hin. destruct (pc_polls_idle c Hw n st s Hp Hin) as [H1 [H2 H3]].
  split; [exact H1|]. split; [|exact H3]. intros p Hin'.
  destruct (is_nop p) eqn:En; [reflexivity|]. exfalso.
  assert (Hx : In (untag p) (nonnop (map untag (tx_packets (st_tx s))))).
  { unfold nonnop. apply filter_In. split; [apply in_map; exact Hin'|]. rewrite is_nop_untag, En. reflexivity. }
  rewrite H2 in Hx. destruct Hx.
Qed.

(* carry_over_never_lost for the proxy's queue: the carried packet is peek, opens the next
   transmission, and the slot is empty again unless that transmission carries over another packet *)
Lemma pc_carry_over c st tx st' k :
  wf_conf c -> Forall (fun p => packable p = true) (pending st) ->
  pc_next c st = (Some tx, st') -> s_peek st' = Some k ->
  In k (pending st) /\
  exists tx' st'', pc_next c st' = (Some tx', st'') /\
    (exists v, first_packet tx' = Some v /\ untag v = untag (norm (c_own c) k)) /\
    (forall k', s_peek st'' = Some k' -> In k' (s_q st')).
Proof.
  intros [Hi HNP] Hp H Hk. unfold pc_next in H.
  destruct (pick_spec c st) as [[Hpe Hpk]|[n0 [q [Hpe Hpk]]]]; rewrite Hpk in H.
  { destruct (c_inter c); [discriminate|]. rewrite keepalive_own in H. cbn [is_nil andb] in H.
    inversion H; subst. discriminate. }
  destruct (is_nil q && is_own (c_own c) n0); [inversion H; subst; discriminate|].
  destruct (next_packet (c_frag c) (c_packets c) (c_own c) (Some n0) q (p_tags n0)) as [[o k0] rest] eqn:EN.
  inversion H; subst st'. cbn [s_peek] in Hk. subst k0. clear H.
  rewrite Hpe in Hp.
  unfold next_packet in EN.
  destruct ((c_packets c <=? 1) || is_nil q) eqn:Efast.
  { destruct (is_own (c_own c) n0); inversion EN. }
  destruct (np_loop (c_frag c) (c_own c) (Z.to_nat (c_packets c)) (n0 :: q) 0 false (mkC (c_own c) fl_multi [] []))
    as [[o' k'] r'] eqn:EL.
  inversion EN; subst. clear EN.
  pose proof (np_loop_carry _ _ _ _ _ _ _ _ _ _ EL) as Hknop.
  destruct (np_loop_struct_plain0 _ _ _ _ _ _ _ EL Hp ltac:(lia)) as [used [kept [S1 _]]].
  assert (Hkin : In k (n0 :: q)) by (rewrite S1; apply in_or_app; right; left; reflexivity).
  assert (Hprest : Forall (fun p => packable p = true) (k :: rest)).
  { rewrite S1 in Hp. apply Forall_suffix in Hp. exact Hp. }
  split; [rewrite Hpe; exact Hkin|].
  unfold pc_next, pick. cbn [s_peek s_q].
  assert (Hka : as_tx (norm (c_own c) k) = TSingle (norm (c_own c) k)).
  { apply as_tx_packable_norm. inversion Hprest; assumption. }
  rewrite Hka.
  destruct (is_nil rest && is_own (c_own c) k).
  { eexists _, _. split; [reflexivity|]. split; [eexists; split; reflexivity|]. intros k' Hk'. discriminate. }
  destruct (next_packet (c_frag c) (c_packets c) (c_own c) (Some k) rest (p_tags k)) as [[o2 k2] rest2] eqn:EN2.
  destruct o2 as [x2|]; [|apply next_packet_some in EN2; congruence].
  eexists _, _. split; [reflexivity|]. split.
  - apply (next_packet_first _ _ _ _ _ _ _ _ _ EN2 Hknop Hprest).
  - cbn [s_peek]. intros k' Hk'. subst k2.
    unfold next_packet in EN2.
    destruct ((c_packets c <=? 1) || is_nil rest) eqn:Efast2; [destruct (is_own (c_own c) k); inversion EN2|].
    destruct (np_loop (c_frag c) (c_own c) (Z.to_nat (c_packets c)) (k :: rest) 0 false (mkC (c_own c) fl_multi [] []))
      as [[o3 k3] r3] eqn:EL2.
    inversion EN2; subst.
    destruct (np_loop_struct_plain0 _ _ _ _ _ _ _ EL2 Hprest ltac:(lia)) as [used2 [kept2 [T1 [_ [_ [T8 _]]]]]].
    assert (Hfuel : Z.to_nat (c_packets c) <> O) by (apply orb_false_elim in Efast; lia).
    specialize (T8 Hfuel ltac:(discriminate)).
    destruct used2 as [|x u2]; [congruence|]. cbn [app optl] in T1. injection T1 as _ T1.
    rewrite T1. apply in_or_app. right. left. reflexivity.
Qed.

(* proxyClient.next is Session.next without proxy tags, key-material rule, abandoned group and
   mergeTags: on a session without active proxy, with state.Last = 0 and no key material picked,
   the two functions consume and leave the same packets and build the same transmission; the
   session then merges the tags it started from into it *)
Lemma session_next_is_pc_next c st :
  c_ptags c = None -> s_last st = 0 ->
  (forall n0 q, pending st = n0 :: q -> q <> [] -> f_crypt (p_fl n0) && is_own (c_own c) n0 = false) ->
  snd (session_next c st) = snd (pc_next c st) /\
  match fst (pc_next c st), fst (session_next c st) with
  | Some x, Some y => y = x \/ y = tx_set_tags x (merge_tags (tx_tags x) (first_tags c st))
  | None, None => True
  | _, _ => False
  end.
Proof.
  intros Hpt Hl Hcr. rewrite first_tags_spec. unfold session_next, pc_next, retag. rewrite Hpt, Hl.
  destruct (pick_spec c st) as [[Hp Hk]|[n0 [q [Hp Hk]]]]; rewrite Hk, Hp.
  - destruct (c_inter c); cbn [fst snd]; [split; [reflexivity|exact I]|].
    rewrite keepalive_own. cbn [is_nil andb fst snd]. split; [reflexivity|left; reflexivity].
  - destruct (is_nil q && is_own (c_own c) n0) eqn:E1; cbn [fst snd]; [split; [reflexivity|left; reflexivity]|].
    destruct (f_crypt (p_fl n0) && is_own (c_own c) n0) eqn:EC.
    { exfalso. assert (Hq : q <> []).
      { intro Hq. subst q. apply andb_prop in EC. destruct EC as [_ EC]. rewrite EC in E1. discriminate. }
      rewrite (Hcr n0 q Hp Hq) in EC. discriminate. }
    change (0 <? 0) with false. cbn iota. unfold finish.
    destruct (next_packet (c_frag c) (c_packets c) (c_own c) (Some n0) q (p_tags n0)) as [[o k] rest].
    cbn [fst snd]. split; [reflexivity|]. destruct o; [right; reflexivity|exact I].
Qed.

(* ------------------------------------------------------------------ 9. the receiver hosts a Proxy *)
(* receive(s, nil, n) on a client Session with an active Proxy (recv_host): every sub-packet goes to the
   destination its Device names - the host's own handlers, or the queue of that proxied client. *)

Lemma handle_h_own prox i v : p_dev v = i -> handle_h prox i v = handle i v.
Proof.
  intro H. unfold handle_h. rewrite H, Z.eqb_refl. cbn [negb]. rewrite andb_false_r. reflexivity.
Qed.

Lemma handle_h_nop prox i v : is_nop v = true -> handle_h prox i v = ([], 0).
Proof.
  intro H. unfold handle_h. rewrite H, orb_true_r. cbn [negb andb]. apply handle_nop. exact H.
Qed.

Lemma handle_h_untag prox i v :
  map untag_d (fst (handle_h prox i v)) = fst (handle_h prox i (untag v)) /\
  snd (handle_h prox i v) = snd (handle_h prox i (untag v)).
Proof.
  unfold handle_h. change (p_dev (untag v)) with (p_dev v). change (is_nop (untag v)) with (is_nop v).
  change (p_fl (untag v)) with (p_fl v).
  destruct (negb ((p_dev v =? 0) || is_nop v) && negb (f_mdev (p_fl v)) && negb (i =? p_dev v) && prox (p_dev v)).
  - split; reflexivity.
  - apply handle_untag.
Qed.

Lemma handle_h_no_err prox i v : in_ok prox i v -> snd (handle_h prox i v) = 0.
Proof.
  intros [Hp [Hd Hr]]. destruct (i =? p_dev v) eqn:E.
  - assert (He : p_dev v = i) by lia. rewrite (handle_h_own _ _ _ He). rewrite <- He. apply handle_no_err; assumption.
  - destruct (is_nop v) eqn:En; [rewrite handle_h_nop by assumption; reflexivity|].
    unfold handle_h. rewrite En, E. replace (p_dev v =? 0) with false by lia.
    assert (Hm : f_mdev (p_fl v) = false).
    { unfold packable in Hp. repeat (apply andb_prop in Hp; destruct Hp as [Hp ?]).
      destruct (f_mdev (p_fl v)); [discriminate|reflexivity]. }
    rewrite Hm. destruct Hr as [Hr|Hr]; [lia|]. rewrite Hr. reflexivity.
Qed.

Lemma recv_inner_h_spec prox i inner :
  Forall (in_ok prox i) inner ->
  recv_inner_h prox i (length inner) inner = (flat_map (fun v => fst (handle_h prox i v)) inner, 0).
Proof.
  intro H. induction H as [|v l Hv _ IH]; [reflexivity|].
  cbn [length recv_inner_h flat_map]. pose proof (handle_h_no_err prox i v Hv) as He.
  destruct (handle_h prox i v) as [d e]. cbn [snd fst] in *. subst e. cbn [Z.eqb]. rewrite IH. reflexivity.
Qed.

Lemma recv_host_spec prox i t :
  i <> 0 -> wf_tx prox i t ->
  map untag_d (fst (recv_host prox i t)) = flat_map (fun v => fst (handle_h prox i v)) (map untag (tx_packets t)) /\
  (snd (recv_host prox i t) = 0 \/
   (snd (recv_host prox i t) = E_COUNT /\ fst (recv_host prox i t) = [] /\ exists o, t = TMulti o /\ c_in o = [])).
Proof.
  intros Hi Hw. destruct t as [p|o]; cbn [wf_tx tx_packets recv_host] in *.
  - destruct Hw as [Hd Hp]. destruct (handle_h_untag prox i p) as [H1 H2]. split.
    + rewrite H1. cbn [map flat_map]. rewrite app_nil_r. reflexivity.
    + left. rewrite (handle_h_own _ _ _ Hd). pose proof (handle_no_err p) as Hn. rewrite Hd in Hn. apply Hn; assumption.
  - destruct Hw as [Hd [Hl [Hb [Hall _]]]].
    rewrite Hd. replace (i =? 0) with false by lia. rewrite (Z.eqb_refl i). cbn [negb]. rewrite andb_false_r.
    destruct (f_len (c_fl o) =? 0) eqn:E0.
    + assert (Hnil : c_in o = []) by (apply len_zero_nil; lia).
      split; [rewrite Hnil; reflexivity|]. right. cbn [snd fst].
      split; [reflexivity|]. split; [reflexivity|]. exists o. split; [reflexivity|assumption].
    + rewrite Hl, to_nat_len, recv_inner_h_spec by assumption.
      cbn [fst snd]. split; [|left; reflexivity].
      rewrite map_flat_map, flat_map_map. apply flat_map_ext. intro v.
      destruct (handle_h_untag prox i v) as [H1 _]. exact H1.
Qed.

(* what items put on the wire, processed packet by packet = the packets they hold, processed one by one *)
Lemma sent_map_gen {B} reg i (f : packet -> list B) l :
  Forall (src_ok reg i) l -> flat_map f (sent i l) = flat_map (fun p => f (untag (norm i p))) (flatten l).
Proof.
  intro H. induction H as [|p l [_ [Hin _]] _ IH]; [reflexivity|].
  rewrite sent_cons. unfold flatten in *. cbn [flat_map]. rewrite !flat_map_app, IH. f_equal.
  rewrite expand_norm in *. unfold expand. destruct (is_cont p).
  - clear - Hin.
    induction Hin as [|v l [_ [Hd _]] _ IH]; [reflexivity|]. cbn [map flat_map]. rewrite IH. f_equal.
    unfold norm. replace (p_dev v =? 0) with false by lia. reflexivity.
  - cbn [map flat_map]. rewrite !app_nil_r. reflexivity.
Qed.

Lemma flat_map_handle_h_nonnop prox i l :
  flat_map (fun v => fst (handle_h prox i v)) (nonnop l) = flat_map (fun v => fst (handle_h prox i v)) l.
Proof.
  induction l as [|p l IH]; [reflexivity|]. cbn [nonnop filter flat_map].
  destruct (is_nop p) eqn:E; cbn [negb].
  - rewrite handle_h_nop by assumption. exact IH.
  - cbn [flat_map]. f_equal. exact IH.
Qed.

Lemma hstep_spec c prox st tx st' :
  wf_conf c -> qok c prox (pending st) -> session_next c st = (Some tx, st') ->
  exists dropped used,
    pending st = dropped ++ used ++ pending st' /\
    abandon (c_own c) (s_last st) (pending st) = used ++ abandon (c_own c) (s_last st') (pending st') /\
    (pending st <> [] -> dropped ++ used <> []) /\
    map untag_d (fst (recv_host prox (c_own c) tx)) = flat_map (direct_h prox (c_own c)) (flatten used).
Proof.
  intros Hw Hall H.
  destruct (session_next_spec_q _ prox _ _ _ Hw Hall H) as [dropped [used [H1 [H2 [_ [H4 [H5 [H6 _]]]]]]]].
  exists dropped, used. split; [exact H1|]. split; [exact H2|]. split; [exact H4|].
  destruct Hw as [Hi _]. destruct (recv_host_spec prox _ _ Hi H6) as [R1 _].
  rewrite R1, <- flat_map_handle_h_nonnop, H5, flat_map_handle_h_nonnop.
  apply (sent_map_gen prox). destruct Hall as [Hall _].
  rewrite H1 in Hall. apply Forall_app in Hall. destruct Hall as [_ Hall]. apply Forall_app in Hall. apply Hall.
Qed.

Lemma hdrain_fuel_delivers c prox : wf_conf c -> forall fuel st,
  (length (pending st) < fuel)%nat -> qok c prox (pending st) ->
  map untag_d (deliveries (hdrain_fuel c prox fuel st)) =
  flat_map (direct_h prox (c_own c)) (flatten (abandon (c_own c) (s_last st) (pending st))).
Proof.
  intro Hw. induction fuel as [|f IH]; intros st Hf Hall; [lia|].
  cbn [hdrain_fuel]. destruct (session_next c st) as [[tx|] st'] eqn:E.
  - destruct (hstep_spec _ prox _ _ _ Hw Hall E) as [dropped [used [H1 [H2 [H4 H5]]]]].
    destruct (recv_host prox (c_own c) tx) as [d e]. cbn [fst] in H5.
    rewrite deliveries_cons. cbn [st_dlv]. rewrite map_app, H5, H2, flatten_app, flat_map_app. f_equal.
    destruct (pending st') as [|x r] eqn:Ep; [reflexivity|]. cbn [is_nil]. rewrite <- Ep in H1 |- *.
    assert (Hne : pending st <> []).
    { intro Hc. rewrite Hc in H1. destruct dropped; [|discriminate]. destruct used; [|discriminate].
      cbn [app] in H1. rewrite Ep in H1. discriminate. }
    rewrite IH.
    + reflexivity.
    + pose proof (app_length_lt dropped used (pending st') (H4 Hne)) as HL. rewrite <- H1 in HL. lia.
    + rewrite H1 in Hall. apply qok_suffix in Hall. apply qok_suffix in Hall. exact Hall.
  - apply session_next_none in E. rewrite E. reflexivity.
Qed.

(* drain_delivers_queue towards a proxy host: per-device routing, in order *)
Lemma hdrain_delivers_queue c prox last q :
  wf_conf c -> Forall (fun p => queueable p = true) q -> all_reg prox (c_own c) q ->
  map untag_d (deliveries (hdrain c prox (mkS q None last))) =
  flat_map (direct_h prox (c_own c)) (abandon (c_own c) last q).
Proof.
  intros Hw Hq Hr. unfold hdrain.
  rewrite (hdrain_fuel_delivers c prox Hw); [|lia|apply queue_qok; assumption].
  cbn [s_last pending s_peek s_q]. rewrite flatten_plain; [reflexivity|].
  apply abandon_Forall. apply queueable_plain. exact Hq.
Qed.

(* whatever handle delivers goes to the session it was given and names the device of the packet *)
Lemma handle_dest sid p d : In d (fst (handle sid p)) -> d_sid d = sid /\ p_dev (d_pkt d) = p_dev p.
Proof.
  unfold handle, handle_pre, handle_body.
  repeat match goal with |- context [if ?b then _ else _] => destruct b end;
    cbn [fst In]; intro H; try contradiction; destruct H as [H|[]]; subst d; split; reflexivity.
Qed.

Lemma direct_h_dest prox i p d :
  packable p = true -> In d (direct_h prox i p) -> d_sid d = p_dev (d_pkt d).
Proof.
  intros Hp. unfold direct_h, handle_h. set (v := untag (norm i p)).
  assert (Hm : f_mdev (p_fl v) = false).
  { subst v. cbn [untag set_tags p_fl]. rewrite p_fl_norm.
    unfold packable in Hp. repeat (apply andb_prop in Hp; destruct Hp as [Hp ?]).
    destruct (f_mdev (p_fl p)); [discriminate|reflexivity]. }
  destruct (negb ((p_dev v =? 0) || is_nop v) && negb (f_mdev (p_fl v)) && negb (i =? p_dev v) && prox (p_dev v)) eqn:E.
  - cbn [fst In]. intros [H|[]]. subst d. reflexivity.
  - intro H. pose proof H as H0. apply handle_dest in H. destruct H as [H1 H2]. rewrite H1, H2.
    unfold handle, handle_pre in H0. rewrite Hm in H0. cbn [negb andb] in H0.
    destruct ((p_dev v =? 0) || is_nop v); [destruct H0|].
    destruct (i =? p_dev v) eqn:E3; [lia|]. cbn [negb] in H0. destruct H0.
Qed.

(* per-device routing: every packet delivered during a drain towards a proxy host reaches the
   destination its Device names *)
Lemma hdrain_routes_by_device c prox last q d :
  wf_conf c -> Forall (fun p => queueable p = true) q -> all_reg prox (c_own c) q ->
  In d (deliveries (hdrain c prox (mkS q None last))) -> d_sid d = p_dev (d_pkt d).
Proof.
  intros Hw Hq Hr Hin.
  assert (Hu : In (untag_d d) (map untag_d (deliveries (hdrain c prox (mkS q None last))))) by (apply in_map; exact Hin).
  rewrite (hdrain_delivers_queue c prox last q Hw Hq Hr) in Hu.
  apply in_flat_map in Hu. destruct Hu as [p [Hp Hd]].
  assert (Hpk : packable p = true).
  { apply queueable_packable. pose proof (abandon_Forall (fun p => queueable p = true) (c_own c) last q Hq) as HA.
    rewrite Forall_forall in HA. apply HA. exact Hp. }
  exact (direct_h_dest prox (c_own c) p (untag_d d) Hpk Hd).
Qed.
