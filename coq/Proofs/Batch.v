(* Proofs/Batch.v -- lemmas about Model/Batch.v (C03: batching of queued packets).
   Layout:
     1. record bookkeeping (tags / device never influence what the peer does with a packet)
     2. the receiving side: a well-formed transmission is processed packet by packet
     3. the loop of nextPacket (np_loop): structure, flags, budget
     4. nextPacket and Session.next: one transmission
     5. draining: induction over the number of transmissions
     6. mergeTags, the abandoned group, the keep-alive-only observation *)
From XMT Require Import Base.Prelude Base.BitLemmas Model.Batch.
From Coq Require Import ZifyBool.
Ltac Zify.zify_post_hook ::= Z.div_mod_to_equations.

Local Open Scope Z_scope.

(* ------------------------------------------------------------------ 1. bookkeeping *)

(* what write_unpack and the peer need of a queued packet (weaker than queueable: no condition on
   tags, job number or length) *)
Definition packable (p : packet) : bool :=
  negb (f_multi (p_fl p)) && negb (f_mdev (p_fl p)) && negb (f_oneshot (p_fl p)) &&
  (negb (f_frag (p_fl p)) || (1 <=? f_len (p_fl p)) || (p_id p =? SvDrop) || (p_id p =? SvRegister)).

Definition nonnop (l : list packet) : list packet := filter (fun p => negb (is_nop p)) l.
(* what the peer does with a packet that arrives at the session of its device *)
Definition direct' (p : packet) : list dlv := fst (handle (p_dev p) p).
Definition optl {A} (o : option A) : list A := match o with Some x => [x] | None => [] end.
(* Session.next replaces the tags of the packet it picked when a proxy is active *)
Definition retag (c : conf) (p : packet) : packet :=
  match c_ptags c with Some t => set_tags p t | None => p end.

Lemma queueable_packable p : queueable p = true -> packable p = true.
Proof.
  unfold queueable, packable. intro H.
  repeat (apply andb_prop in H; destruct H as [H ?]).
  repeat (apply andb_true_intro; split); assumption.
Qed.

Lemma queueable_len p : queueable p = true -> 0 <= p_len p.
Proof.
  unfold queueable. intro H. apply andb_prop in H. destruct H as [_ H]. lia.
Qed.

Lemma is_nop_set_tags p t : is_nop (set_tags p t) = is_nop p.
Proof. reflexivity. Qed.
Lemma is_nop_set_dev p d : is_nop (set_dev p d) = is_nop p.
Proof. reflexivity. Qed.
Lemma is_nop_norm i p : is_nop (norm i p) = is_nop p.
Proof. unfold norm. destruct (p_dev p =? 0); reflexivity. Qed.
Lemma is_nop_untag p : is_nop (untag p) = is_nop p.
Proof. reflexivity. Qed.
Lemma packable_set_tags p t : packable (set_tags p t) = packable p.
Proof. reflexivity. Qed.
Lemma packable_norm i p : packable (norm i p) = packable p.
Proof. unfold norm. destruct (p_dev p =? 0); reflexivity. Qed.
Lemma is_own_set_tags i p t : is_own i (set_tags p t) = is_own i p.
Proof. reflexivity. Qed.
Lemma psize_norm i p : psize (norm i p) = psize p.
Proof. unfold norm. destruct (p_dev p =? 0); reflexivity. Qed.
Lemma p_tags_norm i p : p_tags (norm i p) = p_tags p.
Proof. unfold norm. destruct (p_dev p =? 0); reflexivity. Qed.
Lemma p_fl_norm i p : p_fl (norm i p) = p_fl p.
Proof. unfold norm. destruct (p_dev p =? 0); reflexivity. Qed.
Lemma norm_set_tags i p t : norm i (set_tags p t) = set_tags (norm i p) t.
Proof. unfold norm. cbn [set_tags p_dev]. destruct (p_dev p =? 0); reflexivity. Qed.
Lemma untag_set_tags p t : untag (set_tags p t) = untag p.
Proof. reflexivity. Qed.
Lemma untag_norm i p : untag (norm i p) = norm i (untag p).
Proof. unfold untag. symmetry. apply norm_set_tags. Qed.

Lemma norm_own_dev i p : is_own i p = true -> p_dev (norm i p) = i.
Proof.
  unfold is_own, norm. destruct (p_dev p =? 0) eqn:E; cbn [set_dev p_dev]; [reflexivity|].
  rewrite orb_false_l. lia.
Qed.
Lemma norm_dev_nz i p : i <> 0 -> p_dev (norm i p) <> 0.
Proof. unfold norm. destruct (p_dev p =? 0) eqn:E; cbn [set_dev p_dev]; lia. Qed.
Lemma norm_foreign i p : is_own i p = false -> norm i p = p.
Proof. unfold is_own, norm. destruct (p_dev p =? 0); [discriminate|reflexivity]. Qed.
Lemma norm_idem i p : i <> 0 -> norm i (norm i p) = norm i p.
Proof.
  intro Hi. unfold norm at 1. pose proof (norm_dev_nz i p Hi).
  destruct (p_dev (norm i p) =? 0) eqn:E; [lia|reflexivity].
Qed.
Lemma retag_untag_norm c i p : untag (norm i (retag c p)) = untag (norm i p).
Proof. unfold retag. destruct (c_ptags c); [|reflexivity]. rewrite norm_set_tags. reflexivity. Qed.
Lemma is_own_retag c i p : is_own i (retag c p) = is_own i p.
Proof. unfold retag. destruct (c_ptags c); reflexivity. Qed.
Lemma is_nop_retag c p : is_nop (retag c p) = is_nop p.
Proof. unfold retag. destruct (c_ptags c); reflexivity. Qed.
Lemma packable_retag c p : packable (retag c p) = packable p.
Proof. unfold retag. destruct (c_ptags c); reflexivity. Qed.
Lemma p_fl_retag c p : p_fl (retag c p) = p_fl p.
Proof. unfold retag. destruct (c_ptags c); reflexivity. Qed.
Lemma p_dev_retag c p : p_dev (retag c p) = p_dev p.
Proof. unfold retag. destruct (c_ptags c); reflexivity. Qed.

(* the peer never looks at the tags of a packet *)
Definition retag_d (t : list Z) (d : dlv) : dlv := mkD (d_sid d) (set_tags (d_pkt d) t).

Lemma handle_pre_tags sid p t :
  handle_pre sid (set_tags p t) = handle_pre sid p.
Proof. reflexivity. Qed.

Lemma handle_body_tags sid p t :
  handle_body sid (set_tags p t) = (map (retag_d t) (fst (handle_body sid p)), snd (handle_body sid p)).
Proof.
  unfold handle_body. cbn [set_tags p_fl p_id].
  repeat match goal with |- context [if ?b then _ else _] => destruct b end; reflexivity.
Qed.

Lemma handle_tags sid p t :
  handle sid (set_tags p t) = (map (retag_d t) (fst (handle sid p)), snd (handle sid p)).
Proof.
  unfold handle. rewrite handle_pre_tags.
  destruct (handle_pre sid p) as [[d e]|] eqn:E.
  - unfold handle_pre in E.
    repeat match type of E with context [if ?b then _ else _] => destruct b end;
      inversion E; reflexivity.
  - change (single_frag (set_tags p t)) with (single_frag p).
    destruct (single_frag p).
    + change (set_fl (set_tags p t) (fl_clear (p_fl (set_tags p t))))
        with (set_tags (set_fl p (fl_clear (p_fl p))) t).
      rewrite handle_pre_tags.
      destruct (handle_pre sid (set_fl p (fl_clear (p_fl p)))) as [[d e]|] eqn:E2.
      * unfold handle_pre in E2.
        repeat match type of E2 with context [if ?b then _ else _] => destruct b end;
          inversion E2; reflexivity.
      * apply handle_body_tags.
    + apply handle_body_tags.
Qed.

Lemma untag_retag_d d : untag_d d = retag_d [] d.
Proof. reflexivity. Qed.

Lemma handle_untag sid p :
  map untag_d (fst (handle sid p)) = fst (handle sid (untag p)) /\ snd (handle sid p) = snd (handle sid (untag p)).
Proof.
  unfold untag. rewrite handle_tags. cbn [fst snd]. split; [|reflexivity].
  apply map_ext. intro d. apply untag_retag_d.
Qed.

Lemma handle_nop sid p : is_nop p = true -> handle sid p = ([], 0).
Proof.
  intro H. unfold handle, handle_pre. rewrite H, orb_true_r. reflexivity.
Qed.

Lemma direct'_nop p : is_nop p = true -> direct' p = [].
Proof. intro H. unfold direct'. rewrite handle_nop by assumption. reflexivity. Qed.

Lemma flat_map_direct'_nonnop l : flat_map direct' (nonnop l) = flat_map direct' l.
Proof.
  induction l as [|p l IH]; [reflexivity|]. cbn [nonnop filter flat_map].
  destruct (is_nop p) eqn:E; cbn [negb].
  - rewrite direct'_nop by assumption. exact IH.
  - cbn [flat_map]. f_equal. exact IH.
Qed.

Lemma direct_direct' i p : direct i p = direct' (untag (norm i p)).
Proof. reflexivity. Qed.

Lemma flat_map_direct i l : flat_map (direct i) l = flat_map direct' (map (fun p => untag (norm i p)) l).
Proof.
  induction l as [|p l IH]; [reflexivity|]. cbn [flat_map map]. rewrite IH. reflexivity.
Qed.

(* a packet that arrives at the session of its own device never produces an error *)
Lemma handle_body_no_err sid p :
  packable p = true -> snd (handle_body sid p) = 0.
Proof.
  unfold packable, handle_body. intro H.
  repeat (apply andb_prop in H; destruct H as [H ?]).
  repeat match goal with |- context [if ?b then _ else _] => destruct b eqn:? end;
    cbn [snd]; try reflexivity.
  exfalso. cbn [negb orb] in *. lia.
Qed.

Lemma handle_no_err p :
  p_dev p <> 0 -> packable p = true -> snd (handle (p_dev p) p) = 0.
Proof.
  intros Hd Hp. unfold handle, handle_pre.
  destruct ((p_dev p =? 0) || is_nop p) eqn:E1; [reflexivity|].
  rewrite Z.eqb_refl. cbn [negb]. rewrite andb_false_r.
  destruct (single_frag p) eqn:Es.
  - cbn [set_fl p_dev]. rewrite Z.eqb_refl. cbn [negb]. rewrite andb_false_r.
    match goal with |- context [if ?b then _ else _] => destruct b end; [reflexivity|].
    unfold handle_body. cbn [set_fl p_fl p_id fl_clear f_frag f_oneshot f_multi f_crypt f_len].
    unfold single_frag in Es.
    repeat (apply andb_prop in Es; destruct Es as [Es ?]).
    rewrite Es. cbn [negb].
    repeat match goal with |- context [if ?b then _ else _] => destruct b end; reflexivity.
  - apply handle_body_no_err. exact Hp.
Qed.

(* an ordinary data packet reaches the handlers of its device unchanged *)
Lemma direct_plain i p :
  i <> 0 -> queueable p = true -> plain p = true -> is_nop p = false -> direct i p = [to_own i p].
Proof.
  intros Hi Hq Hpl Hn. unfold direct, to_own.
  set (v := untag (norm i p)).
  assert (Hv : p_dev v <> 0) by (apply (norm_dev_nz i p Hi)).
  assert (Hnv : is_nop v = false) by (subst v; rewrite is_nop_untag, is_nop_norm; exact Hn).
  assert (Hfl : p_fl v = p_fl p) by (subst v; cbn [untag set_tags p_fl]; apply p_fl_norm).
  assert (Hid : p_id v = p_id p) by (subst v; unfold norm; destruct (p_dev p =? 0); reflexivity).
  change (p_dev (norm i p)) with (p_dev v).
  unfold handle, handle_pre. rewrite Hnv.
  replace (p_dev v =? 0) with false by lia. cbn [orb].
  rewrite Z.eqb_refl. cbn [negb]. rewrite andb_false_r.
  unfold queueable in Hq. unfold plain in Hpl.
  repeat (apply andb_prop in Hq; destruct Hq as [Hq ?]).
  apply andb_prop in Hpl. destruct Hpl as [Hp1 Hp2].
  assert (Hsf : single_frag v = false).
  { unfold single_frag. rewrite Hfl, Hid.
    destruct (f_frag (p_fl p)) eqn:Ef; [|reflexivity]. cbn [negb orb andb] in Hp2.
    replace (f_len (p_fl p) =? 1) with false by lia. repeat rewrite andb_false_r. reflexivity. }
  rewrite Hsf. unfold handle_body. rewrite Hfl, Hid.
  destruct (f_oneshot (p_fl p)); [discriminate|].
  destruct ((p_id p =? SvComplete) && negb (f_crypt (p_fl p))); [discriminate|].
  destruct (f_multi (p_fl p)); [discriminate|].
  destruct (f_frag (p_fl p)) eqn:Ef; [|reflexivity].
  cbn [negb orb andb] in Hp2.
  replace (p_id p =? SvDrop) with false by lia.
  replace (p_id p =? SvRegister) with false by lia.
  replace (f_len (p_fl p) =? 0) with false by lia. reflexivity.
Qed.

(* ------------------------------------------------------------------ 2. the receiving side *)

Definition in_ok (reg : Z -> bool) (i : Z) (v : packet) : Prop :=
  packable v = true /\ p_dev v <> 0 /\ (p_dev v = i \/ reg (p_dev v) = true).

(* what Session.next may hand to the wire *)
Definition wf_tx (reg : Z -> bool) (i : Z) (t : tx) : Prop :=
  match t with
  | TSingle p => p_dev p = i /\ packable p = true
  | TMulti o => c_dev o = i /\ f_len (c_fl o) = len (c_in o) /\ len (c_in o) < 65536 /\
                Forall (in_ok reg i) (c_in o) /\
                (f_mdev (c_fl o) = false -> Forall (fun v => p_dev v = i) (c_in o))
  end.

Lemma map_flat_map {A B C} (g : B -> C) (f : A -> list B) l :
  map g (flat_map f l) = flat_map (fun x => map g (f x)) l.
Proof.
  induction l as [|x l IH]; [reflexivity|]. cbn [flat_map]. rewrite map_app, IH. reflexivity.
Qed.

Lemma flat_map_map {A B C} (g : A -> B) (f : B -> list C) l :
  flat_map f (map g l) = flat_map (fun x => f (g x)) l.
Proof.
  induction l as [|x l IH]; [reflexivity|]. cbn [flat_map map]. rewrite IH. reflexivity.
Qed.

Lemma to_nat_len {A} (l : list A) : Z.to_nat (len l) = length l.
Proof. unfold len. apply Nat2Z.id. Qed.

Lemma len_zero_nil {A} (l : list A) : len l = 0 -> l = [].
Proof. destruct l; [reflexivity|]. rewrite len_cons. pose proof (len_nonneg l). lia. Qed.

Lemma recv_inner_spec hid inner :
  hid <> 0 -> Forall (fun v => packable v = true /\ p_dev v = hid) inner ->
  recv_inner hid (length inner) inner = (flat_map (fun v => fst (handle hid v)) inner, 0).
Proof.
  intros Hh H. induction H as [|v l [Hp Hd] _ IH]; [reflexivity|].
  cbn [length recv_inner flat_map].
  pose proof (handle_no_err v) as Hn. rewrite Hd in Hn. specialize (Hn Hh Hp).
  destruct (handle hid v) as [d e]. cbn [snd fst] in *. subst e. cbn [Z.eqb].
  rewrite IH. reflexivity.
Qed.

Lemma proc_multi_spec reg hid inner :
  Forall (in_ok reg hid) inner ->
  proc_multi reg hid (length inner) inner = (flat_map (fun v => direct' (untag v)) inner, 0).
Proof.
  intro H. induction H as [|v l [Hp [Hd Hr]] _ IH]; [reflexivity|].
  cbn [length proc_multi flat_map].
  replace (p_dev v =? 0) with false by lia.
  assert (Hpu : packable (untag v) = true) by exact Hp.
  pose proof Hpu as Hpu'. unfold packable in Hpu'.
  repeat (apply andb_prop in Hpu'; destruct Hpu' as [Hpu' ?]).
  destruct (f_multi (p_fl (untag v))); [discriminate|].
  destruct (f_mdev (p_fl (untag v))); [discriminate|].
  destruct (f_oneshot (p_fl (untag v))); [discriminate|]. cbn [orb].
  change (p_dev (untag v)) with (p_dev v).
  assert (He : snd (handle (p_dev v) (untag v)) = 0) by (apply (handle_no_err (untag v)); assumption).
  destruct (hid =? p_dev v) eqn:E.
  - assert (hid = p_dev v) by lia. subst hid. cbn [Z.eqb]. rewrite IH. reflexivity.
  - assert (Hreg : reg (p_dev v) = true) by (destruct Hr; [lia|assumption]). rewrite Hreg.
    unfold direct'. change (p_dev (untag v)) with (p_dev v).
    destruct (handle (p_dev v) (untag v)) as [d e]. cbn [snd fst] in *. subst e. cbn [Z.eqb].
    rewrite IH. reflexivity.
Qed.

Lemma direct'_untag_idem v : map untag_d (direct' (untag v)) = direct' (untag v).
Proof.
  unfold direct'. destruct (handle_untag (p_dev (untag v)) (untag v)) as [H _]. exact H.
Qed.

Lemma recv_tx_spec reg i t :
  i <> 0 -> wf_tx reg i t ->
  map untag_d (fst (recv_tx reg i t)) = flat_map direct' (map untag (tx_packets t)) /\
  (snd (recv_tx reg i t) = 0 \/
   (snd (recv_tx reg i t) = E_COUNT /\ fst (recv_tx reg i t) = [] /\ exists o, t = TMulti o /\ c_in o = [])).
Proof.
  intros Hi Hw. destruct t as [p|o]; cbn [wf_tx tx_packets recv_tx] in *.
  - destruct Hw as [Hd Hp].
    assert (Hm : f_mdev (p_fl p) = false).
    { unfold packable in Hp. repeat (apply andb_prop in Hp; destruct Hp as [Hp ?]).
      destruct (f_mdev (p_fl p)); [discriminate|reflexivity]. }
    rewrite Hm. destruct (handle_untag i p) as [H1 H2]. split.
    + rewrite H1. cbn [map flat_map]. rewrite app_nil_r. unfold direct'.
      change (p_dev (untag p)) with (p_dev p). rewrite Hd. reflexivity.
    + left. pose proof (handle_no_err p) as Hn. rewrite Hd in Hn. apply Hn; assumption.
  - destruct Hw as [Hd [Hl [Hb [Hall Hown]]]].
    destruct (f_mdev (c_fl o)) eqn:Em.
    + destruct (f_len (c_fl o) =? 0) eqn:E0.
      * assert (c_in o = []) by (apply len_zero_nil; lia).
        split; [rewrite H; reflexivity|]. right. cbn [snd fst].
        split; [reflexivity|]. split; [reflexivity|]. exists o. split; [reflexivity|assumption].
      * rewrite Hl, to_nat_len, proc_multi_spec by assumption. cbn [fst snd]. split; [|left; reflexivity].
        rewrite map_flat_map, flat_map_map. apply flat_map_ext. intro v. apply direct'_untag_idem.
    + rewrite Hd. replace (i =? 0) with false by lia. rewrite Z.eqb_refl. cbn [negb].
      destruct (f_len (c_fl o) =? 0) eqn:E0.
      * assert (c_in o = []) by (apply len_zero_nil; lia).
        split; [rewrite H; reflexivity|]. right. cbn [snd fst].
        split; [reflexivity|]. split; [reflexivity|]. exists o. split; [reflexivity|assumption].
      * specialize (Hown eq_refl).
        rewrite Hl, to_nat_len, recv_inner_spec; [|assumption|].
        2:{ rewrite Forall_forall in *. intros v Hv. split; [apply (Hall v Hv)|apply (Hown v Hv)]. }
        cbn [fst snd]. split; [|left; reflexivity].
        rewrite map_flat_map, flat_map_map.
        rewrite Forall_forall in Hown.
        clear - Hown. induction (c_in o) as [|v l IH]; [reflexivity|]. cbn [flat_map].
        rewrite IH by (intros x Hx; apply Hown; right; exact Hx). f_equal.
        destruct (handle_untag i v) as [H1 _]. rewrite H1. unfold direct'.
        change (p_dev (untag v)) with (p_dev v). rewrite (Hown v (or_introl eq_refl)). reflexivity.
Qed.

(* ------------------------------------------------------------------ 3. the loop of nextPacket *)

Lemma write_unpack_packable o src :
  packable src = true ->
  write_unpack o src =
  mkC (c_dev o) (set_multi (or_chan (set_len (c_fl o) (f_len (c_fl o) + 1)) (f_chan (p_fl src))))
      (c_tags o ++ p_tags src) (c_in o ++ [src]).
Proof.
  intro H. unfold write_unpack. unfold packable in H.
  repeat (apply andb_prop in H; destruct H as [H ?]).
  destruct (f_multi (p_fl src)); [discriminate|]. destruct (f_mdev (p_fl src)); [discriminate|]. reflexivity.
Qed.

Lemma nonnop_cons_nop p l : is_nop p = true -> nonnop (p :: l) = nonnop l.
Proof. intro H. unfold nonnop. cbn [filter]. rewrite H. reflexivity. Qed.

Lemma nonnop_cons_eq p a b : nonnop a = nonnop b -> nonnop (p :: a) = nonnop (p :: b).
Proof. intro H. unfold nonnop in *. cbn [filter]. destruct (negb (is_nop p)); [f_equal|]; exact H. Qed.

Lemma nonnop_app a b : nonnop (a ++ b) = nonnop a ++ nonnop b.
Proof. apply filter_app. Qed.

(* structure: what the loop consumes (used), what it packs (kept), what it leaves *)
Lemma np_loop_struct F i : forall fuel l s m o o' k rest,
  np_loop F i fuel l s m o = (o', k, rest) ->
  Forall (fun p => packable p = true) l ->
  exists used kept,
    l = used ++ optl k ++ rest /\
    c_in o' = c_in o ++ map (norm i) kept /\
    c_tags o' = c_tags o ++ flat_map p_tags kept /\
    c_dev o' = c_dev o /\
    nonnop kept = nonnop used /\
    incl kept used /\
    (length kept <= fuel)%nat /\
    ((0 <? s) = false -> fuel <> O -> l <> [] -> used <> []).
Proof.
  induction fuel as [|f IH]; intros l s m o o' k rest H Hp.
  - cbn [np_loop] in H. inversion H; subst. exists [], []. cbn [optl app map flat_map].
    repeat rewrite app_nil_r. repeat split; try reflexivity; try (intros x Hx; exact Hx); try lia;
      try (intros; congruence).
  - destruct l as [|n r].
    + cbn [np_loop] in H. inversion H; subst. exists [], []. cbn [optl app map flat_map].
      repeat rewrite app_nil_r. repeat split; try reflexivity; try (intros x Hx; exact Hx); try (cbn; lia);
        try (intros; congruence).
    + cbn [np_loop] in H. inversion Hp as [|? ? Hn Hr]; subst.
      destruct (is_nop n && (((0 <? s) && negb m) || is_own i n)) eqn:E1.
      * apply andb_prop in E1. destruct E1 as [En _].
        destruct (IH _ _ _ _ _ _ _ H Hr) as [used [kept [H1 [H2 [H3 [H4 [H5 [H6 [H7 _]]]]]]]]].
        exists (n :: used), kept. repeat split; try assumption.
        -- rewrite H1. reflexivity.
        -- rewrite nonnop_cons_nop by assumption. exact H5.
        -- intros x Hx. right. apply H6. exact Hx.
        -- lia.
        -- intros _ _ _ Hc. discriminate.
      * destruct ((0 <? s) && (F <? s + psize n)) eqn:E2.
        -- inversion H; subst. exists [], []. cbn [optl app map flat_map].
           repeat rewrite app_nil_r. repeat split; try reflexivity; try (intros x Hx; exact Hx); try (cbn; lia);
             try (intros Hs; rewrite Hs in E2; discriminate).
        -- set (md := negb (is_own i n) && negb m) in *.
           set (o1 := if md then mkC (c_dev o) (set_mdev (c_fl o)) (c_tags o) (c_in o) else o) in *.
           assert (Ho1 : c_in o1 = c_in o /\ c_tags o1 = c_tags o /\ c_dev o1 = c_dev o)
             by (subst o1; destruct md; repeat split; reflexivity).
           destruct Ho1 as [Ha [Hb Hc]].
           assert (Hpn : packable (norm i n) = true) by (rewrite packable_norm; exact Hn).
           rewrite (write_unpack_packable o1 (norm i n) Hpn) in H.
           destruct (IH _ _ _ _ _ _ _ H Hr) as [used [kept [H1 [H2 [H3 [H4 [H5 [H6 [H7 _]]]]]]]]].
           cbn [c_in c_tags c_dev] in H2, H3, H4.
           exists (n :: used), (n :: kept). repeat split.
           ++ rewrite H1. reflexivity.
           ++ rewrite H2, Ha. cbn [map]. rewrite <- app_assoc. reflexivity.
           ++ rewrite H3, Hb, p_tags_norm. cbn [flat_map]. rewrite <- app_assoc. reflexivity.
           ++ rewrite H4. exact Hc.
           ++ apply nonnop_cons_eq. exact H5.
           ++ intros x [Hx|Hx]; [left; exact Hx|right; apply H6; exact Hx].
           ++ cbn [length]. lia.
           ++ intros _ _ _ Hc'. discriminate.
Qed.

Lemma set_flags_mdev f n b :
  f_mdev (set_multi (or_chan (set_len f n) b)) = f_mdev f.
Proof. reflexivity. Qed.
Lemma set_flags_len f n b :
  f_len (set_multi (or_chan (set_len f n) b)) = u16 n.
Proof. reflexivity. Qed.

(* flags of the container: the count, and the multi-device bit *)
Lemma np_loop_flags F i : forall fuel l s m o o' k rest,
  np_loop F i fuel l s m o = (o', k, rest) ->
  Forall (fun p => packable p = true) l ->
  f_mdev (c_fl o) = m ->
  f_len (c_fl o) = len (c_in o) -> len (c_in o) + Z.of_nat fuel < 65536 ->
  (m = false -> Forall (fun v => p_dev v = i) (c_in o)) ->
  f_len (c_fl o') = len (c_in o') /\ len (c_in o') <= len (c_in o) + Z.of_nat fuel /\
  (f_mdev (c_fl o') = false -> Forall (fun v => p_dev v = i) (c_in o')).
Proof.
  induction fuel as [|f IH]; intros l s m o o' k rest H Hp Hm Hl Hb Hown.
  - cbn [np_loop] in H. inversion H; subst. repeat split; try assumption; lia.
  - destruct l as [|n r].
    + cbn [np_loop] in H. inversion H; subst. repeat split; try assumption; lia.
    + cbn [np_loop] in H. inversion Hp as [|? ? Hn Hr]; subst.
      destruct (is_nop n && (((0 <? s) && negb (f_mdev (c_fl o))) || is_own i n)).
      * destruct (IH _ _ _ _ _ _ _ H Hr eq_refl Hl ltac:(lia) Hown) as [H1 [H2 H3]].
        repeat split; try assumption; lia.
      * destruct ((0 <? s) && (F <? s + psize n)).
        -- inversion H; subst. repeat split; try assumption; lia.
        -- set (m := f_mdev (c_fl o)) in *.
           set (md := negb (is_own i n) && negb m) in *.
           set (o1 := if md then mkC (c_dev o) (set_mdev (c_fl o)) (c_tags o) (c_in o) else o) in *.
           assert (Ha : c_in o1 = c_in o) by (subst o1; destruct md; reflexivity).
           assert (Hlen1 : f_len (c_fl o1) = f_len (c_fl o)) by (subst o1; destruct md; reflexivity).
           assert (Hmd1 : f_mdev (c_fl o1) = m || md).
           { subst o1. destruct md eqn:Emd; cbn [c_fl set_mdev f_mdev].
             - rewrite orb_true_r. reflexivity.
             - rewrite orb_false_r. reflexivity. }
           assert (Hpn : packable (norm i n) = true) by (rewrite packable_norm; exact Hn).
           rewrite (write_unpack_packable o1 (norm i n) Hpn) in H.
           match type of H with np_loop _ _ _ _ _ _ ?oo = _ => set (o2 := oo) in * end.
           assert (Hin2 : c_in o2 = c_in o ++ [norm i n]) by (subst o2; cbn [c_in]; rewrite Ha; reflexivity).
           assert (Hlen2 : len (c_in o2) = len (c_in o) + 1) by (rewrite Hin2, len_app; reflexivity).
           assert (A1 : f_mdev (c_fl o2) = m || md)
             by (subst o2; cbn [c_fl]; rewrite set_flags_mdev; exact Hmd1).
           assert (A2 : f_len (c_fl o2) = len (c_in o2)).
           { subst o2. cbn [c_fl]. rewrite set_flags_len, Hlen1, Hl. cbn [c_in]. rewrite Ha, len_app.
             change (len [norm i n]) with 1. apply u16_small. pose proof (len_nonneg (c_in o)). lia. }
           assert (A3 : m || md = false -> Forall (fun v => p_dev v = i) (c_in o2)).
           { intro Hf. apply orb_false_elim in Hf. destruct Hf as [Hf1 Hf2]. rewrite Hin2.
             apply Forall_app. split; [apply Hown; exact Hf1|]. constructor; [|constructor].
             apply norm_own_dev. subst md. rewrite Hf1 in Hf2. cbn [negb] in Hf2. rewrite andb_true_r in Hf2.
             destruct (is_own i n); [reflexivity|discriminate]. }
           destruct (IH _ _ _ _ _ _ _ H Hr A1 A2 ltac:(lia) A3) as [H1 [H2 H3]].
           repeat split; try assumption; lia.
Qed.

Lemma psize_pos p : 0 <= p_len p -> 0 < psize p.
Proof.
  intro H. unfold psize, len_prefix, HDR, LimitSmall, LimitMedium, LimitLarge.
  pose proof (len_nonneg (p_tags p)).
  repeat match goal with |- context [if ?b then _ else _] => destruct b end; lia.
Qed.

Lemma sum_size_app a b : sum_size (a ++ b) = sum_size a + sum_size b.
Proof.
  induction a as [|x a IH]; [reflexivity|]. cbn [app]. unfold sum_size in *. cbn [fold_right]. rewrite IH. lia.
Qed.

Lemma sum_size_zero l : Forall (fun v => 0 < psize v) l -> sum_size l <= 0 -> l = [].
Proof.
  intros H. destruct H as [|x l Hx Hl]; [reflexivity|].
  unfold sum_size. cbn [fold_right]. intro Hs. exfalso.
  assert (0 <= fold_right (fun p a => psize p + a) 0 l).
  { clear - Hl. induction Hl; cbn [fold_right]; lia. }
  lia.
Qed.

(* the size budget: either the running Size() sum is within limits.Frag or there is one packet *)
Lemma np_loop_budget F i : forall fuel l s m o o' k rest,
  np_loop F i fuel l s m o = (o', k, rest) ->
  Forall (fun p => packable p = true /\ 0 <= p_len p) l ->
  s = sum_size (c_in o) -> Forall (fun v => 0 < psize v) (c_in o) ->
  (sum_size (c_in o) <= F \/ len (c_in o) <= 1) ->
  (sum_size (c_in o') <= F \/ len (c_in o') <= 1).
Proof.
  induction fuel as [|f IH]; intros l s m o o' k rest H Hp Hs Hpos Hb.
  - cbn [np_loop] in H. inversion H; subst. assumption.
  - destruct l as [|n r].
    + cbn [np_loop] in H. inversion H; subst. assumption.
    + cbn [np_loop] in H. inversion Hp as [|? ? [Hn Hln] Hr]; subst s.
      destruct (is_nop n && (((0 <? sum_size (c_in o)) && negb m) || is_own i n)).
      * exact (IH _ _ _ _ _ _ _ H Hr eq_refl Hpos Hb).
      * destruct ((0 <? sum_size (c_in o)) && (F <? sum_size (c_in o) + psize n)) eqn:E2.
        -- inversion H; subst. assumption.
        -- set (md := negb (is_own i n) && negb m) in *.
           set (o1 := if md then mkC (c_dev o) (set_mdev (c_fl o)) (c_tags o) (c_in o) else o) in *.
           assert (Ha : c_in o1 = c_in o) by (subst o1; destruct md; reflexivity).
           assert (Hpn : packable (norm i n) = true) by (rewrite packable_norm; exact Hn).
           rewrite (write_unpack_packable o1 (norm i n) Hpn) in H.
           match type of H with np_loop _ _ _ _ _ _ ?oo = _ => set (o2 := oo) in * end.
           assert (Hin2 : c_in o2 = c_in o ++ [norm i n]) by (subst o2; cbn [c_in]; rewrite Ha; reflexivity).
           assert (Hsz : sum_size (c_in o2) = sum_size (c_in o) + psize n).
           { rewrite Hin2, sum_size_app. unfold sum_size at 2. cbn [fold_right]. rewrite psize_norm. lia. }
           pose proof (psize_pos n Hln) as Hpn0.
           apply (IH _ _ _ _ _ _ _ H Hr).
           ++ symmetry. exact Hsz.
           ++ rewrite Hin2. apply Forall_app. split; [assumption|]. constructor; [|constructor].
              rewrite psize_norm. exact Hpn0.
           ++ destruct (0 <? sum_size (c_in o)) eqn:E0.
              ** left. cbn [andb] in E2. lia.
              ** right. assert (Hnil : c_in o = []) by (apply sum_size_zero; [assumption|lia]).
                 rewrite Hin2, Hnil. cbn. lia.
Qed.

(* ------------------------------------------------------------------ 4. one transmission *)

Definition src_ok (reg : Z -> bool) (i : Z) (p : packet) : Prop :=
  packable p = true /\ (is_own i p = true \/ reg (p_dev p) = true).

Lemma src_ok_in_ok reg i p : i <> 0 -> src_ok reg i p -> in_ok reg i (norm i p).
Proof.
  intros Hi [Hp Hr]. unfold in_ok. rewrite packable_norm. split; [assumption|].
  split; [apply norm_dev_nz; assumption|].
  destruct (is_own i p) eqn:E.
  - left. apply norm_own_dev. exact E.
  - right. rewrite norm_foreign by assumption. destruct Hr; [discriminate|assumption].
Qed.

Lemma src_ok_retag reg c i p : src_ok reg i p -> src_ok reg i (retag c p).
Proof. unfold src_ok. rewrite packable_retag, is_own_retag, p_dev_retag. exact (fun x => x). Qed.

Lemma nonnop_map_untag_norm i l :
  nonnop (map (fun p => untag (norm i p)) l) = map (fun p => untag (norm i p)) (nonnop l).
Proof.
  induction l as [|p l IH]; [reflexivity|]. unfold nonnop in *. cbn [map filter].
  rewrite is_nop_untag, is_nop_norm. destruct (negb (is_nop p)); cbn [map]; rewrite IH; reflexivity.
Qed.

Lemma map_norm_tags i l : flat_map p_tags (map (norm i) l) = flat_map p_tags l.
Proof. induction l as [|p l IH]; [reflexivity|]. cbn [map flat_map]. rewrite p_tags_norm, IH. reflexivity. Qed.

Lemma next_packet_spec reg F NP i n q t o k rest :
  next_packet F NP i (Some n) q t = (o, k, rest) -> i <> 0 -> NP < 65536 ->
  Forall (src_ok reg i) (n :: q) ->
  exists tx u kept,
    o = Some tx /\ q = u ++ optl k ++ rest /\
    map untag (tx_packets tx) = map (fun p => untag (norm i p)) kept /\
    nonnop kept = nonnop (n :: u) /\ incl kept (n :: u) /\
    wf_tx reg i tx /\
    (forall x, In x (tx_tags tx) -> In x t \/ exists v, In v kept /\ In x (p_tags v)) /\
    (forall v x, In v kept -> In x (p_tags v) -> In x (tx_tags tx)) /\
    (match tx with TMulti c => c_in c = map (norm i) kept | TSingle _ => True end).
Proof.
  intros H Hi HNP Hall. unfold next_packet in H.
  inversion Hall as [|? ? Hn Hq]; subst.
  destruct ((NP <=? 1) || is_nil q) eqn:Efast.
  - (* fast path *)
    destruct (is_own i n) eqn:Eown.
    + inversion H; subst. exists (TSingle (set_tags (norm i n) (p_tags n ++ t))), [], [n].
      cbn [optl app tx_packets map tx_tags set_tags p_tags wf_tx p_dev].
      repeat split; try reflexivity.
      * intros x Hx. exact Hx.
      * apply norm_own_dev. exact Eown.
      * rewrite packable_set_tags, packable_norm. apply Hn.
      * intros x Hx. apply in_app_or in Hx. destruct Hx as [Hx|Hx]; [right|left; exact Hx].
        exists n. split; [left; reflexivity|exact Hx].
      * intros v x [Hv|[]] Hx. subst v. apply in_or_app. left. exact Hx.
    + destruct Hn as [Hpn Hrn].
      rewrite (write_unpack_packable _ n Hpn) in H. cbn [c_dev c_fl c_tags c_in app] in H.
      inversion H; subst.
      eexists (TMulti _), [], [n]. cbn [optl app tx_packets map tx_tags c_tags wf_tx c_dev c_fl c_in].
      rewrite set_flags_len, set_flags_mdev. cbn [fl_multi_mdev f_len f_mdev Z.add].
      rewrite (norm_foreign i n Eown).
      repeat split; try reflexivity; try (cbn; lia).
      * intros x Hx. exact Hx.
      * constructor; [|constructor]. rewrite <- (norm_foreign i n Eown).
        apply src_ok_in_ok; [assumption|]. split; assumption.
      * intro Hc. discriminate.
      * intros x Hx. apply in_app_or in Hx. destruct Hx as [Hx|Hx]; [right|left; exact Hx].
        exists n. split; [left; reflexivity|exact Hx].
      * intros v x [Hv|[]] Hx. subst v. apply in_or_app. left. exact Hx.
  - (* the loop *)
    apply orb_false_elim in Efast. destruct Efast as [E1 E2].
    destruct (np_loop F i (Z.to_nat NP) (n :: q) 0 false (mkC i fl_multi [] [])) as [[o' k'] rest'] eqn:EL.
    inversion H; subst. clear H.
    assert (Hpk : Forall (fun p => packable p = true) (n :: q)).
    { rewrite Forall_forall in *. intros x Hx. apply (Hall x Hx). }
    destruct (np_loop_struct _ _ _ _ _ _ _ _ _ _ EL Hpk)
      as [used [kept [H1 [H2 [H3 [H4 [H5 [H6 [H7 H8]]]]]]]]].
    cbn [c_in c_tags c_dev app] in H2, H3, H4.
    assert (Hfuel : Z.to_nat NP <> O) by lia.
    specialize (H8 eq_refl Hfuel ltac:(discriminate)).
    destruct used as [|n' u]; [congruence|].
    cbn [app] in H1. inversion H1; subst n'.
    destruct (np_loop_flags _ _ _ _ _ _ _ _ _ _ EL Hpk eq_refl eq_refl) as [G1 [G2 G3]].
    { cbn [c_in]. rewrite len_nil. lia. }
    { intros _. constructor. }
    cbn [c_in] in G2. rewrite len_nil in G2.
    assert (Hkept_ok : Forall (in_ok reg i) (map (norm i) kept)).
    { rewrite Forall_forall. intros v Hv. apply in_map_iff in Hv. destruct Hv as [p [Hp1 Hp2]]. subst v.
      apply src_ok_in_ok; [assumption|]. rewrite Forall_forall in Hall. apply Hall.
      apply H6 in Hp2. destruct Hp2 as [Hp2|Hp2]; [left; exact Hp2|right].
      rewrite H3. apply in_or_app. left. exact Hp2. }
    assert (Hmulti : wf_tx reg i (TMulti o')).
    { cbn [wf_tx]. rewrite H2. split; [assumption|]. split; [rewrite <- H2; assumption|].
      split; [rewrite <- H2; lia|]. split; [assumption|]. rewrite <- H2. exact G3. }
    assert (Htags : forall x, In x (c_tags o') <-> exists v, In v kept /\ In x (p_tags v)).
    { intro x. rewrite H3'. apply in_flat_map. }
    unfold unwrap.
    destruct ((f_len (c_fl o') =? 1) && negb (f_mdev (c_fl o'))) eqn:EU.
    + apply andb_prop in EU. destruct EU as [EU1 EU2].
      destruct (c_in o') as [|v [|w r]] eqn:Ein.
      * exists (TMulti o'), u, kept. rewrite Ein in H2.
        repeat split; try assumption; try (rewrite <- H2, <- Ein; reflexivity).
        -- cbn [tx_packets]. rewrite Ein, H2. rewrite map_map. reflexivity.
        -- intros x Hx. right. apply Htags. exact Hx.
        -- intros v x Hv Hx. apply Htags. exists v. split; assumption.
        -- rewrite Ein. exact H2.
      * destruct kept as [|p [|p2 kr]]; try discriminate. cbn [map] in H2. inversion H2; subst v.
        exists (TSingle (norm i p)), u, [p]. cbn [tx_packets map tx_tags wf_tx].
        repeat split; try assumption; try reflexivity.
        -- destruct (f_mdev (c_fl o')); [discriminate|]. specialize (G3 eq_refl). rewrite Ein in G3.
           inversion G3; assumption.
        -- rewrite Ein in Hkept_ok. cbn [map] in Hkept_ok. inversion Hkept_ok as [|? ? Hk _]. apply Hk.
        -- intros x Hx. right. exists p. split; [left; reflexivity|]. rewrite p_tags_norm in Hx. exact Hx.
        -- intros v x [Hv|[]] Hx. subst v. rewrite p_tags_norm. exact Hx.
      * exists (TMulti o'), u, kept.
        repeat split; try assumption.
        -- cbn [tx_packets]. rewrite Ein, H2. rewrite map_map. reflexivity.
        -- intros x Hx. right. apply Htags. exact Hx.
        -- intros v0 x Hv Hx. apply Htags. exists v0. split; assumption.
        -- rewrite Ein. exact H2.
    + exists (TMulti o'), u, kept.
      repeat split; try assumption.
      * cbn [tx_packets]. rewrite H2. rewrite map_map. reflexivity.
      * intros x Hx. right. apply Htags. exact Hx.
      * intros v0 x Hv Hx. apply Htags. exists v0. split; assumption.
Qed.
