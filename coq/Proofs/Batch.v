(* Proofs/Batch.v -- C03 (stub, being written) *)
From XMT Require Import Base.Prelude Model.Batch.
Lemma stub_true : True. Proof. exact I. Qed.
