(* Proofs/Tasks.v -- C18: every description decodes to what was encoded, consuming exactly the
   encoded bytes.  The codec primitives' round trips are proved here locally (prefix t_), so
   that this file depends on Model/Codec.v only. *)
From XMT Require Import Base.Prelude Base.BitLemmas Model.Codec Model.Tasks.
From Coq Require Import ZifyBool.
Ltac Zify.zify_post_hook ::= Z.div_mod_to_equations.

(* ---- big-endian integers ------------------------------------------------------------- *)
Lemma t_of_be_be16 v : of_be (be16 v) 0 = v mod 65536.
Proof. unfold be16, of_be, u8. lia. Qed.
Lemma t_of_be_be32 v : of_be (be32 v) 0 = v mod 4294967296.
Proof. unfold be32, of_be, u8. lia. Qed.
Lemma t_of_be_be64_small v : 0 <= v < 18446744073709551616 -> of_be (be64 v) 0 = v.
Proof.
  intros H. unfold be64, of_be, u8.
  assert (E : v = (v / 4294967296) * 4294967296 + v mod 4294967296) by lia.
  set (hi := v / 4294967296) in *. set (lo := v mod 4294967296) in *.
  assert (Hhi : 0 <= hi < 4294967296) by lia. assert (Hlo : 0 <= lo < 4294967296) by lia.
  replace (v / 72057594037927936) with (hi / 16777216) by lia.
  replace (v / 281474976710656) with (hi / 65536) by lia.
  replace (v / 1099511627776) with (hi / 256) by lia.
  replace (v / 16777216) with (hi * 256 + lo / 16777216) by lia.
  replace (v / 65536) with (hi * 65536 + lo / 65536) by lia.
  replace (v / 256) with (hi * 16777216 + lo / 256) by lia.
  lia.
Qed.
Lemma t_be64_mod v : be64 (v mod 18446744073709551616) = be64 v.
Proof.
  assert (Hm : exists m k, v = m + k * 18446744073709551616 /\ v mod 18446744073709551616 = m).
  { exists (v mod 18446744073709551616), (v / 18446744073709551616). lia. }
  destruct Hm as (m & k & -> & ->). unfold be64, u8.
  repeat (f_equal; try lia).
Qed.
Lemma t_of_be_be64 v : of_be (be64 v) 0 = v mod 18446744073709551616.
Proof. rewrite <- t_be64_mod. apply t_of_be_be64_small. lia. Qed.

Lemma t_take_app {A} (a b : list A) n : len a = n -> take n (a ++ b) = a.
Proof.
  intros <-. unfold take, len. rewrite Nat2Z.id, firstn_app, Nat.sub_diag, firstn_all. cbn. apply app_nil_r.
Qed.
Lemma t_drop_app {A} (a b : list A) n : len a = n -> drop n (a ++ b) = b.
Proof.
  intros <-. unfold drop, len. rewrite Nat2Z.id, skipn_app, Nat.sub_diag, skipn_all. reflexivity.
Qed.

(* ---- primitives ------------------------------------------------------------------------ *)
Lemma t_rd_fixed a rest n : len a = n -> rd_fixed n (a ++ rest) = Ok (a, rest).
Proof.
  intros H. unfold rd_fixed. rewrite len_app. pose proof (len_nonneg rest).
  replace (len a + len rest <? n) with false by lia.
  rewrite t_take_app, t_drop_app by exact H. reflexivity.
Qed.

Lemma t_rd_u8 v rest : is_u8 v -> rd_u8 (enc_u8 v ++ rest) = Ok (v, rest).
Proof. unfold is_u8. intros H. unfold enc_u8. cbn [app rd_u8]. rewrite u8_small by lia. reflexivity. Qed.
Lemma t_rd_u16 v rest : 0 <= v < 65536 -> rd_u16 (enc_u16 v ++ rest) = Ok (v, rest).
Proof.
  intros H. unfold rd_u16, rd_uN, enc_u16. rewrite t_rd_fixed by reflexivity. cbn [bind].
  rewrite t_of_be_be16. rewrite Z.mod_small by lia. reflexivity.
Qed.
Lemma t_rd_u32 v rest : is_u32 v -> rd_u32 (enc_u32 v ++ rest) = Ok (v, rest).
Proof.
  unfold is_u32. intros H. unfold rd_u32, rd_uN, enc_u32. rewrite t_rd_fixed by reflexivity. cbn [bind].
  rewrite t_of_be_be32. rewrite Z.mod_small by lia. reflexivity.
Qed.
Lemma t_rd_u64 v rest : 0 <= v < 18446744073709551616 -> rd_u64 (enc_u64 v ++ rest) = Ok (v, rest).
Proof.
  intros H. unfold rd_u64, rd_uN, enc_u64. rewrite t_rd_fixed by reflexivity. cbn [bind].
  rewrite t_of_be_be64. rewrite Z.mod_small by lia. reflexivity.
Qed.
Lemma t_rd_bool b rest : rd_bool (enc_bool b ++ rest) = Ok (b, rest).
Proof. destruct b; reflexivity. Qed.

(* a signed 64-bit value travels as its two's complement *)
Lemma t_i64_wrap v : is_i64 v -> i64 (v mod 18446744073709551616) = v.
Proof.
  unfold is_i64. intros H. unfold i64, sgn. change (2 ^ 64) with 18446744073709551616.
  rewrite Z.mod_mod by lia. change (18446744073709551616 / 2) with 9223372036854775808.
  destruct (Z.lt_ge_cases v 0) as [Hn|Hn].
  - replace (v mod 18446744073709551616) with (v + 18446744073709551616) by lia.
    replace (v + 18446744073709551616 <? 9223372036854775808) with false by lia. lia.
  - rewrite Z.mod_small by lia. replace (v <? 9223372036854775808) with true by lia. reflexivity.
Qed.
Lemma t_rd_i64 v rest : is_i64 v -> rd_i64 (enc_u64 v ++ rest) = Ok (v, rest).
Proof.
  intros H. unfold rd_i64, rd_u64, rd_uN, enc_u64. rewrite t_rd_fixed by reflexivity. cbn [bind].
  rewrite t_of_be_be64, t_i64_wrap by exact H. reflexivity.
Qed.

Lemma t_i64_small v : 0 <= v < 9223372036854775808 -> i64 v = v.
Proof.
  intros H. rewrite <- (Z.mod_small v 18446744073709551616) at 1 by lia. apply t_i64_wrap. unfold is_i64. lia.
Qed.

Lemma t_rd_prefix l rest :
  0 <= l < 18446744073709551616 ->
  rd_prefix (enc_prefix l ++ rest) = Ok (if l =? 0 then None else Some l, rest).
Proof.
  intros H. unfold enc_prefix, LimitSmall, LimitMedium, LimitLarge.
  destruct (l =? 0) eqn:E0; [reflexivity|].
  destruct (l <? 256) eqn:E1.
  { cbn [app]. unfold rd_prefix. cbn [rd_u8 bind Z.eqb orb].
    change ([u8 l] ++ rest) with (enc_u8 l ++ rest). rewrite u8_small by lia. reflexivity. }
  destruct (l <? 65536) eqn:E2.
  { cbn [app]. unfold rd_prefix. cbn [rd_u8 bind Z.eqb orb].
    change (be16 l ++ rest) with (enc_u16 l ++ rest).
    fold rd_u16. rewrite t_rd_u16 by lia. reflexivity. }
  destruct (l <? 4294967296) eqn:E3.
  { cbn [app]. unfold rd_prefix. cbn [rd_u8 bind Z.eqb orb].
    change (be32 l ++ rest) with (enc_u32 l ++ rest).
    fold rd_u32. rewrite t_rd_u32 by (unfold is_u32; lia). reflexivity. }
  cbn [app]. unfold rd_prefix. cbn [rd_u8 bind Z.eqb orb].
  change (be64 l ++ rest) with (enc_u64 l ++ rest).
  fold rd_u64. rewrite t_rd_u64 by lia. reflexivity.
Qed.

Lemma len_zero_nil {A} (l : list A) : len l = 0 -> l = [].
Proof. destruct l; [reflexivity|]. rewrite len_cons. pose proof (len_nonneg l). lia. Qed.

Lemma t_rd_bytes b rest : wf_str b -> rd_bytes (enc_bytes b ++ rest) = Ok (b, rest).
Proof.
  unfold wf_str. intros H. unfold rd_bytes, enc_bytes. rewrite <- app_assoc. pose proof (len_nonneg b) as Hn.
  rewrite t_rd_prefix by (unfold MaxSlice in H; lia). cbn [bind].
  destruct (len b =? 0) eqn:E.
  - rewrite (len_zero_nil b) by lia. reflexivity.
  - rewrite E. replace (MaxSlice <? len b) with false by lia.
    rewrite len_app. pose proof (len_nonneg rest). replace (len b + len rest <? len b) with false by lia.
    rewrite t_take_app, t_drop_app by reflexivity. reflexivity.
Qed.

Lemma t_rd_strings l : forall rest,
  Forall wf_str l -> rd_strings (length l) (concat (map enc_bytes l) ++ rest) = Ok (l, rest).
Proof.
  induction l as [|b l IH]; intros rest H; [reflexivity|].
  inversion H as [|? ? Hb Hl]; subst. cbn [length rd_strings map concat]. rewrite <- app_assoc.
  rewrite t_rd_bytes by exact Hb. cbn [bind]. rewrite IH by exact Hl. reflexivity.
Qed.

(* ReadStringList into an empty (or nil) slice *)
Lemma t_rd_strlist l rest :
  wf_list l -> rd_strlist_into [] (enc_strlist l ++ rest) = Ok (l, rest).
Proof.
  intros [H Hl]. unfold rd_strlist_into, enc_strlist. rewrite <- app_assoc. pose proof (len_nonneg l) as Hn.
  unfold maxAlloc in *.
  rewrite t_rd_prefix by lia. cbn [bind].
  destruct (len l =? 0) eqn:E.
  - rewrite (len_zero_nil l) by lia. reflexivity.
  - cbv zeta. rewrite t_i64_small by lia. change (len (@nil (list Z))) with 0.
    replace (len l <? 0) with false by lia. replace (0 <? len l) with true by lia.
    replace (281474976710656 <? len l * 16) with false by lia.
    unfold len. rewrite Nat2Z.id. apply t_rd_strings. exact H.
Qed.

(* ---- filter ----------------------------------------------------------------------------- *)
Lemma filter_eta (f : filter) :
  mkFilter (f_pid f) (f_fallback f) (f_session f) (f_elevated f) (f_exclude f) (f_include f) = f.
Proof. destruct f; reflexivity. Qed.

Ltac step :=
  first [ rewrite t_rd_strlist by assumption
        | rewrite t_rd_bytes by assumption
        | rewrite t_rd_bool
        | rewrite t_rd_u32 by assumption
        | rewrite t_rd_i64 by assumption
        | rewrite t_rd_u8 by assumption ]; cbn [bind].

Lemma dec_filter_body_enc f old rest :
  wf_filter f -> f_exclude old = [] -> f_include old = [] ->
  dec_filter_body old (enc_filter_body f ++ rest) = Ok (f, rest).
Proof.
  intros (Hp & Hs & He & Hx & Hi) Ex Ei. unfold dec_filter_body, enc_filter_body. rewrite Ex, Ei.
  repeat rewrite <- app_assoc. repeat step. rewrite filter_eta. reflexivity.
Qed.

Lemma dec_filter_ptr_enc o rest :
  wf_filter_opt o -> dec_filter_ptr None (enc_filter o ++ rest) = Ok (norm_filter_ptr o, rest).
Proof.
  intros H. unfold dec_filter_ptr, enc_filter, norm_filter_ptr. destruct o as [f|].
  - destruct (filter_empty f).
    + rewrite t_rd_bool. reflexivity.
    + rewrite <- app_assoc, t_rd_bool. cbn [bind negb].
      rewrite dec_filter_body_enc by (exact H || reflexivity). reflexivity.
  - rewrite t_rd_bool. reflexivity.
Qed.

Lemma dec_filter_val_enc f rest :
  wf_filter f -> dec_filter_val zero_filter (enc_filter (Some f) ++ rest) = Ok (norm_filter_val f, rest).
Proof.
  intros H. unfold dec_filter_val, enc_filter, norm_filter_val. destruct (filter_empty f).
  - rewrite t_rd_bool. reflexivity.
  - rewrite <- app_assoc, t_rd_bool. cbn [bind negb]. apply dec_filter_body_enc; [exact H|reflexivity|reflexivity].
Qed.

Ltac stepf := first [ step | rewrite dec_filter_ptr_enc by assumption; cbn [bind] ].

(* ---- the four task descriptions ------------------------------------------------------------ *)
Lemma process_roundtrip p rest :
  wf_process p -> dec_process zero_process (enc_process p ++ rest) = Ok (norm_process p, rest).
Proof.
  intros (H1 & H2 & H3 & H4 & H5 & H6 & H7 & H8 & H9 & H10).
  unfold dec_process, enc_process, norm_process. cbn [zero_process p_args p_env p_filter].
  repeat rewrite <- app_assoc. repeat stepf. reflexivity.
Qed.

Lemma dll_roundtrip d rest :
  wf_dll d -> dec_dll zero_dll (enc_dll d ++ rest) = Ok (norm_dll d, rest).
Proof.
  intros (H1 & H2 & H3 & H4).
  unfold dec_dll, enc_dll, norm_dll. cbn [zero_dll d_filter].
  repeat rewrite <- app_assoc. repeat stepf. reflexivity.
Qed.

Lemma zombie_roundtrip z rest :
  wf_zombie z -> dec_zombie zero_zombie (enc_zombie z ++ rest) = Ok (norm_zombie z, rest).
Proof.
  intros (H1 & H2 & H3 & H4 & H5 & H6 & H7 & H8 & H9 & H10 & H11).
  unfold dec_zombie, enc_zombie, norm_zombie. cbn [zero_zombie z_args z_env z_filter].
  repeat rewrite <- app_assoc. repeat stepf. reflexivity.
Qed.

Lemma asm_roundtrip a rest :
  wf_asm a -> dec_asm zero_asm (enc_asm a ++ rest) = Ok (norm_asm a, rest).
Proof.
  intros (H1 & H2 & H3).
  unfold dec_asm, enc_asm, norm_asm. cbn [zero_asm a_filter].
  repeat rewrite <- app_assoc. repeat stepf. reflexivity.
Qed.

(* ---- script framing ---------------------------------------------------------------------------- *)
Lemma dec_entries_enc es : forall fuel,
  Forall wf_entry es -> (length es <= fuel)%nat ->
  dec_entries fuel (concat (map enc_entry es)) = Ok es.
Proof.
  induction es as [|[id d] es IH]; intros fuel H Hf.
  - destruct fuel; reflexivity.
  - inversion H as [|? ? [Hid Hd] Hes]; subst. cbn [fst snd] in Hid, Hd.
    destruct fuel as [|k]; [cbn [length] in Hf; lia|].
    cbn [map concat]. unfold enc_entry at 1. cbn [fst snd]. rewrite <- app_assoc.
    unfold enc_u8 at 1. cbn [app dec_entries].
    change (u8 id :: enc_bytes d ++ concat (map enc_entry es)) with (enc_u8 id ++ enc_bytes d ++ concat (map enc_entry es)).
    rewrite t_rd_u8 by exact Hid. cbn [bind]. rewrite t_rd_bytes by exact Hd. cbn [bind].
    rewrite IH by (try exact Hes; cbn [length] in Hf; lia). reflexivity.
Qed.

Lemma entries_len es : (length es <= length (concat (map enc_entry es)))%nat.
Proof.
  induction es as [|e es IH]; [cbn; lia|]. cbn [map concat length]. rewrite app_length.
  unfold enc_entry at 1, enc_u8. cbn [app length]. lia.
Qed.

Lemma script_roundtrip f es :
  is_u8 f -> Forall wf_entry es -> dec_script (enc_script f es) = Ok (f, es).
Proof.
  intros Hf H. unfold dec_script, enc_script. rewrite t_rd_u8 by exact Hf. cbn [bind].
  rewrite dec_entries_enc by (try exact H; apply entries_len). reflexivity.
Qed.

(* ---- sentinel ------------------------------------------------------------------------------------ *)
Lemma spath_roundtrip p rest :
  wf_spath p -> dec_spath (enc_spath p ++ rest) = Ok (norm_spath p, rest).
Proof.
  intros (Ht & Hp & He). unfold dec_spath, enc_spath, norm_spath. repeat rewrite <- app_assoc.
  rewrite t_rd_u8 by exact Ht. cbn [bind]. rewrite t_rd_bytes by exact Hp. cbn [bind].
  destruct (sp_t p <? sentPathDownload).
  - reflexivity.
  - rewrite t_rd_strlist by exact He. cbn [bind]. destruct p; reflexivity.
Qed.

Lemma spaths_roundtrip ps : forall rest,
  Forall wf_spath ps ->
  dec_spaths (length ps) (concat (map enc_spath ps) ++ rest) = Ok (map norm_spath ps, rest).
Proof.
  induction ps as [|p ps IH]; intros rest H; [reflexivity|].
  inversion H as [|? ? Hp Hps]; subst. cbn [length dec_spaths map concat]. rewrite <- app_assoc.
  rewrite spath_roundtrip by exact Hp. cbn [bind]. rewrite IH by exact Hps. reflexivity.
Qed.

Lemma take_all {A} (l : list A) n : len l <= n -> take n l = l.
Proof. intros H. unfold take. apply firstn_all2. unfold len in H. lia. Qed.

Lemma sentinel_roundtrip x rest :
  wf_sentinel x -> dec_sentinel zero_sentinel (enc_sentinel x ++ rest) = Ok (norm_sentinel x, rest).
Proof.
  intros (Hf & Hp & Hn). unfold dec_sentinel, enc_sentinel, norm_sentinel. cbn [zero_sentinel s_filter].
  repeat rewrite <- app_assoc. rewrite dec_filter_val_enc by exact Hf. cbn [bind].
  pose proof (len_nonneg (s_paths x)) as H0.
  rewrite u16_small by lia. rewrite t_rd_u16 by lia. cbn [bind].
  rewrite take_all by exact Hn. unfold len. rewrite Nat2Z.id.
  rewrite spaths_roundtrip by exact Hp. reflexivity.
Qed.

(* the count wraps: with exactly 65536 launcher paths the file says "no paths" and the decoder
   stops before the 65535 paths that were written *)
Lemma sentinel_count_wraps x :
  wf_filter (s_filter x) -> len (s_paths x) = 65536 ->
  dec_sentinel zero_sentinel (enc_sentinel x) =
  Ok (mkSentinel (norm_filter_val (s_filter x)) [], concat (map enc_spath (take 65535 (s_paths x)))).
Proof.
  intros Hf Hn. unfold dec_sentinel, enc_sentinel. cbn [zero_sentinel s_filter].
  rewrite dec_filter_val_enc by exact Hf. cbn [bind]. rewrite Hn.
  change (u16 65536) with 0. rewrite t_rd_u16 by lia. cbn [bind]. reflexivity.
Qed.

(* ---- CTR -------------------------------------------------------------------------------------------- *)
Lemma xorl_length a : forall k, length (xorl a k) = length a.
Proof. induction a as [|x a IH]; intros [|y k]; cbn [xorl length]; try reflexivity. rewrite IH. reflexivity. Qed.

Lemma xorl_invol a : forall k, xorl (xorl a k) k = a.
Proof.
  induction a as [|x a IH]; intros [|y k]; cbn [xorl]; try reflexivity.
  rewrite IH. rewrite Z.lxor_assoc, Z.lxor_nilpotent, Z.lxor_0_r. reflexivity.
Qed.

Lemma ctr_roundtrip (E : list Z -> list Z) iv x : ctr_xor E iv (ctr_xor E iv x) = x.
Proof.
  unfold ctr_xor at 1. unfold ctr_blocks.
  assert (L : len (ctr_xor E iv x) = len x) by (unfold ctr_xor, len; rewrite xorl_length; reflexivity).
  rewrite L. unfold ctr_xor, ctr_blocks. apply xorl_invol.
Qed.

Lemma ctr_length (E : list Z -> list Z) iv x : len (ctr_xor E iv x) = len x.
Proof. unfold ctr_xor, len. rewrite xorl_length. reflexivity. Qed.

(* each byte is XORed with the keystream byte of its position as long as the block function
   returns blocks of the IV's size *)
Lemma xorl_nth a : forall k i, (i < length a)%nat -> (length a <= length k)%nat ->
  nth i (xorl a k) 0 = Z.lxor (nth i a 0) (nth i k 0).
Proof.
  induction a as [|x a IH]; intros [|y k] i Hi Hk; cbn [length] in *; try lia.
  destruct i; cbn [xorl nth]; [reflexivity|]. apply IH; lia.
Qed.

Lemma keystream_length (E : list Z -> list Z) bs : (forall c, length (E c) = bs) ->
  forall n c, length (keystream E n c) = (n * bs)%nat.
Proof. intros HE. induction n; intros c; cbn [keystream]; [reflexivity|]. rewrite app_length, HE, IHn. lia. Qed.

Lemma ctr_covers (E : list Z -> list Z) iv x :
  (0 < length iv)%nat -> (forall c, length (E c) = length iv) ->
  (length x <= length (keystream E (ctr_blocks iv x) iv))%nat.
Proof.
  intros Hb HE. rewrite (keystream_length E (length iv) HE). unfold ctr_blocks, len.
  set (n := Z.of_nat (length x)). set (b := Z.of_nat (length iv)).
  assert (Hq : 0 <= n / b) by (apply Z.div_pos; lia).
  assert (n < (n / b + 1) * b) by (pose proof (Z.mod_pos_bound n b ltac:(lia)); pose proof (Z.div_mod n b ltac:(lia)); lia).
  apply Nat2Z.inj_le. rewrite Nat2Z.inj_mul. change (S (Z.to_nat (n / b))) with (1 + Z.to_nat (n / b))%nat.
  rewrite Nat2Z.inj_add, Z2Nat.id by lia. fold n b. lia.
Qed.

(* ---- the launcher file ----------------------------------------------------------------------------------- *)
Lemma file_roundtrip (E : list Z -> list Z) iv x :
  wf_sentinel x ->
  read_file E (len iv) zero_sentinel (write_file E iv x) = Ok (norm_sentinel x, []).
Proof.
  intros H. unfold read_file, write_file. rewrite len_app.
  pose proof (len_nonneg (ctr_xor E iv (enc_sentinel x))).
  replace (len iv + len (ctr_xor E iv (enc_sentinel x)) <? len iv) with false by lia.
  cbv zeta. rewrite t_take_app, t_drop_app by reflexivity. rewrite ctr_roundtrip.
  rewrite <- (app_nil_r (enc_sentinel x)). apply sentinel_roundtrip. exact H.
Qed.

(* ---- normalisation only touches empty filters ---------------------------------------------------------------- *)
Lemma norm_nonempty f :
  filter_empty f = false -> norm_filter_ptr (Some f) = Some f /\ norm_filter_val f = f.
Proof. intros H. unfold norm_filter_ptr, norm_filter_val. rewrite H. split; reflexivity. Qed.

(* an empty filter is what MarshalStream treats as absent: it is written as the single byte 0 *)
Lemma enc_filter_empty f : filter_empty f = true -> enc_filter (Some f) = enc_filter None.
Proof. intros H. unfold enc_filter. rewrite H. reflexivity. Qed.

(* normalisation is idempotent: a decoded description encodes and decodes to itself *)
Lemma norm_filter_ptr_idem o : norm_filter_ptr (norm_filter_ptr o) = norm_filter_ptr o.
Proof.
  unfold norm_filter_ptr. destruct o as [f|]; [|reflexivity].
  destruct (filter_empty f) eqn:E; [reflexivity|]. rewrite E. reflexivity.
Qed.

(* ---- non-vacuity ------------------------------------------------------------------------------------------------ *)
Definition w_filter : filter := mkFilter 1234 true 2 1 [[97]] [[98; 99]; []].
Definition w_process : process :=
  mkProcess [[47; 98; 105; 110]; [45; 99]] [47] [[65; 61; 49]] true 8 (-5) true [117] [] [112] (Some w_filter) [1; 2; 3].
Definition w_sentinel : sentinel :=
  mkSentinel w_filter [mkSpath 0 [42] []; mkSpath 1 [100] []; mkSpath 2 [97] []; mkSpath 3 [104] [[120]]; mkSpath 4 [122] [[97]; [98]]].

Lemma wf_str_small b : len b <= 1000 -> wf_str b.
Proof. unfold wf_str, MaxSlice. lia. Qed.

Ltac wf_small :=
  repeat match goal with
  | |- _ /\ _ => split
  | |- wf_list _ => split
  | |- Forall _ [] => constructor
  | |- Forall _ (_ :: _) => constructor
  | |- wf_str _ => apply wf_str_small; vm_compute; discriminate
  | |- wf_filter_opt (Some _) => unfold wf_filter_opt
  | |- wf_filter _ => unfold wf_filter; cbn [f_pid f_session f_elevated f_exclude f_include]
  | |- wf_spath _ => unfold wf_spath; cbn [sp_t sp_path sp_extra]
  | |- is_u8 _ => unfold is_u8; cbn; lia
  | |- is_u32 _ => unfold is_u32; cbn; lia
  | |- is_i64 _ => unfold is_i64; cbn; lia
  | |- _ <= _ => vm_compute; discriminate
  end.

Lemma nonvacuous_witness :
  wf_process w_process /\ wf_sentinel w_sentinel /\
  dec_process zero_process (enc_process w_process ++ [7; 7]) = Ok (w_process, [7; 7]) /\
  dec_sentinel zero_sentinel (enc_sentinel w_sentinel ++ [9]) = Ok (w_sentinel, [9]) /\
  enc_process w_process <> enc_process zero_process.
Proof.
  split; [unfold wf_process, w_process, w_filter; cbn [p_args p_dir p_env p_flags p_timeout p_user p_domain p_pass p_filter p_stdin
            f_pid f_session f_elevated f_exclude f_include]; wf_small|].
  split; [unfold wf_sentinel, w_sentinel, w_filter; cbn [s_filter s_paths sp_t sp_path sp_extra
            f_pid f_session f_elevated f_exclude f_include]; wf_small|].
  split; [vm_compute; reflexivity|]. split; [vm_compute; reflexivity|]. vm_compute. discriminate.
Qed.

(* ---- one statement for every description type ------------------------------------------------------------------ *)
Lemma desc_roundtrip d rest :
  wf_desc d -> (forall f es, d <> DScript f es) ->
  dec_desc (zero_of d) (enc_desc d ++ rest) = Ok (norm_desc d, rest).
Proof.
  intros H Hs. destruct d; cbn [zero_of dec_desc enc_desc norm_desc wf_desc] in *.
  - rewrite process_roundtrip by exact H. reflexivity.
  - rewrite dll_roundtrip by exact H. reflexivity.
  - rewrite zombie_roundtrip by exact H. reflexivity.
  - rewrite asm_roundtrip by exact H. reflexivity.
  - rewrite dec_filter_ptr_enc by exact H. reflexivity.
  - rewrite dec_filter_val_enc by exact H. reflexivity.
  - rewrite sentinel_roundtrip by exact H. reflexivity.
  - exfalso. eapply Hs. reflexivity.
Qed.

(* ---- the launcher file through a reader that delivers it in pieces ---------------------------------------------- *)
Lemma t_take_app_le {A} (a b : list A) n : 0 <= n <= len a -> take n (a ++ b) = take n a.
Proof.
  intros H. unfold take, len in *. rewrite firstn_app.
  replace (Z.to_nat n - length a)%nat with 0%nat by lia. cbn. apply app_nil_r.
Qed.
Lemma t_drop_app_le {A} (a b : list A) n : 0 <= n <= len a -> drop n (a ++ b) = drop n a ++ b.
Proof.
  intros H. unfold drop, len in *. rewrite skipn_app.
  replace (Z.to_nat n - length a)%nat with 0%nat by lia. reflexivity.
Qed.

Lemma file_src_roundtrip (E : list Z -> list Z) iv x c cs :
  wf_sentinel x -> concat (c :: cs) = write_file E iv x -> len iv <= len c ->
  read_file_src E (len iv) zero_sentinel (c :: cs) = Ok (norm_sentinel x, []).
Proof.
  intros H Hc Hl. unfold write_file in Hc. cbn [concat] in Hc.
  pose proof (len_nonneg iv) as Hn.
  assert (Ht : take (len iv) (c ++ concat cs) = iv) by (rewrite Hc; apply t_take_app; reflexivity).
  assert (Hd : drop (len iv) (c ++ concat cs) = ctr_xor E iv (enc_sentinel x)) by (rewrite Hc; apply t_drop_app; reflexivity).
  rewrite t_take_app_le in Ht by lia. rewrite t_drop_app_le in Hd by lia.
  unfold read_file_src, read1.
  destruct (len c <=? len iv) eqn:Ec.
  - assert (Hcl : len c = len iv) by lia.
    rewrite take_all in Ht by lia. subst c.
    unfold drop, len in Hd. rewrite Nat2Z.id, skipn_all in Hd. cbn [app] in Hd.
    rewrite Z.eqb_refl. cbn [negb]. rewrite Hd, ctr_roundtrip.
    rewrite <- (app_nil_r (enc_sentinel x)). apply sentinel_roundtrip. exact H.
  - rewrite Ht. rewrite Z.eqb_refl. cbn [negb concat]. rewrite Hd, ctr_roundtrip.
    rewrite <- (app_nil_r (enc_sentinel x)). apply sentinel_roundtrip. exact H.
Qed.

(* the IV is fetched with ONE Read call: a first delivery shorter than the block is an error
   whatever follows (an observation about Sentinel.Read, outside the property) *)
Lemma file_src_short_first (E : list Z -> list Z) bs old c cs :
  len c < bs -> read_file_src E bs old (c :: cs) = Err ErrUnexpectedEOF.
Proof.
  intros H. unfold read_file_src, read1. replace (len c <=? bs) with true by lia.
  replace (len c =? bs) with false by lia. reflexivity.
Qed.
