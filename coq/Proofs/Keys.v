(* Proofs/Keys.v -- C06: lemmas about Model/Keys.v. *)
From XMT Require Import Base.Prelude Model.Keys.

(* ---- the cipher ------------------------------------------------------------ *)
Lemma lxor_twice : forall x c, Z.lxor (Z.lxor x c) c = x.
Proof. intros. rewrite Z.lxor_assoc, Z.lxor_nilpotent, Z.lxor_0_r. reflexivity. Qed.

Lemma xor_go_involution : forall b cur key, xor_go (xor_go b cur key) cur key = b.
Proof.
  induction b as [|x b IH]; intros cur key; cbn [xor_go]; [reflexivity|].
  destruct cur as [|c cur].
  - destruct key as [|c key'].
    + reflexivity.
    + cbn [xor_go]. rewrite lxor_twice, IH. reflexivity.
  - cbn [xor_go]. rewrite lxor_twice, IH. reflexivity.
Qed.

Lemma xor_go_length : forall b cur key, length (xor_go b cur key) = length b.
Proof.
  induction b as [|x b IH]; intros cur key; cbn [xor_go]; [reflexivity|].
  destruct cur as [|c cur]; [destruct key as [|c key']|]; cbn [length]; try rewrite IH; reflexivity.
Qed.

Lemma xor_involution : forall b key, xor_op (xor_op b key) key = b.
Proof. intros. apply xor_go_involution. Qed.

Lemma xor_length : forall b key, length (xor_op b key) = length b.
Proof. intros. apply xor_go_length. Qed.

Lemma xor_len : forall b key, len (xor_op b key) = len b.
Proof. intros. unfold len. rewrite xor_length. reflexivity. Qed.

Lemma xor_empty_key : forall b, xor_op b [] = b.
Proof. destruct b; reflexivity. Qed.

Lemma xor_nil : forall key, xor_op [] key = [].
Proof. reflexivity. Qed.

(* byte i of the result is byte i of the buffer XOR byte (i mod |key|) of the key *)
Lemma xor_go_nth : forall b cur key i d,
  key <> [] -> (length cur <= length key)%nat -> (i < length b)%nat ->
  nth i (xor_go b cur key) d =
  Z.lxor (nth i b d)
         (if (i <? length cur)%nat then nth i cur 0 else nth ((i - length cur) mod length key)%nat key 0).
Proof.
  induction b as [|x b IH]; intros cur key i d Hk Hc Hi; cbn [length] in Hi; [lia|].
  cbn [xor_go]. destruct cur as [|c cur].
  - destruct key as [|c key']; [congruence|].
    destruct i as [|i].
    + cbn [nth length]. replace (0 <? 0)%nat with false by reflexivity.
      rewrite Nat.sub_0_r, Nat.mod_0_l by (cbn [length]; lia). reflexivity.
    + cbn [nth]. rewrite IH by (cbn [length] in *; try congruence; lia).
      f_equal. cbn [length]. replace (S i <? 0)%nat with false by reflexivity.
      rewrite Nat.sub_0_r.
      destruct (i <? length key')%nat eqn:E.
      * apply Nat.ltb_lt in E. rewrite Nat.mod_small by lia. reflexivity.
      * apply Nat.ltb_ge in E.
        replace (S i) with ((i - length key') + 1 * S (length key'))%nat by lia.
        rewrite Nat.mod_add by lia. reflexivity.
  - destruct i as [|i].
    + cbn [nth length]. replace (0 <? S (length cur))%nat with true by reflexivity. reflexivity.
    + cbn [nth]. rewrite IH by (cbn [length] in *; first [assumption | lia]).
      cbn [length]. reflexivity.
Qed.

Lemma xor_op_nth : forall b key i d,
  key <> [] -> (i < length b)%nat ->
  nth i (xor_op b key) d = Z.lxor (nth i b d) (nth (i mod length key)%nat key 0).
Proof.
  intros b key i d Hk Hi. unfold xor_op.
  rewrite xor_go_nth by (cbn [length]; try lia; assumption).
  cbn [length]. replace (i <? 0)%nat with false by reflexivity. rewrite Nat.sub_0_r. reflexivity.
Qed.

(* the loop of XorOp computes the index-based description *)
Lemma xor_op_is_spec : forall b key, xor_op b key = xor_spec b key.
Proof.
  intros b key. destruct key as [|c key']; [apply xor_empty_key|].
  assert (Hk : c :: key' <> []) by discriminate.
  change (xor_spec b (c :: key')) with
    (map (fun '(i, x) => Z.lxor x (nth (i mod length (c :: key'))%nat (c :: key') 0)) (combine (seq 0 (length b)) b)).
  revert Hk. generalize (c :: key'). intros key Hk.
  set (f := fun '(i, x) => Z.lxor x (nth (i mod length key)%nat key 0)).
  apply nth_ext with (d := 0) (d' := 0).
  - rewrite xor_length, map_length, combine_length, seq_length. lia.
  - intros n Hn. rewrite xor_length in Hn. rewrite xor_op_nth by assumption.
    rewrite (nth_indep (map f (combine (seq 0 (length b)) b)) 0 (f (0%nat, 0)))
      by (rewrite map_length, combine_length, seq_length; lia).
    rewrite map_nth, combine_nth by (rewrite seq_length; reflexivity).
    rewrite seq_nth by exact Hn. reflexivity.
Qed.

(* ---- keyNextSync's guard ------------------------------------------------------- *)
Lemma no_rekey_while_moving : forall c p, roll_allowed c p true = false.
Proof. intros [|] [|]; reflexivity. Qed.
Lemma no_rekey_while_pending : forall c m, roll_allowed c true m = false.
Proof. intros [|] [|]; reflexivity. Qed.
Lemma roll_allowed_iff : forall c p m, roll_allowed c p m = true <-> c = true /\ p = false /\ m = false.
Proof. intros [|] [|] [|]; cbn; split; intros H; try discriminate H; auto; destruct H as (A & B & C); discriminate. Qed.

(* ---- the text form of a key --------------------------------------------------- *)
Lemma hex_roundtrip : forall b, Forall (fun x => 0 <= x) b -> hex_dec (hex_enc b) = b.
Proof.
  induction 1 as [|x b Hx _ IH]; [reflexivity|].
  unfold hex_dec, hex_enc in *. cbn [map]. rewrite IH. f_equal.
  destruct (x <? 16) eqn:E.
  - apply Z.ltb_lt in E. rewrite Z.mod_small by lia. lia.
  - pose proof (Z.div_mod x 16). lia.
Qed.

(* ---- the share ------------------------------------------------------------- *)
Lemma fill_shared_length : forall old bytes,
  length old = share_size -> length (fill_shared old bytes) = share_size.
Proof.
  intros old bytes H. unfold fill_shared. rewrite app_length, skipn_length, firstn_length, H. lia.
Qed.

(* a secret of at least 65 bytes replaces the share entirely *)
Lemma fill_shared_long : forall old bytes,
  length old = share_size -> (share_size <= length bytes)%nat ->
  fill_shared old bytes = firstn share_size bytes.
Proof.
  intros old bytes H L. unfold fill_shared.
  rewrite firstn_length, Nat.min_l by lia. rewrite skipn_all2 by lia. apply app_nil_r.
Qed.

(* a shorter one leaves the tail of the PREVIOUS share *)
Lemma fill_shared_short : forall old bytes,
  (length bytes <= share_size)%nat -> fill_shared old bytes = bytes ++ skipn (length bytes) old.
Proof. intros old bytes L. unfold fill_shared. rewrite firstn_all2 by lia. reflexivity. Qed.

(* ... so that tail is exactly the previous one (the "stale tail") *)
Lemma stale_tail_kept : forall old bytes,
  (length bytes <= share_size)%nat ->
  firstn (length bytes) (fill_shared old bytes) = bytes /\
  skipn (length bytes) (fill_shared old bytes) = skipn (length bytes) old.
Proof.
  intros old bytes L. rewrite fill_shared_short by exact L. split.
  - rewrite firstn_app, Nat.sub_diag, firstn_all. cbn [firstn]. apply app_nil_r.
  - rewrite skipn_app, Nat.sub_diag, skipn_all. reflexivity.
Qed.

(* the stale tail matters: with a short secret, previous shares that differ behind it give
   different new shares (this is why agreement must be proved as an invariant of the whole history) *)
Lemma stale_tail_matters : forall old1 old2 bytes,
  (length bytes <= share_size)%nat ->
  skipn (length bytes) old1 <> skipn (length bytes) old2 ->
  fill_shared old1 bytes <> fill_shared old2 bytes.
Proof.
  intros old1 old2 bytes L D E. rewrite !fill_shared_short in E by exact L.
  apply app_inv_head in E. contradiction.
Qed.

Lemma zlist_eqb_refl : forall l, zlist_eqb l l = true.
Proof. induction l as [|x l IH]; [reflexivity|]. cbn. rewrite Z.eqb_refl, IH. reflexivity. Qed.

Lemma is_synced_zero : is_synced zero_share = false.
Proof. reflexivity. Qed.

Lemma deliver_nonempty : forall p log, p <> [] -> deliver p log = p :: log.
Proof. intros [|x p] log H; [congruence|reflexivity]. Qed.

(* ---- the key state machine --------------------------------------------------- *)
Ltac ands := repeat match goal with |- _ /\ _ => split end.

Section Agreement.
  Variables priv point : Type.
  Variable pub : priv -> point.
  Variable dh : priv -> point -> list Z.
  (* the ONLY assumption about the key agreement: commutativity (crypto/elliptic P-521) *)
  Hypothesis dh_comm : forall a b, dh a (pub b) = dh b (pub a).
  (* false = the code as it is; true = next() before the fix 'rekey-merged-into-batch' *)
  Variable merge : bool.

  (* false = the code as it is; true = pickWait before fix 28f32da (re-keys drawn inside a channel) *)
  Variable chan_rekey : bool.

  Notation state := (st priv point).
  Notation step := (step pub dh merge chan_rekey).
  Notation run := (run pub dh merge chan_rekey).
  Notation safe := (safe pub dh merge chan_rekey).
  Notation settled := (settled pub).

  (* whatever the length of the ECDH output (shorter than the share: the stale tail stays), two
     ends that start from EQUAL previous shares compute equal new shares *)
  Lemma stale_tail_harmless : forall old_c old_s a b,
    old_c = old_s -> fill_shared old_c (dh a (pub b)) = fill_shared old_s (dh b (pub a)).
  Proof. intros old_c old_s a b E. rewrite E, dh_comm. reflexivity. Qed.

  Definition synced_with (C : client priv point) (S : server priv) : Prop :=
    c_share C = s_share S /\ c_pub C = pub (s_priv S).

  (* the invariant of every admissible history, phase by phase *)
  Definition inv0 (s : state) : Prop :=
    let C := cl s in
    let S := sv s in
    match upw s, dnw s with
    | None, None =>
      waiting s = false /\ c_next C = None /\ (s_reg S = true -> synced_with C S)
    | Some m, None =>
      waiting s = true /\
      match m with
      | UHello pb => s_reg S = false /\ pb = pub (c_priv C) /\ c_share C = zero_share /\ c_next C = None
      | UData _ => c_next C = None /\ (s_reg S = true -> synced_with C S)
      | URekey pb under =>
        exists k, c_next C = Some k /\ pb = pub k /\ under = c_share C /\ (s_reg S = true -> synced_with C S)
      | UBatch _ _ => False
      end
    | None, Some d =>
      waiting s = true /\
      match d with
      | DRegister => s_reg S = false
      | DComplete pb =>
        c_share C = zero_share /\ c_next C = None /\
        (s_reg S = true ->
         pb = pub (s_priv S) /\ s_share S = fill_shared zero_share (dh (s_priv S) (pub (c_priv C))))
      | DData _ =>
        match c_next C with
        | None => s_reg S = true -> synced_with C S
        | Some k =>
          s_reg S = true ->
          c_pub C = pub (s_priv S) /\ s_share S = fill_shared (c_share C) (dh (s_priv S) (pub k))
        end
      end
    | Some _, Some _ => False
    end.
  (* while a channel is open nothing else is in flight, the server knows the client, and the
     connection's key copy IS the server Session's share *)
  Definition chan_inv (s : state) : Prop :=
    match chn s with
    | None => True
    | Some ck => waiting s = false /\ upw s = None /\ dnw s = None /\ s_reg (sv s) = true /\ ck = s_share (sv s)
    end.
  Definition inv (s : state) : Prop := inv0 s /\ chan_inv s.

  Lemma inv_init : forall k0 s0, inv (init pub k0 s0).
  Proof. intros. split; [|exact I]. unfold inv0, init. cbn. ands; try reflexivity. discriminate. Qed.

  Local Opaque zero_share fill_shared xor_op is_synced.

  (* while no channel is open: the exchange machine *)
  Lemma inv0_step : forall e s, chn s = None -> ok_event merge chan_rekey e s = true -> inv0 s -> inv0 (step e s).
  Proof.
    intros e [[cp cpb cs cn] [sr sp ss] up dn w cseen sseen ch] C L I. cbn [chn] in C. subst ch.
    unfold inv0 in I. cbn [cl sv upw dnw waiting c_next c_share c_pub c_priv s_reg s_priv s_share] in I.
    destruct up as [m|]; destruct dn as [d|]; try contradiction.
    - (* request in flight *)
      destruct I as [Hw I]. subst w.
      destruct e; unfold inv0; cbn; try (split; [reflexivity|]; exact I).
      + (* RekeyRecv *)
        unfold srv_handle. cbn.
        destruct sr.
        * destruct m as [pb|body|pb under|body under]; cbn.
          -- destruct I as [F _]. discriminate F.
          -- destruct I as [Hn Hs]. subst cn. split; [reflexivity|]. exact Hs.
          -- destruct I as [k [Hn [Hp [Hu Hs]]]]. subst cn pb under.
             destruct (Hs eq_refl) as [Hsh Hpb]. cbn in Hsh, Hpb. subst ss.
             rewrite zlist_eqb_refl. cbn. split; [reflexivity|]. intros _. split; [exact Hpb|reflexivity].
          -- contradiction.
        * destruct m as [pb|body|pb under|body under]; cbn.
          -- destruct I as [_ [Hp [Hz Hn]]]. subst pb cs cn. ands; try reflexivity. intros _. split; reflexivity.
          -- split; reflexivity.
          -- split; reflexivity.
          -- contradiction.
      + (* WriteFail *)
        ands; try reflexivity.
        destruct m as [pb|body|pb under|body under].
        * destruct I as [F _]. cbn. intros HH. congruence.
        * destruct I as [_ Hs]. exact Hs.
        * destruct I as [k [_ [_ [_ Hs]]]]. exact Hs.
        * contradiction.
      + (* ReplyLost: admissible only when no announcement is pending *)
        unfold ok_event, harmful_loss in L. cbn in L. rewrite orb_false_r in L. apply negb_true_iff in L.
        ands; try reflexivity.
        * destruct cn; [discriminate L|reflexivity].
        * destruct m as [pb|body|pb under|body under].
          -- destruct I as [F _]. cbn. intros HH. congruence.
          -- destruct I as [_ Hs]. exact Hs.
          -- destruct I as [k [_ [_ [_ Hs]]]]. exact Hs.
          -- contradiction.
      + (* Forget *)
        split; [reflexivity|].
        destruct m as [pb|body|pb under|body under].
        * destruct I as [_ I]. split; [reflexivity|exact I].
        * destruct I as [Hn _]. split; [exact Hn|]. discriminate.
        * destruct I as [k [Hn [Hp [Hu _]]]]. exists k. ands; try assumption. discriminate.
        * contradiction.
    - (* reply in flight *)
      destruct I as [Hw I]. subst w.
      destruct e; unfold inv0; cbn; try (split; [reflexivity|]; exact I).
      + (* HelloReply *)
        destruct d as [pb| |body]; cbn; try (split; [reflexivity|]; exact I).
        destruct I as [Hz [Hn Hs]]. subst cs cn. unfold key_check_sync, key_session_sync. cbn.
        rewrite is_synced_zero. cbn. ands; try reflexivity.
        intros Hr. destruct (Hs Hr) as [Hp Hsh]. subst pb. unfold synced_with. cbn. split; [|reflexivity].
        rewrite Hsh. rewrite dh_comm. reflexivity.
      + (* ReplyRecv *)
        destruct d as [pb| |body]; cbn; try (split; [reflexivity|]; exact I).
        unfold key_check_sync. cbn.
        destruct cn as [k|]; cbn.
        * ands; try reflexivity. intros Hr. destruct (I Hr) as [Hp Hsh].
          unfold synced_with. cbn. split; [|exact Hp]. rewrite Hsh, Hp. rewrite dh_comm. reflexivity.
        * ands; try reflexivity. exact I.
      + (* ReplyLost *)
        unfold ok_event, harmful_loss in L. cbn in L. apply negb_true_iff in L. apply orb_false_iff in L. destruct L as [Ln Ld].
        destruct cn; [discriminate Ln|]. ands; try reflexivity.
        destruct d as [pb| |body].
        * discriminate Ld.
        * cbn. intros HH. congruence.
        * exact I.
      + (* Forget *)
        split; [reflexivity|].
        destruct d as [pb| |body].
        * destruct I as [Hz [Hn _]]. ands; try assumption. discriminate.
        * reflexivity.
        * destruct cn; discriminate.
      + (* Reregister *)
        destruct d as [pb| |body]; cbn; try (split; [reflexivity|]; exact I).
        unfold send, key_session_generate, key_check_sync. cbn.
        ands; try reflexivity; try exact I.
        destruct cn; reflexivity.
    - (* idle *)
      destruct I as [Hw [Hn Hs]]. subst w cn.
      destruct e; unfold inv0; cbn; try (ands; try reflexivity; exact Hs).
      + (* Hello *)
        destruct sr; cbn; ands; try reflexivity; try exact Hs.
      + (* RekeySend *)
        split; [reflexivity|]. exists k. ands; try reflexivity. exact Hs.
      + (* BatchSend: admissible only when the announcement is not merged *)
        cbn in L. apply negb_true_iff in L. rewrite L. cbn.
        split; [reflexivity|]. exists k. ands; try reflexivity. exact Hs.
      + (* Forget *)
        ands; try reflexivity. discriminate.
      + (* ChanStart *)
        destruct sr; cbn; ands; try reflexivity; exact Hs.
  Qed.

  (* no channel before, a channel after: only ChanStart does that, from an idle registered state *)
  Lemma chan_inv_step_none : forall e s, chn s = None -> inv0 s -> chan_inv (step e s).
  Proof.
    intros e [[cp cpb cs cn] [sr sp ss] up dn w cseen sseen ch] C I. cbn [chn] in C. subst ch.
    unfold chan_inv.
    destruct e;
      try (clear I; destruct up as [[?|?|? ?|? ?]|]; destruct dn as [[?| |?]|]; destruct w; destruct sr; destruct cn;
           cbn; unfold busy, send, srv_handle, key_session_sync; cbn;
           repeat match goal with
                  | |- context [if ?x then _ else _] => destruct x; cbn
                  end; exact Logic.I).
    (* ChanStart *)
    cbn. unfold busy. cbn. rewrite orb_false_r.
    destruct w; cbn; [exact Logic.I|]. destruct sr; cbn; [|exact Logic.I].
    unfold inv0 in I. cbn in I.
    destruct up; destruct dn; try contradiction; try (destruct I as [Hw _]; discriminate Hw).
    ands; reflexivity.
  Qed.

  (* a channel is open: every event either is no part of the channel (and does nothing), or moves a
     Packet through it without touching a key, or closes it *)
  Lemma inv_step_chan : forall e s ck,
    chn s = Some ck -> ok_event merge chan_rekey e s = true -> inv s -> inv (step e s).
  Proof.
    intros e [[cp cpb cs cn] [sr sp ss] up dn w cseen sseen ch] ck C L [I0 IC]. cbn [chn] in C. subst ch.
    unfold chan_inv in IC. cbn in IC. destruct IC as [W [U [D [R K]]]]. subst w up dn sr ck.
    unfold inv0 in I0. cbn in I0. destruct I0 as [_ [N S]]. subst cn.
    destruct e; unfold inv, inv0, chan_inv; cbn; unfold chan_up, key_check_sync; cbn;
      try (ands; try reflexivity; try exact S; fail).
    - (* Forget *) ands; try reflexivity; try discriminate; try exact Logic.I.
    - (* ChanTick: admissible only when it is the plain keep-alive *)
      unfold ok_event in L. cbn in L. apply negb_true_iff in L. rewrite L. unfold chan_up, key_check_sync. cbn.
      ands; try reflexivity; exact S.
  Qed.

  Lemma inv_step : forall e s, ok_event merge chan_rekey e s = true -> inv s -> inv (step e s).
  Proof.
    intros e s L I. destruct (chn s) as [ck|] eqn:C.
    - exact (inv_step_chan e s ck C L I).
    - destruct I as [I0 _]. split; [apply inv0_step; assumption|apply chan_inv_step_none; assumption].
  Qed.

  Lemma inv_run : forall h s, safe h s = true -> inv s -> inv (run h s).
  Proof.
    induction h as [|e h IH]; intros s L I; [exact I|].
    cbn [Keys.safe] in L. apply andb_true_iff in L. destruct L as [Le Lh].
    unfold Keys.run. cbn [fold_left]. apply IH; [exact Lh|]. apply inv_step; assumption.
  Qed.

  Lemma lossless_event_ok : forall e (s : state),
    lossless_event merge chan_rekey e = true -> ok_event merge chan_rekey e s = true.
  Proof. intros e s H. destruct e; try reflexivity; try discriminate H; exact H. Qed.

  Lemma lossless_safe : forall h s, lossless merge chan_rekey h = true -> safe h s = true.
  Proof.
    induction h as [|e h IH]; intros s L; [reflexivity|].
    cbn [lossless forallb] in L. apply andb_true_iff in L. destruct L as [Le Lh].
    cbn [Keys.safe]. rewrite (lossless_event_ok e s Le). cbn. apply IH. exact Lh.
  Qed.

  Lemma inv_idle_agree : forall s,
    inv s -> waiting s = false -> s_reg (sv s) = true ->
    c_share (cl s) = s_share (sv s) /\ c_next (cl s) = None /\ c_pub (cl s) = pub (s_priv (sv s)).
  Proof.
    intros s [I _] W R. unfold inv0 in I.
    destruct (upw s) as [m|]; destruct (dnw s) as [d|]; try contradiction.
    - destruct I as [Hw _]. congruence.
    - destruct I as [Hw _]. congruence.
    - destruct I as [_ [Hn Hs]]. destruct (Hs R) as [A B]. auto.
  Qed.

  (* MAIN THEOREM.  After ANY history from the initial state (handshakes, re-keys, traffic, write
     failures, the server forgetting the client, re-registrations, channels with traffic and idle
     ticks, replies lost while no key announcement is pending), whenever the client is not inside
     an exchange (idle, or inside a channel) and the server knows it, both ends hold the same share
     and no re-key is pending. *)
  Theorem share_agree_safe : forall h k0 s0,
    safe h (init pub k0 s0) = true ->
    let s := run h (init pub k0 s0) in
    waiting s = false -> s_reg (sv s) = true ->
    c_share (cl s) = s_share (sv s) /\ c_next (cl s) = None.
  Proof.
    intros h k0 s0 L s W R.
    destruct (inv_idle_agree s (inv_run h _ L (inv_init k0 s0)) W R) as [A [B _]]. auto.
  Qed.

  (* the same with the state-independent condition: no reply is lost *)
  Theorem share_agree_lossless : forall h k0 s0,
    lossless merge chan_rekey h = true ->
    let s := run h (init pub k0 s0) in
    waiting s = false -> s_reg (sv s) = true ->
    c_share (cl s) = s_share (sv s) /\ c_next (cl s) = None.
  Proof. intros h k0 s0 L. apply share_agree_safe. apply lossless_safe. exact L. Qed.

  (* ---- channels ---- *)
  (* in every state that satisfies the invariant and has a channel open, the connection's key copy
     is the share of BOTH Sessions, no re-key is pending, and a Packet sent through the channel in
     either direction is seen unchanged by the other side's handler; an idle tick changes no key *)
  Lemma chan_state_ok : forall s ck,
    inv s -> chn s = Some ck ->
    ck = c_share (cl s) /\ ck = s_share (sv s) /\ c_next (cl s) = None /\ s_reg (sv s) = true /\ waiting s = false /\
    (forall p, let s' := step (ChanUp p) s in
               s_seen s' = deliver p (s_seen s) /\ c_seen s' = c_seen s /\ cl s' = cl s /\ sv s' = sv s /\ chn s' = chn s) /\
    (forall q, let s' := step (ChanDown q) s in
               c_seen s' = deliver q (c_seen s) /\ s_seen s' = s_seen s /\ cl s' = cl s /\ sv s' = sv s /\ chn s' = chn s) /\
    (forall k, ok_event merge chan_rekey (ChanTick k) s = true ->
               let s' := step (ChanTick k) s in
               cl s' = cl s /\ sv s' = sv s /\ chn s' = chn s /\ c_seen s' = c_seen s /\ s_seen s' = s_seen s).
  Proof.
    intros [[cp cpb cs cn] [sr sp ss] up dn w cseen sseen ch] ck [I0 IC] C. cbn [chn] in C. subst ch.
    unfold chan_inv in IC. cbn in IC. destruct IC as [W [U [D [R K]]]]. subst w up dn sr ck.
    unfold inv0 in I0. cbn in I0. destruct I0 as [_ [N S]]. subst cn.
    destruct (S eq_refl) as [A _]. cbn in A. subst ss.
    cbn. ands; try reflexivity.
    - intros p. unfold chan_up, key_check_sync. cbn.
      Local Transparent xor_op. rewrite xor_involution. Local Opaque xor_op. ands; reflexivity.
    - intros q. Local Transparent xor_op. rewrite xor_involution. Local Opaque xor_op. ands; reflexivity.
    - intros k L. unfold ok_event in L. cbn in L. apply negb_true_iff in L. rewrite L.
      unfold chan_up, key_check_sync. cbn. ands; reflexivity.
  Qed.

  (* EVERY payload exchanged inside a channel decrypts to the original, for ALL admissible histories
     (channel start, traffic both ways, idle ticks, channel end, re-keys before and after channels):
     whatever state a history reaches, if a channel is open there, then ... *)
  Theorem channel_payload_roundtrip : forall h k0 s0,
    safe h (init pub k0 s0) = true ->
    let s := run h (init pub k0 s0) in
    forall ck, chn s = Some ck ->
    ck = c_share (cl s) /\ ck = s_share (sv s) /\ c_next (cl s) = None /\
    (forall p, s_seen (step (ChanUp p) s) = deliver p (s_seen s)) /\
    (forall q, c_seen (step (ChanDown q) s) = deliver q (c_seen s)).
  Proof.
    intros h k0 s0 L s ck C.
    destruct (chan_state_ok s ck (inv_run h _ L (inv_init k0 s0)) C) as [A [B [N [_ [_ [U [Dn _]]]]]]].
    ands; try assumption.
    - intros p. apply (U p).
    - intros q. apply (Dn q).
  Qed.

  (* no key changes while a channel is open: from the event that opens it to the event that closes
     it, whatever admissible events happen in between *)
  Lemma chan_keys_frozen_step : forall e s ck,
    inv s -> chn s = Some ck -> ok_event merge chan_rekey e s = true ->
    chn (step e s) = Some ck -> cl (step e s) = cl s /\ sv (step e s) = sv s.
  Proof.
    intros e [[cp cpb cs cn] [sr sp ss] up dn w cseen sseen ch] ck [I0 IC] C L. cbn [chn] in C. subst ch.
    unfold chan_inv in IC. cbn in IC. destruct IC as [W [U [D [R K]]]]. subst w up dn sr ck.
    unfold inv0 in I0. cbn in I0. destruct I0 as [_ [N S]]. subst cn.
    destruct e; cbn; unfold chan_up, key_check_sync; cbn; intros E; try (split; reflexivity); try discriminate E.
    unfold ok_event in L. cbn in L. apply negb_true_iff in L. rewrite L in *. cbn. split; reflexivity.
  Qed.

  Lemma settled_inv : forall s, settled s -> inv s.
  Proof.
    intros s [W [U [D [R [N [A [P C]]]]]]]. split.
    - unfold inv0. rewrite U, D. ands; try assumption. intros _. split; assumption.
    - unfold chan_inv. rewrite C. exact I.
  Qed.

  Lemma inv_settled : forall s, inv s -> waiting s = false -> s_reg (sv s) = true -> chn s = None -> settled s.
  Proof.
    intros s I W R C. pose proof (inv_idle_agree s I W R) as [A [N P]].
    destruct I as [I _].
    unfold inv0 in I. destruct (upw s) as [m|] eqn:U; destruct (dnw s) as [d|] eqn:D; try contradiction.
    - destruct I as [Hw _]. congruence.
    - destruct I as [Hw _]. congruence.
    - unfold Keys.settled. rewrite U, D. ands; try assumption; reflexivity.
  Qed.

  (* handshake: any client pair, any server pair, any length of the ECDH output *)
  Theorem share_agree_handshake : forall k0 s0 k q,
    let s := run [Hello k; RekeyRecv q; HelloReply] (init pub k0 s0) in
    settled s /\
    c_share (cl s) = fill_shared zero_share (dh k (pub s0)) /\
    s_share (sv s) = fill_shared zero_share (dh s0 (pub k)).
  Proof.
    intros k0 s0 k q.
    match goal with |- context [run ?h ?x] => set (s := run h x) end. cbv zeta.
    assert (E : s = mkSt (mkC k (pub s0) (fill_shared zero_share (dh k (pub s0))) None)
                         (mkS true s0 (fill_shared zero_share (dh s0 (pub k)))) None None false [] [] None).
    { subst s. unfold Keys.run, init. cbn [fold_left]. cbn. unfold srv_handle. cbn.
      unfold key_session_sync, key_check_sync. cbn. rewrite is_synced_zero. reflexivity. }
    rewrite E. cbn. ands; try reflexivity.
    unfold Keys.settled. cbn. ands; try reflexivity. rewrite dh_comm. reflexivity.
  Qed.

  (* every sequence of re-keys (complete, failing at the write, interleaved with any traffic,
     with re-registrations and channels) from any settled state: whenever the client is idle,
     registered and outside a channel the ends are settled again -- for every ECDH output, of any length *)
  Theorem share_agree_rekey : forall h s,
    settled s -> safe h s = true ->
    let s' := run h s in
    waiting s' = false -> s_reg (sv s') = true -> chn s' = None -> settled s'.
  Proof.
    intros h s S L s' W R C. apply inv_settled; try assumption.
    apply inv_run; [exact L|apply settled_inv; exact S].
  Qed.

  (* one complete re-key computes the new share from the OLD one on both ends *)
  Theorem rekey_round : forall s k q,
    settled s ->
    let s' := run [RekeySend k; RekeyRecv q; ReplyRecv] s in
    settled s' /\
    c_share (cl s') = fill_shared (c_share (cl s)) (dh k (pub (s_priv (sv s)))) /\
    s_share (sv s') = fill_shared (s_share (sv s)) (dh (s_priv (sv s)) (pub k)) /\
    c_priv (cl s') = k /\
    c_seen s' = deliver q (c_seen s).        (* the reply written under the copy of the old key is readable *)
  Proof.
    intros [[cp cpb cs cn] [sr sp ss] up dn w cseen sseen ch] k q S.
    destruct S as [W [U [D [R [N [A [P C]]]]]]].
    cbn [cl sv upw dnw waiting c_next c_share c_pub c_priv s_reg s_priv s_share chn] in *.
    subst w up dn sr cn ss cpb ch.
    match goal with |- context [run ?h ?s0] => set (s' := run h s0) end.
    assert (E : s' = mkSt (mkC k (pub sp) (fill_shared cs (dh k (pub sp))) None)
                          (mkS true sp (fill_shared cs (dh sp (pub k)))) None None false
                          (deliver (xor_op (xor_op q cs) cs) cseen) sseen None).
    { subst s'. unfold Keys.run. cbn [fold_left]. cbn.
      unfold srv_handle. cbn. rewrite zlist_eqb_refl. cbn. unfold key_check_sync. cbn. reflexivity. }
    rewrite E. cbn. Local Transparent xor_op. rewrite xor_involution. Local Opaque xor_op. ands; try reflexivity.
    unfold Keys.settled. cbn. ands; try reflexivity. rewrite dh_comm. reflexivity.
  Qed.

  (* the recorded finding (a), exactly: the announcement was processed, its reply lost.  The client keeps
     keysNext and the old key; the NEXT exchange is garbled (each handler sees the payload XORed with
     old and new share), and at its end the two ends are settled again on the new share: it HEALS
     after one further exchange.  (A client that discarded keysNext instead would never catch up.) *)
  Theorem reply_lost_after_processing_heals : forall s k q0 p q,
    settled s ->
    let lost := run [RekeySend k; RekeyRecv q0; ReplyLost] s in
    let s' := run [DataSend p; RekeyRecv q; ReplyRecv] lost in
    let old := c_share (cl s) in
    let new := fill_shared old (dh k (pub (s_priv (sv s)))) in
    (c_next (cl lost) = Some k /\ c_share (cl lost) = old /\ s_share (sv lost) = new /\ waiting lost = false) /\
    settled s' /\ c_share (cl s') = new /\ s_share (sv s') = new /\ c_priv (cl s') = k /\
    s_seen s' = deliver (xor_op (xor_op p old) new) (s_seen s) /\
    c_seen s' = deliver (xor_op (xor_op q new) old) (c_seen s) /\
    (forall p2 q2, let s'' := run [DataSend p2; RekeyRecv q2; ReplyRecv] s' in
                   s_seen s'' = deliver p2 (s_seen s') /\ c_seen s'' = deliver q2 (c_seen s') /\ settled s'').
  Proof.
    intros [[cp cpb cs cn] [sr sp ss] up dn w cseen sseen ch] k q0 p q S.
    destruct S as [W [U [D [R [N [A [P C]]]]]]].
    cbn [cl sv upw dnw waiting c_next c_share c_pub c_priv s_reg s_priv s_share chn] in *.
    subst w up dn sr cn ss cpb ch. cbv zeta.
    set (new := fill_shared cs (dh k (pub sp))).
    assert (Hn : fill_shared cs (dh sp (pub k)) = new) by (unfold new; rewrite dh_comm; reflexivity).
    match goal with |- context [run [RekeySend k; RekeyRecv q0; ReplyLost] ?s0] =>
      assert (E1 : run [RekeySend k; RekeyRecv q0; ReplyLost] s0 =
                   mkSt (mkC cp (pub sp) cs (Some k)) (mkS true sp new) None None false cseen sseen None)
    end.
    { unfold Keys.run. cbn [fold_left]. cbn. unfold srv_handle. cbn. rewrite zlist_eqb_refl. cbn. rewrite Hn. reflexivity. }
    rewrite E1.
    match goal with |- context [run [DataSend p; RekeyRecv q; ReplyRecv] ?s0] =>
      assert (E2 : run [DataSend p; RekeyRecv q; ReplyRecv] s0 =
                   mkSt (mkC k (pub sp) new None) (mkS true sp new) None None false
                        (deliver (xor_op (xor_op q new) cs) cseen) (deliver (xor_op (xor_op p cs) new) sseen) None)
    end.
    { unfold Keys.run. cbn [fold_left]. cbn. unfold srv_handle. cbn. unfold key_check_sync. cbn. reflexivity. }
    rewrite E2. cbn. ands; try reflexivity.
    - unfold Keys.settled. cbn. ands; reflexivity.
    - intros p2 q2. unfold Keys.run. cbn. unfold srv_handle. cbn. unfold key_check_sync. cbn.
      Local Transparent xor_op. rewrite !xor_involution. Local Opaque xor_op.
      ands; try reflexivity. unfold Keys.settled. cbn. ands; reflexivity.
  Qed.

  (* keyNextSync's guard: whatever happens next (any event, admissible or not, any flag), a pending
     pair is never REPLACED by another one: it stays, or keysNext becomes nil (swapped by
     keyCheckSync, cancelled by keyCheckRevert, or the Session is replaced by a new one) *)
  Theorem pending_pair_never_replaced : forall e s k k',
    c_next (cl s) = Some k -> c_next (cl (step e s)) = Some k' -> k' = k.
  Proof.
    intros e [[cp cpb cs cn] [sr sp ss] up dn w cseen sseen ch] k k' N. cbn [cl c_next] in N. subst cn.
    destruct e;
      destruct up as [[?|?|? ?|? ?]|]; destruct dn as [[?| |?]|]; destruct w; destruct sr; destruct ch;
      cbn; unfold busy, send, srv_handle, key_session_sync, chan_up, chan_rekey_up, key_check_sync; cbn;
      repeat match goal with
             | |- context [if ?x then _ else _] => destruct x; cbn
             end;
      intros E; try discriminate E; injection E as E; symmetry; exact E.
  Qed.

  (* ... so finding (a) heals in exactly the same way when the re-key roll fires AGAIN on the very next
     exchange: keyNextSync refuses, an empty Packet goes out, the client swaps to the pair the server
     already uses (k, not k2) *)
  Theorem reply_lost_heals_when_roll_fires_again : forall s k k2 q0 q,
    settled s ->
    let lost := run [RekeySend k; RekeyRecv q0; ReplyLost] s in
    let s' := run [RekeySend k2; RekeyRecv q; ReplyRecv] lost in
    let old := c_share (cl s) in
    let new := fill_shared old (dh k (pub (s_priv (sv s)))) in
    settled s' /\ c_share (cl s') = new /\ s_share (sv s') = new /\ c_priv (cl s') = k /\
    c_seen s' = deliver (xor_op (xor_op q new) old) (c_seen s) /\ s_seen s' = s_seen s.
  Proof.
    intros [[cp cpb cs cn] [sr sp ss] up dn w cseen sseen ch] k k2 q0 q S.
    destruct S as [W [U [D [R [N [A [P C]]]]]]].
    cbn [cl sv upw dnw waiting c_next c_share c_pub c_priv s_reg s_priv s_share chn] in *.
    subst w up dn sr cn ss cpb ch. cbv zeta.
    set (new := fill_shared cs (dh k (pub sp))).
    assert (Hn : fill_shared cs (dh sp (pub k)) = new) by (unfold new; rewrite dh_comm; reflexivity).
    match goal with |- context [run [RekeySend k; RekeyRecv q0; ReplyLost] ?s0] =>
      assert (E1 : run [RekeySend k; RekeyRecv q0; ReplyLost] s0 =
                   mkSt (mkC cp (pub sp) cs (Some k)) (mkS true sp new) None None false cseen sseen None)
    end.
    { unfold Keys.run. cbn [fold_left]. cbn. unfold srv_handle. cbn. rewrite zlist_eqb_refl. cbn. rewrite Hn. reflexivity. }
    rewrite E1.
    match goal with |- context [run [RekeySend k2; RekeyRecv q; ReplyRecv] ?s0] =>
      assert (E2 : run [RekeySend k2; RekeyRecv q; ReplyRecv] s0 =
                   mkSt (mkC k (pub sp) new None) (mkS true sp new) None None false
                        (deliver (xor_op (xor_op q new) cs) cseen) sseen None)
    end.
    { unfold Keys.run. cbn [fold_left]. cbn. unfold srv_handle. cbn. unfold key_check_sync. cbn.
      Local Transparent xor_op. cbn. Local Opaque xor_op. reflexivity. }
    rewrite E2. cbn. ands; try reflexivity.
    unfold Keys.settled. cbn. ands; reflexivity.
  Qed.

  (* a failed write of the announcement leaves both ends exactly where they were *)
  Theorem write_fail_reverts : forall s k,
    waiting s = false -> chn s = None -> c_next (cl s) = None ->
    let s' := run [RekeySend k; WriteFail] s in
    cl s' = cl s /\ sv s' = sv s /\ waiting s' = false /\ upw s' = None /\ dnw s' = None.
  Proof.
    intros [[cp cpb cs cn] [sr sp ss] up dn w cseen sseen ch] k W C N.
    cbn [cl sv upw dnw waiting c_next chn] in *. subst w cn ch.
    unfold Keys.run. cbn. ands; reflexivity.
  Qed.

  (* a reply lost while NO announcement is pending changes no key either *)
  Theorem reply_lost_harmless : forall s p,
    waiting s = false -> chn s = None -> c_next (cl s) = None ->
    (let s' := run [DataSend p; ReplyLost] s in cl s' = cl s /\ sv s' = sv s /\ waiting s' = false) /\
    (forall q, let s' := run [DataSend p; RekeyRecv q; ReplyLost] s in
               cl s' = cl s /\ sv s' = sv s /\ waiting s' = false).
  Proof.
    intros [[cp cpb cs cn] [sr sp ss] up dn w cseen sseen ch] p W C N.
    cbn [cl sv upw dnw waiting c_next chn] in *. subst w cn ch.
    split; [|intros q]; unfold Keys.run; cbn; unfold srv_handle; cbn; destruct sr; cbn; ands; reflexivity.
  Qed.

  (* under agreement each side's handler sees exactly what the other side sent *)
  Theorem payload_roundtrip : forall s p q,
    waiting s = false -> chn s = None -> s_reg (sv s) = true -> c_next (cl s) = None -> agree s ->
    let s' := run [DataSend p; RekeyRecv q; ReplyRecv] s in
    s_seen s' = deliver p (s_seen s) /\ c_seen s' = deliver q (c_seen s) /\ cl s' = cl s /\ sv s' = sv s.
  Proof.
    intros [[cp cpb cs cn] [sr sp ss] up dn w cseen sseen ch] p q W C R N A.
    unfold agree in A. cbn [cl sv upw dnw waiting c_next c_share s_reg s_share chn] in *. subst w sr cn ss ch.
    unfold Keys.run. cbn. unfold srv_handle. cbn. unfold key_check_sync. cbn.
    Local Transparent xor_op. rewrite !xor_involution. Local Opaque xor_op. ands; reflexivity.
  Qed.
End Agreement.

(* pick(): a client inside a channel never reaches keyNextSync *)
Lemma pick_no_rekey_in_channel : forall queued i, pick_model queued true true i <> PDraw.
Proof. intros [|] [|]; discriminate. Qed.
Lemma tick_never_draws_in_channel : tick_draws true = false /\ tick_draws false = true.
Proof. split; reflexivity. Qed.

(* ---- what goes wrong when an acknowledgement is lost: explicit histories in the toy agreement ---- *)
Lemma toy_comm : forall a b, toy_dh a (toy_pub b) = toy_dh b (toy_pub a).
Proof. intros. unfold toy_dh, toy_pub. rewrite (Z.mul_comm a b). reflexivity. Qed.

Definition toy_run := run toy_pub toy_dh false false.
Definition toy_run_merge := run toy_pub toy_dh true false.      (* next() before the fix *)
Definition toy_run_chan := run toy_pub toy_dh false true.      (* pickWait before fix 28f32da *)
Definition toy_init := init toy_pub 0 7.
Definition handshake : list (event Z) := [Hello 11; RekeyRecv []; HelloReply].
Definition shares_differ (s : st Z Z) : bool := negb (zlist_eqb (c_share (cl s)) (s_share (sv s))).

(* (a) the server processed the announcement, its reply was lost: the next exchange is garbled in
       both directions (neither handler sees what was sent), after it the ends agree again *)
Definition lost_after : list (event Z) :=
  handshake ++ [RekeySend 13; RekeyRecv []; ReplyLost; DataSend [1; 2; 3]; RekeyRecv [4; 5; 6]; ReplyRecv].
(* (b) the write succeeded locally but the announcement never arrived: the client swaps after the
       next exchange, the server never does; later re-keys do not repair it *)
Definition undelivered : list (event Z) :=
  handshake ++ [RekeySend 13; ReplyLost; DataSend [1; 2; 3]; RekeyRecv [4; 5; 6]; ReplyRecv].
Definition undelivered_later : list (event Z) :=
  undelivered ++ [RekeySend 17; RekeyRecv []; ReplyRecv; RekeySend 19; RekeyRecv []; ReplyRecv;
                  DataSend [1; 2; 3]; RekeyRecv [4; 5; 6]; ReplyRecv].
(* (c) BEFORE the fix: the announcement was merged into a Multi container: the server ignores it, the client swaps *)
Definition batched : list (event Z) :=
  handshake ++ [BatchSend 13 [1; 2; 3]; RekeyRecv [4; 5; 6]; ReplyRecv].
(* (d) the server forgot the client, the client registers again, the SvComplete with the server
       key is lost: the client stays on the all-zero share (it sends in the clear), the server does not *)
Definition reregister_lost : list (event Z) :=
  handshake ++ [Forget 7; DataSend [1; 2; 3]; RekeyRecv []; Reregister 21; RekeyRecv []; ReplyLost;
                DataSend [1; 2; 3]; RekeyRecv [4; 5; 6]; ReplyRecv].
Definition reregister_lost_later : list (event Z) :=
  reregister_lost ++ [RekeySend 17; RekeyRecv []; ReplyRecv; DataSend [1; 2; 3]; RekeyRecv [4; 5; 6]; ReplyRecv].

(* (a) one garbled exchange *)
Lemma reply_lost_after_processing_refuted :
  let s := toy_run lost_after toy_init in
  s_seen s <> [[1; 2; 3]] /\ c_seen s <> [[4; 5; 6]] /\ shares_differ s = false /\
  safe toy_pub toy_dh false false lost_after toy_init = false.
Proof. cbv zeta. ands; try (vm_compute; reflexivity); vm_compute; intros H; discriminate H. Qed.

(* (b) the sender is NOT left on the old key, and the ends differ for good *)
Lemma announcement_lost_refuted :
  let s0 := toy_run handshake toy_init in
  let s := toy_run undelivered toy_init in
  waiting s = false /\ c_next (cl s) = None /\ s_reg (sv s) = true /\ shares_differ s = true /\
  c_share (cl s) <> c_share (cl s0) /\ s_share (sv s) = s_share (sv s0) /\
  shares_differ (toy_run undelivered_later toy_init) = true /\
  s_seen (toy_run undelivered_later toy_init) <> [[1; 2; 3]; [1; 2; 3]] /\
  safe toy_pub toy_dh false false undelivered toy_init = false.
Proof. cbv zeta. ands; try (vm_compute; reflexivity); vm_compute; intros H; discriminate H. Qed.

(* (c) regression witness for the repaired next(): with merge = true the same history leaves the
       ends on different keys; with merge = false (the code now) it is an ordinary re-key *)
Lemma batched_rekey_refuted_before_fix :
  (let s := toy_run_merge batched toy_init in
   waiting s = false /\ c_next (cl s) = None /\ s_reg (sv s) = true /\ s_seen s = [[1; 2; 3]] /\ shares_differ s = true) /\
  (let s := toy_run batched toy_init in
   waiting s = false /\ c_next (cl s) = None /\ s_reg (sv s) = true /\ shares_differ s = false /\
   c_share (cl s) <> c_share (cl (toy_run handshake toy_init))).
Proof. cbv zeta. ands; try (vm_compute; reflexivity); vm_compute; intros H; discriminate H. Qed.

(* (d) re-registration whose SvComplete is lost *)
Lemma reregister_reply_lost_refuted :
  let s := toy_run reregister_lost toy_init in
  waiting s = false /\ s_reg (sv s) = true /\ shares_differ s = true /\ c_share (cl s) = zero_share /\
  s_seen s <> [[1; 2; 3]] /\ shares_differ (toy_run reregister_lost_later toy_init) = true /\
  safe toy_pub toy_dh false false reregister_lost toy_init = false.
Proof. cbv zeta. ands; try (vm_compute; reflexivity); vm_compute; intros H; discriminate H. Qed.

(* (e) regression witness for fix 28f32da (and for any change that lets pick() reach keyNextSync
       while a channel is open): the idle tick draws a re-key inside the channel; both SESSIONS agree
       afterwards, but the connection's key copy is stale and every later payload is garbled both ways;
       on the code as it is the tick is a keep-alive and everything arrives *)
Definition chan_rekeyed : list (event Z) :=
  handshake ++ [ChanStart; ChanUp [1; 2; 3]; ChanDown [4; 5; 6]; ChanTick 13; ChanUp [7; 8; 9]; ChanDown [10; 11; 12]].
Lemma rekey_in_channel_refuted_before_fix :
  (let s := toy_run_chan chan_rekeyed toy_init in
   shares_differ s = false /\ chn s <> Some (s_share (sv s)) /\ chn s <> None /\
   s_seen s <> [[7; 8; 9]; [1; 2; 3]] /\ c_seen s <> [[10; 11; 12]; [4; 5; 6]] /\
   safe toy_pub toy_dh false true chan_rekeyed toy_init = false) /\
  (let s := toy_run chan_rekeyed toy_init in
   shares_differ s = false /\ chn s = Some (s_share (sv s)) /\
   s_seen s = [[7; 8; 9]; [1; 2; 3]] /\ c_seen s = [[10; 11; 12]; [4; 5; 6]] /\
   safe toy_pub toy_dh false false chan_rekeyed toy_init = true).
Proof. cbv zeta. ands; try (vm_compute; reflexivity); vm_compute; intros H; discriminate H. Qed.

(* non-vacuity material: a long admissible history in the toy agreement that exercises every event
   (short and long ECDH outputs, write failure, harmless reply loss, server restart, re-registration) *)
Definition busy_history : list (event Z) :=
  handshake ++
  [DataSend [9; 9]; RekeyRecv [8]; ReplyRecv;
   RekeySend 13; RekeyRecv [1]; ReplyRecv;
   RekeySend 5; WriteFail;
   DataSend [7]; ReplyLost;
   DataSend [7]; RekeyRecv [6]; ReplyLost;
   BatchSend 23 [1; 2]; RekeyRecv []; ReplyRecv; DataSend [1; 2]; RekeyRecv []; ReplyRecv;
   Forget 29; DataSend [3]; RekeyRecv []; Reregister 31; RekeyRecv []; HelloReply;
   RekeySend 37; RekeyRecv [2]; ReplyRecv;
   ChanStart; ChanUp [5; 5]; ChanTick 41; ChanDown [6; 6]; DataSend [0]; RekeySend 47; ChanUp [5]; ChanEnd;
   RekeySend 43; RekeyRecv []; ReplyRecv;
   DataSend [4; 5]; RekeyRecv [6; 7]; ReplyRecv].

Lemma busy_history_ok :
  safe toy_pub toy_dh false false busy_history toy_init = true /\
  (let s := toy_run busy_history toy_init in
   waiting s = false /\ s_reg (sv s) = true /\ shares_differ s = false /\ is_synced (c_share (cl s)) = true /\
   chn s = None /\
   c_seen s = [[6; 7]; [6; 6]; [2]; [1]; [8]] /\ s_seen s = [[4; 5]; [5]; [5; 5]; [1; 2]; [7]; [9; 9]]).
Proof. cbv zeta. ands; vm_compute; reflexivity. Qed.
