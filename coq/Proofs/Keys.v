(* Proofs/Keys.v -- C06: lemmas about Model/Keys.v. *)
From XMT Require Import Base.Prelude Model.Keys.

(* ---- the cipher ------------------------------------------------------------ *)
Lemma lxor_twice : forall x c, Z.lxor (Z.lxor x c) c = x.
Proof. intros. rewrite Z.lxor_assoc, Z.lxor_nilpotent, Z.lxor_0_r. reflexivity. Qed.

Lemma xor_go_involution : forall b cur key, xor_go (xor_go b cur key) cur key = b.
Proof.
  induction b as [|x b IH]; intros cur key; cbn [xor_go]; [reflexivity|].
  destruct cur as [|c cur].
  - destruct key as [|c key'].
    + reflexivity.
    + cbn [xor_go]. rewrite lxor_twice, IH. reflexivity.
  - cbn [xor_go]. rewrite lxor_twice, IH. reflexivity.
Qed.

Lemma xor_go_length : forall b cur key, length (xor_go b cur key) = length b.
Proof.
  induction b as [|x b IH]; intros cur key; cbn [xor_go]; [reflexivity|].
  destruct cur as [|c cur]; [destruct key as [|c key']|]; cbn [length]; try rewrite IH; reflexivity.
Qed.

Lemma xor_involution : forall b key, xor_op (xor_op b key) key = b.
Proof. intros. apply xor_go_involution. Qed.

Lemma xor_length : forall b key, length (xor_op b key) = length b.
Proof. intros. apply xor_go_length. Qed.

Lemma xor_len : forall b key, len (xor_op b key) = len b.
Proof. intros. unfold len. rewrite xor_length. reflexivity. Qed.

Lemma xor_empty_key : forall b, xor_op b [] = b.
Proof. destruct b; reflexivity. Qed.

Lemma xor_nil : forall key, xor_op [] key = [].
Proof. reflexivity. Qed.

(* byte i of the result is byte i of the buffer XOR byte (i mod |key|) of the key *)
Lemma xor_go_nth : forall b cur key i d,
  key <> [] -> (length cur <= length key)%nat -> (i < length b)%nat ->
  nth i (xor_go b cur key) d =
  Z.lxor (nth i b d)
         (if (i <? length cur)%nat then nth i cur 0 else nth ((i - length cur) mod length key)%nat key 0).
Proof.
  induction b as [|x b IH]; intros cur key i d Hk Hc Hi; cbn [length] in Hi; [lia|].
  cbn [xor_go]. destruct cur as [|c cur].
  - destruct key as [|c key']; [congruence|].
    destruct i as [|i].
    + cbn [nth length]. replace (0 <? 0)%nat with false by reflexivity.
      rewrite Nat.sub_0_r, Nat.mod_0_l by (cbn [length]; lia). reflexivity.
    + cbn [nth]. rewrite IH by (cbn [length] in *; try congruence; lia).
      f_equal. cbn [length]. replace (S i <? 0)%nat with false by reflexivity.
      rewrite Nat.sub_0_r.
      destruct (i <? length key')%nat eqn:E.
      * apply Nat.ltb_lt in E. rewrite Nat.mod_small by lia. reflexivity.
      * apply Nat.ltb_ge in E.
        replace (S i) with ((i - length key') + 1 * S (length key'))%nat by lia.
        rewrite Nat.mod_add by lia. reflexivity.
  - destruct i as [|i].
    + cbn [nth length]. replace (0 <? S (length cur))%nat with true by reflexivity. reflexivity.
    + cbn [nth]. rewrite IH by (cbn [length] in *; first [assumption | lia]).
      cbn [length]. reflexivity.
Qed.

Lemma xor_op_nth : forall b key i d,
  key <> [] -> (i < length b)%nat ->
  nth i (xor_op b key) d = Z.lxor (nth i b d) (nth (i mod length key)%nat key 0).
Proof.
  intros b key i d Hk Hi. unfold xor_op.
  rewrite xor_go_nth by (cbn [length]; try lia; assumption).
  cbn [length]. replace (i <? 0)%nat with false by reflexivity. rewrite Nat.sub_0_r. reflexivity.
Qed.

(* ---- the share ------------------------------------------------------------- *)
Lemma fill_shared_length : forall old bytes,
  length old = share_size -> length (fill_shared old bytes) = share_size.
Proof.
  intros old bytes H. unfold fill_shared. rewrite app_length, skipn_length, firstn_length, H. lia.
Qed.

(* a secret of at least 65 bytes replaces the share entirely *)
Lemma fill_shared_long : forall old bytes,
  length old = share_size -> (share_size <= length bytes)%nat ->
  fill_shared old bytes = firstn share_size bytes.
Proof.
  intros old bytes H L. unfold fill_shared.
  rewrite firstn_length, Nat.min_l by lia. rewrite skipn_all2 by lia. apply app_nil_r.
Qed.

(* a shorter one leaves the tail of the PREVIOUS share *)
Lemma fill_shared_short : forall old bytes,
  (length bytes <= share_size)%nat -> fill_shared old bytes = bytes ++ skipn (length bytes) old.
Proof. intros old bytes L. unfold fill_shared. rewrite firstn_all2 by lia. reflexivity. Qed.

Lemma zlist_eqb_refl : forall l, zlist_eqb l l = true.
Proof. induction l as [|x l IH]; [reflexivity|]. cbn. rewrite Z.eqb_refl, IH. reflexivity. Qed.

Lemma is_synced_zero : is_synced zero_share = false.
Proof. reflexivity. Qed.

Lemma deliver_nonempty : forall p log, p <> [] -> deliver p log = p :: log.
Proof. intros [|x p] log H; [congruence|reflexivity]. Qed.

(* ---- the key state machine --------------------------------------------------- *)
Ltac ands := repeat match goal with |- _ /\ _ => split end.
Section Agreement.
  Variables priv point : Type.
  Variable pub : priv -> point.
  Variable dh : priv -> point -> list Z.
  (* the ONLY assumption about the key agreement: commutativity (crypto/elliptic P-521) *)
  Hypothesis dh_comm : forall a b, dh a (pub b) = dh b (pub a).

  Notation state := (st priv point).
  Notation step := (step pub dh).
  Notation run := (run pub dh).

  Definition synced_with (C : client priv point) (S : server priv) : Prop :=
    c_share C = s_share S /\ c_pub C = pub (s_priv S).

  (* the invariant of every lossless history, phase by phase *)
  Definition inv (s : state) : Prop :=
    let C := cl s in
    let S := sv s in
    match upw s, dnw s with
    | None, None =>
      waiting s = false /\ c_next C = None /\ (s_reg S = true -> synced_with C S)
    | Some m, None =>
      waiting s = true /\
      match m with
      | UHello pb => s_reg S = false /\ pb = pub (c_priv C) /\ c_share C = zero_share /\ c_next C = None
      | UData _ => c_next C = None /\ (s_reg S = true -> synced_with C S)
      | URekey pb under =>
        exists k, c_next C = Some k /\ pb = pub k /\ under = c_share C /\ (s_reg S = true -> synced_with C S)
      | UBatch _ _ => False
      end
    | None, Some d =>
      waiting s = true /\
      match d with
      | DRegister => s_reg S = false
      | DComplete pb =>
        c_share C = zero_share /\ c_next C = None /\
        (s_reg S = true ->
         pb = pub (s_priv S) /\ s_share S = fill_shared zero_share (dh (s_priv S) (pub (c_priv C))))
      | DData _ =>
        match c_next C with
        | None => s_reg S = true -> synced_with C S
        | Some k =>
          s_reg S = true ->
          c_pub C = pub (s_priv S) /\ s_share S = fill_shared (c_share C) (dh (s_priv S) (pub k))
        end
      end
    | Some _, Some _ => False
    end.

  Lemma inv_init : forall k0 s0, inv (init pub k0 s0).
  Proof. intros. unfold inv, init. cbn. repeat split; intros; discriminate. Qed.

  Local Opaque zero_share fill_shared xor_op is_synced.

  Lemma inv_step : forall e s, lossless_event e = true -> inv s -> inv (step e s).
  Proof.
    intros e [[cp cpb cs cn] [sr sp ss] up dn w cseen sseen] L I.
    unfold inv in I. cbn [cl sv upw dnw waiting c_next c_share c_pub c_priv s_reg s_priv s_share] in I.
    destruct up as [m|]; destruct dn as [d|]; try contradiction.
    - (* request in flight *)
      destruct I as [Hw I]. subst w.
      destruct e; try discriminate L; unfold inv; cbn; try (split; [reflexivity|]; exact I).
      + (* RekeyRecv *)
        unfold srv_handle. cbn.
        destruct sr.
        * destruct m as [pb|body|pb under|body under]; cbn.
          -- destruct I as [F _]. discriminate F.
          -- destruct I as [Hn Hs]. subst cn. split; [reflexivity|]. exact Hs.
          -- destruct I as [k [Hn [Hp [Hu Hs]]]]. subst cn pb under.
             destruct (Hs eq_refl) as [Hsh Hpb]. cbn in Hsh, Hpb. subst ss.
             rewrite zlist_eqb_refl. cbn. split; [reflexivity|]. intros _. split; [exact Hpb|reflexivity].
          -- contradiction.
        * destruct m as [pb|body|pb under|body under]; cbn.
          -- destruct I as [_ [Hp [Hz Hn]]]. subst pb cs cn. split; [reflexivity|].
             split; [reflexivity|]. split; [reflexivity|]. intros _. split; reflexivity.
          -- split; reflexivity.
          -- split; reflexivity.
          -- contradiction.
      + (* WriteFail *)
        split; [reflexivity|]. split; [reflexivity|].
        destruct m as [pb|body|pb under|body under].
        * destruct I as [F _]. intros H. cbn in H. congruence.
        * destruct I as [_ Hs]. exact Hs.
        * destruct I as [k [_ [_ [_ Hs]]]]. exact Hs.
        * contradiction.
      + (* Forget *)
        split; [reflexivity|].
        destruct m as [pb|body|pb under|body under].
        * destruct I as [_ I]. split; [reflexivity|exact I].
        * destruct I as [Hn _]. split; [exact Hn|]. intros H; discriminate H.
        * destruct I as [k [Hn [Hp [Hu _]]]]. exists k. repeat split; try assumption; discriminate.
        * contradiction.
    - (* reply in flight *)
      destruct I as [Hw I]. subst w.
      destruct e; try discriminate L; unfold inv; cbn; try (split; [reflexivity|]; exact I).
      + (* HelloReply *)
        destruct d as [pb| |body]; cbn; try (split; [reflexivity|]; exact I).
        destruct I as [Hz [Hn Hs]]. subst cs cn. unfold key_check_sync, key_session_sync. cbn.
        rewrite is_synced_zero. cbn. split; [reflexivity|]. split; [reflexivity|].
        intros Hr. destruct (Hs Hr) as [Hp Hsh]. subst pb. unfold synced_with. cbn. split; [|reflexivity].
        rewrite Hsh. rewrite dh_comm. reflexivity.
      + (* ReplyRecv *)
        destruct d as [pb| |body]; cbn; try (split; [reflexivity|]; exact I).
        unfold key_check_sync. cbn.
        destruct cn as [k|]; cbn.
        * split; [reflexivity|]. split; [reflexivity|]. intros Hr. destruct (I Hr) as [Hp Hsh].
          unfold synced_with. cbn. split; [|exact Hp]. rewrite Hsh, Hp. rewrite dh_comm. reflexivity.
        * split; [reflexivity|]. split; [reflexivity|]. exact I.
      + (* Forget *)
        split; [reflexivity|].
        destruct d as [pb| |body].
        * destruct I as [Hz [Hn _]]. repeat split; try assumption; discriminate.
        * reflexivity.
        * destruct cn; intros HH; discriminate HH.
      + (* Reregister *)
        destruct d as [pb| |body]; cbn; try (split; [reflexivity|]; exact I).
        unfold send, key_session_generate, key_check_sync. cbn.
        split; [reflexivity|]. split; [exact I|]. split; [reflexivity|]. split; [reflexivity|].
        destruct cn; reflexivity.
    - (* idle *)
      destruct I as [Hw [Hn Hs]]. subst w cn.
      destruct e; try discriminate L; unfold inv; cbn; try (ands; try reflexivity; exact Hs).
      + (* Hello *)
        destruct sr; cbn; ands; try reflexivity; try exact Hs.
      + (* RekeySend *)
        split; [reflexivity|]. exists k. ands; try reflexivity. exact Hs.
      + (* Forget *)
        ands; try reflexivity. discriminate.
  Qed.

  Lemma inv_run : forall h s, lossless h = true -> inv s -> inv (run h s).
  Proof.
    induction h as [|e h IH]; intros s L I; [exact I|].
    cbn in L. apply andb_true_iff in L. destruct L as [Le Lh].
    cbn. apply IH; [exact Lh|]. apply inv_step; assumption.
  Qed.

  Lemma inv_idle_agree : forall s,
    inv s -> waiting s = false -> s_reg (sv s) = true ->
    c_share (cl s) = s_share (sv s) /\ c_next (cl s) = None /\ c_pub (cl s) = pub (s_priv (sv s)).
  Proof.
    intros s I W R. unfold inv in I.
    destruct (upw s) as [m|]; destruct (dnw s) as [d|]; try contradiction.
    - destruct I as [Hw _]. congruence.
    - destruct I as [Hw _]. congruence.
    - destruct I as [_ [Hn Hs]]. destruct (Hs R) as [A B]. auto.
  Qed.

  (* after ANY lossless history from the initial state, whenever the client is between two
     exchanges and the server knows it, both ends hold the same share *)
  Theorem share_agree_lossless : forall h k0 s0,
    lossless h = true ->
    let s := run h (init pub k0 s0) in
    waiting s = false -> s_reg (sv s) = true ->
    c_share (cl s) = s_share (sv s) /\ c_next (cl s) = None.
  Proof.
    intros h k0 s0 L s W R.
    destruct (inv_idle_agree s (inv_run h _ L (inv_init k0 s0)) W R) as [A [B _]]. auto.
  Qed.

  (* a state in which the two ends agree and nothing is in flight *)
  Definition settled (s : state) : Prop :=
    waiting s = false /\ upw s = None /\ dnw s = None /\ s_reg (sv s) = true /\
    c_next (cl s) = None /\ c_share (cl s) = s_share (sv s) /\ c_pub (cl s) = pub (s_priv (sv s)).

  Lemma settled_inv : forall s, settled s -> inv s.
  Proof.
    intros s [W [U [D [R [N [A P]]]]]]. unfold inv. rewrite U, D. repeat split; assumption.
  Qed.

  Lemma inv_settled : forall s, inv s -> waiting s = false -> s_reg (sv s) = true -> settled s.
  Proof.
    intros s I W R. pose proof (inv_idle_agree s I W R) as [A [N P]].
    unfold inv in I. destruct (upw s) as [m|] eqn:U; destruct (dnw s) as [d|] eqn:D; try contradiction.
    - destruct I as [Hw _]. congruence.
    - destruct I as [Hw _]. congruence.
    - unfold settled. rewrite U, D. repeat split; assumption.
  Qed.

  (* handshake: any client pair, any server pair, any length of the ECDH output *)
  Theorem share_agree_handshake : forall k0 s0 k q,
    let s := run [Hello k; RekeyRecv q; HelloReply] (init pub k0 s0) in
    settled s /\ c_share (cl s) = fill_shared zero_share (dh k (pub s0)).
  Proof.
    intros k0 s0 k q s. split.
    - apply inv_settled.
      + apply inv_run; [reflexivity|apply inv_init].
      + reflexivity.
      + reflexivity.
    - subst s. cbn. unfold key_session_sync, key_check_sync. cbn. rewrite is_synced_zero. reflexivity.
  Qed.

  (* every sequence of re-keys (each complete or failing at the write), interleaved with any
     traffic, from any settled state: the ends agree again, for every ECDH output *)
  Theorem share_agree_rekey : forall h s,
    settled s -> lossless h = true ->
    let s' := run h s in
    waiting s' = false -> s_reg (sv s') = true -> settled s'.
  Proof.
    intros h s S L s' W R. apply inv_settled; try assumption.
    apply inv_run; [exact L|apply settled_inv; exact S].
  Qed.

  (* one complete re-key computes the new share from the OLD one on both ends *)
  Theorem rekey_round : forall s k q,
    settled s ->
    let s' := run [RekeySend k; RekeyRecv q; ReplyRecv] s in
    settled s' /\
    c_share (cl s') = fill_shared (c_share (cl s)) (dh k (pub (s_priv (sv s)))) /\
    s_share (sv s') = fill_shared (s_share (sv s)) (dh (s_priv (sv s)) (pub k)) /\
    c_seen s' = deliver q (c_seen s).        (* the reply written under the copy of the old key is readable *)
  Proof.
    intros [[cp cpb cs cn] [sr sp ss] up dn w cseen sseen] k q S.
    destruct S as [W [U [D [R [N [A P]]]]]].
    cbn [cl sv upw dnw waiting c_next c_share c_pub c_priv s_reg s_priv s_share] in *.
    subst w up dn sr cn ss cpb.
    match goal with |- context [run ?h ?s0] => set (s' := run h s0) end.
    assert (E : s' = mkSt (mkC k (pub sp) (fill_shared cs (dh k (pub sp))) None)
                          (mkS true sp (fill_shared cs (dh sp (pub k)))) None None false
                          (deliver (xor_op (xor_op q cs) cs) cseen) sseen).
    { subst s'. unfold run. cbn [fold_left]. unfold step at 3. cbn.
      unfold srv_handle. cbn. rewrite zlist_eqb_refl. cbn. unfold key_check_sync. cbn. reflexivity. }
    rewrite E. cbn. rewrite xor_involution. ands; try reflexivity.
    unfold settled. cbn. ands; try reflexivity. rewrite dh_comm. reflexivity.
  Qed.

  (* a failed write of the announcement leaves both ends exactly where they were *)
  Theorem write_fail_reverts : forall s k,
    waiting s = false -> c_next (cl s) = None ->
    let s' := run [RekeySend k; WriteFail] s in
    cl s' = cl s /\ sv s' = sv s /\ waiting s' = false /\ upw s' = None.
  Proof.
    intros [[cp cpb cs cn] [sr sp ss] up dn w cseen sseen] k W N s'. cbn in *. subst w cn.
    subst s'. cbn. repeat split.
  Qed.

  (* under agreement each side's handler sees exactly what the other side sent *)
  Theorem payload_roundtrip : forall s p q,
    waiting s = false -> s_reg (sv s) = true -> c_next (cl s) = None -> agree s ->
    let s' := run [DataSend p; RekeyRecv q; ReplyRecv] s in
    s_seen s' = deliver p (s_seen s) /\ c_seen s' = deliver q (c_seen s) /\ cl s' = cl s /\ sv s' = sv s.
  Proof.
    intros [[cp cpb cs cn] [sr sp ss] up dn w cseen sseen] p q W R N A s'.
    unfold agree in A. cbn in *. subst w sr cn ss.
    subst s'. cbn. unfold srv_handle. cbn. rewrite !xor_involution. repeat split.
  Qed.
End Agreement.

(* ---- what goes wrong when a reply is lost: explicit histories in the toy agreement ---- *)
Lemma toy_comm : forall a b, toy_dh a (toy_pub b) = toy_dh b (toy_pub a).
Proof. intros. unfold toy_dh, toy_pub. rewrite (Z.mul_comm a b). reflexivity. Qed.

Definition toy_run := run toy_pub toy_dh.
Definition toy_init := init toy_pub 0 7.
Definition handshake : list (event Z) := [Hello 11; RekeyRecv []; HelloReply].
Definition shares_differ (s : st Z Z) : bool := negb (zlist_eqb (c_share (cl s)) (s_share (sv s))).

(* (a) the server processed the announcement, its reply was lost: the next exchange is garbled in
       both directions (neither handler sees what was sent), after it the ends agree again *)
Definition lost_after : list (event Z) :=
  handshake ++ [RekeySend 13; RekeyRecv []; ReplyLost; DataSend [1; 2; 3]; RekeyRecv [4; 5; 6]; ReplyRecv].
(* (b) the write succeeded locally but the announcement never arrived: the client swaps after the
       next exchange, the server never does; later re-keys do not repair it *)
Definition undelivered : list (event Z) :=
  handshake ++ [RekeySend 13; ReplyLost; DataSend [1; 2; 3]; RekeyRecv [4; 5; 6]; ReplyRecv].
Definition undelivered_later : list (event Z) :=
  undelivered ++ [RekeySend 17; RekeyRecv []; ReplyRecv; RekeySend 19; RekeyRecv []; ReplyRecv;
                  DataSend [1; 2; 3]; RekeyRecv [4; 5; 6]; ReplyRecv].
(* (c) the announcement was merged into a Multi container: the server ignores it, the client swaps *)
Definition batched : list (event Z) :=
  handshake ++ [BatchSend 13 [1; 2; 3]; RekeyRecv [4; 5; 6]; ReplyRecv].

Lemma agree_after_reply_lost_refuted :
  (* (a) one garbled exchange *)
  (let s := toy_run lost_after toy_init in
   s_seen s <> [[1; 2; 3]] /\ c_seen s <> [[4; 5; 6]] /\ shares_differ s = false) /\
  (* (b) the sender is NOT left on the old key, and the ends differ for good *)
  (let s0 := toy_run handshake toy_init in
   let s := toy_run undelivered toy_init in
   waiting s = false /\ c_next (cl s) = None /\ shares_differ s = true /\
   c_share (cl s) <> c_share (cl s0) /\ s_share (sv s) = s_share (sv s0) /\
   shares_differ (toy_run undelivered_later toy_init) = true /\
   s_seen (toy_run undelivered_later toy_init) <> [[1; 2; 3]; [1; 2; 3]]) /\
  (* (c) batched announcement *)
  (let s := toy_run batched toy_init in
   waiting s = false /\ c_next (cl s) = None /\ s_seen s = [[1; 2; 3]] /\ shares_differ s = true).
Proof.
  repeat split; try (vm_compute; reflexivity); vm_compute; intros H; discriminate H.
Qed.
