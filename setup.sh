#!/bin/bash
# Offline setup: full .vo build of the Coq development and a warm build of every harness.
set -u
cd "$(dirname "$0")"
export GOFLAGS=-mod=mod GOPROXY=off GOSUMDB=off GOTOOLCHAIN=local
python3 - <<'PY'
import sys
sys.path.insert(0, "tools")
import vlib, props
ok, out = vlib.coq_build([])
print(out[-1500:])
bad = 0
for pid, c in sorted(props.PROPS.items()):
    if "harness" not in c:
        continue
    extra = c["extra_replace"]() if c.get("extra_replace") else None
    hok, hout, _ = vlib.build_harness(c["harness"], c.get("shims", []), c.get("tags", "verif"), extra)
    print("harness", c["harness"], "ok" if hok else "FAILED\n" + hout[-1500:])
    bad += 0 if hok else 1
sys.exit(0 if ok and not bad else 1)
PY
