#!/bin/bash
# Offline setup: full .vo build of the Coq development and a warm build of every harness.
# Exit status: 0 when everything the MANIFEST claims (tools/ready.txt) builds; files of properties
# that are still being worked on (not claimed) are built too (make -k) but cannot fail the setup.
set -u
cd "$(dirname "$0")"
export GOFLAGS=-mod=mod GOPROXY=off GOSUMDB=off GOTOOLCHAIN=local
python3 - <<'PY'
import os, sys
sys.path.insert(0, "tools")
import vlib, props
ready = set(open("tools/ready.txt").read().split())
ok_all, out = vlib.coq_build([])
print(out[-1500:])
bad = 0
for pid, c in sorted(props.PROPS.items()):
    vo = os.path.join(vlib.COQ, c["props"][:-2] + ".vo")
    tie = os.path.join(vlib.COQ, "Tie", pid + ".v")
    built = os.path.exists(vo) and (not os.path.exists(tie) or os.path.exists(tie[:-2] + ".vo"))
    print("coq", pid, "ok" if built else "NOT BUILT", "" if pid in ready else "(not claimed)")
    if pid in ready and not built:
        bad += 1
    if "harness" not in c:
        continue
    extra = c["extra_replace"]() if c.get("extra_replace") else None
    hok, hout, _ = vlib.build_harness(c["harness"], c.get("shims", []), c.get("tags", "verif"), extra)
    print("harness", c["harness"], "ok" if hok else "FAILED\n" + hout[-1500:], "" if pid in ready else "(not claimed)")
    if pid in ready and not hok:
        bad += 1
sys.exit(0 if not bad else 1)
PY
