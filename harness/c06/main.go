// C06 harness: session key agreement and the payload cipher.
//
//  1. subtle.XorOp / (*Chunk).KeyCrypt on generated buffers and keys         -> CXor cases
//  2. real P-521 KeyPairs, Fill / FillPublic / FillPrivate / Sync, both roles,
//     ECDH bytes recomputed with crypto/ecdh                                  -> CFill cases
//  3. scripted histories through the REAL (*Session).session() and handle()
//     over an in-memory conn with fault injection                             -> CHist cases
//  4. channels inside those histories: the bodies of the four channel loops one
//     Packet at a time, idle ticks through the REAL next()/pick()             -> CHist cases
//  5. the real pick() in its 16 situations                                    -> CPick cases
//
// Go-side oracle (the property, evaluated on the implementation): the cipher is an involution
// and keeps the length; both ends hold the same share after every completed handshake /
// exchange; every delivered payload equals the payload sent; a re-key whose announcement was
// not delivered leaves the sender on the old key.
package main

import (
	"bytes"
	"context"
	"crypto/ecdh"
	"crypto/elliptic"
	"errors"
	"fmt"
	"io"
	"math/big"
	"net"
	"os"
	"strings"
	"sync"
	"syscall"
	"time"

	"github.com/iDigitalFlame/xmt/c2"
	"github.com/iDigitalFlame/xmt/c2/cfg"
	"github.com/iDigitalFlame/xmt/com"
	"github.com/iDigitalFlame/xmt/data"
	"github.com/iDigitalFlame/xmt/data/crypto/subtle"
	"github.com/iDigitalFlame/xmt/device"

	"verifharness/vh"
)

var (
	out *vh.Out
	rng *vh.Rand
)

// recordFail passes an oracle failure to vh - at most 3 per key: vh keeps only the first 200
// failures of a run, and the random fault histories of the thorough tier produce hundreds under
// the known keys; without this a failure with a NEW key late in the run would be dropped.  The full
// count per key goes into the evidence (extra oracle_failures_per_key).
var failCount = map[string]int{}

func recordFail(what, key string, c interface{}) {
	if failCount[key]++; failCount[key] <= 3 {
		out.Fail(what, key, c)
	}
}

func ints(b []byte) []int {
	o := make([]int, len(b))
	for i, v := range b {
		o[i] = int(v)
	}
	return o
}

// ---------------------------------------------------------------- 1. the cipher

func xorRef(b, k []byte) []byte {
	o := append([]byte(nil), b...)
	if len(k) == 0 {
		return o
	}
	for i := range o {
		o[i] ^= k[i%len(k)]
	}
	return o
}

// doXor runs the real XorOp (and, for 65-byte keys, the real KeyCrypt on a Chunk).
func doXor(buf, key []byte, class string) {
	desc := map[string]interface{}{"fn": "subtle.XorOp", "buf": ints(buf), "key": ints(key)}
	got := append([]byte(nil), buf...)
	pan := false
	func() {
		defer func() {
			if recover() != nil {
				pan = true
			}
		}()
		subtle.XorOp(got, key)
	}()
	if pan {
		recordFail("XorOp panicked", "xor-panic", desc)
		return
	}
	nontrivial := len(buf) > 0 && len(key) > 0
	out.Add(fmt.Sprintf("CXor %s %s %s", vh.Bytes(buf), vh.Bytes(key), vh.Bytes(got)), class, nontrivial, desc)
	if len(got) != len(buf) {
		recordFail("XorOp changed the length", "xor-length", desc)
	}
	if !bytes.Equal(got, xorRef(buf, key)) {
		recordFail("XorOp is not the XOR with the repeating key", "xor-value", desc)
	}
	back := append([]byte(nil), got...)
	subtle.XorOp(back, key)
	if !bytes.Equal(back, buf) {
		recordFail("XorOp applied twice does not restore the buffer", "xor-involution", desc)
	}
	if len(key) != 65 {
		return
	}
	// the same through a Chunk and a KeyPair holding this share
	var (
		k  data.KeyPair
		sh data.SharedKeys
		c  data.Chunk
	)
	copy(sh[:], key)
	data.VerifC06SetShare(&k, sh)
	c.Write(buf)
	size := c.Size()
	c.KeyCrypt(k)
	enc := append([]byte(nil), data.VerifC06Buf(&c)...)
	d2 := map[string]interface{}{"fn": "Chunk.KeyCrypt", "buf": ints(buf), "share": ints(key)}
	out.Add(fmt.Sprintf("CXor %s %s %s", vh.Bytes(buf), vh.Bytes(key), vh.Bytes(enc)), class+"-chunk", nontrivial, d2)
	if c.Size() != size || len(enc) != len(buf) {
		recordFail("KeyCrypt changed the Chunk size", "keycrypt-length", d2)
	}
	c.KeyCrypt(k)
	if !bytes.Equal(data.VerifC06Buf(&c), buf) && len(buf) > 0 {
		recordFail("KeyCrypt applied twice does not restore the Chunk", "keycrypt-involution", d2)
	}
}

func genXor(thorough bool) {
	lens := []int{0, 1, 2, 3, 63, 64, 65, 66, 67, 129, 130, 131, 194, 195, 196, 260}
	keyLens := []int{0, 1, 2, 3, 7, 16, 64, 65, 66}
	zero := make([]byte, 65)
	ones := bytes.Repeat([]byte{0xFF}, 65)
	for _, n := range lens {
		doXor(rng.Bytes(n), zero, "xor-grid-zero-share")
		doXor(rng.Bytes(n), ones, "xor-grid-share")
		doXor(rng.Bytes(n), rng.Bytes(65), "xor-grid-share")
		for _, kl := range keyLens {
			doXor(rng.Bytes(n), rng.Bytes(kl), "xor-grid-keylen")
		}
	}
	n := 300
	if thorough {
		n = 4000
	}
	for i := 0; i < n; i++ {
		bl := rng.Intn(300)
		if rng.Intn(4) == 0 {
			bl = 65*rng.Intn(5) + rng.Intn(3) - 1
			if bl < 0 {
				bl = 0
			}
		}
		if rng.Intn(3) == 0 {
			doXor(rng.Bytes(bl), rng.Bytes(rng.Intn(70)), "xor-random-keylen")
		} else {
			k := rng.Bytes(65)
			for j := rng.Intn(4); j > 0; j-- {
				k[rng.Intn(65)] = 0
			}
			doXor(rng.Bytes(bl), k, "xor-random-share")
		}
	}
}

// ---------------------------------------------------------------- 2. key pairs

var p521 = ecdh.P521()

// ecdhBytes is x.Bytes() of priv*pub computed by crypto/ecdh (independent of data.KeyPair):
// the fixed-width coordinate without its leading zero bytes.
func ecdhBytes(priv data.PrivateKey, pub data.PublicKey) ([]byte, error) {
	a, err := p521.NewPrivateKey(priv[:])
	if err != nil {
		return nil, err
	}
	b, err := p521.NewPublicKey(pub[:])
	if err != nil {
		return nil, err
	}
	x, err := a.ECDH(b)
	if err != nil {
		return nil, err
	}
	for len(x) > 0 && x[0] == 0 {
		x = x[1:]
	}
	return x, nil
}

func pubOf(priv data.PrivateKey) (data.PublicKey, error) {
	var p data.PublicKey
	a, err := p521.NewPrivateKey(priv[:])
	if err != nil {
		return p, err
	}
	copy(p[:], a.PublicKey().Bytes())
	return p, nil
}

func randShare() data.SharedKeys {
	var s data.SharedKeys
	switch rng.Intn(4) {
	case 0: // zero (fresh pair)
	case 1:
		for i := range s {
			s[i] = 0xA0 + byte(i%16)
		}
	default:
		copy(s[:], rng.Bytes(65))
	}
	return s
}

var (
	lenHist           = map[int]int{}
	pairCount         int
	shortInHistory    int
	ticksWithoutRekey int
)

// doPair: both ends derive the share from (aPriv, bPub) and (bPriv, aPub), starting from the
// same previous share, through every entry point.
func doPair(aPriv data.PrivateKey, aPub data.PublicKey, bPriv data.PrivateKey, bPub data.PublicKey, old data.SharedKeys, class string) data.SharedKeys {
	pairCount++
	desc := map[string]interface{}{"fn": "KeyPair.FillPublic/FillPrivate/Sync", "a_private": ints(aPriv[:]), "b_private": ints(bPriv[:]), "previous_share": ints(old[:])}
	dab, err1 := ecdhBytes(aPriv, bPub)
	dba, err2 := ecdhBytes(bPriv, aPub)
	if err1 != nil || err2 != nil {
		out.Note(fmt.Sprintf("crypto/ecdh rejected a generated key: %v %v", err1, err2))
		return old
	}
	if !bytes.Equal(dab, dba) {
		// the section hypothesis of the proofs (trusted base), checked at run time
		recordFail("crypto/ecdh: dh a (pub b) != dh b (pub a)", "ecdh-contract", desc)
	}
	lenHist[len(dab)]++
	desc["ecdh_len"] = len(dab)
	var shares []data.SharedKeys
	fail := func(what string) { recordFail(what, "keypair-"+class, desc) }
	// client role: own private, peer public
	{
		k := data.KeyPair{Private: aPriv, Public: aPub}
		data.VerifC06SetShare(&k, old)
		if err := k.FillPublic(bPub); err != nil {
			fail("FillPublic failed: " + err.Error())
		}
		if k.Public != bPub {
			fail("FillPublic did not store the peer public key")
		}
		shares = append(shares, k.Shared())
		// keyCheckSync's step: a NEW private against the stored peer public
		k2 := data.KeyPair{Public: bPub}
		data.VerifC06SetShare(&k2, old)
		if err := k2.FillPrivate(aPriv); err != nil {
			fail("FillPrivate failed: " + err.Error())
		}
		if k2.Private != aPriv {
			fail("FillPrivate did not store the private key")
		}
		shares = append(shares, k2.Shared())
		k3 := data.KeyPair{Public: bPub, Private: aPriv}
		data.VerifC06SetShare(&k3, old)
		if err := k3.Sync(); err != nil {
			fail("Sync failed: " + err.Error())
		}
		shares = append(shares, k3.Shared())
	}
	// server role: own private, peer public
	{
		k := data.KeyPair{Public: aPub}
		data.VerifC06SetShare(&k, old)
		if err := k.FillPrivate(bPriv); err != nil {
			fail("FillPrivate failed: " + err.Error())
		}
		shares = append(shares, k.Shared())
		k2 := data.KeyPair{Private: bPriv, Public: bPub}
		data.VerifC06SetShare(&k2, old)
		if err := data.VerifC06FillShared(&k2, aPub, bPriv); err != nil {
			fail("fillShared failed: " + err.Error())
		}
		shares = append(shares, k2.Shared())
	}
	for i := 1; i < len(shares); i++ {
		if shares[i] != shares[0] {
			desc["share_0"], desc["share_i"], desc["i"] = ints(shares[0][:]), ints(shares[i][:]), i
			fail("the two ends (or two entry points) derived different shares")
			break
		}
	}
	short := len(dab) < 65
	cl := class
	if short {
		cl += "-short"
	}
	out.Add(fmt.Sprintf("CFill %s %s %s", vh.Bytes(old[:]), vh.Bytes(dab), vh.Bytes(shares[0][:])), cl, true, desc)
	out.Add(fmt.Sprintf("CFill %s %s %s", vh.Bytes(old[:]), vh.Bytes(dba), vh.Bytes(shares[3][:])), cl+"-peer", true, desc)
	return shares[0]
}

func freshPair() (data.PrivateKey, data.PublicKey) {
	var k data.KeyPair
	k.Fill()
	if k.IsSynced() {
		recordFail("Fill left a non-zero share", "fill-share", nil)
	}
	return k.Private, k.Public
}

// shortPair searches a private scalar m (small) such that x(m * bPub) has at most 64 bytes,
// walking m*P by point additions.
func shortPair(bPub data.PublicKey, maxIter int) (data.PrivateKey, data.PublicKey, bool) {
	var (
		curve  = elliptic.P521()
		px, py = elliptic.Unmarshal(curve, bPub[:])
		m      data.PrivateKey
		pb     data.PublicKey
	)
	if px == nil {
		return m, pb, false
	}
	x, y := new(big.Int).Set(px), new(big.Int).Set(py)
	for i := 1; i <= maxIter; i++ {
		if x.BitLen() <= 512 {
			big.NewInt(int64(i)).FillBytes(m[:])
			p, err := pubOf(m)
			if err != nil {
				return m, pb, false
			}
			return m, p, true
		}
		if i == 1 {
			x, y = curve.Double(px, py)
		} else {
			x, y = curve.Add(x, y, px, py)
		}
	}
	return m, pb, false
}

func genPairs(thorough bool) {
	n := 130
	if thorough {
		n = 1500
	}
	for i := 0; i < n; i++ {
		aP, aPub := freshPair()
		bP, bPub := freshPair()
		old := randShare()
		s := doPair(aP, aPub, bP, bPub, old, "pair")
		// a chain of re-keys on top (the previous share is the last one)
		for j := rng.Intn(3); j > 0; j-- {
			aP, aPub = freshPair()
			s = doPair(aP, aPub, bP, bPub, s, "pair-chain")
		}
	}
	// forced short secrets: stale tail
	ns := 10
	if thorough {
		ns = 150
	}
	found := 0
	for i := 0; i < ns; i++ {
		bP, bPub := freshPair()
		m, mPub, ok := shortPair(bPub, 6000)
		if !ok {
			continue
		}
		found++
		old := randShare()
		s := doPair(m, mPub, bP, bPub, old, "pair-forced")
		// and a normal re-key after it: the stale tail is overwritten or kept equally on both ends
		aP, aPub := freshPair()
		doPair(aP, aPub, bP, bPub, s, "pair-chain")
	}
	out.Extra("forced_short_secrets", found)
}

// ---------------------------------------------------------------- 3. histories

var errFault = errors.New("verif: injected fault")

// errKinds: every KIND of connection error the code in c2/com distinguishes somewhere
// (isClosedError = errors.Is(net.ErrClosed); net.Error.Timeout() in the accept loops; io.EOF in
// the readers; io.ErrClosedPipe from the UDP/WC2/pipe conns; io.ErrShortWrite from Marshal) plus
// the usual socket errnos wrapped the way package net wraps them, and a plain error.
var errKinds = []string{"plain", "closed", "closed-op", "eof", "unexpected-eof", "closedpipe", "deadline", "timeout-op", "epipe", "econnreset", "short"}

type timeoutErr struct{}

func (timeoutErr) Error() string   { return "verif: i/o timeout" }
func (timeoutErr) Timeout() bool   { return true }
func (timeoutErr) Temporary() bool { return true }

// mkErr builds the injected error of the given kind for operation op ("write" / "read").
func mkErr(kind, op string) error {
	a := &net.TCPAddr{IP: net.IPv4(127, 0, 0, 1), Port: 443}
	switch kind {
	case "closed":
		return net.ErrClosed
	case "closed-op":
		return &net.OpError{Op: op, Net: "tcp", Addr: a, Err: net.ErrClosed}
	case "eof":
		return io.EOF
	case "unexpected-eof":
		return io.ErrUnexpectedEOF
	case "closedpipe":
		return io.ErrClosedPipe
	case "deadline":
		return os.ErrDeadlineExceeded
	case "timeout-op":
		return &net.OpError{Op: op, Net: "tcp", Addr: a, Err: timeoutErr{}}
	case "epipe":
		return &net.OpError{Op: op, Net: "tcp", Addr: a, Err: os.NewSyscallError(op, syscall.EPIPE)}
	case "econnreset":
		return &net.OpError{Op: op, Net: "tcp", Addr: a, Err: os.NewSyscallError(op, syscall.ECONNRESET)}
	}
	return errFault
}

type addr struct{}

func (addr) Network() string { return "verif" }
func (addr) String() string  { return "verif" }

// fconn is an in-memory net.Conn: writes are collected; the first Read hands the collected
// request to onRead, which produces the bytes to be read (or a failure).
type fconn struct {
	wbuf      []byte
	rbuf      []byte
	failWrite bool
	readErr   bool
	kind      string        // kind of the injected error (see errKinds)
	closed    chan struct{} // closed by Close (listen() closes the connection after session() returned and the error branch ran)
	triggered bool
	onRead    func(req []byte) ([]byte, bool)
}

func (c *fconn) Write(b []byte) (int, error) {
	if c.failWrite {
		if c.kind == "short" {
			return 0, nil // a short write without an error: Marshal turns it into io.ErrShortWrite
		}
		return 0, mkErr(c.kind, "write")
	}
	c.wbuf = append(c.wbuf, b...)
	return len(b), nil
}
func (c *fconn) Read(b []byte) (int, error) {
	if !c.triggered {
		c.triggered = true
		if c.onRead != nil {
			r, ok := c.onRead(c.wbuf)
			c.rbuf, c.readErr = r, !ok
		}
	}
	if c.readErr {
		if c.kind == "short" {
			return 0, io.EOF // nothing arrives and the stream ends
		}
		return 0, mkErr(c.kind, "read")
	}
	if len(c.rbuf) == 0 {
		return 0, io.EOF
	}
	n := copy(b, c.rbuf)
	c.rbuf = c.rbuf[n:]
	return n, nil
}
func (c *fconn) Close() error {
	if c.closed != nil {
		select {
		case <-c.closed:
		default:
			close(c.closed)
		}
	}
	return nil
}
func (*fconn) LocalAddr() net.Addr              { return addr{} }
func (*fconn) RemoteAddr() net.Addr             { return addr{} }
func (*fconn) SetDeadline(time.Time) error      { return nil }
func (*fconn) SetReadDeadline(time.Time) error  { return nil }
func (*fconn) SetWriteDeadline(time.Time) error { return nil }

// pipeEnd is one end of an in-memory duplex connection with unbounded buffers: Write never blocks,
// Read blocks until the peer has written or the connection is closed (from either end); deadlines
// are ignored.  The real channel loops of both ends run on such a pair.
type pipeEnd struct {
	mu        *sync.Mutex
	cond      *sync.Cond
	buf       []byte // written by the peer, not yet read by this end
	delivered int    // bytes the peer has ever written to this end
	waiting   bool   // this end's reader is blocked on an empty buffer
	closed    *bool  // shared by both ends
	peer      *pipeEnd
}

func newPipe() (*pipeEnd, *pipeEnd) {
	var (
		mu     sync.Mutex
		closed bool
		cond   = sync.NewCond(&mu)
		a      = &pipeEnd{mu: &mu, cond: cond, closed: &closed}
		b      = &pipeEnd{mu: &mu, cond: cond, closed: &closed}
	)
	a.peer, b.peer = b, a
	return a, b
}
func (e *pipeEnd) Read(b []byte) (int, error) {
	e.mu.Lock()
	defer e.mu.Unlock()
	for len(e.buf) == 0 && !*e.closed {
		e.waiting = true
		e.cond.Broadcast()
		e.cond.Wait()
	}
	e.waiting = false
	if len(e.buf) == 0 {
		return 0, net.ErrClosed
	}
	n := copy(b, e.buf)
	e.buf = e.buf[n:]
	return n, nil
}
func (e *pipeEnd) Write(b []byte) (int, error) {
	e.mu.Lock()
	defer e.mu.Unlock()
	if *e.closed {
		return 0, net.ErrClosed
	}
	e.peer.buf = append(e.peer.buf, b...)
	e.peer.delivered += len(b)
	e.cond.Broadcast()
	return len(b), nil
}
func (e *pipeEnd) Close() error {
	e.mu.Lock()
	*e.closed = true
	e.cond.Broadcast()
	e.mu.Unlock()
	return nil
}
func (*pipeEnd) LocalAddr() net.Addr              { return addr{} }
func (*pipeEnd) RemoteAddr() net.Addr             { return addr{} }
func (*pipeEnd) SetDeadline(time.Time) error      { return nil }
func (*pipeEnd) SetReadDeadline(time.Time) error  { return nil }
func (*pipeEnd) SetWriteDeadline(time.Time) error { return nil }

// deliveredTo is the number of bytes ever written to this end.
func (e *pipeEnd) deliveredTo() int {
	e.mu.Lock()
	defer e.mu.Unlock()
	return e.delivered
}

// consumed reports that more than prev bytes were written to this end, all of them were read, and
// the reader is back in Read waiting for more: whatever was sent has been processed by the loop.
func (e *pipeEnd) consumed(prev int) bool {
	e.mu.Lock()
	defer e.mu.Unlock()
	return e.delivered > prev && len(e.buf) == 0 && e.waiting
}

// waitFor polls cond for at most d.
func waitFor(d time.Duration, cond func() bool) bool {
	t := time.Now().Add(d)
	for i := 0; ; i++ {
		if cond() {
			return true
		}
		if time.Now().After(t) {
			return false
		}
		if i < 200 {
			time.Sleep(20 * time.Microsecond)
		} else {
			time.Sleep(500 * time.Microsecond)
		}
	}
}

// prof is the Profile of the client Session: its Connect hands the connections of the harness,
// one per exchange, to the REAL (*Session).listen loop; once the harness is done it only fails, and
// listen() leaves through its "too many errors" exit.
type prof struct {
	conns chan net.Conn
	asked chan struct{} // one token each time listen() comes round and asks for the next connection
}

func (prof) Jitter() int8                               { return 0 }
func (prof) Switch(bool) bool                           { return false }
func (prof) Sleep() time.Duration                       { return 0 }
func (prof) WorkHours() *cfg.WorkHours                  { return nil }
func (prof) KillDate() (time.Time, bool)                { return time.Time{}, false }
func (prof) TrustedKey(data.PublicKey) bool             { return true }
func (prof) Next() (string, cfg.Wrapper, cfg.Transform) { return "", nil, nil }
func (p prof) Connect(context.Context, string) (net.Conn, error) {
	select {
	case p.asked <- struct{}{}:
	default:
	}
	c, ok := <-p.conns
	if !ok {
		return nil, errFault
	}
	return c, nil
}
func (prof) Listen(context.Context, string) (net.Listener, error) { return nil, errFault }

const (
	idClientData = 0xC0 // >= task.MvRefresh: reaches the handler
	idServerData = 0xC1
)

type keyReg struct {
	priv []data.PrivateKey
	pub  []data.PublicKey
	idx  map[data.PrivateKey]int
}

func (r *keyReg) id(p data.PrivateKey) int {
	if i, ok := r.idx[p]; ok {
		return i
	}
	pb, err := pubOf(p)
	if err != nil {
		panic("harness: generated private key rejected by crypto/ecdh: " + err.Error())
	}
	i := len(r.priv) + 1
	r.priv, r.pub = append(r.priv, p), append(r.pub, pb)
	r.idx[p] = i
	return i
}

type round struct {
	Kind   string `json:"kind"`   // connect | data | rekey | batch
	P      []int  `json:"p"`      // client payload
	Q      []int  `json:"q"`      // server payload
	Fault  string `json:"fault"`  // "" | write | lost-before | lost-after
	Err    string `json:"err"`    // kind of the injected error (errKinds); "" = plain
	Forget int    `json:"forget"` // 0 no, 1 server forgets the session, 2 and restarts with a new key pair
	Short  bool   `json:"short"`  // re-key: redraw the announced pair until the ECDH secret is shorter than the share
}

type world struct {
	id          device.ID
	cli         *c2.Session
	cm, sm      *c2.VerifC06Mux
	l           *c2.Listener
	reg         *keyReg
	srvIdx      int
	taint       string           // the known-finding shape this history has entered ("" = none)
	leftover    []int            // payload of a data Packet that stayed queued behind a re-key announcement
	prof        *prof            // hands connections to the running listen() loop
	loop        *c2.VerifC06Loop // the running (*Session).listen goroutine of w.cli
	consecFail  int              // consecutive exchanges session() reported failed (listen() gives up after 6)
	sinceLoss   int              // completed exchanges since the history entered its finding shape
	ce, se      *pipeEnd         // the connection of the open channel: client end, server end (nil = no channel)
	srvDone     chan struct{}    // closed when the server's handle() of the channel connection has returned
	ready       bool             // listen() is known to be waiting in Connect
	migrate     []byte           // the Session as the old process marshalled it for the new one (nil = not moving)
	chanRekeyed bool             // an idle tick inside a channel drew a re-key
	oldShare    *data.SharedKeys
	hist        []round
	terms       []string
	classes     map[string]bool
}

func newID() device.ID {
	var d device.ID
	copy(d[:], rng.Bytes(len(d)))
	d[0] |= 1
	return d
}

func byteList(l [][]byte) string {
	items := make([]string, len(l))
	for i := range l {
		items[i] = vh.Bytes(l[i])
	}
	return vh.List(items)
}

func only(l [][]byte, ids []uint8, id uint8) [][]byte {
	var o [][]byte
	for i := range l {
		if ids[i] == id && len(l[i]) > 0 {
			o = append(o, l[i])
		}
	}
	return o
}

func toBytes(v []int) []byte {
	b := make([]byte, len(v))
	for i := range v {
		b[i] = byte(v[i])
	}
	return b
}

func (w *world) fail(what, kind string) { w.failKey(what, kind, w.taint) }

// failKey records an oracle failure under the given key ("" = no finding shape: keyed by the kind of round).
func (w *world) failKey(what, kind, key string) {
	if key == "" {
		key = "history-no-fault:" + kind
	}
	recordFail(what, key, map[string]interface{}{"history": w.hist, "finding_shape": w.taint})
}

// await waits until the running listen() asks for its next connection (false: it ended or hangs).
func (w *world) await() bool {
	select {
	case <-w.prof.asked:
		w.ready = true
		return true
	case <-w.loop.Done:
	case <-time.After(20 * time.Second):
	}
	return false
}

// hand gives the connection of the next exchange to the running listen().
func (w *world) hand(c net.Conn) bool {
	if !w.ready && !w.await() {
		return false
	}
	w.ready = false
	select {
	case w.prof.conns <- c:
		return true
	case <-w.loop.Done:
	case <-time.After(20 * time.Second):
	}
	return false
}

// stopLoop ends the listen() goroutine of the current client Session and waits for it.
func (w *world) stopLoop() {
	if w.loop == nil {
		return
	}
	if w.ce != nil {
		w.channel(round{Kind: "chan-end"})
		if w.loop == nil {
			return
		}
	}
	close(w.prof.conns)
	select {
	case <-w.loop.Done:
	case <-time.After(20 * time.Second):
		recordFail("listen() did not return after its connector only failed", "harness-listen-stuck", nil)
	}
	w.loop, w.prof, w.ready = nil, nil, false
}

// do executes one round: one exchange, plus a second one when a data Packet stayed queued
// behind a re-key announcement (next() sends a Packet that carries key material alone).
func (w *world) do(r round) {
	if strings.HasPrefix(r.Kind, "move-") {
		if w.ce != nil {
			w.channel(round{Kind: "chan-end"})
		}
		w.move(r)
		return
	}
	isChan := strings.HasPrefix(r.Kind, "chan-")
	if !isChan && w.ce != nil {
		w.channel(round{Kind: "chan-end"}) // the client is inside channelWrite until the channel ends
	}
	if isChan {
		w.channel(r)
		return
	}
	w.leftover = nil
	w.exchange(r)
	if w.leftover != nil && w.cli != nil {
		w.exchange(round{Kind: "flush", P: w.leftover})
	}
	w.leftover = nil
}

// drawRekey calls the real keyNextSync until it announces a pair (and, for short, until the ECDH
// secret of that pair with the server key is shorter than the share: about 1 in 512 draws; the
// rejected draws are cancelled with the real keyCheckRevert).
func (w *world) drawRekey(short bool) (*com.Packet, int) {
	for i := 0; i < 20000; i++ {
		n := c2.VerifC06KeyNextSync(w.cli, 100000)
		if n == nil {
			return nil, 0
		}
		_, _, _, nx := c2.VerifC06Keys(w.cli)
		if short {
			spub, _, _, _ := c2.VerifC06Keys(w.cli) // keys.Public of the client = the server public
			x, err := ecdhBytes(nx.Private, spub)
			if err != nil || len(x) >= 65 {
				c2.VerifC06KeyCheckRevert(w.cli)
				continue
			}
			shortInHistory++
		}
		return n, w.reg.id(nx.Private)
	}
	return nil, 0
}

// move: "move-start" = what Migrate does before it waits for the new process (stateMoving, the real
// writeDeviceInfo(infoMigrate) into a buffer); the exchange thread keeps running: the following rounds
// are ordinary exchanges, re-key rolls included (keyNextSync must refuse them).  "move-take" = the new
// process: a Session filled by the real readDeviceInfo(infoMigrate) replaces the old one and goes on.
// Oracle only (no event for the model: on the unchanged tree no key changes in between).
func (w *world) move(r round) {
	if w.cli == nil || w.loop == nil {
		return
	}
	ss := c2.VerifC06ServerSession(w.l, w.id)
	_, _, _, nx := c2.VerifC06Keys(w.cli)
	switch r.Kind {
	case "move-start":
		if w.migrate != nil || ss == nil || nx != nil || w.taint != "" || c2.VerifC06QueueLen(w.cli) > 0 {
			return
		}
		b, err := c2.VerifC06MoveStart(w.cli)
		if err != nil {
			recordFail("writeDeviceInfo(infoMigrate) failed: "+err.Error(), "migrate-setup", nil)
			return
		}
		w.migrate = b
		w.hist = append(w.hist, round{Kind: "move-start"})
	case "move-take":
		if w.migrate == nil {
			return
		}
		w.hist = append(w.hist, round{Kind: "move-take"})
		w.stopLoop() // the old process exits
		n, err := c2.VerifC06TakeOver(w.id, w.cm, w.migrate)
		w.migrate = nil
		if err != nil {
			recordFail("readDeviceInfo(infoMigrate) failed: "+err.Error(), "migrate-setup", map[string]interface{}{"history": w.hist})
			w.cli = nil
			return
		}
		w.cli = n
		w.prof = &prof{conns: make(chan net.Conn), asked: make(chan struct{}, 1)}
		w.loop = c2.VerifC06Listen(w.cli, w.prof)
		w.consecFail, w.ready = 0, false
		w.await()
		_, _, cshare, _ := c2.VerifC06Keys(w.cli)
		if ss != nil && w.taint == "" {
			if _, _, sshare, _ := c2.VerifC06Keys(ss); sshare != cshare {
				recordFail("the migrated Session (new process) and the server do not hold the same shared secret: a re-key ran between the marshalling of the keys and the take-over",
					"migrated-session-key-differs", map[string]interface{}{"history": w.hist})
			}
		}
	}
}

// channel executes one step of a channel on the REAL loops of both ends.  "chan-start" /
// "chan-start-rekey": the client wants a channel (stateChannelValue), so the real session() puts
// FlagChannel on its next Packet - an ordinary one, or the re-key announcement the forced roll drew -;
// the server's real handle() answers (under the key copy talk() took BEFORE the re-key) and calls the
// real conn.start; both ends then sit in their channelRead/channelWrite loops on an in-memory duplex
// connection.  "chan-up"/"chan-down": a Packet is queued on the client / server Session and the loops
// move it.  "chan-tick": the client is woken with nothing to send (pickWait's keep-alive, whatever
// pick() makes of it), 200 times.  "chan-end": the connection drops.
func (w *world) channel(r round) {
	if w.cli == nil || w.loop == nil {
		return
	}
	ss := c2.VerifC06ServerSession(w.l, w.id)
	var (
		ev   []string
		p, q = toBytes(r.P), toBytes(r.Q)
		bad  string
	)
	r.Fault, r.Err, r.Forget, r.Short = "", "", 0, false
	const patience = 10 * time.Second
	switch r.Kind {
	case "chan-start", "chan-start-rekey":
		if w.ce != nil || ss == nil || c2.VerifC06QueueLen(w.cli) > 0 || w.taint != "" || w.migrate != nil {
			return // (no channel inside a finding shape: its known outcome is stated in terms of exchanges)
		}
		if _, _, _, nx := c2.VerifC06Keys(w.cli); nx != nil {
			return
		}
		if len(q) == 0 {
			q = []byte("channel-start-reply")
			r.Q = ints(q)
		}
		w.chanRekeyed = false
		if !w.ready && !w.await() { // listen() must be past its wait(): the sleep is about to become one hour
			bad = "listen() did not come round for the connection that starts the channel"
			break
		}
		c2.VerifC06ChannelWanted(w.cli, true)
		var n *com.Packet
		k := 0
		if r.Kind == "chan-start-rekey" {
			n, k = w.drawRekey(false)
		}
		if n != nil {
			p, r.P = nil, nil
			c2.VerifC06Queue(w.cli, n)
			ev = append(ev, fmt.Sprintf("RekeySend %d", k))
		} else {
			r.Kind = "chan-start"
			d := &com.Packet{Device: w.id}
			if len(p) > 0 {
				d.ID, d.Job = idClientData, uint16(2+rng.Intn(60000))
				d.Write(p)
			}
			c2.VerifC06Queue(w.cli, d)
			ev = append(ev, "DataSend "+vh.Bytes(p))
		}
		e := &com.Packet{ID: idServerData, Device: w.id, Job: uint16(2 + rng.Intn(60000))}
		e.Write(q)
		c2.VerifC06Queue(ss, e)
		w.ce, w.se = newPipe()
		w.srvDone = make(chan struct{})
		go func(c net.Conn, done chan struct{}) {
			defer func() {
				if x := recover(); x != nil {
					recordFail("panic in the server's handle()/channel loops: "+fmt.Sprint(x), "history-panic", nil)
				}
				close(done)
			}()
			c2.VerifC06Handle(w.l, c)
		}(w.se, w.srvDone)
		if !w.hand(w.ce) {
			bad = "listen() did not take the connection that starts the channel"
			break
		}
		// the exchange part is over when the client handler has the reply (keyCheckSync runs before
		// receive) and conn.start has put the server Session into the channel (after its key line)
		if !waitFor(patience, func() bool {
			return w.cm.VerifC06Count() > 0 && c2.VerifC06InChannel(ss) && c2.VerifC06InChannel(w.cli)
		}) {
			bad = "the exchange that starts the channel did not complete on both ends"
		}
		ev = append(ev, "RekeyRecv "+vh.Bytes(q), "ReplyRecv", "ChanStart")
	case "chan-end":
		if w.ce == nil {
			return
		}
		r.P, r.Q, p, q = nil, nil, nil, nil
		c2.VerifC06ChannelWanted(w.cli, false)
		w.ce.Close()
		// the client's channelWrite sits in pick() until its next keep-alive is due: wake it
		done := false
		for i := 0; i < 400 && !done; i++ {
			w.cli.Wake()
			select {
			case <-w.prof.asked:
				w.ready, done = true, true
			case <-w.loop.Done:
				i = 400
			case <-time.After(50 * time.Millisecond):
			}
		}
		if !done {
			bad = "the client did not leave the channel after its connection was closed"
		}
		select {
		case <-w.srvDone:
		case <-time.After(patience):
			bad = "the server's handle() did not return after the channel connection was closed"
		}
		w.ce, w.se, w.srvDone = nil, nil, nil
		ev = append(ev, "ChanEnd")
	case "chan-up":
		if w.ce == nil {
			return
		}
		r.Q, q = nil, nil
		d := &com.Packet{ID: idClientData, Device: w.id, Job: uint16(2 + rng.Intn(60000))}
		d.Write(p)
		c0 := w.sm.VerifC06Count()
		c2.VerifC06Queue(w.cli, d)
		// (the handler's record is the signal: a Packet reaches the connection in several writes, an
		// empty read buffer alone does not mean that the whole Packet has been processed)
		if !waitFor(patience, func() bool { return w.sm.VerifC06Count() > c0 }) {
			bad = "a Packet queued on the client inside a channel was not taken by the server's channel reader"
		}
		ev = append(ev, "ChanUp "+vh.Bytes(p))
	case "chan-down":
		if w.ce == nil || ss == nil {
			return
		}
		r.P, p = nil, nil
		d := &com.Packet{ID: idServerData, Device: w.id, Job: uint16(2 + rng.Intn(60000))}
		d.Write(q)
		c0 := w.cm.VerifC06Count()
		c2.VerifC06Queue(ss, d)
		if !waitFor(patience, func() bool { return w.cm.VerifC06Count() > c0 }) {
			bad = "a Packet queued on the server inside a channel was not taken by the client's channel reader"
		}
		ev = append(ev, "ChanDown "+vh.Bytes(q))
	case "chan-tick":
		// the client has nothing to send: 200 idle periods, each one wake of the real pickWait
		// (no re-key must ever come out of pick() here; if one does it is followed through the channel)
		if w.ce == nil || c2.VerifC06QueueLen(w.cli) > 0 {
			return
		}
		r.P, r.Q, p, q = nil, nil, nil, nil
		_, priv0, _, _ := c2.VerifC06Keys(w.cli)
		k := 0
		for i := 0; i < 200 && bad == "" && k == 0; i++ {
			prev := w.se.deliveredTo()
			got := false
			for j := 0; j < 100 && !got; j++ {
				w.cli.Wake() // a stale pickWait of an earlier pick() may swallow a wake: repeat
				got = waitFor(20*time.Millisecond, func() bool { return w.se.consumed(prev) })
			}
			if !got {
				bad = "a woken client inside a channel did not send its keep-alive"
			}
			if _, priv1, _, nx := c2.VerifC06Keys(w.cli); priv1 != priv0 || nx != nil {
				if nx != nil {
					priv1 = nx.Private
				}
				k = w.reg.id(priv1)
				w.chanRekeyed = true
			}
		}
		// let the last keep-alive (header and body are separate writes) be processed completely
		waitFor(patience, func() bool {
			a := w.se.deliveredTo()
			if !w.se.consumed(a - 1) {
				return false
			}
			time.Sleep(2 * time.Millisecond)
			return w.se.consumed(a-1) && w.se.deliveredTo() == a
		})
		if k == 0 {
			ticksWithoutRekey++
		}
		ev = append(ev, fmt.Sprintf("ChanTick %d", k))
	default:
		return
	}
	w.hist = append(w.hist, r)
	// ---- observation
	_, _, cshare, cnext := c2.VerifC06Keys(w.cli)
	var sshare data.SharedKeys
	if ss = c2.VerifC06ServerSession(w.l, w.id); ss != nil {
		_, _, sshare, _ = c2.VerifC06Keys(ss)
	}
	cg, cgi := w.cm.VerifC06Take()
	sg, sgi := w.sm.VerifC06Take()
	cgot, sgot := only(cg, cgi, idServerData), only(sg, sgi, idClientData)
	w.terms = append(w.terms, fmt.Sprintf("(%s, mkObs %s %s %s %s %s %s)", vh.List(ev), vh.Bytes(cshare[:]), vh.B(cnext != nil),
		vh.B(ss != nil), vh.Bytes(sshare[:]), byteList(cgot), byteList(sgot)))
	w.classes[r.Kind+"//"] = true
	// ---- oracle: inside a channel every payload arrives unchanged and no key changes
	key := w.taint
	if w.chanRekeyed {
		key = "rekey-during-channel"
	} else if key == "" {
		key = "channel:" + r.Kind
	}
	desc := map[string]interface{}{"history": w.hist, "finding_shape": w.taint, "rekey_drawn_inside_channel": w.chanRekeyed}
	if bad != "" {
		recordFail(bad, key, desc)
	}
	starts := r.Kind == "chan-start" || r.Kind == "chan-start-rekey"
	if (r.Kind == "chan-up" || starts) && len(p) > 0 && (len(sgot) != 1 || !bytes.Equal(sgot[0], p)) {
		recordFail("a payload sent by the client inside a channel (or on the exchange that starts it) did not arrive unchanged", key, desc)
	}
	if (r.Kind == "chan-down" || starts) && len(q) > 0 && (len(cgot) != 1 || !bytes.Equal(cgot[0], q)) {
		recordFail("a payload sent by the server inside a channel (or on the exchange that starts it) did not arrive unchanged", key, desc)
	}
	if w.chanRekeyed && r.Kind == "chan-tick" {
		recordFail("an idle tick of a client inside a channel drew a re-key (pick() reached keyNextSync while the channel was open)", key, desc)
	}
	if ss != nil && w.taint == "" && r.Kind != "chan-end" && (cshare != sshare || cnext != nil) {
		recordFail("inside a channel (or right after the exchange that starts it) the two Sessions do not hold one and the same key", key, desc)
	}
}

// rollWhileMoving: keyNextSync announced a new pair although Migrate has already marshalled the
// current keys for the new process.
func rollWhileMoving(w *world, r round) {
	recordFail("keyNextSync drew a new KeyPair while the Session is being migrated (its keys are already marshalled for the new process)",
		"rekey-drawn-while-moving", map[string]interface{}{"history": append(append([]round(nil), w.hist...), r)})
}

// rollWhilePending: the forced re-key roll produced an announcement although a pair was still
// pending (keyNextSync must refuse: the pending pair is the one the server may already be using).
func rollWhilePending(w *world, r round) {
	recordFail("keyNextSync drew a new KeyPair while one was still pending: the pending pair is overwritten before it was swapped or reverted",
		"rekey-drawn-while-pending", map[string]interface{}{"history": append(append([]round(nil), w.hist...), r), "finding_shape": w.taint})
}

// exchange executes one exchange on the real code and appends `(events, observation)` for the model.
func (w *world) exchange(r round) {
	var (
		ev        []string
		p, q      = toBytes(r.P), toBytes(r.Q)
		connect   = r.Kind == "connect"
		flush     = r.Kind == "flush"
		helloNext = !connect && !flush && w.cli != nil && c2.VerifC06QueueLen(w.cli) > 0 // a re-register hello is queued
	)
	if connect {
		if c2.VerifC06ServerSession(w.l, w.id) != nil {
			return // connect() to a server that still holds the session is not modelled
		}
		w.stopLoop()
		w.cli = c2.VerifC06Client(w.id, w.cm)
		w.consecFail = 0
		r.Fault, r.Forget = "", 0
	}
	if w.cli == nil {
		return
	}
	if r.Forget > 0 {
		c2.VerifC06Forget(w.l)
		if r.Forget == 2 {
			var k data.KeyPair
			k.Fill()
			c2.VerifC06SetServerKeys(w.l, k)
			w.srvIdx = w.reg.id(k.Private)
		}
		ev = append(ev, fmt.Sprintf("Forget %d", w.srvIdx))
	}
	regBefore := c2.VerifC06ServerSession(w.l, w.id) != nil
	_, _, shareBefore, nextBefore := c2.VerifC06Keys(w.cli)
	if !regBefore {
		q, r.Q = nil, nil
	}
	if r.Kind == "batch" && (!regBefore || len(p) == 0 || helloNext) {
		r.Kind = "data"
	}
	rekeyed := false
	switch {
	case connect, helloNext:
		p, r.P = nil, nil
		if helloNext {
			r.Kind = "hello"
		}
	case flush:
		// nothing is queued: session() picks the Packet that stayed behind the announcement
		ev = append(ev, fmt.Sprintf("DataSend %s", vh.Bytes(p)))
	case r.Kind == "rekey":
		p, r.P = nil, nil
		n, k := w.drawRekey(r.Short && regBefore)
		if n != nil {
			rekeyed = true
			c2.VerifC06Queue(w.cli, n)
		} else {
			c2.VerifC06Queue(w.cli, &com.Packet{Device: w.id})
		}
		if n == nil && nextBefore == nil {
			// keyNextSync refused although no pair is pending (the Session is moving): an empty Packet goes out
			ev = append(ev, "DataSend []")
		} else {
			ev = append(ev, fmt.Sprintf("RekeySend %d", k))
		}
		if n != nil && w.migrate != nil {
			rollWhileMoving(w, r)
		}
		if n != nil && nextBefore != nil {
			rollWhilePending(w, r)
		}
	case r.Kind == "batch":
		// the state the race in next() produces: pick() returned the announcement (the queue was
		// empty), a concurrent Session.Write queued a data Packet before next() looked at the queue
		n, k := w.drawRekey(false)
		if n != nil {
			rekeyed = true
			c2.VerifC06Queue(w.cli, n)
		}
		if n != nil && nextBefore != nil {
			rollWhilePending(w, r)
		}
		d := &com.Packet{ID: idClientData, Device: w.id, Job: uint16(2 + rng.Intn(60000))}
		d.Write(p)
		c2.VerifC06Queue(w.cli, d)
		if n == nil && nextBefore == nil {
			ev = append(ev, "DataSend "+vh.Bytes(p)) // refused while moving: only the data Packet is queued
		} else {
			ev = append(ev, fmt.Sprintf("BatchSend %d %s", k, vh.Bytes(p)))
		}
		if n != nil && w.migrate != nil {
			rollWhileMoving(w, r)
		}
	default:
		r.Kind = "data"
		d := &com.Packet{Device: w.id}
		if len(p) > 0 {
			d.ID, d.Job = idClientData, uint16(2+rng.Intn(60000))
			d.Write(p)
		}
		c2.VerifC06Queue(w.cli, d)
		ev = append(ev, fmt.Sprintf("DataSend %s", vh.Bytes(p)))
	}
	served := false
	if w.consecFail >= 5 {
		r.Fault = "" // listen() closes the Session after 6 consecutive failed exchanges
	}
	if r.Fault == "" {
		r.Err = ""
	} else if r.Err == "" {
		r.Err = "plain"
	}
	conn := &fconn{failWrite: r.Fault == "write", kind: r.Err}
	conn.onRead = func(req []byte) ([]byte, bool) {
		if r.Fault == "lost-before" {
			return nil, false
		}
		served = true
		if ss := c2.VerifC06ServerSession(w.l, w.id); ss != nil && len(q) > 0 {
			d := &com.Packet{ID: idServerData, Device: w.id, Job: uint16(2 + rng.Intn(60000))}
			d.Write(q)
			c2.VerifC06Queue(ss, d)
		}
		sc := &fconn{rbuf: append([]byte(nil), req...), triggered: true}
		c2.VerifC06Handle(w.l, sc)
		if r.Fault == "lost-after" {
			return nil, false
		}
		return sc.wbuf, true
	}
	ok := false
	pan := ""
	if connect {
		func() {
			defer func() {
				if x := recover(); x != nil {
					pan = fmt.Sprint(x)
				}
			}()
			ok = c2.VerifC06Hello(w.cli, conn) == nil
		}()
		if ok && pan == "" {
			// from here on every exchange runs inside the REAL (*Session).listen loop
			w.prof = &prof{conns: make(chan net.Conn), asked: make(chan struct{}, 1)}
			w.loop = c2.VerifC06Listen(w.cli, w.prof)
		}
	} else {
		if w.loop == nil {
			w.cli = nil
			return
		}
		dead := !w.hand(conn)
		if !dead {
			// the exchange is over when listen() comes round for the next connection: session() has
			// returned, the error branch has run, the connection is closed
			dead = !w.await()
		}
		pan = w.loop.VerifC06LoopPanic()
		if dead && pan == "" {
			recordFail("listen() returned in the middle of a history", "listen-ended", map[string]interface{}{"history": append(w.hist, r)})
			w.loop, w.prof, w.cli = nil, nil, nil
			return
		}
		ok = c2.VerifC06Errors(w.cli) == 0
		if ok {
			w.consecFail = 0
		} else {
			w.consecFail++
		}
	}
	w.hist = append(w.hist, r)
	if pan != "" {
		recordFail("panic in listen()/session()/handle(): "+pan, "history-panic", map[string]interface{}{"history": w.hist})
		w.cli, w.loop, w.prof = nil, nil, nil
		return
	}
	if r.Kind == "batch" && c2.VerifC06QueueLen(w.cli) > 0 {
		w.leftover = r.P // the data Packet was not merged with the announcement: it goes out next
		p = nil
	}
	// ---- events for the model
	_, cpriv, cshare, cnext := c2.VerifC06Keys(w.cli)
	if connect {
		ev = append(ev, fmt.Sprintf("Hello %d", w.reg.id(cpriv)))
	}
	if served {
		ev = append(ev, "RekeyRecv "+vh.Bytes(q))
	}
	switch {
	case r.Fault == "write":
		ev = append(ev, "WriteFail")
	case r.Fault == "lost-before", r.Fault == "lost-after":
		ev = append(ev, "ReplyLost")
	case connect || helloNext:
		ev = append(ev, "HelloReply")
	case !regBefore:
		ev = append(ev, fmt.Sprintf("Reregister %d", w.reg.id(cpriv)))
	default:
		ev = append(ev, "ReplyRecv")
	}
	// ---- observation
	ss := c2.VerifC06ServerSession(w.l, w.id)
	var sshare data.SharedKeys
	if ss != nil {
		_, _, sshare, _ = c2.VerifC06Keys(ss)
	}
	cg, cgi := w.cm.VerifC06Take()
	sg, sgi := w.sm.VerifC06Take()
	cgot, sgot := only(cg, cgi, idServerData), only(sg, sgi, idClientData)
	w.terms = append(w.terms, fmt.Sprintf("(%s, mkObs %s %s %s %s %s %s)", vh.List(ev), vh.Bytes(cshare[:]), vh.B(cnext != nil),
		vh.B(ss != nil), vh.Bytes(sshare[:]), byteList(cgot), byteList(sgot)))
	w.classes[r.Kind+"/"+r.Fault+"/"+r.Err] = true

	// ---- the shape of the history (which known finding, if any, it has entered)
	const (
		fA  = "rekey-reply-lost-after-server-processed"
		fA2 = "rekey-reply-lost-then-write-failed"
		fB  = "rekey-announcement-lost"
		fD  = "reregister-reply-lost"
	)
	pending := cnext != nil
	switch {
	case w.taint == fA && r.Fault == "write" && nextBefore != nil && !pending:
		// the announcement was processed, its reply lost, and before the client could swap a write
		// failed: keyCheckRevert discards the key the server is already using
		w.taint = fA2
	case w.taint == fB && r.Fault == "write" && nextBefore != nil && !pending && w.oldShare != nil && cshare == *w.oldShare:
		// the undelivered announcement was cancelled by a later failed write: nothing is left of it
		w.taint, w.oldShare = "", nil
	case (r.Kind == "rekey" || r.Kind == "batch") && rekeyed && r.Fault == "lost-after" && pending && (w.taint == "" || w.taint == fA):
		// (a shape is entered from agreement only: inside a permanent finding the history stays there)
		w.taint, w.sinceLoss = fA, 0
	case (r.Kind == "rekey" || r.Kind == "batch") && rekeyed && r.Fault == "lost-after" && regBefore && !pending && w.taint == "":
		// NOT the known behaviour: the write succeeded, the server swapped, only the reply was lost, and
		// the client has already discarded the announced key: it can never catch up
		w.taint, w.sinceLoss = "rekey-reply-lost-never-heals", 0
		recordFail("after a re-key whose reply was lost the client no longer holds the announced key (keysNext discarded although the write succeeded): it will never catch up with the server",
			w.taint, map[string]interface{}{"history": w.hist})
	case rekeyed && r.Fault == "lost-before" && pending && w.taint == "":
		w.taint, w.sinceLoss = fB, 0
		s := shareBefore
		w.oldShare = &s
	case r.Kind == "batch" && rekeyed && r.Fault == "" && w.leftover == nil:
		// only next() before its fix: the announcement travelled inside a Multi container
		w.taint = "rekey-merged-into-batch"
		s := shareBefore
		w.oldShare = &s
	case nextBefore != nil && pending && strings.HasPrefix(r.Fault, "lost") && w.taint == "":
		w.taint, w.sinceLoss = fA, 0
	case r.Kind == "hello" && r.Fault == "lost-after":
		w.taint = fD
	}
	// ---- oracle
	completed := ok && r.Fault == ""
	if r.Fault == "write" && rekeyed {
		if cnext != nil || cshare != shareBefore {
			// its own key whatever else happened in this history: the shape is "the write of the announcement failed with <kind>"
			recordFail("a failed write ("+r.Err+") of the re-key announcement did not leave the client on the old key with keysNext cleared",
				"rekey-write-failed-not-reverted:"+r.Err, map[string]interface{}{"history": w.hist, "error_kind": r.Err, "keys_next_pending": cnext != nil})
		}
	}
	if !completed {
		return
	}
	if (connect || helloNext) && ss != nil {
		w.taint, w.oldShare = "", nil // a completed handshake starts afresh
	}
	if ss == nil || c2.VerifC06QueueLen(w.cli) > 0 {
		return // not registered (re-registration in progress): nothing to compare
	}
	// The findings are narrow in OUTCOME as well as in shape.  What is known:
	//  fA : the FIRST completed exchange after the loss is garbled, at its end the client has swapped, both
	//       shares are equal, keysNext is nil; every later exchange is intact.  Anything else = fA-never-heals.
	//  fA2: permanent (the client discarded the key the server uses).
	//  fB : the first completed exchange after the loss is INTACT (both still on the old key), at its end the
	//       client has swapped and the server has not (server share = old share); permanent from then on.
	//  fD : permanent (client without the server key).
	w.sinceLoss++
	garbledKey, shareKey := w.taint, w.taint
	switch w.taint {
	case fA:
		shareKey = "rekey-reply-lost-never-heals"
		if w.sinceLoss > 1 {
			garbledKey = "rekey-reply-lost-never-heals"
		}
	case fB:
		if w.sinceLoss == 1 {
			garbledKey = "rekey-announcement-lost-first-exchange-garbled"
		}
		if w.oldShare != nil && sshare != *w.oldShare {
			w.failKey("after an undelivered re-key announcement the SERVER share changed", r.Kind, "rekey-announcement-lost-server-key-changed")
		}
	}
	if w.oldShare != nil && cshare != *w.oldShare {
		w.fail("a re-key whose announcement the server never processed did not leave the sender on the old key (client swapped, server did not)", r.Kind)
	}
	if regBefore && !helloNext && !connect {
		if len(p) > 0 && (len(sgot) != 1 || !bytes.Equal(sgot[0], p)) {
			w.failKey("the server handler did not see the payload the client sent (garbled exchange)", r.Kind, garbledKey)
		}
		if len(q) > 0 && (len(cgot) != 1 || !bytes.Equal(cgot[0], q)) {
			w.failKey("the client handler did not see the payload the server sent (garbled exchange)", r.Kind, garbledKey)
		}
	}
	if cshare != sshare || cnext != nil {
		w.failKey(fmt.Sprintf("client and server hold different shares (or keysNext is still pending: %v) after completed exchange number %d since the history entered its shape", cnext != nil, w.sinceLoss), r.Kind, shareKey)
		if w.taint == fA {
			w.taint = "rekey-reply-lost-never-heals"
		}
	} else if w.taint == fA {
		w.taint = "" // healed: both ends are on the new key again; from here on nothing may be garbled
	}
}

func runHistory(rounds []round, class string) {
	var sk data.KeyPair
	sk.Fill()
	w := &world{id: newID(), cm: new(c2.VerifC06Mux), sm: new(c2.VerifC06Mux), reg: &keyReg{idx: map[data.PrivateKey]int{}}, classes: map[string]bool{}}
	w.l = c2.VerifC06Listener(sk, w.sm)
	w.srvIdx = w.reg.id(sk.Private)
	for _, r := range rounds {
		w.do(r)
	}
	w.stopLoop()
	// ECDH table for every pair of keys seen (crypto/ecdh), both directions checked
	var tab []string
	for i := range w.reg.priv {
		for j := i + 1; j < len(w.reg.priv); j++ {
			a, e1 := ecdhBytes(w.reg.priv[i], w.reg.pub[j])
			b, e2 := ecdhBytes(w.reg.priv[j], w.reg.pub[i])
			if e1 != nil || e2 != nil {
				continue
			}
			if !bytes.Equal(a, b) {
				recordFail("crypto/ecdh: dh a (pub b) != dh b (pub a)", "ecdh-contract", nil)
			}
			lenHist[len(a)]++
			tab = append(tab, fmt.Sprintf("(%d,%d,%s)", i+1, j+1, vh.Bytes(a)))
		}
	}
	nontrivial := false
	for _, r := range w.hist {
		if r.Kind == "rekey" || r.Kind == "batch" || r.Kind == "hello" || strings.HasPrefix(r.Kind, "chan-") || strings.HasPrefix(r.Kind, "move-") {
			nontrivial = true
		}
	}
	term := fmt.Sprintf("CHist %s 0 %d %s", vh.List(tab), 1, vh.List(w.terms))
	out.Add(term, class, nontrivial, map[string]interface{}{"history": w.hist})
}

func rd(kind, fault string, p, q string) round {
	return round{Kind: kind, Fault: fault, P: ints([]byte(p)), Q: ints([]byte(q))}
}

func sr2() round {
	r := rd("rekey", "", "", "during-short-rekey")
	r.Short = true
	return r
}

func corpus() {
	c := rd("connect", "", "", "")
	// plain: handshake, traffic, re-keys, traffic
	runHistory([]round{c, rd("data", "", "secret-payload", "server-task"), rd("rekey", "", "", "reply-during-rekey"), rd("data", "", "after-rekey", "x"),
		rd("rekey", "", "", ""), rd("rekey", "", "", ""), rd("data", "", "after-3-rekeys", "y")}, "hist-corpus")
	// a failed write reverts
	runHistory([]round{c, rd("rekey", "write", "", ""), rd("data", "", "secret-payload", "server-task"), rd("rekey", "", "", ""), rd("data", "", "p2", "q2")}, "hist-corpus")
	// the write of the announcement fails with every KIND of error the code tells apart: each must revert
	// (two clean exchanges, a complete re-key and traffic follow: a kind that does not revert swaps
	// the client to a key the server never saw)
	for _, k := range errKinds {
		wf := rd("rekey", "write", "", "")
		wf.Err = k
		runHistory([]round{c, wf, rd("data", "", "after-failed-write", "a"), rd("data", "", "and-again", "b"), rd("rekey", "", "", ""), rd("data", "", "p", "q")}, "hist-write-fail-kinds")
		bf := rd("batch", "write", "queued-behind-failing-rekey", "")
		bf.Err = k
		df := rd("data", "write", "lost-with-the-write", "x")
		df.Err = k
		runHistory([]round{c, rd("data", "", "one", "1"), df, bf, rd("data", "", "two", "2"), rd("rekey", "", "", ""), rd("data", "", "three", "3")}, "hist-write-fail-kinds")
		// the read of an ordinary reply fails (no announcement pending): harmless for every kind
		lb := rd("data", "lost-before", "never-arrives", "")
		lb.Err = k
		la := rd("data", "lost-after", "arrives", "reply-lost")
		la.Err = k
		runHistory([]round{c, lb, rd("data", "", "one", "1"), la, rd("rekey", "", "", ""), rd("data", "", "two", "2")}, "hist-read-fail-kinds")
	}
	// KNOWN FINDING rekey-reply-lost-after-server-processed: the server processed the announcement, the reply was lost
	runHistory([]round{c, rd("data", "", "before", "b"), rd("rekey", "lost-after", "", ""), rd("data", "", "secret-payload", "server-task"), rd("data", "", "healed", "h"),
		rd("data", "", "healed-2", "h2"), rd("rekey", "", "", "h3"), rd("data", "", "healed-4", "h4")}, "hist-finding-reply-lost")
	// the re-key roll fires AGAIN while the pair of the lost reply is still pending (keyNextSync must refuse:
	// an empty Packet goes out, the exchange is the one garbled exchange, then healed), also twice in a row,
	// with a data Packet queued behind, after an undelivered announcement, after a failed write, after a clean round
	runHistory([]round{c, rd("data", "", "before", "b"), rd("rekey", "lost-after", "", ""), rd("rekey", "", "", "server-task"), rd("data", "", "healed", "h"),
		rd("rekey", "", "", "h2"), rd("data", "", "healed-3", "h3")}, "hist-finding-reply-lost-roll-again")
	runHistory([]round{c, rd("rekey", "lost-after", "", ""), rd("rekey", "lost-before", "", ""), rd("batch", "", "queued-behind-refused-roll", "q"), rd("data", "", "healed", "h"),
		rd("rekey", "", "", ""), rd("data", "", "p", "q")}, "hist-finding-reply-lost-roll-again")
	runHistory([]round{c, rd("rekey", "lost-before", "", ""), rd("rekey", "", "", "x"), rd("data", "", "desynced", "d")}, "hist-finding-announcement-lost-roll-again")
	runHistory([]round{c, rd("rekey", "write", "", ""), rd("rekey", "", "", "r"), rd("rekey", "", "", "r2"), rd("data", "", "p", "q"), rd("rekey", "", "", ""), rd("rekey", "", "", ""), rd("data", "", "p2", "q2")}, "hist-corpus")
	// KNOWN FINDING rekey-reply-lost-then-write-failed: ... and before the client could swap, a write fails: the revert discards the key the server already uses
	runHistory([]round{c, rd("data", "", "before", "b"), rd("rekey", "lost-after", "", ""), rd("data", "write", "never-sent", ""), rd("data", "", "secret-payload", "server-task"),
		rd("data", "", "still-garbled", "g"), rd("data", "", "for-good", "f")}, "hist-finding-reply-lost-then-write-failed")
	// KNOWN FINDING rekey-announcement-lost: the write succeeded locally, nothing arrived
	runHistory([]round{c, rd("rekey", "lost-before", "", ""), rd("data", "", "secret-payload", "server-task"), rd("data", "", "still-garbled", "g"),
		rd("rekey", "", "", ""), rd("data", "", "for-good", "f")}, "hist-finding-announcement-lost")
	for _, k := range errKinds[1:] {
		la := rd("rekey", "lost-after", "", "")
		la.Err = k
		runHistory([]round{c, la, rd("data", "", "secret-payload", "server-task"), rd("data", "", "healed", "h"), rd("data", "", "healed-2", "h2"), rd("data", "", "healed-3", "h3")}, "hist-finding-reply-lost-kinds")
		lb := rd("rekey", "lost-before", "", "")
		lb.Err = k
		runHistory([]round{c, lb, rd("data", "", "secret-payload", "server-task"), rd("data", "", "still-garbled", "g")}, "hist-finding-announcement-lost-kinds")
	}
	// FIXED rekey-merged-into-batch: a data Packet queued behind the announcement (the race in next());
	// the announcement now travels alone, the data Packet follows in the next exchange
	runHistory([]round{c, rd("batch", "", "queued-with-rekey", "q"), rd("data", "", "secret-payload", "server-task"),
		rd("batch", "write", "queued-with-failing-rekey", ""), rd("data", "", "p3", "q3"), rd("batch", "", "again", "z"), rd("batch", "", "and-again", "")}, "hist-corpus-queued-behind-rekey")
	// re-keys whose ECDH secret is shorter than the share (leading zero bytes): the tail of the previous share stays on both ends
	sr := rd("rekey", "", "", "during-short-rekey")
	sr.Short = true
	runHistory([]round{c, rd("data", "", "secret-payload", "server-task"), sr, rd("data", "", "after-short-rekey", "x"), rd("rekey", "", "", ""), rd("data", "", "p", "q")}, "hist-short-secret")
	runHistory([]round{c, sr, sr, rd("data", "", "after-two-short-rekeys", "x"), rd("rekey", "write", "", ""), sr, rd("data", "", "p", "q")}, "hist-short-secret")
	// channels: start, traffic both ways, idle ticks (must not draw a re-key), end, re-key after the channel, again
	ch := func(kind, p, q string) round {
		return round{Kind: "chan-" + kind, P: ints([]byte(p)), Q: ints([]byte(q))}
	}
	runHistory([]round{c, rd("data", "", "before-channel", "b"), ch("start", "", ""), ch("up", "up-1", ""), ch("down", "", "down-1"), ch("tick", "", ""),
		ch("up", "up-after-idle-ticks", ""), ch("down", "", "down-after-idle-ticks"), ch("end", "", ""), rd("rekey", "", "", "reply"), rd("data", "", "after-channel", "a"),
		ch("start", "", ""), ch("tick", "", ""), ch("up", "second-channel", ""), ch("tick", "", ""), ch("down", "", "second-channel-down"), rd("data", "", "channel-ended-by-exchange", "x")}, "hist-channel")
	// a channel opened BY the exchange that carries the re-key announcement (talk() copies the keys before it
	// applies the re-key: only conn.start moves the server's channel loops to the new key), twice, with idle ticks
	runHistory([]round{c, rd("data", "", "before", "b"), ch("start-rekey", "", "reply-on-the-rekey-exchange"), ch("up", "up-under-the-new-key", ""), ch("down", "", "down-under-the-new-key"),
		ch("tick", "", ""), ch("up", "again", ""), ch("end", "", ""), rd("data", "", "after", "a"), ch("start-rekey", "", "second"), ch("down", "", "d2"), ch("up", "u2", ""),
		rd("rekey", "", "", ""), rd("data", "", "p", "q")}, "hist-channel")
	// a channel right after a re-key (the connection's copy must be the NEW key), short secret, write failure before it
	runHistory([]round{c, rd("rekey", "", "", ""), ch("start", "", ""), ch("up", "fresh-key", ""), ch("down", "", "fresh-key-down"), ch("end", "", ""),
		sr2(), ch("start", "", ""), ch("down", "", "after-short-rekey"), ch("tick", "", ""), ch("up", "after-short-rekey-up", ""), ch("end", "", ""),
		rd("rekey", "write", "", ""), ch("start", "", ""), ch("up", "after-failed-rekey", ""), ch("down", "", "d"), ch("tick", "", ""), ch("up", "u", "")}, "hist-channel")
	// migration: the old process marshals the Session (keys included), keeps exchanging - the re-key roll fires
	// in the window and must be refused -, then the new process takes over with what it was given and goes on
	mvs, mvt := round{Kind: "move-start"}, round{Kind: "move-take"}
	runHistory([]round{c, rd("rekey", "", "", "r"), rd("data", "", "before-migrate", "b"), mvs, rd("rekey", "", "", "roll-while-moving"), rd("data", "", "while-moving", "m"),
		rd("batch", "", "queued-while-moving", "x"), rd("rekey", "", "", ""), mvt, rd("data", "", "new-process", "n"), rd("rekey", "", "", "rk"), rd("data", "", "after", "a")}, "hist-migrate")
	runHistory([]round{c, mvs, rd("rekey", "write", "", ""), rd("rekey", "lost-before", "", ""), rd("rekey", "", "", "q"), mvt, rd("rekey", "", "", ""), rd("data", "", "p", "q"),
		mvs, mvt, rd("data", "", "p2", "q2")}, "hist-migrate")
	// re-registration: the server forgets, the client is told to register again
	f := rd("data", "", "lost-on-the-floor", "")
	f.Forget = 1
	runHistory([]round{c, rd("rekey", "", "", ""), f, rd("data", "", "", ""), rd("data", "", "after-reregister", "t"), rd("rekey", "", "", ""), rd("data", "", "p", "q")}, "hist-corpus")
	f2 := f
	f2.Forget = 2
	runHistory([]round{c, f2, rd("data", "", "", ""), rd("data", "", "new-server-key", "t"), rd("rekey", "", "", ""), rd("data", "", "p", "q")}, "hist-corpus")
	// KNOWN FINDING reregister-reply-lost: SvComplete with the server key never reaches the client
	runHistory([]round{c, f, rd("data", "lost-after", "", ""), rd("data", "", "secret-payload", "server-task"), rd("rekey", "", "", ""), rd("data", "", "p", "q")}, "hist-finding-reregister-lost")
}

func randPayload() []int {
	switch rng.Intn(5) {
	case 0:
		return nil
	case 1:
		return ints(rng.Bytes(1 + rng.Intn(4)))
	case 2:
		return ints(rng.Bytes(64 + rng.Intn(4)))
	default:
		return ints(rng.Bytes(1 + rng.Intn(140)))
	}
}

func randHistory(maxLen int, faults bool) []round {
	n := 2 + rng.Intn(maxLen)
	rs := []round{{Kind: "connect"}}
	for i := 0; i < n; i++ {
		r := round{P: randPayload(), Q: randPayload()}
		switch rng.Intn(10) {
		case 0, 1, 2, 3:
			r.Kind = "rekey"
		case 4:
			if faults {
				r.Kind = "batch"
			} else {
				r.Kind = "rekey"
			}
		default:
			r.Kind = "data"
		}
		if rng.Intn(4) == 0 {
			r.Fault = "write"
		}
		if faults && rng.Intn(4) == 0 {
			r.Fault = []string{"lost-before", "lost-after"}[rng.Intn(2)]
		}
		if r.Fault != "" {
			r.Err = errKinds[rng.Intn(len(errKinds))]
		}
		if rng.Intn(12) == 0 {
			r.Forget = 1 + rng.Intn(2)
		}
		rs = append(rs, r)
		if rng.Intn(12) == 0 {
			rs = append(rs, round{Kind: "move-start"})
			for j := rng.Intn(4); j > 0; j-- {
				k := "data"
				if rng.Intn(2) == 0 {
					k = "rekey"
				}
				rs = append(rs, round{Kind: k, P: randPayload(), Q: randPayload()})
			}
			rs = append(rs, round{Kind: "move-take"})
		}
		if rng.Intn(6) == 0 {
			// a channel segment
			if rng.Intn(3) == 0 {
				rs = append(rs, round{Kind: "chan-start-rekey", Q: randPayload()})
			} else {
				rs = append(rs, round{Kind: "chan-start", P: randPayload(), Q: randPayload()})
			}
			for j := 1 + rng.Intn(5); j > 0; j-- {
				switch rng.Intn(5) {
				case 0:
					rs = append(rs, round{Kind: "chan-tick"})
				case 1, 2:
					rs = append(rs, round{Kind: "chan-up", P: randPayload()})
				default:
					rs = append(rs, round{Kind: "chan-down", Q: randPayload()})
				}
			}
			if rng.Intn(2) == 0 {
				rs = append(rs, round{Kind: "chan-end"})
			}
		}
	}
	return rs
}

func genHistories(thorough bool) {
	corpus()
	nClean, nFault := 40, 30
	if thorough {
		nClean, nFault = 800, 500
	}
	for i := 0; i < nClean; i++ {
		runHistory(randHistory(8, false), "hist-random-lossless")
	}
	for i := 0; i < nFault; i++ {
		runHistory(randHistory(8, true), "hist-random-faults")
	}
}

// ---------------------------------------------------------------- 4. pick(): when may a re-key be drawn

// genPick calls the real pick() in each of the 16 situations (queue empty or not, client or server
// Session, channel open or not, i) and emits what comes out as a CPick case.
func genPick(reps int) {
	var sk data.KeyPair
	sk.Fill()
	w := &world{id: newID(), cm: new(c2.VerifC06Mux), sm: new(c2.VerifC06Mux), reg: &keyReg{idx: map[data.PrivateKey]int{}}, classes: map[string]bool{}}
	w.l = c2.VerifC06Listener(sk, w.sm)
	w.srvIdx = w.reg.id(sk.Private)
	w.do(round{Kind: "connect"})
	ss := c2.VerifC06ServerSession(w.l, w.id)
	if w.cli == nil || ss == nil {
		recordFail("pick cases: the handshake did not complete", "pick-setup", nil)
		w.stopLoop()
		return
	}
	for rep := 0; rep < reps; rep++ {
		for m := 0; m < 16; m++ {
			queued, client, channel, i := m&1 != 0, m&2 != 0, m&4 != 0, m&8 != 0
			s := ss
			if client {
				s = w.cli
			}
			got, pan := -1, ""
			func() {
				defer func() {
					if x := recover(); x != nil {
						pan = fmt.Sprint(x)
					}
				}()
				got = c2.VerifC06PickObs(s, queued, channel, i, 3000)
			}()
			desc := map[string]interface{}{"fn": "(*Session).pick", "queued": queued, "client": client, "channel": channel, "i": i, "observed": got}
			if pan != "" {
				recordFail("pick() panicked: "+pan, "pick-panic", desc)
				continue
			}
			out.Add(fmt.Sprintf("CPick %s %s %s %s %d", vh.B(queued), vh.B(client), vh.B(channel), vh.B(i), got), "pick", !queued, desc)
			if client && channel && got == 2 {
				recordFail("pick() drew a re-key announcement for a client inside a channel", "pick-draws-rekey-in-channel", desc)
			}
		}
	}
	// keyNextSync's guard, roll forced, in its 8 situations
	for m := 0; m < 8; m++ {
		client, pending, moving := m&1 != 0, m&2 != 0, m&4 != 0
		s := ss
		if client {
			s = w.cli
		}
		drew := c2.VerifC06RollObs(s, pending, moving, 3000)
		desc := map[string]interface{}{"fn": "(*Session).keyNextSync", "client": client, "pending": pending, "moving": moving, "drew": drew}
		out.Add(fmt.Sprintf("CRoll %s %s %s %s", vh.B(client), vh.B(pending), vh.B(moving), vh.B(drew)), "roll", true, desc)
		if drew && (moving || pending || !client) {
			recordFail("keyNextSync announced a new pair although it must refuse (server Session, pair pending, or Session moving)", "rekey-roll-not-refused", desc)
		}
	}
	w.stopLoop()
}

// ---------------------------------------------------------------- 6. a fresh Server, keys NOT pre-filled

// genFreshServer: a REAL c2.Server whose Keys are left empty, a real Listener on TCP loopback, and a
// client that says hello the moment Listen returns (the registration handshake of the bare client
// Session over a real connection).  Nothing fills Server.Keys but the server itself; both ends'
// shares are compared with each other and, through a CHist case, with the model fed the server key
// the Server ended up with.
func genFreshServer(n int) {
	bad := 0
	for it := 0; it < n; it++ {
		srv := c2.NewServer(nil)
		restored := it%8 == 7
		if restored {
			// a Server whose key pair was saved as text and restored with Parse: the private key is
			// chosen to hold one of the bytes 0x10, 0x0F, 0x00, 0x11, 0xA0 (a generated key has each
			// with probability about 0.23)
			want := []byte{0x10, 0x0F, 0x00, 0x11, 0xA0}[(it/8)%5]
			var k data.KeyPair
			for j := 0; j < 200; j++ {
				if k.Fill(); bytes.IndexByte(k.Private[:], want) >= 0 {
					break
				}
			}
			ps, bs := k.Private.String(), k.Public.String()
			e1, e2 := srv.Keys.Private.Parse(ps), srv.Keys.Public.Parse(bs)
			if e1 != nil || e2 != nil {
				recordFail("the text form of a generated key pair does not parse", "key-text-roundtrip:private", map[string]interface{}{"private_text": ps, "public_text": bs})
			}
		}
		l, err := srv.Listen("c06", "127.0.0.1:0", cfg.Static{L: com.TCP})
		if err != nil {
			recordFail("fresh server: Listen failed: "+err.Error(), "fresh-server-setup", nil)
			return
		}
		id := newID()
		cli := c2.VerifC06Client(id, new(c2.VerifC06Mux))
		var herr error
		conn, err := net.DialTimeout("tcp", l.Address(), 5*time.Second)
		if err == nil {
			conn.SetDeadline(time.Now().Add(10 * time.Second))
			herr = c2.VerifC06Hello(cli, conn)
			conn.Close()
		} else {
			herr = err
		}
		var (
			ss     *c2.Session
			sshare data.SharedKeys
		)
		for k := 0; k < 2000 && ss == nil; k++ {
			if ss = srv.Session(id); ss == nil && herr == nil {
				time.Sleep(time.Millisecond)
			} else if herr != nil {
				break
			}
		}
		_, cpriv, cshare, _ := c2.VerifC06Keys(cli)
		if ss != nil {
			_, _, sshare, _ = c2.VerifC06Keys(ss)
		}
		skeys := srv.Keys
		d := make(chan struct{})
		go func() { srv.Close(); close(d) }()
		select {
		case <-d:
		case <-time.After(5 * time.Second):
		}
		desc := map[string]interface{}{"scenario": "fresh c2.Server (Keys not set by the caller); Listen; the client says hello at once", "iteration": it,
			"hello_error": fmt.Sprint(herr), "registered": ss != nil, "client_share": ints(cshare[:]), "server_share": ints(sshare[:]), "server_private_at_the_end": ints(skeys.Private[:])}
		out.Count("fresh-server", fmt.Sprint(it), true)
		if herr != nil || ss == nil || cshare != sshare || !ss.VerifC06Synced() {
			bad++
			if restored {
				desc["scenario"] = "c2.Server whose Keys were restored with Parse from the String forms of a generated pair; Listen; hello"
				recordFail("right after the registration handshake with a Server whose key pair was restored from its text form the two ends do not hold the same shared secret",
					"handshake-server-keys-restored-from-text", desc)
				continue
			}
			recordFail("right after the registration handshake with a fresh Server the two ends do not hold the same shared secret (the hello was handled before the Server had generated its key pair)",
				"handshake-server-keys-not-ready", desc)
			continue
		}
		// the model on the same handshake
		reg := &keyReg{idx: map[data.PrivateKey]int{}}
		si, ci := reg.id(skeys.Private), reg.id(cpriv)
		x, e1 := ecdhBytes(cpriv, skeys.Public)
		if e1 != nil {
			continue
		}
		term := fmt.Sprintf("CHist [(%d,%d,%s)] 0 %d [([Hello %d; RekeyRecv []; HelloReply], mkObs %s false true %s [] [])]", si, ci, vh.Bytes(x), si, ci, vh.Bytes(cshare[:]), vh.Bytes(sshare[:]))
		out.Add(term, "hist-fresh-server", true, desc)
	}
	out.Extra("fresh_server_handshakes", n)
	out.Extra("fresh_server_handshakes_disagreeing", bad)
}

// ---------------------------------------------------------------- 7. the persisted forms of a key

func hexVal(c byte) int {
	switch {
	case c >= '0' && c <= '9':
		return int(c - '0')
	case c >= 'a' && c <= 'f':
		return int(c-'a') + 10
	case c >= 'A' && c <= 'F':
		return int(c-'A') + 10
	}
	return -1
}

// digitsOf turns "AB:0C:..." into the Coq list of digit pairs; "" if the text is not of that shape.
func digitsOf(text string, n int) string {
	if len(text) != n*3-1 {
		return ""
	}
	items := make([]string, 0, n)
	for i := 0; i < len(text); i += 3 {
		h, l := hexVal(text[i]), hexVal(text[i+1])
		if h < 0 || l < 0 || (i+2 < len(text) && text[i+2] != ':') {
			return ""
		}
		items = append(items, fmt.Sprintf("(%d,%d)", h, l))
	}
	return vh.List(items)
}

var textChecks int

// textRoundTrip: every persisted form the package offers must give back exactly the key bytes:
// PublicKey/PrivateKey String -> Parse, KeyPair Marshal -> Unmarshal (public, private, share),
// KeyPair Write -> Read (public only).  emit: also compare String() with the model (CHex).
func textRoundTrip(k data.KeyPair, class string, emit bool) {
	textChecks++
	desc := map[string]interface{}{"fn": "PrivateKey/PublicKey String+Parse, KeyPair Marshal+Unmarshal, Write+Read", "private": ints(k.Private[:]), "public": ints(k.Public[:])}
	func() {
		defer func() {
			if x := recover(); x != nil {
				recordFail("a persisted form of a key panicked: "+fmt.Sprint(x), "key-text-panic", desc)
			}
		}()
		var (
			pv     data.PrivateKey
			pb     data.PublicKey
			ps, bs = k.Private.String(), k.Public.String()
		)
		if err := pv.Parse(ps); err != nil || pv != k.Private {
			desc["private_text"] = ps
			recordFail("PrivateKey.String followed by Parse does not give back the private key", "key-text-roundtrip:private", desc)
		}
		if err := pb.Parse(bs); err != nil || pb != k.Public {
			desc["public_text"] = bs
			recordFail("PublicKey.String followed by Parse does not give back the public key", "key-text-roundtrip:public", desc)
		}
		var (
			c  data.Chunk
			k2 data.KeyPair
			k3 data.KeyPair
		)
		if err := k.Marshal(&c); err != nil {
			recordFail("KeyPair.Marshal failed: "+err.Error(), "key-text-roundtrip:marshal", desc)
		} else if err = k2.Unmarshal(&c); err != nil || k2.Public != k.Public || k2.Private != k.Private || k2.Shared() != k.Shared() {
			recordFail("KeyPair.Marshal followed by Unmarshal does not give back the pair", "key-text-roundtrip:marshal", desc)
		}
		var c2k data.Chunk
		if err := k.Write(&c2k); err != nil {
			recordFail("KeyPair.Write failed: "+err.Error(), "key-text-roundtrip:write", desc)
		} else if err = k3.Read(&c2k); err != nil || k3.Public != k.Public {
			recordFail("KeyPair.Write followed by Read does not give back the public key", "key-text-roundtrip:write", desc)
		}
		if emit {
			if d := digitsOf(ps, len(k.Private)); d != "" {
				out.Add(fmt.Sprintf("CHex %s %s", vh.Bytes(k.Private[:]), d), class+"-private", true, desc)
			} else {
				recordFail("PrivateKey.String is not colon separated hex of the right length", "key-text-shape", desc)
			}
			if d := digitsOf(bs, len(k.Public)); d != "" {
				out.Add(fmt.Sprintf("CHex %s %s", vh.Bytes(k.Public[:]), d), class+"-public", true, desc)
			} else {
				recordFail("PublicKey.String is not colon separated hex of the right length", "key-text-shape", desc)
			}
		} else {
			out.Count(class, fmt.Sprint(textChecks), true)
		}
	}()
}

// genKeyText: generated pairs, and private keys crafted to hold each byte value 0x00..0xFF at the
// first, a middle and the last position (the public half is then arbitrary bytes: the text form does
// not care); plus pairs with a synced share for Marshal.
func genKeyText(nGen int) {
	for i := 0; i < nGen; i++ {
		var k data.KeyPair
		k.Fill()
		if i%2 == 0 {
			var sh data.SharedKeys
			copy(sh[:], rng.Bytes(65))
			data.VerifC06SetShare(&k, sh)
		}
		textRoundTrip(k, "key-text-generated", i < 40)
	}
	for v := 0; v < 256; v++ {
		for pi, pos := range []int{0, 33, 65} {
			var k data.KeyPair
			copy(k.Private[:], rng.Bytes(len(k.Private)))
			copy(k.Public[:], rng.Bytes(len(k.Public)))
			k.Private[pos] = byte(v)
			k.Public[(pos*2)%len(k.Public)] = byte(v)
			textRoundTrip(k, "key-text-crafted", pi == v%3)
		}
	}
	out.Extra("key_text_round_trips", textChecks)
}

func main() {
	fl := vh.ParseFlags()
	out = vh.NewOut("C06", fl, "From XMT Require Import Base.Prelude Model.Keys.", "case", "check",
		"XorOp/KeyCrypt on buffers of length 0..300 (grid around 65/130/195) with shares and keys of length 0..69; real P-521 pairs through "+
			"Fill/FillPublic/FillPrivate/Sync/fillShared on both roles from zero, patterned and random previous shares, incl. forced short secrets; "+
			"histories (connect, data, re-key, re-key with a data Packet queued behind it, re-keys redrawn until the ECDH secret is short, write fault, reply lost "+
			"before/after the server, server forgets/restarts, channels with traffic both ways and idle ticks) through the real session()/handle()/pick() and the channel loop bodies; "+
			"pick() in its 16 situations; "+
			"distinct = distinct Coq case term; non-trivial = non-empty buffer and key / any pair / a history with a re-key or re-registration")
	out.ShardSize = 40
	rng = vh.NewRand(fl.Seed)
	thorough := fl.Tier == "thorough"
	np, nf := 2, 40
	if thorough {
		np, nf = 20, 300
	}
	genFreshServer(nf)
	nk := 120
	if thorough {
		nk = 2000
	}
	genKeyText(nk)
	genPick(np)
	t0 := time.Now()
	genHistories(thorough)
	t1 := time.Now()
	genPairs(thorough)
	t2 := time.Now()
	genXor(thorough)
	out.Extra("channel_idle_tick_rounds_without_rekey", ticksWithoutRekey)
	out.Extra("ecdh_x_length_histogram", lenHist)
	out.Extra("pairs", pairCount)
	out.Extra("oracle_failures_per_key", failCount)
	out.Extra("short_secrets_forced_inside_histories", shortInHistory)
	out.Extra("seconds_histories_pairs_xor", []float64{t1.Sub(t0).Seconds(), t2.Sub(t1).Seconds(), time.Since(t2).Seconds()})
	out.Finish()
}
