// C02 harness: fragmentation by the real (*Session).write / queue and reassembly by the real
// receive / cluster.add / cluster.done / markSweepFrags, against the Gallina model
// (coq/Model/Frag.v, cases_*.v) and against the property itself (Go-side oracle: every packet
// whose fragments all arrive is handed to the mux exactly once with the original ID, Job and
// payload; a group with a missing fragment delivers nothing; a completed group leaves no cluster).
//
// Built with -tags verif,tiny (limits.Frag = 262144).  Sessions are bare (no network): the shim
// harness/overlay/c2--c02.go constructs them and reaches the unexported functions.  Every
// fragment travels through com.Packet.Marshal / Unmarshal between the two Sessions, as on a wire.
package main

import (
	"bytes"
	"context"
	"encoding/json"
	"errors"
	"fmt"
	"io"
	"net"
	"os"
	"runtime/debug"
	"strings"
	"sync"
	"time"

	"github.com/iDigitalFlame/xmt/c2"
	"github.com/iDigitalFlame/xmt/c2/cfg"
	"github.com/iDigitalFlame/xmt/com"
	"github.com/iDigitalFlame/xmt/com/limits"
	"github.com/iDigitalFlame/xmt/data"
	"github.com/iDigitalFlame/xmt/device"
	"github.com/iDigitalFlame/xmt/device/local"

	"verifharness/vh"
)

var out *vh.Out

const F = limits.Frag

const fragMaxMisses = 5 // c2.fragMaxMisses (only used to CLASSIFY a history, never for a verdict on its own)

var idA, idB device.ID // the client's id and the server's own id: DISTINCT

func devNum(d device.ID) int64 {
	switch {
	case d.Empty():
		return 0
	case d == idA:
		return 1
	case d == idB:
		return 2
	}
	return 99
}

// ---------------------------------------------------------------- payloads

// pattern payload: byte i = (seed + i) mod 251 (Model.Frag.gen)
func genPayload(seed, n int) []byte {
	b := make([]byte, n)
	s := seed % 251
	for i := range b {
		b[i] = byte(s)
		if s++; s == 251 {
			s = 0
		}
	}
	return b
}

// rle relative to the successor function nxt (Model.Frag.rle): lossless description of b
func rle(b []byte) [][2]int64 {
	if len(b) == 0 {
		return nil
	}
	var r [][2]int64
	start, cnt, prev := int64(b[0]), int64(1), int(b[0])
	for _, y := range b[1:] {
		nx := prev + 1
		if prev == 250 {
			nx = 0
		}
		if int(y) == nx {
			cnt++
		} else {
			r = append(r, [2]int64{start, cnt})
			start, cnt = int64(y), 1
		}
		prev = int(y)
	}
	return append(r, [2]int64{start, cnt})
}

func coqRuns(r [][2]int64) string {
	it := make([]string, len(r))
	for i, x := range r {
		it[i] = fmt.Sprintf("(%d,%d)", x[0], x[1])
	}
	return vh.List(it)
}

// ---------------------------------------------------------------- specs (JSON: replayable)

type SendSpec struct {
	ID       int  `json:"id"`
	Job      int  `json:"job"`
	DevEmpty bool `json:"dev_empty"` // leave Packet.Device empty (queue stamps local.UUID)
	Bits     int  `json:"bits"`      // low 16 flag bits of the original
	Tags     int  `json:"tags"`
	Seed     int  `json:"seed"`
	Len      int  `json:"len"`
	Wait     bool `json:"wait"`      // first argument of write
	Prefill  int  `json:"prefill"`   // packets already waiting in the send channel
	Random   bool `json:"random"`    // random payload bytes (oracle only, no model case)
	FixGroup bool `json:"fix_group"` // the history chooses the group id (otherwise: the real random draw of write)
	Group    int  `json:"group"`     // the group id the draw is to return when fix_group is set
}

// WakeSpec is one pass of the client's REAL listen loop: "refused" (Connect fails), "lost" (connected,
// the exchange fails before a packet is read) or "frag" (the exchange brings fragment K of send S);
// Sw is what Profile.Switch returns in that pass.
type WakeSpec struct {
	Kind string `json:"kind"`
	Sw   bool   `json:"sw"`
	S    int    `json:"s"`
	K    int    `json:"k"`
}

type HistSpec struct {
	Class     string     `json:"class"`
	Dir       string     `json:"dir"` // "c2s" or "s2c"
	Sends     []SendSpec `json:"sends"`
	Order     string     `json:"order"` // identity | rev-after-first | perm0 | reversed | anyperm
	OrderSeed uint64     `json:"order_seed"`
	Omit      int        `json:"omit"`       // index of the fragment of send 0 that never arrives (-1: none)
	SweepsEnd int        `json:"sweeps_end"` // wake-ups after the last arrival
	SweepsMid int        `json:"sweeps_mid"` // up to this many wake-ups before an arrival: 1 = the protocol's cadence (a client wakes up once per exchange and every exchange with a backlogged server brings at least one packet); 2..4 = a STALLED sender
	Sched     [][2]int   `json:"sched"`      // explicit arrival schedule [send, fragment] ([-1,0] = wake-up); overrides Order/SweepsMid
	NoModel   bool       `json:"no_model"`   // too large for a model case: oracle only
	Hop       [][3]int   `json:"hop"`        // [send, fragment, bits]: low flag bits a hop ORs onto that fragment before it arrives (FlagChannel, FlagChannelEnd, FlagProxy)
	Pack      [][2]int   `json:"pack"`       // [start, count]: the arrivals at schedule positions start..start+count-1 (fragments) come in ONE Multi container built by the real writeUnpack
	Wakes     []WakeSpec `json:"wakes"`      // non-empty: the receiver is a client whose real listen loop is run through these passes (overrides Sched/Order)
}

// ---------------------------------------------------------------- observation

type obsPkt struct {
	id, job, dev              int64
	flen, fpos, fgroup, fbits int64
	tags                      int64
	runs                      [][2]int64
	n                         int
}

func observe(p *com.Packet) obsPkt {
	b := p.Payload()
	return obsPkt{id: int64(p.ID), job: int64(p.Job), dev: devNum(p.Device), flen: int64(p.Flags.Len()),
		fpos: int64(p.Flags.Position()), fgroup: int64(p.Flags.Group()), fbits: int64(uint16(p.Flags)),
		tags: int64(len(p.Tags)), runs: rle(b), n: len(b)}
}
func (o obsPkt) coq() string {
	return fmt.Sprintf("((%d,%d,%d),(%d,%d,%d,%d),%d,%s)", o.id, o.job, o.dev, o.flen, o.fpos, o.fgroup, o.fbits, o.tags, coqRuns(o.runs))
}
func (o obsPkt) desc() map[string]interface{} {
	return map[string]interface{}{"id": o.id, "job": o.job, "dev": o.dev, "len": o.flen, "pos": o.fpos, "group": o.fgroup,
		"bits": o.fbits, "tags": o.tags, "payload_len": o.n}
}

func errCode(err error) int64 {
	switch {
	case err == nil:
		return 0
	case err == c2.ErrFullBuffer:
		return 76
	case err == c2.ErrInvalidPacketCount:
		return 77
	case strings.Contains(err.Error(), "does not match our own device ID"):
		return 87
	case strings.Contains(err.Error(), "packet ID does not match the supplied ID"):
		return 82
	}
	return 99
}

// transport: the bytes of Marshal read back by Unmarshal
func transport(p *com.Packet) *com.Packet {
	q, _ := transportWire(p)
	return q
}

func transportWire(p *com.Packet) (*com.Packet, []byte) {
	var b bytes.Buffer
	id, job, fl, dev, pay := p.ID, p.Job, p.Flags, p.Device, append([]byte(nil), p.Payload()...)
	if err := p.Marshal(&b); err != nil {
		panic("marshal: " + err.Error())
	}
	wire := append([]byte(nil), b.Bytes()...)
	q := new(com.Packet)
	if err := q.Unmarshal(&b); err != nil {
		panic("unmarshal: " + err.Error())
	}
	if q.ID != id || q.Job != job || q.Flags != fl || q.Device != dev || !bytes.Equal(q.Payload(), pay) || b.Len() != 0 {
		panic("transport changed a packet (property C01)")
	}
	return q, wire
}

// ---- the Profile and connections that script the real listen loop

var errRefused = errors.New("verif: connection refused")

type lstep struct {
	kind string
	sw   bool
	wire []byte
}

// lprof: every pass of listen() calls Switch, then Connect.  Switch parks the loop until the harness
// hands over the next pass (so the harness reads the Session only while the loop is parked).
type lprof struct {
	arrived chan struct{}
	steps   chan *lstep
	cur     *lstep
	fin     bool
	v       *c2.VerifC02Session
}

func (*lprof) Jitter() int8                               { return 0 }
func (*lprof) Sleep() time.Duration                       { return 0 }
func (*lprof) WorkHours() *cfg.WorkHours                  { return nil }
func (*lprof) KillDate() (time.Time, bool)                { return time.Time{}, false }
func (*lprof) TrustedKey(data.PublicKey) bool             { return true }
func (*lprof) Next() (string, cfg.Wrapper, cfg.Transform) { return "", nil, nil }
func (*lprof) Listen(context.Context, string) (net.Listener, error) {
	return nil, errRefused
}
func (p *lprof) Switch(bool) bool {
	if p.fin {
		return false
	}
	p.arrived <- struct{}{}
	st, ok := <-p.steps
	if !ok { // the history is over: only refusals from here on, listen() leaves by "too many errors"
		p.fin, p.cur = true, nil
		return false
	}
	p.cur = st
	return st.sw
}
func (p *lprof) Connect(context.Context, string) (net.Conn, error) {
	st := p.cur
	if st == nil || st.kind == "refused" {
		return nil, errRefused
	}
	p.v.QueueFiller()
	return &lconn{rbuf: st.wire, fail: st.kind == "lost"}, nil
}

type laddr struct{}

func (laddr) Network() string { return "verif" }
func (laddr) String() string  { return "verif" }

// lconn: what the client writes is discarded; it reads the server's answer (one marshalled packet) or fails
type lconn struct {
	rbuf []byte
	fail bool
}

func (*lconn) Write(b []byte) (int, error) { return len(b), nil }
func (c *lconn) Read(b []byte) (int, error) {
	if c.fail {
		return 0, io.ErrUnexpectedEOF
	}
	if len(c.rbuf) == 0 {
		return 0, io.EOF
	}
	n := copy(b, c.rbuf)
	c.rbuf = c.rbuf[n:]
	return n, nil
}
func (*lconn) Close() error                     { return nil }
func (*lconn) LocalAddr() net.Addr              { return laddr{} }
func (*lconn) RemoteAddr() net.Addr             { return laddr{} }
func (*lconn) SetDeadline(time.Time) error      { return nil }
func (*lconn) SetReadDeadline(time.Time) error  { return nil }
func (*lconn) SetWriteDeadline(time.Time) error { return nil }

type sent struct {
	spec    SendSpec
	payload []byte
	err     error
	perr    bool // write panicked
	frs     []*com.Packet
	wire    [][]byte // the marshalled fragments
	obs     []obsPkt
	group   int64
	frag    bool // write produced fragments (FlagFrag set)
}

type item struct{ s, k int } // s < 0: sweep

// ---------------------------------------------------------------- one history

// runToken: a scenario that the watchdog gave up on must not report anything later
type runToken struct {
	mu        sync.Mutex
	abandoned bool
}

// safeRun runs one scenario in its own goroutine under recover() and a watchdog: a panic or a stall of the
// code under test becomes an oracle failure whose replay is the scenario (sizes, arrival order, wake-ups,
// seed), and the run goes on with the next scenario.
func safeRun(h HistSpec) {
	tok := &runToken{}
	done := make(chan string, 1)
	go func() {
		defer func() {
			if x := recover(); x != nil {
				done <- fmt.Sprintf("%v\n%s", x, debug.Stack())
				return
			}
			done <- ""
		}()
		runHistory(h, tok)
	}()
	limit := 120 * time.Second
	if h.NoModel {
		limit = 300 * time.Second
	}
	select {
	case p := <-done:
		if p != "" {
			if len(p) > 1500 {
				p = p[:1500]
			}
			out.Fail("panic while running the scenario: "+strings.SplitN(p, "\n", 2)[0], "scenario-panic", map[string]interface{}{"history": h, "F": F, "panic": p})
		}
	case <-time.After(limit):
		tok.mu.Lock()
		tok.abandoned = true
		tok.mu.Unlock()
		out.Fail(fmt.Sprintf("the scenario did not finish within %s", limit), "scenario-stalled", map[string]interface{}{"history": h, "F": F})
	}
}

func runHistory(h HistSpec, tok *runToken) {
	rng := vh.NewRand(h.OrderSeed)
	c2s := h.Dir == "c2s"
	snd := c2.VerifC02NewSession(idA, !c2s)
	listenMode := len(h.Wakes) > 0
	rcv := c2.VerifC02NewSession(idA, c2s)
	if listenMode {
		rcv = c2.VerifC02NewClient(idA)
	}
	if c2s {
		local.UUID = idA
	} else {
		local.UUID = idB // the server's own id; its Session for the client carries the client's id
	}
	localNum := devNum(local.UUID)
	sends := make([]*sent, len(h.Sends))
	groups := map[int64]bool{}
	for i, sp := range h.Sends {
		for try := 0; ; try++ {
			st := &sent{spec: sp}
			if sp.Random {
				st.payload = rng.Bytes(sp.Len)
			} else {
				st.payload = genPayload(sp.Seed, sp.Len)
			}
			p := &com.Packet{ID: uint8(sp.ID), Job: uint16(sp.Job), Flags: com.Flag(sp.Bits)}
			if !sp.DevEmpty {
				p.Device = idA
			}
			for t := 0; t < sp.Tags; t++ {
				p.Tags = append(p.Tags, uint32(0x1000+t))
			}
			p.Write(st.payload)
			snd.Prefill(sp.Prefill)
			func() {
				defer func() {
					if x := recover(); x != nil {
						st.perr = true
					}
				}()
				st.err = snd.Write(sp.Wait, p)
			}()
			q := snd.DrainSend()
			if len(q) < sp.Prefill {
				panic("prefilled packets vanished")
			}
			st.frs = q[sp.Prefill:]
			st.group, st.frag = 0, false
			if len(st.frs) > 0 && st.frs[0].Flags&com.FlagFrag != 0 {
				st.frag = true
				if sp.FixGroup {
					// the group id is a random draw of write (uint16(util.FastRand())): the history chooses
					// its value, as if the draw had returned it; SetGroup only replaces that field
					for _, f := range st.frs {
						f.Flags.SetGroup(uint16(sp.Group))
					}
				}
				st.group = int64(st.frs[0].Flags.Group())
			}
			if st.frag && !sp.FixGroup && groups[st.group] && try < 50 {
				continue // the random group id collided inside this history: draw again
			}
			if st.frag && sp.FixGroup && groups[st.group] {
				panic("history with two groups of the same explicit id")
			}
			if st.frag {
				groups[st.group] = true
			}
			for k, f := range st.frs {
				st.obs = append(st.obs, observe(f))
				var w []byte
				st.frs[k], w = transportWire(f)
				st.wire = append(st.wire, w)
			}
			sends[i] = st
			break
		}
	}
	// schedule
	var perSend [][]item
	for i, st := range sends {
		n := len(st.frs)
		idx := make([]int, n)
		for k := range idx {
			idx[k] = k
		}
		switch h.Order {
		case "identity":
		case "rev-after-first":
			for a, b := 1, n-1; a < b; a, b = a+1, b-1 {
				idx[a], idx[b] = idx[b], idx[a]
			}
		case "perm0":
			for a := n - 1; a > 1; a-- {
				b := 1 + rng.Intn(a)
				idx[a], idx[b] = idx[b], idx[a]
			}
		case "reversed":
			for a, b := 0, n-1; a < b; a, b = a+1, b-1 {
				idx[a], idx[b] = idx[b], idx[a]
			}
		case "anyperm":
			for a := n - 1; a > 0; a-- {
				b := rng.Intn(a + 1)
				idx[a], idx[b] = idx[b], idx[a]
			}
			if n > 1 && idx[0] == 0 {
				idx[0], idx[1] = idx[1], idx[0]
			}
		default:
			panic("order " + h.Order)
		}
		var its []item
		for _, k := range idx {
			if i == 0 && k == h.Omit {
				continue
			}
			its = append(its, item{i, k})
		}
		perSend = append(perSend, its)
	}
	var sched []item
	for _, e := range h.Sched {
		sched = append(sched, item{e[0], e[1]})
	}
	for len(h.Sched) == 0 && !listenMode {
		var live []int
		for i := range perSend {
			if len(perSend[i]) > 0 {
				live = append(live, i)
			}
		}
		if len(live) == 0 {
			break
		}
		i := live[rng.Intn(len(live))]
		if len(sched) > 0 && h.SweepsMid > 0 {
			for z := rng.Intn(h.SweepsMid + 1); z > 0; z-- {
				sched = append(sched, item{-1, 0})
			}
		}
		sched = append(sched, perSend[i][0])
		perSend[i] = perSend[i][1:]
	}
	for z := 0; z < h.SweepsEnd; z++ {
		sched = append(sched, item{-1, 0})
	}
	// receiver
	type delivery struct {
		id, job int
		payload []byte
	}
	var (
		outs          []string
		outsDesc      []interface{}
		delivered     []delivery
		anomalies     []string
		scenarioPanic bool
	)
	hopBits := func(sI, k int) int {
		x := 0
		for _, hb := range h.Hop {
			if hb[0] == sI && hb[1] == k {
				x |= hb[2]
			}
		}
		return x
	}
	packAt := map[int]int{}
	for _, pk := range h.Pack {
		packAt[pk[0]] = pk[1]
	}
	var schedTerms []string
	for si := 0; si < len(sched); si++ {
		it := sched[si]
		if it.s < 0 {
			func() {
				defer func() {
					if x := recover(); x != nil {
						anomalies = append(anomalies, fmt.Sprintf("panic in markSweepFrags at schedule position %d: %v", si, x))
						scenarioPanic = true
					}
				}()
				rcv.Sweep()
			}()
			outs = append(outs, "OoNone")
			outsDesc = append(outsDesc, "sweep")
			schedTerms = append(schedTerms, "ISweep")
			continue
		}
		var (
			err   error
			pan   bool
			inner = []item{it}
			arr   *com.Packet
		)
		if cnt := packAt[si]; cnt > 1 {
			inner = append([]item(nil), sched[si:si+cnt]...)
			var ps []*com.Packet
			var tt []string
			for _, x := range inner {
				if x.s < 0 {
					panic("pack over a wake-up")
				}
				ps = append(ps, sends[x.s].frs[x.k])
				tt = append(tt, fmt.Sprintf("(%d,%d)", x.s, x.k))
			}
			m, perr := c2.VerifC02Pack(idA, ps)
			if perr != nil {
				panic("pack: " + perr.Error())
			}
			arr = transport(m) // one buffer holds all of them, as read from a connection
			schedTerms = append(schedTerms, "(IMulti "+vh.List(tt)+")")
			si += cnt - 1
		} else {
			arr = sends[it.s].frs[it.k]
			if x := hopBits(it.s, it.k); x != 0 {
				arr.Flags |= com.Flag(x)
				schedTerms = append(schedTerms, fmt.Sprintf("(IFragB %d %d %d)", it.s, it.k, x))
			} else {
				schedTerms = append(schedTerms, fmt.Sprintf("(IFrag %d %d)", it.s, it.k))
			}
		}
		func() {
			defer func() {
				if x := recover(); x != nil {
					pan = true
				}
			}()
			err = rcv.Receive(arr)
		}()
		if pan {
			anomalies = append(anomalies, fmt.Sprintf("panic in receive() at schedule position %d", si))
			scenarioPanic = true
		}
		evs, drops := rcv.Events(), rcv.DrainSend()
		for _, e := range evs {
			delivered = append(delivered, delivery{int(e.ID), int(e.Job), append([]byte(nil), e.Payload()...)})
		}
		if len(inner) > 1 {
			// a container: receive() handles the packets one after the other; its reactions are attributed by
			// content (a delivery to the last fragment of that send in the container, an SvDrop answer by group and position)
			if err != nil || pan {
				anomalies = append(anomalies, fmt.Sprintf("Multi container at %d: err=%v panic=%v", si, err, pan))
			}
			usedE, usedD := make([]bool, len(evs)), make([]bool, len(drops))
			for xi, x := range inner {
				last := true
				for _, y := range inner[xi+1:] {
					if y.s == x.s {
						last = false
					}
				}
				o := sends[x.s].obs[x.k]
				done := false
				for di, d := range drops {
					if !usedD[di] && d.ID == c2.SvDrop && int64(d.Flags.Group()) == o.fgroup && int64(d.Flags.Position()) == o.fpos {
						usedD[di], done = true, true
						outs = append(outs, fmt.Sprintf("(OoDrop (%d,%d,%d,%d) %d)", d.Flags.Len(), d.Flags.Position(), d.Flags.Group(), uint16(d.Flags), devNum(d.Device)))
						outsDesc = append(outsDesc, fmt.Sprintf("SvDrop answer for group %d position %d", d.Flags.Group(), d.Flags.Position()))
						break
					}
				}
				if !done && last {
					for ei, e := range evs {
						if !usedE[ei] && int(e.ID) == sends[x.s].spec.ID && int(e.Job) == sends[x.s].spec.Job {
							usedE[ei], done = true, true
							oo := observe(e)
							outs = append(outs, "(OoDeliver "+oo.coq()+")")
							outsDesc = append(outsDesc, map[string]interface{}{"deliver": oo.desc()})
							break
						}
					}
				}
				if !done {
					outs = append(outs, "OoNone")
					outsDesc = append(outsDesc, "nothing")
				}
			}
			for ei := range evs {
				if !usedE[ei] {
					anomalies = append(anomalies, "Multi container: a delivery that belongs to none of its packets")
				}
			}
			for di := range drops {
				if !usedD[di] {
					anomalies = append(anomalies, "Multi container: an answer that belongs to none of its packets")
				}
			}
			continue
		}
		if len(evs) > 1 || len(drops) > 1 || (len(evs) > 0 && len(drops) > 0) || (err != nil && len(evs)+len(drops) > 0) {
			anomalies = append(anomalies, fmt.Sprintf("arrival (%d,%d): %d events, %d answers, err=%v", it.s, it.k, len(evs), len(drops), err))
		}
		switch {
		case pan:
			outs = append(outs, "(OoErr (-1))")
			outsDesc = append(outsDesc, "panic")
		case err != nil:
			outs = append(outs, fmt.Sprintf("(OoErr %s)", vh.Z(errCode(err))))
			outsDesc = append(outsDesc, "error: "+err.Error())
		case len(evs) > 0:
			o := observe(evs[0])
			outs = append(outs, "(OoDeliver "+o.coq()+")")
			outsDesc = append(outsDesc, map[string]interface{}{"deliver": o.desc()})
		case len(drops) > 0:
			d := drops[0]
			if d.ID != c2.SvDrop {
				anomalies = append(anomalies, fmt.Sprintf("answer with id %d", d.ID))
			}
			outs = append(outs, fmt.Sprintf("(OoDrop (%d,%d,%d,%d) %d)", d.Flags.Len(), d.Flags.Position(), d.Flags.Group(), uint16(d.Flags), devNum(d.Device)))
			outsDesc = append(outsDesc, fmt.Sprintf("SvDrop answer for group %d position %d", d.Flags.Group(), d.Flags.Position()))
		default:
			outs = append(outs, "OoNone")
			outsDesc = append(outsDesc, "nothing")
		}
	}
	// the same through the REAL listen loop of a client Session: one pass per WakeSpec
	var (
		wakeTerms []string
		wakeDesc  []interface{}
		errsTerms []string
		stopped   bool
		lloop     *c2.VerifC02Loop
		lp        *lprof
	)
	if listenMode {
		lp = &lprof{arrived: make(chan struct{}), steps: make(chan *lstep), v: rcv}
		lloop = rcv.Listen(lp)
		parked := func() bool {
			select {
			case <-lp.arrived:
				return true
			case <-lloop.Done:
				return false
			case <-time.After(20 * time.Second):
				anomalies = append(anomalies, "listen() neither asked for the next pass nor returned within 20 s")
				return false
			}
		}
		alive := parked()
		for _, w := range h.Wakes {
			if !alive {
				break // listen() has returned ("too many errors"): the remaining passes never happen
			}
			st := &lstep{kind: w.Kind, sw: w.Sw}
			if w.Kind == "frag" {
				st.wire = sends[w.S].wire[w.K]
			}
			lp.steps <- st
			alive = parked()
			evs, drops := rcv.Events(), rcv.DrainSend()
			for k := 0; k < len(drops); k++ { // what the client had to send anyway is not an answer
				if drops[k].ID != c2.SvDrop {
					drops = append(drops[:k], drops[k+1:]...)
					k--
				}
			}
			en := rcv.Errors()
			errsTerms = append(errsTerms, vh.Z(int64(en)))
			switch w.Kind {
			case "refused":
				wakeTerms = append(wakeTerms, fmt.Sprintf("(LIRefused %s)", vh.B(w.Sw)))
			case "lost":
				wakeTerms = append(wakeTerms, fmt.Sprintf("(LILost %s)", vh.B(w.Sw)))
			default:
				wakeTerms = append(wakeTerms, fmt.Sprintf("(LIFrag %s %d %d)", vh.B(w.Sw), w.S, w.K))
			}
			wakeDesc = append(wakeDesc, map[string]interface{}{"wake": w, "errors_after": en})
			if w.Kind != "frag" {
				if len(evs)+len(drops) > 0 {
					anomalies = append(anomalies, fmt.Sprintf("a pass without a packet produced %d events, %d answers", len(evs), len(drops)))
				}
				continue
			}
			// for the oracle this is one arrival at the protocol's cadence (one wake-up before it); the failed
			// passes are not wake-ups of the protocol: nothing that was sent is lost in them
			sched = append(sched, item{-1, 0}, item{w.S, w.K})
			if len(evs) > 1 || len(drops) > 1 || (len(evs) > 0 && len(drops) > 0) {
				anomalies = append(anomalies, fmt.Sprintf("arrival (%d,%d): %d events, %d answers", w.S, w.K, len(evs), len(drops)))
			}
			for _, e := range evs {
				delivered = append(delivered, delivery{int(e.ID), int(e.Job), append([]byte(nil), e.Payload()...)})
			}
			switch {
			case len(evs) > 0:
				o := observe(evs[0])
				outs = append(outs, "(OoDeliver "+o.coq()+")")
				outsDesc = append(outsDesc, map[string]interface{}{"deliver": o.desc()})
			case len(drops) > 0:
				d := drops[0]
				outs = append(outs, fmt.Sprintf("(OoDrop (%d,%d,%d,%d) %d)", d.Flags.Len(), d.Flags.Position(), d.Flags.Group(), uint16(d.Flags), devNum(d.Device)))
				outsDesc = append(outsDesc, fmt.Sprintf("SvDrop answer for group %d position %d", d.Flags.Group(), d.Flags.Position()))
			case en != 0: // session() reported the exchange failed although the packet was read: receive() returned an error
				outs = append(outs, "(OoErr 0)")
				outsDesc = append(outsDesc, "receive() error")
			default:
				outs = append(outs, "OoNone")
				outsDesc = append(outsDesc, "nothing")
			}
		}
		stopped = !alive
	}
	residue := rcv.Frags()
	if listenMode {
		if !stopped {
			close(lp.steps)
			select {
			case <-lloop.Done:
			case <-time.After(20 * time.Second):
				anomalies = append(anomalies, "listen() did not return after its connector only refused")
			}
		}
		if x := lloop.Panic(); x != "" {
			anomalies = append(anomalies, "panic in listen(): "+x)
			scenarioPanic = true
		}
	}

	// ---- oracle: the property, evaluated on the implementation
	arrived := make([]map[int]int, len(sends))
	firstPos := make([]int, len(sends))
	for i := range arrived {
		arrived[i] = map[int]int{}
		firstPos[i] = -1
	}
	// wake-ups: since[i] = wake-ups since the last arrival of a fragment of send i, maxIdle[i] = the most
	// wake-ups between two successive arrivals of send i, maxGap = the most wake-ups between two
	// successive arrivals of anything.  A real client wakes up ONCE per exchange and an exchange with a
	// server that still holds fragments brings at least one packet (Session.next), so maxGap <= 1 is
	// the cadence of the protocol; maxGap >= 2 describes a sender that stalled for whole wake-ups.
	since := make([]int, len(sends))
	maxIdle := make([]int, len(sends))
	gap, maxGap, seenAny := 0, 0, false
	for _, it := range sched {
		if it.s < 0 {
			for i := range since {
				since[i]++
			}
			gap++
			continue
		}
		if firstPos[it.s] < 0 {
			firstPos[it.s] = int(sends[it.s].obs[it.k].fpos)
		} else if since[it.s] > maxIdle[it.s] {
			maxIdle[it.s] = since[it.s]
		}
		since[it.s] = 0
		if seenAny && gap > maxGap {
			maxGap = gap
		}
		gap, seenAny = 0, true
		arrived[it.s][it.k]++
	}
	stalled := maxGap >= 2
	nontrivial, emptyFrag, overflow, notPos0, idleFive, otherFail := false, false, false, false, false, false
	var fails []string
	used := make([]bool, len(delivered))
	for i, st := range sends {
		sp := st.spec
		queuedOK := st.err == nil && !st.perr // write accepted the packet
		want := plannedCount(sp)
		if len(st.frs) > 1 {
			nontrivial = true
		}
		for _, o := range st.obs {
			if o.n == 0 && o.flen > 1 {
				emptyFrag = true
			}
		}
		// write(true, ...) of a FRAGMENTED packet with fewer free slots than fragments: the unchanged code
		// has no room check on this path (only write(false, ...) has one) and queue() drops silently
		ovf := sp.Wait && want > 1 && sp.Prefill+want > snd.SendCap()
		np0 := len(st.frs) > 1 && firstPos[i] > 0
		allArrived := true
		for k := range st.frs {
			if arrived[i][k] == 0 {
				allArrived = false
			}
		}
		// five wake-ups without a fragment of the group: the client abandons it (markSweepFrags).  When
		// the sender stalled this is the time-out working as designed and the property (which speaks
		// of arrival orders, not of time) demands nothing; at the protocol's own cadence it means four
		// foreign transmissions were interleaved between two fragments: that loss is the property's.
		timedOut := len(st.frs) > 1 && maxIdle[i] >= fragMaxMisses
		nf := len(fails)
		complete := queuedOK && allArrived
		// which deliveries carry this send's (id, job)?
		var mine []int
		for d, dl := range delivered {
			if dl.id == sp.ID && dl.job == sp.Job && !used[d] {
				mine = append(mine, d)
			}
		}
		for _, d := range mine {
			used[d] = true
		}
		if timedOut && stalled {
			// no demand (a delivery, if any, is still checked for exactness below through `used`)
			if len(mine) == 1 && !bytes.Equal(delivered[mine[0]].payload, st.payload) {
				fails = append(fails, fmt.Sprintf("send %d delivered with a different payload", i))
			}
		} else if complete {
			switch {
			case len(mine) == 0:
				fails = append(fails, fmt.Sprintf("send %d (payload %d bytes, %d fragments queued of %d): all queued fragments arrived but nothing was delivered", i, sp.Len, len(st.frs), want))
			case len(mine) > 1:
				fails = append(fails, fmt.Sprintf("send %d delivered %d times", i, len(mine)))
			case !bytes.Equal(delivered[mine[0]].payload, st.payload):
				fails = append(fails, fmt.Sprintf("send %d delivered with a different payload (%d bytes for %d)", i, len(delivered[mine[0]].payload), len(st.payload)))
			}
			if st.frag {
				for _, r := range residue {
					if int64(r.Group) == st.group && len(mine) > 0 {
						fails = append(fails, fmt.Sprintf("send %d: completed group 0x%X left a cluster behind", i, st.group))
					}
				}
			}
		} else if len(mine) > 0 {
			fails = append(fails, fmt.Sprintf("send %d: a group with a missing fragment (or a refused packet) was delivered", i))
		}
		if len(fails) > nf { // a finding's key is used only when EVERY failure of the history is "not delivered" of a send of that shape
			switch {
			case ovf && len(mine) == 0:
				overflow = true
			case np0 && len(mine) == 0:
				notPos0 = true
			case timedOut && !stalled && len(mine) == 0:
				idleFive = true
			default:
				otherFail = true
			}
		}
	}
	for d := range delivered {
		if !used[d] {
			fails = append(fails, fmt.Sprintf("a packet nobody sent was delivered (id %d job %d)", delivered[d].id, delivered[d].job))
			otherFail = true
		}
	}
	// residual state: a table entry without a cluster is never legitimate, and on a client a group that saw
	// none of its fragments during the last fragMaxMisses wake-ups must be gone (markSweepFrags)
	for _, r := range residue {
		if r.C < 0 {
			fails = append(fails, fmt.Sprintf("group 0x%X is still in the reassembly table with a nil cluster", r.Group))
			otherFail = true
		}
	}
	if !listenMode {
		for i, st := range sends {
			if st.frag && firstPos[i] >= 0 && since[i] >= fragMaxMisses {
				for _, r := range residue {
					if int64(r.Group) == st.group {
						fails = append(fails, fmt.Sprintf("send %d: group 0x%X saw no fragment during the last %d wake-ups and is still in the reassembly table", i, st.group, since[i]))
						otherFail = true
					}
				}
			}
		}
	}
	for _, a := range anomalies {
		fails = append(fails, a)
		otherFail = true
	}

	// ---- description / Coq term
	var sendTerms []string
	var sendDesc []interface{}
	for _, st := range sends {
		sp := st.spec
		dev := int64(1)
		if sp.DevEmpty {
			dev = 0
		}
		ec := errCode(st.err)
		if st.perr {
			ec = -1
		}
		ob := make([]string, len(st.obs))
		od := make([]interface{}, len(st.obs))
		for k, o := range st.obs {
			ob[k] = o.coq()
			od[k] = o.desc()
		}
		sendTerms = append(sendTerms, fmt.Sprintf("(mkSend %d %s %d %d %d %d %d %d %d %d %d %s %s)", localNum, vh.B(sp.Wait), sp.Prefill,
			st.group, sp.ID, sp.Job, dev, sp.Bits, sp.Tags, sp.Seed%251, sp.Len, vh.Z(ec), vh.List(ob)))
		sendDesc = append(sendDesc, map[string]interface{}{"spec": sp, "write_error": fmt.Sprint(st.err), "queued": od})
	}
	var schedDesc []interface{}
	for _, it := range sched {
		if it.s < 0 {
			schedDesc = append(schedDesc, "sweep")
		} else {
			schedDesc = append(schedDesc, []int{it.s, it.k})
		}
	}
	var resTerms []string
	for _, r := range residue {
		resTerms = append(resTerms, fmt.Sprintf("(%d,(%s,%s,%s,%s))", r.Group, vh.Z(int64(r.Max)), vh.Z(int64(r.E)), vh.Z(int64(r.C)), vh.Z(int64(r.N))))
	}
	desc := map[string]interface{}{"history": h, "F": F, "sends": sendDesc, "arrivals": schedDesc, "outcomes": outsDesc, "residue": residue}
	class := h.Class + "/" + h.Dir
	tok.mu.Lock()
	defer tok.mu.Unlock()
	if tok.abandoned {
		return
	}
	if h.NoModel || anyRandom(h) {
		out.Count(class, fmt.Sprint(h), nontrivial)
	} else {
		term := fmt.Sprintf("CHist %d %d %s 1 %s %s %s", F, snd.SendCap(), vh.List(sendTerms), vh.List(schedTerms), vh.List(outs), vh.List(resTerms))
		if listenMode {
			desc["passes"] = wakeDesc
			desc["loop_ended"] = stopped
			term = fmt.Sprintf("CListen %d %d %s 1 %s %s %s %s %s", F, snd.SendCap(), vh.List(sendTerms), vh.List(wakeTerms), vh.List(outs),
				vh.List(errsTerms), vh.B(stopped), vh.List(resTerms))
		}
		out.Add(term, class, nontrivial, desc)
	}
	if len(fails) > 0 {
		// the key is the SHAPE of the input, never the outcome
		var key string
		switch {
		case scenarioPanic:
			key = "scenario-panic"
		case overflow && !otherFail:
			key = "write-true-fragments-exceed-free-slots"
		case notPos0 && !otherFail:
			key = "first-arrival-not-pos0"
		case idleFive && !otherFail:
			key = "idle-five-wakeups-at-protocol-cadence"
		default:
			key = h.Dir + "/" + h.Order
			if emptyFrag {
				key += "/empty-trailing-fragment"
			}
			if h.SweepsMid > 0 {
				key += "/sweeps-between"
			}
			if len(h.Sends) > 1 {
				key += "/interleaved"
			}
			if listenMode {
				key += "/listen-loop"
			}
		}
		desc["failures"] = fails
		out.Fail(fails[0], key, desc)
	}
}

func anyRandom(h HistSpec) bool {
	for _, s := range h.Sends {
		if s.Random {
			return true
		}
	}
	return false
}

// number of fragments Session.write is expected to build (only used for the KEY of a failure and
// the text of a message, never for the verdict): Size()/F + 1
func plannedCount(sp SendSpec) int {
	if sp.Len == 0 {
		return 1
	}
	s := sp.Len + 46 + 4*sp.Tags
	switch {
	case s < 256:
		s++
	case s < 65536:
		s += 2
	case s < 1<<32:
		s += 4
	default:
		s += 8
	}
	if s <= F {
		return 1
	}
	return s/F + 1
}

// ---------------------------------------------------------------- generators

var jobCounter = 100

func mkSend(rng *vh.Rand, n int) SendSpec {
	jobCounter++
	if jobCounter > 60000 {
		jobCounter = 100
	}
	bitsChoices := []int{0, 0, 0, 4, 8, 12, 0x200, 0x8000}
	sp := SendSpec{ID: 7 + rng.Intn(240), Job: jobCounter, Bits: bitsChoices[rng.Intn(len(bitsChoices))], Seed: rng.Intn(251), Len: n, Wait: rng.Intn(3) > 0}
	if rng.Intn(4) == 0 {
		sp.Tags = 1 + rng.Intn(3)
	}
	return sp
}

func main() {
	fl := vh.ParseFlags()
	out = vh.NewOut("C02", fl, "From XMT Require Import Base.Prelude Model.Frag.", "case", "check",
		"non-trivial = at least one packet of the history is split into two or more fragments")
	out.ShardSize = 8
	for i := range idA {
		idA[i] = byte(0xA0 + i%16)
		idB[i] = byte(0x40 + i%16)
	}
	saved := local.UUID
	defer func() { local.UUID = saved }()
	out.Extra("F", F)
	out.Extra("device_ids", "client id A=1, server id B=2 (distinct); 0 = empty")

	if fl.Replay != "" {
		b, err := os.ReadFile(fl.Replay)
		if err != nil {
			panic(err)
		}
		var r struct {
			Input struct {
				History HistSpec `json:"history"`
			} `json:"input"`
		}
		if err := json.Unmarshal(b, &r); err != nil {
			panic(err)
		}
		safeRun(r.Input.History)
		out.Finish()
		return
	}

	rng := vh.NewRand(fl.Seed)
	thorough := fl.Tier == "thorough"
	dirs := []string{"c2s", "s2c"}
	orders := []string{"identity", "rev-after-first", "perm0"}
	hn := 0
	hist := func(h HistSpec) {
		if h.OrderSeed == 0 {
			h.OrderSeed = rng.U64() | 1
		}
		if h.Dir == "" {
			h.Dir = dirs[hn%2]
		}
		hn++
		for i := range h.Sends { // device: the server always names the client; the client may leave it empty
			if h.Dir == "c2s" && (hn+i)%3 == 0 {
				h.Sends[i].DevEmpty = true
			}
		}
		safeRun(h)
	}
	plain := func(class string, n int, order string) HistSpec {
		return HistSpec{Class: class, Sends: []SendSpec{mkSend(rng, n)}, Order: order, Omit: -1}
	}

	// ---- corpus: one representative of every recorded defect / finding, both directions
	for _, d := range dirs {
		// (fixed) empty trailing fragment: P = F-10, P = F-50, P = 2F exactly
		for _, n := range []int{F - 10, F - 50, F - 51, 2 * F, 2*F - 1, F} {
			h := plain("corpus", n, "identity")
			h.Dir = d
			h.Sends[0].Tags = 0
			hist(h)
		}
	}
	{ // known finding: first arriving fragment is not position 0
		h := plain("corpus-finding", 2*F+100, "reversed")
		h.Dir = "c2s"
		hist(h)
		h = plain("corpus-finding", 3*F+7, "anyperm")
		h.Dir = "s2c"
		hist(h)
	}
	{ // known finding: more fragments than free slots in the send channel, write(true, …)
		h := plain("corpus-finding", 4*F+100, "identity")
		h.Dir = "c2s"
		h.Sends[0].Wait, h.Sends[0].Prefill, h.Sends[0].Tags = true, 125, 0
		hist(h)
		// the same with write(false, …): refused with ErrFullBuffer, nothing is queued, nothing is lost silently
		h = plain("corpus", 4*F+100, "identity")
		h.Dir = "c2s"
		h.Sends[0].Wait, h.Sends[0].Prefill, h.Sends[0].Tags = false, 125, 0
		hist(h)
		// exactly as many fragments as slots
		h = plain("corpus", 4*F+100, "identity")
		h.Dir = "s2c"
		h.Sends[0].Wait, h.Sends[0].Prefill, h.Sends[0].Tags = true, 123, 0
		hist(h)
		// an empty channel and 129 fragments (oracle only: 32 MiB are not materialised inside Coq)
		h = plain("corpus-finding-129", 128*F+5, "identity")
		h.Dir = "c2s"
		h.Sends[0].Wait, h.Sends[0].Tags, h.NoModel = true, 0, true
		hist(h)
		// 128 fragments fit exactly
		h = plain("corpus-128", 127*F+5, "perm0")
		h.Dir = "s2c"
		h.Sends[0].Wait, h.Sends[0].Tags, h.NoModel = true, 0, true
		hist(h)
	}
	{ // known finding: the protocol's cadence (one wake-up before every exchange), FOUR foreign transmissions
		// (fragments of group B, one per exchange) between two fragments of group A: the fifth wake-up,
		// the one that would fetch A1, removes A
		h := HistSpec{Class: "corpus-finding", Dir: "s2c", Order: "identity", Omit: -1,
			Sends: []SendSpec{mkSend(rng, F+100), mkSend(rng, 4*F+100)},
			Sched: [][2]int{{0, 0}, {-1, 0}, {1, 0}, {-1, 0}, {1, 1}, {-1, 0}, {1, 2}, {-1, 0}, {1, 3}, {-1, 0}, {0, 1}, {-1, 0}, {1, 4}}}
		hist(h)
		// three foreign transmissions: both groups are delivered
		h = HistSpec{Class: "corpus", Dir: "s2c", Order: "identity", Omit: -1,
			Sends: []SendSpec{mkSend(rng, F+100), mkSend(rng, 3*F+100)},
			Sched: [][2]int{{0, 0}, {-1, 0}, {1, 0}, {-1, 0}, {1, 1}, {-1, 0}, {1, 2}, {-1, 0}, {0, 1}, {-1, 0}, {1, 3}}}
		hist(h)
		// a sender that stalls for five wake-ups: the group is abandoned and the late fragment is answered
		// with SvDrop (the time-out; no demand of the property), four wake-ups are survived
		for _, z := range []int{5, 4} {
			h = HistSpec{Class: "corpus-stall", Dir: "s2c", Order: "identity", Omit: -1, Sends: []SendSpec{mkSend(rng, 2*F+100)},
				Sched: [][2]int{{0, 0}, {-1, 0}, {0, 1}}}
			for ; z > 0; z-- {
				h.Sched = append(h.Sched, [2]int{-1, 0})
			}
			h.Sched = append(h.Sched, [2]int{0, 2})
			hist(h)
		}
	}
	// ---- chosen group ids (the draw of write is uint16(util.FastRand()): every value is possible): the ids a
	// zero-initialised list, a sign or an off-by-one would hit, alone and next to other groups, with a
	// wake-up before every arrival (client side) and without (server side)
	{
		ids := []int{0, 1, 2, 0x7FFF, 0x8000, 0xFFFE, 0xFFFF}
		fixed := func(n, g int) SendSpec {
			sp := mkSend(rng, n)
			sp.FixGroup, sp.Group, sp.Tags = true, g, 0
			return sp
		}
		for gi, g := range ids {
			// alone, three fragments, wake-ups between them
			hist(HistSpec{Class: "group-ids", Dir: "s2c", Order: "identity", Omit: -1, Sends: []SendSpec{fixed(2*F+1000, g)},
				Sched: [][2]int{{-1, 0}, {0, 0}, {-1, 0}, {0, 2}, {-1, 0}, {-1, 0}, {0, 1}, {-1, 0}}})
			// next to a group with another chosen id and one with a drawn id; group 0 is pending while the others come and go
			o := ids[(gi+1)%len(ids)]
			hist(HistSpec{Class: "group-ids-interleaved", Dir: "s2c", Order: "identity", Omit: -1,
				Sends: []SendSpec{fixed(2*F+1000, g), fixed(F+500, o), mkSend(rng, F+700)},
				Sched: [][2]int{{0, 0}, {-1, 0}, {1, 0}, {-1, 0}, {2, 0}, {-1, 0}, {0, 1}, {-1, 0}, {1, 1}, {-1, 0}, {-1, 0}, {2, 1}, {-1, 0}, {0, 2}, {-1, 0}}})
			// an incomplete group of that id is swept after five wake-ups, another group that keeps arriving is not
			hist(HistSpec{Class: "group-ids-omission", Dir: "s2c", Order: "identity", Omit: -1,
				Sends: []SendSpec{fixed(2*F+1000, g), fixed(3*F+500, o)},
				Sched: [][2]int{{0, 0}, {-1, 0}, {1, 0}, {-1, 0}, {0, 1}, {-1, 0}, {-1, 0}, {1, 1}, {-1, 0}, {-1, 0}, {1, 2}, {-1, 0}, {-1, 0}, {1, 3}, {-1, 0}}})
			// server side (never sweeps), random order
			h := HistSpec{Class: "group-ids", Dir: "c2s", Order: "perm0", Omit: -1, Sends: []SendSpec{fixed(2*F+1000, g), fixed(F+500, o)}}
			hist(h)
		}
	}
	// ---- hop flags: session()/channelWrite set FlagChannel / FlagChannelEnd on whatever packet goes out next,
	// a proxy sets FlagProxy: the fragments of one group may differ in their low flag bits (Belongs must not care)
	{
		ch, che, px := int(com.FlagChannel), int(com.FlagChannelEnd), int(com.FlagProxy)
		for vi, hop := range [][][3]int{
			{{0, 1, ch}},                   // Channel starts after fragment 0 has gone
			{{0, 1, ch}, {0, 2, ch}},       // ... and stays
			{{0, 2, che}},                  // Channel ends with the last fragment
			{{0, 0, ch}, {0, 1, ch | che}}, // Channel over fragment 0, ended on fragment 1
			{{0, 1, px}, {0, 2, px}},       // the route changes to a proxy mid-group
			{{0, 0, px}, {0, 1, px | ch}, {0, 3, che}},
		} {
			for _, d := range dirs {
				h := plain("hop-flags", 3*F+1000, []string{"identity", "perm0", "rev-after-first"}[vi%3]) // 4 fragments
				h.Dir, h.Hop = d, hop
				h.Sends[0].Tags = 0
				if vi%2 == 1 { // next to another group whose fragments keep their bits
					h.Sends = append(h.Sends, mkSend(rng, F+500))
				}
				hist(h)
			}
		}
	}
	// ---- fragments that arrive inside ONE Multi container (one buffer, unpacked by receive()'s Multi branch),
	// followed by single fragments: a packet unpacked from a container must not share storage with its neighbours
	{
		mh := func(sends []SendSpec, sched [][2]int, pack [][2]int, dir string) {
			for i := range sends {
				sends[i].Tags = 0
			}
			hist(HistSpec{Class: "multi-container", Dir: dir, Order: "identity", Omit: -1, Sends: sends, Sched: sched, Pack: pack})
		}
		for _, d := range dirs {
			// Multi[A0, B0], A1, B1
			mh([]SendSpec{mkSend(rng, F+100000), mkSend(rng, F+70000)}, [][2]int{{0, 0}, {1, 0}, {0, 1}, {1, 1}}, [][2]int{{0, 2}}, d)
			// Multi[B0, A0], B1, A1 and the small last fragments packed too
			mh([]SendSpec{mkSend(rng, F+3000), mkSend(rng, F+70000)}, [][2]int{{1, 0}, {0, 0}, {1, 1}, {0, 1}}, [][2]int{{0, 2}, {2, 2}}, d)
			// three groups: Multi[A0, B0, C0], Multi[A1, B1], C1, C2
			mh([]SendSpec{mkSend(rng, F+5000), mkSend(rng, F+9000), mkSend(rng, 2*F+100)},
				[][2]int{{0, 0}, {1, 0}, {2, 0}, {0, 1}, {1, 1}, {2, 1}, {2, 2}}, [][2]int{{0, 3}, {3, 2}}, d)
			// a whole group in one container, and a group whose first fragment came alone
			mh([]SendSpec{mkSend(rng, F+2000), mkSend(rng, 2*F+2000)}, [][2]int{{1, 0}, {0, 0}, {0, 1}, {1, 2}, {1, 1}}, [][2]int{{1, 3}}, d)
			// an unfragmented packet between two first fragments
			mh([]SendSpec{mkSend(rng, F+40000), mkSend(rng, 900), mkSend(rng, F+60000)},
				[][2]int{{0, 0}, {1, 0}, {2, 0}, {2, 1}, {0, 1}}, [][2]int{{0, 3}}, d)
		}
	}
	// ---- the REAL listen loop of a client: [fragment; k failed passes; fragment; ...].  Failed passes
	// (refused connects, lost exchanges) lose nothing that was sent, and only a pass that follows an
	// error-free one sweeps (`if s.errors == 0`), so the group must survive any k the loop itself survives
	{
		fr := func(s, k int) WakeSpec { return WakeSpec{Kind: "frag", S: s, K: k} }
		lh := func(class string, sends []SendSpec, wakes []WakeSpec) {
			for i := range sends {
				sends[i].Tags = 0
			}
			hist(HistSpec{Class: class, Dir: "s2c", Order: "identity", Omit: -1, Sends: sends, Wakes: wakes})
		}
		for k := 0; k <= 6; k++ {
			for _, kind := range []string{"refused", "lost", "mixed"} {
				if kind == "mixed" && k < 2 {
					continue
				}
				var fails []WakeSpec
				for j := 0; j < k; j++ {
					kd := kind
					if kind == "mixed" {
						kd = []string{"refused", "lost"}[(j+k)%2]
					}
					fails = append(fails, WakeSpec{Kind: kd})
				}
				w := []WakeSpec{fr(0, 0)}
				w = append(w, fails...)
				w = append(w, fr(0, 2))
				w = append(w, fails...)
				w = append(w, fr(0, 1))
				lh("listen-"+kind, []SendSpec{mkSend(rng, 2*F+1000)}, w) // 6 lost exchanges in a row end the loop: the rest never arrives
			}
		}
		// Profile.Switch returning true (errors--, uint8) in failed passes and in the pass of a fragment
		lh("listen-switch", []SendSpec{mkSend(rng, 2*F+1000)}, []WakeSpec{fr(0, 0), {Kind: "refused"}, {Kind: "refused", Sw: true}, {Kind: "lost", Sw: true},
			{Kind: "refused"}, {Kind: "refused"}, {Kind: "frag", Sw: true, S: 0, K: 1}, {Kind: "frag", Sw: true, S: 0, K: 2}})
		// ... and with the counter at 0: it wraps to 255 and a refused connect ends the loop
		lh("listen-switch", []SendSpec{mkSend(rng, F+1000)}, []WakeSpec{fr(0, 0), {Kind: "refused", Sw: true}, fr(0, 1)})
		// two groups, failures everywhere, three foreign exchanges between two fragments of the first
		lh("listen-interleaved", []SendSpec{mkSend(rng, F+1000), mkSend(rng, 2*F+500)}, []WakeSpec{fr(0, 0), {Kind: "refused"}, {Kind: "lost"}, fr(1, 0),
			{Kind: "refused"}, {Kind: "refused"}, {Kind: "refused"}, {Kind: "refused"}, fr(1, 2), {Kind: "lost"}, {Kind: "lost"}, {Kind: "lost"}, fr(1, 1),
			{Kind: "refused"}, {Kind: "refused"}, {Kind: "refused"}, {Kind: "refused"}, {Kind: "refused"}, fr(0, 1)})
		// seven refused connects: the loop ends, the last fragment never arrives, the group stays incomplete
		lh("listen-ended", []SendSpec{mkSend(rng, F+1000)}, []WakeSpec{fr(0, 0), {Kind: "refused"}, {Kind: "refused"}, {Kind: "refused"}, {Kind: "refused"},
			{Kind: "refused"}, {Kind: "refused"}, {Kind: "refused"}, fr(0, 1)})
	}
	// ---- occupancy of the send queue around the refusal rule of write: free slots in
	// {count-2 .. count+1} for counts 2, 3, 5, a full and an empty queue, write(false, ...) and write(true, ...).
	// write(false): refused with ErrFullBuffer (nothing queued) unless ALL fragments fit; write(true) with
	// too few slots is the recorded finding
	{
		capq := 128
		for _, cnt := range []int{2, 3, 5} {
			n := (cnt-1)*F + 1000
			if plannedCount(SendSpec{Len: n}) != cnt {
				panic("queue-boundary: fragment count")
			}
			for _, free := range []int{0, cnt - 2, cnt - 1, cnt, cnt + 1, capq} {
				for _, w := range []bool{false, true} {
					if free < 0 || (w && (free == 0 || free == capq)) {
						continue
					}
					h := plain("queue-boundary", n, "identity")
					h.Sends[0].Wait, h.Sends[0].Prefill, h.Sends[0].Tags = w, capq-free, 0
					hist(h)
				}
			}
		}
		// the single-packet path: refused unless two slots are free (len+1 >= cap)
		for _, free := range []int{0, 1, 2, 3} {
			for _, w := range []bool{false, true} {
				if w && free == 0 {
					continue
				}
				h := plain("queue-boundary", 5000, "identity")
				h.Sends[0].Wait, h.Sends[0].Prefill, h.Sends[0].Tags = w, capq-free, 0
				hist(h)
			}
		}
	}
	// unfragmented sizes around the limit, empty and small packets
	for _, n := range []int{0, 1, 100, 70000, F - 100, F - 60} {
		hist(plain("unfragmented", n, "identity"))
	}

	// ---- boundary grid: P = kF + d.  Size() = P + 50 + 4*tags, so the fragment count changes at
	// d = -50 - 4*tags and the last fragment is empty for d in [-50-4*tags, 0]: every d for k = 1, the
	// neighbourhood of each change for the larger k (quick), every d for every k (thorough)
	ks := []int{1, 2, 3, 5}
	edge := map[int]bool{}
	for _, d := range []int{-63, -62, -59, -58, -55, -54, -52, -51, -50, -49, -48, -30, -2, -1, 0, 1, 2, 30, 60} {
		edge[d] = true
	}
	if thorough {
		ks = []int{1, 2, 3, 4, 5, 8}
	}
	for _, k := range ks {
		for d := -60; d <= 60; d++ {
			if thorough && k >= 4 && !edge[d] { // the large sizes only around the changes of the fragment count
				continue
			}
			if !thorough { // k = 1: every third d plus the edges (the band below covers F-52-4t .. F+1 densely)
				switch {
				case k == 1 && !edge[d] && d%3 != 0:
					continue
				case k == 2 && !edge[d]:
					continue
				case k == 3 && (!edge[d] || d == -62 || d == -58 || d == -54 || d == -48 || d == 2 || d == 30):
					continue
				case k == 5 && d != -51 && d != -50 && d != 0 && d != 1:
					continue
				}
			}
			n := k*F + d
			var h HistSpec
			switch c := rng.Intn(9); {
			case c < 3:
				h = plain("grid", n, orders[c])
			case c < 5:
				h = plain("grid-interleaved", n, "perm0")
				for j := 1 + rng.Intn(2+k/3); j > 0; j-- {
					var on int
					switch rng.Intn(4) {
					case 0:
						on = rng.Intn(F - 100) // unfragmented traffic in between
					case 1:
						on = F - 60 + rng.Intn(120)
					default:
						on = F + rng.Intn(F)
					}
					h.Sends = append(h.Sends, mkSend(rng, on))
				}
			case c == 5: // the protocol's cadence: a wake-up before (almost) every arrival
				h = plain("grid-wakeups", n, "perm0")
				h.Dir = "s2c" // only a client Session ever runs markSweepFrags
				h.SweepsMid = 1
				if rng.Intn(2) == 0 {
					h.Sends = append(h.Sends, mkSend(rng, F/2+rng.Intn(F)))
				}
			case c == 6: // a stalling sender: up to 4 wake-ups before an arrival
				h = plain("grid-stall", n, "perm0")
				h.Dir = "s2c"
				h.SweepsMid = 2 + rng.Intn(3)
			default:
				h = plain("grid", n, orders[rng.Intn(3)])
			}
			hist(h)
			if thorough && k <= 3 && edge[d] { // every order class around the changes of the fragment count
				for _, o := range orders {
					hist(plain("grid", n, o))
				}
			}
		}
	}
	// P in F-H-1 .. F+1 for every tag count (H = 50 + 4*tags)
	for tags := 0; tags <= 3; tags++ {
		for n := F - 50 - 4*tags - 2; n <= F+1; n++ {
			if !thorough && tags > 0 && n > F-50-4*tags+2 && n < F-1 {
				continue
			}
			h := plain("band", n, orders[rng.Intn(3)])
			h.Sends[0].Tags = tags
			hist(h)
		}
	}
	// ---- every single-fragment omission (+ wake-ups afterwards)
	omitSizes := []int{F + 10, 2*F - 20, 3*F + 1, 4 * F}
	for _, n := range omitSizes {
		for k := 0; k < plannedCount(SendSpec{Len: n}); k++ {
			h := plain("omission", n, "perm0")
			h.Sends[0].Tags = 0
			h.Omit = k
			h.SweepsEnd = []int{0, 4, 5, 6}[rng.Intn(4)]
			if h.SweepsEnd > 0 {
				h.Dir = "s2c"
			}
			hist(h)
			if rng.Intn(2) == 0 { // with other traffic in between
				h = plain("omission-interleaved", n, "perm0")
				h.Sends[0].Tags = 0
				h.Omit = k
				h.Sends = append(h.Sends, mkSend(rng, F+rng.Intn(F)))
				hist(h)
			}
		}
	}
	// ---- random sizes and interleavings
	nr, big := 16, 3
	if thorough {
		nr, big = 200, 5
	}
	for i := 0; i < nr; i++ {
		var n int
		switch rng.Intn(5) {
		case 0:
			n = (1+rng.Intn(big+1))*F - rng.Intn(64)
		case 1:
			n = F/2 + rng.Intn(F)
		default:
			n = F + rng.Intn(big*F)
		}
		h := plain("random", n, orders[rng.Intn(3)])
		if rng.Intn(2) == 0 {
			h.Class = "random-interleaved"
			for j := 1 + rng.Intn(3); j > 0; j-- {
				h.Sends = append(h.Sends, mkSend(rng, rng.Intn((big-1)*F)))
			}
		}
		if rng.Intn(4) == 0 {
			h.Dir = "s2c"
			h.SweepsMid = rng.Intn(5)
			if h.SweepsMid > 1 {
				h.Class += "-stall"
			}
		}
		hist(h)
	}
	// random payload BYTES (oracle only): the code must not care what the bytes are
	nb := 12
	if thorough {
		nb = 200
	}
	for i := 0; i < nb; i++ {
		h := plain("random-bytes", F-64+rng.Intn(3*F), orders[rng.Intn(3)])
		h.Sends[0].Random = true
		if i%3 == 0 {
			s := mkSend(rng, F+rng.Intn(F))
			s.Random = true
			h.Sends = append(h.Sends, s)
		}
		hist(h)
	}
	if thorough { // more first-arrival-not-pos0 and many-fragment histories
		for i := 0; i < 20; i++ {
			hist(plain("finding-anyperm", F+rng.Intn(6*F), "anyperm"))
		}
		for _, k := range []int{16, 40, 100} {
			h := plain("many-fragments", k*F-rng.Intn(60), "perm0")
			h.NoModel = k > 16
			hist(h)
		}
	}
	out.Finish()
}
