// C20 harness: UTF-16 helpers, registry value decoding, FNV-1 against the Gallina model
// (cases.v) and against unicode/utf16 + hash/fnv (Go-side oracle).
package main

import (
	"fmt"
	"hash/fnv"
	"runtime/debug"
	"syscall"
	"unicode/utf16"
	"unicode/utf8"

	"github.com/iDigitalFlame/xmt/device/regedit"
	"github.com/iDigitalFlame/xmt/device/winapi"
	"github.com/iDigitalFlame/xmt/device/winapi/registry"

	"verifharness/vh"
)

var out *vh.Out

func runes64(r []rune) []int64 {
	o := make([]int64, len(r))
	for i, v := range r {
		o[i] = int64(v)
	}
	return o
}
func u16s64(r []uint16) []int64 {
	o := make([]int64, len(r))
	for i, v := range r {
		o[i] = int64(v)
	}
	return o
}
func eq16(a, b []uint16) bool {
	if len(a) != len(b) {
		return false
	}
	for i := range a {
		if a[i] != b[i] {
			return false
		}
	}
	return true
}
func eqR(a, b []rune) bool {
	if len(a) != len(b) {
		return false
	}
	for i := range a {
		if a[i] != b[i] {
			return false
		}
	}
	return true
}

type encRes struct {
	v     []uint16
	err   error
	panic bool
}

func (e encRes) coq() string {
	switch {
	case e.panic:
		return vh.ResPanic()
	case e.err == syscall.EINVAL:
		return vh.ResErr(22)
	case e.err != nil:
		return vh.ResErr(99)
	}
	return vh.ResOk(vh.ZList64(u16s64(e.v)))
}

func callEnc(strict bool, s []rune) (r encRes) {
	defer func() {
		if x := recover(); x != nil {
			r = encRes{panic: true}
		}
	}()
	if strict {
		v, err := winapi.VerifUtf16Encode(s)
		return encRes{v: v, err: err}
	}
	return encRes{v: winapi.UTF16EncodeStd(s)}
}

func hasInnerNul(s []rune) bool {
	for i, r := range s {
		if r == 0 && i+1 < len(s) {
			return true
		}
	}
	return false
}

func classOf(s []rune) string {
	c := "bmp"
	for _, r := range s {
		switch {
		case r >= 0x10000 && r <= 0x10FFFF:
			return "supplementary"
		case r < 0 || r > 0x10FFFF || (r >= 0xD800 && r < 0xE000):
			c = "invalid"
		}
	}
	if len(s) == 0 {
		return "empty"
	}
	return c
}

func doEnc(strict bool, s []rune) {
	r := callEnc(strict, s)
	name := "UTF16EncodeStd"
	if strict {
		name = "utf16Encode"
	}
	desc := map[string]interface{}{"fn": name, "runes": runes64(s)}
	out.Add(fmt.Sprintf("CEnc %s %s %s", vh.B(strict), vh.ZList64(runes64(s)), r.coq()), "enc-"+classOf(s), len(s) > 0, desc)
	// oracle: the standard encoding
	want := utf16.Encode(s)
	switch {
	case r.panic:
		out.Fail(name+" panicked", "enc-panic", desc)
	case strict && hasInnerNul(s):
		if r.err != syscall.EINVAL {
			out.Fail(name+" accepted an embedded NUL", "enc-nul", desc)
		}
	case r.err != nil:
		out.Fail(name+" returned an error on NUL-free input", "enc-err", desc)
	case !eq16(r.v, want):
		desc["got"] = u16s64(r.v)
		desc["want"] = u16s64(want)
		out.Fail(name+" differs from the standard UTF-16 encoding", "enc-std", desc)
	}
}

func doFromString(s string) {
	var r encRes
	func() {
		defer func() {
			if x := recover(); x != nil {
				r = encRes{panic: true}
			}
		}()
		v, err := winapi.UTF16FromString(s)
		r = encRes{v: v, err: err}
	}()
	rs := []rune(s)
	desc := map[string]interface{}{"fn": "UTF16FromString", "bytes": []byte(s), "runes": runes64(rs)}
	out.Add(fmt.Sprintf("CFromRunes %s %s", vh.ZList64(runes64(rs)), r.coq()), "fromstring-"+classOf(rs), len(rs) > 0, desc)
	nul := false
	for _, c := range rs {
		if c == 0 {
			nul = true
		}
	}
	want := append(utf16.Encode(rs), 0)
	switch {
	case r.panic:
		out.Fail("UTF16FromString panicked", "from-panic", desc)
	case nul:
		if r.err != syscall.EINVAL {
			out.Fail("UTF16FromString accepted a string containing NUL", "from-nul", desc)
		}
	case r.err != nil:
		out.Fail("UTF16FromString failed on a NUL-free string", "from-err", desc)
	case !eq16(r.v, want):
		desc["got"] = u16s64(r.v)
		desc["want"] = u16s64(want)
		out.Fail("UTF16FromString is not the standard encoding plus one terminator", "from-std", desc)
	default:
		if utf8.ValidString(s) {
			if back := winapi.UTF16ToString(r.v); back != s {
				out.Fail("UTF16ToString(UTF16FromString(s)) != s", "roundtrip", desc)
			}
		}
	}
	// the pointer pair: UTF16PtrFromString agrees with UTF16FromString (error or not) and
	// UTF16PtrToString reads back exactly the string on valid text
	func() {
		defer func() {
			if recover() != nil {
				out.Fail("UTF16PtrFromString / UTF16PtrToString panicked", "ptr-panic", desc)
			}
		}()
		p, err := winapi.UTF16PtrFromString(s)
		out.Count("ptr-from", s, len(rs) > 0)
		switch {
		case (err != nil) != (r.err != nil):
			out.Fail("UTF16PtrFromString and UTF16FromString disagree about the error", "ptr-from-err", desc)
		case err == nil && !nul && utf8.ValidString(s):
			if back := winapi.UTF16PtrToString(p); back != s {
				desc["back"] = []rune(back)
				out.Fail("UTF16PtrToString(UTF16PtrFromString(s)) != s", "ptr-roundtrip", desc)
			}
		}
	}()
}

func doDec(s []uint16) {
	var got []rune
	pan := false
	func() {
		defer func() {
			if recover() != nil {
				pan = true
			}
		}()
		got = winapi.UTF16Decode(s)
	}()
	desc := map[string]interface{}{"fn": "UTF16Decode", "units": u16s64(s)}
	if pan {
		out.Fail("UTF16Decode panicked", "dec-panic", desc)
		return
	}
	cl := "dec-plain"
	for _, u := range s {
		if u >= 0xD800 && u < 0xE000 {
			cl = "dec-surrogates"
		}
	}
	out.Add(fmt.Sprintf("CDec %s %s", vh.ZList64(u16s64(s)), vh.ZList64(runes64(got))), cl, len(s) > 0, desc)
	k := len(s)
	for i, u := range s {
		if u == 0 {
			k = i
			break
		}
	}
	// the pointer entry point: the same units, terminated at the first NUL, read through *uint16 -
	// must be the standard decoding up to that NUL (the scan is over 16-bit units, not bytes)
	func() {
		t := append(append(make([]uint16, 0, k+1), s[:k]...), 0)
		defer func() {
			if recover() != nil {
				out.Fail("UTF16PtrToString panicked", "ptr-dec-panic", desc)
			}
		}()
		gp := winapi.UTF16PtrToString(&t[0])
		out.Count("ptr-dec", fmt.Sprint(t), k > 0)
		if gp != string(utf16.Decode(s[:k])) {
			out.Fail("UTF16PtrToString is not the standard decoding up to the first NUL", "ptr-dec-std",
				map[string]interface{}{"fn": "UTF16PtrToString", "units": u16s64(t), "got": []rune(gp)})
		}
	}()
	if want := utf16.Decode(s[:k]); !eqR(got, want) {
		desc["got"], desc["want"] = runes64(got), runes64(want)
		out.Fail("UTF16Decode differs from the standard decoding up to the first NUL", "dec-std", desc)
	}
}

func doFnv(s string) {
	got := winapi.FnvHash(s)
	h := fnv.New32()
	h.Write([]byte(s))
	desc := map[string]interface{}{"fn": "FnvHash", "bytes": []byte(s)}
	out.Add(fmt.Sprintf("CFnv %s %d", vh.Str(s), got), "fnv", len(s) > 0, desc)
	if got != h.Sum32() {
		out.Fail("FnvHash differs from 32-bit FNV-1", "fnv", desc)
	}
}

// longProbe drives every length-sensitive entry point with inputs whose unit count sits around the
// widths a counter could be narrowed to (2^8, 2^15, 2^16): too long to be useful as Coq cases (the
// model has no width anywhere, its theorems are for every length), so these are compared with the
// standard library only.  The description carries the length and the pattern, not the units.
func longProbe() {
	pats := []struct {
		name string
		at   func(i int) rune
	}{
		{"ascii", func(i int) rune { return rune('a' + i%26) }},
		{"bmp", func(i int) rune { return rune(0x3041 + i%80) }},
		{"mixed", func(i int) rune {
			if i%3 == 0 {
				return rune(0x1F600 + i%64)
			}
			return rune('A' + i%26)
		}},
	}
	for _, n := range []int{254, 255, 256, 257, 32767, 32768, 32769, 65534, 65535, 65536, 65537, 70001, 131072, 131075} {
		for _, pt := range pats {
			rs := make([]rune, 0, n)
			units := 0
			for i := 0; units < n; i++ {
				r := pt.at(i)
				w := 1
				if r >= 0x10000 {
					w = 2
				}
				if units+w > n {
					r, w = 'z', 1
				}
				rs = append(rs, r)
				units += w
			}
			s := string(rs)
			want := utf16.Encode(rs)
			desc := map[string]interface{}{"fn": "long", "units": n, "pattern": pt.name}
			out.Count("long", fmt.Sprint(n, pt.name), true)
			func() {
				defer func() {
					if recover() != nil {
						out.Fail("a UTF-16 entry point panicked on a long input", "long-panic", desc)
					}
				}()
				t := append(append(make([]uint16, 0, n+1), want...), 0)
				if got := winapi.UTF16PtrToString(&t[0]); got != s {
					desc["got_bytes"] = len(got)
					desc["want_bytes"] = len(s)
					out.Fail("UTF16PtrToString is not the standard decoding up to the first NUL (long input)", "ptr-dec-std-long", desc)
				}
				if got := winapi.UTF16ToString(t); got != s {
					out.Fail("UTF16ToString is not the standard decoding up to the first NUL (long input)", "dec-std-long", desc)
				}
				if got := winapi.UTF16Decode(want); !eqR(got, rs) {
					out.Fail("UTF16Decode differs from the standard decoding (long input)", "dec-std-long", desc)
				}
				v, err := winapi.UTF16FromString(s)
				if err != nil || !eq16(v, t) {
					out.Fail("UTF16FromString is not the standard encoding plus one terminator (long input)", "from-std-long", desc)
				}
				p, err := winapi.UTF16PtrFromString(s)
				if err != nil {
					out.Fail("UTF16PtrFromString failed on a NUL-free string (long input)", "ptr-from-err-long", desc)
				} else if back := winapi.UTF16PtrToString(p); back != s {
					desc["got_bytes"] = len(back)
					desc["want_bytes"] = len(s)
					out.Fail("UTF16PtrToString(UTF16PtrFromString(s)) != s (long input)", "ptr-roundtrip-long", desc)
				}
				if e := winapi.UTF16EncodeStd(rs); !eq16(e, t) && !eq16(e, want) {
					out.Fail("UTF16EncodeStd differs from the standard encoding (long input)", "enc-std-long", desc)
				}
				h := fnv.New32()
				h.Write([]byte(s))
				if winapi.FnvHash(s) != h.Sum32() {
					out.Fail("FnvHash differs from 32-bit FNV-1 (long input)", "fnv-long", desc)
				}
				// registry: a REG_SZ / REG_MULTI_SZ value of that many units
				b := make([]byte, 0, 2*n+4)
				for _, u := range want {
					b = append(b, byte(u), byte(u>>8))
				}
				b = append(b, 0, 0)
				e := regedit.Entry{Type: 1, Data: b}
				if got, err := e.ToString(); err != nil || got != s {
					out.Fail("Entry.ToString is not the value's text (long input)", "entry-string-long", desc)
				}
				e = regedit.Entry{Type: 7, Data: append(b, 0, 0)}
				if got, err := e.ToStringList(); err != nil || len(got) != 1 || got[0] != s {
					out.Fail("Entry.ToStringList is not the value's list (long input)", "entry-list-long", desc)
				}
			}()
		}
	}
}

func regErr(err error) string {
	switch err {
	case registry.ErrUnexpectedType:
		return vh.ResErr(1)
	case registry.ErrUnexpectedSize:
		return vh.ResErr(2)
	}
	return vh.ResErr(99)
}

// outsideProbe evaluates the three decoders on the value placed in front of two different tails
// (zeros / 0xAA 0x55 ...), with the slice capped at the value's own length: "never reads outside the
// value" means the results cannot depend on the bytes that follow it.
var (
	guard     []byte
	guardPage int
)

func initGuard() {
	ps := syscall.Getpagesize()
	m, err := syscall.Mmap(-1, 0, 2*ps, syscall.PROT_READ|syscall.PROT_WRITE, syscall.MAP_ANON|syscall.MAP_PRIVATE)
	if err != nil {
		return
	}
	if syscall.Mprotect(m[ps:], syscall.PROT_NONE) != nil {
		return
	}
	guard, guardPage = m, ps
}

func outsideProbe(ty uint32, d []byte) {
	res := func(tail byte) (r string) {
		buf := make([]byte, len(d)+16)
		copy(buf, d)
		for i := len(d); i < len(buf); i++ {
			buf[i] = tail
			if tail != 0 && i%2 == 1 {
				buf[i] = tail ^ 0xFF
			}
		}
		e := regedit.Entry{Name: "v", Type: ty, Data: buf[:len(d):len(d)]}
		defer func() {
			if x := recover(); x != nil {
				r = "panic"
			}
		}()
		s, e1 := e.ToString()
		l, e2 := e.ToStringList()
		v, e3 := e.ToInteger()
		return fmt.Sprintf("%q %v | %q %v | %d %v", s, e1, l, e2, v, e3)
	}
	a, b := res(0), res(0xAA)
	out.Count("entry-outside-probe", fmt.Sprintf("%d:%x", ty, d), len(d) >= 3)
	// guard page: the value ends exactly at the end of a mapped page, the next page is PROT_NONE; a
	// read of even one byte outside the value faults (made a recoverable panic by SetPanicOnFault)
	if guard != nil && len(d) > 0 && len(d) <= guardPage {
		v := guard[guardPage-len(d) : guardPage : guardPage]
		copy(v, d)
		func() {
			old := debug.SetPanicOnFault(true)
			defer debug.SetPanicOnFault(old)
			defer func() {
				if x := recover(); x != nil {
					out.Fail("Entry.To* read beyond the end of the value (fault on the guard page behind it)", "entry-reads-outside",
						map[string]interface{}{"fn": "Entry.To*", "type": ty, "data": d, "fault": fmt.Sprint(x)})
				}
			}()
			e := regedit.Entry{Name: "v", Type: ty, Data: v}
			e.ToString()
			e.ToStringList()
			e.ToInteger()
		}()
	}
	if a != b {
		out.Fail("Entry.To* depends on the bytes that FOLLOW the value (reads outside the value)", "entry-reads-outside",
			map[string]interface{}{"fn": "Entry.To*", "type": ty, "data": d, "with_zero_tail": a, "with_aa55_tail": b})
	}
}

func doEntry(ty uint32, d []byte) {
	outsideProbe(ty, d)
	e := regedit.Entry{Name: "v", Type: ty, Data: d}
	desc := map[string]interface{}{"fn": "Entry.To*", "type": ty, "data": d}
	cl := fmt.Sprintf("entry-type%d", ty)
	if ty > 11 {
		cl = "entry-typeother"
	}
	// ToString
	func() {
		defer func() {
			if recover() != nil {
				out.Add(fmt.Sprintf("CEntStr %d %s Panic", ty, vh.Bytes(d)), cl, true, desc)
				out.Fail("Entry.ToString panicked", "entry-panic", desc)
			}
		}()
		s, err := e.ToString()
		o := regErr(err)
		if err == nil {
			o = vh.ResOk(vh.ZList64(runes64([]rune(s))))
			// oracle: only the 2*floor(len/2) bytes of the value are interpreted
			u := make([]uint16, len(d)/2)
			for i := range u {
				u[i] = uint16(d[2*i]) | uint16(d[2*i+1])<<8
			}
			k := len(u)
			for i, x := range u {
				if x == 0 {
					k = i
					break
				}
			}
			if s != string(utf16.Decode(u[:k])) {
				out.Fail("Entry.ToString is not the decoding of the value's own bytes", "entry-str", desc)
			}
		}
		out.Add(fmt.Sprintf("CEntStr %d %s %s", ty, vh.Bytes(d), o), cl, len(d) >= 3, desc)
	}()
	func() {
		defer func() {
			if recover() != nil {
				out.Add(fmt.Sprintf("CEntList %d %s Panic", ty, vh.Bytes(d)), cl, true, desc)
				out.Fail("Entry.ToStringList panicked", "entry-panic", desc)
			}
		}()
		l, err := e.ToStringList()
		o := regErr(err)
		if err == nil {
			items := make([]string, len(l))
			for i := range l {
				items[i] = vh.ZList64(runes64([]rune(l[i])))
			}
			o = vh.ResOk(vh.List(items))
		}
		out.Add(fmt.Sprintf("CEntList %d %s %s", ty, vh.Bytes(d), o), cl, len(d) >= 3, desc)
	}()
	func() {
		defer func() {
			if recover() != nil {
				out.Add(fmt.Sprintf("CEntInt %d %s Panic", ty, vh.Bytes(d)), cl, true, desc)
				out.Fail("Entry.ToInteger panicked", "entry-panic", desc)
			}
		}()
		v, err := e.ToInteger()
		o := regErr(err)
		if err == nil {
			o = vh.ResOk(vh.ZU(v))
		}
		out.Add(fmt.Sprintf("CEntInt %d %s %s", ty, vh.Bytes(d), o), cl, len(d) >= 3, desc)
	}()
}

func main() {
	fl := vh.ParseFlags()
	out = vh.NewOut("C20", fl, "From XMT Require Import Base.Prelude Model.Utf16.", "case", "check",
		"exhaustive rune-class strings (ASCII, BMP, supplementary, lone surrogates, NUL, >U+10FFFF, negative) of length 0..L for both encoders, "+
			"exhaustive uint16-class sequences for the decoder, Go strings incl. invalid UTF-8, registry values of every type code and length 0..12, random tails; "+
			"distinct = distinct Coq case term, non-trivial = non-empty input (registry: >= 3 data bytes)")
	out.ShardSize = 1500
	initGuard()
	longProbe()
	out.Extra("guard_page", guard != nil)
	rng := vh.NewRand(fl.Seed)
	thorough := fl.Tier == "thorough"

	alpha := []rune{'a', 0x20AC, 0x1F600, 0x10FFFF, 0xD800, 0xDFFF, 0, 0x110000, -1, 0xFFFF, 0x10000}
	L := 3
	if thorough {
		L = 4
	}
	var rec func(cur []rune, depth int)
	rec = func(cur []rune, depth int) {
		s := append([]rune(nil), cur...)
		doEnc(true, s)
		doEnc(false, s)
		if depth == L {
			return
		}
		for _, a := range alpha {
			rec(append(cur, a), depth+1)
		}
	}
	rec(nil, 0)
	// longer random rune strings: every position of the interesting rune
	nr := 300
	if thorough {
		nr = 20000
	}
	for i := 0; i < nr; i++ {
		n := 1 + rng.Intn(24)
		s := make([]rune, n)
		for j := range s {
			switch rng.Intn(10) {
			case 0, 1:
				s[j] = rune(0x10000 + rng.Intn(0x100000))
			case 2:
				s[j] = rune(0xD800 + rng.Intn(0x800))
			case 3:
				s[j] = rune(int32(rng.U64()))
			case 4:
				s[j] = rune(rng.Intn(0x10000))
			default:
				s[j] = rune(1 + rng.Intn(0x7F))
			}
		}
		doEnc(rng.Bool(), s)
		// the same text as a Go string (lone surrogates become U+FFFD in the conversion)
		doFromString(string(s))
	}
	// strings: corpus + invalid UTF-8
	for _, s := range []string{"", "a", "ab", "\x00", "a\x00", "\x00a", "a\x00b", "😀", "😀😀ab", "a😀", "😀a", "€", "\xff", "a\xffb", "\xed\xa0\x80", "\xf4\x90\x80\x80",
		"C:\\Windows\\System32\\kernel32.dll", "日本語テキスト", "𝔘𝔫𝔦𝔠𝔬𝔡𝔢"} {
		doFromString(s)
		doFnv(s)
	}
	for i := 0; i < nr; i++ {
		doFromString(string(rng.Bytes(rng.Intn(12))))
		doFnv(string(rng.Bytes(rng.Intn(40))))
	}
	// decoder: exhaustive class sequences
	ualpha := []uint16{'a', 0, 0xD800, 0xDBFF, 0xDC00, 0xDFFF, 0xE000, 0xFFFF, 0xD7FF}
	DL := 4
	if thorough {
		DL = 5
	}
	var drec func(cur []uint16, depth int)
	drec = func(cur []uint16, depth int) {
		doDec(append([]uint16(nil), cur...))
		if depth == DL {
			return
		}
		for _, a := range ualpha {
			drec(append(cur, a), depth+1)
		}
	}
	drec(nil, 0)
	for i := 0; i < nr; i++ {
		n := rng.Intn(20)
		s := make([]uint16, n)
		for j := range s {
			if rng.Intn(3) == 0 {
				s[j] = uint16(0xD800 + rng.Intn(0x800))
			} else {
				s[j] = uint16(rng.U64())
			}
		}
		doDec(s)
	}
	// registry values
	types := []uint32{0, 1, 2, 3, 4, 7, 11, 5, 0xFFFFFFFF}
	for _, ty := range types {
		for n := 0; n <= 12; n++ {
			reps := 3
			if thorough {
				reps = 40
			}
			for k := 0; k < reps; k++ {
				d := make([]byte, n)
				for j := range d {
					switch rng.Intn(4) {
					case 0:
						d[j] = 0
					case 1:
						d[j] = byte('a' + rng.Intn(26))
					case 2:
						d[j] = 0xD8 + byte(rng.Intn(8))
					default:
						d[j] = byte(rng.U64())
					}
				}
				doEntry(ty, d)
			}
		}
	}
	// proper REG_MULTI_SZ / REG_SZ values
	mk := func(ss ...string) []byte {
		var b []byte
		for _, s := range ss {
			for _, u := range utf16.Encode([]rune(s)) {
				b = append(b, byte(u), byte(u>>8))
			}
			b = append(b, 0, 0)
		}
		return b
	}
	doEntry(7, append(mk("alpha", "beta", "😀"), 0, 0))
	doEntry(7, mk("alpha", "beta"))
	doEntry(7, mk("alpha", "beta")[:21])
	doEntry(1, mk("C:\\Program Files"))
	doEntry(2, mk("%SystemRoot%\\x")[:29])
	doEntry(1, []byte{0x3d, 0xd8, 0x00, 0xde, 0x41})
	// odd byte lengths of well-formed values (a trailing half unit), every string/list type
	for _, ty := range []uint32{1, 2, 7} {
		for _, v := range [][]byte{mk("a"), mk("a", "b"), mk("alpha", "beta"), append(mk("x"), 0, 0)} {
			for cut := 0; cut <= 3 && cut < len(v); cut++ {
				doEntry(ty, v[:len(v)-cut])
				doEntry(ty, append(append([]byte(nil), v[:len(v)-cut]...), 0x41))
			}
		}
	}
	out.Finish()
}
